(* C07, the TEXT form of idempotence:  W = M.fetch(S);  M.fetch(parse(W.as_str())) = W
   up to the line numbers of value words (the re-parsed words carry the lines of the printed text,
   and fetch hands source words on with their lines; everything else - names, nesting, order, headers,
   is_template flags, attributes, word texts and quotes, hence every printed form - is equal).
   Parts:
   A. fetch_lines: fetch is insensitive to the line numbers of source words (and, as in
      C05_observational, to headers / attributes / positions of source objects): observationally equal
      sources modulo word lines (leql; implied by equal lk-skeletons, lk_leql) give results equal
      modulo word lines (we), provided the canon oracle does not read word lines (the real canon is
      an as_str()).  This generalises C05_observational / C05_sources_skeleton, whose relations
      leq / skel keep word lines and are therefore too fine to be used here.
   B. refetch_pruned: the object form C07_refetch with the hidden templates removed.  fetch does NOT
      skip source objects with is_template < 0 (neither gwsp here nor get_without_substitution in
      the library look at is_template), but inside D07 the template copy re-entering as a source is
      dropped again (H_default_canonical), so fetching [prune W] gives W as fetching [W] does.
   C. as_str_shown: the printer at attributes level < 2 prints W as it prints [shown W] (hidden
      templates removed, is_template reset to 0), which C01_tree_level0 reads back; the side condition
      (removing hidden templates never changes a first child's merge flag) holds of every fetch
      result by the shape theorem of C04 (fetch_mstables).
   refetch_text composes A, B, C with C01 (parse_as_str_level0_dotted); refetch_text_nomultiple is
   the variant for masters without .multiple entries (every canon oracle).
   Hypotheses beyond those of C07_refetch: the master has no hidden object (nohids; true of every
   parsed master, parsed_master_nohids), canon is blind to word lines, and the shown part of W lies in
   C01's printable domain dtree_ok.
   Future work (not proved): derive dtree_ok (shown W) from conditions on M and S (it fails e.g. for
   a .multiple entry below a dotted-name prefix scope with several instances, and it needs words_ok
   of every source value and of the starred words the choice converter builds). *)
From Coq Require Import List Ascii String Bool Arith ZArith Lia.
From Phil Require Import Base Tokenizer Tree Parser Show ShowProofs Vars Choice Fetch FetchBasics FetchShape FetchDisabled
  FetchIdemLists FetchIdemBase FetchIdem FetchIdemNoMult FetchMergeObs ShowErase TreeRoundtrip ParserShape FetchExamples.
Import ListNotations.
Local Open Scope char_scope.

(* ====================================================================================== *)
(* A. word lines of the sources do not matter                                              *)
(* ====================================================================================== *)

(* ------------------------------------------------------------------ one-directional relation of outcomes *)
Definition rl {A B} (P:A -> B -> Prop) (r:res A) (r':res B) : Prop :=
  match r with Ok a => exists b, r' = Ok b /\ P a b | _ => True end.

Lemma rl_bind : forall A B C D (P:A -> B -> Prop) (Q:C -> D -> Prop) r r' f g,
  rl P r r' -> (forall a b, P a b -> rl Q (f a) (g b)) -> rl Q (bind r f) (bind r' g).
Proof.
  intros A B C D P Q r r' f g H Hf. destruct r as [a| |]; cbn; try exact I.
  destruct H as [b [E Hab]]. subst r'. cbn. apply Hf. exact Hab.
Qed.
Lemma rl_refl : forall A (P:A -> A -> Prop) r, (forall a, P a a) -> rl P r r.
Proof. intros A P r H. destruct r; cbn; eauto. Qed.
Lemma rl_ok : forall A B (P:A -> B -> Prop) a b, P a b -> rl P (Ok a) (Ok b).
Proof. intros. cbn. eauto. Qed.

(* ------------------------------------------------------------------ word lists up to lines *)
Definition wl (ws ws':list word) : Prop := map erase_word ws = map erase_word ws'.

Lemma wl_nil_inv : forall ws', wl [] ws' -> ws' = [].
Proof. intros [|w r] H; [reflexivity|discriminate]. Qed.
Lemma wl_cons_inv : forall w r ws', wl (w :: r) ws' ->
  exists w' r', ws' = w' :: r' /\ wv w' = wv w /\ wq w' = wq w /\ wl r r'.
Proof.
  intros w r [|w' r'] H; [discriminate|]. unfold wl in H. cbn [map] in H. injection H as E1 E2 E3.
  exists w', r'. auto.
Qed.
Lemma wl_length : forall ws ws', wl ws ws' -> length ws = length ws'.
Proof. intros ws ws' H. rewrite <- (map_length erase_word ws), H. apply map_length. Qed.
Lemma wl_wv : forall ws ws', wl ws ws' -> map wv ws = map wv ws'.
Proof.
  induction ws as [|w r IH]; intros ws' H.
  - rewrite (wl_nil_inv _ H). reflexivity.
  - destruct (wl_cons_inv _ _ _ H) as [w' [r' [E [Hv [_ Hr]]]]]. subst ws'. cbn. rewrite Hv, (IH _ Hr). reflexivity.
Qed.
Lemma wl_is_plain : forall name ws ws', wl ws ws' -> is_plain name ws = is_plain name ws'.
Proof.
  intros name [|w r] ws' H.
  - rewrite (wl_nil_inv _ H). reflexivity.
  - destruct (wl_cons_inv _ _ _ H) as [w' [r' [E [Hv [Hq Hr]]]]]. subst ws'.
    destruct r as [|x r].
    + rewrite (wl_nil_inv _ Hr). cbn. unfold isq. rewrite Hv, Hq. reflexivity.
    + destruct (wl_cons_inv _ _ _ Hr) as [x' [r2 [E _]]]. subst r'. reflexivity.
Qed.
Lemma wl_detect : forall ws ws' hp, wl ws ws' -> detect ws hp = detect ws' hp.
Proof.
  induction ws as [|w r IH]; intros ws' hp H.
  - rewrite (wl_nil_inv _ H). reflexivity.
  - destruct (wl_cons_inv _ _ _ H) as [w' [r' [E [Hv [Hq Hr]]]]]. subst ws'. cbn [detect].
    unfold isq. rewrite Hv, Hq. destruct (match wq w with QN => false | _ => true end || starts_star (wv w)); [reflexivity|].
    apply IH. exact Hr.
Qed.
Lemma wl_process_plus : forall alts ws ws', wl ws ws' -> process_plus alts ws = process_plus alts ws'.
Proof. intros alts ws ws' H. unfold process_plus. rewrite (wl_detect _ _ false H), (wl_wv _ _ H). reflexivity. Qed.

Lemma plus_values_line : forall vals l l' fl fl', plus_values vals l fl = LOk fl' -> plus_values vals l' fl = LOk fl'.
Proof.
  induction vals as [|v r IH]; intros l l' fl fl' H; [exact H|]. cbn [plus_values] in *.
  destruct (null v); [eapply IH; exact H|]. destruct (negb (fhas (lowers v) fl)); [discriminate|]. eapply IH; exact H.
Qed.
Lemma wl_plus_loop : forall ws ws' fl fl', wl ws ws' -> plus_loop ws fl = LOk fl' -> plus_loop ws' fl = LOk fl'.
Proof.
  induction ws as [|w r IH]; intros ws' fl fl' H Hl.
  - rewrite (wl_nil_inv _ H). exact Hl.
  - destruct (wl_cons_inv _ _ _ H) as [w' [r' [E [Hv [Hq Hr]]]]]. subst ws'. cbn [plus_loop] in *. rewrite Hv.
    destruct (plus_values (split_on plus (wv w)) (wline w) fl) as [fl1|v l] eqn:E1; [|discriminate].
    rewrite (plus_values_line _ _ (wline w') _ _ E1). eapply IH; eassumption.
Qed.
Lemma wl_normal_loop : forall single ig ws ws' fl fl', wl ws ws' ->
  normal_loop single ig ws fl = LOk fl' -> normal_loop single ig ws' fl = LOk fl'.
Proof.
  intros single ig. induction ws as [|w r IH]; intros ws' fl fl' H Hl.
  - rewrite (wl_nil_inv _ H). exact Hl.
  - destruct (wl_cons_inv _ _ _ H) as [w' [r' [E [Hv [Hq Hr]]]]]. subst ws'. cbn [normal_loop] in *. rewrite Hv.
    destruct (negb (fhas (lowers (unstar (wv w))) fl)).
    + destruct ((if starts_star (wv w) then true else single) && negb ig); [discriminate|]. eapply IH; eassumption.
    + eapply IH; eassumption.
Qed.

Lemma choice_fetch_wl : forall opt m ws ws' ig r, wl ws ws' ->
  choice_fetch opt m ws ig = Ok r -> choice_fetch opt m ws' ig = Ok r.
Proof.
  intros opt m ws ws' ig r H Hc. unfold choice_fetch, choice_fetch_x in *.
  destruct (is_plain_none m); [exact Hc|]. destruct (is_plain_auto m); [exact Hc|].
  unfold is_plain_auto, is_plain_none in *.
  rewrite <- (wl_is_plain (s_ "auto") _ _ H), <- (wl_is_plain (s_ "none") _ _ H).
  destruct (is_plain (s_ "auto") ws); [exact Hc|].
  cbv zeta in *. rewrite <- (wl_process_plus _ _ _ H), <- (wl_length _ _ H).
  destruct (mandatory opt || negb (is_plain (s_ "none") ws)); [|exact Hc].
  destruct (process_plus (map (fun w => unstar (wv w)) m) ws).
  - destruct (plus_loop ws (init_flags m [])) as [fl|v l] eqn:E; [|discriminate].
    rewrite (wl_plus_loop _ _ _ _ H E). exact Hc.
  - destruct (normal_loop (length ws =? 1)%nat ig ws (init_flags m [])) as [fl|v l] eqn:E; [|discriminate].
    rewrite (wl_normal_loop _ _ _ _ _ _ H E). exact Hc.
Qed.

Lemma wl_strings : forall ws ws', wl ws ws' -> strings_from_words ws = strings_from_words ws'.
Proof.
  intros ws ws' H. unfold strings_from_words, is_plain_none, is_plain_auto.
  rewrite (wl_is_plain _ _ _ H), (wl_is_plain _ _ _ H), (wl_wv _ _ H). reflexivity.
Qed.

(* ------------------------------------------------------------------ observational equality modulo word lines *)
Inductive oeql : obj -> obj -> Prop :=
  | oeql_def : forall h ws a h' ws' a', wl ws ws' -> oeql (Def h ws a) (Def h' ws' a')
  | oeql_scp : forall h ks a h' ks' a',
      (forall n, Forall2 oeql (omatch n ks) (omatch n ks')) -> oeql (Scp h ks a) (Scp h' ks' a').

Definition leql (l l':list obj) : Prop := forall n, Forall2 oeql (omatch n l) (omatch n l').

Lemma oeql_is_def : forall o o', oeql o o' -> is_def o = is_def o'.
Proof. intros o o' H. destruct H; reflexivity. Qed.
Lemma oeql_kids : forall o o', oeql o o' -> leql (okids o) (okids o').
Proof.
  intros o o' H. destruct H as [h ws a h' ws' a' _|h ks a h' ks' a' Hk]; cbn [okids].
  - intros n. constructor.
  - exact Hk.
Qed.
Lemma leql_app : forall a a' b b', leql a a' -> leql b b' -> leql (a ++ b) (a' ++ b').
Proof. intros a a' b b' H1 H2 n. rewrite !omatch_app. apply Forall2_app; [apply H1|apply H2]. Qed.
Lemma leql_nil : leql [] [].
Proof. intros n. constructor. Qed.
Lemma leql_flat_kids : forall os os', Forall2 oeql os os' -> leql (flat_map okids os) (flat_map okids os').
Proof.
  intros os os' H. induction H as [|o o' r r' Ho _ IH]; [apply leql_nil|].
  cbn [flat_map]. apply leql_app; [apply oeql_kids; exact Ho|exact IH].
Qed.

(* the skeleton with the word lines erased: names, disabled flags, word texts and quotes, nesting, order *)
Definition lk_hdr (h:hdr) : hdr := mkhdr (oname h) (odis h) 0 false 0 0.
Fixpoint lk (o:obj) : obj :=
  match o with
  | Def h ws _ => Def (lk_hdr h) (map erase_word ws) []
  | Scp h ks _ => Scp (lk_hdr h) (map lk ks) []
  end.

Lemma lk_hdr_inj : forall h h', lk_hdr h = lk_hdr h' -> oname h = oname h' /\ odis h = odis h'.
Proof.
  intros h h' H. split; [apply (f_equal oname) in H|apply (f_equal odis) in H]; exact H.
Qed.
Lemma lk_ohdr : forall o, ohdr (lk o) = lk_hdr (ohdr o).
Proof. destruct o; reflexivity. Qed.
Lemma lk_dis : forall o o', lk o = lk o' -> odis (ohdr o) = odis (ohdr o').
Proof. intros o o' H. apply (f_equal ohdr) in H. rewrite !lk_ohdr in H. apply lk_hdr_inj in H. apply H. Qed.
Lemma lk_def_inv : forall h ws a h' ws' a', lk (Def h ws a) = lk (Def h' ws' a') -> lk_hdr h = lk_hdr h' /\ wl ws ws'.
Proof. intros h ws a h' ws' a' H. split; [apply (f_equal ohdr) in H|apply (f_equal owords) in H]; exact H. Qed.
Lemma lk_scp_inv : forall h ks a h' ks' a', lk (Scp h ks a) = lk (Scp h' ks' a') -> lk_hdr h = lk_hdr h' /\ map lk ks = map lk ks'.
Proof. intros h ks a h' ks' a' H. split; [apply (f_equal ohdr) in H|apply (f_equal okids) in H]; exact H. Qed.

Definition oeqld (o o':obj) : Prop := oeql o o' /\ odis (ohdr o) = odis (ohdr o').

Lemma filter_oeqld : forall l l', Forall2 oeqld l l' -> Forall2 oeql (filter oactive l) (filter oactive l').
Proof.
  intros l l' H. induction H as [|o o' r r' [Ho Hd] _ IH]; [constructor|].
  cbn [filter]. assert (E : oactive o = oactive o') by (unfold oactive; rewrite Hd; reflexivity). rewrite E.
  destruct (oactive o'); [constructor; assumption|exact IH].
Qed.
Lemma Forall2_flat' : forall A B (R:B -> B -> Prop) (f g:A -> list B) l l',
  Forall2 (fun a a' => Forall2 R (f a) (g a')) l l' -> Forall2 R (flat_map f l) (flat_map g l').
Proof.
  intros A B R f g l l' H. induction H as [|a a' r r' Ha _ IH]; [constructor|].
  cbn [flat_map]. apply Forall2_app; assumption.
Qed.

Lemma lk_obs : forall o o', lk o = lk o' ->
  oeql o o' /\ forall n, Forall2 oeqld (gw n o) (gw n o').
Proof.
  induction o as [h ws a|h ks a IH] using obj_ind2; intros o' H.
  - destruct o' as [h' ws' a'|h' ks' a']; [|discriminate]. apply lk_def_inv in H. destruct H as [Hh Hw].
    apply lk_hdr_inj in Hh. destruct Hh as [Hn Hd].
    split; [constructor; exact Hw|].
    intros n. cbn [gw]. rewrite Hn, Hd. destruct (odis h' || negb (eqs (oname h') n)); [constructor|].
    constructor; [|constructor]. split; [constructor; exact Hw|exact Hd].
  - destruct o' as [h' ws' a'|h' ks' a']; [discriminate|]. apply lk_scp_inv in H. destruct H as [Hh Hk].
    apply lk_hdr_inj in Hh. destruct Hh as [Hn Hd].
    assert (Hks : Forall2 (fun k k' => lk k = lk k' /\ (oeql k k' /\ forall n, Forall2 oeqld (gw n k) (gw n k'))) ks ks').
    { clear Hn Hd. revert ks' Hk. induction IH as [|k r Hk0 _ IHr]; intros [|k' r'] Hk; try discriminate; constructor.
      - injection Hk as E _. split; [exact E|apply Hk0; exact E].
      - injection Hk as _ E. apply IHr. exact E. }
    assert (Hin : forall n, Forall2 oeqld (gwk n ks) (gwk n ks')).
    { intros n. unfold gwk. apply Forall2_flat'.
      clear -Hks. induction Hks as [|k k' r r' [Es [_ Hg]] _ IHr]; constructor; [|exact IHr].
      rewrite (lk_dis _ _ Es). destruct (odis (ohdr k')); [constructor|apply Hg]. }
    assert (Hraw : Forall2 oeqld ks ks').
    { clear -Hks. induction Hks as [|k k' r r' [Es [Ho _]] _ IHr]; constructor; [|exact IHr].
      split; [exact Ho|apply lk_dis; exact Es]. }
    assert (Ho : oeql (Scp h ks a) (Scp h' ks' a')).
    { constructor. intros n. unfold omatch. apply filter_oeqld. apply Hin. }
    split; [exact Ho|].
    intros n. cbn [gw]. rewrite Hn, Hd. destruct (odis h') eqn:Ed'; [constructor|].
    destruct (oname h') as [|c nm].
    + destruct n as [|c n]; [exact Hraw|apply Hin].
    + destruct (eqs (c :: nm) n); [constructor; [split; [exact Ho|cbn; congruence]|constructor]|].
      destruct (prefixb ((c :: nm) ++ ["."]) n); [apply Hin|constructor].
Qed.

Lemma lk_leql : forall l l', map lk l = map lk l' -> leql l l'.
Proof.
  intros l l' H n. unfold omatch. apply filter_oeqld. unfold gwk. apply Forall2_flat'.
  revert l' H. induction l as [|k r IH]; intros [|k' r'] H; try discriminate; constructor.
  - injection H as E _. rewrite (lk_dis _ _ E). destruct (odis (ohdr k')); [constructor|]. apply lk_obs. exact E.
  - injection H as _ E. apply IH. exact E.
Qed.

(* "$" is a matter of the word texts *)
Lemma wl_dollar : forall ws ws', wl ws ws' -> existsb word_has_dollar ws = existsb word_has_dollar ws'.
Proof.
  induction ws as [|w r IH]; intros ws' H.
  - rewrite (wl_nil_inv _ H). reflexivity.
  - destruct (wl_cons_inv _ _ _ H) as [w' [r' [E [Hv [_ Hr]]]]]. subst ws'. cbn [existsb].
    unfold word_has_dollar at 1 3. rewrite Hv, (IH _ Hr). reflexivity.
Qed.
Lemma lk_dollar : forall o o', lk o = lk o' -> obj_has_dollar o = obj_has_dollar o'.
Proof.
  induction o as [h ws a|h ks a IH] using obj_ind2; intros o' H.
  - destruct o' as [h' ws' a'|]; [|discriminate]. apply lk_def_inv in H. destruct H as [_ Hw]. cbn [obj_has_dollar]. apply wl_dollar. exact Hw.
  - destruct o' as [|h' ks' a']; [discriminate|]. apply lk_scp_inv in H. destruct H as [_ Hk].
    rewrite !has_dollar_scp. revert ks' Hk. induction IH as [|k r Hk0 _ IHr]; intros [|k' r'] Hk; try discriminate; [reflexivity|].
    injection Hk as E1 E2. cbn [existsb]. rewrite (Hk0 _ E1), (IHr _ E2). reflexivity.
Qed.
Lemma lk_dollar_list : forall l l', map lk l = map lk l' -> existsb obj_has_dollar l = existsb obj_has_dollar l'.
Proof.
  induction l as [|k r IH]; intros [|k' r'] H; try discriminate; [reflexivity|].
  injection H as E1 E2. cbn [existsb]. rewrite (lk_dollar _ _ E1), (IH _ E2). reflexivity.
Qed.

(* ------------------------------------------------------------------ results up to word lines *)
Fixpoint we (o:obj) : obj :=
  match o with
  | Def h ws a => Def h (map erase_word ws) a
  | Scp h ks a => Scp h (map we ks) a
  end.
Definition optwe (x y:option obj) : Prop := option_map we x = option_map we y.
Definition lwe (l l':list obj) : Prop := map we l = map we l'.

Lemma somes_we : forall l l', map (option_map we) l = map (option_map we) l' -> map we (somes l) = map we (somes l').
Proof.
  induction l as [|x l IH]; intros [|y l'] H; try discriminate; [reflexivity|].
  injection H as E1 E2. destruct x as [x|], y as [y|]; try discriminate; cbn [somes map].
  - injection E1 as E1. rewrite E1, (IH _ E2). reflexivity.
  - apply IH. exact E2.
Qed.
Lemma set_none_we : forall i l l', map (option_map we) l = map (option_map we) l' ->
  map (option_map we) (set_none i l) = map (option_map we) (set_none i l').
Proof.
  induction i as [|i IH]; intros [|x l] [|y l'] H; try discriminate; try reflexivity; cbn [set_none map] in *.
  - injection H as _ E. rewrite E. reflexivity.
  - injection H as E1 E2. rewrite E1, (IH _ _ E2). reflexivity.
Qed.

(* two candidate sources: the same located object, or "$"-free objects equal modulo word lines *)
Definition orl (s s':lsrc) : Prop :=
  s = s' \/ (oeql (lobj s) (lobj s') /\ oplain (lobj s) /\ oplain (lobj s')).

Lemma orl_is_def : forall s s', orl s s' -> is_def (lobj s) = is_def (lobj s').
Proof. intros s s' [E|[H _]]; [subst; reflexivity|apply oeql_is_def; exact H]. Qed.

Section Lines.
  Variable env : str -> option str.
  Variable canon : obj -> option obj -> res str.
  (* the canon oracle does not read word lines (the real one prints an extract_format) *)
  Hypothesis canon_lines : forall k c c', optwe c c' -> canon k c = canon k c'.

  Lemma def_fetch_value_l : forall dm h mws a s s', orl s s' ->
    rl optwe (def_fetch_value env dm h mws a s) (def_fetch_value env dm h mws a s').
  Proof.
    intros dm h mws a s s' [E|[Ho [Hp Hp']]]; [subst; apply rl_refl; reflexivity|].
    unfold def_fetch_value.
    destruct (lobj s) as [h0 ws0 a0|h0 ks0 a0] eqn:Es; destruct (lobj s') as [h1 ws1 a1|h1 ks1 a1] eqn:Es';
      inversion Ho as [x1 x2 x3 x4 x5 x6 Hw|]; subst; [|exact I].
    rewrite !resolve_plain by (cbn [owords]; eapply (proj1 (oplain_def _ _ _)); eassumption). cbn [bind owords].
    rewrite (wl_strings _ _ Hw).
    destruct (odeprecated (Def h mws a) && sval_eqb (strings_from_words ws1) (strings_from_words mws)); [apply rl_ok; reflexivity|].
    assert (Hd : rl optwe (Ok (Some (dcopy h a ws0))) (Ok (Some (dcopy h a ws1)))).
    { apply rl_ok. unfold optwe, dcopy. cbn. unfold wl in Hw. rewrite Hw. reflexivity. }
    destruct (get_attr (s_ "type") a) as [| | | | |t]; try exact Hd.
    destruct t; try exact Hd.
    - destruct (choice_fetch (get_attr (s_ "optional") a) mws ws0 false) as [cw| |] eqn:Ec; cbn [bind]; try exact I.
      rewrite (choice_fetch_wl _ _ _ _ _ _ Hw Ec). cbn [bind]. apply rl_ok. reflexivity.
    - destruct (prefixb (s_ "float") printed || prefixb (s_ "int") printed); [exact Hd|exact I].
  Qed.

  Lemma def_loop_l : forall h mws a ms ms', Forall2 orl ms ms' -> forall last last', optwe last last' ->
    rl optwe (def_loop env canon false h mws a ms last) (def_loop env canon false h mws a ms' last').
  Proof.
    intros h mws a ms ms' H. induction H as [|s s' r r' Hs _ IH]; intros last last' Hl; [apply rl_ok; exact Hl|].
    cbn [def_loop]. unfold def_fetch. eapply rl_bind; [apply def_fetch_value_l; exact Hs|].
    intros x y Hxy. apply IH. exact Hxy.
  Qed.

  Definition rec_l (rec:list lsrc -> res fout) : Prop :=
    forall comb comb', leql (map lobj comb) (map lobj comb') -> lplain comb -> lplain comb' ->
                       rl (fun o o' : fout => lwe (fst o) (fst o')) (rec comb) (rec comb').

  Lemma combine_l : forall ms ms', Forall2 orl ms ms' ->
    rl (fun c c' => c = flat_map src_kids ms /\ c' = flat_map src_kids ms') (combine ms) (combine ms').
  Proof.
    intros ms ms' H. induction H as [|s s' r r' Hs _ IH]; [apply rl_ok; auto|].
    cbn [combine]. rewrite (orl_is_def _ _ Hs).
    destruct (is_def (lobj s')); [exact I|].
    eapply rl_bind; [exact IH|]. intros c c' [E E']. subst. apply rl_ok. auto.
  Qed.

  Lemma kids_leql : forall ms ms',
    Forall2 (fun s s' => oeql (lobj s) (lobj s')) ms ms' ->
    leql (map lobj (flat_map src_kids ms)) (map lobj (flat_map src_kids ms')).
  Proof.
    intros ms ms' H. rewrite !map_lobj_src_kids. apply leql_flat_kids.
    induction H as [|s s' r r' Hs _ IH]; constructor; assumption.
  Qed.

  Lemma cand_fetch_l : forall k rec s s', rec_l rec -> orl s s' ->
    rl (fun cu cu' : option obj * list pos => optwe (fst cu) (fst cu'))
       (cand_fetch env canon false k rec s) (cand_fetch env canon false k rec s').
  Proof.
    intros k rec s s' Hrec Hs. destruct Hs as [E|Hs]; [subst; apply rl_refl; reflexivity|].
    destruct k as [h mws a|h ks a]; cbn [cand_fetch].
    - unfold def_fetch. eapply rl_bind; [apply def_fetch_value_l; right; exact Hs|].
      intros x y Hxy. apply rl_ok. exact Hxy.
    - destruct Hs as [Ho [Hp Hp']].
      eapply rl_bind; [apply (combine_l [s] [s']); constructor; [right; auto|constructor]|].
      intros c c' [E E']. subst.
      eapply rl_bind.
      + apply Hrec.
        * apply kids_leql. constructor; [exact Ho|constructor].
        * apply src_kids_plain. intros x [Ex|[]]. subst. exact Hp.
        * apply src_kids_plain. intros x [Ex|[]]. subst. exact Hp'.
      + intros oc oc' E. apply rl_ok. unfold optwe, scopy. cbn. unfold lwe in E. rewrite E. reflexivity.
  Qed.

  Definition corl (c c':bool * lsrc) : Prop := fst c = fst c' /\ orl (snd c) (snd c').
  Definition strel (st st':pdict * list (option obj) * list pos) : Prop :=
    fst (fst st) = fst (fst st') /\ map (option_map we) (snd (fst st)) = map (option_map we) (snd (fst st')).

  Lemma mult_loop_l : forall k rec mas cands cands', rec_l rec -> Forall2 corl cands cands' ->
    forall pd robjs robjs' used used', map (option_map we) robjs = map (option_map we) robjs' ->
    rl strel (mult_loop env canon false k rec mas cands pd robjs used)
             (mult_loop env canon false k rec mas cands' pd robjs' used').
  Proof.
    intros k rec mas cands cands' Hrec H. induction H as [|[fm s] [fm' s'] r r' [Hf Hs] _ IH]; intros pd robjs robjs' used used' Hr.
    - apply rl_ok. split; [reflexivity|exact Hr].
    - cbn in Hf. subst fm'. cbn [snd] in Hs. cbn [mult_loop].
      eapply rl_bind; [apply cand_fetch_l; eassumption|].
      intros [cand u] [cand' u'] E. cbn [fst snd] in *. unfold diff_skip. cbn [andb].
      rewrite (canon_lines k cand cand' E).
      destruct (canon k cand') as [cs| |]; cbn [bind]; [|exact I|exact I].
      destruct (eqs cs mas); [apply IH; exact Hr|].
      assert (Hlen : forall a b : list (option obj), map (option_map we) a = map (option_map we) b -> length a = length b).
      { intros a0 b0 E0. rewrite <- (map_length (option_map we) a0), E0. apply map_length. }
      destruct (pget cs pd) as [[i|]|]; [|apply IH; exact Hr|]; cbn [andb].
      + rewrite (Hlen _ _ (set_none_we i _ _ Hr)). apply IH. rewrite !map_app, (set_none_we i _ _ Hr). cbn [map]. rewrite E. reflexivity.
      + rewrite (Hlen _ _ Hr). apply IH. rewrite !map_app, Hr. cbn [map]. rewrite E. reflexivity.
  Qed.

  Lemma fetch_one_l : forall allks chain i k rec srcs srcs',
    rec_l rec ->
    Forall2 (fun s s' => oeql (lobj s) (lobj s') /\ oplain (lobj s) /\ oplain (lobj s'))
            (match_sources (oname (ohdr k)) srcs) (match_sources (oname (ohdr k)) srcs') ->
    rl (fun o o' : fout => lwe (fst o) (fst o'))
       (fetch_one env canon false allks chain i k rec srcs) (fetch_one env canon false allks chain i k rec srcs').
  Proof.
    intros allks chain i k rec srcs srcs' Hrec Hm0. unfold fetch_one.
    destruct (get_attr (s_ "alias") (oattrs k)); try exact I.
    destruct (oname (ohdr k)) as [|c0 nm]; [exact I|].
    assert (Hm : Forall2 orl (match_sources (c0 :: nm) srcs) (match_sources (c0 :: nm) srcs')).
    { induction Hm0 as [|s s' r r' Hs _ IHm]; constructor; [right; exact Hs|exact IHm]. }
    destruct (omultiple k); cbn [negb].
    - destruct (canon k None) as [mas| |]; cbn [bind]; [|exact I|exact I].
      eapply rl_bind.
      + apply mult_loop_l with (used' := []) (robjs' := []); [exact Hrec| |reflexivity].
        apply Forall2_app.
        * induction (self_matching allks chain i (c0 :: nm)) as [|x l IHl]; constructor; [|exact IHl].
          split; [reflexivity|left; reflexivity].
        * clear Hm0. induction Hm as [|s s' r r' Hs _ IHm]; constructor; [|exact IHm]. split; [reflexivity|exact Hs].
      + intros [[pd robjs] used] [[pd' robjs'] used'] [E1 E2]. cbn [fst snd] in *. subst pd'. apply rl_ok.
        cbn [fst]. unfold lwe. rewrite !map_app, (somes_we _ _ E2). reflexivity.
    - destruct k as [h mws a|h ks a].
      + eapply rl_bind; [apply (def_loop_l _ _ _ _ _ Hm None None); reflexivity|].
        intros ro ro' E. destruct ro as [x|], ro' as [y|]; try discriminate E.
        * apply rl_ok. cbn [fst]. unfold lwe. cbn [map]. injection E as E. rewrite E. reflexivity.
        * cbn [negb andb]. destruct (negb (odeprecated (Def h mws a))); apply rl_ok; reflexivity.
      + eapply rl_bind; [apply combine_l; exact Hm|].
        intros c c' [E E']. subst.
        eapply rl_bind.
        * apply Hrec.
          -- apply kids_leql. clear Hm. induction Hm0 as [|s s' r r' Hs _ IHm]; constructor; [apply Hs|exact IHm].
          -- apply src_kids_plain. intros x Hx. clear Hm.
             induction Hm0 as [|s s' r r' Hs _ IHm]; [destruct Hx|].
             destruct Hx as [Hx|Hx]; [subst; apply Hs|apply IHm; exact Hx].
          -- apply src_kids_plain. intros x Hx. clear Hm.
             induction Hm0 as [|s s' r r' Hs _ IHm]; [destruct Hx|].
             destruct Hx as [Hx|Hx]; [subst; apply Hs|apply IHm; exact Hx].
        * intros oc oc' E. cbn [andb]. apply rl_ok. cbn [fst]. unfold lwe, scopy in *. cbn [map we]. rewrite E. reflexivity.
  Qed.

  Lemma matching_l : forall n l l', leql (map lobj l) (map lobj l') -> lplain l -> lplain l' ->
    Forall2 (fun s s' => oeql (lobj s) (lobj s') /\ oplain (lobj s) /\ oplain (lobj s'))
            (match_sources n l) (match_sources n l').
  Proof.
    intros n l l' Hv Hp Hp'.
    pose proof (Hv n) as F. rewrite <- !match_sources_omatch in F.
    pose proof (match_sources_plain n l Hp) as P. pose proof (match_sources_plain n l' Hp') as P'.
    remember (match_sources n l) as ms eqn:E1. remember (match_sources n l') as ms' eqn:E2. clear E1 E2.
    revert ms' F P'. induction ms as [|s r IH]; intros [|s' r'] F P'; cbn in F; inversion F; subst; constructor.
    - split; [assumption|]. split; [apply P; left; reflexivity|apply P'; left; reflexivity].
    - apply IH; [intros x Hx; apply P; right; exact Hx|assumption|intros x Hx; apply P'; right; exact Hx].
  Qed.

  Lemma mloop_l : forall (body body':nat -> obj -> res fout) l,
    (forall i k, In k l -> rl (fun o o' : fout => lwe (fst o) (fst o')) (body i k) (body' i k)) ->
    forall seen i, rl (fun o o' : fout => lwe (fst o) (fst o')) (mloop body seen i l) (mloop body' seen i l).
  Proof.
    intros body body' l. induction l as [|k r IH]; intros Hb seen i; [apply rl_ok; reflexivity|].
    cbn [mloop]. destruct (mao_step seen k) as [| |seen'].
    - apply IH. intros; apply Hb; right; assumption.
    - exact I.
    - eapply rl_bind; [apply Hb; left; reflexivity|]. intros a b E.
      eapply rl_bind; [apply IH; intros; apply Hb; right; assumption|]. intros a' b' E'.
      apply rl_ok. cbn [fst]. unfold lwe in *. rewrite !map_app, E, E'. reflexivity.
  Qed.

  Lemma fetch_scope_l : forall M mchain, rec_l (fetch_scope env canon false M mchain).
  Proof.
    induction M as [h ws a|h ks a IH] using obj_ind2; intros mchain srcs srcs' Hv Hp Hp'.
    - exact I.
    - cbn [fetch_scope]. apply mloop_l. intros i k Hk.
      apply fetch_one_l; [|apply matching_l; assumption].
      rewrite Forall_forall in IH. apply IH. exact Hk.
  Qed.

  (* A: observationally equal sources modulo word lines give results equal modulo word lines *)
  Theorem fetch_lines : forall m srcs srcs' w,
    srcs_have_dollar srcs = false -> srcs_have_dollar srcs' = false ->
    leql (List.concat srcs) (List.concat srcs') ->
    fetch env canon false m srcs = Ok w ->
    exists w', fetch env canon false m srcs' = Ok w' /\ lwe w w'.
  Proof.
    intros m srcs srcs' w Hd Hd' Hv H. unfold fetch in *.
    pose proof (fetch_scope_l (root_scope m) [] (root_lsrcs srcs) (root_lsrcs srcs')) as R.
    unfold fetch_root in *. bind_inv H as oc Hoc. injection H as E. subst w.
    rewrite Hoc in R. destruct R as [oc' [Hoc' Hl]].
    - rewrite !map_lobj_root. exact Hv.
    - apply lplain_root. exact Hd.
    - apply lplain_root. exact Hd'.
    - rewrite Hoc'. cbn [bind]. eexists. split; [reflexivity|exact Hl].
  Qed.
End Lines.

(* ====================================================================================== *)
(* B. re-fetching the result without its hidden templates                                  *)
(* ====================================================================================== *)
(* Model/Fetch.v (gwsp / match_sources), like scope.get_without_substitution in the library, does
   NOT look at is_template: a hidden template (is_template = -1) occurring in a source is matched
   like any other object.  The printed text omits it.  Inside D07 both forms agree all the same:
   fetched again, the template copy has the master's own canonical text (H_default_canonical) and
   is dropped by the multiple branch; so the run on [prune w] keeps exactly the instances that the
   run on [w] keeps.  (Outside D07 they differ: finding F7a, C07_refuted_nested_multiple - there
   the object form grows and the text form does not.) *)

Definition hidden (o:obj) : bool := (otmpl (ohdr o) <? 0)%Z.

Fixpoint prune_obj (o:obj) : obj :=
  match o with
  | Def h ws a => Def h ws a
  | Scp h ks a =>
      Scp h ((fix go (l:list obj) : list obj :=
                match l with
                | [] => []
                | k :: r => if hidden k then go r else prune_obj k :: go r
                end) ks) a
  end.
Fixpoint prune (l:list obj) : list obj :=
  match l with
  | [] => []
  | k :: r => if hidden k then prune r else prune_obj k :: prune r
  end.

Lemma prune_obj_scp : forall h ks a, prune_obj (Scp h ks a) = Scp h (prune ks) a.
Proof. intros. reflexivity. Qed.
Lemma prune_obj_hdr : forall o, ohdr (prune_obj o) = ohdr o.
Proof. destruct o; reflexivity. Qed.
Lemma prune_app : forall a b, prune (a ++ b) = prune a ++ prune b.
Proof.
  induction a as [|k a IH]; intros b; [reflexivity|]. cbn [app prune].
  destruct (hidden k); [apply IH|]. cbn. rewrite IH. reflexivity.
Qed.
Lemma In_prune : forall l x, In x (prune l) -> exists y, In y l /\ x = prune_obj y /\ hidden y = false.
Proof.
  induction l as [|k r IH]; intros x H; [destruct H|]. cbn [prune] in H.
  destruct (hidden k) eqn:E.
  - destruct (IH _ H) as [y [A B]]. exists y. split; [right; exact A|exact B].
  - destruct H as [H|H].
    + exists k. split; [left; reflexivity|]. split; [symmetry; exact H|exact E].
    + destruct (IH _ H) as [y [A B]]. exists y. split; [right; exact A|exact B].
Qed.
Lemma prune_shown_all : forall l, (forall x, In x l -> hidden x = false) -> prune l = map prune_obj l.
Proof.
  induction l as [|k r IH]; intros H; [reflexivity|]. cbn [prune map].
  rewrite (H k (or_introl eq_refl)). f_equal. apply IH. intros x Hx. apply H. right. exact Hx.
Qed.

(* objects without any hidden object inside (every parsed master: is_template = 0 everywhere) *)
Fixpoint nohid (o:obj) : bool :=
  negb (hidden o) &&
  match o with
  | Def _ _ _ => true
  | Scp _ ks _ => (fix go (l:list obj) : bool := match l with [] => true | k :: r => nohid k && go r end) ks
  end.
Fixpoint nohids (l:list obj) : bool := match l with [] => true | k :: r => nohid k && nohids r end.
Lemma nohid_scp : forall h ks a, nohid (Scp h ks a) = negb (hidden (Scp h ks a)) && nohids ks.
Proof. intros. reflexivity. Qed.
Lemma nohids_In : forall l k, nohids l = true -> In k l -> nohid k = true.
Proof.
  induction l as [|x r IH]; intros k H Hk; [destruct Hk|]. cbn [nohids] in H. apply andb_prop in H. destruct H as [H1 H2].
  destruct Hk as [E|Hk]; [subst; exact H1|apply IH; assumption].
Qed.
Lemma nohid_not_hidden : forall o, nohid o = true -> hidden o = false.
Proof. intros o H. destruct o; cbn [nohid] in H; apply andb_prop in H; destruct H as [H _]; apply negb_true_iff in H; exact H. Qed.
Lemma prune_id_obj : forall o, nohid o = true -> prune_obj o = o.
Proof.
  induction o as [h ws a|h ks a IH] using obj_ind2; intros H; [reflexivity|].
  rewrite prune_obj_scp. f_equal. rewrite nohid_scp in H. apply andb_prop in H. destruct H as [_ H].
  induction IH as [|k r Hk _ IHr]; [reflexivity|]. cbn [nohids] in H. apply andb_prop in H. destruct H as [H1 H2].
  cbn [prune]. rewrite (nohid_not_hidden _ H1), (Hk H1), (IHr H2). reflexivity.
Qed.
Lemma prune_id : forall l, nohids l = true -> prune l = l.
Proof.
  induction l as [|k r IH]; intros H; [reflexivity|]. cbn [nohids] in H. apply andb_prop in H. destruct H as [H1 H2].
  cbn [prune]. rewrite (nohid_not_hidden _ H1), (prune_id_obj _ H1), (IH H2). reflexivity.
Qed.

Lemma prune_plain_obj : forall o, oplain o -> oplain (prune_obj o).
Proof.
  induction o as [h ws a|h ks a IH] using obj_ind2; intros H; [exact H|].
  rewrite prune_obj_scp. apply oplain_scp. pose proof (proj1 (oplain_scp h ks a) H) as Hk. clear H.
  induction IH as [|k r Hk0 _ IHr]; intros x Hx; [destruct Hx|]. cbn [prune] in Hx.
  destruct (hidden k).
  - apply IHr; [intros y Hy; apply Hk; right; exact Hy|exact Hx].
  - destruct Hx as [E|Hx]; [subst; apply Hk0; apply Hk; left; reflexivity|].
    apply IHr; [intros y Hy; apply Hk; right; exact Hy|exact Hx].
Qed.
Lemma prune_plain : forall l, (forall x, In x l -> oplain x) -> forall x, In x (prune l) -> oplain x.
Proof.
  intros l H x Hx. destruct (In_prune _ _ Hx) as [y [Hy [E _]]]. subst. apply prune_plain_obj. apply H. exact Hy.
Qed.

Lemma strip_objs_active_map : forall l, (forall x, In x l -> odis (ohdr x) = false) -> strip_objs l = map strip_obj l.
Proof.
  induction l as [|x l IH]; intros H; [reflexivity|]. cbn [strip_objs map].
  rewrite (H x (or_introl eq_refl)). f_equal. apply IH. intros y Hy. apply H. right. exact Hy.
Qed.

Lemma prune_set_hdr : forall o h, prune_obj (set_hdr o h) = set_hdr (prune_obj o) h.
Proof. destruct o; reflexivity. Qed.
Lemma prune_names : forall l x, In x (prune l) ->
  exists y, In y l /\ onm x = onm y /\ odis (ohdr x) = odis (ohdr y).
Proof.
  intros l x H. destruct (In_prune _ _ H) as [y [Hy [E _]]]. exists y. subst x. unfold onm. rewrite prune_obj_hdr. auto.
Qed.

Section PrunedIdem.
  Variable env : str -> option str.
  Variable canon : obj -> option obj -> res str.

  Notation fsc := (fetch_scope env canon false).

  (* FetchIdem.rec_idem with the second offer showing the result WITHOUT its hidden templates *)
  Definition rec_idem_p (rec:list lsrc -> res fout) : Prop :=
    forall comb os u, lplain comb -> rec comb = Ok (os, u) ->
    forall comb', lplain comb' -> lview comb' = strip_objs (prune os) -> exists u', rec comb' = Ok (os, u').

  Lemma inst_refetch_p : forall k rec s c u, def_ok k -> oplain k -> rec_idem_p rec -> oplain (lobj s) ->
    cand_fetch env canon false k rec s = Ok (Some c, u) ->
    forall s', sl s' = strip_obj (prune_obj c) -> oplain (lobj s') -> exists u', cand_fetch env canon false k rec s' = Ok (Some c, u').
  Proof.
    intros k rec s c u Hok Hk Hrec Hs H s' Es' Hs'. destruct k as [h mws a|h ks a]; cbn [cand_fetch] in *.
    - bind_inv H as r Hr. injection H as E _. subst r. unfold def_fetch in *.
      destruct (def_fetch_value_shape env false h mws a s c Hr) as [w [Ec _]].
      assert (El : lobj s' = c).
      { unfold sl in Es'. rewrite Ec in Es'. cbn in Es'. rewrite Ec. apply strip_obj_def_inv. exact Es'. }
      rewrite (def_value_refetch env h mws a s c Hok (proj1 (oplain_def h mws a) Hk) Hs Hr s' El). cbn. eauto.
    - bind_inv H as comb Hcomb. bind_inv H as oc Hoc. injection H as E _. subst c.
      cbn [combine] in Hcomb. destruct (is_def (lobj s)) eqn:Ed; [discriminate|]. cbn in Hcomb. injection Hcomb as E. subst comb.
      unfold sl, scopy in Es'. rewrite prune_obj_scp, strip_obj_scp in Es'. apply strip_obj_scp_inv in Es'. destruct Es' as [ks' [El Ek]].
      cbn [combine]. rewrite El. cbn [is_def bind].
      destruct oc as [os u0]. cbn [fst snd] in *.
      destruct (Hrec (src_kids s ++ []) os u0) with (comb' := src_kids s' ++ []) as [u' Hu'].
      + rewrite app_nil_r. apply src_kids_plain1. exact Hs.
      + exact Hoc.
      + rewrite app_nil_r. apply src_kids_plain1. exact Hs'.
      + rewrite app_nil_r, lview_src_kids. unfold sl. rewrite El, strip_obj_scp. cbn. exact Ek.
      + rewrite Hu'. cbn. eauto.
  Qed.

  Lemma evs_insts_p : forall k rec mas (ps:pairs) M', def_ok k -> oplain k -> rec_idem_p rec ->
    (forall p, In p ps -> exists s, oplain (lobj s) /\ ev env canon false k rec mas s = Ok (Some p)) ->
    map sl M' = map strip_obj (map prune_obj (map snd ps)) -> (forall s, In s M' -> oplain (lobj s)) ->
    evs env canon false k rec mas M' = Ok (map Some ps).
  Proof.
    intros k rec mas ps. induction ps as [|[t c] ps IH]; intros M' Hok Hk Hrec Hor Hv Hp.
    - destruct M'; [reflexivity|discriminate].
    - destruct M' as [|s' r']; [discriminate|]. cbn [map snd] in Hv. injection Hv as Hs' Hr'.
      destruct (Hor (t, c) (or_introl eq_refl)) as [s [Hsp Hev]].
      destruct (ev_some env canon false k rec mas s t c Hev) as [u [Hcf [Hcn [Hne _]]]].
      destruct (inst_refetch_p k rec s c u Hok Hk Hrec Hsp Hcf s' Hs' (Hp s' (or_introl eq_refl))) as [u' Hu'].
      cbn [evs]. unfold ev at 1. rewrite Hu'. cbn [bind fst]. unfold diff_skip. cbn [andb]. rewrite Hcn. cbn [bind]. rewrite Hne. cbn [bind].
      rewrite (IH r' Hok Hk Hrec); [reflexivity| |exact Hr'|].
      + intros p Hp0. apply Hor. right. exact Hp0.
      + intros x Hx. apply Hp. right. exact Hx.
  Qed.

  Lemma fetch_one_refetch_p : forall allks chain i k rec srcs b u,
    odis (ohdr k) = false -> oplain k -> (forall x, In x allks -> oplain x) ->
    def_ok k -> nohid k = true ->
    (omultiple k = true -> exists c0 u0, cand_fetch env canon false k rec (mklsrc [] k []) = Ok (Some c0, u0) /\
                                         canon k (Some c0) = canon k None) ->
    rec_ok rec -> rec_idem_p rec ->
    lplain srcs -> fetch_one env canon false allks chain i k rec srcs = Ok (b, u) ->
    forall srcs', lplain srcs' -> map sl (match_sources (onm k) srcs') = strip_objs (prune b) ->
    exists u', fetch_one env canon false allks chain i k rec srcs' = Ok (b, u').
  Proof.
    intros allks chain i k rec srcs b u Hact Hk Hall Hok Hnh Hdef Hrok Hrid Hp H srcs' Hp' Hv.
    unfold fetch_one in *. unfold onm in Hv.
    destruct (get_attr (s_ "alias") (oattrs k)); try discriminate.
    destruct (oname (ohdr k)) as [|c0 nm] eqn:En; [discriminate|].
    pose proof (match_sources_plain (c0 :: nm) srcs Hp) as Hm.
    pose proof (match_sources_plain (c0 :: nm) srcs' Hp') as Hm'.
    destruct (omultiple k) eqn:Em; cbn [negb] in *.
    - (* ---- multiple *)
      bind_inv H as mas Hmas. bind_inv H as st Hst. destruct st as [[pd robjs] used]. injection H as Eb Eu. subst b. cbn [app] in Hv.
      set (S := self_matching allks chain i (c0 :: nm)) in *.
      set (X := match_sources (c0 :: nm) srcs) in *.
      set (MS' := match_sources (c0 :: nm) srcs') in *.
      pose proof (mult_loop_fold env canon false k rec mas Hmas (map (pair true) S ++ map (pair false) X) (fun _ _ => eq_refl) [] [] []) as F.
      rewrite Hst in F. cbn [rmap fst] in F. rewrite map_app, !map_snd_pair in F.
      destruct (evs env canon false k rec mas (S ++ X)) as [el| |] eqn:Eel; cbn [rmap] in F; try discriminate.
      injection F as F.
      destruct (evs_app_ok env canon _ _ _ _ _ _ Eel) as [elS [elX [HelS [HelX Eapp]]]].
      destruct (fold_pstep_grel el [] [] [] grel_nil) as [g [Hg Eg]]. rewrite <- F in Hg. cbn [fst snd] in Hg.
      cbn [somesP] in Eg. rewrite kl_dd in Eg.
      assert (HL : somes robjs = map snd (dd (somesP el))).
      { rewrite (gr_objs _ _ _ Hg), somes_objs_of, Eg. reflexivity. }
      assert (Hor : forall p, In p (dd (somesP el)) -> exists s, oplain (lobj s) /\ ev env canon false k rec mas s = Ok (Some p)).
      { intros p Hp0. apply In_dd in Hp0. destruct (evs_In env canon false k rec mas _ _ _ Eel Hp0) as [s [Hs Hev]].
        exists s. split; [|exact Hev]. apply in_app_or in Hs. destruct Hs as [Hs|Hs].
        - eapply self_matching_plain; eassumption.
        - apply Hm. exact Hs. }
      assert (Hhdr : forall x, In x (somes robjs) -> ohdr x = with_tmpl (ohdr k) 0).
      { intros x Hx. rewrite HL in Hx. apply in_map_iff in Hx. destruct Hx as [[t c] [E Hx]]. cbn in E. subst x.
        destruct (Hor _ Hx) as [s [_ Hev]]. destruct (ev_some _ _ _ _ _ _ _ _ _ Hev) as [u1 [Hcf _]].
        exact (cand_fetch_hdr env canon _ _ _ _ _ Hcf). }
      assert (Hshown : forall x, In x (somes robjs) -> hidden x = false).
      { intros x Hx. unfold hidden. rewrite (Hhdr x Hx). reflexivity. }
      assert (Hactive : forall x, In x (map prune_obj (somes robjs)) -> odis (ohdr x) = false).
      { intros x Hx. apply in_map_iff in Hx. destruct Hx as [y [E Hy]]. subst x. rewrite prune_obj_hdr, (Hhdr y Hy). cbn. exact Hact. }
      assert (HactT : odis (ohdr (template_of k pd)) = false).
      { unfold template_of. destruct k; cbn; exact Hact. }
      assert (HpT : prune_obj (template_of k pd) = template_of k pd).
      { unfold template_of. rewrite prune_set_hdr, (prune_id_obj k Hnh). reflexivity. }
      cbn [prune] in Hv. rewrite (prune_shown_all _ Hshown) in Hv.
      (* the second run evaluates: nothing or the (dropped) template, then the kept instances *)
      assert (Hev2 : exists pre, somesP pre = [] /\ evs env canon false k rec mas MS' = Ok (pre ++ map Some (dd (somesP el)))).
      { destruct (hidden (template_of k pd)) eqn:EhT.
        - exists []. split; [reflexivity|]. cbn [app].
          rewrite (strip_objs_active_map _ Hactive) in Hv.
          apply evs_insts_p; try assumption; try (intros s0 Hs0; apply Hm'; exact Hs0).
          rewrite Hv, HL. reflexivity.
        - exists [None]. split; [reflexivity|].
          cbn [strip_objs] in Hv. rewrite prune_obj_hdr, HactT, HpT in Hv. rewrite (strip_objs_active_map _ Hactive) in Hv.
          destruct MS' as [|sT M'] eqn:EM'; [discriminate|].
          cbn [map] in Hv. injection Hv as HvT HvM.
          assert (HevT : ev env canon false k rec mas sT = Ok None).
          { destruct (Hdef eq_refl) as [cd [ud [Hcd Hcn]]].
            assert (Hsim : ssim sT (mklsrc [] k [])).
            { split; [|split; [apply Hm'; left; reflexivity|exact Hk]]. cbn [lobj].
              eapply same_body_trans; [apply same_body_sym, same_body_strip|]. unfold sl in HvT. rewrite HvT.
              eapply same_body_trans; [apply same_body_strip|]. unfold template_of. apply same_body_set_hdr. }
            pose proof (cand_fetch_ssim env canon false k rec sT _ Hrok Hsim) as R. rewrite Hcd in R.
            destruct (cand_fetch env canon false k rec sT) as [[cT uT]| |] eqn:EcT; cbn in R; try contradiction. subst cT.
            unfold ev. rewrite EcT. cbn [bind fst]. unfold diff_skip. cbn [andb]. rewrite Hcn, Hmas. cbn [bind]. rewrite f_eqs_refl. reflexivity. }
          assert (HevM : evs env canon false k rec mas M' = Ok (map Some (dd (somesP el)))).
          { apply evs_insts_p; try assumption.
            - rewrite HvM, HL. reflexivity.
            - intros s Hs. apply Hm'. right. exact Hs. }
          cbn [evs app]. rewrite HevT. cbn [bind]. rewrite HevM. reflexivity. }
      destruct Hev2 as [pre [Hpre Hev2]].
      assert (Hel2 : evs env canon false k rec mas (S ++ MS') = Ok (elS ++ pre ++ map Some (dd (somesP el)))).
      { rewrite evs_app, HelS. cbn [bind]. rewrite Hev2. reflexivity. }
      pose proof (mult_loop_fold env canon false k rec mas Hmas (map (pair true) S ++ map (pair false) MS') (fun _ _ => eq_refl) [] [] []) as F2.
      rewrite map_app, !map_snd_pair, Hel2 in F2. cbn [rmap] in F2.
      apply rmap_fst_ok in F2. destruct F2 as [[[pd2 robjs2] used2] [Hst2 F2]]. cbn [fst] in F2.
      destruct (fold_pstep_grel (elS ++ pre ++ map Some (dd (somesP el))) [] [] [] grel_nil) as [g2 [Hg2 Eg2]].
      rewrite <- F2 in Hg2. cbn [fst snd] in Hg2.
      cbn [somesP] in Eg2. rewrite kl_dd, !somesP_app, Hpre, somesP_map_some in Eg2. cbn [app] in Eg2.
      assert (Esp : somesP el = somesP elS ++ somesP elX) by (rewrite Eapp; apply somesP_app).
      rewrite Esp in Eg2 at 1. rewrite dd_refetch in Eg2. rewrite <- Esp in Eg2.
      rewrite Hmas. cbn [bind]. rewrite Hst2. cbn [bind]. eexists. f_equal. f_equal. cbn [app]. f_equal.
      + apply template_of_nil_iff. rewrite (grel_pd_nil _ _ _ Hg2), (grel_pd_nil _ _ _ Hg), Eg2, Eg. reflexivity.
      + rewrite (gr_objs _ _ _ Hg2), somes_objs_of, Eg2. symmetry. exact HL.
    - destruct k as [h mws a|h ks a].
      + (* ---- definition *)
        pose proof Hok as [Ht [Hdep Hty]].
        pose proof (proj1 (oplain_def h mws a) Hk) as Hmws.
        bind_inv H as ro Hro. destruct ro as [o|].
        * injection H as Eb Eu. subst b.
          destruct (def_loop_last env canon _ _ _ _ _ _ Hro) as [[_ E]|[s [Hs Hfv]]]; [discriminate|].
          destruct (def_fetch_value_shape env false h mws a s o Hfv) as [w [Eo _]].
          assert (Hpo : strip_objs (prune [o]) = [o]).
          { rewrite Eo. cbn [ohdr] in Hact. unfold dcopy. cbn. rewrite Hact. reflexivity. }
          rewrite Hpo in Hv.
          destruct (match_sources (c0 :: nm) srcs') as [|s' r'] eqn:EM'; [discriminate|]. destruct r'; [|discriminate].
          cbn [map] in Hv. injection Hv as Hv.
          assert (El : lobj s' = o) by (unfold sl in Hv; rewrite Eo in Hv |- *; apply strip_obj_def_inv; exact Hv).
          cbn [def_loop]. unfold def_fetch.
          rewrite (def_value_refetch env h mws a s o Hok Hmws (Hm s Hs) Hfv s' El). cbn. eauto.
        * cbn [negb andb] in H. rewrite Hdep in H. cbn [negb] in H. injection H as Eb Eu. subst b.
          assert (Hpo : strip_objs (prune [Def h mws a]) = [Def h mws a]).
          { cbn [ohdr] in Hact. cbn. unfold hidden. cbn. rewrite Ht. cbn. rewrite Hact. reflexivity. }
          rewrite Hpo in Hv.
          destruct (match_sources (c0 :: nm) srcs') as [|s' r'] eqn:EM'; [discriminate|]. destruct r'; [|discriminate].
          cbn [map] in Hv. injection Hv as Hv. unfold sl in Hv. apply strip_obj_def_inv in Hv.
          cbn [def_loop]. unfold def_fetch.
          rewrite (def_self_fetch env h mws a s' Hok Hmws); [cbn; eauto|]. exists h, a. exact Hv.
      + (* ---- scope *)
        bind_inv H as comb Hcomb. bind_inv H as oc Hoc. cbn [andb] in H. injection H as Eb Eu. subst b.
        cbn [ohdr] in Hact.
        assert (Hso : strip_objs (prune [scopy h a (fst oc)]) = [Scp (with_tmpl h 0) (strip_objs (prune (fst oc))) a]).
        { unfold scopy. cbn. rewrite Hact. reflexivity. }
        rewrite Hso in Hv.
        destruct (match_sources (c0 :: nm) srcs') as [|s' r'] eqn:EM'; [discriminate|]. destruct r'; [|discriminate].
        cbn [map] in Hv. injection Hv as Hv. unfold sl in Hv.
        apply strip_obj_scp_inv in Hv. destruct Hv as [ks' [El Ek]].
        cbn [combine]. rewrite El. cbn [is_def bind].
        destruct oc as [os u0]. cbn [fst snd] in *.
        destruct (Hrid comb os u0) with (comb' := src_kids s' ++ []) as [u' Hu'].
        -- eapply combine_plain; [exact Hm|exact Hcomb].
        -- exact Hoc.
        -- rewrite app_nil_r. apply src_kids_plain1. apply Hm'. left. reflexivity.
        -- rewrite app_nil_r, lview_src_kids. unfold sl. rewrite El, strip_obj_scp. cbn. exact Ek.
        -- rewrite Hu'. cbn. eauto.
  Qed.
End PrunedIdem.

Section PrunedLoop.
  Variable env : str -> option str.
  Variable canon : obj -> option obj -> res str.

  Notation fsc := (fetch_scope env canon false).

  Lemma mloop_refetch_p : forall (body body2:nat -> obj -> res fout) (W:list obj) l,
    (forall i k o, In k l -> body i k = Ok o -> shape_block k (fst o)) ->
    forall seen i o pre post,
    mloop body seen i l = Ok o ->
    NoDup (map onm (entries_from seen l)) ->
    (forall k, In k (entries_from seen l) -> onm k <> [] /\ nodot (onm k)) ->
    (forall x, In x (pre ++ post) -> onm x <> [] /\ forall k, In k (entries_from seen l) -> onm x <> onm k) ->
    W = pre ++ fst o ++ post ->
    (forall j k b, In k (entries_from seen l) -> body j k = Ok b -> gview (onm k) (prune W) = strip_objs (prune (fst b)) ->
                   exists u', body2 j k = Ok (fst b, u')) ->
    exists u', mloop body2 seen i l = Ok (fst o, u').
  Proof.
    intros body body2 W l. induction l as [|k r IH]; intros Hsh seen i o pre post H Hnd Hnm Hpp HW Hstep.
    - cbn in H. injection H as E. subst o. cbn. eauto.
    - cbn [mloop] in H. cbn [entries_from] in Hnd, Hnm, Hpp, Hstep. cbn [mloop].
      assert (Hsh' : forall i k o, In k r -> body i k = Ok o -> shape_block k (fst o))
        by (intros; eapply Hsh; [right; eassumption|eassumption]).
      destruct (mao_step seen k) as [| |seen'] eqn:Es.
      + eapply IH; eassumption.
      + discriminate.
      + bind_inv H as a Ha. bind_inv H as b Hb. injection H as E. subst o. cbn [fst] in *.
        cbn [map] in Hnd. inversion Hnd as [|x l0 Hnin Hnd']; subst x l0.
        assert (Hkact : odis (ohdr k) = false).
        { assert (In k (entries_from seen (k :: r))) by (cbn [entries_from]; rewrite Es; left; reflexivity).
          apply entries_active in H. apply H. }
        destruct (Hnm k (or_introl eq_refl)) as [Hkne Hkdot].
        assert (Ha_names : forall x, In x (fst a) -> onm x = onm k /\ odis (ohdr x) = false).
        { intros x Hx. destruct (shape_block_origin _ _ _ (Hsh i k a (or_introl eq_refl) Ha) Hx) as [A [_ [_ D]]].
          split; [exact A|]. rewrite D. exact Hkact. }
        assert (Hb_names : forall x, In x (fst b) -> exists k', In k' (entries_from seen' r) /\ onm x = onm k').
        { intros x Hx. pose proof (mloop_shape body r Hsh' seen' (S i) b Hb) as SB.
          destruct (shape_blocks_names _ _ SB x Hx) as [k' [A [B _]]]. eauto. }
        assert (Hgv : gview (onm k) (prune W) = strip_objs (prune (fst a))).
        { rewrite HW, !prune_app, !gview_app.
          rewrite (gview_other (onm k) (prune pre) Hkdot).
          2:{ intros x Hx. destruct (prune_names _ _ Hx) as [y [Hy [En _]]]. rewrite En.
              destruct (Hpp y (in_or_app _ _ _ (or_introl Hy))) as [A B]. split; [|exact A].
              apply B. left. reflexivity. }
          rewrite (gview_same (onm k) (prune (fst a)) Hkne).
          2:{ intros x Hx. destruct (prune_names _ _ Hx) as [y [Hy [En Ed]]]. rewrite En, Ed. apply Ha_names. exact Hy. }
          rewrite (gview_other (onm k) (prune (fst b)) Hkdot).
          2:{ intros x Hx. destruct (prune_names _ _ Hx) as [y [Hy [En _]]]. rewrite En.
              destruct (Hb_names y Hy) as [k' [A B]]. rewrite B. split.
              - intros E. apply Hnin. rewrite <- E. apply in_map. exact A.
              - apply Hnm. right. exact A. }
          rewrite (gview_other (onm k) (prune post) Hkdot).
          2:{ intros x Hx. destruct (prune_names _ _ Hx) as [y [Hy [En _]]]. rewrite En.
              destruct (Hpp y (in_or_app _ _ _ (or_intror Hy))) as [A B]. split; [|exact A].
              apply B. left. reflexivity. }
          cbn [app]. rewrite !app_nil_r. reflexivity. }
        destruct (Hstep i k a (or_introl eq_refl) Ha Hgv) as [u1 Hu1].
        destruct (IH Hsh' seen' (S i) b (pre ++ fst a) post Hb Hnd') as [u2 Hu2].
        * intros k' Hk'. apply Hnm. right. exact Hk'.
        * intros x Hx. rewrite <- app_assoc in Hx. apply in_app_or in Hx. destruct Hx as [Hx|Hx].
          -- destruct (Hpp x (in_or_app _ _ _ (or_introl Hx))) as [A B]. split; [exact A|]. intros k' Hk'. apply B. right. exact Hk'.
          -- apply in_app_or in Hx. destruct Hx as [Hx|Hx].
             ++ destruct (Ha_names x Hx) as [A _]. rewrite A. split; [exact Hkne|].
                intros k' Hk' E. apply Hnin. rewrite E. apply in_map. exact Hk'.
             ++ destruct (Hpp x (in_or_app _ _ _ (or_intror Hx))) as [A B]. split; [exact A|]. intros k' Hk'. apply B. right. exact Hk'.
        * rewrite HW. rewrite <- !app_assoc. reflexivity.
        * intros j k' b' Hk' Hb' Hg. apply Hstep; [right; exact Hk'|exact Hb'|exact Hg].
        * rewrite Hu1. cbn [bind]. rewrite Hu2. cbn. eauto.
  Qed.

  Lemma fetch_scope_refetch_p : forall M, wfd env canon M -> oplain M -> nohid M = true ->
    forall chain, rec_idem_p (fsc M chain).
  Proof.
    induction M as [h ws a|h ks a IH] using obj_ind2; intros Hwf HM Hnh chain comb os u Hp H comb' Hp' Hv.
    - cbn in H. discriminate.
    - inversion Hwf as [|h0 ks0 a0 Hnd Hent]; subst.
      cbn [fetch_scope] in *.
      pose proof (proj1 (oplain_scp h ks a) HM) as Hks.
      rewrite nohid_scp in Hnh. apply andb_prop in Hnh. destruct Hnh as [_ Hnh].
      rewrite Forall_forall in IH.
      eapply (mloop_refetch_p _ _ os ks) with (o := (os, u)) (pre := []) (post := []).
      + intros i k o Hk Ho. eapply fetch_one_shape; [|exact Ho]. intros c oc Hoc. eapply fetch_scope_shape. exact Hoc.
      + exact H.
      + exact Hnd.
      + intros k Hk. destruct (Hent k Hk) as [A [B _]]. auto.
      + intros x [].
      + cbn. rewrite app_nil_r. reflexivity.
      + intros j k [bb ub] Hk Hb Hg. cbn [fst] in *.
        destruct (entries_active _ _ _ Hk) as [Hact Hin].
        destruct (Hent k Hk) as [_ [_ [Hmul Hw]]].
        assert (Hkp : oplain k) by (apply Hks; exact Hin).
        assert (Hkn : nohid k = true) by (eapply nohids_In; eassumption).
        assert (Hdf : omultiple k = true -> exists c0 u0,
                  cand_fetch env canon false k (fsc k (ks :: chain)) (mklsrc [] k []) = Ok (Some c0, u0) /\
                  canon k (Some c0) = canon k None).
        { intros Em. destruct (Hmul Em (ks :: chain)) as [c0 [u0 Hc0]]. eauto. }
        apply (fetch_one_refetch_p env canon ks (ks :: chain) j k (fsc k (ks :: chain)) comb bb ub Hact Hkp Hks
                 (wfd_def_ok env canon _ Hw) Hkn Hdf (fetch_scope_view env canon false k (ks :: chain))
                 (IH k Hin Hw Hkp Hkn (ks :: chain)) Hp Hb comb' Hp').
        rewrite (match_sources_gview (onm k) comb' (prune os) Hv). exact Hg.
  Qed.

  (* B: the result, offered again without its hidden templates, is reproduced exactly *)
  Theorem refetch_pruned : forall m srcs w, D07 env canon m -> nohids m = true -> srcs_have_dollar srcs = false ->
    fetch env canon false m srcs = Ok w -> fetch env canon false m [prune w] = Ok w.
  Proof.
    intros m srcs w [Hwf Hmp] Hnh Hd H. unfold fetch in *. bind_inv H as oc Hoc. injection H as E. subst w.
    unfold fetch_root in *. destruct oc as [w u]. cbn [fst].
    pose proof (root_plain m Hmp) as HM.
    assert (Hwp : forall x, In x w -> oplain x).
    { intros x Hx. eapply (fetch_scope_plain env canon false (root_scope m) HM [] (root_lsrcs srcs) (w, u)); [|exact Hoc|exact Hx].
      apply lplain_root. exact Hd. }
    destruct (fetch_scope_refetch_p (root_scope m) Hwf HM) with (chain := @nil (list obj)) (comb := root_lsrcs srcs) (os := w) (u := u)
      (comb' := root_lsrcs [prune w]) as [u' Hu'].
    - unfold root_scope. rewrite nohid_scp. cbn. exact Hnh.
    - apply lplain_root. exact Hd.
    - exact Hoc.
    - apply lplain_root. unfold srcs_have_dollar. cbn [existsb]. rewrite (all_plain_existsb (prune w) (prune_plain w Hwp)). reflexivity.
    - rewrite lview_root. cbn [flat_map]. apply app_nil_r.
    - rewrite Hu'. reflexivity.
  Qed.
End PrunedLoop.

(* ====================================================================================== *)
(* C. what the printer shows of a result                                                   *)
(* ====================================================================================== *)
(* At attributes level < 2 definition.show / scope.show return at once for is_template < 0 and never
   look at is_template otherwise: the text of l is the text of [shown l] (hidden templates removed,
   is_template reset to 0), provided removing a hidden first child does not change whether a scope
   is printed with merged names (mstable; true of fetch results, where a hidden template is
   followed by an instance carrying the same header). *)
Fixpoint shown_obj (o:obj) : obj :=
  match o with
  | Def h ws a => Def (with_tmpl h 0) ws a
  | Scp h ks a =>
      Scp (with_tmpl h 0)
          ((fix go (l:list obj) : list obj :=
              match l with
              | [] => []
              | k :: r => if hidden k then go r else shown_obj k :: go r
              end) ks) a
  end.
Fixpoint shown (l:list obj) : list obj :=
  match l with
  | [] => []
  | k :: r => if hidden k then shown r else shown_obj k :: shown r
  end.
Lemma shown_obj_scp : forall h ks a, shown_obj (Scp h ks a) = Scp (with_tmpl h 0) (shown ks) a.
Proof. intros. reflexivity. Qed.

Fixpoint mstable (o:obj) : bool :=
  match o with
  | Def _ _ _ => true
  | Scp _ ks _ =>
      Bool.eqb (first_merges (shown ks)) (first_merges ks) &&
      (fix go (l:list obj) : bool := match l with [] => true | k :: r => mstable k && go r end) ks
  end.
Fixpoint mstables (l:list obj) : bool := match l with [] => true | k :: r => mstable k && mstables r end.
Lemma mstable_scp : forall h ks a,
  mstable (Scp h ks a) = Bool.eqb (first_merges (shown ks)) (first_merges ks) && mstables ks.
Proof. intros. reflexivity. Qed.

Lemma show_hidden : forall o m p e lv w, hidden o = true -> (lv <? 2)%Z = true -> show_obj o m p e lv w = Ok [].
Proof.
  intros o m p e lv w Hh Hl. unfold hidden in Hh. destruct o as [h ws a|h ks a]; cbn [ohdr] in Hh.
  - cbn [show_obj]. unfold show_def. rewrite Hh, Hl. reflexivity.
  - rewrite show_obj_scp. unfold show_scope_body. rewrite Hh, Hl. reflexivity.
Qed.

Lemma show_shown_obj : forall o, mstable o = true -> hidden o = false ->
  forall m p e lv w, (lv <? 2)%Z = true -> show_obj (shown_obj o) m p e lv w = show_obj o m p e lv w.
Proof.
  induction o as [h ws a|h ks a IH] using obj_ind2; intros Hs Hh m p e lv w Hl; unfold hidden in Hh; cbn [ohdr] in Hh.
  - cbn [shown_obj show_obj]. unfold show_def. cbn [with_tmpl otmpl odis oname]. rewrite Hh. reflexivity.
  - rewrite shown_obj_scp, !show_obj_scp. unfold show_scope_body. cbn [with_tmpl otmpl odis oname]. rewrite Hh.
    change ((0 <? 0)%Z) with false. cbn [andb].
    rewrite mstable_scp in Hs. apply andb_prop in Hs. destruct Hs as [Hf Hs]. apply eqb_prop in Hf. rewrite Hf.
    assert (Hlist : forall m p, show_list (shown ks) m p e lv w = show_list ks m p e lv w).
    { clear Hf. induction IH as [|k r Hk _ IHr]; intros m0 p0; [reflexivity|].
      cbn [mstables] in Hs. apply andb_prop in Hs. destruct Hs as [Hs1 Hs2].
      cbn [shown show_list]. destruct (hidden k) eqn:Ek.
      - rewrite (show_hidden k m0 p0 e lv w Ek Hl). cbn [bind app]. rewrite (IHr Hs2).
        destruct (show_list r m0 p0 e lv w); reflexivity.
      - cbn [show_list]. rewrite (Hk Hs1 eq_refl m0 p0 e lv w Hl), (IHr Hs2). reflexivity. }
    rewrite !Hlist. reflexivity.
Qed.

Lemma show_shown : forall l, mstables l = true -> forall p e lv w, (lv <? 2)%Z = true ->
  show_objs (shown l) p e lv w = show_objs l p e lv w.
Proof.
  induction l as [|k r IH]; intros Hs p e lv w Hl; [reflexivity|].
  cbn [mstables] in Hs. apply andb_prop in Hs. destruct Hs as [Hs1 Hs2].
  cbn [shown show_objs]. destruct (hidden k) eqn:Ek.
  - rewrite (show_hidden k [] p e lv w Ek Hl). cbn [bind app]. rewrite (IH Hs2 p e lv w Hl).
    destruct (show_objs r p e lv w); reflexivity.
  - cbn [show_objs]. rewrite (show_shown_obj k Hs1 Ek [] p e lv w Hl), (IH Hs2 p e lv w Hl). reflexivity.
Qed.

(* the printed text of a result is the printed text of its shown part *)
Theorem as_str_shown : forall l p e lv w, mstables l = true -> (lv <? 2)%Z = true ->
  as_str (shown l) p e lv w = as_str l p e lv w.
Proof. intros. unfold as_str. apply show_shown; assumption. Qed.

(* ------------------------------------------------------------------ bridges between the erasures *)
Lemma erase_word_idem : forall ws, map erase_word (map erase_word ws) = map erase_word ws.
Proof. intros. rewrite map_map. apply map_ext. reflexivity. Qed.

Lemma lk_erase_obj : forall o, lk (erase_obj o) = lk o.
Proof.
  induction o as [h ws a|h ks a IH] using obj_ind2.
  - cbn [erase_obj lk]. rewrite erase_word_idem. reflexivity.
  - cbn [erase_obj lk]. f_equal. rewrite map_map. induction IH as [|k r Hk _ IHr]; [reflexivity|].
    cbn [map]. rewrite Hk, IHr. reflexivity.
Qed.
Lemma lk_erase_all : forall o, lk (erase_all o) = lk o.
Proof.
  induction o as [h ws a|h ks a IH] using obj_ind2.
  - cbn [erase_all lk]. rewrite erase_word_idem. reflexivity.
  - cbn [erase_all lk]. f_equal. rewrite map_map. induction IH as [|k r Hk _ IHr]; [reflexivity|].
    cbn [map]. rewrite Hk, IHr. reflexivity.
Qed.
Lemma lk_of_erasures : forall l x, map erase_obj l = map erase_all x -> map lk l = map lk x.
Proof.
  intros l x H. apply (f_equal (map lk)) in H. rewrite !map_map in H.
  rewrite (map_ext _ lk lk_erase_obj), (map_ext _ lk lk_erase_all) in H. exact H.
Qed.

Lemma lk_shown_obj : forall o, lk (shown_obj o) = lk (prune_obj o).
Proof.
  induction o as [h ws a|h ks a IH] using obj_ind2; [reflexivity|].
  rewrite shown_obj_scp, prune_obj_scp. cbn [lk]. f_equal.
  induction IH as [|k r Hk _ IHr]; [reflexivity|]. cbn [shown prune]. destruct (hidden k); [exact IHr|].
  cbn [map]. rewrite Hk, IHr. reflexivity.
Qed.
Lemma lk_shown : forall l, map lk (shown l) = map lk (prune l).
Proof.
  induction l as [|k r IH]; [reflexivity|]. cbn [shown prune]. destruct (hidden k); [exact IH|].
  cbn [map]. rewrite lk_shown_obj, IH. reflexivity.
Qed.

Lemma existsb_plain : forall w, existsb obj_has_dollar w = false -> forall x, In x w -> oplain x.
Proof.
  intros w H x Hx. unfold oplain. destruct (obj_has_dollar x) eqn:E; [|reflexivity].
  assert (existsb obj_has_dollar w = true) by (apply existsb_exists; exists x; split; assumption). congruence.
Qed.


(* ------------------------------------------------------------------ fetch results are merge-stable *)
(* by the shape theorem of C04 (FetchShape.fetch_shape): a hidden template is always followed by an
   instance carrying the same header, so removing it never changes the first child's merge flag *)
Definition hm (l:list obj) : option bool := match l with [] => None | k :: _ => Some (omerge (ohdr k)) end.
Lemma first_merges_hm : forall l, first_merges l = match hm l with Some b => b | None => false end.
Proof. intros [|k r]; reflexivity. Qed.
Lemma hm_app : forall a b, hm (a ++ b) = match hm a with Some x => Some x | None => hm b end.
Proof. intros [|k a] b; reflexivity. Qed.
Lemma shown_app : forall a b, shown (a ++ b) = shown a ++ shown b.
Proof.
  induction a as [|k a IH]; intros b; [reflexivity|]. cbn [app shown].
  destruct (hidden k); [apply IH|]. cbn. rewrite IH. reflexivity.
Qed.
Lemma mstables_app : forall a b, mstables (a ++ b) = mstables a && mstables b.
Proof. induction a as [|k a IH]; intros b; [reflexivity|]. cbn [app mstables]. rewrite IH. apply andb_assoc. Qed.
Lemma omerge_shown_obj : forall o, omerge (ohdr (shown_obj o)) = omerge (ohdr o).
Proof. destruct o; reflexivity. Qed.
Lemma mstable_set_hdr : forall o h, mstable (set_hdr o h) = mstable o.
Proof. destruct o; reflexivity. Qed.
Lemma ohdr_set_hdr : forall o h, ohdr (set_hdr o h) = h.
Proof. destruct o; reflexivity. Qed.
Lemma hm_shown_visible : forall k r, hidden k = false -> hm (shown (k :: r)) = hm (k :: r).
Proof. intros k r H. cbn [shown]. rewrite H. cbn [hm]. rewrite omerge_shown_obj. reflexivity. Qed.

Lemma nohids_mstables : forall l, nohids l = true -> (forall k, In k l -> nohid k = true -> mstable k = true) ->
  mstables l = true /\ hm (shown l) = hm l.
Proof.
  intros l H Hk. split.
  - induction l as [|k r IH]; [reflexivity|]. cbn [nohids] in H. apply andb_prop in H. destruct H as [H1 H2].
    cbn [mstables]. rewrite (Hk k (or_introl eq_refl) H1). apply IH; [exact H2|]. intros x Hx. apply Hk. right. exact Hx.
  - destruct l as [|k r]; [reflexivity|]. cbn [nohids] in H. apply andb_prop in H. destruct H as [H1 _].
    apply hm_shown_visible. apply nohid_not_hidden. exact H1.
Qed.
Lemma nohid_mstable : forall o, nohid o = true -> mstable o = true.
Proof.
  induction o as [h ws a|h ks a IH] using obj_ind2; intros H; [reflexivity|].
  rewrite nohid_scp in H. apply andb_prop in H. destruct H as [_ H].
  rewrite Forall_forall in IH. destruct (nohids_mstables ks H) as [A B]; [intros k Hk; apply IH; exact Hk|].
  rewrite mstable_scp, A, !first_merges_hm, B. rewrite eqb_reflx. reflexivity.
Qed.

Scheme sb_min := Minimality for shape_block Sort Prop
  with si_min := Minimality for shape_insts Sort Prop
  with so_min := Minimality for shape_objs Sort Prop
  with sbs_min := Minimality for shape_blocks Sort Prop.

Lemma shape_mstables : forall ks os, shape_objs ks os -> nohids ks = true ->
  mstables os = true /\ hm (shown os) = hm os.
Proof.
  apply (so_min
    (fun k b => nohid k = true -> mstables b = true /\ hm (shown b) = hm b)
    (fun k l => nohid k = true -> mstables l = true /\ forall c, In c l -> ohdr c = with_tmpl (ohdr k) 0)
    (fun ks os => nohids ks = true -> mstables os = true /\ hm (shown os) = hm os)
    (fun es r => (forall k, In k es -> nohid k = true) -> mstables r = true /\ hm (shown r) = hm r)).
  - intros h ws a _ _ Hn. split; [reflexivity|]. apply hm_shown_visible. apply nohid_not_hidden. exact Hn.
  - intros h ws a ws' _ _ Hn. split; reflexivity.
  - intros h ws a _ _ Hn. split; reflexivity.
  - intros h ks a os _ _ IH Hn. rewrite nohid_scp in Hn. apply andb_prop in Hn. destruct Hn as [_ Hn].
    destruct (IH Hn) as [A B]. split; [|reflexivity].
    cbn [mstables]. rewrite mstable_scp, A, !first_merges_hm, B, eqb_reflx. reflexivity.
  - intros k insts _ _ IH Hn. destruct (IH Hn) as [A B]. split.
    + cbn [mstables]. rewrite mstable_set_hdr, (nohid_mstable k Hn), A. reflexivity.
    + destruct (hidden (set_hdr k (with_tmpl (ohdr k) (tmpl_flag k insts)))) eqn:Eh; [|apply hm_shown_visible; exact Eh].
      pose proof Eh as Eh0. unfold hidden in Eh0. rewrite ohdr_set_hdr in Eh0. cbn [with_tmpl otmpl] in Eh0.
      unfold tmpl_flag in Eh0. destruct (mandatory (ooptional k)) eqn:Em; [discriminate Eh0|].
      destruct insts as [|c r]; [discriminate Eh0|].
      assert (Hc : ohdr c = with_tmpl (ohdr k) 0) by (apply B; left; reflexivity).
      assert (Hhc : hidden c = false) by (unfold hidden; rewrite Hc; reflexivity).
      cbn [shown]. rewrite Eh, Hhc. cbn [hm]. rewrite omerge_shown_obj, Hc, ohdr_set_hdr. reflexivity.
  - intros k _. split; [reflexivity|]. intros c [].
  - intros h ws a ws' r _ _ IH Hn. destruct (IH Hn) as [A B]. split; [exact A|].
    intros c [E|Hc]; [subst; reflexivity|apply B; exact Hc].
  - intros h ks a os r _ IHo _ IH Hn. destruct (IH Hn) as [A B].
    pose proof Hn as Hn'. rewrite nohid_scp in Hn'. apply andb_prop in Hn'. destruct Hn' as [_ Hn'].
    destruct (IHo Hn') as [A' B']. split.
    + cbn [mstables]. rewrite mstable_scp, A', !first_merges_hm, B', eqb_reflx, A. reflexivity.
    + intros c [E|Hc]; [subst; reflexivity|apply B; exact Hc].
  - intros ks r _ IH Hn. apply IH. intros k Hk. destruct (entries_active _ _ _ Hk) as [_ Hin]. eapply nohids_In; eassumption.
  - intros _. split; reflexivity.
  - intros k b ks r _ IHb _ IHr Hn.
    destruct (IHb (Hn k (or_introl eq_refl))) as [A B].
    destruct (IHr (fun x Hx => Hn x (or_intror Hx))) as [A' B'].
    split; [rewrite mstables_app, A, A'; reflexivity|].
    rewrite shown_app, !hm_app, B, B'. reflexivity.
Qed.

Lemma fetch_mstables : forall env canon m srcs w, nohids m = true ->
  fetch env canon false m srcs = Ok w -> mstables w = true.
Proof.
  intros env canon m srcs w Hn H. apply fetch_shape in H. unfold shape_ok in H.
  apply (shape_mstables m w H Hn).
Qed.

(* the printed texts agree as well: the printer does not read word lines *)
Lemma erase_obj_we : forall o, erase_obj (we o) = erase_obj o.
Proof.
  induction o as [h ws a|h ks a IH] using obj_ind2.
  - cbn [we erase_obj]. rewrite erase_word_idem. reflexivity.
  - cbn [we erase_obj]. f_equal. rewrite map_map. induction IH as [|k r Hk _ IHr]; [reflexivity|].
    cbn [map]. rewrite Hk, IHr. reflexivity.
Qed.
Lemma we_same_text : forall l l' p e lv wd, map we l = map we l' -> as_str l p e lv wd = as_str l' p e lv wd.
Proof.
  intros l l' p e lv wd H. unfold as_str. apply same_structure_same_text.
  apply (f_equal (map erase_obj)) in H. rewrite !map_map in H.
  rewrite !(map_ext _ erase_obj erase_obj_we) in H. exact H.
Qed.

(* ------------------------------------------------------------------ masters without any .multiple entry *)
(* the canon oracle is never consulted (diff = false): no hypothesis on it is needed *)
Lemma def_loop_canon : forall env canon canon' h mws a ms last,
  def_loop env canon false h mws a ms last = def_loop env canon' false h mws a ms last.
Proof.
  intros env canon canon' h mws a ms. induction ms as [|s r IH]; intros last; [reflexivity|].
  cbn [def_loop]. unfold def_fetch. destruct (def_fetch_value env false h mws a s); cbn [bind]; [apply IH|reflexivity|reflexivity].
Qed.
Lemma fetch_one_canon : forall env canon canon' allks chain i k rec rec' srcs,
  omultiple k = false -> (forall c, rec c = rec' c) ->
  fetch_one env canon false allks chain i k rec srcs = fetch_one env canon' false allks chain i k rec' srcs.
Proof.
  intros env canon canon' allks chain i k rec rec' srcs Hm Hr. unfold fetch_one. rewrite Hm. cbn [negb].
  destruct (get_attr (s_ "alias") (oattrs k)); try reflexivity.
  destruct (oname (ohdr k)) as [|c0 nm]; [reflexivity|].
  destruct k as [h mws a|h ks a].
  - rewrite (def_loop_canon env canon canon'). reflexivity.
  - destruct (combine (match_sources (c0 :: nm) srcs)) as [comb| |]; cbn [bind]; [|reflexivity|reflexivity].
    rewrite Hr. reflexivity.
Qed.
Lemma mloop_ext_entries : forall (body body':nat -> obj -> res fout) l seen i,
  (forall j k, In k (entries_from seen l) -> body j k = body' j k) ->
  mloop body seen i l = mloop body' seen i l.
Proof.
  intros body body' l. induction l as [|k r IH]; intros seen i H; [reflexivity|].
  cbn [mloop]. cbn [entries_from] in H. destruct (mao_step seen k) as [| |seen'].
  - apply IH. exact H.
  - reflexivity.
  - rewrite (H i k (or_introl eq_refl)). destruct (body' i k); cbn [bind]; [|reflexivity|reflexivity].
    rewrite (IH seen' (S i)); [reflexivity|]. intros j k' Hk'. apply H. right. exact Hk'.
Qed.
Lemma fetch_scope_canon : forall env canon canon' M, nomult M -> forall chain srcs,
  fetch_scope env canon false M chain srcs = fetch_scope env canon' false M chain srcs.
Proof.
  intros env canon canon'. induction M as [h ws a|h ks a IH] using obj_ind2; intros Hn chain srcs; [reflexivity|].
  inversion Hn as [|h0 ks0 a0 Hk]; subst. cbn [fetch_scope]. apply mloop_ext_entries.
  intros j k Hin. destruct (Hk k Hin) as [Hm Hnk]. apply fetch_one_canon; [exact Hm|].
  intros c. rewrite Forall_forall in IH. apply IH; [eapply entries_active; exact Hin|exact Hnk].
Qed.
Lemma fetch_canon : forall env canon canon' m srcs, nomult (root_scope m) ->
  fetch env canon false m srcs = fetch env canon' false m srcs.
Proof. intros. unfold fetch, fetch_root. rewrite (fetch_scope_canon env canon canon'); [reflexivity|assumption]. Qed.

(* ====================================================================================== *)
(* the text form                                                                           *)
(* ====================================================================================== *)
(* M in D07 without hidden objects (every parsed master), canon blind to word lines; W = M.fetch(S)
   printable in C01's domain (dtree_ok of its shown part).  Then the text of W at
   attributes level 0, any width, parses, and fetching the parsed tree gives W again up to the line
   numbers of value words. *)
Theorem refetch_text : forall env canon o m srcs w width text l,
  (forall k c c', optwe c c' -> canon k c = canon k c') ->
  D07 env canon m -> nohids m = true -> srcs_have_dollar srcs = false ->
  fetch env canon false m srcs = Ok w ->
  forallb (dtree_ok []) (shown w) = true ->
  as_str w [] None 0 width = Ok text -> parse o text = Ok l ->
  exists w', fetch env canon false m [l] = Ok w' /\ map we w' = map we w /\
             forall p e lv wd, as_str w' p e lv wd = as_str w p e lv wd.
Proof.
  intros env canon o m srcs w width text l Hcl HD Hnh Hd Hf Hdt Htext Hparse.
  pose proof (fetch_mstables env canon m srcs w Hnh Hf) as Hms.
  rewrite <- (as_str_shown w [] None 0%Z width Hms eq_refl) in Htext.
  destruct (parse_as_str_level0_dotted o (shown w) width text Hdt Htext) as [l' [Hp' Hl]].
  rewrite Hparse in Hp'. injection Hp' as E. subst l'.
  assert (Hlk : map lk (prune w) = map lk l).
  { rewrite <- lk_shown. symmetry. apply lk_of_erasures. exact Hl. }
  pose proof (refetch_pruned env canon m srcs w HD Hnh Hd Hf) as Hpr.
  assert (Hwp : existsb obj_has_dollar (prune w) = false).
  { apply all_plain_existsb. apply prune_plain. apply existsb_plain.
    pose proof (fetch_result_plain env canon false m srcs w (proj2 HD) Hd Hf) as P.
    unfold srcs_have_dollar in P. cbn [existsb] in P. rewrite orb_false_r in P. exact P. }
  destruct (fetch_lines env canon Hcl m [prune w] [l] w) as [w' [Hw' Hwe]].
  - unfold srcs_have_dollar. cbn [existsb]. rewrite Hwp. reflexivity.
  - unfold srcs_have_dollar. cbn [existsb]. rewrite <- (lk_dollar_list _ _ Hlk), Hwp. reflexivity.
  - cbn [List.concat]. rewrite !app_nil_r. apply lk_leql. exact Hlk.
  - exact Hpr.
  - exists w'. split; [exact Hw'|]. split; [symmetry; exact Hwe|].
    intros p e lv wd. apply we_same_text. symmetry. exact Hwe.
Qed.

(* masters without any .multiple entry: every canon oracle *)
Theorem refetch_text_nomultiple : forall env canon o m srcs w width text l,
  D07s m -> nohids m = true -> srcs_have_dollar srcs = false ->
  fetch env canon false m srcs = Ok w ->
  forallb (dtree_ok []) (shown w) = true ->
  as_str w [] None 0 width = Ok text -> parse o text = Ok l ->
  exists w', fetch env canon false m [l] = Ok w' /\ map we w' = map we w /\
             forall p e lv wd, as_str w' p e lv wd = as_str w p e lv wd.
Proof.
  intros env canon o m srcs w width text l HD Hnh Hd Hf Hdt Htext Hparse.
  pose proof HD as [_ [Hnm _]].
  set (canon0 := fun (_:obj) (_:option obj) => @Ok str []).
  rewrite (fetch_canon env canon canon0 m _ Hnm) in Hf. rewrite (fetch_canon env canon canon0 m _ Hnm).
  apply (refetch_text env canon0 o m srcs w width text l); try assumption; [reflexivity|].
  apply D07s_D07. exact HD.
Qed.

(* ------------------------------------------------------------------ the hypothesis "no hidden object in the master" *)
(* trees of C01's domain carry is_template = 0 everywhere; in particular every parsed master without
   deprecated definitions and include lines (C01_parsed_trees_in_domain) *)
Lemma dtree_ok_nohid : forall o m, dtree_ok m o = true -> nohid o = true.
Proof.
  intros o. induction o as [h ws a|h ks a IH] using obj_ind2; intros m H; cbn [dtree_ok] in H.
  - apply andb_prop in H as [H _]. apply andb_prop in H as [H _]. apply andb_prop in H as [H _].
    destruct (leaf_ok_facts _ _ H) as (_ & Ht & _). cbn [nohid]. unfold hidden. cbn [ohdr]. rewrite Ht. reflexivity.
  - rewrite nohid_scp. destruct (first_merges ks).
    + apply andb_prop in H as [H Hk]. apply andb_prop in H as [H _]. apply andb_prop in H as [_ Ht]. apply Z.eqb_eq in Ht.
      unfold hidden. cbn [ohdr]. rewrite Ht. cbn [negb andb Z.ltb Z.compare].
      destruct ks as [|k [|k2 r]]; try discriminate Hk.
      inversion IH as [|? ? Hk0 _]; subst. cbn [nohids]. rewrite (Hk0 _ Hk). reflexivity.
    + apply andb_prop in H as [Hl H]. destruct (leaf_ok_facts _ _ Hl) as (_ & Ht & _).
      unfold hidden. cbn [ohdr]. rewrite Ht. cbn [negb andb Z.ltb Z.compare].
      induction IH as [|c r Hc Hr IHr]; [reflexivity|].
      cbn [forallb] in H. apply andb_prop in H as [H1 H2]. cbn [nohids]. rewrite (Hc _ H1), (IHr H2). reflexivity.
Qed.
Lemma dtree_ok_nohids : forall l, forallb (dtree_ok []) l = true -> nohids l = true.
Proof.
  induction l as [|k r IH]; intros H; [reflexivity|]. cbn [forallb] in H. apply andb_prop in H as [H1 H2].
  cbn [nohids]. rewrite (dtree_ok_nohid _ _ H1), (IH H2). reflexivity.
Qed.
Lemma parsed_master_nohids : forall o s m, parse o s = Ok m -> no_deprecated_or_include m = true -> nohids m = true.
Proof. intros o s m H Hd. apply dtree_ok_nohids. eapply parse_lands_in_dtree_ok; eassumption. Qed.

(* ====================================================================================== *)
(* non-vacuity: a master with a multiple scope, a plain scope and a multiple definition,    *)
(* two sources                                                                              *)
(* ====================================================================================== *)
(* master   a = 1                          source 1   a = 2            source 2   t { c = 6 }
            s .multiple = True { b = x }              s { b = y }                 d = 8
            t { c = 5 }                               d = 7                       s { b = z }
            d = 0 .multiple = True                                                d = 7          *)
Definition ex2_master : list obj :=
  [ Def (dh "a" false 1 1) [w_ "1" 1] [];
    Scp (dh "s" false 2 2) [Def (dh "b" false 3 3) [w_ "x" 3] []] [(s_ "multiple", ABool true)];
    Scp (dh "t" false 4 5) [Def (dh "c" false 5 6) [w_ "5" 6] []] [];
    Def (dh "d" false 6 8) [w_ "0" 8] [(s_ "multiple", ABool true)] ].
Definition ex2_src1 : list obj :=
  [ Def (dh "a" false 1 1) [w_ "2" 1] [];
    Scp (dh "s" false 2 2) [Def (dh "b" false 3 2) [w_ "y" 2] []] [];
    Def (dh "d" false 4 3) [w_ "7" 3] [] ].
Definition ex2_src2 : list obj :=
  [ Scp (dh "t" false 1 1) [Def (dh "c" false 2 1) [w_ "6" 1] []] [];
    Def (dh "d" false 3 2) [w_ "8" 2] [];
    Scp (dh "s" false 4 3) [Def (dh "b" false 5 3) [w_ "z" 3] []] [];
    Def (dh "d" false 6 4) [w_ "7" 4] [] ].

Definition ex2_result : list obj :=
  Eval vm_compute in match fetch ex_env ex_canon false ex2_master [ex2_src1; ex2_src2] with Ok r => r | _ => [] end.
Definition ex2_text : str :=
  Eval vm_compute in match as_str ex2_result [] None 0 None with Ok t => t | _ => [] end.
Definition ex2_parsed : list obj :=
  Eval vm_compute in match parse [] ex2_text with Ok l => l | _ => [] end.
Definition ex2_again : list obj :=
  Eval vm_compute in match fetch ex_env ex_canon false ex2_master [ex2_parsed] with Ok r => r | _ => [] end.

Lemma flat_words_we : forall o, flat_words (we o) = flat_words o.
Proof.
  induction o as [h ws a|h ks a IH] using obj_ind2.
  - cbn [we flat_words]. rewrite map_map. apply map_ext. reflexivity.
  - cbn [we]. change (flat_words (Scp h (map we ks) a)) with (flat_map flat_words (map we ks)).
    change (flat_words (Scp h ks a)) with (flat_map flat_words ks).
    induction IH as [|k r Hk _ IHr]; [reflexivity|]. cbn [map flat_map]. rewrite Hk, IHr. reflexivity.
Qed.
Lemma ex_canon_lines : forall k c c', optwe c c' -> ex_canon k c = ex_canon k c'.
Proof.
  intros k [x|] [y|] H; try discriminate H; [|reflexivity]. unfold optwe in H. cbn in H. injection H as H.
  unfold ex_canon. rewrite <- (flat_words_we x), H, flat_words_we. reflexivity.
Qed.

Lemma ex2_D07 : D07 ex_env ex_canon ex2_master.
Proof.
  split; [|reflexivity]. unfold root_scope. apply wfd_scp.
  - vm_compute. repeat (constructor; [cbn; intuition discriminate|]). constructor.
  - intros k Hk. vm_compute in Hk. destruct Hk as [E|[E|[E|[E|[]]]]]; subst k.
    + split; [discriminate|]. split; [reflexivity|]. split; [intros H; discriminate H|].
      apply wfd_def. split; [reflexivity|]. split; [reflexivity|exact I].
    + split; [discriminate|]. split; [reflexivity|]. split.
      * intros _ chain. eexists. eexists. split; vm_compute; reflexivity.
      * apply wfd_scp.
        -- vm_compute. constructor; [intros []|constructor].
        -- intros k Hk. vm_compute in Hk. destruct Hk as [E|[]]. subst k.
           split; [discriminate|]. split; [reflexivity|]. split; [intros H; discriminate H|].
           apply wfd_def. split; [reflexivity|]. split; [reflexivity|exact I].
    + split; [discriminate|]. split; [reflexivity|]. split; [intros H; discriminate H|].
      apply wfd_scp.
      * vm_compute. constructor; [intros []|constructor].
      * intros k Hk. vm_compute in Hk. destruct Hk as [E|[]]. subst k.
        split; [discriminate|]. split; [reflexivity|]. split; [intros H; discriminate H|].
        apply wfd_def. split; [reflexivity|]. split; [reflexivity|exact I].
    + split; [discriminate|]. split; [reflexivity|]. split.
      * intros _ chain. eexists. eexists. split; vm_compute; reflexivity.
      * apply wfd_def. split; [reflexivity|]. split; [reflexivity|exact I].
Qed.

(* every hypothesis of refetch_text holds here; the result has two hidden templates (8 objects, 6
   shown); the re-fetched tree is the result up to word lines - and NOT equal to it: the words y, z,
   6, 8, 7 carry the lines of the printed text *)
Example refetch_text_example :
  (forall k c c', optwe c c' -> ex_canon k c = ex_canon k c') /\
  D07 ex_env ex_canon ex2_master /\ nohids ex2_master = true /\ srcs_have_dollar [ex2_src1; ex2_src2] = false /\
  fetch ex_env ex_canon false ex2_master [ex2_src1; ex2_src2] = Ok ex2_result /\
  mstables ex2_result = true /\ forallb (dtree_ok []) (shown ex2_result) = true /\
  as_str ex2_result [] None 0 None = Ok ex2_text /\ parse [] ex2_text = Ok ex2_parsed /\
  fetch ex_env ex_canon false ex2_master [ex2_parsed] = Ok ex2_again /\
  map we ex2_again = map we ex2_result /\ ex2_again <> ex2_result /\
  length ex2_result = 8 /\ length (prune ex2_result) = 6.
Proof.
  split; [exact ex_canon_lines|]. split; [exact ex2_D07|].
  repeat (split; [vm_compute; reflexivity|]).
  split; [vm_compute; discriminate|]. split; reflexivity.
Qed.

(* the theorem applied to the example *)
Example refetch_text_applied : exists w',
  fetch ex_env ex_canon false ex2_master [ex2_parsed] = Ok w' /\ map we w' = map we ex2_result /\
  forall p e lv wd, as_str w' p e lv wd = as_str ex2_result p e lv wd.
Proof.
  destruct refetch_text_example as (H1 & H2 & H3 & H4 & H5 & _ & H7 & H8 & H9 & _).
  exact (refetch_text ex_env ex_canon [] ex2_master [ex2_src1; ex2_src2] ex2_result None ex2_text ex2_parsed H1 H2 H3 H4 H5 H7 H8 H9).
Qed.

Print Assumptions fetch_lines.
Print Assumptions refetch_pruned.
Print Assumptions as_str_shown.
Print Assumptions fetch_mstables.
Print Assumptions parsed_master_nohids.
Print Assumptions refetch_text.
Print Assumptions refetch_text_nomultiple.
Print Assumptions refetch_text_example.
Print Assumptions refetch_text_applied.
