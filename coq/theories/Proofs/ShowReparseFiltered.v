(* C19: the FILTERED text (any expert level e) parses to exactly the allowed sub-tree [shown e l], on the larger
   domains of ShowReparseDeprecated:
   - level 3, deprecated definitions (domain stree_ok_d)           [filtered_text_parses_level3_deprecated]
   - level 3, dotted names and deprecated definitions (sdtree_ok)  [filtered_text_parses_level3_dotted]
   - every level >= 1, dotted names (ldtree_ok)                    [filtered_text_parses_levels_dotted]
   Route: printing with filter e = printing [shown e l] without filter (ShowReparse.show_objs_expert_ok_is_prune,
   needs only the shape part of wf_show, which the domains imply), pruning stays in each domain
   ([prune_keeps_stree_ok_d], [prune_keeps_sdtree_ok], [prune_keeps_ldtree_ok]), then the unfiltered theorems.
   A prefix scope (one child carrying merge_names) whose child is hidden disappears with it; when the child is
   kept, prune keeps its header, so the prefix scope still has exactly one merging child. *)
From Coq Require Import List Ascii String Bool Arith ZArith Lia.
From Phil Require Import Base Tokenizer Tree Parser Show QuoteProofs LexProofs ParserTotal ParserLayout
                         ShowProofs ShowErase WordsRoundtrip TreeRoundtrip ShowReparse ShowReparseAttrs
                         ShowReparseDeprecated.
Import ListNotations.
Local Open Scope char_scope.

(* ====================================================================================== *)
(* 1. prune keeps headers                                                                   *)
(* ====================================================================================== *)

Lemma prune_hdr : forall k o x, In x (prune k o) -> ohdr x = ohdr o.
Proof.
  intros k o x H. destruct o as [h ws a|h ks a]; cbn [prune] in H; destruct (hidden_k a k); try contradiction.
  - destruct H as [H|[]]. subst x. reflexivity.
  - destruct (first_merges ks).
    + destruct (flat_map (prune k) ks); [contradiction|]. destruct H as [H|[]]. subst x. reflexivity.
    + destruct H as [H|[]]. subst x. reflexivity.
Qed.

Lemma prune_single : forall k o, prune k o = [] \/ exists x, prune k o = [x] /\ ohdr x = ohdr o.
Proof.
  intros k o. destruct o as [h ws a|h ks a]; cbn [prune]; destruct (hidden_k a k); auto.
  - right. eexists. split; reflexivity.
  - destruct (first_merges ks).
    + destruct (flat_map (prune k) ks); auto. right. eexists. split; reflexivity.
    + right. eexists. split; reflexivity.
Qed.

Lemma prune_nomerge : forall k ks, (forall c, In c ks -> omerge (ohdr c) = false) ->
  first_merges (flat_map (prune k) ks) = false.
Proof.
  intros k ks H. destruct (flat_map (prune k) ks) as [|x r] eqn:E; [reflexivity|]. cbn [first_merges].
  assert (Hx : In x (flat_map (prune k) ks)) by (rewrite E; left; reflexivity).
  apply in_flat_map in Hx as (c & Hc & Hx). rewrite (prune_hdr _ _ _ Hx). exact (H c Hc).
Qed.

Lemma leaf_ok_nomerge : forall h, leaf_ok [] h = true -> omerge h = false.
Proof.
  intros h H. unfold leaf_ok in H. apply andb_prop in H as [_ H]. cbn [is_nil negb] in H.
  destruct (omerge h); [discriminate H|reflexivity].
Qed.
Lemma leaf_ok_named : forall m h, leaf_ok m h = true -> is_nil (oname h) = false.
Proof.
  intros m h H. unfold leaf_ok in H. apply andb_prop in H as [H _]. apply andb_prop in H as [H _].
  apply andb_prop in H as [H _]. apply negb_true_iff in H. exact H.
Qed.

(* ====================================================================================== *)
(* 2. level 3, deprecated definitions, dot-free names                                       *)
(* ====================================================================================== *)

Theorem prune_keeps_stree_ok_d : forall w k o p, stree_ok_d w p o = true -> forallb (stree_ok_d w p) (prune k o) = true.
Proof.
  intros w k o. induction o as [h ws a|h ks a IH] using obj_ind2; intros p H.
  - cbn [prune]. destruct (hidden_k a k); [reflexivity|]. cbn [forallb]. rewrite H. reflexivity.
  - cbn [prune]. destruct (hidden_k a k); [reflexivity|].
    assert (Hscp : stree_ok_d w p (Scp h (flat_map (prune k) ks) a) = true).
    { cbn [stree_ok_d] in *. apply andb_prop in H as [H Hkids]. rewrite H. cbn [andb].
      apply forallb_forall. intros x Hx. apply in_flat_map in Hx as (c & Hc & Hx).
      rewrite Forall_forall in IH. rewrite forallb_forall in Hkids.
      specialize (IH c Hc _ (Hkids c Hc)). rewrite forallb_forall in IH. exact (IH x Hx). }
    destruct (first_merges ks).
    + destruct (flat_map (prune k) ks) eqn:E; [reflexivity|]. cbn [forallb]. rewrite Hscp. reflexivity.
    + cbn [forallb]. rewrite Hscp. reflexivity.
Qed.

Lemma shown_keeps_stree_ok_d : forall w p e l,
  forallb (stree_ok_d w p) l = true -> forallb (stree_ok_d w p) (shown e l) = true.
Proof.
  intros w p [k|] l H; [|exact H]. cbn [shown]. unfold prunes.
  apply forallb_forall. intros x Hx. apply in_flat_map in Hx as (c & Hc & Hx).
  rewrite forallb_forall in H. assert (H' := prune_keeps_stree_ok_d w k c p (H c Hc)).
  rewrite forallb_forall in H'. exact (H' x Hx).
Qed.

(* ====================================================================================== *)
(* 3. level 3, dotted names and deprecated definitions                                      *)
(* ====================================================================================== *)

Lemma sdtree_nomerge : forall w p o, sdtree_ok w [] p o = true -> omerge (ohdr o) = false.
Proof.
  intros w p o H. destruct o as [h ws a|h ks a]; cbn [sdtree_ok ohdr] in *.
  - apply andb_prop in H as [H _]. apply andb_prop in H as [H _]. apply andb_prop in H as [H _].
    exact (leaf_ok_nomerge h H).
  - destruct (first_merges ks).
    + apply andb_prop in H as [H _]. apply andb_prop in H as [H _]. apply andb_prop in H as [_ H].
      cbn [is_nil negb] in H. destruct (omerge h); [discriminate H|reflexivity].
    + apply andb_prop in H as [H _]. apply andb_prop in H as [H _]. exact (leaf_ok_nomerge h H).
Qed.

Theorem sdtree_shape_ok : forall w o m p, sdtree_ok w m p o = true -> shape_ok o = true.
Proof.
  intros w o. induction o as [h ws a|h ks a IH] using obj_ind2; intros m p H; [reflexivity|].
  cbn [shape_ok]. cbn [sdtree_ok] in H. destruct (first_merges ks) eqn:Efm.
  - apply andb_prop in H as [H Hk]. destruct ks as [|c [|c2 r]]; try discriminate Hk.
    do 4 (apply andb_prop in H as [H _]). unfold is_nil in H. rewrite H. cbn [andb].
    inversion IH as [|? ? Hc _]; subst. cbn [forallb]. rewrite (Hc _ _ Hk). reflexivity.
  - apply andb_prop in H as [H Hks]. apply andb_prop in H as [H _].
    apply leaf_ok_named in H. unfold is_nil in H. rewrite H. cbn [negb andb].
    rewrite forallb_forall in Hks.
    assert (Hs : match ks with [c] => true | _ => forallb (fun c => negb (omerge (ohdr c))) ks end = true).
    { destruct ks as [|c [|c2 r]]; [reflexivity|reflexivity|].
      apply forallb_forall. intros x Hx. rewrite (sdtree_nomerge w _ x (Hks x Hx)). reflexivity. }
    rewrite Hs. cbn [andb].
    apply forallb_forall. intros c Hc. rewrite Forall_forall in IH. exact (IH c Hc [] _ (Hks c Hc)).
Qed.

Theorem prune_keeps_sdtree_ok : forall w k o m p, sdtree_ok w m p o = true ->
  forallb (sdtree_ok w m p) (prune k o) = true.
Proof.
  intros w k o. induction o as [h ws a|h ks a IH] using obj_ind2; intros m p H.
  - cbn [prune]. destruct (hidden_k a k); [reflexivity|]. cbn [forallb]. rewrite H. reflexivity.
  - cbn [prune]. destruct (hidden_k a k); [reflexivity|].
    cbn [sdtree_ok] in H. destruct (first_merges ks) eqn:Efm.
    + apply andb_prop in H as [H Hk]. destruct ks as [|c [|c2 r]]; try discriminate Hk.
      cbn [flat_map]. rewrite app_nil_r. inversion IH as [|? ? Hc _]; subst.
      specialize (Hc _ _ Hk).
      destruct (prune_single k c) as [E|(x & E & Ex)]; rewrite E in *; [reflexivity|].
      cbn [forallb] in *. apply andb_prop in Hc as [Hx _].
      cbn [sdtree_ok]. cbn [first_merges] in *. rewrite Ex, Efm, H, Hx. reflexivity.
    + apply andb_prop in H as [H Hks]. rewrite forallb_forall in Hks.
      cbn [forallb sdtree_ok].
      rewrite (prune_nomerge k ks (fun c Hc => sdtree_nomerge w _ c (Hks c Hc))), H. cbn [andb].
      rewrite andb_true_r.
      apply forallb_forall. intros x Hx. apply in_flat_map in Hx as (c & Hc & Hx).
      rewrite Forall_forall in IH. specialize (IH c Hc _ _ (Hks c Hc)).
      rewrite forallb_forall in IH. exact (IH x Hx).
Qed.

Lemma shown_keeps_sdtree_ok : forall w p e l,
  forallb (sdtree_ok w [] p) l = true -> forallb (sdtree_ok w [] p) (shown e l) = true.
Proof.
  intros w p [k|] l H; [|exact H]. cbn [shown]. unfold prunes.
  apply forallb_forall. intros x Hx. apply in_flat_map in Hx as (c & Hc & Hx).
  rewrite forallb_forall in H. assert (H' := prune_keeps_sdtree_ok w k c [] p (H c Hc)).
  rewrite forallb_forall in H'. exact (H' x Hx).
Qed.

Lemma sdtrees_shape : forall w p l, forallb (sdtree_ok w [] p) l = true -> forallb shape_ok l = true.
Proof.
  intros w p l H. apply forallb_forall. intros x Hx. rewrite forallb_forall in H.
  exact (sdtree_shape_ok w x [] p (H x Hx)).
Qed.

(* printing with the filter = printing the allowed sub-tree without filter *)
Lemma as_str_filtered_is_shown : forall l e lvl w text, forallb shape_ok l = true ->
  as_str l [] e lvl w = Ok text -> as_str (shown e l) [] None lvl w = Ok text.
Proof.
  intros l e lvl w text Hs H. destruct e as [k|]; [|exact H]. cbn [shown]. unfold as_str in *.
  apply show_objs_expert_ok_is_prune; [exact Hs|exact H].
Qed.

(* THE FILTERED LEVEL-3 TEXT PARSES TO EXACTLY THE ALLOWED SUB-TREE: dotted names, deprecated definitions *)
Theorem filtered_text_parses_level3_dotted : forall o l e w text,
  forallb (sdtree_ok (width_of w) [] []) l = true ->
  as_str l [] e 3 w = Ok text ->
  exists l', parse o text = Ok l' /\ map erase_obj l' = map erase3 (shown e l).
Proof.
  intros o l e w text Hok H.
  apply (parse_as_str_level3_dotted o (shown e l) w text (shown_keeps_sdtree_ok _ _ e l Hok)).
  exact (as_str_filtered_is_shown l e 3 w text (sdtrees_shape _ _ l Hok) H).
Qed.

Lemma strees_d_sdtrees : forall w p l, forallb (stree_ok_d w p) l = true -> forallb (sdtree_ok w [] p) l = true.
Proof.
  intros w p l H. apply forallb_forall. intros x Hx. rewrite forallb_forall in H.
  exact (stree_ok_d_sdtree_ok w x p (H x Hx)).
Qed.

(* THE FILTERED LEVEL-3 TEXT PARSES TO EXACTLY THE ALLOWED SUB-TREE: deprecated definitions, dot-free names *)
Theorem filtered_text_parses_level3_deprecated : forall o l e w text,
  forallb (stree_ok_d (width_of w) []) l = true ->
  as_str l [] e 3 w = Ok text ->
  exists l', parse o text = Ok l' /\ map erase_obj l' = map erase3 (shown e l).
Proof.
  intros o l e w text Hok H.
  apply (parse_as_str_level3_deprecated o (shown e l) w text (shown_keeps_stree_ok_d _ _ e l Hok)).
  exact (as_str_filtered_is_shown l e 3 w text (sdtrees_shape _ _ l (strees_d_sdtrees _ _ l Hok)) H).
Qed.

Print Assumptions filtered_text_parses_level3_deprecated.
Print Assumptions filtered_text_parses_level3_dotted.

(* ====================================================================================== *)
(* 4. every level >= 1, dotted names (no deprecated definitions)                            *)
(* ====================================================================================== *)

Lemma ldtree_nomerge : forall w p o, ldtree_ok w [] p o = true -> omerge (ohdr o) = false.
Proof.
  intros w p o H. destruct o as [h ws a|h ks a]; cbn [ldtree_ok ohdr] in *.
  - apply andb_prop in H as [H _]. apply andb_prop in H as [H _]. apply andb_prop in H as [H _].
    exact (leaf_ok_nomerge h H).
  - destruct (first_merges ks).
    + apply andb_prop in H as [H _]. apply andb_prop in H as [H _]. apply andb_prop in H as [_ H].
      cbn [is_nil negb] in H. destruct (omerge h); [discriminate H|reflexivity].
    + apply andb_prop in H as [H _]. apply andb_prop in H as [H _]. exact (leaf_ok_nomerge h H).
Qed.

Theorem ldtree_shape_ok : forall w o m p, ldtree_ok w m p o = true -> shape_ok o = true.
Proof.
  intros w o. induction o as [h ws a|h ks a IH] using obj_ind2; intros m p H; [reflexivity|].
  cbn [shape_ok]. cbn [ldtree_ok] in H. destruct (first_merges ks) eqn:Efm.
  - apply andb_prop in H as [H Hk]. destruct ks as [|c [|c2 r]]; try discriminate Hk.
    do 4 (apply andb_prop in H as [H _]). unfold is_nil in H. rewrite H. cbn [andb].
    inversion IH as [|? ? Hc _]; subst. cbn [forallb]. rewrite (Hc _ _ Hk). reflexivity.
  - apply andb_prop in H as [H Hks]. apply andb_prop in H as [H _].
    apply leaf_ok_named in H. unfold is_nil in H. rewrite H. cbn [negb andb].
    rewrite forallb_forall in Hks.
    assert (Hs : match ks with [c] => true | _ => forallb (fun c => negb (omerge (ohdr c))) ks end = true).
    { destruct ks as [|c [|c2 r]]; [reflexivity|reflexivity|].
      apply forallb_forall. intros x Hx. rewrite (ldtree_nomerge w _ x (Hks x Hx)). reflexivity. }
    rewrite Hs. cbn [andb].
    apply forallb_forall. intros c Hc. rewrite Forall_forall in IH. exact (IH c Hc [] _ (Hks c Hc)).
Qed.

Theorem prune_keeps_ldtree_ok : forall w k o m p, ldtree_ok w m p o = true ->
  forallb (ldtree_ok w m p) (prune k o) = true.
Proof.
  intros w k o. induction o as [h ws a|h ks a IH] using obj_ind2; intros m p H.
  - cbn [prune]. destruct (hidden_k a k); [reflexivity|]. cbn [forallb]. rewrite H. reflexivity.
  - cbn [prune]. destruct (hidden_k a k); [reflexivity|].
    cbn [ldtree_ok] in H. destruct (first_merges ks) eqn:Efm.
    + apply andb_prop in H as [H Hk]. destruct ks as [|c [|c2 r]]; try discriminate Hk.
      cbn [flat_map]. rewrite app_nil_r. inversion IH as [|? ? Hc _]; subst.
      specialize (Hc _ _ Hk).
      destruct (prune_single k c) as [E|(x & E & Ex)]; rewrite E in *; [reflexivity|].
      cbn [forallb] in *. apply andb_prop in Hc as [Hx _].
      cbn [ldtree_ok]. cbn [first_merges] in *. rewrite Ex, Efm, H, Hx. reflexivity.
    + apply andb_prop in H as [H Hks]. rewrite forallb_forall in Hks.
      cbn [forallb ldtree_ok].
      rewrite (prune_nomerge k ks (fun c Hc => ldtree_nomerge w _ c (Hks c Hc))), H. cbn [andb].
      rewrite andb_true_r.
      apply forallb_forall. intros x Hx. apply in_flat_map in Hx as (c & Hc & Hx).
      rewrite Forall_forall in IH. specialize (IH c Hc _ _ (Hks c Hc)).
      rewrite forallb_forall in IH. exact (IH x Hx).
Qed.

Lemma shown_keeps_ldtree_ok : forall w p e l,
  forallb (ldtree_ok w [] p) l = true -> forallb (ldtree_ok w [] p) (shown e l) = true.
Proof.
  intros w p [k|] l H; [|exact H]. cbn [shown]. unfold prunes.
  apply forallb_forall. intros x Hx. apply in_flat_map in Hx as (c & Hc & Hx).
  rewrite forallb_forall in H. assert (H' := prune_keeps_ldtree_ok w k c [] p (H c Hc)).
  rewrite forallb_forall in H'. exact (H' x Hx).
Qed.

Lemma ldtrees_shape : forall w p l, forallb (ldtree_ok w [] p) l = true -> forallb shape_ok l = true.
Proof.
  intros w p l H. apply forallb_forall. intros x Hx. rewrite forallb_forall in H.
  exact (ldtree_shape_ok w x [] p (H x Hx)).
Qed.

(* THE FILTERED TEXT PARSES TO EXACTLY THE ALLOWED SUB-TREE AT EVERY LEVEL >= 1, DOTTED NAMES *)
Theorem filtered_text_parses_levels_dotted : forall lvl o l e w text, (0 <? lvl)%Z = true ->
  forallb (ldtree_ok (width_of w) [] []) l = true ->
  as_str l [] e lvl w = Ok text ->
  exists l', parse o text = Ok l' /\ map erase_obj l' = map (eraseL lvl) (shown e l).
Proof.
  intros lvl o l e w text Hlvl Hok H.
  apply (parse_as_str_levels_dotted lvl o (shown e l) w text Hlvl (shown_keeps_ldtree_ok _ _ e l Hok)).
  exact (as_str_filtered_is_shown l e lvl w text (ldtrees_shape _ _ l Hok) H).
Qed.

Theorem filtered_text_parses_level2_dotted : forall o l e w text,
  forallb (ldtree_ok (width_of w) [] []) l = true ->
  as_str l [] e 2 w = Ok text ->
  exists l', parse o text = Ok l' /\ map erase_obj l' = map erase3 (shown e l).
Proof.
  intros o l e w text Hok H.
  destruct (filtered_text_parses_levels_dotted 2 o l e w text eq_refl Hok H) as (l' & P & E).
  exists l'. split; [exact P|]. rewrite E. apply map_ext. intros x. rewrite eraseL_2_3. apply eraseL3.
Qed.

Print Assumptions filtered_text_parses_levels_dotted.
Print Assumptions filtered_text_parses_level2_dotted.

(* ====================================================================================== *)
(* 5. examples                                                                              *)
(* ====================================================================================== *)

(* a deprecated definition with expert_level 2 below a dotted prefix (hidden at e = 1 together with the prefix
   scope b; a keeps c.y in its own chain), a dotted definition whose whole chain p.q disappears, a deprecated
   definition that stays visible, a dotted definition with a help text *)
Definition fl_src : str := s_ "a.b.x = 1
  .deprecated = True
  .expert_level = 2
a.c.y = 2
p.q.z = 3
  .expert_level = 2
k = 4
  .deprecated = True
  .expert_level = 1
m.n = 5
  .help = ""h 1""
".
Definition fl_tree : list obj := match parse [] fl_src with Ok l => l | _ => [] end.
Definition fl_text (e:option Z) : str := match as_str fl_tree [] e 3 None with Ok t => t | _ => [] end.
Definition fl_reparsed (e:option Z) : list obj := match parse [] (fl_text e) with Ok l => l | _ => [] end.
Example fl_in_domain :
  forallb (sdtree_ok default_width [] []) fl_tree = true /\ forallb (stree_ok_d default_width []) fl_tree = false
  /\ forallb (ldtree_ok default_width [] []) fl_tree = false
  /\ length fl_tree = 5 /\ length (prunes 1 fl_tree) = 3
  /\ forallb (sdtree_ok default_width [] []) (prunes 1 fl_tree) = true.
Proof. vm_compute. repeat split. Qed.
Example fl_roundtrips :
  map erase_obj (fl_reparsed (Some 1%Z)) = map erase3 (prunes 1 fl_tree)
  /\ map erase_obj (fl_reparsed (Some 0%Z)) = map erase3 (prunes 0 fl_tree)
  /\ map erase_obj (fl_reparsed None) = map erase3 fl_tree
  /\ map erase_all (prunes 1 fl_tree) <> map erase_all fl_tree
  /\ map erase_all (prunes 0 fl_tree) <> map erase_all (prunes 1 fl_tree)
  /\ length (prunes 0 fl_tree) = 2.
Proof. vm_compute. repeat split; intros H; discriminate H. Qed.
(* the same filter seen at attributes level 0: the chain p.q and the prefix scope b are gone (the deprecated k
   too: every level below 3 hides deprecated definitions) *)
Example fl_text_level0 : as_str fl_tree [] (Some 1%Z) 0 None = Ok (s_ "a.c.y = 2
m.n = 5
").
Proof. vm_compute. reflexivity. Qed.

(* dotted names at levels 1 and 2 with a filter (ShowReparseDeprecated.dot_tree2: d.e.z has expert_level 2 inside
   the scope a.c) *)
Definition dot_filtered2 (lvl:Z) (e:option Z) : list obj :=
  match as_str dot_tree2 [] e lvl None with
  | Ok t => match parse [] t with Ok l => l | _ => [] end
  | _ => [] end.
Example dot_levels_filtered :
  map erase_obj (dot_filtered2 1 (Some 1%Z)) = map (eraseL 1) (prunes 1 dot_tree2)
  /\ map erase_obj (dot_filtered2 2 (Some 1%Z)) = map erase3 (prunes 1 dot_tree2)
  /\ map erase_all (prunes 1 dot_tree2) <> map erase_all dot_tree2
  /\ forallb (ldtree_ok default_width [] []) (prunes 1 dot_tree2) = true.
Proof. vm_compute. repeat split; intros H; discriminate H. Qed.
