(* C09 at scope level, masters without .multiple: extract (format m p) = p for every p in the domain
   of m.  The statement is compositional: the leaves' values are only required to round-trip through
   their own converters (ExtractConv / ExtractNumLift / ExtractChoice discharge that per type). *)
From Coq Require Import List Ascii String Bool Arith ZArith Lia.
From Phil Require Import Base Tokenizer Tree PyVal ConvText Extract ExtractGuard.
From Phil Require Conv Parser.
Import ListNotations.
Local Open Scope char_scope.

Definition active (k:obj) : bool := negb (odis (ohdr k)).
Definition kname (k:obj) : str := oname (ohdr k).
Definition good_name (n:str) : Prop := has_dot n = false /\ builtin_attr n = false.

(* masters without .multiple: active sibling names distinct, usable as attribute names *)
Fixpoint wf_nm (m:obj) : Prop :=
  match m with
  | Def _ _ _ => True
  | Scp h ks a =>
      NoDup (map kname (filter active ks)) /\
      (fix go (l:list obj) : Prop :=
         match l with
         | [] => True
         | k :: r => (active k = true -> omultiple k = false /\ good_name (kname k) /\ wf_nm k) /\ go r
         end) ks
  end.
Lemma wf_nm_kids h ks a : wf_nm (Scp h ks a) ->
  NoDup (map kname (filter active ks)) /\
  Forall (fun k => active k = true -> omultiple k = false /\ good_name (kname k) /\ wf_nm k) ks.
Proof.
  cbn [wf_nm]. intros [N G]. split; [exact N|]. clear N. induction ks as [|k r IH]; [constructor|].
  destruct G as [G1 G2]. constructor; [exact G1|apply IH; exact G2].
Qed.

Section Scope.
  Variable pe : str -> option Conv.evr.
  Variable ex : str -> option str.

  (* the domain of a master: one field per active object, in master order; a leaf value must survive its own converter *)
  Fixpoint pdom (m:obj) (v:pyval) : Prop :=
    match m with
    | Def h ws a => exists t, format_obj (Def h ws a) v = Ok t /\ extract_obj pe ex t = Ok v
    | Scp h ks a =>
        exists fs, v = VScope (Ext (oname h) fs) /\
          (fix go (l:list obj) (fs:fields_t) : Prop :=
             match l with
             | [] => fs = []
             | k :: r =>
                 if active k then
                   match fs with
                   | (key, x) :: fr => key = kname k /\ pdom k x /\ go r fr
                   | [] => False
                   end
                 else go r fs
             end) ks fs
    end.

  (* kids, their fields, the formatted kids *)
  Inductive rel : list obj -> fields_t -> list obj -> Prop :=
    | rel_nil : rel [] [] []
    | rel_skip k r fs ts : active k = false -> rel r fs ts -> rel (k :: r) fs ts
    | rel_cons k r x fs t ts :
        active k = true -> omultiple k = false -> good_name (kname k) ->
        format_obj k x = Ok t -> extract_obj pe ex t = Ok x ->
        ohdr t = with_tmpl (ohdr k) 0 -> oattrs t = oattrs k ->
        rel r fs ts -> rel (k :: r) ((kname k, x) :: fs) (t :: ts).

  Lemma rel_keys ks fs ts : rel ks fs ts -> fkeys fs = map kname (filter active ks) /\ map kname ts = fkeys fs.
  Proof.
    induction 1 as [|k r fs ts A _ [I1 I2]|k r x fs t ts A M G F E Hh Ha _ [I1 I2]].
    - split; reflexivity.
    - cbn [filter]. rewrite A. split; assumption.
    - cbn [filter]. rewrite A. cbn [map fkeys fst]. unfold fkeys in *. split; [rewrite I1; reflexivity|].
      f_equal; [|exact I2]. unfold kname. rewrite Hh. destruct (ohdr k); reflexivity.
  Qed.

  (* ---------- assoc helpers *)
  Lemma aget_app_none {A} k (l1 l2:list (str * A)) : aget k l1 = None -> aget k (l1 ++ l2) = aget k l2.
  Proof.
    induction l1 as [|[k' v] l1 IH]; [reflexivity|]. cbn [aget app]. destruct (eqs k' k); [discriminate|exact IH].
  Qed.
  Lemma fget_none_keys k fs : ~ In k (fkeys fs) -> fget k fs = None.
  Proof.
    intro N. destruct (fget k fs) eqn:E; [|reflexivity]. exfalso. apply N. apply fget_in_keys. eauto.
  Qed.
  Lemma fset_fresh k x fs : fget k fs = None -> fset k x fs = fs ++ [(k, x)].
  Proof.
    induction fs as [|[k' v] fs IH]; [reflexivity|]. cbn [fget fset app]. destruct (eqs k' k); [discriminate|].
    intro H. rewrite IH by exact H. reflexivity.
  Qed.
  Lemma fget_head k x fs : fget k ((k, x) :: fs) = Some x.
  Proof. cbn [fget]. rewrite eqs_refl'. reflexivity. Qed.
  Lemma fget_skip k k' x fs : k' <> k -> fget k ((k', x) :: fs) = fget k fs.
  Proof. intro N. cbn [fget]. rewrite (eqs_neq' k' k N). reflexivity. Qed.

  (* ---------- the loop of scope.format on a python object Ext n fs_all *)
  Definition fmt_loop (v:pyval) :=
    fix go (l:list obj) (seen:list (str * bool)) (done:list (str * bool)) (acc:list obj) {struct l} : res (list obj) :=
      match l with
      | [] => Ok (rev acc)
      | k :: r =>
        let name := oname (ohdr k) in
        if odis (ohdr k) then go r seen done acc else
        let first := aget name seen in
        let seen' := match first with None => seen ++ [(name, omultiple k)] | Some _ => seen end in
        match mao_step k first with
        | MaoSkip => go r seen' done acc
        | MaoDup => UErr (s_ "DuplicateMaster") [] (oline (ohdr k))
        | MaoYield =>
          let ms := omultiple k && negb (is_def k) in
          if ms && (match aget name done with Some _ => true | None => false end) then go r seen' done acc else
          let done1 := if ms then aset name false done else done in
          match v with
          | VNone => do x <- format_obj k VNone; go r seen' done1 (x :: acc)
          | VAuto => do x <- format_obj k VAuto; go r seen' done1 (x :: acc)
          | _ =>
            do items <- iter_items v;
            do st <- format_items (format_obj k) k items (done1, acc);
            go r seen' (fst st) (snd st)
          end
        end
      end.
  Lemma format_scp h ks a v :
    format_obj (Scp h ks a) v = do out <- fmt_loop v ks [] [] []; Ok (Scp (with_tmpl h 0) out a).
  Proof. reflexivity. Qed.

  Lemma fmt_loop_rel n fs_all : forall ks fs ts, rel ks fs ts ->
    forall seen acc,
      (forall k, In k (fkeys fs) -> aget k seen = None) ->
      NoDup (fkeys fs) ->
      (forall k x, In (k, x) fs -> fget k fs_all = Some x) ->
      fmt_loop (VScope (Ext n fs_all)) ks seen [] acc = Ok (rev acc ++ ts).
  Proof.
    induction 1 as [|k r fs ts A _ IH|k r x fs t ts A M G F E Hh Ha _ IH]; intros seen acc S N L.
    - cbn [fmt_loop]. rewrite app_nil_r. reflexivity.
    - cbn [fmt_loop]. unfold active in A. apply negb_false_iff in A. rewrite A. apply IH; assumption.
    - cbn [fmt_loop]. unfold active in A. apply negb_true_iff in A. rewrite A.
      fold (kname k). rewrite (S (kname k)) by (cbn [fkeys map fst In]; auto).
      cbn [mao_step]. rewrite M. cbn [andb]. cbn [iter_items bind format_items format_item].
      destruct G as [G1 G2]. fold (kname k). rewrite G1. unfold getattr.
      rewrite (L (kname k) x) by (left; reflexivity). rewrite M. cbn [negb]. rewrite F. cbn [bind fst snd].
      inversion N as [|? ? Nk Nr]; subst.
      rewrite (IH (seen ++ [(kname k, false)]) (t :: acc)).
      + cbn [rev]. rewrite <- app_assoc. reflexivity.
      + intros k' Hk'. rewrite aget_app_none by (apply S; cbn [fkeys map fst In]; right; exact Hk').
        cbn [aget]. rewrite eqs_neq'; [reflexivity|]. intro X. subst. apply Nk. exact Hk'.
      + exact Nr.
      + intros k' x' Hin. apply L. right. exact Hin.
  Qed.

  (* ---------- the loop of scope.extract on the formatted kids *)
  Definition ext_loop :=
    fix go (l:list obj) (acc:fields_t) {struct l} : res fields_t :=
      match l with
      | [] => Ok acc
      | k :: r =>
        if (otmpl (ohdr k) <? 0)%Z then go r acc else
        do value <- (if odis (ohdr k) || (0 <? otmpl (ohdr k))%Z then Ok None
                     else do v <- extract_obj pe ex k; Ok (Some v));
        do acc' <- phil_set acc (oname (ohdr k)) (ooptional k) (omultiple k) value;
        go r acc'
      end.
  Lemma extract_scp h ks a :
    extract_obj pe ex (Scp h ks a) = do fs <- ext_loop ks []; Ok (VScope (Ext (oname h) fs)).
  Proof. reflexivity. Qed.

  Lemma phil_set_fresh acc name opt x :
    good_name name -> fget name acc = None -> phil_set acc name opt false (Some x) = Ok (acc ++ [(name, x)]).
  Proof.
    intros [G1 G2] E. unfold phil_set, getattr. rewrite G1, E, G2. cbn [negb]. rewrite (fset_fresh _ _ _ E).
    destruct x; reflexivity.
  Qed.

  Lemma ext_loop_rel : forall ks fs ts, rel ks fs ts ->
    forall acc, NoDup (fkeys fs) -> (forall k, In k (fkeys fs) -> ~ In k (fkeys acc)) ->
    ext_loop ts acc = Ok (acc ++ fs).
  Proof.
    induction 1 as [|k r fs ts A _ IH|k r x fs t ts A M G F E Hh Ha _ IH]; intros acc N D.
    - cbn [ext_loop]. rewrite app_nil_r. reflexivity.
    - apply IH; assumption.
    - cbn [ext_loop]. rewrite Hh. cbn [otmpl with_tmpl odis oname]. cbn [Z.ltb Z.compare orb].
      unfold active in A. apply negb_true_iff in A. rewrite A. cbn [orb]. rewrite E. cbn [bind].
      assert (Mt : omultiple t = false) by (unfold omultiple, attr_true in *; rewrite Ha; exact M).
      rewrite Mt. fold (kname k).
      rewrite phil_set_fresh; [|exact G|apply fget_none_keys; apply D; cbn [fkeys map fst In]; auto].
      cbn [bind]. inversion N as [|? ? Nk Nr]; subst. rewrite IH.
      + rewrite <- app_assoc. reflexivity.
      + exact Nr.
      + intros k' Hk' Hin. unfold fkeys in Hin. rewrite map_app in Hin. apply in_app_or in Hin. destruct Hin as [Hin|Hin].
        * apply (D k'); [cbn [fkeys map fst In]; right; exact Hk'|exact Hin].
        * cbn in Hin. destruct Hin as [<-|[]]. apply Nk. exact Hk'.
  Qed.

  Lemma in_nodup_fget : forall fs k x, NoDup (fkeys fs) -> In (k, x) fs -> fget k fs = Some x.
  Proof.
    induction fs as [|[k' x'] fs IH]; intros k x N H; [contradiction|]. inversion N as [|? ? Nk Nr]; subst.
    destruct H as [H|H].
    - inversion H; subst. apply fget_head.
    - rewrite fget_skip; [apply IH; assumption|]. intro X. subst. apply Nk. unfold fkeys. apply in_map_iff. exists (k, x). auto.
  Qed.

  (* ---------- the theorem *)
  Theorem scope_roundtrip_nomult : forall m v, wf_nm m -> pdom m v ->
    exists t, format_obj m v = Ok t /\ extract_obj pe ex t = Ok v
              /\ ohdr t = with_tmpl (ohdr m) 0 /\ oattrs t = oattrs m.
  Proof.
    induction m as [h ws a|h ks a IH] using obj_ind2; intros v W D.
    - destruct D as [t [F E]]. exists t. repeat split; try assumption;
        cbn [format_obj] in F; destruct (def_as_words h a ws v); try discriminate; cbn [bind] in F; inversion F; reflexivity.
    - destruct D as [fs [-> D]]. destruct (wf_nm_kids _ _ _ W) as [N G].
      assert (R : exists ts, rel ks fs ts).
      { clear N W. revert fs D. induction ks as [|k r IHr]; intros fs D.
        - subst. exists []. constructor.
        - inversion IH as [|? ? Ik Ir]; subst. inversion G as [|? ? Gk Gr]; subst.
          destruct (active k) eqn:A.
          + destruct fs as [|[key x] fr]; [contradiction|]. destruct D as [-> [Dk Dr]].
            destruct (Gk eq_refl) as [M [Gn Wk]]. destruct (Ik x Wk Dk) as [t [F [E [Hh Ha]]]].
            destruct (IHr Ir Gr fr Dr) as [ts Rr]. exists (t :: ts). apply rel_cons; assumption.
          + destruct (IHr Ir Gr fs D) as [ts Rr]. exists ts. apply rel_skip; assumption. }
      destruct R as [ts R]. destruct (rel_keys _ _ _ R) as [K1 K2]. rewrite <- K1 in N.
      exists (Scp (with_tmpl h 0) ts a). split; [|split; [|split; reflexivity]].
      + rewrite format_scp. rewrite (fmt_loop_rel (oname h) fs ks fs ts R [] []); [reflexivity| |exact N|].
        * intros; reflexivity.
        * intros k x Hin. apply in_nodup_fget; assumption.
      + rewrite extract_scp. rewrite (ext_loop_rel ks fs ts R []); [reflexivity|exact N|]. intros k _ [].
  Qed.
End Scope.
