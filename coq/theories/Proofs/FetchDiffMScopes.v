(* C08 with .multiple SCOPES: the block-wise description of working parameters, their difference, the
   difference merged back and differenced again (Proofs/FetchDiffCycle.v) extended by the case of a
   .multiple scope, at any nesting depth (.multiple entries inside .multiple scopes included).
   Domain D08S = D07 /\ wf_master (no restriction on .multiple scopes).

   What the model does with a .multiple scope k = s { ... }:
     W   the template copy, then one FULL instance per kept candidate (pairwise different canonical
         texts, all different from the master's)                                            [wbS_mscp]
     D   per instance its PARTIAL instance: the scope holding the difference of the instance's own
         blocks against the template's definitions (not the full instance; no template)     [dspS_mscp]
     R   the template copy, then per partial instance the instance merged with the template:
         kept values themselves, dropped ones replaced by the template's definitions        [reqS_mscp]
   The canonical text of a partial instance and of a restored instance enter (processed_as_str is
   keyed by them).  The oracle hypotheses, for the .multiple scopes below the master only:
     partial_ok k   an instance whose text differs from the master's has a non-empty difference whose
                    text differs from the master's; partial instances with the same text come from
                    instances with the same text
     restored_ok k  the restored instance has the canonical text of the instance it restores
   (the library prints a partial instance with the definitions it holds: both are true of it as long as
   equal canonical texts of definitions mean equal values). *)
From Coq Require Import List Ascii String Bool Arith ZArith Lia.
From Phil Require Import Base Tree Vars Choice ChoiceProofs ChoiceTop Fetch FetchBasics FetchShape FetchDisabled
  FetchIdemLists FetchIdemBase FetchIdem FetchIdemCopy FetchDiffBase FetchDiffCycle FetchExamples.
Import ListNotations.
Local Open Scope char_scope.

(* sub-objects of a master object *)
Inductive subobj : obj -> obj -> Prop :=
  | sub_refl : forall x, subobj x x
  | sub_kid : forall h ks a k x, In k ks -> subobj k x -> subobj (Scp h ks a) x.

Lemma evs_Forall2 : forall env canon diff k rec mas l el, evs env canon diff k rec mas l = Ok el ->
  Forall2 (fun s x => ev env canon diff k rec mas s = Ok x) l el.
Proof.
  intros env canon diff k rec mas l. induction l as [|s l IH]; intros el H; cbn [evs] in H.
  - injection H as E. subst. constructor.
  - bind_inv H as x Hx. bind_inv H as xs Hxs. injection H as E. subst el. constructor; [exact Hx|apply IH; exact Hxs].
Qed.

Lemma NoDup_map_rel : forall A B (R:A -> B -> Prop) (f:A -> str) (g:B -> str) l l',
  Forall2 R l l' -> NoDup (map f l) ->
  (forall x y x' y', R x y -> R x' y' -> g y = g y' -> f x = f x') -> NoDup (map g l').
Proof.
  intros A B R f g l l' H. induction H as [|x y l l' Hxy HF IH]; intros Hnd Hinj; [constructor|].
  cbn [map] in *. inversion Hnd as [|? ? Hnin Hnd']; subst. constructor; [|apply IH; assumption].
  intros Hin. apply in_map_iff in Hin. destruct Hin as [y' [E Hy']].
  assert (Hex : exists x', In x' l /\ R x' y').
  { clear -HF Hy'. induction HF as [|a b l l' Hab _ IH]; [destruct Hy'|]. destruct Hy' as [E|Hy'].
    - subst. exists a. split; [left; reflexivity|exact Hab].
    - destruct (IH Hy') as [x' [A0 B0]]. exists x'. split; [right; exact A0|exact B0]. }
  destruct Hex as [x' [Hx' Hr]]. apply Hnin. rewrite (Hinj x y x' y' Hxy Hr (eq_sym E)). apply in_map. exact Hx'.
Qed.

Section CycleS.
  Variable env : str -> option str.
  Variable canon : obj -> option obj -> res str.
  Hypothesis H_self : forall k, canon k (Some k) = canon k None.

  (* an instance of the .multiple scope with header h and attributes a, given block-wise *)
  Definition inst (h:hdr) (a:attrs) (bs:list (list obj)) : obj := scopy h a (List.concat bs).
  Definition WI : Type := (list (list obj) * str)%type.       (* blocks and canonical text *)
  Definition DI : Type := (WI * WI)%type.                     (* a full instance and its partial instance *)
  Definition RI : Type := (DI * list (list obj))%type.        (* ... and the blocks of the restored instance *)

  Definition tmplS (k:obj) (L:list obj) : obj := set_hdr k (with_tmpl (ohdr k) (tmpl_flag k L)).

  Inductive wbS : obj -> list obj -> Prop :=
    | wbS_def : forall h mws a v, omultiple (Def h mws a) = false -> vfix env (Def h mws a) v -> wbS (Def h mws a) [v]
    | wbS_scp : forall h kids a bs, omultiple (Scp h kids a) = false -> Bl wbS (entries kids) bs ->
        wbS (Scp h kids a) [scopy h a (List.concat bs)]
    | wbS_mult : forall k mas L ts, omultiple k = true -> is_def k = true -> canon k None = Ok mas ->
        Forall (vfix env k) L -> Forall2 (fun c t => canon k (Some c) = Ok t /\ eqs t mas = false) L ts -> NoDup ts ->
        wbS k (tmplS k L :: L)
    | wbS_mscp : forall h kids a mas (Ls:list WI), omultiple (Scp h kids a) = true ->
        canon (Scp h kids a) None = Ok mas ->
        Forall (fun p:WI => Bl wbS (entries kids) (fst p)) Ls ->
        Forall (fun p:WI => canon (Scp h kids a) (Some (inst h a (fst p))) = Ok (snd p) /\ eqs (snd p) mas = false) Ls ->
        NoDup (map snd Ls) ->
        wbS (Scp h kids a) (tmplS (Scp h kids a) (map (fun p:WI => inst h a (fst p)) Ls) :: map (fun p:WI => inst h a (fst p)) Ls).

  Inductive dspS : obj -> list obj -> list obj -> Prop :=
    | dspS_keep : forall h mws a v x y, omultiple (Def h mws a) = false -> vfix env (Def h mws a) v ->
        canon (Def h mws a) (Some v) = Ok x -> canon (Def h mws a) None = Ok y -> eqs x y = false ->
        dspS (Def h mws a) [v] [v]
    | dspS_drop : forall h mws a v x, omultiple (Def h mws a) = false -> vfix env (Def h mws a) v ->
        canon (Def h mws a) (Some v) = Ok x -> canon (Def h mws a) None = Ok x ->
        dspS (Def h mws a) [v] []
    | dspS_scp : forall h kids a bs dbs, omultiple (Scp h kids a) = false ->
        Bl wbS (entries kids) bs -> Bl2 dspS (entries kids) bs dbs ->
        dspS (Scp h kids a) [scopy h a (List.concat bs)] (optscope h a (List.concat dbs))
    | dspS_mult : forall k T L, omultiple k = true -> is_def k = true -> wbS k (T :: L) -> dspS k (T :: L) L
    | dspS_mscp : forall h kids a mas T (Zs:list DI), omultiple (Scp h kids a) = true ->
        canon (Scp h kids a) None = Ok mas ->
        wbS (Scp h kids a) (T :: map (fun z:DI => inst h a (fst (fst z))) Zs) ->
        Forall (fun z:DI => canon (Scp h kids a) (Some (inst h a (fst (fst z)))) = Ok (snd (fst z)) /\ eqs (snd (fst z)) mas = false) Zs ->
        NoDup (map (fun z:DI => snd (fst z)) Zs) ->
        Forall (fun z:DI => Bl2 dspS (entries kids) (fst (fst z)) (fst (snd z))) Zs ->
        Forall (fun z:DI => List.concat (fst (snd z)) <> [] /\
                            canon (Scp h kids a) (Some (inst h a (fst (snd z)))) = Ok (snd (snd z)) /\
                            eqs (snd (snd z)) mas = false) Zs ->
        NoDup (map (fun z:DI => snd (snd z)) Zs) ->
        dspS (Scp h kids a) (T :: map (fun z:DI => inst h a (fst (fst z))) Zs) (map (fun z:DI => inst h a (fst (snd z))) Zs).

  Inductive reqS : obj -> list obj -> list obj -> list obj -> Prop :=
    | reqS_keep : forall h mws a v, omultiple (Def h mws a) = false -> dspS (Def h mws a) [v] [v] ->
        reqS (Def h mws a) [v] [v] [v]
    | reqS_drop : forall h mws a v, omultiple (Def h mws a) = false -> dspS (Def h mws a) [v] [] ->
        reqS (Def h mws a) [v] [] [Def h mws a]
    | reqS_scp : forall h kids a (xs:list (list obj * list obj)) rbs, omultiple (Scp h kids a) = false ->
        Bl2 (fun k (x:list obj * list obj) rb => reqS k (fst x) (snd x) rb) (entries kids) xs rbs ->
        reqS (Scp h kids a) [scopy h a (List.concat (map fst xs))] (optscope h a (List.concat (map snd xs)))
             [scopy h a (List.concat rbs)]
    | reqS_mult : forall k b L, omultiple k = true -> is_def k = true -> dspS k b L -> reqS k b L b
    | reqS_mscp : forall h kids a mas T (Rs:list RI), omultiple (Scp h kids a) = true ->
        canon (Scp h kids a) None = Ok mas ->
        dspS (Scp h kids a) (T :: map (fun r:RI => inst h a (fst (fst (fst r)))) Rs) (map (fun r:RI => inst h a (fst (snd (fst r)))) Rs) ->
        Forall (fun r:RI => Bl2 dspS (entries kids) (fst (fst (fst r))) (fst (snd (fst r)))) Rs ->
        Forall (fun r:RI => Bl2 (fun k (x:list obj * list obj) rb => reqS k (fst x) (snd x) rb) (entries kids)
                                (List.combine (fst (fst (fst r))) (fst (snd (fst r)))) (snd r)) Rs ->
        Forall (fun r:RI => eqs (snd (fst (fst r))) mas = false /\
                            canon (Scp h kids a) (Some (inst h a (snd r))) = Ok (snd (fst (fst r))) /\
                            List.concat (fst (snd (fst r))) <> [] /\
                            canon (Scp h kids a) (Some (inst h a (fst (snd (fst r))))) = Ok (snd (snd (fst r))) /\
                            eqs (snd (snd (fst r))) mas = false) Rs ->
        NoDup (map (fun r:RI => snd (fst (fst r))) Rs) ->
        NoDup (map (fun r:RI => snd (snd (fst r))) Rs) ->
        reqS (Scp h kids a) (T :: map (fun r:RI => inst h a (fst (fst (fst r)))) Rs) (map (fun r:RI => inst h a (fst (snd (fst r)))) Rs)
             (T :: map (fun r:RI => inst h a (snd r)) Rs).

  Definition PRS (k:obj) (x:list obj * list obj) : Prop := dspS k (fst x) (snd x).
  Definition QRS (k:obj) (x:list obj * list obj) (rb:list obj) : Prop := reqS k (fst x) (snd x) rb.

  (* ---------------------------------------------------------------- the oracle hypotheses, per .multiple scope *)
  Definition partial_ok (k:obj) : Prop :=
    match k with
    | Def _ _ _ => True
    | Scp h kids a =>
        omultiple k = true -> forall mas, canon k None = Ok mas ->
        (forall bs dbs t, Bl2 dspS (entries kids) bs dbs -> canon k (Some (inst h a bs)) = Ok t -> eqs t mas = false ->
           List.concat dbs <> [] /\ forall u, canon k (Some (inst h a dbs)) = Ok u -> eqs u mas = false) /\
        (forall bs dbs t bs' dbs' t' u, Bl2 dspS (entries kids) bs dbs -> Bl2 dspS (entries kids) bs' dbs' ->
           canon k (Some (inst h a bs)) = Ok t -> canon k (Some (inst h a bs')) = Ok t' ->
           canon k (Some (inst h a dbs)) = Ok u -> canon k (Some (inst h a dbs')) = Ok u -> t = t')
    end.
  Definition restored_ok (k:obj) : Prop :=
    match k with
    | Def _ _ _ => True
    | Scp h kids a =>
        omultiple k = true -> forall xs rbs t, Bl2 QRS (entries kids) xs rbs ->
        canon k (Some (inst h a (map fst xs))) = Ok t -> canon k (Some (inst h a rbs)) = Ok t
    end.

  (* ---------------------------------------------------------------- names inside the blocks *)
  Lemma inst_named : forall h kids a bs, named (Scp h kids a) (inst h a bs).
  Proof. intros. split; reflexivity. Qed.

  Lemma wbS_named : forall k b, wbS k b -> forall o, In o b -> named k o.
  Proof.
    intros k b H o Ho. destruct H as [h mws a v Em Hv|h kids a bs Em HB|k mas L ts Em Hd Hmas HL HF Hnd|h kids a mas Ls Em Hmas HB HC Hnd].
    - destruct Ho as [E|[]]. subst. apply (vfix_named env). exact Hv.
    - destruct Ho as [E|[]]. subst. split; reflexivity.
    - destruct Ho as [E|Ho]; [subst; destruct k; split; reflexivity|].
      rewrite Forall_forall in HL. apply (vfix_named env). apply HL. exact Ho.
    - destruct Ho as [E|Ho]; [subst; split; reflexivity|].
      apply in_map_iff in Ho. destruct Ho as [p [E _]]. subst o. apply inst_named.
  Qed.

  Lemma dspS_wbS : forall k b db, dspS k b db -> wbS k b.
  Proof.
    intros k b db H. destruct H; try assumption.
    - apply wbS_def; assumption.
    - apply wbS_def; assumption.
    - apply wbS_scp; assumption.
  Qed.

  Lemma dspS_named : forall k b db, dspS k b db -> forall o, In o db -> named k o.
  Proof.
    intros k b db H o Ho. pose proof (dspS_wbS _ _ _ H) as Hw.
    destruct H as [h mws a v x y Em Hv Hx Hy E|h mws a v x Em Hv Hx Hy|h kids a bs dbs Em HB HB2|k T L Em Hd Hw'|h kids a mas T Zs Em Hmas Hw' HT HndT HB HC Hnd].
    - apply (wbS_named _ _ Hw). exact Ho.
    - destruct Ho.
    - unfold optscope in Ho. destruct (List.concat dbs); [destruct Ho|]. destruct Ho as [E|[]]. subst. split; reflexivity.
    - apply (wbS_named _ _ Hw). right. exact Ho.
    - apply in_map_iff in Ho. destruct Ho as [p [E _]]. subst o. apply inst_named.
  Qed.

  Lemma reqS_named : forall k b db rb, reqS k b db rb -> forall o, In o rb -> named k o.
  Proof.
    intros k b db rb H o Ho. destruct H as [h mws a v Em Hd|h mws a v Em Hd|h kids a xs rbs Em HB|k b L Em Hdk Hd|h kids a mas T Rs Em Hmas Hd HBd HB HC Hn1 Hn2].
    - apply (wbS_named _ _ (dspS_wbS _ _ _ Hd)). exact Ho.
    - destruct Ho as [E|[]]. subst. split; reflexivity.
    - destruct Ho as [E|[]]. subst. split; reflexivity.
    - apply (wbS_named _ _ (dspS_wbS _ _ _ Hd)). exact Ho.
    - destruct Ho as [E|Ho].
      + subst o. apply (wbS_named _ _ (dspS_wbS _ _ _ Hd)). left. reflexivity.
      + apply in_map_iff in Ho. destruct Ho as [p [E _]]. subst o. apply inst_named.
  Qed.

  (* ---------------------------------------------------------------- scope instances offered as candidates *)
  Lemma inst_active : forall h a (L:list (list (list obj))), odis h = false ->
    strip_objs (map (inst h a) L) = map (fun bs => Scp (with_tmpl h 0) (strip_objs (List.concat bs)) a) L.
  Proof.
    intros h a L Hact. induction L as [|bs L IH]; [reflexivity|]. cbn [map strip_objs]. unfold inst at 1, scopy at 1. cbn [ohdr with_tmpl odis].
    rewrite Hact. unfold inst at 1, scopy. rewrite strip_obj_scp. f_equal. exact IH.
  Qed.

  (* the candidate made of the scope source s' whose children show as [vw] *)
  Lemma cand_scope : forall diff h kids a rec s' h' a' vw cc, oplain (lobj s') ->
    sl s' = Scp h' vw a' ->
    cand_fetch env canon diff (Scp h kids a) rec s' = Ok cc ->
    exists comb oc, lplain comb /\ lview comb = vw /\ rec comb = Ok oc /\ cc = (Some (scopy h a (fst oc)), snd oc).
  Proof.
    intros diff h kids a rec s' h' a' vw cc Hp Hv H. unfold sl in Hv. apply strip_obj_scp_inv in Hv. destruct Hv as [ks' [El Ek]].
    cbn [cand_fetch combine] in H. rewrite El in H. cbn [is_def bind] in H. bind_inv H as oc Hoc. injection H as E. subst cc.
    exists (src_kids s' ++ []), oc. split; [|split; [|split; [exact Hoc|reflexivity]]].
    - rewrite app_nil_r. apply src_kids_plain1. exact Hp.
    - rewrite app_nil_r, lview_src_kids. unfold sl. rewrite El, strip_obj_scp. cbn. exact Ek.
  Qed.

  Lemma somesP_map_some' : forall A (f:A -> pair_t) l, somesP (map (fun x => Some (f x)) l) = map f l.
  Proof. induction l as [|x l IH]; cbn; [reflexivity|rewrite IH; reflexivity]. Qed.

  (* the state of the double loop after candidates that are all kept, with pairwise different texts *)
  Lemma fold_kept : forall A (f:A -> pair_t) (l:list A) pd robjs,
    NoDup (map (fun x => fst (f x)) l) ->
    fold_left pstep (map (fun x => Some (f x)) l) ([], []) = (pd, robjs) ->
    somes robjs = map (fun x => snd (f x)) l /\ (pd = [] <-> l = []).
  Proof.
    intros A f l pd robjs Hnd F.
    destruct (fold_pstep_grel (map (fun x => Some (f x)) l) [] [] [] grel_nil) as [g [Hg Eg]].
    match type of Hg with grel (fst ?X) _ _ => replace X with (pd, robjs) in Hg by (symmetry; exact F) end. cbn [fst snd] in Hg.
    cbn [somesP] in Eg. rewrite somesP_map_some', kl_dd in Eg.
    rewrite dd_id in Eg by (unfold pkeys; rewrite map_map; exact Hnd).
    split.
    - rewrite (gr_objs _ _ _ Hg), somes_objs_of, Eg. rewrite map_map. reflexivity.
    - rewrite (grel_pd_nil _ _ _ Hg), Eg. destruct l; cbn; split; intros; congruence.
  Qed.

  (* ---------------------------------------------------------------- the blocks of a fetch result *)
  Definition rec_wbS (k:obj) (rec:list lsrc -> res fout) : Prop :=
    forall comb os u, lplain comb -> rec comb = Ok (os, u) ->
    exists bs, os = List.concat bs /\ Bl wbS (entries (okids k)) bs.

  Lemma fetch_one_wbS : forall allks chain i k rec srcs b u,
    odis (ohdr k) = false -> oplain k -> def_ok k ->
    self_matching allks chain i (onm k) = [] -> rec_wbS k rec -> lplain srcs ->
    fetch_one env canon false allks chain i k rec srcs = Ok (b, u) -> wbS k b.
  Proof.
    intros allks chain i k rec srcs b u Hact Hk Hok Hself Hrec Hp H.
    unfold fetch_one in H. unfold onm in Hself.
    destruct (get_attr (s_ "alias") (oattrs k)); try discriminate.
    destruct (oname (ohdr k)) as [|c0 nm] eqn:En; [discriminate|].
    pose proof (match_sources_plain (c0 :: nm) srcs Hp) as Hm.
    destruct (omultiple k) eqn:Em; cbn [negb] in H.
    - bind_inv H as mas Hmas. bind_inv H as st Hst. destruct st as [[pd robjs] used]. injection H as Eb Eu. subst b.
      change ((if false then [] else [template_of k pd]) ++ somes robjs) with (template_of k pd :: somes robjs).
      rewrite Hself in Hst. cbn [map app] in Hst.
      set (X := match_sources (c0 :: nm) srcs) in *.
      pose proof (mult_loop_fold env canon false k rec mas Hmas (map (pair false) X) (fun _ _ => eq_refl) [] [] []) as F.
      rewrite Hst in F. cbn [rmap fst] in F. rewrite map_snd_pair in F.
      destruct (evs env canon false k rec mas X) as [el| |] eqn:Eel; cbn [rmap] in F; try discriminate.
      injection F as F.
      destruct (fold_pstep_grel el [] [] [] grel_nil) as [g [Hg Eg]]. rewrite <- F in Hg. cbn [fst snd] in Hg.
      cbn [somesP] in Eg. rewrite kl_dd in Eg.
      assert (HL : somes robjs = map snd (dd (somesP el))).
      { rewrite (gr_objs _ _ _ Hg), somes_objs_of, Eg. reflexivity. }
      assert (Hiff : pd = [] <-> map snd (dd (somesP el)) = []).
      { rewrite (grel_pd_nil _ _ _ Hg), Eg. destruct (dd (somesP el)); cbn; split; intros; congruence. }
      pose proof (template_flag k pd (map snd (dd (somesP el))) Hiff) as Etf. rewrite Etf, HL.
      destruct k as [h mws a|h ks a].
      + assert (Hor : forall p, In p (dd (somesP el)) ->
                  vfix env (Def h mws a) (snd p) /\ canon (Def h mws a) (Some (snd p)) = Ok (fst p) /\ eqs (fst p) mas = false).
        { intros [t c] Hp0. apply In_dd in Hp0. destruct (evs_In env canon false _ rec mas _ _ _ Eel Hp0) as [s [Hs Hev]].
          destruct (ev_some env canon false _ _ _ _ _ _ Hev) as [u1 [Hcf [Hcn [Hne _]]]]. cbn [fst snd].
          split; [|split; assumption].
          cbn [cand_fetch] in Hcf. bind_inv Hcf as r Hr. injection Hcf as E _. subst r. unfold def_fetch in Hr.
          eapply vfix_of_fetch; [exact Hok|apply (proj1 (oplain_def h mws a) Hk)|apply Hm; exact Hs|exact Hr]. }
        apply (wbS_mult (Def h mws a) mas _ (map fst (dd (somesP el)))); try assumption; try reflexivity.
        * apply Forall_forall. intros c Hc. apply in_map_iff in Hc. destruct Hc as [p [E Hp0]]. subst c. apply (Hor p Hp0).
        * apply Forall2_pairs. intros p Hp0. destruct (Hor p Hp0) as [_ [A B]]. auto.
        * apply dd_nodup.
      + (* .multiple scope: every kept candidate is an instance given block-wise *)
        assert (Hor : forall p, In p (dd (somesP el)) ->
                  exists bs, snd p = inst h a bs /\ Bl wbS (entries ks) bs /\
                             canon (Scp h ks a) (Some (snd p)) = Ok (fst p) /\ eqs (fst p) mas = false).
        { intros [t c] Hp0. apply In_dd in Hp0. destruct (evs_In env canon false _ rec mas _ _ _ Eel Hp0) as [s [Hs Hev]].
          destruct (ev_some env canon false _ _ _ _ _ _ Hev) as [u1 [Hcf [Hcn [Hne _]]]]. cbn [fst snd].
          cbn [cand_fetch] in Hcf. bind_inv Hcf as comb Hcomb. bind_inv Hcf as oc Hoc. injection Hcf as E _.
          destruct oc as [os u0]. cbn [fst] in E.
          destruct (Hrec comb os u0) as [bs [Eos HB]]; [eapply combine_plain; [|exact Hcomb]; intros x [Ex|[]]; subst x; apply Hm; exact Hs|exact Hoc|].
          exists bs. subst os c. auto. }
        assert (Hex : exists Ls:list WI, map snd (dd (somesP el)) = map (fun p:WI => inst h a (fst p)) Ls /\
                  map fst (dd (somesP el)) = map snd Ls /\
                  Forall (fun p:WI => Bl wbS (entries ks) (fst p)) Ls /\
                  Forall (fun p:WI => canon (Scp h ks a) (Some (inst h a (fst p))) = Ok (snd p) /\ eqs (snd p) mas = false) Ls).
        { clear -Hor. induction (dd (somesP el)) as [|p l IH]; [exists []; repeat split; constructor|].
          destruct IH as [Ls [E1 [E2 [F1 F2]]]]; [intros q Hq; apply Hor; right; exact Hq|].
          destruct (Hor p (or_introl eq_refl)) as [bs [Ep [HB [Hc Hne]]]].
          exists ((bs, fst p) :: Ls). cbn [map fst snd]. rewrite E1, E2, Ep. repeat split; try reflexivity.
          - constructor; [exact HB|exact F1].
          - constructor; [cbn [fst snd]; rewrite <- Ep; auto|exact F2]. }
        destruct Hex as [Ls [E1 [E2 [F1 F2]]]]. rewrite E1.
        apply (wbS_mscp h ks a mas Ls); try assumption.
        rewrite <- E2. apply dd_nodup.
    - destruct k as [h mws a|h ks a].
      + pose proof Hok as [Ht [Hdep Hty]]. pose proof (proj1 (oplain_def h mws a) Hk) as Hmws.
        bind_inv H as ro Hro. destruct ro as [o|].
        * injection H as Eb Eu. subst b.
          destruct (def_loop_last env canon _ _ _ _ _ _ Hro) as [[_ E]|[s [Hs Hfv]]]; [discriminate|].
          apply wbS_def; [exact Em|]. eapply vfix_of_fetch; [exact Hok|exact Hmws|apply Hm; exact Hs|exact Hfv].
        * cbn [negb andb] in H. rewrite Hdep in H. cbn [negb] in H. injection H as Eb Eu. subst b.
          apply wbS_def; [exact Em|]. apply vfix_self; assumption.
      + bind_inv H as comb Hcomb. bind_inv H as oc Hoc. cbn [andb] in H. injection H as Eb Eu. subst b.
        destruct oc as [os u0]. cbn [fst snd] in *.
        destruct (Hrec comb os u0) as [bs [Eos HB]]; [eapply combine_plain; [exact Hm|exact Hcomb]|exact Hoc|].
        subst os. apply wbS_scp; [exact Em|exact HB].
  Qed.

  (* ---------------------------------------------------------------- the master's own objects offered as sources: no difference *)
  Definition rec_raw (k:obj) (recD:list lsrc -> res fout) : Prop :=
    forall comb dos u, lplain comb -> lview comb = strip_objs (okids k) -> recD comb = Ok (dos, u) -> dos = [].

  Lemma fetch_one_raw : forall allks chain i k recD,
    odis (ohdr k) = false -> oplain k -> def_ok k -> self_matching allks chain i (onm k) = [] -> rec_raw k recD ->
    forall sW db u h', lplain sW -> map sl (match_sources (onm k) sW) = [strip_obj (set_hdr k h')] ->
    fetch_one env canon true allks chain i k recD sW = Ok (db, u) -> db = [].
  Proof.
    intros allks chain i k recD Hact Hk Hok Hself Hrec sW db u h' Hp Hv H.
    unfold fetch_one in H. unfold onm in Hv, Hself.
    destruct (get_attr (s_ "alias") (oattrs k)); try discriminate.
    destruct (oname (ohdr k)) as [|c0 nm] eqn:En; [discriminate|].
    pose proof (match_sources_plain (c0 :: nm) sW Hp) as Hm.
    destruct (match_sources (c0 :: nm) sW) as [|s' r'] eqn:EM; [discriminate|]. destruct r'; [|discriminate].
    cbn [map] in Hv. injection Hv as Hv.
    assert (Hs' : oplain (lobj s')) by (apply Hm; left; reflexivity).
    destruct (omultiple k) eqn:Em; cbn [negb] in H.
    - bind_inv H as mas Hmas. rewrite Hself in H. cbn [map app mult_loop] in H.
      destruct k as [h mws a|h ks a].
      + cbn [strip_obj set_hdr] in Hv. unfold sl in Hv. apply strip_obj_def_inv in Hv.
        cbn [cand_fetch] in H. unfold def_fetch in H.
        rewrite (def_self_fetch_dm env true h mws a s' Hok (proj1 (oplain_def h mws a) Hk)) in H by (eexists; eexists; exact Hv).
        cbn [bind] in H. rewrite (H_self (Def h mws a)), Hmas in H. cbn [bind] in H. rewrite f_eqs_refl in H.
        cbn [bind fst snd diff_skip andb] in H. injection H as E _. subst db. reflexivity.
      + cbn [set_hdr] in Hv. rewrite strip_obj_scp in Hv.
        destruct (cand_fetch env canon true (Scp h ks a) recD s') as [cc| |] eqn:Ecc; cbn [bind] in H; try discriminate.
        destruct (cand_scope true h ks a recD s' h' a (strip_objs ks) cc Hs' Hv Ecc) as [comb [[dos u0] [Hcp [Hcv [Hoc Ecc']]]]].
        rewrite (Hrec comb dos u0 Hcp Hcv Hoc) in Ecc'. subst cc.
        cbn [fst snd diff_skip andb okids scopy null_objs bind] in H. injection H as E _. subst db. reflexivity.
    - destruct k as [h mws a|h ks a].
      + cbn [strip_obj set_hdr] in Hv. unfold sl in Hv. apply strip_obj_def_inv in Hv.
        cbn [def_loop] in H. unfold def_fetch in H.
        rewrite (def_self_fetch_dm env true h mws a s' Hok (proj1 (oplain_def h mws a) Hk)) in H by (eexists; eexists; exact Hv).
        cbn [bind] in H. rewrite (H_self (Def h mws a)) in H.
        destruct (canon (Def h mws a) None) as [y| |]; cbn [bind] in H; try discriminate.
        rewrite f_eqs_refl in H. cbn [bind negb andb] in H. injection H as E _. auto.
      + cbn [set_hdr] in Hv. rewrite strip_obj_scp in Hv. unfold sl in Hv. apply strip_obj_scp_inv in Hv. destruct Hv as [ks' [El Ek]].
        cbn [combine] in H. rewrite El in H. cbn [is_def bind] in H.
        bind_inv H as oc Hoc. destruct oc as [dos u0]. cbn [fst snd andb] in H.
        assert (E0 : dos = []).
        { apply (Hrec (src_kids s' ++ []) dos u0); [| |exact Hoc].
          - rewrite app_nil_r. apply src_kids_plain1. exact Hs'.
          - rewrite app_nil_r, lview_src_kids. unfold sl. rewrite El, strip_obj_scp. cbn. exact Ek. }
        subst dos. cbn in H. injection H as E _. auto.
  Qed.

  Lemma Bl_nils : forall (es:list obj) bs, Bl (fun (_:obj) (b:list obj) => b = []) es bs -> List.concat bs = [].
  Proof. intros es bs H. induction H as [|k x es xs Hq _ IH]; [reflexivity|]. cbn. rewrite Hq, IH. reflexivity. Qed.

  Lemma scope_raw : forall M, wfd env canon M -> wf_obj M -> oplain M -> forall chain,
    rec_raw M (fetch_scope env canon true M chain).
  Proof.
    induction M as [h ws a|h ks a IH] using obj_ind2; intros Hwf Hu HM chain.
    - intro; intros; cbn in *; discriminate.
    - inversion Hwf as [|h0 ks0 a0 Hnd Hent]; subst. pose proof Hu as [Hun _].
      pose proof (proj1 (oplain_scp h ks a) HM) as Hks. rewrite Forall_forall in IH.
      pose proof (active_names_nonempty env canon _ _ _ Hwf Hun) as Hnames.
      intros comb dos u Hp Hv H. cbn [fetch_scope okids] in *.
      destruct (mloop_blocks (fun i0 k0 => fetch_one env canon true ks (ks :: chain) i0 k0 (fetch_scope env canon true k0 (ks :: chain)) comb)
                  (fun _ b => b = []) ks [] 0 (dos, u)) with (2 := H) as [bs [E HB]].
      + intros j k [bb ub] Hjk Hb. cbn [fst]. pose proof (In_ientries _ _ _ _ _ Hjk) as Hk.
        destruct (entries_active _ _ _ Hk) as [Hact Hin].
        destruct (Hent k Hk) as [_ [Hdot [_ Hw]]].
        destruct (ientries_nth _ _ _ _ _ Hjk) as [_ Hnth]. rewrite Nat.sub_0_r in Hnth.
        assert (Hkp : oplain k) by (apply Hks; exact Hin).
        eapply (fetch_one_raw ks (ks :: chain) j k _ Hact Hkp (wfd_def_ok _ _ _ Hw)) with (h' := ohdr k); [| |exact Hp| |exact Hb].
        * apply self_matching_uniq; try assumption. intros x Hx Hd. apply (Hnames x Hx Hd).
        * apply (IH k Hin Hw (wf_obj_kid _ _ _ _ Hu Hin Hact) Hkp).
        * rewrite (match_sources_gview (onm k) comb ks Hv).
          replace (set_hdr k (ohdr k)) with k by (destruct k; reflexivity). apply gview_uniq; try assumption.
          intros x Hx Hd. apply (Hnames x Hx Hd).
      + cbn [fst] in E. rewrite E. eapply Bl_nils. exact HB.
  Qed.

  (* ---------------------------------------------------------------- the difference of a block *)
  Definition rec_dspS (k:obj) (recD:list lsrc -> res fout) : Prop :=
    forall bs comb dos u, Bl wbS (entries (okids k)) bs -> lplain comb -> lview comb = strip_objs (List.concat bs) ->
    recD comb = Ok (dos, u) -> exists dbs, dos = List.concat dbs /\ Bl2 dspS (entries (okids k)) bs dbs.

  Lemma NoDup_map_on : forall A (f g:A -> str) l, NoDup (map f l) ->
    (forall x y, In x l -> In y l -> g x = g y -> f x = f y) -> NoDup (map g l).
  Proof.
    intros A f g l. induction l as [|x l IH]; intros Hnd Hinj; [constructor|]. cbn [map] in *.
    inversion Hnd as [|? ? Hnin Hnd']; subst. constructor.
    - intros Hin. apply in_map_iff in Hin. destruct Hin as [y [E Hy]]. apply Hnin.
      rewrite (Hinj x y (or_introl eq_refl) (or_intror Hy) (eq_sym E)). apply in_map. exact Hy.
    - apply IH; [exact Hnd'|]. intros a b Ha Hb. apply Hinj; right; assumption.
  Qed.

  (* the instances of a .multiple scope, offered to the difference run *)
  Lemma evs_insts_diff : forall h kids a recD mas, canon (Scp h kids a) None = Ok mas ->
    omultiple (Scp h kids a) = true -> rec_dspS (Scp h kids a) recD -> partial_ok (Scp h kids a) ->
    forall (Ls:list WI) M' el, lplain M' ->
    map sl M' = map (fun p:WI => Scp (with_tmpl h 0) (strip_objs (List.concat (fst p))) a) Ls ->
    Forall (fun p:WI => Bl wbS (entries kids) (fst p)) Ls ->
    Forall (fun p:WI => canon (Scp h kids a) (Some (inst h a (fst p))) = Ok (snd p) /\ eqs (snd p) mas = false) Ls ->
    evs env canon true (Scp h kids a) recD mas M' = Ok el ->
    exists Zs:list DI, map fst Zs = Ls /\ el = map (fun z:DI => Some (snd (snd z), inst h a (fst (snd z)))) Zs /\
      Forall (fun z:DI => Bl2 dspS (entries kids) (fst (fst z)) (fst (snd z))) Zs /\
      Forall (fun z:DI => List.concat (fst (snd z)) <> [] /\
                          canon (Scp h kids a) (Some (inst h a (fst (snd z)))) = Ok (snd (snd z)) /\
                          eqs (snd (snd z)) mas = false) Zs.
  Proof.
    intros h kids a recD mas Hmas Em Hrec Hpart. destruct (Hpart Em mas Hmas) as [Hp1 _].
    induction Ls as [|[bs t] Ls IH]; intros M' el Hp Hv HB HC H.
    - destruct M'; [|discriminate]. cbn in H. injection H as E. subst. exists []. repeat split; constructor.
    - destruct M' as [|s' M']; [discriminate|]. cbn [map fst] in Hv. injection Hv as Hv1 Hv2.
      inversion HB as [|? ? HB1 HB2]; subst. inversion HC as [|? ? [HC1 HC1'] HC2]; subst. cbn [fst snd] in *.
      cbn [evs] in H. bind_inv H as x Hx. bind_inv H as xs Hxs. injection H as E. subst el.
      destruct (IH M' xs) as [Zs [E1 [E2 [F1 F2]]]]; try assumption; [intros y Hy; apply Hp; right; exact Hy|].
      unfold ev in Hx. bind_inv Hx as cc Hcc.
      destruct (cand_scope true h kids a recD s' _ _ _ cc (Hp s' (or_introl eq_refl)) Hv1 Hcc) as [comb [[dos u0] [Hcp [Hcv [Hoc Ecc]]]]].
      destruct (Hrec bs comb dos u0 HB1 Hcp Hcv Hoc) as [dbs [Edos HB2']]. cbn [okids] in HB2'. subst cc dos.
      cbn [fst] in Hx. destruct (Hp1 bs dbs t HB2' HC1 HC1') as [Hne Hu].
      unfold diff_skip in Hx. cbn [andb okids scopy] in Hx.
      destruct (List.concat dbs) as [|d0 dr] eqn:Ed; [congruence|]. cbn [null_objs] in Hx. rewrite <- Ed in Hx.
      bind_inv Hx as u Hcu. change (scopy h a (List.concat dbs)) with (inst h a dbs) in Hcu.
      rewrite (Hu u Hcu) in Hx. injection Hx as Ex. subst x.
      exists (((bs, t), (dbs, u)) :: Zs). cbn [map fst snd]. rewrite E1, E2. repeat split.
      + constructor; [exact HB2'|exact F1].
      + constructor; [cbn [fst snd]; repeat split; [rewrite Ed; discriminate|exact Hcu|exact (Hu u Hcu)]|exact F2].
  Qed.

  Lemma partial_nodup : forall h kids a mas (Zs:list DI), canon (Scp h kids a) None = Ok mas ->
    omultiple (Scp h kids a) = true -> partial_ok (Scp h kids a) ->
    Forall (fun z:DI => Bl2 dspS (entries kids) (fst (fst z)) (fst (snd z))) Zs ->
    Forall (fun p:WI => canon (Scp h kids a) (Some (inst h a (fst p))) = Ok (snd p) /\ eqs (snd p) mas = false) (map fst Zs) ->
    Forall (fun z:DI => List.concat (fst (snd z)) <> [] /\
                        canon (Scp h kids a) (Some (inst h a (fst (snd z)))) = Ok (snd (snd z)) /\
                        eqs (snd (snd z)) mas = false) Zs ->
    NoDup (map snd (map fst Zs)) -> NoDup (map (fun z:DI => snd (snd z)) Zs).
  Proof.
    intros h kids a mas Zs Hmas Em Hpart F1 FC F2 Hnd. destruct (Hpart Em mas Hmas) as [_ Hp2].
    rewrite map_map in Hnd. apply (NoDup_map_on DI (fun z => snd (fst z)) (fun z => snd (snd z)) Zs Hnd).
    intros x y Hx Hy E. rewrite Forall_forall in F1, FC, F2.
    destruct (F2 x Hx) as [_ [Cx _]]. destruct (F2 y Hy) as [_ [Cy _]]. rewrite <- E in Cy.
    destruct (FC (fst x) (in_map fst _ _ Hx)) as [Tx _]. destruct (FC (fst y) (in_map fst _ _ Hy)) as [Ty _].
    exact (Hp2 _ _ _ _ _ _ _ (F1 x Hx) (F1 y Hy) Tx Ty Cx Cy).
  Qed.

  Lemma fetch_one_dspS : forall allks chain i k recD b,
    odis (ohdr k) = false -> oplain k -> def_ok k -> partial_ok k ->
    self_matching allks chain i (onm k) = [] -> wbS k b -> rec_dspS k recD -> rec_raw k recD ->
    forall sW db u, lplain sW -> map sl (match_sources (onm k) sW) = strip_objs b ->
    fetch_one env canon true allks chain i k recD sW = Ok (db, u) -> dspS k b db.
  Proof.
    intros allks chain i k recD b Hact Hk Hok Hpart Hself Hwb Hrec Hraw sW db u Hp Hv H.
    unfold fetch_one in H. unfold onm in Hv, Hself.
    destruct (get_attr (s_ "alias") (oattrs k)); try discriminate.
    destruct (oname (ohdr k)) as [|c0 nm] eqn:En; [discriminate|].
    pose proof (match_sources_plain (c0 :: nm) sW Hp) as Hm.
    pose proof Hwb as Hwb0.
    destruct Hwb as [h mws a v Em Hvf|h kids a bs Em HB|k mas L ts Em Hd Hmas HL HF Hnd|h kids a mas Ls Em Hmas HB HC Hnd].
    - (* non-multiple definition *)
      rewrite Em in H. cbn [negb] in H. cbn [ohdr] in Hact.
      pose proof Hvf as Hvf0. destruct Hvf as [ws [Ev [Hws Hfix]]].
      assert (Hsv : strip_objs [v] = [v]) by (subst v; cbn [strip_objs dcopy ohdr with_tmpl odis]; rewrite Hact; reflexivity).
      rewrite Hsv in Hv.
      destruct (match_sources (c0 :: nm) sW) as [|s' r'] eqn:EM; [discriminate|]. destruct r'; [|discriminate].
      cbn [map] in Hv. injection Hv as Hv.
      assert (El : lobj s' = v) by (unfold sl in Hv; rewrite Ev in Hv |- *; apply strip_obj_def_inv; exact Hv).
      cbn [def_loop] in H. unfold def_fetch in H. rewrite (Hfix true s' El) in H. cbn [bind] in H.
      bind_inv H as ro Hro. bind_inv Hro as x0 Hx0. injection Hro as Ero. subst x0.
      bind_inv Hx0 as x Hx. bind_inv Hx0 as y Hy.
      destruct (eqs x y) eqn:Exy; injection Hx0 as Ero; subst ro.
      + cbn [negb andb] in H. injection H as Eb _. subst db. apply f_eqs_eq in Exy. subst y. eapply dspS_drop; eassumption.
      + injection H as Eb _. subst db. eapply dspS_keep; eassumption.
    - (* non-multiple scope *)
      rewrite Em in H. cbn [negb] in H. cbn [ohdr] in Hact.
      assert (Hso : strip_objs [scopy h a (List.concat bs)] = [Scp (with_tmpl h 0) (strip_objs (List.concat bs)) a]).
      { cbn [strip_objs scopy ohdr with_tmpl odis]. rewrite Hact. reflexivity. }
      rewrite Hso in Hv.
      destruct (match_sources (c0 :: nm) sW) as [|s' r'] eqn:EM; [discriminate|]. destruct r'; [|discriminate].
      cbn [map] in Hv. injection Hv as Hv. unfold sl in Hv. apply strip_obj_scp_inv in Hv. destruct Hv as [ks' [El Ek]].
      cbn [combine] in H. rewrite El in H. cbn [is_def bind] in H.
      bind_inv H as oc Hoc. destruct oc as [dos u0]. cbn [fst snd andb] in H.
      destruct (Hrec bs (src_kids s' ++ []) dos u0 HB) as [dbs [Edos HB2]].
      + rewrite app_nil_r. apply src_kids_plain1. apply Hm. left. reflexivity.
      + rewrite app_nil_r, lview_src_kids. unfold sl. rewrite El, strip_obj_scp. cbn. exact Ek.
      + exact Hoc.
      + assert (Edb : db = optscope h a dos).
        { destruct (null_objs dos) eqn:En0; injection H as Eb _; subst db; destruct dos; try discriminate; reflexivity. }
        subst db dos. apply dspS_scp; assumption.
    - (* multiple definition *)
      destruct k as [h mws a|h ks a]; [|discriminate Hd]. rewrite Em in H. cbn [negb] in H. cbn [ohdr] in Hact.
      rewrite Hmas in H. cbn [bind] in H. rewrite Hself in H. cbn [map app] in H.
      assert (HLd : forall c, In c L -> exists h' ws' a', c = Def h' ws' a' /\ odis h' = false).
      { intros c Hc. rewrite Forall_forall in HL. destruct (vfix_def env _ _ (HL c Hc)) as [h' [ws' [a' [E Hd']]]].
        exists h', ws', a'. split; [exact E|]. rewrite Hd'. exact Hact. }
      unfold tmplS in Hv. cbn [strip_objs set_hdr ohdr with_tmpl odis] in Hv. rewrite Hact in Hv. cbn [strip_obj] in Hv. rewrite (strip_defs L HLd) in Hv.
      destruct (match_sources (c0 :: nm) sW) as [|sT M'] eqn:EM; [discriminate|].
      cbn [map] in Hv. injection Hv as HvT HvM.
      assert (HML : map lobj M' = L).
      { apply views_defs; [|exact HvM]. intros c Hc. destruct (HLd c Hc) as [h' [ws' [a' [E _]]]]. eauto. }
      assert (HevT : ev env canon true (Def h mws a) recD mas sT = Ok None).
      { unfold ev. cbn [cand_fetch]. unfold def_fetch.
        rewrite (def_self_fetch_dm env true h mws a sT Hok (proj1 (oplain_def h mws a) Hk)).
        2:{ unfold sl in HvT. apply strip_obj_def_inv in HvT. eexists. eexists. exact HvT. }
        cbn [bind]. rewrite (H_self (Def h mws a)), Hmas. cbn [bind]. rewrite f_eqs_refl. cbn [bind fst]. reflexivity. }
      pose proof (evs_values env canon true h mws a recD mas L ts M' Hmas HL HF HML) as HevM.
      bind_inv H as st Hst. destruct st as [[pd robjs] used]. injection H as Eb _. subst db. cbn [app].
      assert (Hfl : forall fs, In fs (map (pair false) (sT :: M')) -> true && fst fs = false).
      { intros fs Hfs. apply in_map_iff in Hfs. destruct Hfs as [x [E _]]. subst fs. reflexivity. }
      pose proof (mult_loop_fold env canon true (Def h mws a) recD mas Hmas (map (pair false) (sT :: M')) Hfl [] [] []) as F.
      rewrite Hst in F. cbn [rmap fst] in F. rewrite map_snd_pair in F. cbn [evs] in F. rewrite HevT, HevM in F. cbn [bind rmap] in F.
      injection F as F.
      destruct (fold_pstep_grel (map Some (List.combine ts L)) [] [] [] grel_nil) as [g [Hg Eg]]. rewrite <- F in Hg. cbn [fst snd] in Hg.
      cbn [somesP] in Eg. rewrite somesP_map_some, kl_dd in Eg.
      pose proof (Forall2_length' _ _ _ _ _ HF) as Hlen.
      rewrite dd_id in Eg by (unfold pkeys; rewrite combine_fst by (symmetry; exact Hlen); exact Hnd).
      assert (Esr : somes robjs = L).
      { rewrite (gr_objs _ _ _ Hg), somes_objs_of, Eg. apply combine_snd. symmetry. exact Hlen. }
      rewrite Esr. apply dspS_mult; [exact Em|reflexivity|exact Hwb0].
    - (* multiple scope *)
      rewrite Em in H. cbn [negb] in H. cbn [ohdr] in Hact.
      rewrite Hmas in H. cbn [bind] in H. rewrite Hself in H. cbn [map app] in H.
      change (map (fun p : WI => inst h a (fst p)) Ls) with (map (fun p : WI => inst h a ((fun q:WI => fst q) p)) Ls) in Hv.
      rewrite <- (map_map (fun q:WI => fst q) (inst h a)) in Hv.
      unfold tmplS in Hv. cbn [strip_objs set_hdr ohdr with_tmpl odis] in Hv. rewrite Hact in Hv.
      rewrite (inst_active h a (map (fun q:WI => fst q) Ls) Hact), map_map, strip_obj_scp in Hv.
      destruct (match_sources (c0 :: nm) sW) as [|sT M'] eqn:EM; [discriminate|].
      cbn [map] in Hv. injection Hv as HvT HvM.
      bind_inv H as st Hst. destruct st as [[pd robjs] used]. injection H as Eb _. subst db. cbn [app].
      assert (Hfl : forall fs, In fs (map (pair false) (sT :: M')) -> true && fst fs = false).
      { intros fs Hfs. apply in_map_iff in Hfs. destruct Hfs as [x [E _]]. subst fs. reflexivity. }
      pose proof (mult_loop_fold env canon true (Scp h kids a) recD mas Hmas (map (pair false) (sT :: M')) Hfl [] [] []) as F.
      rewrite Hst in F. cbn [rmap fst] in F. rewrite map_snd_pair in F. cbn [evs] in F.
      destruct (ev env canon true (Scp h kids a) recD mas sT) as [xT| |] eqn:EevT; cbn [bind rmap] in F; try discriminate.
      destruct (evs env canon true (Scp h kids a) recD mas M') as [elM| |] eqn:EevM; cbn [bind rmap] in F; try discriminate.
      injection F as F.
      (* the template is skipped *)
      assert (ExT : xT = None).
      { unfold ev in EevT. bind_inv EevT as cc Hcc.
        destruct (cand_scope true h kids a recD sT _ _ _ cc (Hm sT (or_introl eq_refl)) HvT Hcc) as [comb [[dos u0] [Hcp [Hcv [Hoc Ecc]]]]].
        rewrite (Hraw comb dos u0 Hcp Hcv Hoc) in Ecc. subst cc.
        cbn [fst diff_skip andb okids scopy null_objs] in EevT. injection EevT as E. auto. }
      subst xT. cbn [fold_left pstep] in F.
      assert (HpM : lplain M') by (intros y Hy; apply Hm; right; exact Hy).
      rewrite map_map in HvM.
      destruct (evs_insts_diff h kids a recD mas Hmas Em Hrec Hpart Ls M' elM HpM HvM HB HC EevM) as [Zs [E1 [E2 [F1 F2]]]].
      assert (Hndu : NoDup (map (fun z:DI => snd (snd z)) Zs)).
      { apply (partial_nodup h kids a mas Zs Hmas Em Hpart F1); [rewrite E1; exact HC|exact F2|rewrite E1; exact Hnd]. }
      subst elM.
      destruct (fold_kept DI (fun z:DI => (snd (snd z), inst h a (fst (snd z)))) Zs pd robjs Hndu (eq_sym F)) as [Esr _].
      cbn [snd] in Esr. rewrite Esr.
      assert (EL : map (fun p:WI => inst h a (fst p)) Ls = map (fun z:DI => inst h a (fst (fst z))) Zs).
      { rewrite <- E1, map_map. reflexivity. }
      rewrite EL in Hwb0 |- *.
      apply (dspS_mscp h kids a mas _ Zs); try assumption.
      + rewrite <- E1 in HC. rewrite Forall_forall in HC |- *. intros z Hz. apply (HC (fst z)). apply in_map. exact Hz.
      + rewrite <- E1, map_map in Hnd. exact Hnd.
  Qed.

  (* ---------------------------------------------------------------- the whole scope: W and D *)
  Lemma scope_wd : forall M, wfd env canon M -> wf_obj M -> oplain M -> (forall x, subobj M x -> partial_ok x) ->
    forall chain, rec_wbS M (fetch_scope env canon false M chain) /\ rec_dspS M (fetch_scope env canon true M chain).
  Proof.
    induction M as [h ws a|h ks a IH] using obj_ind2; intros Hwf Hu HM Hor chain.
    - split; intro; intros; cbn in *; discriminate.
    - inversion Hwf as [|h0 ks0 a0 Hnd Hent]; subst. pose proof Hu as [Hun _].
      pose proof (proj1 (oplain_scp h ks a) HM) as Hks. rewrite Forall_forall in IH.
      pose proof (active_names_nonempty env canon _ _ _ Hwf Hun) as Hnames.
      assert (Hnm : forall k, In k (entries ks) -> onm k <> [] /\ nodot (onm k)).
      { intros k Hk. destruct (Hent k Hk) as [A [B _]]. auto. }
      assert (HE : forall j k, In (j, k) (ientries_from [] 0 ks) ->
                odis (ohdr k) = false /\ oplain k /\ def_ok k /\ partial_ok k /\
                self_matching ks (ks :: chain) j (onm k) = [] /\
                rec_wbS k (fetch_scope env canon false k (ks :: chain)) /\ rec_dspS k (fetch_scope env canon true k (ks :: chain)) /\
                rec_raw k (fetch_scope env canon true k (ks :: chain))).
      { intros j k Hjk. pose proof (In_ientries _ _ _ _ _ Hjk) as Hk.
        destruct (entries_active _ _ _ Hk) as [Hact Hin].
        destruct (Hent k Hk) as [_ [Hdot [_ Hw]]].
        destruct (ientries_nth _ _ _ _ _ Hjk) as [_ Hnth]. rewrite Nat.sub_0_r in Hnth.
        assert (Hkp : oplain k) by (apply Hks; exact Hin).
        pose proof (wf_obj_kid _ _ _ _ Hu Hin Hact) as Hwk.
        split; [exact Hact|]. split; [exact Hkp|]. split; [eapply wfd_def_ok; exact Hw|].
        split; [apply Hor; eapply sub_kid; [exact Hin|apply sub_refl]|].
        split; [apply self_matching_uniq; try assumption; intros x Hx Hd; apply (Hnames x Hx Hd)|].
        destruct (IH k Hin Hw Hwk Hkp (fun x Hx => Hor x (sub_kid h ks a k x Hin Hx)) (ks :: chain)) as [A B].
        split; [exact A|]. split; [exact B|]. apply scope_raw; assumption. }
      split.
      + intros comb os u Hp H. cbn [fetch_scope] in H.
        destruct (mloop_blocks (fun i0 k0 => fetch_one env canon false ks (ks :: chain) i0 k0 (fetch_scope env canon false k0 (ks :: chain)) comb) wbS ks [] 0 (os, u)) with (2 := H) as [bs [E HB]]; [|exists bs; split; [exact E|exact HB]].
        intros j k [bb ub] Hjk Hb. destruct (HE j k Hjk) as [A [B [C [D [E [F _]]]]]]. cbn [fst].
        eapply fetch_one_wbS; eassumption.
      + intros bs comb dos u HB Hp Hv H. cbn [fetch_scope okids] in *.
        destruct (mloop_an (list obj) (fun x => x) wbS dspS (fun i0 k0 => fetch_one env canon true ks (ks :: chain) i0 k0 (fetch_scope env canon true k0 (ks :: chain)) comb) wbS_named (List.concat bs) ks [] 0 bs [] [] (dos, u) HB Hnd Hnm)
          as [ys [Eys HB2]]; [intros x []|cbn [app]; rewrite app_nil_r; symmetry; apply flat_map_id|exact H| |exists ys; split; [exact Eys|exact HB2]].
        intros j k x [bo uo] Hjk Hx Hg Hb. destruct (HE j k Hjk) as [A [B [C [D [E [_ [G G']]]]]]]. cbn [fst].
        eapply fetch_one_dspS; try eassumption.
        rewrite (match_sources_gview (onm k) comb (List.concat bs) Hv). exact Hg.
  Qed.

  (* ---------------------------------------------------------------- the difference merged back *)
  Definition rec_reqS (k:obj) (recF:list lsrc -> res fout) : Prop :=
    forall xs comb ros u, Bl PRS (entries (okids k)) xs -> lplain comb ->
    lview comb = strip_objs (List.concat (map snd xs)) -> recF comb = Ok (ros, u) ->
    exists rbs, ros = List.concat rbs /\ Bl2 QRS (entries (okids k)) xs rbs.

  Lemma Forall_of_map : forall A B (f:A -> B) (P:B -> Prop) l, Forall P (map f l) -> Forall (fun x => P (f x)) l.
  Proof. intros A B f P l. induction l as [|x l IH]; intros H; [constructor|]. cbn [map] in H. inversion H; subst. constructor; auto. Qed.

  Lemma wbS_mscp_tmpl : forall h kids a T L, omultiple (Scp h kids a) = true -> wbS (Scp h kids a) (T :: L) ->
    T = tmplS (Scp h kids a) L.
  Proof.
    intros h kids a T L Em H. inversion H as [|h0 kids0 a0 bs Em0|k mas L0 ts Em0 Hd|h0 kids0 a0 mas Ls Em0 Hmas HB HC Hnd]; subst.
    - congruence.
    - discriminate Hd.
    - reflexivity.
  Qed.

  Lemma tmplS_nil_iff : forall k (L L':list obj), (L = [] <-> L' = []) -> tmplS k L = tmplS k L'.
  Proof.
    intros k L L' H. unfold tmplS, tmpl_flag. destruct (mandatory (ooptional k)); [reflexivity|].
    destruct L as [|x L]; destruct L' as [|y L']; try reflexivity.
    - destruct H as [H _]. specialize (H eq_refl). discriminate.
    - destruct H as [_ H]. specialize (H eq_refl). discriminate.
  Qed.

  (* the partial instances of a .multiple scope, offered to a merging run *)
  Lemma evs_insts_req : forall h kids a recF mas, canon (Scp h kids a) None = Ok mas ->
    omultiple (Scp h kids a) = true -> rec_reqS (Scp h kids a) recF -> restored_ok (Scp h kids a) ->
    forall (Zs:list DI) M' el, lplain M' ->
    map sl M' = map (fun z:DI => Scp (with_tmpl h 0) (strip_objs (List.concat (fst (snd z)))) a) Zs ->
    Forall (fun z:DI => canon (Scp h kids a) (Some (inst h a (fst (fst z)))) = Ok (snd (fst z)) /\ eqs (snd (fst z)) mas = false) Zs ->
    Forall (fun z:DI => Bl2 dspS (entries kids) (fst (fst z)) (fst (snd z))) Zs ->
    evs env canon false (Scp h kids a) recF mas M' = Ok el ->
    exists Rs:list RI, map fst Rs = Zs /\ el = map (fun r:RI => Some (snd (fst (fst r)), inst h a (snd r))) Rs /\
      Forall (fun r:RI => Bl2 (fun k (x:list obj * list obj) rb => reqS k (fst x) (snd x) rb) (entries kids)
                              (List.combine (fst (fst (fst r))) (fst (snd (fst r)))) (snd r)) Rs /\
      Forall (fun r:RI => canon (Scp h kids a) (Some (inst h a (snd r))) = Ok (snd (fst (fst r)))) Rs.
  Proof.
    intros h kids a recF mas Hmas Em Hrec Hrest. specialize (Hrest Em).
    induction Zs as [|[[bs t] [dbs u]] Zs IH]; intros M' el Hp Hv HT HB H.
    - destruct M'; [|discriminate]. cbn in H. injection H as E. subst. exists []. repeat split; constructor.
    - destruct M' as [|s' M']; [discriminate|]. cbn [map fst snd] in Hv. injection Hv as Hv1 Hv2.
      inversion HT as [|? ? [HT1 HT1'] HT2]; subst. inversion HB as [|? ? HB1 HB2]; subst. cbn [fst snd] in *.
      cbn [evs] in H. bind_inv H as x Hx. bind_inv H as xs Hxs. injection H as E. subst el.
      destruct (IH M' xs) as [Rs [E1 [E2 [F1 F2]]]]; try assumption; [intros y Hy; apply Hp; right; exact Hy|].
      unfold ev in Hx. bind_inv Hx as cc Hcc.
      destruct (cand_scope false h kids a recF s' _ _ _ cc (Hp s' (or_introl eq_refl)) Hv1 Hcc) as [comb [[ros u0] [Hcp [Hcv [Hoc Ecc]]]]].
      pose proof (Bl2_lengths _ _ _ _ _ HB1) as Hlen.
      destruct (Hrec (List.combine bs dbs) comb ros u0 (Bl2_pairs _ _ _ _ _ HB1) Hcp) as [rbs [Eros HB3]];
        [rewrite (combine_snd _ _ bs dbs Hlen); exact Hcv|exact Hoc|]. cbn [okids] in HB3. subst cc ros.
      assert (Hct : canon (Scp h kids a) (Some (inst h a rbs)) = Ok t).
      { apply (Hrest (List.combine bs dbs) rbs t HB3). rewrite (combine_fst _ _ bs dbs Hlen). exact HT1. }
      cbn [fst] in Hx. unfold diff_skip in Hx. cbn [andb] in Hx.
      change (scopy h a (List.concat rbs)) with (inst h a rbs) in Hx. rewrite Hct in Hx. cbn [bind] in Hx. rewrite HT1' in Hx.
      injection Hx as Ex. subst x.
      exists ((((bs, t), (dbs, u)), rbs) :: Rs). cbn [map fst snd]. rewrite E1, E2. repeat split.
      + constructor; [exact HB3|exact F1].
      + constructor; [exact Hct|exact F2].
  Qed.

  Lemma fetch_one_reqS : forall allks chain i k recF b db,
    odis (ohdr k) = false -> oplain k -> def_ok k -> restored_ok k ->
    self_matching allks chain i (onm k) = [] -> dspS k b db -> rec_reqS k recF ->
    forall sD rb u, lplain sD -> map sl (match_sources (onm k) sD) = strip_objs db ->
    fetch_one env canon false allks chain i k recF sD = Ok (rb, u) -> reqS k b db rb.
  Proof.
    intros allks chain i k recF b db Hact Hk Hok Hrest Hself Hd Hrec sD rb u Hp Hv H.
    unfold fetch_one in H. unfold onm in Hv, Hself.
    destruct (get_attr (s_ "alias") (oattrs k)); try discriminate.
    destruct (oname (ohdr k)) as [|c0 nm] eqn:En; [discriminate|].
    pose proof (match_sources_plain (c0 :: nm) sD Hp) as Hm.
    pose proof Hd as Hd0.
    destruct Hd as [h mws a v x y Em Hvf Hx Hy Exy|h mws a v x Em Hvf Hx Hy|h kids a bs dbs Em HB HB2|k T L Em Hdk Hw|h kids a mas T Zs Em Hmas Hw HT HndT HB HC Hnd].
    - (* kept definition *)
      rewrite Em in H. cbn [negb] in H. cbn [ohdr] in Hact.
      pose proof Hvf as [ws [Ev [Hws Hfix]]].
      assert (Hsv : strip_objs [v] = [v]) by (subst v; cbn [strip_objs dcopy ohdr with_tmpl odis]; rewrite Hact; reflexivity).
      rewrite Hsv in Hv.
      destruct (match_sources (c0 :: nm) sD) as [|s' r'] eqn:EM; [discriminate|]. destruct r'; [|discriminate].
      cbn [map] in Hv. injection Hv as Hv.
      assert (El : lobj s' = v) by (unfold sl in Hv; rewrite Ev in Hv |- *; apply strip_obj_def_inv; exact Hv).
      cbn [def_loop] in H. unfold def_fetch in H. rewrite (Hfix false s' El) in H. cbn [bind] in H.
      injection H as Eb _. subst rb. apply reqS_keep; assumption.
    - (* dropped definition: the master's own comes back *)
      rewrite Em in H. cbn [negb] in H.
      cbn [strip_objs] in Hv. destruct (match_sources (c0 :: nm) sD) as [|s' r'] eqn:EM; [|discriminate].
      cbn [def_loop bind] in H. destruct Hok as [_ [Hdep _]]. rewrite Hdep in H. cbn [negb andb] in H.
      injection H as Eb _. subst rb. apply reqS_drop; assumption.
    - (* scope *)
      rewrite Em in H. cbn [negb] in H. cbn [ohdr] in Hact.
      pose proof (Bl2_pairs _ _ _ _ _ HB2) as HBP. pose proof (Bl2_lengths _ _ _ _ _ HB2) as Hlen.
      set (xs := List.combine bs dbs) in *.
      assert (Efst : map fst xs = bs) by (apply combine_fst; exact Hlen).
      assert (Esnd : map snd xs = dbs) by (apply combine_snd; exact Hlen).
      assert (Hrun : forall comb, lplain comb -> lview comb = strip_objs (List.concat dbs) ->
                forall oc, recF comb = Ok oc -> reqS (Scp h kids a) [scopy h a (List.concat bs)] (optscope h a (List.concat dbs))
                                                   [scopy h a (fst oc)]).
      { intros comb Hcp Hcv [ros u0] Hoc. cbn [fst].
        destruct (Hrec xs comb ros u0 HBP Hcp) as [rbs [Eros HB3]]; [rewrite Esnd; exact Hcv|exact Hoc|].
        subst ros. rewrite <- Efst, <- Esnd. apply reqS_scp; assumption. }
      destruct (List.concat dbs) as [|d0 dr] eqn:Edbs; cbn [optscope] in Hv, Hrun |- *.
      + cbn [strip_objs] in Hv. destruct (match_sources (c0 :: nm) sD) as [|s' r'] eqn:EM; [|discriminate].
        cbn [combine bind] in H. bind_inv H as oc Hoc. cbn [andb] in H. injection H as Eb _. subst rb.
        apply (Hrun [] (fun x Hx => match Hx with end) eq_refl oc Hoc).
      + assert (Hso : strip_objs [scopy h a (d0 :: dr)] = [Scp (with_tmpl h 0) (strip_objs (d0 :: dr)) a]).
        { cbn [strip_objs scopy ohdr with_tmpl odis]. rewrite Hact. reflexivity. }
        rewrite Hso in Hv.
        destruct (match_sources (c0 :: nm) sD) as [|s' r'] eqn:EM; [discriminate|]. destruct r'; [|discriminate].
        cbn [map] in Hv. injection Hv as Hv. unfold sl in Hv. apply strip_obj_scp_inv in Hv. destruct Hv as [ks' [El Ek]].
        cbn [combine] in H. rewrite El in H. cbn [is_def bind] in H.
        bind_inv H as oc Hoc. cbn [andb] in H. injection H as Eb _. subst rb.
        apply (Hrun (src_kids s' ++ [])); [| |exact Hoc].
        * rewrite app_nil_r. apply src_kids_plain1. apply Hm. left. reflexivity.
        * rewrite app_nil_r, lview_src_kids. unfold sl. rewrite El, strip_obj_scp. cbn. exact Ek.
    - (* multiple definition: the same block comes back *)
      inversion Hw as [?|?|k0 mas L0 ts Em0 Hdk0 Hmas HL HF Hnd|?]; subst; try congruence; try discriminate.
      destruct k as [h mws a|h ks a]; [|discriminate Hdk]. rewrite Em in H. cbn [negb] in H. cbn [ohdr] in Hact.
      rewrite Hmas in H. cbn [bind] in H. rewrite Hself in H. cbn [map app] in H.
      assert (HLd : forall c, In c L -> exists h' ws' a', c = Def h' ws' a' /\ odis h' = false).
      { intros c Hc. rewrite Forall_forall in HL. destruct (vfix_def env _ _ (HL c Hc)) as [h' [ws' [a' [E Hd']]]].
        exists h', ws', a'. split; [exact E|]. rewrite Hd'. exact Hact. }
      rewrite (strip_defs L HLd) in Hv.
      assert (HML : map lobj (match_sources (c0 :: nm) sD) = L).
      { apply views_defs; [|exact Hv]. intros c Hc. destruct (HLd c Hc) as [h' [ws' [a' [E _]]]]. eauto. }
      pose proof (evs_values env canon false h mws a recF mas L ts _ Hmas HL HF HML) as HevM.
      bind_inv H as st Hst. destruct st as [[pd robjs] used]. injection H as Eb _. subst rb.
      pose proof (mult_loop_fold env canon false (Def h mws a) recF mas Hmas (map (pair false) (match_sources (c0 :: nm) sD)) (fun _ _ => eq_refl) [] [] []) as F.
      rewrite Hst in F. cbn [rmap fst] in F. rewrite map_snd_pair in F. rewrite HevM in F. cbn [rmap] in F. injection F as F.
      destruct (fold_pstep_grel (map Some (List.combine ts L)) [] [] [] grel_nil) as [g [Hg Eg]]. rewrite <- F in Hg. cbn [fst snd] in Hg.
      cbn [somesP] in Eg. rewrite somesP_map_some, kl_dd in Eg.
      pose proof (Forall2_length' _ _ _ _ _ HF) as Hlen.
      rewrite dd_id in Eg by (unfold pkeys; rewrite combine_fst by (symmetry; exact Hlen); exact Hnd).
      assert (Esr : somes robjs = L).
      { rewrite (gr_objs _ _ _ Hg), somes_objs_of, Eg. apply combine_snd. symmetry. exact Hlen. }
      assert (Hiff : pd = [] <-> L = []).
      { rewrite (grel_pd_nil _ _ _ Hg), Eg. clear -Hlen. destruct L as [|c L'], ts as [|t ts']; cbn in Hlen |- *; try lia; split; intros E; try reflexivity; discriminate E. }
      pose proof (template_flag (Def h mws a) pd L Hiff) as Etf.
      unfold template_of in Etf. cbn [set_hdr ohdr] in Etf. cbn [app]. rewrite Esr, Etf.
      apply (reqS_mult (Def h mws a) (tmplS (Def h mws a) L :: L) L); assumption.
    - (* multiple scope: the template, then every partial instance merged with the template *)
      rewrite Em in H. cbn [negb] in H. cbn [ohdr] in Hact.
      rewrite Hmas in H. cbn [bind] in H. rewrite Hself in H. cbn [map app] in H.
      change (map (fun z : DI => inst h a (fst (snd z))) Zs) with (map (fun z : DI => inst h a ((fun q:DI => fst (snd q)) z)) Zs) in Hv.
      rewrite <- (map_map (fun q:DI => fst (snd q)) (inst h a)) in Hv.
      rewrite (inst_active h a (map (fun q:DI => fst (snd q)) Zs) Hact), map_map in Hv.
      set (M' := match_sources (c0 :: nm) sD) in *.
      bind_inv H as st Hst. destruct st as [[pd robjs] used]. injection H as Eb _. subst rb.
      change ((if false then [] else [template_of (Scp h kids a) pd]) ++ somes robjs) with (template_of (Scp h kids a) pd :: somes robjs).
      pose proof (mult_loop_fold env canon false (Scp h kids a) recF mas Hmas (map (pair false) M') (fun _ _ => eq_refl) [] [] []) as F.
      rewrite Hst in F. cbn [rmap fst] in F. rewrite map_snd_pair in F.
      destruct (evs env canon false (Scp h kids a) recF mas M') as [el| |] eqn:Eel; cbn [rmap] in F; try discriminate.
      injection F as F.
      destruct (evs_insts_req h kids a recF mas Hmas Em Hrec Hrest Zs M' el Hm Hv HT HB Eel) as [Rs [E1 [E2 [F1 F2]]]].
      assert (HndR : NoDup (map (fun r:RI => snd (fst (fst r))) Rs)).
      { rewrite <- E1, map_map in HndT. exact HndT. }
      subst el.
      destruct (fold_kept RI (fun r:RI => (snd (fst (fst r)), inst h a (snd r))) Rs pd robjs HndR (eq_sym F)) as [Esr Hpd].
      cbn [snd] in Esr. rewrite Esr.
      assert (ET : template_of (Scp h kids a) pd = T).
      { rewrite (wbS_mscp_tmpl h kids a T _ Em Hw).
        rewrite (template_flag (Scp h kids a) pd (map (fun z : DI => inst h a (fst (fst z))) Zs)); [reflexivity|].
        rewrite Hpd, <- E1. destruct Rs; cbn; split; intros; congruence. }
      match goal with |- reqS _ _ _ (?X :: _) => change X with (template_of (Scp h kids a) pd) end.
      rewrite ET. clear Hst F Esr Hpd ET Eel Hv.
      subst Zs. rewrite !map_map in Hd0 |- *.
      apply (reqS_mscp h kids a mas T Rs); try assumption.
      + apply Forall_of_map in HB. exact HB.
      + apply Forall_of_map in HT. apply Forall_of_map in HC. rewrite Forall_forall in HT, HC, F2 |- *.
        intros r Hr. destruct (HT r Hr) as [A1 A2]. destruct (HC r Hr) as [B1 [B2 B3]]. repeat split; auto.
      + rewrite map_map in Hnd. exact Hnd.
  Qed.

  (* ---------------------------------------------------------------- the difference of what came back *)
  Definition PD2S (k:obj) (x:X3) : Prop := reqS k (fst (fst x)) (snd (fst x)) (snd x).

  Definition rec_d2S (k:obj) (recD:list lsrc -> res fout) : Prop :=
    forall (xs:list X3) comb d2os u, Bl PD2S (entries (okids k)) xs -> lplain comb ->
    lview comb = strip_objs (List.concat (map snd xs)) -> recD comb = Ok (d2os, u) ->
    d2os = List.concat (map (fun x:X3 => snd (fst x)) xs).

  Lemma dspS_mult_invS : forall k b d d', omultiple k = true -> is_def k = true -> dspS k b d -> dspS k b d' -> d = d'.
  Proof.
    intros k b d d' Em Hdk H H'.
    destruct H as [h mws a v x y Em0|h mws a v x Em0|h kids a bs dbs Em0|k T L _ _ Hw|h kids a mas T Zs Em0]; try congruence; try discriminate.
    inversion H' as [? ? ? ? ? ? Em1|? ? ? ? ? Em1|? ? ? ? ? Em1|k1 T1 L1 _ _ Hw1|? ? ? ? ? ? Em1]; subst; try congruence; try discriminate.
  Qed.

  (* the restored instances of a .multiple scope, offered to a difference run: the partial instances again *)
  Lemma evs_insts_d2 : forall h kids a recD mas, rec_d2S (Scp h kids a) recD ->
    forall (Rs:list RI) M' el, lplain M' ->
    map sl M' = map (fun r:RI => Scp (with_tmpl h 0) (strip_objs (List.concat (snd r))) a) Rs ->
    Forall (fun r:RI => Bl2 dspS (entries kids) (fst (fst (fst r))) (fst (snd (fst r)))) Rs ->
    Forall (fun r:RI => Bl2 (fun k (x:list obj * list obj) rb => reqS k (fst x) (snd x) rb) (entries kids)
                            (List.combine (fst (fst (fst r))) (fst (snd (fst r)))) (snd r)) Rs ->
    Forall (fun r:RI => eqs (snd (fst (fst r))) mas = false /\
                        canon (Scp h kids a) (Some (inst h a (snd r))) = Ok (snd (fst (fst r))) /\
                        List.concat (fst (snd (fst r))) <> [] /\
                        canon (Scp h kids a) (Some (inst h a (fst (snd (fst r))))) = Ok (snd (snd (fst r))) /\
                        eqs (snd (snd (fst r))) mas = false) Rs ->
    evs env canon true (Scp h kids a) recD mas M' = Ok el ->
    el = map (fun r:RI => Some (snd (snd (fst r)), inst h a (fst (snd (fst r))))) Rs.
  Proof.
    intros h kids a recD mas Hrec.
    induction Rs as [|[[[bs t] [dbs u]] rbs] Rs IH]; intros M' el Hp Hv HBd HB HC H.
    - destruct M'; [|discriminate]. cbn in H. injection H as E. subst. reflexivity.
    - destruct M' as [|s' M']; [discriminate|]. cbn [map fst snd] in Hv. injection Hv as Hv1 Hv2.
      inversion HBd as [|? ? HBd1 HBd2]; subst. inversion HB as [|? ? HB1 HB2]; subst.
      inversion HC as [|? ? [C1 [C2 [C3 [C4 C5]]]] HC2]; subst. cbn [fst snd] in *.
      cbn [evs] in H. bind_inv H as x Hx. bind_inv H as xs Hxs. injection H as E. subst el.
      rewrite (IH M' xs) by (try assumption; intros y Hy; apply Hp; right; exact Hy).
      unfold ev in Hx. bind_inv Hx as cc Hcc.
      destruct (cand_scope true h kids a recD s' _ _ _ cc (Hp s' (or_introl eq_refl)) Hv1 Hcc) as [comb [[d2os u0] [Hcp [Hcv [Hoc Ecc]]]]].
      pose proof (Bl2_lengths _ _ _ _ _ HBd1) as Hlen1. pose proof (Bl2_lengths _ _ _ _ _ HB1) as Hlen2.
      assert (E2 : d2os = List.concat (map (fun x:X3 => snd (fst x)) (List.combine (List.combine bs dbs) rbs))).
      { apply (Hrec (List.combine (List.combine bs dbs) rbs) comb d2os u0 (Bl2_pairs _ _ _ _ _ HB1) Hcp); [|exact Hoc].
        rewrite (combine_snd _ _ _ rbs Hlen2). exact Hcv. }
      assert (Emap : map (fun x:X3 => snd (fst x)) (List.combine (List.combine bs dbs) rbs) = dbs).
      { transitivity (map snd (map fst (List.combine (List.combine bs dbs) rbs))); [rewrite map_map; reflexivity|].
        rewrite (combine_fst _ _ _ rbs Hlen2). apply combine_snd. exact Hlen1. }
      rewrite Emap in E2. subst cc d2os.
      cbn [fst] in Hx. unfold diff_skip in Hx. cbn [andb okids scopy] in Hx.
      destruct (List.concat dbs) as [|d0 dr] eqn:Ed; [congruence|]. cbn [null_objs] in Hx. rewrite <- Ed in Hx.
      change (scopy h a (List.concat dbs)) with (inst h a dbs) in Hx. rewrite C4 in Hx. cbn [bind] in Hx. rewrite C5 in Hx.
      injection Hx as Ex. subst x. reflexivity.
  Qed.

  Lemma fetch_one_d2S : forall allks chain i k recD b db rb,
    odis (ohdr k) = false -> oplain k -> def_ok k -> partial_ok k ->
    self_matching allks chain i (onm k) = [] -> reqS k b db rb -> rec_dspS k recD -> rec_raw k recD -> rec_d2S k recD ->
    forall sR d2b u, lplain sR -> map sl (match_sources (onm k) sR) = strip_objs rb ->
    fetch_one env canon true allks chain i k recD sR = Ok (d2b, u) -> d2b = db.
  Proof.
    intros allks chain i k recD b db rb Hact Hk Hok Hpart Hself Hr Hrd Hraw Hr2 sR d2b u Hp Hv H.
    destruct Hr as [h mws a v Em Hd|h mws a v Em Hd|h kids a xs rbs Em HB|k b L Em Hdk Hd|h kids a mas T Rs Em Hmas Hd HBd HB HC Hn1 Hn2].
    - (* kept: the same run as the first difference *)
      pose proof (fetch_one_dspS allks chain i _ recD [v] Hact Hk Hok Hpart Hself (dspS_wbS _ _ _ Hd) Hrd Hraw sR d2b u Hp Hv H) as Hd'.
      inversion Hd as [? ? ? ? x y _ Hvf Hx Hy Exy|? ? ? ? ? _ ? ? ?|?|? ? ? Em1 ?|?]; subst; try congruence.
      inversion Hd' as [|? ? ? ? x' _ _ Hx' Hy'|?|? ? ? Em1 ?|?]; subst; try congruence.
      rewrite Hx in Hx'. injection Hx' as E. subst x'. rewrite Hy in Hy'. injection Hy' as E. subst y.
      rewrite f_eqs_refl in Exy. discriminate.
    - (* dropped: the master's own definition does not differ from itself *)
      unfold fetch_one in H. unfold onm in Hv.
      destruct (get_attr (s_ "alias") (oattrs (Def h mws a))); try discriminate.
      destruct (oname (ohdr (Def h mws a))) as [|c0 nm] eqn:En; [discriminate|].
      rewrite Em in H. cbn [negb] in H. cbn [ohdr] in Hact.
      cbn [strip_objs ohdr] in Hv. rewrite Hact in Hv. cbn [strip_obj] in Hv.
      destruct (match_sources (c0 :: nm) sR) as [|s' r'] eqn:EM; [discriminate|]. destruct r'; [|discriminate].
      cbn [map] in Hv. injection Hv as Hv. unfold sl in Hv. apply strip_obj_def_inv in Hv.
      cbn [def_loop] in H. unfold def_fetch in H.
      rewrite (def_self_fetch_dm env true h mws a s' Hok (proj1 (oplain_def h mws a) Hk)) in H by (eexists; eexists; exact Hv).
      cbn [bind] in H. rewrite (H_self (Def h mws a)) in H.
      inversion Hd as [|? ? ? ? x _ _ Hx Hy|?|? ? ? Em1 ?|?]; subst; try congruence.
      rewrite Hy in H. cbn [bind] in H. rewrite f_eqs_refl in H. cbn [bind negb andb] in H. injection H as E _. auto.
    - (* scope *)
      unfold fetch_one in H. unfold onm in Hv.
      destruct (get_attr (s_ "alias") (oattrs (Scp h kids a))); try discriminate.
      destruct (oname (ohdr (Scp h kids a))) as [|c0 nm] eqn:En; [discriminate|].
      pose proof (match_sources_plain (c0 :: nm) sR Hp) as Hm.
      rewrite Em in H. cbn [negb] in H. cbn [ohdr] in Hact.
      assert (Hso : strip_objs [scopy h a (List.concat rbs)] = [Scp (with_tmpl h 0) (strip_objs (List.concat rbs)) a]).
      { cbn [strip_objs scopy ohdr with_tmpl odis]. rewrite Hact. reflexivity. }
      rewrite Hso in Hv.
      destruct (match_sources (c0 :: nm) sR) as [|s' r'] eqn:EM; [discriminate|]. destruct r'; [|discriminate].
      cbn [map] in Hv. injection Hv as Hv. unfold sl in Hv. apply strip_obj_scp_inv in Hv. destruct Hv as [ks' [El Ek]].
      cbn [combine] in H. rewrite El in H. cbn [is_def bind] in H.
      bind_inv H as oc Hoc. destruct oc as [d2os u0]. cbn [fst snd andb] in H.
      pose proof (Bl2_pairs _ _ _ _ _ HB) as HBP. pose proof (Bl2_lengths _ _ _ _ _ HB) as Hlen.
      assert (E2 : d2os = List.concat (map (fun x:X3 => snd (fst x)) (List.combine xs rbs))).
      { apply (Hr2 (List.combine xs rbs) (src_kids s' ++ []) d2os u0 HBP).
        - rewrite app_nil_r. apply src_kids_plain1. apply Hm. left. reflexivity.
        - rewrite app_nil_r, lview_src_kids. unfold sl. rewrite El, strip_obj_scp. cbn [okids].
          rewrite (combine_snd _ _ xs rbs Hlen). exact Ek.
        - exact Hoc. }
      assert (Emap : map (fun x:X3 => snd (fst x)) (List.combine xs rbs) = map snd xs).
      { rewrite <- (combine_fst _ _ xs rbs Hlen) at 2. rewrite map_map. reflexivity. }
      rewrite Emap in E2. subst d2os.
      destruct (null_objs (List.concat (map snd xs))) eqn:En0; injection H as Eb _; subst d2b;
        destruct (List.concat (map snd xs)); try discriminate; reflexivity.
    - (* multiple definition: the same block, the same difference *)
      pose proof (fetch_one_dspS allks chain i k recD b Hact Hk Hok Hpart Hself (dspS_wbS _ _ _ Hd) Hrd Hraw sR d2b u Hp Hv H) as Hd'.
      eapply dspS_mult_invS; eassumption.
    - (* multiple scope: the template is skipped, every restored instance gives its partial instance again *)
      unfold fetch_one in H. unfold onm in Hv, Hself.
      destruct (get_attr (s_ "alias") (oattrs (Scp h kids a))); try discriminate.
      destruct (oname (ohdr (Scp h kids a))) as [|c0 nm] eqn:En; [discriminate|].
      pose proof (match_sources_plain (c0 :: nm) sR Hp) as Hm.
      rewrite Em in H. cbn [negb] in H. cbn [ohdr] in Hact.
      rewrite Hmas in H. cbn [bind] in H. rewrite Hself in H. cbn [map app] in H.
      rewrite (wbS_mscp_tmpl h kids a T _ Em (dspS_wbS _ _ _ Hd)) in Hv.
      change (map (fun r : RI => inst h a (snd r)) Rs) with (map (fun r : RI => inst h a ((fun q:RI => snd q) r)) Rs) in Hv.
      rewrite <- (map_map (fun q:RI => snd q) (inst h a)) in Hv.
      unfold tmplS in Hv. cbn [strip_objs set_hdr ohdr with_tmpl odis] in Hv. rewrite Hact in Hv.
      rewrite (inst_active h a (map (fun q:RI => snd q) Rs) Hact), map_map, strip_obj_scp in Hv.
      destruct (match_sources (c0 :: nm) sR) as [|sT M'] eqn:EM; [discriminate|].
      cbn [map] in Hv. injection Hv as HvT HvM.
      bind_inv H as st Hst. destruct st as [[pd robjs] used]. injection H as Eb _. subst d2b. cbn [app].
      assert (Hfl : forall fs, In fs (map (pair false) (sT :: M')) -> true && fst fs = false).
      { intros fs Hfs. apply in_map_iff in Hfs. destruct Hfs as [x [E _]]. subst fs. reflexivity. }
      pose proof (mult_loop_fold env canon true (Scp h kids a) recD mas Hmas (map (pair false) (sT :: M')) Hfl [] [] []) as F.
      rewrite Hst in F. cbn [rmap fst] in F. rewrite map_snd_pair in F. cbn [evs] in F.
      destruct (ev env canon true (Scp h kids a) recD mas sT) as [xT| |] eqn:EevT; cbn [bind rmap] in F; try discriminate.
      destruct (evs env canon true (Scp h kids a) recD mas M') as [elM| |] eqn:EevM; cbn [bind rmap] in F; try discriminate.
      injection F as F.
      assert (ExT : xT = None).
      { unfold ev in EevT. bind_inv EevT as cc Hcc.
        destruct (cand_scope true h kids a recD sT _ _ _ cc (Hm sT (or_introl eq_refl)) HvT Hcc) as [comb [[dos u0] [Hcp [Hcv [Hoc Ecc]]]]].
        rewrite (Hraw comb dos u0 Hcp Hcv Hoc) in Ecc. subst cc.
        cbn [fst diff_skip andb okids scopy null_objs] in EevT. injection EevT as E. auto. }
      subst xT. cbn [fold_left pstep] in F.
      assert (HpM : lplain M') by (intros y Hy; apply Hm; right; exact Hy).
      try rewrite map_map in HvM.
      pose proof (evs_insts_d2 h kids a recD mas Hr2 Rs M' elM HpM HvM HBd HB HC EevM) as Eel. subst elM.
      destruct (fold_kept RI (fun r:RI => (snd (snd (fst r)), inst h a (fst (snd (fst r))))) Rs pd robjs Hn2 (eq_sym F)) as [Esr _].
      cbn [snd] in Esr. exact Esr.
  Qed.

  (* ---------------------------------------------------------------- the whole scope: W, D, R, D2 *)
  Lemma scope_cycleS : forall M, wfd env canon M -> wf_obj M -> oplain M ->
    (forall x, subobj M x -> partial_ok x) -> (forall x, subobj M x -> restored_ok x) -> forall chain,
    rec_reqS M (fetch_scope env canon false M chain) /\ rec_d2S M (fetch_scope env canon true M chain).
  Proof.
    induction M as [h ws a|h ks a IH] using obj_ind2; intros Hwf Hu HM Hor Hor2 chain.
    - split; intro; intros; cbn in *; discriminate.
    - inversion Hwf as [|h0 ks0 a0 Hnd Hent]; subst. pose proof Hu as [Hun _].
      pose proof (proj1 (oplain_scp h ks a) HM) as Hks. rewrite Forall_forall in IH.
      pose proof (active_names_nonempty env canon _ _ _ Hwf Hun) as Hnames.
      assert (Hnm : forall k, In k (entries ks) -> onm k <> [] /\ nodot (onm k)).
      { intros k Hk. destruct (Hent k Hk) as [A [B _]]. auto. }
      assert (HE : forall j k, In (j, k) (ientries_from [] 0 ks) ->
                odis (ohdr k) = false /\ oplain k /\ def_ok k /\ partial_ok k /\ restored_ok k /\
                self_matching ks (ks :: chain) j (onm k) = [] /\
                rec_dspS k (fetch_scope env canon true k (ks :: chain)) /\
                rec_raw k (fetch_scope env canon true k (ks :: chain)) /\
                rec_reqS k (fetch_scope env canon false k (ks :: chain)) /\
                rec_d2S k (fetch_scope env canon true k (ks :: chain))).
      { intros j k Hjk. pose proof (In_ientries _ _ _ _ _ Hjk) as Hk.
        destruct (entries_active _ _ _ Hk) as [Hact Hin].
        destruct (Hent k Hk) as [_ [Hdot [_ Hw]]].
        destruct (ientries_nth _ _ _ _ _ Hjk) as [_ Hnth]. rewrite Nat.sub_0_r in Hnth.
        assert (Hkp : oplain k) by (apply Hks; exact Hin).
        pose proof (wf_obj_kid _ _ _ _ Hu Hin Hact) as Hwk.
        split; [exact Hact|]. split; [exact Hkp|]. split; [eapply wfd_def_ok; exact Hw|].
        split; [apply Hor; eapply sub_kid; [exact Hin|apply sub_refl]|].
        split; [apply Hor2; eapply sub_kid; [exact Hin|apply sub_refl]|].
        split; [apply self_matching_uniq; try assumption; intros x Hx Hd; apply (Hnames x Hx Hd)|].
        destruct (scope_wd k Hw Hwk Hkp (fun x Hx => Hor x (sub_kid h ks a k x Hin Hx)) (ks :: chain)) as [_ B].
        destruct (IH k Hin Hw Hwk Hkp (fun x Hx => Hor x (sub_kid h ks a k x Hin Hx))
                    (fun x Hx => Hor2 x (sub_kid h ks a k x Hin Hx)) (ks :: chain)) as [C D].
        split; [exact B|]. split; [apply scope_raw; assumption|]. split; [exact C|exact D]. }
      split.
      + (* merged back *)
        intros xs comb ros u HB Hp Hv H. cbn [fetch_scope okids] in *.
        destruct (mloop_an (list obj * list obj)%type snd PRS QRS (fun i0 k0 => fetch_one env canon false ks (ks :: chain) i0 k0 (fetch_scope env canon false k0 (ks :: chain)) comb) (fun k x Hx => dspS_named _ _ _ Hx) (List.concat (map snd xs)) ks [] 0 xs [] [] (ros, u) HB Hnd Hnm)
          as [ys [Eys HB2]]; [intros x []|cbn [app]; rewrite app_nil_r; symmetry; apply flat_map_snd|exact H| |exists ys; split; [exact Eys|exact HB2]].
        intros j k x [bo uo] Hjk Hx Hg Hb. destruct (HE j k Hjk) as [A [B [C [D [D' [E [_ [_ [G _]]]]]]]]]. cbn [fst].
        unfold QRS. eapply fetch_one_reqS; try eassumption.
        rewrite (match_sources_gview (onm k) comb (List.concat (map snd xs)) Hv). exact Hg.
      + (* and differenced again *)
        intros xs comb d2os u HB Hp Hv H. cbn [fetch_scope okids] in *.
        destruct (mloop_an X3 snd PD2S QD2 (fun i0 k0 => fetch_one env canon true ks (ks :: chain) i0 k0 (fetch_scope env canon true k0 (ks :: chain)) comb) (fun k x Hx => reqS_named _ _ _ _ Hx) (List.concat (map snd xs)) ks [] 0 xs [] [] (d2os, u) HB Hnd Hnm)
          as [ys [Eys HB2]]; [intros x []|cbn [app]; rewrite app_nil_r; symmetry; apply flat_map_snd|exact H| |].
        * intros j k x [bo uo] Hjk Hx Hg Hb. destruct (HE j k Hjk) as [A [B [C [D [D' [E [G1 [G2 [_ G3]]]]]]]]]. cbn [fst].
          unfold QD2. eapply fetch_one_d2S; try eassumption.
          rewrite (match_sources_gview (onm k) comb (List.concat (map snd xs)) Hv). exact Hg.
        * cbn [fst] in Eys. rewrite Eys, (Bl2_QD2 _ _ _ HB2). reflexivity.
  Qed.

  (* ---------------------------------------------------------------- the difference of the defaults *)
  Inductive dflbS : obj -> list obj -> Prop :=
    | dflbS_def : forall h mws a, omultiple (Def h mws a) = false -> dflbS (Def h mws a) [Def h mws a]
    | dflbS_scp : forall h kids a bs, omultiple (Scp h kids a) = false -> Bl dflbS (entries kids) bs ->
        dflbS (Scp h kids a) [scopy h a (List.concat bs)]
    | dflbS_mult : forall k h', omultiple k = true -> odis h' = odis (ohdr k) -> oname h' = oname (ohdr k) ->
        dflbS k [set_hdr k h'].

  Lemma dflbS_named : forall k b, dflbS k b -> forall o, In o b -> named k o.
  Proof.
    intros k b H o Ho. destruct H as [h mws a Em|h kids a bs Em HB|k h' Em Hdis Hnm]; destruct Ho as [E|[]]; subst o.
    - split; reflexivity.
    - split; reflexivity.
    - destruct k; split; cbn; assumption.
  Qed.

  Definition rec_dflbS (k:obj) (rec:list lsrc -> res fout) : Prop :=
    forall os u, rec [] = Ok (os, u) -> exists bs, os = List.concat bs /\ Bl dflbS (entries (okids k)) bs.
  Definition rec_ddS (k:obj) (recD:list lsrc -> res fout) : Prop :=
    forall bs comb dos u, Bl dflbS (entries (okids k)) bs -> lplain comb -> lview comb = strip_objs (List.concat bs) ->
    recD comb = Ok (dos, u) -> dos = [].

  Lemma fetch_one_dflbS : forall allks chain i k rec b u,
    def_ok k -> self_matching allks chain i (onm k) = [] -> rec_dflbS k rec ->
    fetch_one env canon false allks chain i k rec [] = Ok (b, u) -> dflbS k b.
  Proof.
    intros allks chain i k rec b u Hok Hself Hrec H. unfold fetch_one in H. unfold onm in Hself.
    destruct (get_attr (s_ "alias") (oattrs k)); try discriminate.
    destruct (oname (ohdr k)) as [|c0 nm] eqn:En; [discriminate|].
    rewrite match_sources_nil in H.
    destruct (omultiple k) eqn:Em; cbn [negb] in H.
    - bind_inv H as mas Hmas. rewrite Hself in H. cbn [map app mult_loop bind] in H.
      injection H as Eb _. subst b. cbn [somes app]. unfold template_of.
      apply dflbS_mult; try assumption; destruct k; reflexivity.
    - destruct k as [h mws a|h ks a].
      + cbn [def_loop bind] in H. destruct Hok as [_ [Hdep _]]. rewrite Hdep in H. cbn [negb andb] in H.
        injection H as Eb _. subst b. apply dflbS_def. exact Em.
      + cbn [combine bind] in H. bind_inv H as oc Hoc. cbn [andb] in H. injection H as Eb _. subst b.
        destruct oc as [os u0]. destruct (Hrec os u0 Hoc) as [bs [E HB]]. cbn [fst]. subst os. apply dflbS_scp; assumption.
  Qed.

  Lemma fetch_one_ddS : forall allks chain i k recD b,
    odis (ohdr k) = false -> oplain k -> def_ok k ->
    self_matching allks chain i (onm k) = [] -> dflbS k b -> rec_ddS k recD -> rec_raw k recD ->
    forall sW db u, lplain sW -> map sl (match_sources (onm k) sW) = strip_objs b ->
    fetch_one env canon true allks chain i k recD sW = Ok (db, u) -> db = [].
  Proof.
    intros allks chain i k recD b Hact Hk Hok Hself Hdf Hrec Hraw sW db u Hp Hv H.
    destruct Hdf as [h mws a Em|h kids a bs Em HB|k h' Em Hdis Hnm].
    - eapply (fetch_one_raw allks chain i (Def h mws a) recD Hact Hk Hok Hself Hraw sW db u h Hp); [|exact H].
      rewrite Hv. cbn [strip_objs ohdr set_hdr]. cbn [ohdr] in Hact. rewrite Hact. reflexivity.
    - unfold fetch_one in H. unfold onm in Hv, Hself.
      destruct (get_attr (s_ "alias") (oattrs (Scp h kids a))); try discriminate.
      destruct (oname (ohdr (Scp h kids a))) as [|c0 nm] eqn:En; [discriminate|].
      pose proof (match_sources_plain (c0 :: nm) sW Hp) as Hm.
      rewrite Em in H. cbn [negb] in H. cbn [ohdr] in Hact.
      assert (Hso : strip_objs [scopy h a (List.concat bs)] = [Scp (with_tmpl h 0) (strip_objs (List.concat bs)) a]).
      { cbn [strip_objs scopy ohdr with_tmpl odis]. rewrite Hact. reflexivity. }
      rewrite Hso in Hv.
      destruct (match_sources (c0 :: nm) sW) as [|s' r'] eqn:EM; [discriminate|]. destruct r'; [|discriminate].
      cbn [map] in Hv. injection Hv as Hv. unfold sl in Hv. apply strip_obj_scp_inv in Hv. destruct Hv as [ks' [El Ek]].
      cbn [combine] in H. rewrite El in H. cbn [is_def bind] in H.
      bind_inv H as oc Hoc. destruct oc as [dos u0]. cbn [fst snd andb] in H.
      assert (E0 : dos = []).
      { apply (Hrec bs (src_kids s' ++ []) dos u0 HB); [| |exact Hoc].
        - rewrite app_nil_r. apply src_kids_plain1. apply Hm. left. reflexivity.
        - rewrite app_nil_r, lview_src_kids. unfold sl. rewrite El, strip_obj_scp. cbn. exact Ek. }
      subst dos. cbn in H. injection H as E _. auto.
    - eapply (fetch_one_raw allks chain i k recD Hact Hk Hok Hself Hraw sW db u h' Hp); [|exact H].
      rewrite Hv. cbn [strip_objs]. replace (odis (ohdr (set_hdr k h'))) with false; [reflexivity|].
      destruct k; cbn [set_hdr ohdr] in *; congruence.
  Qed.

  Lemma scope_defaultsS : forall M, wfd env canon M -> wf_obj M -> oplain M -> forall chain,
    rec_dflbS M (fetch_scope env canon false M chain) /\ rec_ddS M (fetch_scope env canon true M chain).
  Proof.
    induction M as [h ws a|h ks a IH] using obj_ind2; intros Hwf Hu HM chain.
    - split; intro; intros; cbn in *; discriminate.
    - inversion Hwf as [|h0 ks0 a0 Hnd Hent]; subst. pose proof Hu as [Hun _].
      pose proof (proj1 (oplain_scp h ks a) HM) as Hks. rewrite Forall_forall in IH.
      pose proof (active_names_nonempty env canon _ _ _ Hwf Hun) as Hnames.
      assert (Hnm : forall k, In k (entries ks) -> onm k <> [] /\ nodot (onm k)).
      { intros k Hk. destruct (Hent k Hk) as [A [B _]]. auto. }
      assert (HE : forall j k, In (j, k) (ientries_from [] 0 ks) ->
                odis (ohdr k) = false /\ oplain k /\ def_ok k /\
                self_matching ks (ks :: chain) j (onm k) = [] /\
                rec_dflbS k (fetch_scope env canon false k (ks :: chain)) /\ rec_ddS k (fetch_scope env canon true k (ks :: chain)) /\
                rec_raw k (fetch_scope env canon true k (ks :: chain))).
      { intros j k Hjk. pose proof (In_ientries _ _ _ _ _ Hjk) as Hk.
        destruct (entries_active _ _ _ Hk) as [Hact Hin].
        destruct (Hent k Hk) as [_ [Hdot [_ Hw]]].
        destruct (ientries_nth _ _ _ _ _ Hjk) as [_ Hnth]. rewrite Nat.sub_0_r in Hnth.
        assert (Hkp : oplain k) by (apply Hks; exact Hin).
        pose proof (wf_obj_kid _ _ _ _ Hu Hin Hact) as Hwk.
        split; [exact Hact|]. split; [exact Hkp|]. split; [eapply wfd_def_ok; exact Hw|].
        split; [apply self_matching_uniq; try assumption; intros x Hx Hd; apply (Hnames x Hx Hd)|].
        destruct (IH k Hin Hw Hwk Hkp (ks :: chain)) as [A B].
        split; [exact A|]. split; [exact B|]. apply scope_raw; assumption. }
      split.
      + intros os u H. cbn [fetch_scope] in H.
        destruct (mloop_blocks (fun i0 k0 => fetch_one env canon false ks (ks :: chain) i0 k0 (fetch_scope env canon false k0 (ks :: chain)) []) dflbS ks [] 0 (os, u)) with (2 := H) as [bs [E HB]]; [|exists bs; split; [exact E|exact HB]].
        intros j k [bb ub] Hjk Hb. destruct (HE j k Hjk) as [A [B [C [D [E _]]]]]. cbn [fst].
        eapply fetch_one_dflbS; eassumption.
      + intros bs comb dos u HB Hp Hv H. cbn [fetch_scope okids] in *.
        destruct (mloop_an (list obj) (fun x => x) dflbS (fun _ _ y => y = [])
                    (fun i0 k0 => fetch_one env canon true ks (ks :: chain) i0 k0 (fetch_scope env canon true k0 (ks :: chain)) comb)
                    dflbS_named (List.concat bs) ks [] 0 bs [] [] (dos, u) HB Hnd Hnm)
          as [ys [Eys HB2]]; [intros x []|cbn [app]; rewrite app_nil_r; symmetry; apply flat_map_id|exact H| |].
        * intros j k x [bo uo] Hjk Hx Hg Hb. destruct (HE j k Hjk) as [A [B [C [D [_ [G G']]]]]]. cbn [fst].
          eapply fetch_one_ddS; try eassumption.
          rewrite (match_sources_gview (onm k) comb (List.concat bs) Hv). exact Hg.
        * cbn [fst] in Eys. rewrite Eys. eapply Bl2_nils. exact HB2.
  Qed.
End CycleS.

(* ------------------------------------------------------------------ root statements *)
Section RootS.
  Variable env : str -> option str.
  Variable canon : obj -> option obj -> res str.
  Hypothesis H_self : forall k, canon k (Some k) = canon k None.

  Definition D08S (m:list obj) : Prop := D07 env canon m /\ wf_master m.
  (* the oracle hypotheses, for the .multiple scopes of the master *)
  Definition partial_texts_ok (m:list obj) : Prop := forall k, subobj (root_scope m) k -> partial_ok env canon k.
  Definition restored_texts_ok (m:list obj) : Prop := forall k, subobj (root_scope m) k -> restored_ok env canon k.

  Theorem working_blocks_ms : forall m srcs w, D08S m -> srcs_have_dollar srcs = false ->
    fetch env canon false m srcs = Ok w ->
    exists bs, w = List.concat bs /\ Bl (wbS env canon) (entries m) bs.
  Proof.
    intros m srcs w [[Hwf Hmp] Hu] Hd H. unfold fetch in H. bind_inv H as oc Hoc. injection H as E. subst w.
    destruct oc as [w u]. unfold fetch_root in Hoc.
    (* the blocks of W do not depend on the oracle hypotheses: rec_wbS is proved directly *)
    assert (A : forall M, wfd env canon M -> wf_obj M -> oplain M -> forall chain, rec_wbS env canon M (fetch_scope env canon false M chain)).
    { induction M as [h ws a|h ks a IH] using obj_ind2; intros Hwf' Hu' HM chain.
      - intro; intros; cbn in *; discriminate.
      - inversion Hwf' as [|h0 ks0 a0 Hnd Hent]; subst. pose proof Hu' as [Hun _].
        pose proof (proj1 (oplain_scp h ks a) HM) as Hks. rewrite Forall_forall in IH.
        pose proof (active_names_nonempty env canon _ _ _ Hwf' Hun) as Hnames.
        intros comb os u0 Hp H. cbn [fetch_scope] in H.
        destruct (mloop_blocks (fun i0 k0 => fetch_one env canon false ks (ks :: chain) i0 k0 (fetch_scope env canon false k0 (ks :: chain)) comb) (wbS env canon) ks [] 0 (os, u0)) with (2 := H) as [bs [E HB]]; [|exists bs; split; [exact E|exact HB]].
        intros j k [bb ub] Hjk Hb. cbn [fst]. pose proof (In_ientries _ _ _ _ _ Hjk) as Hk.
        destruct (entries_active _ _ _ Hk) as [Hact Hin].
        destruct (Hent k Hk) as [_ [Hdot [_ Hw]]].
        destruct (ientries_nth _ _ _ _ _ Hjk) as [_ Hnth]. rewrite Nat.sub_0_r in Hnth.
        assert (Hkp : oplain k) by (apply Hks; exact Hin).
        eapply (fetch_one_wbS env canon ks (ks :: chain) j k _ comb bb ub Hact Hkp (wfd_def_ok _ _ _ Hw)); [| |exact Hp|exact Hb].
        + apply self_matching_uniq; try assumption. intros x Hx Hd0. apply (Hnames x Hx Hd0).
        + apply (IH k Hin Hw (wf_obj_kid _ _ _ _ Hu' Hin Hact) Hkp). }
    apply (A (root_scope m) Hwf Hu (root_plain m Hmp) [] (root_lsrcs srcs) w u); [apply lplain_root; exact Hd|exact Hoc].
  Qed.

  Theorem diff_spec_ms : forall m srcs w d, D08S m -> partial_texts_ok m -> srcs_have_dollar srcs = false ->
    fetch env canon false m srcs = Ok w -> fetch env canon true m [w] = Ok d ->
    exists bs dbs, w = List.concat bs /\ d = List.concat dbs /\ Bl2 (dspS env canon) (entries m) bs dbs.
  Proof.
    intros m srcs w d HD Hor Hd H Hdf. destruct (working_blocks_ms m srcs w HD Hd H) as [bs [Ew HB]].
    pose proof HD as [[Hwf Hmp] Hu].
    pose proof (fetch_result_plain env canon false m srcs w Hmp Hd H) as Hwp.
    unfold fetch in Hdf. bind_inv Hdf as oc Hoc. injection Hdf as E. subst d. destruct oc as [d u]. unfold fetch_root in Hoc.
    destruct (scope_wd env canon H_self (root_scope m) Hwf Hu (root_plain m Hmp) Hor []) as [_ B].
    destruct (B bs (root_lsrcs [w]) d u HB) as [dbs [Ed HB2]].
    - apply lplain_root. exact Hwp.
    - rewrite root_view, Ew. reflexivity.
    - exact Hoc.
    - exists bs, dbs. auto.
  Qed.

  Theorem defaults_empty_ms : forall m w0 d, D08S m ->
    fetch env canon false m [] = Ok w0 -> fetch env canon true m [w0] = Ok d -> d = [].
  Proof.
    intros m w0 d HD H Hdf. pose proof HD as [[Hwf Hmp] Hu].
    pose proof (fetch_result_plain env canon false m [] w0 Hmp eq_refl H) as Hwp.
    destruct (scope_defaultsS env canon H_self (root_scope m) Hwf Hu (root_plain m Hmp) []) as [A B].
    unfold fetch in H. bind_inv H as oc Hoc. injection H as E. subst w0. destruct oc as [w0 u]. unfold fetch_root in Hoc.
    cbn [fst] in *. destruct (A w0 u Hoc) as [bs [Ew HB]].
    unfold fetch in Hdf. bind_inv Hdf as oc Hoc'. injection Hdf as E. subst d. destruct oc as [d u']. unfold fetch_root in Hoc'.
    cbn [fst]. apply (B bs (root_lsrcs [w0]) d u' HB); [apply lplain_root; exact Hwp|rewrite root_view, Ew; reflexivity|exact Hoc'].
  Qed.
  Theorem restore_ms : forall m srcs w d r, D08S m -> partial_texts_ok m -> restored_texts_ok m ->
    srcs_have_dollar srcs = false ->
    fetch env canon false m srcs = Ok w -> fetch env canon true m [w] = Ok d -> fetch env canon false m [d] = Ok r ->
    exists xs rbs, w = List.concat (map fst xs) /\ d = List.concat (map snd xs) /\ r = List.concat rbs /\
                   Bl2 (QRS env canon) (entries m) xs rbs.
  Proof.
    intros m srcs w d r HD Hor Hor2 Hd H Hdf Hr. destruct (diff_spec_ms m srcs w d HD Hor Hd H Hdf) as [bs [dbs [Ew [Ed HB2]]]].
    pose proof HD as [[Hwf Hmp] Hu].
    pose proof (fetch_result_plain env canon false m srcs w Hmp Hd H) as Hwp.
    pose proof (fetch_result_plain env canon true m [w] d Hmp Hwp Hdf) as Hdp.
    unfold fetch in Hr. bind_inv Hr as oc Hoc. injection Hr as E. subst r. destruct oc as [r u]. unfold fetch_root in Hoc.
    destruct (scope_cycleS env canon H_self (root_scope m) Hwf Hu (root_plain m Hmp) Hor Hor2 []) as [C _].
    pose proof (Bl2_lengths _ _ _ _ _ HB2) as Hlen.
    destruct (C (List.combine bs dbs) (root_lsrcs [d]) r u (Bl2_pairs _ _ _ _ _ HB2)) as [rbs [Er HB3]].
    - apply lplain_root. exact Hdp.
    - rewrite root_view, (combine_snd _ _ bs dbs Hlen), Ed. reflexivity.
    - exact Hoc.
    - exists (List.combine bs dbs), rbs. rewrite (combine_fst _ _ bs dbs Hlen), (combine_snd _ _ bs dbs Hlen). auto.
  Qed.

  Theorem diff_of_restored_ms : forall m srcs w d r d2, D08S m -> partial_texts_ok m -> restored_texts_ok m ->
    srcs_have_dollar srcs = false ->
    fetch env canon false m srcs = Ok w -> fetch env canon true m [w] = Ok d -> fetch env canon false m [d] = Ok r ->
    fetch env canon true m [r] = Ok d2 -> d2 = d.
  Proof.
    intros m srcs w d r d2 HD Hor Hor2 Hd H Hdf Hr Hd2.
    destruct (restore_ms m srcs w d r HD Hor Hor2 Hd H Hdf Hr) as [xs [rbs [Ew [Ed [Er HB3]]]]].
    pose proof HD as [[Hwf Hmp] Hu].
    pose proof (fetch_result_plain env canon false m srcs w Hmp Hd H) as Hwp.
    pose proof (fetch_result_plain env canon true m [w] d Hmp Hwp Hdf) as Hdp.
    pose proof (fetch_result_plain env canon false m [d] r Hmp Hdp Hr) as Hrp.
    unfold fetch in Hd2. bind_inv Hd2 as oc Hoc. injection Hd2 as E. subst d2. destruct oc as [d2 u]. unfold fetch_root in Hoc.
    destruct (scope_cycleS env canon H_self (root_scope m) Hwf Hu (root_plain m Hmp) Hor Hor2 []) as [_ D].
    pose proof (Bl2_lengths _ _ _ _ _ HB3) as Hlen.
    rewrite (D (List.combine xs rbs) (root_lsrcs [r]) d2 u (Bl2_pairs _ _ _ _ _ HB3)).
    - cbn [fst]. rewrite Ed. f_equal. rewrite <- (combine_fst _ _ xs rbs Hlen) at 2. rewrite map_map. reflexivity.
    - apply lplain_root. exact Hrp.
    - rewrite root_view, (combine_snd _ _ xs rbs Hlen), Er. reflexivity.
    - exact Hoc.
  Qed.
End RootS.

(* ------------------------------------------------------------------ concrete runs *)
(* an oracle that prints names: "a=1;" per definition, "s{...}" per scope; a partial instance is printed
   with the definitions it holds (as the library does) *)
Fixpoint ntext (o:obj) : str :=
  match o with
  | Def h ws _ => oname h ++ s_ "=" ++ vjoin_sp (map wv ws) ++ s_ ";"
  | Scp h ks _ => oname h ++ s_ "{" ++ (fix go (l:list obj) : str :=
                     match l with [] => [] | k :: r => ntext k ++ go r end) ks ++ s_ "}"
  end.
Definition ncanon (M:obj) (s:option obj) : res str := Ok (ntext (match s with Some o => o | None => M end)).

Lemma ncanon_self : forall k, ncanon k (Some k) = ncanon k None.
Proof. reflexivity. Qed.

(* master:  x = 0                          source:  s { a = 2 }
            s .multiple = True { a = 1 }            s { a = 1 }      (equal to the template) *)
Definition ms_a : obj := Def (dh "a" false 3 3) [w_ "1" 3] [].
Definition ms_s : obj := Scp (dh "s" false 2 2) [ms_a] [(s_ "multiple", ABool true)].
Definition ms_x : obj := Def (dh "x" false 1 1) [w_ "0" 1] [].
Definition ms_master : list obj := [ ms_x; ms_s ].
Definition ms_source : list obj :=
  [ Scp (dh "s" false 1 1) [Def (dh "a" false 2 1) [w_ "2" 1] []] [];
    Scp (dh "s" false 3 2) [Def (dh "a" false 4 2) [w_ "1" 2] []] [] ].
Definition ms_i2 : obj := Scp (dh "s" false 2 2) [Def (dh "a" false 3 3) [w_ "2" 1] []] [(s_ "multiple", ABool true)].
Definition ms_w : list obj :=
  [ ms_x; Scp (mkhdr (s_ "s") false (-1) false 2 2) [ms_a] [(s_ "multiple", ABool true)]; ms_i2 ].
Definition ms_d : list obj := [ ms_i2 ].

Lemma ms_runs :
  fetch ex_env ncanon false ms_master [ms_source] = Ok ms_w /\
  fetch ex_env ncanon true ms_master [ms_w] = Ok ms_d /\
  fetch ex_env ncanon false ms_master [ms_d] = Ok ms_w /\
  fetch ex_env ncanon true ms_master [ms_w] = Ok ms_d.
Proof. repeat split; vm_compute; reflexivity. Qed.

Lemma ms_wf : wf_master ms_master.
Proof.
  unfold wf_master, root_scope, ms_master. cbn [wf_obj]. split.
  - unfold uniq_names. cbn. repeat (constructor; [cbn; intuition discriminate|]). constructor.
  - split; [intros _; exact I|]. split; [|exact I].
    intros _. split; [unfold uniq_names; cbn; constructor; [intros []|constructor]|]. split; [intros _; exact I|exact I].
Qed.

Lemma ms_D07 : D07 ex_env ncanon ms_master.
Proof.
  split; [|reflexivity]. unfold root_scope. apply wfd_scp.
  - vm_compute. repeat (constructor; [cbn; intuition discriminate|]). constructor.
  - intros k Hk. vm_compute in Hk. destruct Hk as [E|[E|[]]]; subst k.
    + split; [discriminate|]. split; [reflexivity|]. split; [intros H; discriminate H|].
      apply wfd_def. split; [reflexivity|]. split; [reflexivity|exact I].
    + split; [discriminate|]. split; [reflexivity|]. split.
      * intros _ chain. eexists. eexists. split; vm_compute; reflexivity.
      * apply wfd_scp.
        -- vm_compute. constructor; [intros []|constructor].
        -- intros k Hk. vm_compute in Hk. destruct Hk as [E|[]]. subst k.
           split; [discriminate|]. split; [reflexivity|]. split; [intros H; discriminate H|].
           apply wfd_def. split; [reflexivity|]. split; [reflexivity|exact I].
Qed.

Lemma ms_D08S : D08S ex_env ncanon ms_master.
Proof. exact (conj ms_D07 ms_wf). Qed.

Lemma subobj_def : forall h ws a x, subobj (Def h ws a) x -> x = Def h ws a.
Proof. intros h ws a x H. inversion H; subst. reflexivity. Qed.

(* the blocks of an instance of s and of its difference *)
Lemma ms_blocks : forall bs dbs, Bl2 (dspS ex_env ncanon) (entries [ms_a]) bs dbs ->
  exists v, bs = [[v]] /\ ((dbs = [[v]]) \/ (dbs = [[]] /\ ntext v = ntext ms_a)).
Proof.
  intros bs dbs H. change (entries [ms_a]) with [ms_a] in H.
  inversion H as [|k x y es xs ys Hq Hr]; subst. inversion Hr; subst.
  unfold ms_a in Hq. inversion Hq as [h mws a v x0 y0 Em Hv Hx Hy E|h mws a v x0 Em Hv Hx Hy| |k T L Em|]; subst.
  - exists v. split; [reflexivity|left; reflexivity].
  - exists v. split; [reflexivity|right]. split; [reflexivity|]. unfold ncanon in Hx, Hy. injection Hx as Hx. injection Hy as Hy. rewrite Hx, <- Hy. reflexivity.
  - discriminate Em.
Qed.

Lemma ms_partial_ok : partial_texts_ok ex_env ncanon ms_master.
Proof.
  intros k Hk. inversion Hk as [|h ks a k0 x Hin Hsub]; subst.
  - intros Em. discriminate Em.
  - destruct Hin as [E|[E|[]]]; subst k0.
    + apply subobj_def in Hsub. subst k. exact I.
    + inversion Hsub as [|h1 ks1 a1 k1 x1 Hin1 Hsub1]; subst.
      * intros _ mas Hmas. unfold ncanon in Hmas. injection Hmas as Emas. split.
        -- intros bs dbs t HB Ht Hne. destruct (ms_blocks bs dbs HB) as [v [Eb [Ed|[Ed Ev]]]]; subst bs dbs.
           ++ split; [discriminate|]. intros u Hu. rewrite Ht in Hu. injection Hu as E. subst u. exact Hne.
           ++ exfalso. unfold ncanon, inst, scopy in Ht. injection Ht as Et. subst t mas.
              cbn [ntext List.concat app oname with_tmpl dh] in Hne. rewrite app_nil_r, Ev in Hne.
              vm_compute in Hne. discriminate.
        -- intros bs dbs t bs' dbs' t' u HB HB' Ht Ht' Hu Hu'.
           destruct (ms_blocks bs dbs HB) as [v [Eb [Ed|[Ed Ev]]]]; destruct (ms_blocks bs' dbs' HB') as [v' [Eb' [Ed'|[Ed' Ev']]]]; subst bs dbs bs' dbs'.
           ++ congruence.
           ++ exfalso. destruct (ms_blocks _ _ HB) as [v0 [E0 _]]. injection E0 as E0. subst v0.
              inversion HB as [|k x y es xs ys Hq Hr]; subst.
              assert (Hnv : exists h0 ws0 a0, v = Def h0 ws0 a0 /\ oname h0 = s_ "a").
              { apply dspS_wbS in Hq. pose proof (wbS_named ex_env ncanon _ _ Hq v (or_introl eq_refl)) as [Hn _].
                destruct v as [h0 ws0 a0|h0 ks0 a0]; [exists h0, ws0, a0; split; [reflexivity|exact Hn]|].
                inversion Hq as [? ? ? ? ? Hvf| | |]; subst; try discriminate. destruct Hvf as [ws [E _]]. discriminate E. }
              destruct Hnv as [h0 [ws0 [a0 [Ev0 Hn0]]]]. subst v.
              unfold ncanon, inst, scopy in Hu, Hu'. rewrite <- Hu' in Hu. injection Hu as Eu.
              cbn [ntext List.concat app oname with_tmpl dh] in Eu. rewrite Hn0 in Eu. cbn in Eu. discriminate Eu.
           ++ exfalso. inversion HB' as [|k x y es xs ys Hq Hr]; subst.
              assert (Hnv : exists h0 ws0 a0, v' = Def h0 ws0 a0 /\ oname h0 = s_ "a").
              { apply dspS_wbS in Hq. pose proof (wbS_named ex_env ncanon _ _ Hq v' (or_introl eq_refl)) as [Hn _].
                destruct v' as [h0 ws0 a0|h0 ks0 a0]; [exists h0, ws0, a0; split; [reflexivity|exact Hn]|].
                inversion Hq as [? ? ? ? ? Hvf| | |]; subst; try discriminate. destruct Hvf as [ws [E _]]. discriminate E. }
              destruct Hnv as [h0 [ws0 [a0 [Ev0 Hn0]]]]. subst v'.
              unfold ncanon, inst, scopy in Hu, Hu'. rewrite <- Hu' in Hu. injection Hu as Eu.
              cbn [ntext List.concat app oname with_tmpl dh] in Eu. rewrite Hn0 in Eu. cbn in Eu. discriminate Eu.
           ++ unfold ncanon, inst, scopy in Ht, Ht'. injection Ht as Et. injection Ht' as Et'. subst t t'.
              cbn [ntext List.concat app] in *. rewrite !app_nil_r, Ev, Ev'. reflexivity.
      * destruct Hin1 as [E|[]]. subst k1. apply subobj_def in Hsub1. subst k. exact I.
Qed.

(* the blocks of an instance of s, of its difference, and of the restored instance *)
Lemma ms_rblocks : forall xs rbs, Bl2 (QRS ex_env ncanon) (entries [ms_a]) xs rbs ->
  exists v, (xs = [([v], [v])] /\ rbs = [[v]]) \/ (xs = [([v], [])] /\ rbs = [[ms_a]] /\ ntext v = ntext ms_a).
Proof.
  intros xs rbs H. change (entries [ms_a]) with [ms_a] in H.
  inversion H as [|k x y es xs' ys Hq Hr]; subst. inversion Hr; subst.
  unfold QRS, ms_a in Hq. destruct x as [b db]. cbn [fst snd] in Hq.
  inversion Hq as [h mws a v Em Hd|h mws a v Em Hd| |k b0 L Em|]; subst.
  - exists v. left. split; reflexivity.
  - exists v. right. split; [reflexivity|]. split; [reflexivity|].
    inversion Hd as [|? ? ? ? x0 _ _ Hx Hy| |? ? ? Em1|]; subst; [|discriminate Em1].
    unfold ncanon in Hx, Hy. injection Hx as Hx. injection Hy as Hy. rewrite Hx, <- Hy. reflexivity.
  - discriminate Em.
Qed.

Lemma ms_restored_ok : restored_texts_ok ex_env ncanon ms_master.
Proof.
  intros k Hk. inversion Hk as [|h ks a k0 x Hin Hsub]; subst.
  - intros Em. discriminate Em.
  - destruct Hin as [E|[E|[]]]; subst k0.
    + apply subobj_def in Hsub. subst k. exact I.
    + inversion Hsub as [|h1 ks1 a1 k1 x1 Hin1 Hsub1]; subst.
      * intros _ xs rbs t HB Ht. destruct (ms_rblocks xs rbs HB) as [v [[Ex Er]|[Ex [Er Ev]]]]; subst xs rbs.
        -- exact Ht.
        -- rewrite <- Ht. unfold ncanon, inst, scopy. f_equal.
           cbn [ntext List.concat app map fst]. rewrite !app_nil_r, Ev. reflexivity.
      * destruct Hin1 as [E|[]]. subst k1. apply subobj_def in Hsub1. subst k. exact I.
Qed.

(* the two-leaf master of the exploration:  x = 0   s .multiple { a = 1  b = 2 },
   source  s { a = 3 }  s { a = 1 }  s { b = 5 }  s { a = 3 }:  W = template, s { a = 1  b = 5 }, s { a = 3  b = 2 };
   D = s { b = 5 }, s { a = 3 } (partial instances); R = W; D2 = D *)
Definition m2_master : list obj :=
  [ ms_x;
    Scp (dh "s" false 2 2) [Def (dh "a" false 3 3) [w_ "1" 3] []; Def (dh "b" false 4 4) [w_ "2" 4] []] [(s_ "multiple", ABool true)] ].
Definition m2_ia (pid line:nat) (v:String.string) : obj := Scp (dh "s" false pid line) [Def (dh "a" false (S pid) line) [w_ v line] []] [].
Definition m2_ib (pid line:nat) (v:String.string) : obj := Scp (dh "s" false pid line) [Def (dh "b" false (S pid) line) [w_ v line] []] [].
Definition m2_source : list obj := [ m2_ia 1 1 "3"; m2_ia 3 2 "1"; m2_ib 5 3 "5"; m2_ia 7 4 "3" ].

Lemma m2_runs : exists w d,
  fetch ex_env ncanon false m2_master [m2_source] = Ok w /\ fetch ex_env ncanon true m2_master [w] = Ok d /\
  fetch ex_env ncanon false m2_master [d] = Ok w /\ fetch ex_env ncanon true m2_master [w] = Ok d /\
  map ntext w = [s_ "x=0;"; s_ "s{a=1;b=2;}"; s_ "s{a=1;b=5;}"; s_ "s{a=3;b=2;}"] /\
  map ntext d = [s_ "s{b=5;}"; s_ "s{a=3;}"].
Proof.
  eexists. eexists. split; [vm_compute; reflexivity|]. split; [vm_compute; reflexivity|].
  repeat split; vm_compute; reflexivity.
Qed.

(* ------------------------------------------------------------------ the hypothesis partial_texts_ok is needed *)
(* With an oracle that prints values without names (FetchExamples.ex_canon), master  s .multiple { a = 1  b = 2 },
   source  s { a = 3 }  s { b = 3 }:  W holds two instances ("3 2", "1 3"); their partial instances
   s { a = 3 } and s { b = 3 } both print as "3", so the difference keeps only the second one, and merging it
   back gives one instance.  (The library prints names; this is not a run of the library.) *)
Definition mc_master : list obj :=
  [ Scp (dh "s" false 1 1) [Def (dh "a" false 2 2) [w_ "1" 2] []; Def (dh "b" false 3 3) [w_ "2" 3] []] [(s_ "multiple", ABool true)] ].
Definition mc_source : list obj :=
  [ Scp (dh "s" false 1 1) [Def (dh "a" false 2 1) [w_ "3" 1] []] [];
    Scp (dh "s" false 3 2) [Def (dh "b" false 4 2) [w_ "3" 2] []] [] ].

Lemma mc_partial_texts_collide : exists w d r,
  fetch ex_env ex_canon false mc_master [mc_source] = Ok w /\ fetch ex_env ex_canon true mc_master [w] = Ok d /\
  fetch ex_env ex_canon false mc_master [d] = Ok r /\
  map (fun o => vjoin_sp (flat_words o)) w = [s_ "1 2"; s_ "3 2"; s_ "1 3"] /\
  map (fun o => vjoin_sp (flat_words o)) d = [s_ "3"] /\
  map (fun o => vjoin_sp (flat_words o)) r = [s_ "1 2"; s_ "1 3"].
Proof.
  eexists. eexists. eexists. split; [vm_compute; reflexivity|]. split; [vm_compute; reflexivity|]. split; [vm_compute; reflexivity|].
  repeat split; vm_compute; reflexivity.
Qed.
