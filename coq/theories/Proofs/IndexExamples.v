(* C20: a small concrete library (flat fetch, identity extract/format) to run the index model on:
   the F12 refutation for the unrepaired pop_state, and witnesses that the hypotheses of the
   C20 theorems are satisfiable. *)
From Coq Require Import List Ascii String Bool Arith ZArith Lia.
From Phil Require Import Base Tree Index IndexProofs IndexInv.
Import ListNotations.

Definition cpy := obj.
Fixpoint last_def (n:str) (ks:list obj) (acc:option (list word)) : option (list word) :=
  match ks with
  | [] => acc
  | Def h ws _ :: r => last_def n r (if eqs (oname h) n then Some ws else acc)
  | _ :: r => last_def n r acc
  end.
Definition override (all:list obj) (k:obj) : obj :=
  match k with
  | Def hk ws ak => match last_def (oname hk) all None with Some ws' => Def hk ws' ak | None => k end
  | _ => k
  end.
(* flat masters: every top-level definition takes the words of the last source definition of its name *)
Definition cfetch (m:obj) (srcs:list obj) : ores obj :=
  match m with
  | Scp h ks a =>
      if tmpl_okb m then OOk (Scp h (map (override (flat_map okids srcs)) ks) a)
      else OErr (s_ "RuntimeError")
  | Def _ _ _ => OErr (s_ "RuntimeError")
  end.
Definition cextract (t:obj) : ores cpy := OOk t.
Definition cformat (m:obj) (p:cpy) : ores obj := OOk p.
Definition cok (p:cpy) : Prop := True.

Definition ty_int : attrs := [(s_ "type", AType (TyInt None None true))].
Definition root (ks:list obj) : obj := Scp (plain_hdr []) ks [].
Definition m1 : obj := root [Def (plain_hdr (s_ "a")) [uw (s_ "1")] ty_int].
Definition u2 : obj := root [Def (plain_hdr (s_ "a")) [uw (s_ "2")] []].

Definition cstep := step cpy cfetch cextract cformat m1.
Definition crun := run cpy cfetch cextract cformat m1.
Definition cinit := init cpy cfetch cextract m1.

(* push; update("a = 2"); get_python_object(); pop_state() *)
Definition hist_f12 : list (op cpy) := [Push; Update u2 None true; GetPy false; Pop].

(* F12: with the code as it is the object handed out after the pop is not the extraction of
   the working tree *)
Lemma refuted_pop_stale :
  exists s0, cinit = OOk s0 /\
  let s := crun false hist_f12 s0 in
  exists p q, snd (cstep false s (GetPy false)) = OPy p false /\ cextract (working s) = OOk q /\ p <> q.
Proof.
  eexists. split; [vm_compute; reflexivity|].
  vm_compute. eexists. eexists. split; [reflexivity|]. split; [reflexivity|]. discriminate.
Qed.

(* ... hence the invariant does not hold in that reachable state of the unrepaired machine *)
Lemma refuted_inv :
  exists s0, cinit = OOk s0 /\ ~ Inv cpy cextract cok (crun false hist_f12 s0).
Proof.
  eexists. split; [vm_compute; reflexivity|].
  intros (I1 & _). vm_compute in I1. specialize (I1 eq_refl _ eq_refl). discriminate I1.
Qed.

(* the repaired machine hands out the extraction of the working tree on the same history *)
Lemma fixed_pop_fresh :
  exists s0, cinit = OOk s0 /\
  let s := crun true hist_f12 s0 in
  exists p, snd (cstep true s (GetPy false)) = OPy p true /\ cextract (working s) = OOk p.
Proof.
  eexists. split; [vm_compute; reflexivity|].
  vm_compute. eexists. split; reflexivity.
Qed.

(* ---------- the hypotheses of the theorems are satisfiable (by this library) *)
Lemma override_tmpl : forall all k, tmpl_okb (override all k) = tmpl_okb k.
Proof.
  intros all k. destruct k as [h ws a|h ks a]; [|reflexivity].
  cbn [override]. destruct (last_def (oname h) all None); reflexivity.
Qed.

Lemma hyps_satisfiable :
  H_fmt cpy cextract cformat m1 cok /\ H_ext_ok cpy cextract cok /\ H_tmpl cfetch.
Proof.
  split; [|split].
  - intros p t _ H. inversion H; subst. reflexivity.
  - intros t p _. exact I.
  - intros m srcs t. destruct m as [h ws a|h ks a]; cbn [cfetch]; [discriminate|].
    destruct (tmpl_okb (Scp h ks a)) eqn:T; [|discriminate].
    intros H. inversion H; subst t. clear H.
    cbn [tmpl_okb ohdr] in *. apply andb_true_iff in T. destruct T as [T1 T2].
    rewrite T1. cbn [andb]. rewrite forallb_forall in *. intros x Hx.
    apply in_map_iff in Hx. destruct Hx as [k [E Hk]]. subst x. rewrite override_tmpl. apply T2. exact Hk.
Qed.

(* a history of the repaired machine on which no step breaks: reachable_inv is not vacuous *)
Definition hist_ok : list (op cpy) :=
  [Push; Update u2 None true; GetPy false; UpdateFromPython (Some m1); Pop; Pop; SetState 0; GetPy false;
   GetScopeByName (s_ "a"); MergePhil u2 None true; BadText true []].
Lemma run_ok_example : exists s0, cinit = OOk s0 /\ run_ok cpy cfetch cextract cformat m1 cok hist_ok s0.
Proof.
  eexists. split; [vm_compute; reflexivity|].
  cbn [hist_ok run_ok]. repeat split; try exact I; vm_compute; intros [].
Qed.

(* balanced histories exist: update and get between a push and its pop, with a nested push/pop *)
Lemma balanced_example :
  exists s0 s1, cinit = OOk s0 /\
  balanced cpy cfetch cextract cformat m1 true (step1 cpy cfetch cextract cformat m1 true s0 Push)
           [Update u2 None true; Push; GetPy false; Pop; GetPy false] s1 /\
  working (step1 cpy cfetch cextract cformat m1 true s1 Pop) = working s0.
Proof.
  eexists. eexists. split; [vm_compute; reflexivity|]. split.
  - eapply bal_keep; [vm_compute; reflexivity|].
    change [@Push cpy; GetPy false; Pop; GetPy false] with (@Push cpy :: [GetPy false] ++ Pop :: [GetPy false]).
    eapply bal_nest; [vm_compute; reflexivity| | ].
    + eapply bal_keep; [vm_compute; reflexivity|]. apply bal_nil.
    + eapply bal_keep; [vm_compute; reflexivity|]. apply bal_nil.
  - vm_compute. reflexivity.
Qed.

(* the re-fetch hypothesis of update_twice holds for this library on the example *)
Lemma refetch_example :
  exists s0, cinit = OOk s0 /\
  snd (cstep true s0 (Update u2 None true)) = ONone /\
  H_refetch cpy cfetch m1 s0 u2 None (working (step1 cpy cfetch cextract cformat m1 true s0 (Update u2 None true))).
Proof.
  eexists. split; [vm_compute; reflexivity|]. split; vm_compute; reflexivity.
Qed.

(* look-ups: the index of the example finds the live definition *)
Lemma lookup_example :
  exists s0 e, cinit = OOk s0 /\
  snd (cstep true (crun true [Update u2 None true] s0) (GetScopeByName (s_ "a"))) = OEntry (Some e) /\
  e = EOne [0] (Def (plain_hdr (s_ "a")) [uw (s_ "2")] ty_int).
Proof.
  eexists. eexists. split; [vm_compute; reflexivity|]. split; vm_compute; reflexivity.
Qed.
