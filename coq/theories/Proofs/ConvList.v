(* The list syntax of numbers_from_words: the bracket-stripping loop (fuel suffices, the exit
   condition holds at the result), one enclosing pair of brackets is immaterial, commas and
   semicolons are interchangeable. *)
From Coq Require Import List Ascii String Bool Arith ZArith Lia.
From Phil Require Import Base Conv.
Import ListNotations.
Local Open Scope char_scope.

(* ---------------------------------------------------------------- lengths *)
Lemma lstrip_length s : length (lstrip s) <= length s.
Proof. induction s as [|c s IH]; cbn; [lia|]. destruct (isspace c); cbn; lia. Qed.
Lemma strip_length s : length (strip s) <= length s.
Proof.
  unfold strip. rewrite rev_length. etransitivity; [apply lstrip_length|]. rewrite rev_length. apply lstrip_length.
Qed.
Lemma removelast_length {A} (l:list A) : length (removelast l) <= length l.
Proof. induction l as [|a l IH]; cbn; [lia|]. destruct l; cbn in *; lia. Qed.
Lemma mid_length s : s <> [] -> length (mid s) < length s.
Proof. destruct s as [|c r]; [congruence|]. intros _. unfold mid; cbn [tl length]. pose proof (removelast_length r). lia. Qed.
Lemma starts_nonempty o s : starts o s = true -> s <> [].
Proof. destruct s; cbn; [discriminate|congruence]. Qed.

(* one rewriting step of the loop, whichever pair applies *)
Definition brk (o c:ascii) (s:str) : bool := starts o s && ends c s.
Definition step (s:str) : option str :=
  if brk "(" ")" s || brk "[" "]" s then Some (strip (mid s)) else None.

Lemma step_shorter s s' : step s = Some s' -> length s' < length s.
Proof.
  unfold step, brk. destruct (_ || _) eqn:E; [|discriminate]. intro H; injection H as <-.
  assert (s <> []).
  { apply orb_true_iff in E as [E|E]; apply andb_true_iff in E as [E _]; eapply starts_nonempty; eassumption. }
  pose proof (strip_length (mid s)). pose proof (mid_length s H). lia.
Qed.

Inductive steps : str -> str -> Prop :=
  | st_refl s : steps s s
  | st_step s s' t : step s = Some s' -> steps s' t -> steps s t.

Lemma steps_trans a b c : steps a b -> steps b c -> steps a c.
Proof. induction 1; auto. intros. econstructor; eauto. Qed.

Lemma steps_nf_unique s a b : steps s a -> step a = None -> steps s b -> step b = None -> a = b.
Proof.
  intros Ha. revert b. induction Ha as [s|s s' t E Ha IH]; intros b Na Hb Nb.
  - inversion Hb; subst; [reflexivity | congruence].
  - inversion Hb; subst; [congruence|].
    assert (s' = s'0) by congruence. subst. eauto.
Qed.

(* ---------------------------------------------------------------- strip_pair *)
Definition is_pair (o c:ascii) : Prop := (o = "(" /\ c = ")") \/ (o = "[" /\ c = "]").

Lemma brk_step o c s : is_pair o c -> brk o c s = true -> step s = Some (strip (mid s)).
Proof. unfold step. intros [[-> ->]|[-> ->]] ->; [reflexivity | rewrite orb_true_r; reflexivity]. Qed.

Lemma strip_pair_steps o c : is_pair o c -> forall f s, steps s (fst (strip_pair o c f s)).
Proof.
  intros P. induction f as [|f IH]; intros s; cbn [strip_pair]; [constructor|].
  fold (brk o c s). destruct (brk o c s) eqn:E; cbn [fst]; [|constructor].
  econstructor; [eapply brk_step; eassumption | apply IH].
Qed.

Lemma strip_pair_len o c : forall f s,
  length (fst (strip_pair o c f s)) <= length s /\
  (snd (strip_pair o c f s) = true -> length (fst (strip_pair o c f s)) < length s).
Proof.
  induction f as [|f IH]; intros s; cbn [strip_pair]; [cbn; split; [lia|discriminate]|].
  destruct (starts o s && ends c s) eqn:E; cbn [fst snd]; [|split; [lia|discriminate]].
  apply andb_true_iff in E as [E _]. pose proof (mid_length s (starts_nonempty _ _ E)).
  pose proof (strip_length (mid s)). destruct (IH (strip (mid s))) as [L _]. split; [lia|intros _; lia].
Qed.

(* flag false: nothing changed and (given fuel) the pair does not apply *)
Lemma strip_pair_false o c f s :
  snd (strip_pair o c f s) = false -> length s <= f -> fst (strip_pair o c f s) = s /\ brk o c s = false.
Proof.
  destruct f as [|f]; cbn [strip_pair].
  - intros _ L. destruct s; [|cbn in L; lia]. split; reflexivity.
  - unfold brk. destruct (starts o s && ends c s); cbn [fst snd]; [discriminate|]. auto.
Qed.

(* fuel: any amount not below the length gives the same result *)
Lemma strip_pair_fuel o c : forall f1 f2 s,
  length s <= f1 -> length s <= f2 -> strip_pair o c f1 s = strip_pair o c f2 s.
Proof.
  induction f1 as [|f1 IH]; intros f2 s L1 L2.
  - destruct s; [|cbn in L1; lia]. destruct f2; reflexivity.
  - destruct f2 as [|f2].
    + destruct s; [|cbn in L2; lia]. reflexivity.
    + cbn [strip_pair]. destruct (starts o s && ends c s) eqn:E; [|reflexivity].
      apply andb_true_iff in E as [E _]. pose proof (mid_length s (starts_nonempty _ _ E)).
      pose proof (strip_length (mid s)). rewrite (IH f2 (strip (mid s))) by lia. reflexivity.
Qed.

(* ---------------------------------------------------------------- unbracket *)
Lemma unbracket_unfold f s :
  unbracket (S f) s =
    let p1 := strip_pair "(" ")" (length s) s in
    let p2 := strip_pair "[" "]" (length (fst p1)) (fst p1) in
    if snd p1 || snd p2 then unbracket f (fst p2) else fst p2.
Proof.
  cbn [unbracket]. destruct (strip_pair "(" ")" (length s) s) as [s1 b1]. cbn [fst snd].
  destruct (strip_pair "[" "]" (length s1) s1) as [s2 b2]. reflexivity.
Qed.

Lemma pair_paren : is_pair "(" ")". Proof. left; auto. Qed.
Lemma pair_brack : is_pair "[" "]". Proof. right; auto. Qed.

Lemma unbracket_steps : forall f s, steps s (unbracket f s).
Proof.
  induction f as [|f IH]; intros s; [constructor|]. rewrite unbracket_unfold. cbv zeta.
  set (p1 := strip_pair "(" ")" (length s) s). set (p2 := strip_pair "[" "]" (length (fst p1)) (fst p1)).
  assert (steps s (fst p2)).
  { eapply steps_trans; [apply (strip_pair_steps _ _ pair_paren) | apply (strip_pair_steps _ _ pair_brack)]. }
  destruct (snd p1 || snd p2); [eapply steps_trans; eauto | assumption].
Qed.

(* with fuel above the length the loop has really terminated: its exit condition holds *)
Lemma unbracket_normal : forall f s, length s < f -> step (unbracket f s) = None.
Proof.
  induction f as [|f IH]; intros s L; [lia|]. rewrite unbracket_unfold. cbv zeta.
  set (p1 := strip_pair "(" ")" (length s) s). set (p2 := strip_pair "[" "]" (length (fst p1)) (fst p1)).
  destruct (strip_pair_len "(" ")" (length s) s) as [L1 L1']. fold p1 in L1, L1'.
  destruct (strip_pair_len "[" "]" (length (fst p1)) (fst p1)) as [L2 L2']. fold p2 in L2, L2'.
  destruct (snd p1) eqn:B1; cbn [orb].
  - apply IH. specialize (L1' eq_refl). lia.
  - destruct (snd p2) eqn:B2.
    + apply IH. specialize (L2' eq_refl). lia.
    + destruct (strip_pair_false _ _ _ _ B1 (le_n _)) as [E1 N1]. fold p1 in E1.
      destruct (strip_pair_false _ _ _ _ B2 (le_n _)) as [E2 N2]. fold p2 in E2.
      rewrite E2, E1. rewrite E1 in N2. unfold step. rewrite N1, N2. reflexivity.
Qed.

Lemma unbracket_fuel f1 f2 s : length s < f1 -> length s < f2 -> unbracket f1 s = unbracket f2 s.
Proof.
  intros L1 L2. eapply steps_nf_unique; [apply unbracket_steps | apply unbracket_normal; assumption
                                        | apply unbracket_steps | apply unbracket_normal; assumption].
Qed.

(* the text handed to the splitter *)
Definition unbr (s:str) : str := unbracket (S (length s)) s.

Lemma unbr_step s s' : step s = Some s' -> unbr s = unbr s'.
Proof.
  intro E. unfold unbr. eapply steps_nf_unique.
  - apply unbracket_steps.
  - apply unbracket_normal; lia.
  - econstructor; [exact E | apply unbracket_steps].
  - apply unbracket_normal; lia.
Qed.

Lemma ends_app c s : ends c (s ++ [c]) = true.
Proof. unfold ends. rewrite rev_app_distr. cbn. apply Ascii.eqb_refl. Qed.
Lemma mid_wrap o c s : mid (o :: s ++ [c]) = s.
Proof. unfold mid. cbn [tl]. apply removelast_last. Qed.

Lemma unbr_wrap o c s : is_pair o c -> unbr (o :: s ++ [c]) = unbr (strip s).
Proof.
  intro P. apply unbr_step. rewrite <- (mid_wrap o c s) at 2.
  apply (brk_step o c); [exact P|]. unfold brk. cbn [starts]. rewrite Ascii.eqb_refl.
  change (o :: s ++ [c]) with ((o :: s) ++ [c]). apply ends_app.
Qed.

Lemma list_tokens_wrap o c s : is_pair o c -> list_tokens (o :: s ++ [c]) = list_tokens (strip s).
Proof. intro P. unfold list_tokens. fold (unbr (o :: s ++ [c])). fold (unbr (strip s)). rewrite (unbr_wrap o c s P). reflexivity. Qed.

(* ---------------------------------------------------------------- separators *)
Definition is_sep (c:ascii) : bool := Ascii.eqb c "," || Ascii.eqb c ";".
(* g only moves separators among themselves *)
Definition sep_preserving (g:ascii -> ascii) : Prop :=
  forall x, (is_sep x = true -> is_sep (g x) = true) /\ (is_sep x = false -> g x = x).

Lemma is_sep_cases x : is_sep x = true -> x = "," \/ x = ";".
Proof. unfold is_sep. intro H. apply orb_true_iff in H as [H|H]; apply Ascii.eqb_eq in H; auto. Qed.

Section SepMap.
  Variable g : ascii -> ascii.
  Hypothesis G : sep_preserving g.

  Lemma g_cases x : g x = x \/ ((x = "," \/ x = ";") /\ (g x = "," \/ g x = ";")).
  Proof.
    destruct (G x) as [G1 G2]. destruct (is_sep x) eqn:E.
    - right. split; apply is_sep_cases; auto.
    - left; auto.
  Qed.
  Lemma g_space x : isspace (g x) = isspace x.
  Proof. destruct (g_cases x) as [->|[[-> | ->] [-> | ->]]]; reflexivity. Qed.
  Lemma g_sepfix x : sepfix (g x) = sepfix x.
  Proof. destruct (g_cases x) as [->|[[-> | ->] [-> | ->]]]; reflexivity. Qed.
  Lemma g_eqb x o : is_sep o = false -> Ascii.eqb (g x) o = Ascii.eqb x o.
  Proof.
    intro No. destruct (g_cases x) as [->|[[-> | ->] [-> | ->]]]; try reflexivity;
      unfold is_sep in No; apply orb_false_iff in No as [N1 N2];
      rewrite ?(Ascii.eqb_sym "," o), ?(Ascii.eqb_sym ";" o), ?N1, ?N2; reflexivity.
  Qed.

  Lemma lstrip_map s : lstrip (map g s) = map g (lstrip s).
  Proof. induction s as [|c s IH]; cbn; [reflexivity|]. rewrite g_space. destruct (isspace c); [exact IH|reflexivity]. Qed.
  Lemma strip_map s : strip (map g s) = map g (strip s).
  Proof. unfold strip. rewrite lstrip_map, <- map_rev, lstrip_map, <- map_rev. reflexivity. Qed.
  Lemma removelast_map {A B} (h:A -> B) l : removelast (map h l) = map h (removelast l).
  Proof. induction l as [|a l IH]; cbn; [reflexivity|]. destruct l; cbn in *; [reflexivity|]. f_equal. exact IH. Qed.
  Lemma mid_map s : mid (map g s) = map g (mid s).
  Proof. unfold mid. destruct s; cbn [map tl]; [reflexivity|]. apply removelast_map. Qed.
  Lemma starts_map o s : is_sep o = false -> starts o (map g s) = starts o s.
  Proof. intro No. destruct s; cbn; [reflexivity|]. apply g_eqb; assumption. Qed.
  Lemma ends_map o s : is_sep o = false -> ends o (map g s) = ends o s.
  Proof. intro No. unfold ends. rewrite <- map_rev. apply starts_map; assumption. Qed.

  Lemma strip_pair_map o c : is_sep o = false -> is_sep c = false -> forall f s,
    strip_pair o c f (map g s) = (map g (fst (strip_pair o c f s)), snd (strip_pair o c f s)).
  Proof.
    intros No Nc. induction f as [|f IH]; intros s; cbn [strip_pair]; [reflexivity|].
    rewrite (starts_map o s No), (ends_map c s Nc).
    destruct (starts o s && ends c s); cbn [fst snd]; [|reflexivity].
    rewrite mid_map, strip_map, IH. reflexivity.
  Qed.

  Lemma unbracket_map : forall f s, unbracket f (map g s) = map g (unbracket f s).
  Proof.
    induction f as [|f IH]; intros s; [reflexivity|]. rewrite !unbracket_unfold. cbv zeta.
    rewrite map_length. rewrite (strip_pair_map "(" ")" eq_refl eq_refl). cbn [fst snd].
    rewrite map_length. rewrite (strip_pair_map "[" "]" eq_refl eq_refl). cbn [fst snd].
    destruct (_ || _); [apply IH | reflexivity].
  Qed.

  Lemma list_tokens_map s : list_tokens (map g s) = list_tokens s.
  Proof.
    unfold list_tokens. rewrite map_length, unbracket_map, map_map.
    f_equal. apply map_ext. intro x. apply g_sepfix.
  Qed.
End SepMap.

(* the two obvious instances *)
Definition comma_to_semicolon (c:ascii) : ascii := if Ascii.eqb c "," then ";" else c.
Definition semicolon_to_comma (c:ascii) : ascii := if Ascii.eqb c ";" then "," else c.
Lemma comma_to_semicolon_ok : sep_preserving comma_to_semicolon.
Proof.
  intro x. unfold comma_to_semicolon. split; intro H.
  - destruct (Ascii.eqb x ","); [reflexivity | exact H].
  - unfold is_sep in H. apply orb_false_iff in H as [H _]. rewrite H. reflexivity.
Qed.
Lemma semicolon_to_comma_ok : sep_preserving semicolon_to_comma.
Proof.
  intro x. unfold semicolon_to_comma. split; intro H.
  - destruct (Ascii.eqb x ";"); [reflexivity | exact H].
  - unfold is_sep in H. apply orb_false_iff in H as [_ H]. rewrite H. reflexivity.
Qed.

Section Texts.
  Variable pyeval : str -> option evr.
  Lemma numbers_of_text_wrap ws o c s :
    is_pair o c -> numbers_of_text pyeval ws (o :: s ++ [c]) = numbers_of_text pyeval ws (strip s).
  Proof. intro P. unfold numbers_of_text. rewrite (list_tokens_wrap o c s P). reflexivity. Qed.
  Lemma numbers_of_text_sep ws g s :
    sep_preserving g -> numbers_of_text pyeval ws (map g s) = numbers_of_text pyeval ws s.
  Proof. intro G. unfold numbers_of_text. rewrite (list_tokens_map g G s). reflexivity. Qed.
End Texts.
