(* C15 lifted to the parser model: every object, value word and token-citing error produced by
   [parse] carries the 1-based line of the input on which the corresponding source word starts.

   Vocabulary
     pos_ok inp s line     the reader state (s, line) is consistent with the input: s is a suffix of
                           inp and line = 1 + number of newlines before it.
     pos_ok_e inp s line   consistent, or exhausted (s = []).  The model (like the Python iterator) does
                           not advance the line counter over trailing blanks when it reports the end of
                           the input, so an exhausted reader may carry a stale line; nothing is ever
                           read or reported from an exhausted reader (see [caw_end_stale]).
     word_placed inp w     inp = pre ++ body ++ rest, wline w = 1 + count_nl pre, and body is the source
                           text of w: non-empty, starts with the opening quote token of w, and is
                           exactly the value when w is unquoted. *)
From Coq Require Import List Ascii String Bool Arith ZArith Lia.
From Phil Require Import Base Tokenizer Tree Parser LexProofs.
Import ListNotations.
Local Open Scope char_scope.

(* ====================================================================== *)
(* 0. vocabulary                                                           *)
(* ====================================================================== *)
Definition pos_ok (inp s:str) (line:nat) : Prop :=
  exists pre, inp = pre ++ s /\ line = 1 + count_nl pre.
Definition pos_ok_e (inp s:str) (line:nat) : Prop := s = [] \/ pos_ok inp s line.

Definition word_src (w:word) (body:str) : Prop :=
  body <> [] /\ exists tl, body = qtoken (wq w) ++ tl /\ (wq w = QN -> tl = wv w).
Definition word_placed (inp:str) (w:word) : Prop :=
  exists pre body rest, inp = pre ++ body ++ rest /\ wline w = 1 + count_nl pre /\ word_src w body.

Definition suffix (a b:str) : Prop := exists p, b = p ++ a.

Lemma suffix_refl a : suffix a a.
Proof. exists []. reflexivity. Qed.
Lemma suffix_trans a b c : suffix a b -> suffix b c -> suffix a c.
Proof. intros [p ->] [q ->]. exists (q ++ p). rewrite app_assoc. reflexivity. Qed.
Lemma suffix_cons a b c : suffix a b -> suffix a (c :: b).
Proof. intros [p ->]. exists (c :: p). reflexivity. Qed.

Lemma pos_ok_start inp : pos_ok inp inp 1.
Proof. exists []. split; reflexivity. Qed.
Lemma pos_ok_weak inp s line : pos_ok inp s line -> pos_ok_e inp s line.
Proof. intros H; right; exact H. Qed.
Lemma pos_ok_app inp c r line : pos_ok inp (c ++ r) line -> pos_ok inp r (line + count_nl c).
Proof.
  intros (pre & Hi & Hl). exists (pre ++ c). split; [rewrite <- app_assoc; exact Hi|].
  rewrite Hl. cnt.
Qed.
Lemma pos_ok_skip inp c r line : count_nl c = 0 -> pos_ok inp (c ++ r) line -> pos_ok inp r line.
Proof. intros Hc H. apply pos_ok_app in H. rewrite Hc, Nat.add_0_r in H. exact H. Qed.
Lemma pos_ok_nl inp r line : pos_ok inp (nl :: r) line -> pos_ok inp r (S line).
Proof.
  intros H. change (nl :: r) with ([nl] ++ r) in H. apply pos_ok_app in H.
  change (count_nl [nl]) with 1 in H. rewrite Nat.add_1_r in H. exact H.
Qed.
Lemma pos_ok_char inp c r line : Ascii.eqb c nl = false -> pos_ok inp (c :: r) line -> pos_ok inp r line.
Proof.
  intros Hc H. apply (pos_ok_skip inp [c] r line); [|exact H].
  cnt. rewrite (nlc_not_nl _ Hc). reflexivity.
Qed.

Lemma word_placed_range inp w : word_placed inp w -> 1 <= wline w <= 1 + count_nl inp.
Proof. intros (pre & body & rest & Hi & Hl & _). rewrite Hi, Hl. cnt. Qed.

(* ====================================================================== *)
(* 1. the tokenizer, from a consistent position                            *)
(* ====================================================================== *)
Lemma quoted_word_src : forall triple c body line1 w r l', Ascii.eqb c nl = false ->
  quoted_word triple c body line1 = TWord w r l' ->
  wline w = line1
  /\ wq w = (if triple then (if Ascii.eqb c dq then Q3d else Q3s) else (if Ascii.eqb c dq then Q2 else Q1))
  /\ exists pre, body = pre ++ r /\ l' = line1 + count_nl pre.
Proof.
  intros triple c body line1 w r l' Hcn H. unfold quoted_word in H.
  destruct (scan triple c body line1) as [[[v r1] l1]|] eqn:E; [|discriminate].
  inversion H; subst. split; [reflexivity|]. split; [reflexivity|].
  eapply scan_lines; [exact Hcn|exact E].
Qed.

(* nw_lines with the source text of the word characterised *)
Theorem nw_lines_src : forall σ ic s line w r l',
  nw σ ic s line = TWord w r l' ->
  exists pre body, s = pre ++ body ++ r
                   /\ wline w = line + count_nl pre
                   /\ l' = line + count_nl (pre ++ body)
                   /\ word_src w body.
Proof.
  intros σ ic s; revert ic; induction s as [|c s IH]; intros ic line w r l' H.
  - discriminate.
  - cbn [nw] in H.
    assert (Hrec : forall ic', nw σ ic' s (bump c line) = TWord w r l' ->
              exists pre body, c :: s = pre ++ body ++ r /\ wline w = line + count_nl pre
                               /\ l' = line + count_nl (pre ++ body) /\ word_src w body).
    { intros ic' H'. destruct (IH _ _ _ _ _ H') as (pre & body & Hs & Hw & Hl & Hb).
      exists (c :: pre), body. split; [cbn; f_equal; exact Hs|].
      cnt. split; [lia|]. split; [lia|exact Hb]. }
    destruct ic; [eapply Hrec; exact H|].
    destruct (isspace c) eqn:Esp; [eapply Hrec; exact H|].
    match type of H with (if ?b then _ else _) = _ => destruct b end; [eapply Hrec; exact H|].
    pose proof (not_space_not_nl _ Esp) as Hnl.
    assert (Hb : bump c line = line) by (unfold bump; rewrite Hnl; reflexivity).
    rewrite Hb in H.
    destruct (Ascii.eqb c dq || Ascii.eqb c sq) eqn:Eq.
    + assert (Hq : forall (triple:bool) (body:str), s = (if triple then [c;c] else []) ++ body ->
                quoted_word triple c body line = TWord w r l' ->
                exists pre body0, c :: s = pre ++ body0 ++ r /\ wline w = line + count_nl pre
                                  /\ l' = line + count_nl (pre ++ body0) /\ word_src w body0).
      { intros triple body Hs Hqw.
        destruct (quoted_word_src _ _ _ _ _ _ _ Hnl Hqw) as (Hw & Hwq & pre & Hp & Hl).
        exists [], (c :: (if triple then [c;c] else []) ++ pre).
        split; [cbn [app]; f_equal; rewrite Hs, Hp, <- app_assoc; reflexivity|].
        split; [cbn [count_nl]; lia|].
        split.
        { cbn [app]. rewrite Hl. destruct triple; cnt; rewrite ?(nlc_not_nl _ Hnl); lia. }
        split; [discriminate|]. exists pre. rewrite Hwq.
        destruct (Ascii.eqb c dq) eqn:Ed.
        - apply Ascii.eqb_eq in Ed; subst c. destruct triple; (split; [reflexivity|discriminate]).
        - cbn [orb] in Eq. apply Ascii.eqb_eq in Eq; subst c. destruct triple; (split; [reflexivity|discriminate]). }
      destruct s as [|q1 [|q2 s']].
      * eapply (Hq false []); [reflexivity|exact H].
      * eapply (Hq false [q1]); [reflexivity|exact H].
      * destruct (Ascii.eqb q1 c && Ascii.eqb q2 c) eqn:E2.
        -- apply andb_prop in E2 as [E21 E22]. apply Ascii.eqb_eq in E21, E22. subst q1 q2.
           eapply (Hq true s'); [reflexivity|exact H].
        -- eapply (Hq false (q1 :: q2 :: s')); [reflexivity|exact H].
    + match type of H with (if ?b then _ else _) = _ => destruct b end.
      * destruct (take σ s) as [w0 r0] eqn:Et. inversion H; subst.
        destruct (take_split _ _ _ _ Et) as [Hs Hc].
        exists [], (c :: w0). split; [cbn; f_equal; exact Hs|].
        cbn [app wline wq wv]. cnt. rewrite (nlc_not_nl _ Hnl), Hc.
        split; [lia|]. split; [lia|]. split; [discriminate|].
        exists (c :: w0). split; [reflexivity|intros _; reflexivity].
      * inversion H; subst. exists [], [c]. split; [reflexivity|].
        cbn [app wline wq wv]. cnt. rewrite (nlc_not_nl _ Hnl).
        split; [lia|]. split; [lia|]. split; [discriminate|].
        exists [c]. split; [reflexivity|intros _; reflexivity].
Qed.

(* item 1a: reading a word from a consistent position *)
Theorem nw_pos : forall inp σ ic s line w r l',
  pos_ok inp s line -> nw σ ic s line = TWord w r l' ->
  pos_ok inp r l' /\ word_placed inp w.
Proof.
  intros inp σ ic s line w r l' (pre0 & Hi & Hl) H.
  destruct (nw_lines_src _ _ _ _ _ _ _ H) as (pre & body & Hs & Hw & Hl' & Hb).
  split.
  - exists (pre0 ++ pre ++ body). split; [rewrite Hi, Hs, <- !app_assoc; reflexivity|].
    rewrite Hl', Hl. cnt.
  - exists (pre0 ++ pre), body, r. split; [rewrite Hi, Hs, <- app_assoc; reflexivity|].
    split; [rewrite Hw, Hl; cnt|exact Hb].
Qed.

(* item 1b: a missing closing quote is reported at the last line of the input *)
Theorem nw_err_pos : forall inp σ ic s line l,
  pos_ok inp s line -> nw σ ic s line = TErrQuote l -> l = 1 + count_nl inp.
Proof.
  intros inp σ ic s line l (pre0 & Hi & Hl) H.
  rewrite (nw_err_line _ _ _ _ _ H), Hi, Hl. cnt.
Qed.

Lemma nw_nil σ ic line : nw σ ic [] line = TEnd.
Proof. reflexivity. Qed.

Theorem nw_pos_e : forall inp σ ic s line w r l',
  pos_ok_e inp s line -> nw σ ic s line = TWord w r l' ->
  pos_ok inp r l' /\ word_placed inp w.
Proof.
  intros inp σ ic s line w r l' [->|Hp] H; [discriminate H|]. eapply nw_pos; eassumption.
Qed.
Theorem nw_err_pos_e : forall inp σ ic s line l,
  pos_ok_e inp s line -> nw σ ic s line = TErrQuote l -> l = 1 + count_nl inp.
Proof.
  intros inp σ ic s line l [->|Hp] H; [discriminate H|]. eapply nw_err_pos; eassumption.
Qed.

(* ====================================================================== *)
(* 2. the off-region scanner counts every newline it passes                *)
(* ====================================================================== *)
Lemma skip_nonspace_split : forall s, exists c, s = c ++ skip_nonspace s /\ count_nl c = 0.
Proof.
  induction s as [|c s (c0 & Hs & Hc)]; [exists []; split; reflexivity|].
  cbn [skip_nonspace]. destruct (isspace c) eqn:Es.
  - exists []. split; reflexivity.
  - exists (c :: c0). split; [cbn [app]; f_equal; exact Hs|].
    cnt. rewrite (nlc_not_nl _ (not_space_not_nl _ Es)), Hc. reflexivity.
Qed.
Lemma skip_space_split : forall s, exists c, s = c ++ skip_space s /\ count_nl c = 0.
Proof.
  induction s as [|c s (c0 & Hs & Hc)]; [exists []; split; reflexivity|].
  cbn [skip_space]. destruct (isspace c && negb (Ascii.eqb c nl)) eqn:Es.
  - apply andb_prop in Es as [_ En]. apply negb_true_iff in En.
    exists (c :: c0). split; [cbn [app]; f_equal; exact Hs|].
    cnt. rewrite (nlc_not_nl _ En), Hc. reflexivity.
  - exists []. split; reflexivity.
Qed.
Lemma prefixb_split : forall p s, prefixb p s = true -> s = p ++ drop (length p) s.
Proof.
  induction p as [|a p IH]; intros s H; [reflexivity|].
  destruct s as [|b s]; [discriminate H|].
  cbn [prefixb] in H. apply andb_prop in H as [Hab Hp]. apply Ascii.eqb_eq in Hab; subst b.
  cbn [length drop app]. f_equal. apply IH; exact Hp.
Qed.
Lemma after_followup_split : forall s line r l b,
  after_followup s line = (r, l, b) -> exists c, s = c ++ r /\ l = line + count_nl c.
Proof.
  induction s as [|c s IH]; intros line r l b H; cbn [after_followup] in H.
  - inversion H; subst. exists []. split; [reflexivity|cbn; lia].
  - destruct (Ascii.eqb c nl) eqn:En.
    + inversion H; subst. exists [c]. split; [reflexivity|]. cnt. rewrite (nlc_nl _ En). lia.
    + destruct (isspace c).
      * destruct (IH _ _ _ _ H) as (c0 & Hs & Hl). exists (c :: c0).
        split; [cbn [app]; f_equal; exact Hs|]. cnt. rewrite (nlc_not_nl _ En). lia.
      * inversion H; subst. exists [c]. split; [reflexivity|]. cnt. rewrite (nlc_not_nl _ En). lia.
Qed.
Lemma after_followup_pos : forall inp s line r l b,
  pos_ok inp s line -> after_followup s line = (r, l, b) -> pos_ok inp r l.
Proof.
  intros inp s line r l b Hp H. destruct (after_followup_split _ _ _ _ _ H) as (c & -> & ->).
  apply pos_ok_app; exact Hp.
Qed.
Lemma prefix_drop_pos : forall inp p s line,
  count_nl p = 0 -> prefixb p s = true -> pos_ok inp s line -> pos_ok inp (drop (length p) s) line.
Proof.
  intros inp p s line Hc Hpre Hp. rewrite (prefixb_split _ _ Hpre) in Hp.
  eapply pos_ok_skip; eassumption.
Qed.

Definition res_pos (inp:str) (x : str * nat * option nat) : Prop := pos_ok inp (fst (fst x)) (snd (fst x)).

(* the newline-run part, for any continuation that keeps positions consistent.
   [hd nl t = nl]: the run is entered on a newline character (or at the end of the input). *)
Lemma nlrun_pos : forall inp (k:str -> nat -> str * nat * option nat),
  (forall t ln, pos_ok inp t ln -> res_pos inp (k t ln)) ->
  forall g t ln, pos_ok inp t ln -> hd nl t = nl -> res_pos inp (nlrun k g t ln).
Proof.
  intros inp k Hk g; induction g as [|g IH]; intros t ln Hp Hhd; cbn [nlrun]; [exact Hp|].
  destruct t as [|c0 t1]; [exact Hp|].
  cbn [hd] in Hhd; subst c0. apply pos_ok_nl in Hp.
  destruct t1 as [|d t1']; [exact Hp|].
  destruct (Ascii.eqb d nl) eqn:Ed.
  - apply IH; [exact Hp|]. cbn [hd]. apply Ascii.eqb_eq; exact Ed.
  - destruct (negb (prefixb intro (d :: t1'))) eqn:Ei.
    + apply Hk. cbn [drop]. eapply pos_ok_char; eassumption.
    + apply negb_false_iff in Ei.
      pose proof (prefix_drop_pos inp intro _ _ eq_refl Ei Hp) as H2.
      set (t2 := drop (length intro) (d :: t1')) in *.
      destruct (skip_nonspace_split t2) as (c3 & E3 & Hc3).
      assert (H3 : pos_ok inp (skip_nonspace t2) (S ln)).
      { rewrite E3 in H2. eapply pos_ok_skip; eassumption. }
      destruct (skip_nonspace t2) as [|c3' t3'] eqn:E3'; [exact H3|].
      destruct (skip_space_split (c3' :: t3')) as (c4 & E4 & Hc4).
      assert (H4 : pos_ok inp (skip_space (c3' :: t3')) (S ln)).
      { rewrite E4 in H3. eapply pos_ok_skip; eassumption. }
      destruct (skip_space (c3' :: t3')) as [|c4' t4'] eqn:E4'; [exact H4|].
      destruct (prefixb f_end (c4' :: t4')) eqn:Ee.
      * pose proof (prefix_drop_pos inp f_end _ _ eq_refl Ee H4) as H5.
        destruct (after_followup (drop (length f_end) (c4' :: t4')) (S ln)) as [[t5 ln5] ret] eqn:E5.
        pose proof (after_followup_pos _ _ _ _ _ _ H5 E5) as H6.
        destruct ret; [exact H6|apply Hk; exact H6].
      * destruct (prefixb f_on (c4' :: t4')) eqn:Eo.
        -- pose proof (prefix_drop_pos inp f_on _ _ eq_refl Eo H4) as H5.
           destruct (after_followup (drop (length f_on) (c4' :: t4')) (S ln)) as [[t5 ln5] ret] eqn:E5.
           pose proof (after_followup_pos _ _ _ _ _ _ H5 E5) as H6.
           destruct ret; [exact H6|apply Hk; exact H6].
        -- apply Hk; exact H4.
Qed.

Lemma sfs_res_pos : forall inp fuel s line, pos_ok inp s line -> res_pos inp (sfs fuel s line).
Proof.
  intros inp fuel; induction fuel as [|f IH]; intros s line Hp; cbn [sfs]; [exact Hp|].
  destruct s as [|c r]; [exact Hp|].
  destruct (negb (Ascii.eqb c nl)) eqn:En.
  - apply negb_true_iff in En. apply IH. eapply pos_ok_char; eassumption.
  - apply negb_false_iff in En. apply nlrun_pos; [exact IH|exact Hp|].
    cbn [hd]. apply Ascii.eqb_eq; exact En.
Qed.

(* item 2 *)
Theorem sfs_pos : forall inp fuel s line r l' fu,
  pos_ok inp s line -> sfs fuel s line = (r, l', fu) -> pos_ok inp r l'.
Proof.
  intros inp fuel s line r l' fu Hp H. pose proof (sfs_res_pos inp fuel s line Hp) as Hr.
  rewrite H in Hr. exact Hr.
Qed.

(* ====================================================================== *)
(* 3. collect_assigned_words                                               *)
(* ====================================================================== *)
(* item 3, Ok outcome.  The returned position is consistent-or-exhausted (see the header: at the
   end of the input the reader keeps the line of the last token, [caw_end_stale] below). *)
Theorem caw_pos : forall inp fuel s line hc last acc lead ws s' l',
  pos_ok_e inp s line -> caw fuel s line hc last acc lead = Ok (ws, s', l') ->
  pos_ok_e inp s' l'
  /\ (Forall (word_placed inp) acc -> Forall (word_placed inp) ws)
  /\ ws <> [].
Proof.
  intros inp; induction fuel as [|f IH]; intros s line hc last acc lead ws s' l' Hp H; [discriminate H|].
  cbn [caw] in H.
  assert (Hfin : forall s0 l0, pos_ok_e inp s0 l0 ->
     (match acc with [] => E "MissingValue" (str_of_word lead) (wline lead) | _ => Ok (rev acc, s0, l0) end)
       = Ok (ws, s', l') ->
     pos_ok_e inp s' l' /\ (Forall (word_placed inp) acc -> Forall (word_placed inp) ws) /\ ws <> []).
  { intros s0 l0 Hs Hm. destruct acc as [|a acc']; [discriminate Hm|].
    injection Hm as Hws Hs' Hl'. subst ws s' l'. split; [exact Hs|].
    change (rev acc' ++ [a]) with (rev (a :: acc')). split; [intros Ha; apply Forall_rev; exact Ha|].
    intros Hc. apply (f_equal (@length word)) in Hc. rewrite rev_length in Hc. discriminate Hc. }
  destruct (nw s1 false s line) as [|w r l|l] eqn:En.
  - apply (Hfin [] line); [left; reflexivity|exact H].
  - destruct (nw_pos_e _ _ _ _ _ _ _ _ Hp En) as [Hr Hw].
    assert (Hrec1 : forall hc' last', caw f r l hc' last' acc lead = Ok (ws, s', l') ->
       pos_ok_e inp s' l' /\ (Forall (word_placed inp) acc -> Forall (word_placed inp) ws) /\ ws <> []).
    { intros hc' last' Hc. eapply IH; [right; exact Hr|exact Hc]. }
    assert (Hrec2 : forall hc' last', caw f r l hc' last' (w :: acc) lead = Ok (ws, s', l') ->
       pos_ok_e inp s' l' /\ (Forall (word_placed inp) acc -> Forall (word_placed inp) ws) /\ ws <> []).
    { intros hc' last' Hc. destruct (IH _ _ _ _ _ _ _ _ _ (or_intror Hr) Hc) as (H1 & H2 & H3).
      split; [exact H1|]. split; [intros Ha; apply H2; constructor; assumption|exact H3]. }
    destruct (negb hc && negb (isq w) && (is1 w "{" || is1 w "}" || is1 w ";" || is1 w "#")).
    + destruct (is1 w ";"); [eapply Hfin; [right; exact Hr|exact H]|].
      destruct (negb (is1 w "#")); [eapply Hfin; [exact Hp|exact H]|eapply Hrec1; exact H].
    + destruct (isq w || weq last [bs]).
      * destruct (hc || (negb (isq w) && is1 w bs)); [eapply Hrec1; exact H|eapply Hrec2; exact H].
      * destruct (negb (wline w =? wline last)%nat); [eapply Hfin; [exact Hp|exact H]|].
        destruct (hc || is1 w bs); [eapply Hrec1; exact H|eapply Hrec2; exact H].
  - discriminate H.
Qed.

(* item 3, error outcomes: a missing closing quote cites the last line of the input; a missing
   value cites the (text and line of the) lead word handed in *)
Theorem caw_err : forall inp fuel s line hc last acc lead k t l,
  pos_ok_e inp s line -> caw fuel s line hc last acc lead = UErr k t l ->
  (k = s_ "MissingClosingQuote" /\ l = 1 + count_nl inp)
  \/ (k = s_ "MissingValue" /\ t = str_of_word lead /\ l = wline lead).
Proof.
  intros inp; induction fuel as [|f IH]; intros s line hc last acc lead k t l Hp H; [discriminate H|].
  cbn [caw] in H.
  assert (Hfin : forall (s0:str) (l0:nat),
     (match acc with [] => E "MissingValue" (str_of_word lead) (wline lead) | _ => Ok (rev acc, s0, l0) end)
       = UErr k t l ->
     (k = s_ "MissingClosingQuote" /\ l = 1 + count_nl inp)
     \/ (k = s_ "MissingValue" /\ t = str_of_word lead /\ l = wline lead)).
  { intros s0 l0 Hm. destruct acc as [|a acc']; [|discriminate Hm].
    unfold E in Hm. inversion Hm; subst. right. repeat split. }
  destruct (nw s1 false s line) as [|w r l0|l0] eqn:En.
  - eapply Hfin; exact H.
  - destruct (nw_pos_e _ _ _ _ _ _ _ _ Hp En) as [Hr Hw].
    assert (Hrec : forall hc' last' acc', caw f r l0 hc' last' acc' lead = UErr k t l ->
       (k = s_ "MissingClosingQuote" /\ l = 1 + count_nl inp)
       \/ (k = s_ "MissingValue" /\ t = str_of_word lead /\ l = wline lead)).
    { intros hc' last' acc' Hc. eapply IH; [right; exact Hr|exact Hc]. }
    destruct (negb hc && negb (isq w) && (is1 w "{" || is1 w "}" || is1 w ";" || is1 w "#")).
    + destruct (is1 w ";"); [eapply Hfin; exact H|].
      destruct (negb (is1 w "#")); [eapply Hfin; exact H|eapply Hrec; exact H].
    + destruct (isq w || weq last [bs]); [eapply Hrec; exact H|].
      destruct (negb (wline w =? wline last)%nat); [eapply Hfin; exact H|eapply Hrec; exact H].
  - unfold E in H. inversion H; subst. left. split; [reflexivity|]. eapply nw_err_pos_e; eassumption.
Qed.

(* why [pos_ok_e] and not [pos_ok] in the conclusion of caw_pos: at the end of the input the reader
   is exhausted and keeps the line of the last token; trailing newlines are not counted *)
Example caw_end_stale :
  let inp := s_ "x
" in
  caw 5 inp 1 false (mkword [] QN 1) [] (mkword [] QN 1) = Ok ([mkword (s_ "x") QN 1], [], 1) /\ 1 + count_nl inp = 2.
Proof. vm_compute. split; reflexivity. Qed.

(* ====================================================================== *)
(* 4. error citations and post-conditions of the readers                   *)
(* ====================================================================== *)
Definition noline_kinds : list str :=
  [s_ "UnexpectedEnd"; s_ "MissingBrace"; s_ "Reserved"; s_ "Unmodelled"].
Definition value_kinds : list str := [s_ "NotBool"; s_ "NotNumeric"; s_ "BadSequentialFormat"].

(* what an error (kind, tok, line) raised while parsing [inp] with oracle table [o] may cite:
   - it is an entry of the oracle table (the harness copied it from the real converter), or
   - it carries no line (line 0) and is one of the four kinds raised without one, or
   - it is a missing closing quote, cited at the last line of the input, or
   - it is a value error (not a bool / not numeric / bad format) citing the line of a word of inp, or
   - it names a token: tok is (a suffix of) the source text of a word placed right in inp, whose
     line is cited.  The suffix accounts for the leading "!" the parser strips from names. *)
Inductive err_ok (o:oracle) (inp kind tok:str) (l:nat) : Prop :=
  | EO_oracle : forall key, In (key, UErr kind tok l) o -> err_ok o inp kind tok l
  | EO_noline : l = 0 -> In kind noline_kinds -> err_ok o inp kind tok l
  | EO_quote  : kind = s_ "MissingClosingQuote" -> l = 1 + count_nl inp -> err_ok o inp kind tok l
  | EO_value  : forall w, In kind value_kinds -> word_placed inp w -> wline w = l -> err_ok o inp kind tok l
  | EO_token  : forall w, word_placed inp w -> wline w = l -> suffix tok (str_of_word w) ->
                err_ok o inp kind tok l.

Definition rpost {A} (o:oracle) (inp:str) (P:A -> Prop) (r:res A) : Prop :=
  match r with Ok a => P a | UErr k t l => err_ok o inp k t l | Crash _ => True end.

Lemma rpost_bind : forall {A B} o inp (P:A -> Prop) (Q:B -> Prop) (r:res A) (f:A -> res B),
  rpost o inp P r -> (forall a, P a -> rpost o inp Q (f a)) -> rpost o inp Q (bind r f).
Proof. intros A B o inp P Q r f Hr Hf. destruct r; cbn [bind rpost] in *; auto. Qed.

Ltac in_list := solve [repeat (try (left; reflexivity); right)].
Ltac err := unfold E; cbn [rpost].

Lemma unq_str w : isq w = false -> str_of_word w = wv w.
Proof. unfold isq, str_of_word. destruct (wq w); try discriminate. reflexivity. Qed.
Lemma unq_QN w : isq w = false -> wq w = QN.
Proof. unfold isq. destruct (wq w); try discriminate. reflexivity. Qed.

Lemma strip_bang_suffix : forall v v' d, strip_bang v = (v', d) -> suffix v' v.
Proof.
  intros v v' d H. unfold strip_bang in H. destruct v as [|c r]; [inversion H; apply suffix_refl|].
  destruct (Ascii.eqb c "!"); inversion H; subst; [exists [c]; reflexivity|apply suffix_refl].
Qed.

Definition tok_ok (inp:str) (x : word * str * nat) : Prop :=
  let '(w, r, l) := x in pos_ok inp r l /\ word_placed inp w.
Definition utok_ok (inp:str) (x : word * str * nat) : Prop :=
  let '(w, r, l) := x in pos_ok inp r l /\ word_placed inp w /\ isq w = false.

Lemma pop_lines : forall o inp σ s line, pos_ok_e inp s line -> rpost o inp (tok_ok inp) (pop σ s line).
Proof.
  intros o inp σ s line Hp. unfold pop. destruct (nw σ false s line) as [|w r l|l] eqn:En.
  - err. apply EO_noline; [reflexivity|in_list].
  - cbn [rpost tok_ok]. eapply nw_pos_e; eassumption.
  - err. apply EO_quote; [reflexivity|]. eapply nw_err_pos_e; eassumption.
Qed.
Lemma pop_unq_lines : forall o inp σ s line, pos_ok_e inp s line -> rpost o inp (utok_ok inp) (pop_unq σ s line).
Proof.
  intros o inp σ s line Hp. unfold pop_unq. pose proof (pop_lines o inp σ s line Hp) as H.
  destruct (pop σ s line) as [[[w r] l]| |]; cbn [rpost tok_ok] in H; [|exact H|exact I].
  destruct H as [Hr Hw]. destruct (isq w) eqn:Eq.
  - err. eapply EO_token; [exact Hw|reflexivity|apply suffix_refl].
  - cbn [rpost utok_ok]. repeat split; assumption.
Qed.
Lemma expect_eq_lines : forall o inp w, word_placed inp w -> isq w = false ->
  rpost o inp (fun _ => True) (expect_eq w).
Proof.
  intros o inp w Hw Hq. unfold expect_eq. destruct (eqs (wv w) ["="]); [exact I|].
  err. eapply EO_token; [exact Hw|reflexivity|rewrite (unq_str _ Hq); apply suffix_refl].
Qed.

(* ---------- attribute converters *)
Lemma olookup_in : forall o k r, olookup k o = Some r -> exists key, In (key, r) o.
Proof.
  induction o as [|[k' v] o IH]; intros k r H; [discriminate H|].
  cbn [olookup] in H. destruct (eqs k k').
  - inversion H; subst. exists k'. left; reflexivity.
  - destruct (IH _ _ H) as [key Hin]. exists key. right; exact Hin.
Qed.
Lemma ask_lines : forall o inp kind ws, rpost o inp (fun _ => True) (ask o kind ws).
Proof.
  intros o inp kind ws. unfold ask. destruct (olookup (kind :: wkey ws) o) as [r|] eqn:El.
  - destruct (olookup_in _ _ _ El) as [key Hin]. destruct r; cbn [rpost]; auto.
    eapply EO_oracle; exact Hin.
  - cbn [rpost]. apply EO_noline; [reflexivity|in_list].
Qed.
Lemma first_line_placed : forall inp ws, ws <> [] -> Forall (word_placed inp) ws ->
  exists w, word_placed inp w /\ wline w = first_line ws.
Proof.
  intros inp ws Hne Hf. destruct ws as [|w ws']; [congruence|]. inversion Hf; subst.
  exists w. split; [assumption|reflexivity].
Qed.
Lemma bool_from_words_lines : forall o inp ws, ws <> [] -> Forall (word_placed inp) ws ->
  rpost o inp (fun _ => True) (bool_from_words ws).
Proof.
  intros o inp ws Hne Hf. unfold bool_from_words.
  destruct (str_from_words ws); try exact I.
  destruct (mems _ _); [exact I|]. destruct (mems _ _); [exact I|].
  destruct (first_line_placed _ _ Hne Hf) as (w & Hw & Hl).
  destruct ws; [congruence|]. cbn [rpost]. eapply EO_value; [in_list|exact Hw|exact Hl].
Qed.
Lemma int_from_words_lines : forall o inp ws, ws <> [] -> Forall (word_placed inp) ws ->
  rpost o inp (fun _ => True) (int_from_words o ws).
Proof.
  intros o inp ws Hne Hf. unfold int_from_words.
  destruct (str_from_words ws); try exact I.
  destruct (first_line_placed _ _ Hne Hf) as (w & Hw & Hl).
  destruct (_ || _); [cbn [rpost]; eapply EO_value; [in_list|exact Hw|exact Hl]|].
  destruct (eqs _ _); [exact I|]. destruct (eqs _ _); [exact I|].
  destruct (plain_int s); [exact I|]. apply ask_lines.
Qed.
Lemma assign_def_attr_lines : forall o inp n ws, ws <> [] -> Forall (word_placed inp) ws ->
  rpost o inp (fun _ => True) (assign_def_attr o n ws).
Proof.
  intros o inp n ws Hne Hf. unfold assign_def_attr.
  destruct (_ || _); [apply bool_from_words_lines; assumption|].
  destruct (eqs n _).
  - destruct (is_plain_none ws); [exact I|]. destruct (is_plain_auto ws); [exact I|]. apply ask_lines.
  - destruct (_ || _); [apply int_from_words_lines; assumption|exact I].
Qed.
Lemma assign_scope_attr_lines : forall o inp n ws, ws <> [] -> Forall (word_placed inp) ws ->
  rpost o inp (fun _ => True) (assign_scope_attr o n ws).
Proof.
  intros o inp n ws Hne Hf. unfold assign_scope_attr.
  destruct (mems n _); [apply bool_from_words_lines; assumption|].
  destruct (eqs n _); [apply int_from_words_lines; assumption|].
  destruct (eqs n _).
  - destruct (is_plain_none ws); [exact I|]. destruct (is_plain_auto ws); [exact I|]. apply ask_lines.
  - destruct (eqs n _); [|exact I].
    destruct (first_line_placed _ _ Hne Hf) as (w & Hw & Hl).
    destruct (str_from_words ws); try exact I.
    + cbn [rpost]. eapply EO_value; [in_list|exact Hw|exact Hl].
    + destruct (count_specs s) as [[|[|n0]]|]; try exact I.
      * cbn [rpost]. eapply EO_value; [in_list|exact Hw|exact Hl].
      * cbn [rpost]. eapply EO_value; [in_list|exact Hw|exact Hl].
      * cbn [rpost]. apply EO_noline; [reflexivity|in_list].
Qed.

(* ---------- caw in post-condition form *)
Definition lead_ok (inp:str) (lead:word) : Prop :=
  exists w, word_placed inp w /\ wline w = wline lead /\ suffix (str_of_word lead) (str_of_word w).
Definition caw_ok (inp:str) (x : list word * str * nat) : Prop :=
  let '(ws, s', l') := x in pos_ok_e inp s' l' /\ Forall (word_placed inp) ws /\ ws <> [].

Lemma caw_lines : forall o inp fuel s line hc last acc lead,
  pos_ok_e inp s line -> Forall (word_placed inp) acc -> lead_ok inp lead ->
  rpost o inp (caw_ok inp) (caw fuel s line hc last acc lead).
Proof.
  intros o inp fuel s line hc last acc lead Hp Hacc (w & Hw & Hl & Hs).
  destruct (caw fuel s line hc last acc lead) as [[[ws s'] l']|k t l|c] eqn:Ec; [| |exact I].
  - destruct (caw_pos _ _ _ _ _ _ _ _ _ _ _ Hp Ec) as (H1 & H2 & H3).
    cbn [rpost caw_ok]. repeat split; auto.
  - cbn [rpost]. destruct (caw_err _ _ _ _ _ _ _ _ _ _ _ Hp Ec) as [[-> ->]|(-> & -> & ->)].
    + apply EO_quote; reflexivity.
    + eapply EO_token; eassumption.
Qed.

Lemma stripped_lead_ok : forall inp w v, word_placed inp w -> isq w = false -> suffix v (wv w) ->
  lead_ok inp (mkword v QN (wline w)).
Proof.
  intros inp w v Hw Hq Hs. exists w. split; [exact Hw|]. split; [reflexivity|].
  rewrite (unq_str _ Hq). exact Hs.
Qed.

(* ---------- scope attribute loop *)
Definition sattrs_ok (inp:str) (x : attrs * word * str * nat) : Prop :=
  let '(_, bw, s', l') := x in pos_ok_e inp s' l' /\ word_placed inp bw.

Lemma sattrs_lines : forall o inp fuel w s line acc,
  pos_ok_e inp s line -> word_placed inp w -> isq w = false ->
  rpost o inp (sattrs_ok inp) (sattrs o fuel w s line acc).
Proof.
  intros o inp; induction fuel as [|f IH]; intros w s line acc Hp Hw Hq; [exact I|].
  cbn [sattrs].
  destruct (eqs (wv w) ["{"]); [cbn [rpost sattrs_ok]; split; assumption|].
  destruct (strip_bang (wv w)) as [v dis] eqn:Esb.
  pose proof (strip_bang_suffix _ _ _ Esb) as Hsuf.
  assert (Herr : err_ok o inp (s_ "UnexpectedScopeAttribute") v (wline w)).
  { eapply EO_token; [exact Hw|reflexivity|rewrite (unq_str _ Hq); exact Hsuf]. }
  destruct v as [|c an]; [exact Herr|].
  destruct (Ascii.eqb c "." && mems an scope_attr_names); [|exact Herr].
  eapply rpost_bind; [apply pop_unq_lines; exact Hp|]. intros [[eqw r] l] (Hr & Heq & Hequ). cbn [bind].
  eapply rpost_bind; [apply expect_eq_lines; assumption|]. intros _ _.
  eapply rpost_bind.
  { apply caw_lines; [right; exact Hr|constructor|apply stripped_lead_ok; assumption]. }
  intros [[ws r2] l2] (Hr2 & Hws & Hne). cbn [bind].
  eapply rpost_bind with (P := fun _ => True).
  { destruct dis; [exact I|]. eapply rpost_bind; [apply assign_scope_attr_lines; assumption|].
    intros av _. exact I. }
  intros acc' _.
  eapply rpost_bind; [apply pop_unq_lines; exact Hr2|]. intros [[w2 r3] l3] (Hr3 & Hw2 & Hq2). cbn [bind].
  apply IH; [right; exact Hr3|exact Hw2|exact Hq2].
Qed.

(* ====================================================================== *)
(* 5. objects                                                              *)
(* ====================================================================== *)
(* a header is placed when its line is the line of an unquoted word placed right in inp whose text
   ends with the object's name (the text is the name, preceded by "!" for a disabled object and by
   the leading components "a.b." for the innermost object of a dotted name).
   A scope header is right when it is placed, or it is a prefix scope made up for a dotted name: no
   line, exactly one child, which carries merge_names and whose primary id the scope shares (since
   /repo 2398dd1 the prefix scopes carry the id of the object they lead to).  A definition header
   is right only when it is placed. *)
Definition placed_hd (inp:str) (h:hdr) : Prop :=
  exists w, word_placed inp w /\ wq w = QN /\ wline w = oline h /\ suffix (oname h) (wv w).
Definition prefix_hd (h:hdr) (ks:list obj) : Prop :=
  oline h = 0 /\ exists k, ks = [k] /\ opid h = opid (ohdr k) /\ omerge (ohdr k) = true.
Definition head_ok (inp:str) (h:hdr) (ks:list obj) : Prop := placed_hd inp h \/ prefix_hd h ks.

Fixpoint obj_lines_ok (inp:str) (o:obj) : Prop :=
  match o with
  | Def h ws _ => placed_hd inp h /\ Forall (word_placed inp) ws
  | Scp h ks _ =>
      head_ok inp h ks
      /\ (fix all (l:list obj) : Prop :=
            match l with [] => True | k :: r => obj_lines_ok inp k /\ all r end) ks
  end.

Lemma obj_lines_ok_scp : forall inp h ks a,
  obj_lines_ok inp (Scp h ks a) <-> head_ok inp h ks /\ Forall (obj_lines_ok inp) ks.
Proof.
  intros inp h ks a. cbn [obj_lines_ok]. generalize (head_ok inp h ks). intros P.
  split; intros [H1 H2]; (split; [exact H1|]).
  - induction ks as [|k r IH]; [constructor|]. destruct H2 as [Hk Hr]. constructor; [exact Hk|apply IH; exact Hr].
  - induction ks as [|k r IH]; [exact I|]. inversion H2; subst. split; [assumption|apply IH; assumption].
Qed.

Lemma placed_hd_rename : forall inp h h', placed_hd inp h ->
  oline h' = oline h -> suffix (oname h') (oname h) -> placed_hd inp h'.
Proof.
  intros inp h h' (w & Hw & Hq & Hl & Hs) El Es.
  exists w. repeat split; try assumption; [congruence|]. eapply suffix_trans; eassumption.
Qed.

(* a placed header has a real line, a prefix scope has none: the two cases exclude each other *)
Lemma placed_hd_line : forall inp h, placed_hd inp h -> 1 <= oline h <= 1 + count_nl inp.
Proof. intros inp h (w & Hw & _ & Hl & _). rewrite <- Hl. apply word_placed_range. exact Hw. Qed.

(* giving an object the last component of its dotted name and the merge_names flag *)
Lemma relabel_ok : forall inp o n, obj_lines_ok inp o -> suffix n (oname (ohdr o)) ->
  obj_lines_ok inp (set_hdr o (with_merge (with_name (ohdr o) n) true)).
Proof.
  intros inp [h ws a|h ks a] n H Hs; cbn [set_hdr ohdr] in *.
  - cbn [obj_lines_ok] in *. destruct H as [Hh Hw]. split; [|exact Hw].
    eapply placed_hd_rename; [exact Hh|reflexivity|exact Hs].
  - apply obj_lines_ok_scp in H. destruct H as [Hh Hk]. apply obj_lines_ok_scp. split; [|exact Hk].
    destruct Hh as [Hh|Hh]; [left|right; exact Hh].
    eapply placed_hd_rename; [exact Hh|reflexivity|exact Hs].
Qed.

(* the last component of a dotted name is a suffix of the name *)
Lemma splitdot_shape : forall s, exists h t, splitdot s = h :: t
  /\ (t = [] -> s = h) /\ (t <> [] -> suffix (last t []) s).
Proof.
  induction s as [|c r (h & t & E & H1 & H2)].
  - exists [], []. split; [reflexivity|]. split; [reflexivity|congruence].
  - cbn [splitdot]. rewrite E. destruct (Ascii.eqb c ".").
    + exists [], (h :: t). split; [reflexivity|]. split; [discriminate|]. intros _.
      apply suffix_cons. destruct t as [|t0 t'].
      * cbn [last]. rewrite (H1 eq_refl). apply suffix_refl.
      * change (last (h :: t0 :: t') []) with (last (t0 :: t') []). apply H2; discriminate.
    + exists (c :: h), t. split; [reflexivity|]. split.
      * intros Ht. rewrite (H1 Ht). reflexivity.
      * intros Ht. apply suffix_cons. apply H2; exact Ht.
Qed.
Lemma splitdot_last_suffix : forall s, suffix (last (splitdot s) []) s.
Proof.
  intros s. destruct (splitdot_shape s) as (h & t & E & H1 & H2). rewrite E.
  destruct t as [|t0 t'].
  - cbn [last]. rewrite (H1 eq_refl). apply suffix_refl.
  - change (last (h :: t0 :: t') []) with (last (t0 :: t') []). apply H2; discriminate.
Qed.
Lemma splitdot_nonempty : forall s, splitdot s <> [].
Proof. intros s. destruct (splitdot_shape s) as (h & t & E & _). rewrite E. discriminate. Qed.

(* what scope.adopt builds below the first prefix scope carries the id of the object and merge_names *)
Lemma wrap_dotted_pid : forall comps first o, opid (ohdr (wrap_dotted first comps o)) = opid (ohdr o).
Proof.
  intros comps first o. destruct comps as [|c [|c2 rest]]; cbn [wrap_dotted]; [reflexivity| |reflexivity].
  destruct first; [reflexivity|]. destruct o; reflexivity.
Qed.
Lemma wrap_dotted_merge : forall comps o, comps <> [] -> omerge (ohdr (wrap_dotted false comps o)) = true.
Proof.
  intros comps o Hne. destruct comps as [|c [|c2 rest]]; cbn [wrap_dotted]; [congruence| |reflexivity].
  destruct o; reflexivity.
Qed.

Lemma wrap_dotted_ok : forall inp comps first o,
  obj_lines_ok inp o ->
  (comps <> [] -> suffix (last comps []) (oname (ohdr o))) ->
  obj_lines_ok inp (wrap_dotted first comps o).
Proof.
  intros inp comps; induction comps as [|c rest IH]; intros first o Ho Hs; cbn [wrap_dotted]; [exact Ho|].
  destruct rest as [|c2 rest'].
  - destruct first; [exact Ho|]. apply relabel_ok; [exact Ho|]. apply (Hs ltac:(discriminate)).
  - apply obj_lines_ok_scp. split.
    + right. split; [reflexivity|]. eexists. split; [reflexivity|]. cbn [opid]. split.
      * symmetry. apply wrap_dotted_pid.
      * apply wrap_dotted_merge. discriminate.
    + constructor; [|constructor]. apply IH; [exact Ho|]. intros _.
      change (last (c2 :: rest') []) with (last (c :: c2 :: rest') []). apply Hs; discriminate.
Qed.
Lemma adopt_ok : forall inp o, obj_lines_ok inp o -> obj_lines_ok inp (adopt o).
Proof.
  intros inp o Ho. unfold adopt. apply wrap_dotted_ok; [exact Ho|]. intros _. apply splitdot_last_suffix.
Qed.
Lemma attach_ohdr_l : forall n v o, ohdr (attach n v o) = ohdr o.
Proof. intros n v [h ws a|h [|k [|k2 r]] a]; reflexivity. Qed.
Lemma attach_ok : forall inp n v o, obj_lines_ok inp o -> obj_lines_ok inp (attach n v o).
Proof.
  intros inp n v o; induction o as [h ws a|h ks a IH] using obj_ind2; intros Ho; cbn [attach].
  - exact Ho.
  - destruct ks as [|k [|k2 ks']]; try exact Ho.
    apply obj_lines_ok_scp in Ho. destruct Ho as [Hh Hk]. apply obj_lines_ok_scp. split.
    + destruct Hh as [Hh|(Hl & k0 & Ek & Hp & Hm)]; [left; exact Hh|right].
      inversion Ek; subst k0. split; [exact Hl|]. eexists. split; [reflexivity|].
      rewrite attach_ohdr_l. split; assumption.
    + inversion IH; subst. inversion Hk; subst. constructor; [|constructor]. auto.
Qed.

(* ---------- collect_objects *)
Definition cobj_ok (inp:str) (x : list obj * str * nat * nat) : Prop :=
  let '(objs, s', l', nid') := x in
  pos_ok_e inp s' l' /\ Forall (obj_lines_ok inp) objs /\ 1 <= nid'.

Lemma cobj_lines : forall o inp fuel s line nid stop start prev active acc,
  pos_ok_e inp s line -> 1 <= nid ->
  (forall sw, start = Some sw -> word_placed inp sw) ->
  (forall d, active = Some d -> obj_lines_ok inp d) ->
  Forall (obj_lines_ok inp) acc ->
  rpost o inp (cobj_ok inp) (cobj o fuel s line nid stop start prev active acc).
Proof.
  intros o inp; induction fuel as [|f IH];
    intros s line nid stop start prev active acc Hp Hnid Hstart Hact Hacc; [exact I|].
  cbn [cobj].
  set (nomatch := match start with
                  | None => E "MissingBrace" [] 0
                  | Some sw => E "NoMatchingBrace" (str_of_word sw) (wline sw) end : res (list obj * str * nat * nat)).
  assert (Hnm : rpost o inp (cobj_ok inp) nomatch).
  { unfold nomatch. destruct start as [sw|]; err.
    - eapply EO_token; [apply Hstart; reflexivity|reflexivity|apply suffix_refl].
    - apply EO_noline; [reflexivity|in_list]. }
  set (fl := match active with Some d => d :: acc | None => acc end).
  assert (Hfl : Forall (obj_lines_ok inp) fl).
  { unfold fl. destruct active; [constructor; [apply Hact; reflexivity|exact Hacc]|exact Hacc]. }
  assert (Hend : forall l', rpost o inp (cobj_ok inp) (if stop then nomatch else Ok (rev fl, [], l', nid))).
  { intros l'. destruct stop; [exact Hnm|]. cbn [rpost cobj_ok].
    split; [left; reflexivity|]. split; [apply Forall_rev; exact Hfl|exact Hnid]. }
  destruct (nw s0 false s line) as [|lead r l|l] eqn:En.
  { apply Hend. }
  2:{ err. apply EO_quote; [reflexivity|]. eapply nw_err_pos_e; eassumption. }
  destruct (nw_pos_e _ _ _ _ _ _ _ _ Hp En) as [Hr Hlead].
  destruct (isq lead) eqn:Eql.
  { err. eapply EO_token; [exact Hlead|reflexivity|apply suffix_refl]. }
  pose proof (unq_str _ Eql) as Hstr.
  destruct (eqs (wv lead) intro && negb (wline lead =? prev)%nat).
  { eapply rpost_bind; [apply pop_unq_lines; right; exact Hr|].
    intros [[w r2] l2] (Hr2 & Hw & Hqw). cbn [bind].
    destruct (eqs (wv w) f_end); [apply Hend|].
    destruct (eqs (wv w) f_on); [apply IH; try assumption; right; exact Hr2|].
    destruct (negb (eqs (wv w) f_off)).
    { err. eapply EO_token; [exact Hw|reflexivity|rewrite (unq_str _ Hqw); apply suffix_refl]. }
    destruct (sfs (S (length r2)) r2 l2) as [[r3 l3] fu] eqn:Es.
    pose proof (sfs_pos _ _ _ _ _ _ _ Hr2 Es) as Hr3.
    destruct fu as [[|n]|]; [apply Hend| |]; (apply IH; try assumption; right; exact Hr3). }
  destruct (stop && eqs (wv lead) ["}"]).
  { cbn [rpost cobj_ok]. split; [right; exact Hr|]. split; [apply Forall_rev; exact Hfl|exact Hnid]. }
  destruct (eqs (wv lead) ["{"]).
  { err. eapply EO_token; [exact Hlead|reflexivity|rewrite Hstr; apply suffix_refl]. }
  destruct (strip_bang (wv lead)) as [lv dis] eqn:Esb.
  pose proof (strip_bang_suffix _ _ _ Esb) as Hsuf.
  assert (Hlv : forall kind, err_ok o inp kind lv (wline lead)).
  { intros kind. eapply EO_token; [exact Hlead|reflexivity|rewrite Hstr; exact Hsuf]. }
  assert (Hhd : forall nid', placed_hd inp (mkhdr lv dis 0 false nid' (wline lead))).
  { intros nid'. exists lead. split; [exact Hlead|]. split; [apply unq_QN; exact Eql|].
    split; [reflexivity|exact Hsuf]. }
  pose proof (stripped_lead_ok _ _ _ Hlead Eql Hsuf) as Hlead'.
  eapply rpost_bind; [apply pop_lines; right; exact Hr|].
  intros [[w r2] l2] (Hr2 & Hw). cbn [bind].
  destruct (negb (isq w) && (eqs (wv w) ["{"] || prefixb ["."] (wv w) || prefixb ["!"; "."] (wv w))) eqn:Esc.
  { apply andb_prop in Esc as [Hqw _]. apply negb_true_iff in Hqw.
    destruct (negb (is_ident lv)); [destruct (eqs lv [";"]); err; apply Hlv|].
    destruct (name_reserved_scp lv); [err; apply Hlv|].
    eapply rpost_bind; [apply sattrs_lines; [right; exact Hr2|exact Hw|exact Hqw]|].
    intros [[[sa bw] r3] l3] (Hr3 & Hbw). cbn [bind].
    eapply rpost_bind.
    { apply IH; [exact Hr3|lia| |discriminate|constructor].
      intros sw Hsw. inversion Hsw; subst. exact Hbw. }
    intros [[[kids r4] l4] nid4] (Hr4 & Hkids & Hnid4). cbn [bind].
    destruct (prefix_reserved lv); [err; apply EO_noline; [reflexivity|in_list]|].
    apply IH; [exact Hr4|exact Hnid4|exact Hstart|discriminate|].
    constructor; [|exact Hfl]. apply adopt_ok. apply obj_lines_ok_scp. split; [left; apply Hhd|exact Hkids]. }
  destruct (negb (prefixb ["."] lv)).
  { destruct (negb (is_ident lv)); [destruct (eqs lv [";"]); err; apply Hlv|].
    eapply rpost_bind with (P := fun x => pos_ok inp (fst x) (snd x)).
    { destruct (eqs lv include_w); [exact Hr|].
      eapply rpost_bind; [apply pop_unq_lines; right; exact Hr|].
      intros [[eqw r5] l5] (H5 & Heq & Hequ). cbn [bind].
      eapply rpost_bind; [apply expect_eq_lines; assumption|]. intros _ _. exact H5. }
    intros [r5 l5] H5. cbn [fst snd] in H5. cbn [bind].
    eapply rpost_bind; [apply caw_lines; [right; exact H5|constructor|exact Hlead']|].
    intros [[ws r6] l6] (Hr6 & Hws & Hne). cbn [bind].
    destruct (name_reserved_def lv); [err; apply Hlv|].
    destruct (prefix_reserved lv); [err; apply EO_noline; [reflexivity|in_list]|].
    apply IH; [exact Hr6|lia|exact Hstart| |exact Hfl].
    intros d Hd. inversion Hd; subst. apply adopt_ok. cbn [obj_lines_ok]. split; [apply Hhd|exact Hws]. }
  destruct active as [ad|]; [|err; apply Hlv].
  destruct (negb (mems (drop 1 lv) def_attr_names)); [err; apply Hlv|].
  eapply rpost_bind; [apply pop_unq_lines; right; exact Hr|].
  intros [[eqw r5] l5] (H5 & Heq & Hequ). cbn [bind].
  eapply rpost_bind; [apply expect_eq_lines; assumption|]. intros _ _.
  eapply rpost_bind; [apply caw_lines; [right; exact H5|constructor|exact Hlead']|].
  intros [[ws r6] l6] (Hr6 & Hws & Hne). cbn [bind].
  eapply rpost_bind with (P := obj_lines_ok inp).
  { destruct dis; [cbn [rpost]; apply Hact; reflexivity|].
    eapply rpost_bind; [apply assign_def_attr_lines; assumption|].
    intros av _. cbn [rpost]. apply attach_ok. apply Hact; reflexivity. }
  intros ad' Had'.
  apply IH; [exact Hr6|exact Hnid|exact Hstart| |exact Hacc].
  intros d Hd. inversion Hd; subst. exact Had'.
Qed.

(* ====================================================================== *)
(* 6. freephil.parse                                                       *)
(* ====================================================================== *)
Lemma parse_post : forall o inp, rpost o inp (Forall (obj_lines_ok inp)) (parse o inp).
Proof.
  intros o inp. unfold parse.
  eapply rpost_bind.
  - apply cobj_lines with (start := None) (active := None);
      [right; apply pos_ok_start|apply le_n|discriminate|discriminate|constructor].
  - intros [[[objs r] l] nid] (_ & Hobjs & _). exact Hobjs.
Qed.

(* every scope and definition in the result carries the line of its name's source word, and
   every value word is placed right (recursively through all scopes) *)
Theorem parse_lines_ok : forall o inp objs,
  parse o inp = Ok objs -> Forall (obj_lines_ok inp) objs.
Proof. intros o inp objs H. pose proof (parse_post o inp) as Hp. rewrite H in Hp. exact Hp. Qed.

(* every reported error is of one of the five sanctioned forms *)
Theorem parse_error_cites : forall o inp kind tok l,
  parse o inp = UErr kind tok l -> err_ok o inp kind tok l.
Proof. intros o inp kind tok l H. pose proof (parse_post o inp) as Hp. rewrite H in Hp. exact Hp. Qed.

(* the objects the parser builds from a name in the source have a real line: every definition, and
   every scope that is not a prefix scope made up for a dotted name (those carry line 0) *)
Lemma head_ok_line : forall inp o, obj_lines_ok inp o -> (is_def o = true \/ oline (ohdr o) <> 0) ->
  placed_hd inp (ohdr o) /\ 1 <= oline (ohdr o) <= 1 + count_nl inp.
Proof.
  intros inp o Ho Hc.
  assert (Hp : placed_hd inp (ohdr o)).
  { destruct o as [h ws a|h ks a]; cbn [ohdr] in *; [apply Ho|].
    apply obj_lines_ok_scp in Ho. destruct Ho as [[Hh|[Hl _]] _]; [exact Hh|].
    destruct Hc as [Hc|Hc]; [discriminate Hc|congruence]. }
  split; [exact Hp|]. apply placed_hd_line. exact Hp.
Qed.

(* error lines: bounded by the number of lines, given that the oracle answers are *)
Definition oracle_lines_ok (inp:str) (o:oracle) : Prop :=
  forall key k t l, In (key, UErr k t l) o -> l = 0 \/ l <= 1 + count_nl inp.

Lemma err_ok_bound : forall o inp kind tok l, oracle_lines_ok inp o ->
  err_ok o inp kind tok l -> l = 0 \/ l <= 1 + count_nl inp.
Proof.
  intros o inp kind tok l Ho [key Hin|H0 _|_ Hl|w _ Hw Hl|w Hw Hl _].
  - eapply Ho; exact Hin.
  - left; exact H0.
  - right; lia.
  - right. pose proof (word_placed_range _ _ Hw). lia.
  - right. pose proof (word_placed_range _ _ Hw). lia.
Qed.

Theorem parse_error_line_ok : forall o inp kind tok l, oracle_lines_ok inp o ->
  parse o inp = UErr kind tok l -> l = 0 \/ l <= 1 + count_nl inp.
Proof. intros o inp kind tok l Ho H. eapply err_ok_bound; [exact Ho|]. apply parse_error_cites; exact H. Qed.

Corollary parse_error_line_ok_no_oracle : forall inp kind tok l,
  parse [] inp = UErr kind tok l -> l = 0 \/ l <= 1 + count_nl inp.
Proof. intros inp kind tok l. apply parse_error_line_ok. intros key k t l0 []. Qed.

(* the hypothesis on the oracle is needed: an oracle answer is passed on unchanged *)
Example oracle_line_passed_on :
  parse [("T" :: s_ "nfoo" ++ ["000"], UErr (s_ "X") [] 99)] (s_ "a = 1
.type = foo") = UErr (s_ "X") [] 99.
Proof. vm_compute. reflexivity. Qed.

(* the errors raised directly on a token just read name that token and cite its line *)
Definition direct_kinds : list str :=
  [s_ "UnquotedExpected"; s_ "SyntaxExpected"; s_ "UnexpectedBrace"; s_ "Unexpected";
   s_ "ImproperScopeName"; s_ "ImproperDefinitionName"; s_ "UnexpectedScopeAttribute";
   s_ "UnexpectedDefinitionAttribute"; s_ "UnknownPhilDirective"; s_ "MissingValue"; s_ "NoMatchingBrace"].

Lemma eqs_refl : forall a, eqs a a = true.
Proof. induction a as [|c a IH]; [reflexivity|]. cbn [eqs]. rewrite Ascii.eqb_refl. exact IH. Qed.
Lemma mems_in : forall k l, In k l -> mems k l = true.
Proof.
  intros k l; induction l as [|x l IH]; intros H; [destruct H|].
  unfold mems in *. cbn [existsb]. destruct H as [->|H]; [rewrite eqs_refl; reflexivity|].
  rewrite (IH H). apply orb_true_r.
Qed.
Lemma direct_kinds_disjoint : forall k, In k direct_kinds ->
  mems k noline_kinds = false /\ mems k value_kinds = false /\ mems k [s_ "MissingClosingQuote"] = false.
Proof.
  intros k H. unfold direct_kinds in H.
  repeat (destruct H as [<-|H]; [vm_compute; repeat split|]). destruct H.
Qed.

Theorem parse_error_token_line : forall o inp kind tok l,
  parse o inp = UErr kind tok l -> In kind direct_kinds ->
  (exists key, In (key, UErr kind tok l) o)
  \/ (exists w, word_placed inp w /\ wline w = l /\ suffix tok (str_of_word w)).
Proof.
  intros o inp kind tok l H Hd. destruct (direct_kinds_disjoint _ Hd) as (D1 & D2 & D3).
  destruct (parse_error_cites _ _ _ _ _ H) as [key Hin|_ Hk|Hk _|w Hk _ _|w Hw Hl Hs].
  - left. exists key. exact Hin.
  - rewrite (mems_in _ _ Hk) in D1. discriminate D1.
  - subst kind. vm_compute in D3. discriminate D3.
  - rewrite (mems_in _ _ Hk) in D2. discriminate D2.
  - right. exists w. repeat split; assumption.
Qed.

Corollary parse_error_token_line_no_oracle : forall inp kind tok l,
  parse [] inp = UErr kind tok l -> In kind direct_kinds ->
  exists w, word_placed inp w /\ wline w = l /\ suffix tok (str_of_word w).
Proof.
  intros inp kind tok l H Hd. destruct (parse_error_token_line _ _ _ _ _ H Hd) as [[key []]|Hw]. exact Hw.
Qed.

Print Assumptions nw_pos.
Print Assumptions nw_err_pos.
Print Assumptions sfs_pos.
Print Assumptions caw_pos.
Print Assumptions caw_err.
Print Assumptions parse_lines_ok.
Print Assumptions parse_error_cites.
Print Assumptions parse_error_line_ok.
Print Assumptions parse_error_token_line.

(* ---------- non-vacuity.  A document with a blank line, a comment, a multi-line quoted word, a
   backslash continuation, semicolon-separated items and a switched-off region (which itself
   contains an unbalanced brace and a blank line).  (name, primary id, line) of every object,
   depth first; value words with their lines. *)
Fixpoint lines_of (fuel:nat) (o:obj) : list (str * nat * nat) :=
  match fuel with 0 => [] | S f =>
    (oname (ohdr o), opid (ohdr o), oline (ohdr o)) :: flat_map (lines_of f) (okids o) end.
Definition doc : str := s_ "a = 1

# a comment
b = ""x
y""
c = 1 \
  2
d = 3; e = 4
#phil __OFF__
junk {

  f = 'unclosed
#phil __ON__
s.t {
  !g = 5
}
".
Example parse_lines_example :
  match parse [] doc with
  | Ok objs => (flat_map (lines_of 9) objs, map (fun o => map wline (owords o)) objs)
  | _ => ([], [])
  end
  = ([(s_ "a", 1, 1); (s_ "b", 2, 4); (s_ "c", 3, 6); (s_ "d", 4, 8); (s_ "e", 5, 8);
      (s_ "s", 6, 0); (s_ "t", 6, 14); (s_ "g", 7, 15)],
     [[1]; [4]; [6; 7]; [8]; [8]; []]).
Proof. vm_compute. reflexivity. Qed.

(* errors: an unexpected brace on line 3, a missing value on line 2, an unclosed scope opened on line 2 *)
Example parse_error_example1 :
  parse [] (s_ "a = 1

{") = UErr (s_ "UnexpectedBrace") (s_ "{") 3.
Proof. vm_compute. reflexivity. Qed.
Example parse_error_example2 :
  parse [] (s_ "
!x =
y = 1") = UErr (s_ "MissingValue") (s_ "x") 2.
Proof. vm_compute. reflexivity. Qed.
Example parse_error_example3 :
  parse [] (s_ "
s {
 a = 1

") = UErr (s_ "NoMatchingBrace") (s_ "{") 2.
Proof. vm_compute. reflexivity. Qed.
