(* C09 for choices: as_words then from_words returns the selected name (single) / the selected
   names in master order (multi); values that name no alternative are refused. *)
From Coq Require Import List Ascii String Bool Arith ZArith Lia.
From Phil Require Import Base Tree Choice ChoiceProofs.
Import ListNotations.
Local Open Scope char_scope.

Definition aname (w:word) : str := unstar (wv w).
Definition anames (m:list word) : list str := map aname m.
(* alternatives: names distinct, no name starts with a star itself, none spelled auto *)
Definition wf_alts (m:list word) : Prop :=
  NoDup (anames m) /\ Forall (fun w => starts_star (aname w) = false /\ lowers (aname w) <> s_ "auto") m.

Definition plainw (w:word) : word := mkword (aname w) (wq w) 0.
Definition starw (w:word) : word := mkword (star :: aname w) (wq w) 0.
Definition mark (sel:str -> bool) (w:word) : word := if sel (aname w) then starw w else plainw w.

(* ---------------------------------------------------------------- single *)
Lemma aw_single_nomatch : forall m all s n, ~ In s (anames m) ->
  aw_single m all (PStr s) n = Ok (map plainw m, n).
Proof.
  induction m as [|w r IH]; intros all s n N; [reflexivity|].
  cbn [aw_single]. fold (aname w). cbn [pyv_is_none negb andb pyv_eq_str].
  rewrite (proj2 (eqs_false_iff (aname w) s)) by (intro X; apply N; left; exact X).
  rewrite IH by (intro X; apply N; right; exact X). reflexivity.
Qed.
Lemma map_mark_nomatch s m : ~ In s (anames m) -> map (mark (eqs s)) m = map plainw m.
Proof.
  intro N. apply map_ext_in. intros w Hw. unfold mark.
  rewrite (proj2 (eqs_false_iff s (aname w))); [reflexivity|]. intro X. apply N. subst. apply in_map. exact Hw.
Qed.
Lemma aw_single_match : forall m all s, NoDup (anames m) -> In s (anames m) ->
  aw_single m all (PStr s) 0 = Ok (map (mark (eqs s)) m, 1%nat).
Proof.
  induction m as [|w r IH]; intros all s N I; [contradiction|].
  inversion N as [|? ? Nw Nr]; subst. cbn [aw_single]. fold (aname w). cbn [pyv_is_none negb andb pyv_eq_str map].
  destruct (eqs (aname w) s) eqn:E.
  - apply eqs_true_iff in E. subst s. cbn [Nat.ltb Nat.leb]. rewrite aw_single_nomatch by exact Nw. cbn [bind].
    unfold mark at 1. rewrite eqs_refl. rewrite map_mark_nomatch by exact Nw. reflexivity.
  - assert (Ir : In s (anames r)).
    { destruct I as [X|X]; [|exact X]. subst. rewrite eqs_refl in E. discriminate. }
    rewrite (IH all s Nr Ir). cbn [bind]. unfold mark at 2. rewrite eqs_sym, E. reflexivity.
Qed.

Lemma single_loop_nomatch : forall m all s acc,
  Forall (fun w => starts_star (aname w) = false /\ lowers (aname w) <> s_ "auto") m -> ~ In s (anames m) ->
  single_loop (map (mark (eqs s)) m) all acc = Ok acc.
Proof.
  induction m as [|w r IH]; intros all s acc F N; [reflexivity|]. inversion F as [|? ? [Sw _] Fr]; subst.
  cbn [map single_loop]. change (mark (eqs s) w) with (if eqs s (aname w) then starw w else plainw w).
  rewrite (proj2 (eqs_false_iff s (aname w))) by (intro X; apply N; left; auto).
  cbn [plainw wv]. rewrite Sw. apply IH; [exact Fr|]. intro X. apply N. right. exact X.
Qed.
Lemma single_loop_match : forall m all s,
  Forall (fun w => starts_star (aname w) = false /\ lowers (aname w) <> s_ "auto") m ->
  NoDup (anames m) -> In s (anames m) ->
  single_loop (map (mark (eqs s)) m) all None = Ok (Some s).
Proof.
  induction m as [|w r IH]; intros all s F N I; [contradiction|]. inversion F as [|? ? [Sw _] Fr]; subst.
  inversion N as [|? ? Nw Nr]; subst. cbn [map single_loop].
  change (mark (eqs s) w) with (if eqs s (aname w) then starw w else plainw w).
  destruct (eqs s (aname w)) eqn:E.
  - apply eqs_true_iff in E. subst s. cbn [starw wv starts_star]. unfold star at 1. rewrite Ascii.eqb_refl.
    cbn [tail1]. apply single_loop_nomatch; assumption.
  - cbn [plainw wv]. rewrite Sw. apply IH; try assumption.
    destruct I as [X|X]; [subst; rewrite eqs_refl in E; discriminate|exact X].
Qed.

Lemma marked_not_auto sel m : Forall (fun w => starts_star (aname w) = false /\ lowers (aname w) <> s_ "auto") m ->
  is_plain_auto (map (mark sel) m) = false.
Proof.
  intro F. unfold is_plain_auto, is_plain. destruct m as [|w [|w2 r]]; try reflexivity.
  inversion F as [|? ? [Sw Aw] _]; subst. cbn [map]. unfold mark. destruct (sel (aname w)).
  - cbn [starw wv lowers map]. destruct (isq _); [reflexivity|]. cbn [negb andb].
    change (lower star) with star. unfold s_. cbn [String.list_ascii_of_string eqs]. reflexivity.
  - cbn [plainw wv]. destruct (isq _); [reflexivity|]. cbn [negb andb]. apply eqs_false_iff. exact Aw.
Qed.

Theorem choice_roundtrip opt m s : wf_alts m -> In s (anames m) ->
  exists ws, choice_as_words false opt m (PStr s) = Ok ws /\ choice_from_words false opt ws = Ok (PStr s).
Proof.
  intros [N F] I. exists (map (mark (eqs s)) m). split.
  - unfold choice_as_words. cbn [andb negb pyv_is_none]. rewrite (aw_single_match m m s N I). cbn [bind Nat.eqb andb]. reflexivity.
  - unfold choice_from_words. rewrite (marked_not_auto _ m F). rewrite (single_loop_match m _ s F N I). reflexivity.
Qed.

(* None on a single choice: nothing selected; refused when the choice is mandatory *)
Lemma aw_single_none : forall m all n, aw_single m all PNone n = Ok (map plainw m, n).
Proof.
  induction m as [|w r IH]; intros all n; [reflexivity|]. cbn [aw_single pyv_is_none negb andb]. rewrite IH. reflexivity.
Qed.
Lemma single_loop_plain : forall m all acc, Forall (fun w => starts_star (aname w) = false /\ lowers (aname w) <> s_ "auto") m ->
  single_loop (map plainw m) all acc = Ok acc.
Proof.
  induction m as [|w r IH]; intros all acc F; [reflexivity|]. inversion F as [|? ? [Sw _] Fr]; subst.
  cbn [map single_loop plainw wv]. rewrite Sw. apply IH. exact Fr.
Qed.
Theorem choice_none_roundtrip opt m : wf_alts m -> mandatory opt = false ->
  exists ws, choice_as_words false opt m PNone = Ok ws /\ choice_from_words false opt ws = Ok PNone.
Proof.
  intros [N F] Mo. exists (map plainw m). split.
  - unfold choice_as_words. cbn [andb negb pyv_is_none]. rewrite aw_single_none. cbn [bind Nat.eqb andb]. rewrite Mo. reflexivity.
  - unfold choice_from_words.
    assert (A : is_plain_auto (map plainw m) = false).
    { rewrite <- (marked_not_auto (fun _ => false) m F). f_equal. }
    rewrite A, (single_loop_plain m _ None F). cbn [bind]. rewrite Mo. reflexivity.
Qed.

(* a value that names no alternative (or None on a mandatory choice) is refused *)
Theorem choice_refuses_unknown opt m s : ~ In s (anames m) ->
  choice_as_words false opt m (PStr s) = UErr (s_ "InvalidChoice") [] 0.
Proof.
  intro N. unfold choice_as_words. cbn [andb negb pyv_is_none]. rewrite (aw_single_nomatch m m s 0 N). cbn [bind Nat.eqb andb].
  rewrite orb_true_r. reflexivity.
Qed.
Theorem choice_refuses_none_mandatory opt m : mandatory opt = true ->
  choice_as_words false opt m PNone = UErr (s_ "InvalidChoice") [] 0.
Proof.
  intro Mo. unfold choice_as_words. cbn [andb negb pyv_is_none]. rewrite aw_single_none. cbn [bind Nat.eqb andb]. rewrite Mo. reflexivity.
Qed.

(* ---------------------------------------------------------------- multi *)
Definition uf_of (l:list str) : flags := fold_left (fun fl k => fset k false fl) l [].

Lemma fget_fold : forall l fl0 k,
  fget k (fold_left (fun fl k => fset k false fl) l fl0) = if mems k l then Some false else fget k fl0.
Proof.
  induction l as [|a l IH]; intros fl0 k; [reflexivity|]. cbn [fold_left]. rewrite IH, fget_fset, mems_cons.
  rewrite (eqs_sym k a). destruct (mems k l); [rewrite orb_true_r; reflexivity|]. rewrite orb_false_r. destruct (eqs a k); reflexivity.
Qed.
Lemma fget_uf_of l k : fget k (uf_of l) = if mems k l then Some false else None.
Proof. unfold uf_of. rewrite fget_fold. reflexivity. Qed.
Lemma fhas_uf_of l k : fhas k (uf_of l) = mems k l.
Proof. unfold fhas. rewrite fget_uf_of. destruct (mems k l); reflexivity. Qed.

Lemma fset_keys_flags : forall fl k v x, In x (map fst (fset k v fl)) <-> x = k \/ In x (map fst fl).
Proof.
  induction fl as [|[k' v'] fl IH]; intros k v x; cbn [fset map fst In].
  - split; [intros [H|[]]; auto|intros [H|[]]; auto].
  - destruct (eqs k' k) eqn:E; cbn [map fst In].
    + apply eqs_true_iff in E. subst. split; intro H; repeat destruct H as [H|H]; subst; auto.
    + rewrite IH. split; intro H; repeat destruct H as [H|H]; subst; auto.
Qed.
Lemma fset_nodup : forall fl k v, NoDup (map fst fl) -> NoDup (map fst (fset k v fl)).
Proof.
  induction fl as [|[k' v'] fl IH]; intros k v N; cbn [fset map fst]; [constructor; [intros []|constructor]|].
  inversion N as [|? ? Nk Nr]; subst. destruct (eqs k' k) eqn:E; cbn [map fst].
  - constructor; assumption.
  - constructor; [|apply IH; exact Nr]. intro X. apply fset_keys_flags in X. destruct X as [X|X]; [|contradiction].
    subst. rewrite eqs_refl in E. discriminate.
Qed.
Lemma uf_of_nodup l : NoDup (map fst (uf_of l)).
Proof.
  unfold uf_of. assert (G : forall fl0, NoDup (map fst fl0) -> NoDup (map fst (fold_left (fun fl k => fset k false fl) l fl0))).
  { induction l as [|a l IH]; intros fl0 N; [exact N|]. cbn [fold_left]. apply IH. apply fset_nodup. exact N. }
  apply G. constructor.
Qed.
Lemma in_fget_flags : forall fl k b, NoDup (map fst fl) -> In (k, b) fl -> fget k fl = Some b.
Proof.
  induction fl as [|[k' v'] fl IH]; intros k b N H; [contradiction|]. inversion N as [|? ? Nk Nr]; subst.
  cbn [fget]. destruct H as [H|H].
  - inversion H; subst. rewrite eqs_refl. reflexivity.
  - destruct (eqs k' k) eqn:E; [|apply IH; assumption]. apply eqs_true_iff in E. subst.
    exfalso. apply Nk. apply in_map_iff. exists (k, b). auto.
Qed.
Lemma fget_in_flags : forall fl k b, fget k fl = Some b -> In (k, b) fl.
Proof.
  induction fl as [|[k' v'] fl IH]; intros k b H; [discriminate|]. cbn [fget] in H.
  destruct (eqs k' k) eqn:E; [apply eqs_true_iff in E; inversion H; subst; left; reflexivity|right; apply IH; exact H].
Qed.

Lemma aw_multi_spec : forall m all uf n, NoDup (anames m) -> NoDup (map fst uf) ->
  (forall k, In k (anames m) -> fget k uf <> Some true) ->
  exists uf', aw_multi m all uf n = Ok (map (mark (fun k => fhas k uf)) m, uf',
                                        (n + length (filter (fun w => fhas (aname w) uf) m))%nat)
    /\ NoDup (map fst uf')
    /\ (forall k, fget k uf' = if mems k (anames m) && fhas k uf then Some true else fget k uf).
Proof.
  induction m as [|w r IH]; intros all uf n N Nu T.
  - exists uf. cbn [aw_multi map filter length]. rewrite Nat.add_0_r. split; [reflexivity|split; [exact Nu|]]. intro k. reflexivity.
  - inversion N as [|? ? Nw Nr]; subst. cbn [aw_multi]. fold (aname w). cbn [map filter].
    change (mark (fun k => fhas k uf) w) with (if fhas (aname w) uf then starw w else plainw w).
    unfold fhas at 1 2. destruct (fget (aname w) uf) as [used|] eqn:E.
    + destruct used; [exfalso; apply (T (aname w)); [left; reflexivity|exact E]|].
      set (uf1 := fset (aname w) true uf).
      assert (T1 : forall k, In k (anames r) -> fget k uf1 <> Some true).
      { intros k Hk. unfold uf1. rewrite fget_fset. rewrite (proj2 (eqs_false_iff (aname w) k)) by (intro X; subst; contradiction).
        apply T. right. exact Hk. }
      destruct (IH all uf1 (S n) Nr (fset_nodup _ _ _ Nu) T1) as [uf' [A [Nd G]]].
      exists uf'. rewrite A. cbn [bind]. split; [|split; [exact Nd|]].
      * f_equal. f_equal; [f_equal|].
        -- f_equal. apply map_ext_in. intros w' Hw'. unfold mark, uf1. rewrite fhas_fset.
           rewrite (proj2 (eqs_false_iff (aname w) (aname w'))); [reflexivity|].
           intro X. apply Nw. rewrite X. apply in_map. exact Hw'.
        -- assert (Hf : fhas (aname w) uf = true) by (unfold fhas; rewrite E; reflexivity). rewrite Hf. cbn [length].
           assert (Hx : filter (fun w0 => fhas (aname w0) uf1) r = filter (fun w0 => fhas (aname w0) uf) r).
           { apply filter_ext_in. intros w' Hw'. unfold uf1. rewrite fhas_fset.
             rewrite (proj2 (eqs_false_iff (aname w) (aname w'))); [reflexivity|].
             intro X. apply Nw. rewrite X. apply in_map. exact Hw'. }
           rewrite Hx. lia.
      * intro k. rewrite G. unfold uf1. rewrite fhas_fset, fget_fset. cbn [anames map]. fold (anames r). rewrite mems_cons.
        rewrite (eqs_sym k (aname w)). destruct (eqs (aname w) k) eqn:Q.
        -- apply eqs_true_iff in Q. subst k. cbn [orb]. unfold fhas. rewrite E.
           destruct (mems (aname w) (anames r)) eqn:Mm; [reflexivity|reflexivity].
        -- cbn [orb]. reflexivity.
    + destruct (IH all uf n Nr Nu (fun k Hk => T k (or_intror Hk))) as [uf' [A [Nd G]]].
      assert (Hf : fhas (aname w) uf = false) by (unfold fhas; rewrite E; reflexivity).
      exists uf'. rewrite A. cbn [bind]. rewrite Hf. split; [reflexivity|split; [exact Nd|]].
      intro k. rewrite G. cbn [anames map]. fold (anames r). rewrite mems_cons. rewrite (eqs_sym k (aname w)).
      destruct (eqs (aname w) k) eqn:Q; [|reflexivity].
      apply eqs_true_iff in Q. subst k. cbn [orb]. unfold fhas. rewrite E. rewrite andb_false_r. reflexivity.
Qed.

Lemma starred_names_mark sel : forall m, Forall (fun w => starts_star (aname w) = false /\ lowers (aname w) <> s_ "auto") m ->
  starred_names (map (mark sel) m) = filter sel (anames m).
Proof.
  induction m as [|w r IH]; intro F; [reflexivity|]. inversion F as [|? ? [Sw _] Fr]; subst.
  cbn [map starred_names anames filter]. fold (anames r).
  change (mark sel w) with (if sel (aname w) then starw w else plainw w). destruct (sel (aname w)).
  - cbn [starw wv starts_star]. unfold star at 1. rewrite Ascii.eqb_refl. cbn [tail1]. f_equal. apply IH. exact Fr.
  - cbn [plainw wv]. rewrite Sw. apply IH. exact Fr.
Qed.
Lemma filter_map_length {A B} (f:A -> B) (p:B -> bool) l : length (filter (fun x => p (f x)) l) = length (filter p (map f l)).
Proof. induction l as [|a l IH]; [reflexivity|]. cbn [map filter]. destruct (p (f a)); cbn [length]; rewrite IH; reflexivity. Qed.

(* the selected names come back in master order *)
Theorem multi_roundtrip opt m l : wf_alts m -> (forall x, In x l -> In x (anames m)) ->
  let r := filter (fun k => mems k l) (anames m) in
  (r = [] -> mandatory opt = false) ->
  exists ws, choice_as_words true opt m (PList l) = Ok ws /\ choice_from_words true opt ws = Ok (PList r).
Proof.
  intros [N F] Sub r Mo.
  assert (T : forall k, In k (anames m) -> fget k (uf_of l) <> Some true).
  { intros k _. rewrite fget_uf_of. destruct (mems k l); discriminate. }
  destruct (aw_multi_spec m m (uf_of l) 0 N (uf_of_nodup l) T) as [uf' [A [Nd G]]].
  exists (map (mark (fun k => fhas k (uf_of l))) m).
  assert (Sel : filter (fun k => fhas k (uf_of l)) (anames m) = r).
  { apply filter_ext. intro k. apply fhas_uf_of. }
  assert (Len : length (filter (fun w => fhas (aname w) (uf_of l)) m) = length r).
  { rewrite <- Sel. apply (filter_map_length aname (fun k => fhas k (uf_of l))). }
  split.
  - unfold choice_as_words. cbn [andb pyv_is_none negb pyv_items]. fold (uf_of l). rewrite A. cbn [bind].
    assert (U : filter (fun kv : str * bool => negb (snd kv)) uf' = []).
    { destruct (filter (fun kv : str * bool => negb (snd kv)) uf') as [|[k b] t] eqn:Q; [reflexivity|]. exfalso.
      assert (Hin : In (k, b) (filter (fun kv : str * bool => negb (snd kv)) uf')) by (rewrite Q; left; reflexivity).
      apply filter_In in Hin. destruct Hin as [Hin Hb]. cbn [snd] in Hb.
      pose proof (in_fget_flags _ _ _ Nd Hin) as Fg. rewrite G in Fg. rewrite fhas_uf_of in Fg.
      destruct (mems k l) eqn:Ml.
      - apply mems_In in Ml. apply Sub in Ml. apply mems_In in Ml. rewrite Ml in Fg. cbn [andb] in Fg.
        inversion Fg; subst. discriminate.
      - rewrite andb_false_r in Fg. rewrite fget_uf_of, Ml in Fg. discriminate. }
    rewrite U. cbn [length Nat.eqb negb]. rewrite Nat.add_0_l, Len.
    destruct r as [|a r'] eqn:Er; cbn [length Nat.eqb andb]; [rewrite (Mo eq_refl); reflexivity|reflexivity].
  - unfold choice_from_words. rewrite (marked_not_auto _ m F). rewrite (starred_names_mark _ m F), Sel.
    destruct r as [|a r'] eqn:Er; cbn [length Nat.eqb andb]; [rewrite (Mo eq_refl); reflexivity|reflexivity].
Qed.

(* a list in master order without repetition comes back as it is *)
Corollary multi_roundtrip_ordered opt m p : wf_alts m ->
  let l := filter p (anames m) in
  (l = [] -> mandatory opt = false) ->
  exists ws, choice_as_words true opt m (PList l) = Ok ws /\ choice_from_words true opt ws = Ok (PList l).
Proof.
  intros W l Mo.
  assert (E : filter (fun k => mems k l) (anames m) = l).
  { unfold l. apply filter_ext_in. intros k Hk. destruct (p k) eqn:P.
    - apply mems_In. apply filter_In. auto.
    - destruct (mems k (filter p (anames m))) eqn:Q; [|reflexivity]. apply mems_In in Q. apply filter_In in Q.
      destruct Q as [_ Q]. rewrite P in Q. discriminate. }
  destruct (multi_roundtrip opt m l W) as [ws [A B]].
  - intros x Hx. apply filter_In in Hx. apply Hx.
  - rewrite E. exact Mo.
  - exists ws. rewrite E in B. auto.
Qed.

(* a name that is no alternative is refused *)
Theorem multi_refuses_unknown opt m l x : NoDup (anames m) -> In x l -> ~ In x (anames m) ->
  choice_as_words true opt m (PList l) = UErr (s_ "InvalidChoice") [] 0.
Proof.
  intros N Hx Nx.
  assert (T : forall k, In k (anames m) -> fget k (uf_of l) <> Some true).
  { intros k _. rewrite fget_uf_of. destruct (mems k l); discriminate. }
  destruct (aw_multi_spec m m (uf_of l) 0 N (uf_of_nodup l) T) as [uf' [A [Nd G]]].
  unfold choice_as_words. cbn [andb pyv_is_none negb pyv_items]. fold (uf_of l). rewrite A. cbn [bind].
  assert (Hin : In (x, false) (filter (fun kv : str * bool => negb (snd kv)) uf')).
  { apply filter_In. split; [|reflexivity]. apply fget_in_flags. rewrite G.
    assert (Mx : mems x (anames m) = false).
    { destruct (mems x (anames m)) eqn:Q; [apply mems_In in Q; contradiction|reflexivity]. }
    rewrite Mx. cbn [andb]. rewrite fget_uf_of. rewrite (proj2 (mems_In x l) Hx). reflexivity. }
  destruct (filter (fun kv : str * bool => negb (snd kv)) uf'); [contradiction|]. reflexivity.
Qed.
