(* Specification side of C13: textual inlining at tree level as an inductive relation, the
   include graph, chains, reachability.  No cycle test anywhere in [Expands false]. *)
From Coq Require Import List Ascii String Bool Arith ZArith Lia.
From Phil Require Import Base Tree Include.
Import ListNotations.

(* raw names of the active "include file" lines of an object list, in document order
   (disabled objects and everything below a disabled scope do not count) *)
Fixpoint targets_o (o:obj) : list str :=
  match o with
  | Def h ws a =>
      if odis h then [] else if negb (eqs (oname h) s_include) then []
      else match classify ws with IKFile x => [x] | _ => [] end
  | Scp h ks a =>
      if odis h then []
      else (fix go (l:list obj) : list str :=
              match l with [] => [] | k :: r => targets_o k ++ go r end) ks
  end.
Fixpoint targets (l:list obj) : list str :=
  match l with [] => [] | k :: r => targets_o k ++ targets r end.

Section Spec.
  Variable isc : str -> option str -> option (list obj).
  Variable fs : fsys.
  Variable cwd : str.

  (* [chk = false]: the specification proper - replace every active include-file line by the
     expansion of the named file, names resolved against the directory of the including file.
     [chk = true]: the same derivations, restricted to those in which no file is expanded
     while it is already being expanded ("acyclic derivation"); [stack] is the list of files
     being expanded, outermost first. *)
  Section Chk.
  Variable chk : bool.
  Inductive Expands : list str -> str -> list obj -> Prop :=
  | Ex_file : forall stack file objs out,
      fs_get fs (fs_key (nrm cwd file)) = Ok objs ->
      (chk = true -> ~ In (nrm cwd file) stack) ->
      ExpandsL (stack ++ [nrm cwd file]) (Some (dirname (nrm cwd file))) objs out ->
      Expands stack file out
  with ExpandsL : list str -> option str -> list obj -> list obj -> Prop :=
  | EL_nil : forall stack rd, ExpandsL stack rd [] []
  | EL_cons : forall stack rd o r a b,
      ExpandsO stack rd o a -> ExpandsL stack rd r b -> ExpandsL stack rd (o :: r) (a ++ b)
  with ExpandsO : list str -> option str -> obj -> list obj -> Prop :=
  | EO_disabled : forall stack rd o, odis (ohdr o) = true -> ExpandsO stack rd o [o]
  | EO_def : forall stack rd h ws a,
      odis h = false -> oname h <> s_include -> ExpandsO stack rd (Def h ws a) [Def h ws a]
  | EO_file : forall stack rd h ws a x out,
      odis h = false -> oname h = s_include -> classify ws = IKFile x ->
      Expands stack (resolve rd x) out -> ExpandsO stack rd (Def h ws a) out
  | EO_scope : forall stack rd h ws a ip pp out,
      odis h = false -> oname h = s_include -> classify ws = IKScope ip pp ->
      isc ip pp = Some out -> ExpandsO stack rd (Def h ws a) out
  | EO_scp : forall stack rd h ks a ks',
      odis h = false -> ExpandsL stack rd ks ks' ->
      ExpandsO stack rd (Scp h ks a) [Scp (with_tmpl h 0%Z) ks' a].

  Scheme Expands_m := Minimality for Expands Sort Prop
    with ExpandsL_m := Minimality for ExpandsL Sort Prop
    with ExpandsO_m := Minimality for ExpandsO Sort Prop.
  Combined Scheme Expands_mut from Expands_m, ExpandsL_m, ExpandsO_m.
  End Chk.

  (* the include graph on normalised absolute names *)
  Definition edge (n m : str) : Prop :=
    exists objs x, fs_get fs (fs_key n) = Ok objs /\ In x (targets objs)
                   /\ m = nrm cwd (resolve (Some (dirname n)) x).

  Fixpoint chain (l:list str) : Prop :=
    match l with
    | a :: r => match r with b :: _ => edge a b /\ chain r | [] => True end
    | [] => True
    end.

  Inductive reach (n0:str) : str -> Prop :=
  | reach_refl : reach n0 n0
  | reach_step : forall n m, reach n0 n -> edge n m -> reach n0 m.

  (* some walk along include edges from n0 comes back to a file it has passed *)
  Definition cyclic_from (n0:str) : Prop := exists c, chain (n0 :: c) /\ ~ NoDup (n0 :: c).
  (* no walk from n0 does (diamonds are fine) *)
  Definition acyclic_from (n0:str) : Prop := forall c, chain (n0 :: c) -> NoDup (n0 :: c).

  (* the file exists, parses, and its own include lines are all well-formed *)
  Definition clean (n:str) : Prop :=
    exists objs t, fs_get fs (fs_key n) = Ok objs /\ walks isc (fun _ => Ok []) None objs = Ok t.

  (* what an IncludeCycle report must look like: the text names a chain of include edges that
     starts with [start] and whose last element repeats an earlier one *)
  Definition genuine_cycle_report (start:list str) (tok:str) : Prop :=
    exists c pre x, tok = chain_text c /\ chain c /\ (exists ext, c = start ++ ext)
                    /\ c = pre ++ [x] /\ In x pre.
End Spec.
