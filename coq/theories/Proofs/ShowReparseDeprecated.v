(* C01 / C19: DEPRECATED definitions at attributes levels 2 and 3.
   Domain [stree_ok_d w p]: ShowReparseAttrs.stree_ok, and additionally the attribute .deprecated of a
   definition may hold a non-empty string that fits on its line (what the parser stores for a line
   '.deprecated = True': definition.assign_attribute reads .deprecated through str_from_words).
   Level 3: the printer writes such a definition after a comment line '# WARNING: deprecated parameter';
   the parser skips the comment line (after an attribute value, collect_assigned_words takes '#' as the start
   of a comment that runs to the end of the line) and the text parses back to the whole tree, deprecated
   definitions and their '.deprecated' value included            [parse_as_str_level3_deprecated].
   Level 2: deprecated definitions are hidden; the text parses to the tree without them
                                                                  [parse_as_str_level2_hides_deprecated].
   Outside the domain: .deprecated holding the bool True (not obtainable from a PHIL text) is printed as
   '.deprecated = True' and read back as the string "True"       [deprecated_bool_differs]; section 3b: on the
   domain [stree_ok_b] (.deprecated a bool or any fitting string) the text parses to the tree normalised by
   [norm_dep] (True -> "True", False / "" -> unset)              [parse_as_str_level3_deprecated_bool].
   Section 5, DOTTED NAMES at level 3: domain [sdtree_ok w m p] = the shape scope.adopt builds (TreeRoundtrip.dtree_ok:
   prefix scopes with one child carrying merge_names, no attribute set on a prefix scope) with the attribute
   conditions of stree_ok_d on definitions and braced scopes; the level-3 text parses back to the whole tree
                                                                  [parse_as_str_level3_dotted];
   stree_ok_d is inside sdtree_ok [] ([stree_ok_d_sdtree_ok]).
   Section 6, DOTTED NAMES at every level >= 1 without deprecated definitions (domain [ldtree_ok], attribute
   conditions of stree_ok): the level-lvl text parses to [eraseL lvl] of the tree [parse_as_str_levels_dotted];
   at level 2 that is erase3 of the tree [parse_as_str_level2_dotted]; stree_ok is inside ldtree_ok []. *)
From Coq Require Import List Ascii String Bool Arith ZArith Lia.
From Phil Require Import Base Tokenizer Tree Parser Show QuoteProofs LexProofs ParserTotal ParserLayout
                         ShowProofs ShowErase WordsRoundtrip TreeRoundtrip ShowReparse ShowReparseAttrs.
Import ListNotations.
Local Open Scope char_scope.

(* ====================================================================================== *)
(* 1. the domain                                                                            *)
(* ====================================================================================== *)

Definition dep_name : str := s_ "deprecated".
Definition dep_str_ok (w:Z) (p n:str) (v:aval) : bool :=
  eqs n dep_name && match v with AStr s => negb (is_nil s) && str_fits w p n s | _ => false end.
Definition sdef_attr_ok_d (w:Z) (p n:str) (v:aval) : bool := sdef_attr_ok w p n v || dep_str_ok w p n v.

Fixpoint stree_ok_d (w:Z) (p:str) (o:obj) : bool :=
  match o with
  | Def h ws a => hdr_ok h && negb (is_nil ws) && words_ok ws
                  && forallb (fun n => sdef_attr_ok_d w p n (get_attr n a)) def_attr_names
  | Scp h ks a => hdr_ok h && forallb (fun n => sscope_attr_ok w p n (get_attr n a)) scope_attr_names
                  && forallb (stree_ok_d w (p ++ s_ "  ")) ks
  end.

Definition is_dep (o:obj) : bool :=
  match o with Def _ _ a => py_truthy (get_attr dep_name a) | Scp _ _ _ => false end.

(* the tree without its deprecated definitions *)
Fixpoint drop_dep (o:obj) : list obj :=
  match o with
  | Def h ws a => if py_truthy (get_attr dep_name a) then [] else [o]
  | Scp h ks a => [Scp h (flat_map drop_dep ks) a]
  end.
Definition drop_deprecated (l:list obj) : list obj := flat_map drop_dep l.

Lemma dep_str_truthy : forall w p n v, dep_str_ok w p n v = true ->
  n = dep_name /\ exists s, v = AStr s /\ py_truthy v = true /\ str_fits w p n s = true.
Proof.
  intros w p n v H. unfold dep_str_ok in H. apply andb_prop in H as [Hn Hv]. apply eqs_true in Hn.
  split; [exact Hn|]. destruct v as [| | | |s|]; try discriminate Hv. apply andb_prop in Hv as [H1 H2].
  exists s. split; [reflexivity|]. split; [|exact H2]. destruct s; [discriminate H1|reflexivity].
Qed.

Lemma sdef_d_not_dep : forall w p a,
  forallb (fun n => sdef_attr_ok_d w p n (get_attr n a)) def_attr_names = true ->
  py_truthy (get_attr dep_name a) = false ->
  forallb (fun n => sdef_attr_ok w p n (get_attr n a)) def_attr_names = true.
Proof.
  intros w p a H Hd. apply forallb_forall. intros n Hn. rewrite forallb_forall in H. specialize (H n Hn).
  unfold sdef_attr_ok_d in H. apply orb_prop in H as [H|H]; [exact H|].
  destruct (dep_str_truthy _ _ _ _ H) as (-> & s & _ & Ht & _). rewrite Hd in Ht. discriminate Ht.
Qed.

Lemma stree_ok_is_d : forall w o p, stree_ok w p o = true -> stree_ok_d w p o = true.
Proof.
  intros w o. induction o as [h ws a|h ks a IH] using obj_ind2; intros p H; cbn [stree_ok stree_ok_d] in *.
  - apply andb_prop in H as [H Ha]. rewrite H. cbn [andb].
    apply forallb_forall. intros n Hn. rewrite forallb_forall in Ha. unfold sdef_attr_ok_d. rewrite (Ha n Hn). reflexivity.
  - apply andb_prop in H as [H Hks]. rewrite H. cbn [andb].
    apply forallb_forall. intros c Hc. rewrite Forall_forall in IH. rewrite forallb_forall in Hks.
    exact (IH c Hc _ (Hks c Hc)).
Qed.

Lemma drop_dep_stree_ok : forall w o p, stree_ok_d w p o = true -> forallb (stree_ok w p) (drop_dep o) = true.
Proof.
  intros w o. induction o as [h ws a|h ks a IH] using obj_ind2; intros p H; cbn [drop_dep].
  - destruct (py_truthy (get_attr dep_name a)) eqn:Ed; [reflexivity|]. cbn [forallb]. rewrite andb_true_r.
    cbn [stree_ok_d stree_ok] in *. apply andb_prop in H as [H Ha]. rewrite H. cbn [andb].
    exact (sdef_d_not_dep w p a Ha Ed).
  - cbn [forallb]. rewrite andb_true_r. cbn [stree_ok_d stree_ok] in *.
    apply andb_prop in H as [H Hks]. rewrite H. cbn [andb].
    apply forallb_forall. intros x Hx. apply in_flat_map in Hx as (c & Hc & Hx).
    rewrite Forall_forall in IH. rewrite forallb_forall in Hks.
    specialize (IH c Hc _ (Hks c Hc)). rewrite forallb_forall in IH. exact (IH x Hx).
Qed.

Lemma drop_deprecated_stree_ok : forall w p l, forallb (stree_ok_d w p) l = true ->
  forallb (stree_ok w p) (drop_deprecated l) = true.
Proof.
  intros w p l H. apply forallb_forall. intros x Hx. apply in_flat_map in Hx as (c & Hc & Hx).
  rewrite forallb_forall in H. pose proof (drop_dep_stree_ok w c p (H c Hc)) as H'.
  rewrite forallb_forall in H'. exact (H' x Hx).
Qed.

Lemma stree_ok_d_hdr : forall w p o, stree_ok_d w p o = true -> hdr_ok (ohdr o) = true.
Proof.
  intros w p [h ws a|h ks a] H; cbn [stree_ok_d ohdr] in *.
  - apply andb_prop in H as [H _]. apply andb_prop in H as [H _]. apply andb_prop in H as [H _]. exact H.
  - apply andb_prop in H as [H _]. apply andb_prop in H as [H _]. exact H.
Qed.

(* ====================================================================================== *)
(* 2. level 2 (and every level below 3): deprecated definitions are not printed             *)
(* ====================================================================================== *)

Lemma show_list_app_ok : forall l1 l2 p lvl w t1 t2,
  show_list l1 [] p None lvl w = Ok t1 -> show_list l2 [] p None lvl w = Ok t2 ->
  show_list (l1 ++ l2) [] p None lvl w = Ok (t1 ++ t2).
Proof. intros. rewrite show_list_app, H, H0. reflexivity. Qed.

Theorem show_obj_hides_deprecated : forall lvl w, (0 <? lvl)%Z = true -> (lvl <? 3)%Z = true ->
  forall o p, stree_ok_d w p o = true ->
  show_obj o [] p None lvl w = Ok (ltxts lvl w p (drop_dep o)).
Proof.
  intros lvl w Hlvl H3 o. induction o as [h ws a|h ks a IH] using obj_ind2; intros p Hok.
  - cbn [drop_dep]. destruct (py_truthy (get_attr dep_name a)) eqn:Ed.
    + cbn [show_obj]. unfold show_def. fold dep_name. rewrite Ed, H3. cbn [andb].
      destruct ((otmpl h <? 0)%Z && (lvl <? 2)%Z); reflexivity.
    + unfold ltxts. cbn [flat_map]. rewrite app_nil_r. apply (show_obj_ltxt lvl w Hlvl).
      pose proof (drop_dep_stree_ok w (Def h ws a) p Hok) as H. cbn [drop_dep] in H. rewrite Ed in H.
      cbn [forallb] in H. rewrite andb_true_r in H. exact H.
  - cbn [stree_ok_d] in Hok. apply andb_prop in Hok as [Hok Hks]. apply andb_prop in Hok as [Hh Hat].
    destruct (hdr_ok_facts h Hh) as (Hn & Ht & _).
    destruct (name_ok_facts _ Hn) as (Hid & _).
    destruct (ident_shape _ Hid) as (c & n' & En & _).
    assert (Hfm : first_merges ks = false).
    { destruct ks as [|k r]; [reflexivity|]. cbn [first_merges forallb] in *.
      apply andb_prop in Hks as [Hk _]. apply stree_ok_d_hdr, hdr_ok_facts in Hk. apply Hk. }
    assert (Hkids : show_list ks [] (p ++ s_ "  ") None lvl w = Ok (ltxts lvl w (p ++ s_ "  ") (flat_map drop_dep ks))).
    { clear Hfm. induction IH as [|k r Hk Hr IHr]; [reflexivity|].
      cbn [forallb] in Hks. apply andb_prop in Hks as [Hk' Hr'].
      cbn [show_list flat_map]. rewrite (Hk _ Hk'), (IHr Hr'). cbn [bind]. unfold ltxts. rewrite flat_map_app. reflexivity. }
    rewrite show_obj_scp. unfold show_scope_body.
    rewrite Ht, hidden_none, Hfm. cbn [Z.ltb Z.compare andb bind].
    rewrite En at 1.
    unfold show_attributes.
    assert (Hle : (lvl <=? 0)%Z = false) by (apply Z.leb_gt; apply Z.ltb_lt in Hlvl; lia).
    rewrite Hle.
    rewrite (show_attrs_lines p a lvl w scope_attr_names (fits_of_ok (sscope_attr_ok w p) w p a _ (sscope_fits w p) Hat)).
    cbn [bind app join_with].
    rewrite Hkids. cbn [bind drop_dep]. unfold ltxts at 2. cbn [flat_map ltxt]. rewrite app_nil_r. unfold scope_open.
    destruct (alines lvl p scope_attr_names a) as [|c0 al] eqn:Eal.
    + unfold bang, ltxts. rewrite <- !app_assoc. reflexivity.
    + unfold bang, ltxts. rewrite <- !app_assoc. reflexivity.
Qed.

Theorem show_objs_hides_deprecated : forall lvl w l p, (0 <? lvl)%Z = true -> (lvl <? 3)%Z = true ->
  forallb (stree_ok_d w p) l = true ->
  show_objs l p None lvl w = show_objs (drop_deprecated l) p None lvl w.
Proof.
  intros lvl w l p Hlvl H3 H.
  rewrite (show_objs_ltxts lvl w (drop_deprecated l) p Hlvl (drop_deprecated_stree_ok w p l H)).
  rewrite show_objs_list. induction l as [|o r IH]; [reflexivity|].
  cbn [forallb] in H. apply andb_prop in H as [Ho Hr].
  cbn [show_list]. rewrite (show_obj_hides_deprecated lvl w Hlvl H3 o p Ho), (IH Hr). cbn [bind].
  unfold drop_deprecated, ltxts. cbn [flat_map]. rewrite flat_map_app. reflexivity.
Qed.

(* THE LEVEL-2 TEXT PARSES TO THE TREE WITHOUT ITS DEPRECATED DEFINITIONS *)
Theorem parse_as_str_level2_hides_deprecated : forall o l w text,
  forallb (stree_ok_d (width_of w) []) l = true ->
  as_str l [] None 2 w = Ok text ->
  exists l', parse o text = Ok l' /\ map erase_obj l' = map erase3 (drop_deprecated l).
Proof.
  intros o l w text Hok H. unfold as_str in H. fold (width_of w) in H.
  rewrite (show_objs_hides_deprecated 2 (width_of w) l [] eq_refl eq_refl Hok) in H.
  apply (parse_as_str_level2_strings o (drop_deprecated l) w text
           (drop_deprecated_stree_ok _ _ l Hok)).
  unfold as_str. fold (width_of w). exact H.
Qed.
Print Assumptions parse_as_str_level2_hides_deprecated.

(* ====================================================================================== *)
(* 3. level 3: the comment line in front of a deprecated definition                         *)
(* ====================================================================================== *)

Definition warn_body : str := s_ " WARNING: deprecated parameter".
Definition warn_line (p:str) : str := line (p ++ s_ "# WARNING: deprecated parameter").

Lemma warn_line_split : forall p tl, warn_line p ++ tl = p ++ "#" :: warn_body ++ nl :: tl.
Proof. intros. unfold warn_line, line, warn_body. rewrite <- !app_assoc. reflexivity. Qed.

(* structure context: the comment line is skipped *)
Lemma nw_warn : forall p tl line, blank p -> nw s0 false (warn_line p ++ tl) line = nw s0 false tl (S line).
Proof.
  intros p tl line [Hp1 Hp2]. rewrite warn_line_split, (nw_skip_blanks s0 p _ _ Hp1), Hp2, Nat.add_0_r.
  apply nw_s0_comment; reflexivity.
Qed.

(* what may follow an attribute value: as before, or the comment line and then what may follow a value *)
Definition vends (rest:str) (line:nat) : Prop :=
  value_ends rest line \/
  exists p rest', blank p /\ rest = warn_line p ++ rest' /\ value_ends rest' (S line).
Definition follow_ok_d (rest:str) : Prop := forall line, vends rest line.

Lemma follow_ok_is_d : forall rest, follow_ok rest -> follow_ok_d rest.
Proof. intros rest H line. left. apply H. Qed.

(* value context, inside a comment *)
Lemma caw_comment_step : forall f s line last acc lead w r l,
  nw s1 false s line = TWord w r l -> isq w = false -> weq last [bs] = false -> wline w = wline last ->
  caw (S f) s line true last acc lead = caw f r l true w acc lead.
Proof.
  intros f s line last acc lead w r l H Hq Hl Hline. cbn [caw]. rewrite H, Hq, Hl, Hline, Nat.eqb_refl. reflexivity.
Qed.
Lemma caw_comment_stop : forall f s line last a acc lead w r l,
  nw s1 false s line = TWord w r l -> isq w = false -> weq last [bs] = false -> wline w <> wline last ->
  caw (S f) s line true last (a :: acc) lead = Ok (rev (a :: acc), s, line).
Proof.
  intros f s line last a acc lead w r l H Hq Hl Hline. cbn [caw]. rewrite H, Hq, Hl.
  apply Nat.eqb_neq in Hline. rewrite Hline. reflexivity.
Qed.
Lemma caw_comment_end : forall f s line last a acc lead,
  nw s1 false s line = TEnd -> caw (S f) s line true last (a :: acc) lead = Ok (rev (a :: acc), [], line).
Proof. intros. cbn [caw]. rewrite H. reflexivity. Qed.
Lemma caw_hash_step : forall f s line last acc lead r l l',
  nw s1 false s line = TWord (mkword ["#"] QN l') r l ->
  caw (S f) s line false last acc lead = caw f r l true (mkword ["#"] QN l') acc lead.
Proof. intros f s line last acc lead r l l' H. cbn [caw]. rewrite H. reflexivity. Qed.

Lemma caw_one_gword_c : forall x p rest' line lead,
  word_ok x = true -> wline lead = line -> weq lead [bs] = false -> blank p ->
  value_ends rest' (S (S (line + count_nl (wv x)))) ->
  exists s', caw (S (length (" " :: str_of_word x ++ nl :: warn_line p ++ rest')))
                 (" " :: str_of_word x ++ nl :: warn_line p ++ rest') line false lead [] lead
             = Ok ([setl x line], s', S (line + count_nl (wv x)))
    /\ length s' <= S (length rest')
    /\ nw s0 false s' (S (line + count_nl (wv x))) = nw s0 false rest' (S (S (line + count_nl (wv x)))).
Proof.
  intros x p rest' line lead Hw Hl Hlead [Hp1 Hp2] Hend.
  set (L := line + count_nl (wv x)) in *.
  set (W := warn_line p ++ rest').
  set (t3 := nl :: rest').
  set (t2 := " " :: s_ "parameter" ++ t3).
  set (t1 := " " :: s_ "deprecated" ++ t2).
  set (t0 := " " :: s_ "WARNING:" ++ t1).
  assert (HW : W = p ++ ["#"] ++ t0).
  { unfold W. rewrite warn_line_split. reflexivity. }
  assert (Hfuel : exists k, S (length (" " :: str_of_word x ++ nl :: W)) = S (S (S (S (S (S k)))))).
  { rewrite HW. exists (length (str_of_word x) + length p + 29 + length rest').
    unfold t0, t1, t2, t3. cbn [s_ String.list_ascii_of_string app length].
    rewrite !app_length. cbn [length]. rewrite !app_length. cbn [length]. lia. }
  destruct Hfuel as (k & ->).
  (* the value word *)
  assert (Hn1 : nw s1 false (" " :: str_of_word x ++ nl :: W) line = TWord (setl x line) (nl :: W) L).
  { rewrite nw_sp. apply nw_word; [exact Hw|]. exists nl, W. split; [reflexivity|right; reflexivity]. }
  assert (Hstep1 : caw (S (S (S (S (S (S k)))))) (" " :: str_of_word x ++ nl :: W) line false lead [] lead
                   = caw (S (S (S (S (S k))))) (nl :: W) L false (setl x line) [setl x line] lead).
  { destruct (isq x) eqn:Eq.
    - apply (caw_step_quoted _ _ _ _ _ _ _ _ _ Hn1 Eq).
    - rewrite (caw_step_same_line _ _ _ _ _ _ _ _ _ Hn1 Eq (word_ok_not_special x _ Hw Eq) Hlead (eq_sym Hl)).
      destruct (word_ok_unq x Hw Eq) as (_ & Hb & _).
      change (is1 (setl x line) bs) with (eqs (wv x) [bs]). rewrite Hb. reflexivity. }
  rewrite Hstep1.
  (* '#' *)
  assert (Hn2 : nw s1 false (nl :: W) L = TWord (mkword ["#"] QN (S L)) t0 (S L)).
  { rewrite nw_nl, HW, (nw_skip_blanks s1 p _ _ Hp1), Hp2, Nat.add_0_r. apply nw_unquoted; reflexivity. }
  rewrite (caw_hash_step _ _ _ _ _ _ _ _ _ Hn2).
  (* the words of the comment *)
  assert (Hn3 : nw s1 false t0 (S L) = TWord (mkword (s_ "WARNING:") QN (S L)) t1 (S L)).
  { unfold t0. rewrite nw_sp. apply nw_unquoted; reflexivity. }
  erewrite caw_comment_step; [|exact Hn3|reflexivity|reflexivity|reflexivity].
  assert (Hn4 : nw s1 false t1 (S L) = TWord (mkword (s_ "deprecated") QN (S L)) t2 (S L)).
  { unfold t1. rewrite nw_sp. apply nw_unquoted; reflexivity. }
  erewrite caw_comment_step; [|exact Hn4|reflexivity|reflexivity|reflexivity].
  assert (Hn5 : nw s1 false t2 (S L) = TWord (mkword (s_ "parameter") QN (S L)) t3 (S L)).
  { unfold t2. rewrite nw_sp. apply nw_unquoted; reflexivity. }
  erewrite caw_comment_step; [|exact Hn5|reflexivity|reflexivity|reflexivity].
  (* the next line *)
  unfold t3.
  destruct Hend as [Hb | (w & r & l & Hnw & Hq & _ & _)].
  - exists []. split; [|split].
    + apply caw_comment_end. rewrite nw_nl. apply nw_all_blank; exact Hb.
    + cbn [length]. lia.
    + rewrite (nw_all_blank s0 rest' _ Hb). reflexivity.
  - exists (nl :: rest'). split; [|split].
    + eapply caw_comment_stop; [rewrite nw_nl; exact Hnw|exact Hq|reflexivity|].
      destruct (nw_lines _ _ _ _ _ _ _ Hnw) as (pre & body & _ & Hwl & _). cbn [wline]. lia.
    + cbn [length]. lia.
    + apply nw_nl.
Qed.

(* one attribute value, whatever may follow it *)
Lemma caw_one_gword_d : forall x rest line lead,
  word_ok x = true -> wline lead = line -> weq lead [bs] = false ->
  vends rest (S (line + count_nl (wv x))) ->
  exists s' L', caw (S (length (" " :: str_of_word x ++ nl :: rest))) (" " :: str_of_word x ++ nl :: rest) line false lead [] lead
             = Ok ([setl x line], s', L')
    /\ length s' <= S (length rest)
    /\ nw s0 false s' L' = nw s0 false rest (S (line + count_nl (wv x))).
Proof.
  intros x rest line lead Hw Hl Hlead [Hend | (p & rest' & Hp & -> & Hend)].
  - destruct (caw_one_gword x rest line lead Hw Hl Hlead Hend) as (s' & Hc & Hs & Hn).
    exists s', (line + count_nl (wv x)). split; [exact Hc|]. split; [|exact Hn].
    destruct Hs as [->|[-> _]]; cbn [length]; lia.
  - destruct (caw_one_gword_c x p rest' line lead Hw Hl Hlead Hp Hend) as (s' & Hc & Hs & Hn).
    exists s', (S (line + count_nl (wv x))). split; [exact Hc|]. split.
    + rewrite app_length. lia.
    + rewrite Hn. symmetry. apply nw_warn; exact Hp.
Qed.

(* ---------- attribute lines, with the comment line possibly after the last one *)
Lemma cobj_def_aline_d : forall o p n v rest line,
  blank p -> is_ident n = true -> mems n def_attr_names = true ->
  word_ok (rw v) = true -> (forall l, assign_def_attr o n [setl (rw v) l] = Ok v) ->
  vends rest (S (line + count_nl (wv (rw v)))) ->
  exists s' L', length s' <= S (length rest)
    /\ nw s0 false s' L' = nw s0 false rest (S (line + count_nl (wv (rw v))))
    /\ forall f nid stop start prev ad acc,
       cobj o (S f) (aline p n v ++ rest) line nid stop start prev (Some ad) acc
       = cobj o f s' L' nid stop start line (Some (attach n v ad)) acc.
Proof.
  intros o p n v rest line Hp Hid Hmem Hw Has Hend.
  destruct (caw_one_gword_d (rw v) rest line (mkword ("." :: n) QN line) Hw eq_refl eq_refl Hend)
    as (s' & L' & Hc & Hs & Hn).
  exists s', L'. split; [exact Hs|]. split; [exact Hn|].
  intros f nid stop start prev ad acc.
  rewrite aline_split, (cobj_attr_step o f (p ++ s_ "  ") n _ line nid stop start prev ad acc (blank_p2 p Hp) Hid Hmem).
  rewrite Hc. cbn [bind]. rewrite Has. cbn [bind]. reflexivity.
Qed.

Lemma follow_alines_d : forall lvl p a rest ns, blank p -> Forall (fun n => is_ident n = true) ns ->
  follow_ok_d rest -> follow_ok_d (alines lvl p ns a ++ rest).
Proof.
  intros lvl p a rest ns Hp H Hfol. induction H as [|n r Hn Hr IH]; [exact Hfol|].
  unfold alines in *. cbn [flat_map].
  destruct (attr_visible n (get_attr n a) lvl); [|exact IH].
  rewrite <- app_assoc, aline_split. intros line. left.
  destruct (dot_unq_ok n Hn) as (Hu & Hh).
  change ("." :: n ++ " " :: "=" :: ?X) with (("." :: n) ++ " " :: "=" :: X).
  apply value_ends_unquoted; try assumption; [apply (blank_p2 p Hp)|reflexivity].
Qed.

Lemma cobj_def_alines_d : forall lvl o a ns, Forall (good_def o a) ns ->
  forall p rest f line nid stop start prev ad acc,
  blank p -> follow_ok_d rest -> length (alines lvl p ns a ++ rest) < f ->
  exists line' prev', forall g, length rest < g ->
    eqres stop (cobj o f (alines lvl p ns a ++ rest) line nid stop start prev (Some ad) acc)
               (cobj o g rest line' nid stop start prev' (Some (attach_vis lvl a ns ad)) acc).
Proof.
  intros lvl o a ns H. induction H as [|n r Hn Hr IH]; intros p rest f line nid stop start prev ad acc Hp Hfol Hf.
  - exists line, prev. intros g Hg. cbn [alines flat_map app attach_vis fold_left] in *.
    apply cobj_fuel_eq; assumption.
  - destruct Hn as (Hid & Hmem & Hw & Has).
    unfold alines in Hf |- *. cbn [flat_map] in Hf |- *. unfold attach_vis. cbn [fold_left].
    destruct (attr_visible n (get_attr n a) lvl) eqn:Esk.
    + rewrite <- app_assoc in Hf |- *.
      fold (alines lvl p r a) in Hf |- *.
      set (rest1 := alines lvl p r a ++ rest) in *.
      assert (Hids : Forall (fun n => is_ident n = true) r).
      { apply Forall_forall. intros x Hx. rewrite Forall_forall in Hr. apply (Hr x Hx). }
      pose proof (follow_alines_d lvl p a rest r Hp Hids Hfol) as Hfol1. fold rest1 in Hfol1.
      destruct (cobj_def_aline_d o p n (get_attr n a) rest1 line Hp Hid Hmem Hw Has (Hfol1 _))
        as (s' & L' & Hs & Hnw & Hc).
      set (L := line + count_nl (wv (rw (get_attr n a)))) in *.
      destruct (IH p rest (S (length rest1)) (S L) nid stop start line (attach n (get_attr n a) ad) acc
                  Hp Hfol (Nat.lt_succ_diag_r _)) as (line' & prev' & Hc2).
      exists line', prev'. intros g Hg.
      set (X := aline p n (get_attr n a) ++ rest1) in *.
      assert (Hlen : length rest1 < length X).
      { unfold X. rewrite app_length. pose proof (aline_len p n (get_attr n a)). lia. }
      rewrite (cobj_fuel_enough o f (S (S (length X))) X) by lia.
      unfold X at 2. rewrite Hc.
      eapply eqres_trans; [|apply (Hc2 g Hg)].
      apply cobj_pos_eq; [exact Hnw|lia|unfold rest1; lia].
    + exact (IH p rest f line nid stop start prev ad acc Hp Hfol Hf).
Qed.

(* ---------- the printed value of .deprecated is read back *)
Lemma sdef_fits_d : forall w p n v, sdef_attr_ok_d w p n v = true -> aval_fits w p n v = true.
Proof.
  intros w p n v H. unfold sdef_attr_ok_d in H. apply orb_prop in H as [H|H]; [exact (sdef_fits w p n v H)|].
  destruct (dep_str_truthy _ _ _ _ H) as (_ & s & -> & _ & Hf). exact Hf.
Qed.

Lemma sdef_back_d : forall o w p n v, sdef_attr_ok_d w p n v = true ->
  word_ok (rw v) = true /\ forall l, assign_def_attr o n [setl (rw v) l] = Ok v.
Proof.
  intros o w p n v H. unfold sdef_attr_ok_d in H. apply orb_prop in H as [H|H]; [exact (sdef_back o w p n v H)|].
  destruct (dep_str_truthy _ _ _ _ H) as (-> & s & -> & _ & _).
  split; [apply rw_str_word_ok|]. intros l.
  unfold assign_def_attr.
  change (eqs dep_name (s_ "optional") || eqs dep_name (s_ "multiple")) with false.
  change (eqs dep_name (s_ "type")) with false.
  change (eqs dep_name (s_ "input_size") || eqs dep_name (s_ "expert_level")) with false.
  cbv iota. rewrite str_from_rw. reflexivity.
Qed.

Lemma good_defs_d : forall o w p a, forallb (fun n => sdef_attr_ok_d w p n (get_attr n a)) def_attr_names = true ->
  Forall (good_def o a) def_attr_names.
Proof.
  intros o w p a H. apply Forall_forall. intros n Hn. rewrite forallb_forall in H. specialize (H n Hn).
  split; [exact (def_names_ident n Hn)|]. split; [exact (in_mems n _ Hn)|]. exact (sdef_back_d o w p n _ H).
Qed.

(* ---------- the level-3 text *)
Fixpoint ltxt3 (w:Z) (p:str) (o:obj) : str :=
  match o with
  | Def h ws a => (if py_truthy (get_attr dep_name a) then warn_line p else [])
                  ++ show_words ws (def_cur p (odis h) (oname h)) (def_indent p (odis h) (oname h)) w
                  ++ alines 3 p def_attr_names a
  | Scp h ks a => scope_open 3 p h a ++ flat_map (ltxt3 w (p ++ s_ "  ")) ks ++ line (p ++ ["}"])
  end.
Definition ltxts3 (w:Z) (p:str) (l:list obj) : str := flat_map (ltxt3 w p) l.

Lemma show_list_ltxts3 : forall w p l,
  Forall (fun o => show_obj o [] p None 3 w = Ok (ltxt3 w p o)) l ->
  show_list l [] p None 3 w = Ok (ltxts3 w p l).
Proof.
  intros w p l H. induction H as [|o r Ho Hr IH]; [reflexivity|].
  cbn [show_list]. rewrite Ho, IH. reflexivity.
Qed.

Theorem show_obj_ltxt3 : forall w o p, stree_ok_d w p o = true ->
  show_obj o [] p None 3 w = Ok (ltxt3 w p o).
Proof.
  intros w o. induction o as [h ws a|h ks a IH] using obj_ind2; intros p Hok.
  - cbn [stree_ok_d] in Hok. apply andb_prop in Hok as [Hok Hat]. apply andb_prop in Hok as [Hok _].
    apply andb_prop in Hok as [Hh _].
    destruct (hdr_ok_facts h Hh) as (Hn & Ht & _).
    destruct (name_ok_facts _ Hn) as (_ & Hinc & _).
    cbn [show_obj ltxt3]. unfold show_def. fold dep_name.
    rewrite Ht, hidden_none, Hinc. change (3 <? 3)%Z with false. rewrite andb_false_r.
    cbn [Z.ltb Z.compare andb bind].
    unfold show_attributes. change (3 <=? 0)%Z with false. cbv iota.
    rewrite (show_attrs_lines p a 3 w def_attr_names (fits_of_ok (sdef_attr_ok_d w p) w p a _ (sdef_fits_d w p) Hat)).
    cbn [bind app join_with]. rewrite ?andb_false_r. unfold warn_line. reflexivity.
  - cbn [stree_ok_d] in Hok. apply andb_prop in Hok as [Hok Hks]. apply andb_prop in Hok as [Hh Hat].
    destruct (hdr_ok_facts h Hh) as (Hn & Ht & _).
    destruct (name_ok_facts _ Hn) as (Hid & _).
    destruct (ident_shape _ Hid) as (c & n' & En & _).
    assert (Hfm : first_merges ks = false).
    { destruct ks as [|k r]; [reflexivity|]. cbn [first_merges forallb] in *.
      apply andb_prop in Hks as [Hk _]. apply stree_ok_d_hdr, hdr_ok_facts in Hk. apply Hk. }
    assert (Hkids : Forall (fun o => show_obj o [] (p ++ s_ "  ") None 3 w = Ok (ltxt3 w (p ++ s_ "  ") o)) ks).
    { clear Hfm. induction IH as [|k r Hk Hr IHr]; constructor.
      - cbn [forallb] in Hks. apply andb_prop in Hks as [Hk' _]. exact (Hk _ Hk').
      - cbn [forallb] in Hks. apply andb_prop in Hks as [_ Hr']. exact (IHr Hr'). }
    rewrite show_obj_scp. unfold show_scope_body.
    rewrite Ht, hidden_none, Hfm. cbn [Z.ltb Z.compare andb bind].
    rewrite En at 1.
    unfold show_attributes. change (3 <=? 0)%Z with false. cbv iota.
    rewrite (show_attrs_lines p a 3 w scope_attr_names (fits_of_ok (sscope_attr_ok w p) w p a _ (sscope_fits w p) Hat)).
    cbn [bind app join_with].
    rewrite (show_list_ltxts3 w (p ++ s_ "  ") ks Hkids). cbn [bind ltxt3]. unfold scope_open.
    destruct (alines 3 p scope_attr_names a) as [|c0 al] eqn:Eal.
    + unfold bang, ltxts3. rewrite <- !app_assoc. reflexivity.
    + unfold bang, ltxts3. rewrite <- !app_assoc. reflexivity.
Qed.

Theorem show_objs_ltxts3 : forall w l p, forallb (stree_ok_d w p) l = true ->
  show_objs l p None 3 w = Ok (ltxts3 w p l).
Proof.
  intros w l p H. rewrite show_objs_list. apply show_list_ltxts3.
  apply Forall_forall. intros o Ho. rewrite forallb_forall in H. exact (show_obj_ltxt3 w o p (H o Ho)).
Qed.

(* ---------- what follows an object of the level-3 text *)
Definition body3 (w:Z) (p:str) (o:obj) : str :=
  match o with
  | Def h ws a => show_words ws (def_cur p (odis h) (oname h)) (def_indent p (odis h) (oname h)) w
                  ++ alines 3 p def_attr_names a
  | Scp h ks a => ltxt3 w p o
  end.
Lemma ltxt3_body : forall w p o, ltxt3 w p o = (if is_dep o then warn_line p else []) ++ body3 w p o.
Proof. intros w p [h ws a|h ks a]; reflexivity. Qed.

Lemma follow_body3 : forall w p o tl line, blank p -> stree_ok_d w p o = true -> value_ends (body3 w p o ++ tl) line.
Proof.
  intros w p o tl line [Hp _] Hok.
  pose proof (stree_ok_d_hdr w p o Hok) as Hh. apply hdr_ok_facts in Hh. destruct Hh as (Hn & _).
  apply name_ok_facts in Hn. destruct Hn as (Hid & _).
  destruct (lead_unq_ok (odis (ohdr o)) _ Hid) as (Hu & Hh).
  assert (HT : exists c X, (c = " " \/ c = nl) /\
                 body3 w p o ++ tl = p ++ (bang (odis (ohdr o)) ++ oname (ohdr o)) ++ c :: X).
  { destruct o as [h ws a|h ks a]; cbn [body3 ltxt3 ohdr].
    - exists " ". rewrite <- app_assoc, show_words_vtail. unfold def_cur at 1. eexists. split; [left; reflexivity|].
      rewrite <- !app_assoc. cbn [s_ String.list_ascii_of_string app]. reflexivity.
    - unfold scope_open. destruct (alines 3 p scope_attr_names a).
      + exists " ". unfold Show.line. eexists. split; [left; reflexivity|].
        rewrite <- !app_assoc. cbn [s_ String.list_ascii_of_string app]. reflexivity.
      + exists nl. unfold Show.line. eexists. split; [right; reflexivity|].
        rewrite <- !app_assoc. cbn [app]. reflexivity. }
  destruct HT as (c & X & Hc & ->).
  apply value_ends_unquoted; try assumption. destruct Hc as [-> | ->]; reflexivity.
Qed.

Lemma follow_ltxt3 : forall w p o tl, blank p -> stree_ok_d w p o = true -> follow_ok_d (ltxt3 w p o ++ tl).
Proof.
  intros w p o tl Hp Hok line. rewrite ltxt3_body. destruct (is_dep o).
  - right. exists p, (body3 w p o ++ tl). split; [exact Hp|]. split; [rewrite <- app_assoc; reflexivity|].
    apply follow_body3; assumption.
  - left. cbn [app]. apply follow_body3; assumption.
Qed.

Definition P5 (w:Z) (o:obj) : Prop := forall p, stree_ok_d w p o = true ->
  forall orc rest f line nid stop start prev active acc,
  blank p -> follow_ok_d rest -> length (ltxt3 w p o ++ rest) < f ->
  exists o' line' nid' prev' active' acc',
    flushed active' acc' = o' :: flushed active acc
    /\ erase_obj o' = eraseL 3 o
    /\ forall g, length rest < g ->
       eqres stop (cobj orc f (ltxt3 w p o ++ rest) line nid stop start prev active acc)
                  (cobj orc g rest line' nid' stop start prev' active' acc').

Definition PL5 (w:Z) (l:list obj) : Prop := forall p, forallb (stree_ok_d w p) l = true ->
  forall orc rest f line nid stop start prev active acc,
  blank p -> follow_ok_d rest -> length (ltxts3 w p l ++ rest) < f ->
  exists l' line' nid' prev' active' acc',
    flushed active' acc' = rev l' ++ flushed active acc
    /\ map erase_obj l' = map (eraseL 3) l
    /\ forall g, length rest < g ->
       eqres stop (cobj orc f (ltxts3 w p l ++ rest) line nid stop start prev active acc)
                  (cobj orc g rest line' nid' stop start prev' active' acc').

Lemma PL5_of_P5 : forall w l, Forall (P5 w) l -> PL5 w l.
Proof.
  intros w l H. induction H as [|o r Ho Hr IH]; intros p Hok orc rest f line nid stop start prev active acc Hp Hfol Hf.
  - exists [], line, nid, prev, active, acc. split; [reflexivity|]. split; [reflexivity|].
    intros g Hg. cbn [ltxts3 flat_map app] in *. apply cobj_fuel_eq; assumption.
  - cbn [forallb] in Hok. apply andb_prop in Hok as [Hoo Hor].
    assert (HT : ltxts3 w p (o :: r) ++ rest = ltxt3 w p o ++ (ltxts3 w p r ++ rest)).
    { unfold ltxts3. cbn [flat_map]. rewrite <- app_assoc. reflexivity. }
    rewrite HT in *.
    set (rest1 := ltxts3 w p r ++ rest) in *.
    assert (Hfol1 : follow_ok_d rest1).
    { unfold rest1. destruct r as [|o2 r2]; [exact Hfol|].
      cbn [forallb] in Hor. apply andb_prop in Hor as [Ho2 _].
      unfold ltxts3. cbn [flat_map]. rewrite <- app_assoc. apply follow_ltxt3; assumption. }
    destruct (Ho p Hoo orc rest1 f line nid stop start prev active acc Hp Hfol1 Hf)
      as (o' & line1 & nid1 & prev1 & active1 & acc1 & Hfl1 & Her1 & Hc1).
    destruct (IH p Hor orc rest (S (length rest1)) line1 nid1 stop start prev1 active1 acc1 Hp Hfol
                 (Nat.lt_succ_diag_r _))
      as (l' & line2 & nid2 & prev2 & active2 & acc2 & Hfl2 & Her2 & Hc2).
    exists (o' :: l'), line2, nid2, prev2, active2, acc2.
    split; [|split].
    + rewrite Hfl2, Hfl1. cbn [rev]. rewrite <- app_assoc. reflexivity.
    + cbn [map]. rewrite Her1, Her2. reflexivity.
    + intros g Hg. eapply eqres_trans; [apply (Hc1 (S (length rest1))); lia|apply Hc2; exact Hg].
Qed.

(* at level 3 a definition has attribute lines: .help is always printed *)
Lemma alines3_def_head : forall p a, exists tl,
  alines 3 p def_attr_names a = aline p (s_ "help") (get_attr (s_ "help") a) ++ tl.
Proof.
  intros p a. unfold alines, def_attr_names. cbn [flat_map].
  assert (Hv : attr_visible (s_ "help") (get_attr (s_ "help") a) 3 = true).
  { rewrite visible3_skipb. unfold skipb. destruct (get_attr (s_ "help") a); reflexivity. }
  rewrite Hv. eexists. reflexivity.
Qed.

(* a definition without its comment line *)
Lemma def_body3 : forall w p h ws a, stree_ok_d w p (Def h ws a) = true ->
  forall orc rest f line nid stop start prev active acc,
  blank p -> follow_ok_d rest -> length (body3 w p (Def h ws a) ++ rest) < f ->
  exists o' line' nid' prev' active' acc',
    flushed active' acc' = o' :: flushed active acc
    /\ erase_obj o' = eraseL 3 (Def h ws a)
    /\ forall g, length rest < g ->
       eqres stop (cobj orc f (body3 w p (Def h ws a) ++ rest) line nid stop start prev active acc)
                  (cobj orc g rest line' nid' stop start prev' active' acc').
Proof.
  intros w p h ws a Hok orc rest f line nid stop start prev active acc Hp Hfol Hf.
  cbn [stree_ok_d] in Hok. apply andb_prop in Hok as [Hok Hat]. apply andb_prop in Hok as [Hok Hwok].
  apply andb_prop in Hok as [Hh Hne].
  destruct (hdr_ok_facts h Hh) as (Hn & _ & _).
  assert (Hne' : ws <> []) by (destruct ws; [discriminate Hne|discriminate]).
  pose proof (good_defs_d orc w p a Hat) as Hgood.
  set (n := oname h) in *. set (dis := odis h) in *.
  assert (Hind : blank (def_indent p dis n)) by (apply blank_app; [exact Hp|apply blank_spaces]).
  cbn [body3] in *. fold n dis in Hf |- *.
  set (cur := def_cur p dis n) in *. set (indent := def_indent p dis n) in *.
  rewrite <- app_assoc in Hf |- *.
  set (rest1 := alines 3 p def_attr_names a ++ rest) in *.
  assert (Hfol1 : forall l, value_ends rest1 l).
  { intros l. unfold rest1. destruct (alines3_def_head p a) as (tl & ->).
    rewrite <- app_assoc, aline_split.
    destruct (dot_unq_ok (s_ "help") eq_refl) as (Hu & Hh').
    change ("." :: s_ "help" ++ " " :: "=" :: ?X) with (("." :: s_ "help") ++ " " :: "=" :: X).
    apply value_ends_unquoted; try assumption; try reflexivity. apply (blank_p2 p Hp). }
  destruct (cobj_show_def_gen p dis n ws indent w rest1 line Hp Hn Hind Hne' Hwok (Hfol1 _))
    as (s' & Hs & Hnw & Hc).
  fold cur in Hs, Hnw, Hc.
  set (L := endw ws cur indent w line) in *.
  set (d0 := Def (mkhdr n dis 0 false nid line) (relw ws cur indent w line) []) in *.
  destruct (cobj_def_alines_d 3 orc a def_attr_names Hgood p rest (S (length rest1)) (S L) (S nid) stop start line
              d0 (flushed active acc) Hp Hfol (Nat.lt_succ_diag_r _)) as (line' & prev' & Hc2).
  set (d1 := attach_vis 3 a def_attr_names d0) in *.
  exists d1, line', (S nid), prev', (Some d1), (flushed active acc).
  split; [reflexivity|]. split.
  + unfold d1, d0. rewrite attach_vis_def. cbn [erase_obj eraseL]. unfold n, dis.
    rewrite (erase_hdr_parsed h nid line Hh). fold (renormL 3 def_attr_names a).
    f_equal. exact (relw_noline ws cur indent w line).
  + intros g Hg.
    set (X := show_words ws cur indent w ++ rest1) in *.
    assert (Hlen : length rest1 < length X).
    { unfold X. rewrite show_words_vtail, app_length.
      pose proof (vtail_longer indent w rest1 ws cur). lia. }
    rewrite (cobj_fuel_enough orc f (S (S (length X))) X) by lia.
    unfold X at 2. rewrite Hc.
    eapply eqres_trans; [|apply (Hc2 g Hg)].
    apply cobj_pos_eq; [exact Hnw| |unfold rest1; lia].
    destruct Hs as [->|[-> _]]; cbn [length]; lia.
Qed.

Theorem P5_all : forall w o, P5 w o.
Proof.
  intros w o. induction o as [h ws a|h ks a IH] using obj_ind2;
    intros p Hok orc rest f line nid stop start prev active acc Hp Hfol Hf.
  - (* definition: the comment line if deprecated, then the definition *)
    rewrite ltxt3_body in Hf |- *. cbn [is_dep] in Hf |- *.
    destruct (py_truthy (get_attr dep_name a)).
    + rewrite <- app_assoc in Hf |- *.
      set (Y := body3 w p (Def h ws a) ++ rest) in *.
      destruct (def_body3 w p h ws a Hok orc rest (S (length Y)) (S line) nid stop start prev active acc Hp Hfol
                  (Nat.lt_succ_diag_r _))
        as (o' & line' & nid' & prev' & active' & acc' & Hfl & Her & Hc).
      exists o', line', nid', prev', active', acc'. split; [exact Hfl|]. split; [exact Her|].
      intros g Hg. eapply eqres_trans; [|apply (Hc g Hg)].
      apply cobj_pos_eq; [apply nw_warn; exact Hp|exact Hf|apply Nat.lt_succ_diag_r].
    + cbn [app] in Hf |- *.
      exact (def_body3 w p h ws a Hok orc rest f line nid stop start prev active acc Hp Hfol Hf).
  - (* scope *)
    cbn [stree_ok_d] in Hok. apply andb_prop in Hok as [Hok Hks]. apply andb_prop in Hok as [Hh Hat].
    destruct (hdr_ok_facts h Hh) as (Hn & _ & _).
    pose proof (good_scopes orc w p a Hat) as Hgood.
    set (n := oname h) in *. set (dis := odis h) in *.
    set (p2 := p ++ s_ "  ") in *.
    assert (Hp2 : blank p2) by (apply blank_p2; exact Hp).
    set (rest' := p ++ "}" :: nl :: rest).
    set (K := ltxts3 w p2 ks).
    set (body := nl :: K ++ rest').
    destruct (vis_names 3 a scope_attr_names) as [|n1 r] eqn:Evis.
    + (* no visible attribute: "name {" *)
      assert (Eal : alines 3 p scope_attr_names a = []) by (rewrite alines_vis, Evis; reflexivity).
      assert (Ern : renormL 3 scope_attr_names a = []).
      { unfold renormL. rewrite renormL_vis, Evis. reflexivity. }
      assert (HT : ltxt3 w p (Scp h ks a) ++ rest = p ++ bang dis ++ n ++ " " :: "{" :: body).
      { cbn [ltxt3]. unfold scope_open. rewrite Eal.
        unfold Show.line, body, rest', K, ltxts3, p2, n, dis. rewrite <- !app_assoc.
        cbn [s_ String.list_ascii_of_string app]. rewrite <- ?app_assoc. reflexivity. }
      rewrite HT in *.
      set (bw := mkword ["{"] QN line).
      destruct (PL5_of_P5 w ks IH p2 Hks orc rest' (S (length (K ++ rest'))) (S line) (S nid) true (Some bw) 0 None []
                  Hp2 (follow_ok_is_d _ (follow_brace p _ Hp)) (Nat.lt_succ_diag_r _))
        as (ks' & line' & nid' & prev' & active' & acc' & Hfl & Her & Hc).
      fold K in Hc. cbn [flushed] in Hfl. rewrite app_nil_r in Hfl.
      set (X := p ++ bang dis ++ n ++ " " :: "{" :: body) in *.
      assert (Hin : cobj orc (S (length X)) body line (S nid) true (Some bw) 0 None []
                    = Ok (ks', nl :: rest, line', nid')).
      { assert (Hb : length body < S (length X)).
        { unfold X. rewrite !app_length. cbn [length]. lia. }
        pose proof (cobj_pos_eq orc (S (length X)) (S (length (K ++ rest'))) body line (K ++ rest') (S line)
                      (S nid) true (Some bw) 0 None [] (nw_nl s0 _ line) Hb (Nat.lt_succ_diag_r _)) as H1.
        cbn [eqres] in H1. rewrite H1.
        specialize (Hc (S (length rest')) (Nat.lt_succ_diag_r _)). cbn [eqres] in Hc. rewrite Hc.
        unfold rest'. rewrite (cobj_close_brace orc _ p (nl :: rest) line' nid' (Some bw) prev' active' acc' Hp).
        rewrite Hfl, rev_involutive. reflexivity. }
      set (sc := Scp (mkhdr n dis 0 false nid line) ks' []).
      exists sc, (S line'), nid', line, None, (sc :: flushed active acc).
      split; [reflexivity|]. split.
      * unfold sc. cbn [erase_obj eraseL]. unfold n, dis. rewrite (erase_hdr_parsed h nid line Hh), Her, Ern. reflexivity.
      * intros g Hg.
        rewrite (cobj_fuel_enough orc f (S (S (length X))) X) by lia.
        unfold X at 2.
        rewrite (cobj_scope_step orc (S (length X)) p dis n body line nid stop start prev active acc
                   ks' (nl :: rest) line' nid' Hp Hn Hin).
        fold sc.
        apply cobj_pos_eq; [apply nw_nl| |exact Hg].
        unfold X, body, rest'. rewrite !app_length. cbn [length]. rewrite !app_length. cbn [length]. lia.
    + (* visible attributes: name, attribute lines, "{" *)
      destruct (vis_head_visible 3 a scope_attr_names n1 r Evis) as (Hv1 & Hin1 & Hinr).
      rewrite Forall_forall in Hgood.
      destruct (Hgood n1 Hin1) as (Hid1 & Hmem1 & Hw1 & Has1).
      assert (Hgr : Forall (good_scope orc a) r).
      { apply Forall_forall. intros x Hx. apply Hgood, Hinr, Hx. }
      set (v1 := get_attr n1 a) in *.
      assert (Eal : alines 3 p scope_attr_names a = aline p n1 v1 ++ alines 3 p r a).
      { rewrite alines_vis, Evis. unfold alines at 1. cbn [flat_map]. fold v1. rewrite Hv1. reflexivity. }
      assert (Ern : renormL 3 scope_attr_names a = renormL_from 3 a r (set_attr n1 v1 [])).
      { unfold renormL. rewrite renormL_vis, Evis. unfold renormL_from at 1. cbn [fold_left]. fold v1. rewrite Hv1.
        reflexivity. }
      set (tl1 := " " :: "=" :: " " :: str_of_word (rw v1) ++ nl :: alines 3 p r a ++ p ++ "{" :: body).
      set (hdrtail := nl :: p2 ++ "." :: n1 ++ tl1).
      assert (HT : ltxt3 w p (Scp h ks a) ++ rest = p ++ bang dis ++ n ++ hdrtail).
      { cbn [ltxt3]. unfold scope_open. rewrite Eal.
        destruct (aline p n1 v1 ++ alines 3 p r a) as [|c0 al0] eqn:E2.
        { apply (f_equal (@List.length ascii)) in E2. rewrite app_length in E2.
          pose proof (aline_len p n1 v1). cbn [length] in E2. lia. }
        rewrite <- E2.
        unfold hdrtail, tl1. rewrite <- (aline_split p n1 v1).
        unfold Show.line, body, rest', K, ltxts3, p2, n, dis. rewrite <- !app_assoc.
        cbn [app]. rewrite <- ?app_assoc. reflexivity. }
      rewrite HT in *.
      assert (Hnw1 : nw s0 false hdrtail line = TWord (mkword ("." :: n1) QN (S line)) tl1 (S line)).
      { unfold hdrtail. rewrite nw_nl. apply nw_s0_dot; [exact Hp2|exact Hid1|reflexivity]. }
      destruct (sattrs_alines 3 orc a r Hgr p n1 v1 body (S (length tl1)) (S line) []
                  Hp Hid1 Hmem1 Hw1 Has1 (Nat.lt_succ_diag_r _)) as (lb & Hsat).
      fold tl1 in Hsat. rewrite <- Ern in Hsat.
      set (bw := mkword ["{"] QN lb) in *.
      destruct (PL5_of_P5 w ks IH p2 Hks orc rest' (S (length (K ++ rest'))) (S lb) (S nid) true (Some bw) 0 None []
                  Hp2 (follow_ok_is_d _ (follow_brace p _ Hp)) (Nat.lt_succ_diag_r _))
        as (ks' & line' & nid' & prev' & active' & acc' & Hfl & Her & Hc).
      fold K in Hc. cbn [flushed] in Hfl. rewrite app_nil_r in Hfl.
      set (X := p ++ bang dis ++ n ++ hdrtail) in *.
      assert (Hin : cobj orc (S (length X)) body lb (S nid) true (Some bw) 0 None []
                    = Ok (ks', nl :: rest, line', nid')).
      { assert (Hb : length body < S (length X)).
        { unfold X, hdrtail, tl1. alen. lia. }
        pose proof (cobj_pos_eq orc (S (length X)) (S (length (K ++ rest'))) body lb (K ++ rest') (S lb)
                      (S nid) true (Some bw) 0 None [] (nw_nl s0 _ lb) Hb (Nat.lt_succ_diag_r _)) as H1.
        cbn [eqres] in H1. rewrite H1.
        specialize (Hc (S (length rest')) (Nat.lt_succ_diag_r _)). cbn [eqres] in Hc. rewrite Hc.
        unfold rest'. rewrite (cobj_close_brace orc _ p (nl :: rest) line' nid' (Some bw) prev' active' acc' Hp).
        rewrite Hfl, rev_involutive. reflexivity. }
      set (sc := Scp (mkhdr n dis 0 false nid line) ks' (renormL 3 scope_attr_names a)).
      exists sc, (S line'), nid', line, None, (sc :: flushed active acc).
      split; [reflexivity|]. split.
      * unfold sc. cbn [erase_obj eraseL]. unfold n, dis. rewrite (erase_hdr_parsed h nid line Hh), Her. reflexivity.
      * intros g Hg.
        rewrite (cobj_fuel_enough orc f (S (S (length X))) X) by lia.
        unfold X at 2.
        rewrite (cobj_scope_step_attrs orc (S (length X)) p dis n hdrtail line nid stop start prev active acc
                   (mkword ("." :: n1) QN (S line)) tl1 (S line)
                   (renormL 3 scope_attr_names a) bw body lb ks' (nl :: rest) line' nid'
                   Hp Hn eq_refl Hnw1 eq_refl eq_refl Hsat Hin).
        fold sc.
        apply cobj_pos_eq; [apply nw_nl| |exact Hg].
        unfold X, hdrtail, tl1, body, rest'. alen. lia.
Qed.

Theorem PL5_all : forall w l, PL5 w l.
Proof. intros w l. apply PL5_of_P5. apply Forall_forall. intros o _. apply P5_all. Qed.

Theorem parse_show_level3_deprecated : forall o l w p text,
  forallb (stree_ok_d w p) l = true -> blank p ->
  show_objs l p None 3 w = Ok text ->
  exists l', parse o text = Ok l' /\ map erase_obj l' = map erase3 l.
Proof.
  intros o l w p text0 Hok Hp H. rewrite (show_objs_ltxts3 w l p Hok) in H.
  assert (Ht : text0 = ltxts3 w p l) by congruence. subst text0.
  set (text := ltxts3 w p l).
  destruct (PL5_all w l p Hok o [] (S (S (length text))) 1 1 false None 0 None [] Hp
              (follow_ok_is_d [] (follow_blank [] eq_refl)))
    as (l' & line' & nid' & prev' & active' & acc' & Hfl & Her & Hc).
  { fold text. rewrite app_nil_r. lia. }
  exists l'. split; [|rewrite Her; apply map_ext; exact eraseL3].
  specialize (Hc 1 (Nat.lt_succ_diag_r _)). cbn [eqres] in Hc. fold text in Hc. rewrite app_nil_r in Hc.
  rewrite parse_noline, Hc. cbn [cobj nw cobj_noline].
  change (match active' with Some d => d :: acc' | None => acc' end) with (flushed active' acc').
  rewrite Hfl. cbn [flushed]. rewrite app_nil_r, rev_involutive. reflexivity.
Qed.

(* THE LEVEL-3 TEXT PARSES TO THE WHOLE TREE, DEPRECATED DEFINITIONS AND THEIR .deprecated VALUE INCLUDED *)
Theorem parse_as_str_level3_deprecated : forall o l w text,
  forallb (stree_ok_d (width_of w) []) l = true ->
  as_str l [] None 3 w = Ok text ->
  exists l', parse o text = Ok l' /\ map erase_obj l' = map erase3 l.
Proof.
  intros o l w text Hok H. unfold as_str in H. fold (width_of w) in H.
  exact (parse_show_level3_deprecated o l (width_of w) [] text Hok blank_nil H).
Qed.

(* the print succeeds on the domain *)
Theorem as_str_level3_deprecated_defined : forall l w,
  forallb (stree_ok_d (width_of w) []) l = true -> exists text, as_str l [] None 3 w = Ok text.
Proof.
  intros l w Hok. unfold as_str. fold (width_of w). eexists. exact (show_objs_ltxts3 _ l [] Hok).
Qed.

Print Assumptions parse_as_str_level3_deprecated.
Print Assumptions as_str_level3_deprecated_defined.

(* ====================================================================================== *)
(* 3b. .deprecated holding a bool or the empty string (trees built by a program)            *)
(* ====================================================================================== *)

(* what the text stands for: the bool True is written 'True' and read back as the string; False and the empty
   string are not written at all *)
Definition nd (v:aval) : aval :=
  match v with
  | ABool true => AStr (s_ "True")
  | ABool false => ANone
  | AStr [] => ANone
  | _ => v
  end.
Definition norm_attrs (a:attrs) : attrs := set_attr dep_name (nd (get_attr dep_name a)) a.
Fixpoint norm_dep (o:obj) : obj :=
  match o with
  | Def h ws a => Def h ws (norm_attrs a)
  | Scp h ks a => Scp h (map norm_dep ks) a
  end.

Definition dep_ok_b (w:Z) (p:str) (v:aval) : bool :=
  match v with
  | ANone => true
  | ABool true => str_fits w p dep_name (s_ "True")
  | ABool false => true
  | AStr s => str_fits w p dep_name s
  | _ => false
  end.
Definition sdef_attr_ok_b (w:Z) (p n:str) (v:aval) : bool :=
  if eqs n dep_name then dep_ok_b w p v else sdef_attr_ok w p n v.
Fixpoint stree_ok_b (w:Z) (p:str) (o:obj) : bool :=
  match o with
  | Def h ws a => hdr_ok h && negb (is_nil ws) && words_ok ws
                  && forallb (fun n => sdef_attr_ok_b w p n (get_attr n a)) def_attr_names
  | Scp h ks a => hdr_ok h && forallb (fun n => sscope_attr_ok w p n (get_attr n a)) scope_attr_names
                  && forallb (stree_ok_b w (p ++ s_ "  ")) ks
  end.

Lemma nd_truthy : forall v, py_truthy (nd v) = py_truthy v.
Proof. intros [| |[]|z|[|c s]|t]; reflexivity. Qed.

Lemma get_norm_dep : forall a, get_attr dep_name (norm_attrs a) = nd (get_attr dep_name a).
Proof. intros a. unfold norm_attrs. rewrite get_set_attr, eqs_refl. reflexivity. Qed.
Lemma get_norm_other : forall n a, eqs n dep_name = false -> get_attr n (norm_attrs a) = get_attr n a.
Proof.
  intros n a H. unfold norm_attrs. rewrite get_set_attr.
  destruct (eqs dep_name n) eqn:E; [|reflexivity]. apply eqs_true in E. subst n. rewrite eqs_refl in H. discriminate H.
Qed.

Lemma sdef_b_d : forall w p n a, sdef_attr_ok_b w p n (get_attr n a) = true ->
  sdef_attr_ok_d w p n (get_attr n (norm_attrs a)) = true.
Proof.
  intros w p n a H. unfold sdef_attr_ok_b in H. destruct (eqs n dep_name) eqn:E.
  - apply eqs_true in E. subst n. rewrite get_norm_dep. unfold sdef_attr_ok_d, dep_str_ok. rewrite eqs_refl.
    destruct (get_attr dep_name a) as [| |[]|z|[|c s]|t]; cbn [nd dep_ok_b] in *; try discriminate H; try reflexivity.
    + cbn [sdef_attr_ok]. rewrite H. reflexivity.
    + cbn [sdef_attr_ok]. rewrite H. cbn [is_nil negb andb]. apply orb_true_r.
  - rewrite (get_norm_other n a E). unfold sdef_attr_ok_d. rewrite H. reflexivity.
Qed.

Theorem stree_ok_b_d : forall w o p, stree_ok_b w p o = true -> stree_ok_d w p (norm_dep o) = true.
Proof.
  intros w o. induction o as [h ws a|h ks a IH] using obj_ind2; intros p H; cbn [stree_ok_b stree_ok_d norm_dep] in *.
  - apply andb_prop in H as [H Ha]. rewrite H. cbn [andb].
    apply forallb_forall. intros n Hn. rewrite forallb_forall in Ha. exact (sdef_b_d w p n a (Ha n Hn)).
  - apply andb_prop in H as [H Hks]. rewrite H. cbn [andb].
    apply forallb_forall. intros x Hx. apply in_map_iff in Hx as (c & <- & Hc).
    rewrite Forall_forall in IH. rewrite forallb_forall in Hks. exact (IH c Hc _ (Hks c Hc)).
Qed.

Lemma stree_ok_b_hdr : forall w p o, stree_ok_b w p o = true -> hdr_ok (ohdr o) = true.
Proof.
  intros w p [h ws a|h ks a] H; cbn [stree_ok_b ohdr] in *.
  - apply andb_prop in H as [H _]. apply andb_prop in H as [H _]. apply andb_prop in H as [H _]. exact H.
  - apply andb_prop in H as [H _]. apply andb_prop in H as [H _]. exact H.
Qed.

(* the printer does not tell the bool from the string *)
Lemma show_attr_nd : forall w p v lvl, dep_ok_b w p v = true ->
  show_attr p dep_name (nd v) lvl w = show_attr p dep_name v lvl w.
Proof.
  intros w p v lvl H. destruct v as [| |[]|z|[|c s]|t]; try reflexivity.
  cbn [nd dep_ok_b] in *.
  rewrite (show_attr_line p dep_name (AStr (s_ "True")) lvl w H), (show_attr_line p dep_name (ABool true) lvl w eq_refl).
  reflexivity.
Qed.

Lemma show_attrs_norm : forall w p a lvl ns,
  forallb (fun n => sdef_attr_ok_b w p n (get_attr n a)) ns = true ->
  show_attrs p ns (norm_attrs a) lvl w = show_attrs p ns a lvl w.
Proof.
  intros w p a lvl; induction ns as [|n r IH]; intros H; [reflexivity|].
  cbn [forallb] in H. apply andb_prop in H as [H1 H2]. cbn [show_attrs]. rewrite (IH H2).
  unfold sdef_attr_ok_b in H1. destruct (eqs n dep_name) eqn:E.
  - apply eqs_true in E. subst n. rewrite get_norm_dep, (show_attr_nd w p _ lvl H1). reflexivity.
  - rewrite (get_norm_other n a E). reflexivity.
Qed.

Theorem show_obj_norm : forall lvl w o p, stree_ok_b w p o = true ->
  show_obj (norm_dep o) [] p None lvl w = show_obj o [] p None lvl w.
Proof.
  intros lvl w o. induction o as [h ws a|h ks a IH] using obj_ind2; intros p Hok.
  - cbn [stree_ok_b] in Hok. apply andb_prop in Hok as [_ Hat].
    cbn [norm_dep show_obj]. unfold show_def. fold dep_name.
    rewrite get_norm_dep, nd_truthy, !hidden_none. unfold show_attributes.
    rewrite (show_attrs_norm w p a lvl def_attr_names Hat). reflexivity.
  - cbn [stree_ok_b] in Hok. apply andb_prop in Hok as [Hok Hks]. apply andb_prop in Hok as [Hh Hat].
    destruct (hdr_ok_facts h Hh) as (Hn & Ht & _).
    destruct (name_ok_facts _ Hn) as (Hid & _).
    destruct (ident_shape _ Hid) as (c & n' & En & _).
    assert (Hfm : first_merges ks = false).
    { destruct ks as [|k r]; [reflexivity|]. cbn [first_merges forallb] in *.
      apply andb_prop in Hks as [Hk _]. apply stree_ok_b_hdr, hdr_ok_facts in Hk. apply Hk. }
    assert (Hfm' : first_merges (map norm_dep ks) = false).
    { destruct ks as [|k r]; [reflexivity|]. cbn [map first_merges] in *. destruct k; exact Hfm. }
    assert (Hkids : show_list (map norm_dep ks) [] (p ++ s_ "  ") None lvl w = show_list ks [] (p ++ s_ "  ") None lvl w).
    { clear Hfm Hfm'. induction IH as [|k r Hk Hr IHr]; [reflexivity|].
      cbn [forallb] in Hks. apply andb_prop in Hks as [Hk' Hr'].
      cbn [map show_list]. rewrite (Hk _ Hk'), (IHr Hr'). reflexivity. }
    cbn [norm_dep]. rewrite !show_obj_scp. unfold show_scope_body.
    rewrite Hfm, Hfm', Hkids. rewrite En. reflexivity.
Qed.

Lemma show_objs_norm : forall lvl w l p, forallb (stree_ok_b w p) l = true ->
  show_objs (map norm_dep l) p None lvl w = show_objs l p None lvl w.
Proof.
  intros lvl w l p H. induction l as [|o r IH]; [reflexivity|].
  cbn [forallb] in H. apply andb_prop in H as [Ho Hr].
  cbn [map show_objs]. rewrite (show_obj_norm lvl w o p Ho), (IH Hr). reflexivity.
Qed.

Lemma norm_trees_d : forall w p l, forallb (stree_ok_b w p) l = true -> forallb (stree_ok_d w p) (map norm_dep l) = true.
Proof.
  intros w p l H. apply forallb_forall. intros x Hx. apply in_map_iff in Hx as (c & <- & Hc).
  rewrite forallb_forall in H. exact (stree_ok_b_d w c p (H c Hc)).
Qed.

(* LEVEL 3, .deprecated A BOOL OR A STRING: the text parses to the tree in which the bool True has become the
   string "True" (False / the empty string: unset) *)
Theorem parse_as_str_level3_deprecated_bool : forall o l w text,
  forallb (stree_ok_b (width_of w) []) l = true ->
  as_str l [] None 3 w = Ok text ->
  exists l', parse o text = Ok l' /\ map erase_obj l' = map erase3 (map norm_dep l).
Proof.
  intros o l w text Hok H.
  apply (parse_as_str_level3_deprecated o (map norm_dep l) w text (norm_trees_d _ _ l Hok)).
  unfold as_str in *. fold (width_of w) in *. rewrite show_objs_norm by exact Hok. exact H.
Qed.

Theorem parse_as_str_level2_hides_deprecated_bool : forall o l w text,
  forallb (stree_ok_b (width_of w) []) l = true ->
  as_str l [] None 2 w = Ok text ->
  exists l', parse o text = Ok l' /\ map erase_obj l' = map erase3 (drop_deprecated (map norm_dep l)).
Proof.
  intros o l w text Hok H.
  apply (parse_as_str_level2_hides_deprecated o (map norm_dep l) w text (norm_trees_d _ _ l Hok)).
  unfold as_str in *. fold (width_of w) in *. rewrite show_objs_norm by exact Hok. exact H.
Qed.

Print Assumptions parse_as_str_level3_deprecated_bool.
Print Assumptions parse_as_str_level2_hides_deprecated_bool.

(* ====================================================================================== *)
(* 4. examples                                                                              *)
(* ====================================================================================== *)

(* x = 1 / .deprecated = True / y = 2, and a deprecated definition after a scope, first in a scope, last in a
   scope, with an .alias after .deprecated *)
Definition dep_src : str := s_ "x = 1
  .deprecated = True
y = 2
s {
  z = 3
    .deprecated = False
    .alias = q
  u = 4
  v = 5
    .deprecated = yes
}
t = 6
  .deprecated = True
".
Definition dep_tree : list obj := match parse [] dep_src with Ok l => l | _ => [] end.
Definition dep_reparsed (lvl:Z) : list obj :=
  match as_str dep_tree [] None lvl None with
  | Ok t => match parse [] t with Ok l => l | _ => [] end
  | _ => [] end.

Example dep_in_domain :
  forallb (stree_ok_d default_width []) dep_tree = true /\ forallb (stree_ok default_width []) dep_tree = false
  /\ length dep_tree = 4 /\ length (drop_deprecated dep_tree) = 2.
Proof. vm_compute. repeat split. Qed.

Example dep_roundtrips :
  map erase_obj (dep_reparsed 3) = map erase3 dep_tree
  /\ map erase_obj (dep_reparsed 2) = map erase3 (drop_deprecated dep_tree)
  /\ map erase3 (drop_deprecated dep_tree) <> map erase3 dep_tree.
Proof. vm_compute. repeat split. intros H. discriminate H. Qed.

Example dep_level2_text : as_str dep_tree [] None 2 None = Ok (s_ "y = 2
s {
  u = 4
}
").
Proof. vm_compute. reflexivity. Qed.

(* outside the domain: the BOOL True in .deprecated (a tree no PHIL text parses to) comes back as the
   STRING "True" *)
Definition dep_bool : list obj :=
  [Def (sa_h "x") [mkword (s_ "1") QN 0] [(dep_name, ABool true)]].
Example deprecated_bool_differs :
  forallb (stree_ok_d default_width []) dep_bool = false
  /\ (match as_str dep_bool [] None 3 None with
      | Ok t => match parse [] t with Ok l => map erase_obj l | _ => [] end
      | _ => [] end)
     = [Def (sa_h "x") [mkword (s_ "1") QN 0] [(dep_name, AStr (s_ "True"))]]
  /\ map erase3 dep_bool = [Def (sa_h "x") [mkword (s_ "1") QN 0] [(dep_name, ABool true)]].
Proof. vm_compute. repeat split. Qed.

(* ... and is covered by the bool-or-string domain, up to that normalisation; False is 'unset' *)
Definition dep_bool2 : list obj :=
  dep_bool ++ [Scp (sa_h "s") [Def (sa_h "y") [mkword (s_ "2") QN 0] [(dep_name, ABool false)];
                               Def (sa_h "z") [mkword (s_ "3") QN 0] [(dep_name, ABool true); (s_ "help", AStr (s_ "h"))]] []].
Example deprecated_bool_normalised :
  forallb (stree_ok_b default_width []) dep_bool2 = true /\ forallb (stree_ok_d default_width []) dep_bool2 = false
  /\ (match as_str dep_bool2 [] None 3 None with
      | Ok t => match parse [] t with Ok l => map erase_obj l | _ => [] end
      | _ => [] end) = map erase3 (map norm_dep dep_bool2)
  /\ (match as_str dep_bool2 [] None 2 None with
      | Ok t => match parse [] t with Ok l => map erase_obj l | _ => [] end
      | _ => [] end) = map erase3 (drop_deprecated (map norm_dep dep_bool2))
  /\ length (drop_deprecated (map norm_dep dep_bool2)) = 1.
Proof. vm_compute. repeat split. Qed.

(* ====================================================================================== *)
(* 5. dotted names at level 3 (the shape scope.adopt builds), deprecated definitions included *)
(* ====================================================================================== *)

Fixpoint sdtree_ok (w:Z) (m:list str) (p:str) (o:obj) : bool :=
  match o with
  | Def h ws a => leaf_ok m h && negb (is_nil ws) && words_ok ws
                  && forallb (fun n => sdef_attr_ok_d w p n (get_attr n a)) def_attr_names
  | Scp h ks a =>
      if first_merges ks then
        negb (is_nil (oname h)) && negb (odis h) && (otmpl h =? 0)%Z && Bool.eqb (omerge h) (negb (is_nil m))
        && forallb (fun n => is_none (get_attr n a)) scope_attr_names
        && match ks with [k] => sdtree_ok w (m ++ [oname h]) p k | _ => false end
      else leaf_ok m h && forallb (fun n => sscope_attr_ok w p n (get_attr n a)) scope_attr_names
           && forallb (sdtree_ok w [] (p ++ s_ "  ")) ks
  end.

Fixpoint dtxt3 (w:Z) (m:list str) (p:str) (o:obj) : str :=
  match o with
  | Def h ws a => (if py_truthy (get_attr dep_name a) then warn_line p else [])
                  ++ show_words ws (def_cur p (odis h) (full (m ++ [oname h])))
                                   (def_indent p (odis h) (full (m ++ [oname h]))) w
                  ++ alines 3 p def_attr_names a
  | Scp h ks a =>
      if first_merges ks then flat_map (dtxt3 w (m ++ [oname h]) p) ks
      else scope_open 3 p (with_name h (full (m ++ [oname h]))) a
           ++ flat_map (dtxt3 w [] (p ++ s_ "  ")) ks ++ line (p ++ ["}"])
  end.
Definition dtxts3 (w:Z) (p:str) (l:list obj) : str := flat_map (dtxt3 w [] p) l.

(* ---------- the printer *)
Lemma show_list_dtxts3 : forall w p l,
  Forall (fun o => forall m p, sdtree_ok w m p o = true -> show_obj o m p None 3 w = Ok (dtxt3 w m p o)) l ->
  forallb (sdtree_ok w [] p) l = true ->
  show_list l [] p None 3 w = Ok (dtxts3 w p l).
Proof.
  intros w p l H. induction H as [|o r Ho Hr IH]; intros Hok; [reflexivity|].
  cbn [forallb] in Hok. apply andb_prop in Hok as [H1 H2].
  cbn [show_list]. rewrite (Ho [] p H1), (IH H2). reflexivity.
Qed.

Theorem show_obj_dtxt3 : forall w o m p, sdtree_ok w m p o = true -> show_obj o m p None 3 w = Ok (dtxt3 w m p o).
Proof.
  intros w o. induction o as [h ws a|h ks a IH] using obj_ind2; intros m p Hok.
  - cbn [sdtree_ok] in Hok. apply andb_prop in Hok as [Hok Hat]. apply andb_prop in Hok as [Hok _].
    apply andb_prop in Hok as [Hh _].
    destruct (leaf_ok_facts m h Hh) as (Hn & Ht & _).
    pose proof (full_ok_last_not_include m _ Hn) as Hinc.
    cbn [show_obj dtxt3]. unfold show_def. fold dep_name.
    rewrite Ht, hidden_none, Hinc. change (3 <? 3)%Z with false. rewrite andb_false_r.
    cbn [Z.ltb Z.compare andb bind].
    unfold show_attributes. change (3 <=? 0)%Z with false. cbv iota.
    rewrite (show_attrs_lines p a 3 w def_attr_names (fits_of_ok (sdef_attr_ok_d w p) w p a _ (sdef_fits_d w p) Hat)).
    cbn [bind app join_with]. rewrite ?andb_false_r. unfold warn_line. reflexivity.
  - cbn [sdtree_ok] in Hok. rewrite show_obj_scp. unfold show_scope_body. cbn [dtxt3].
    destruct (first_merges ks) eqn:Efm.
    + apply andb_prop in Hok as [Hok Hk]. apply andb_prop in Hok as [Hok _]. apply andb_prop in Hok as [Hok _].
      apply andb_prop in Hok as [Hok Ht].
      apply andb_prop in Hok as [Hne _]. apply Z.eqb_eq in Ht.
      destruct ks as [|k [|k2 r]]; try discriminate Hk.
      rewrite Ht, hidden_none. cbn [Z.ltb Z.compare andb bind].
      assert (En : exists c n', oname h = c :: n') by (destruct (oname h); [discriminate Hne|eauto]).
      destruct En as (c & n' & En). rewrite En at 1.
      inversion IH as [|? ? Hk1 _]; subst.
      cbn [show_list flat_map]. rewrite (Hk1 _ _ Hk). cbn [bind]. reflexivity.
    + apply andb_prop in Hok as [Hok Hks]. apply andb_prop in Hok as [Hh Hat].
      destruct (leaf_ok_facts m h Hh) as (Hn & Ht & _ & Hne).
      rewrite Ht, hidden_none. cbn [Z.ltb Z.compare andb bind].
      assert (En : exists c n', oname h = c :: n') by (destruct (oname h); [congruence|eauto]).
      destruct En as (c & n' & En). rewrite En at 1.
      unfold show_attributes. change (3 <=? 0)%Z with false. cbv iota.
      rewrite (show_attrs_lines p a 3 w scope_attr_names (fits_of_ok (sscope_attr_ok w p) w p a _ (sscope_fits w p) Hat)).
      cbn [bind app join_with].
      rewrite (show_list_dtxts3 w (p ++ s_ "  ") ks IH Hks). cbn [bind]. unfold scope_open. cbn [oname odis with_name].
      destruct (alines 3 p scope_attr_names a) as [|c0 al] eqn:Eal.
      * unfold bang, dtxts3, full. rewrite <- !app_assoc. reflexivity.
      * unfold bang, dtxts3, full. rewrite <- !app_assoc. reflexivity.
Qed.

Theorem show_objs_dtxts3 : forall w l p, forallb (sdtree_ok w [] p) l = true -> show_objs l p None 3 w = Ok (dtxts3 w p l).
Proof.
  intros w l p H. rewrite show_objs_list. apply show_list_dtxts3; [|exact H].
  apply Forall_forall. intros o _. exact (show_obj_dtxt3 w o).
Qed.

(* ---------- what follows an object *)
Lemma dtxt3_head : forall w o m p, sdtree_ok w m p o = true -> forall tl,
  exists pre dis n c X, (pre = [] \/ pre = warn_line p) /\ is_ident n = true /\ (c = " " \/ c = nl)
    /\ dtxt3 w m p o ++ tl = pre ++ p ++ (bang dis ++ n) ++ c :: X.
Proof.
  intros w o. induction o as [h ws a|h ks a IH] using obj_ind2; intros m p Hok tl.
  - cbn [sdtree_ok] in Hok. apply andb_prop in Hok as [Hok _]. apply andb_prop in Hok as [Hok _].
    apply andb_prop in Hok as [Hh _]. destruct (leaf_ok_facts m h Hh) as (Hn & _).
    destruct (full_ok_facts _ Hn) as (Hid & _).
    exists (if py_truthy (get_attr dep_name a) then warn_line p else []), (odis h), (full (m ++ [oname h])), " ".
    cbn [dtxt3]. rewrite <- !app_assoc.
    rewrite show_words_vtail. unfold def_cur at 1. eexists.
    split; [destruct (py_truthy _); auto|]. split; [exact Hid|]. split; [left; reflexivity|]. rewrite <- !app_assoc.
    cbn [s_ String.list_ascii_of_string app]. reflexivity.
  - cbn [sdtree_ok] in Hok. cbn [dtxt3]. destruct (first_merges ks) eqn:Efm.
    + apply andb_prop in Hok as [_ Hk]. destruct ks as [|k [|k2 r]]; try discriminate Hk.
      inversion IH as [|? ? Hk1 _]; subst.
      cbn [flat_map]. rewrite app_nil_r. exact (Hk1 _ _ Hk tl).
    + apply andb_prop in Hok as [Hok _]. apply andb_prop in Hok as [Hh _]. destruct (leaf_ok_facts m h Hh) as (Hn & _).
      destruct (full_ok_facts _ Hn) as (Hid & _).
      exists [], (odis h), (full (m ++ [oname h])). unfold scope_open. cbn [oname odis with_name].
      destruct (alines 3 p scope_attr_names a).
      * exists " ". unfold line. eexists. split; [left; reflexivity|]. split; [exact Hid|]. split; [left; reflexivity|].
        rewrite <- !app_assoc. cbn [s_ String.list_ascii_of_string app]. reflexivity.
      * exists nl. unfold line. eexists. split; [left; reflexivity|]. split; [exact Hid|]. split; [right; reflexivity|].
        rewrite <- !app_assoc. cbn [app]. reflexivity.
Qed.

Lemma follow_dtxt3 : forall w m p o tl, blank p -> sdtree_ok w m p o = true -> follow_ok_d (dtxt3 w m p o ++ tl).
Proof.
  intros w m p o tl Hp Hok line.
  destruct (dtxt3_head w o m p Hok tl) as (pre & dis & n & c & X & Hpre & Hid & Hc & ->).
  destruct (lead_unq_ok dis n Hid) as (Hu & Hh).
  assert (Hv : forall l, value_ends (p ++ (bang dis ++ n) ++ c :: X) l).
  { intros l. apply value_ends_unquoted; try assumption; [apply Hp|]. destruct Hc as [-> | ->]; reflexivity. }
  destruct Hpre as [-> | ->].
  - left. cbn [app]. apply Hv.
  - right. exists p, (p ++ (bang dis ++ n) ++ c :: X). split; [exact Hp|]. split; [reflexivity|apply Hv].
Qed.

(* ---------- attribute lines attach through the prefix scopes *)
Lemma attach_wrapc_def : forall n v m first h ws a,
  attach n v (wrapc first m (Def h ws a)) = wrapc first m (attach n v (Def h ws a)).
Proof. intros n v; induction m as [|d r IH]; intros first h ws a; [reflexivity|]. cbn [wrapc attach]. rewrite IH. reflexivity. Qed.

Lemma attach_vis_wrapc_def : forall lvl a ns m first h ws x,
  attach_vis lvl a ns (wrapc first m (Def h ws x)) = wrapc first m (attach_vis lvl a ns (Def h ws x)).
Proof.
  intros lvl a; induction ns as [|n r IH]; intros m first h ws x; [reflexivity|].
  unfold attach_vis in *. cbn [fold_left].
  destruct (attr_visible n (get_attr n a) lvl); [|apply IH].
  rewrite attach_wrapc_def. cbn [attach]. apply IH.
Qed.

Lemma renorm_none : forall a ns, forallb (fun n => is_none (get_attr n a)) ns = true -> renormL_from 3 a ns [] = [].
Proof.
  intros a; induction ns as [|n r IH]; intros H; [reflexivity|].
  cbn [forallb] in H. apply andb_prop in H as [H1 H2]. unfold renormL_from in *. cbn [fold_left].
  destruct (get_attr n a); try discriminate H1.
  destruct (attr_visible n ANone 3); cbn [set_attr del_attr]; exact (IH H2).
Qed.

Theorem cobj_scope_step_attrs_adopt : forall o f p dis n hdrtail line nid stop start prev active acc
                                       w1 r2 l2 sa bw r3 l3 kids r4 l4 nid4,
  blank p -> is_ident n = true -> name_reserved_scp n = false -> prefix_reserved n = false ->
  tailok s0 hdrtail = true ->
  nw s0 false hdrtail line = TWord w1 r2 l2 -> isq w1 = false -> prefixb ["."] (wv w1) = true ->
  sattrs o (S (length r2)) w1 r2 l2 [] = Ok (sa, bw, r3, l3) ->
  cobj o f r3 l3 (S nid) true (Some bw) 0 None [] = Ok (kids, r4, l4, nid4) ->
  cobj o (S f) (p ++ bang dis ++ n ++ hdrtail) line nid stop start prev active acc
  = cobj o f r4 l4 nid4 stop start line None
         (adopt (Scp (mkhdr n dis 0 false nid line) kids sa) :: flushed active acc).
Proof.
  intros o f p dis n hdrtail line nid stop start prev active acc w1 r2 l2 sa bw r3 l3 kids r4 l4 nid4
         Hp Hid Hres Hpre Htl Hnw1 Hq1 Hdot1 Hsat Hin.
  pose proof (nw_s0_lead p dis n hdrtail line Hp Hid Htl) as Hnw.
  destruct (lead_tests dis n Hid) as (Hintro & Hrb & Hlb & Hbang & Hdot).
  cbn [cobj]. rewrite Hnw.
  cbn [isq wq wv wline]. rewrite Hintro, Hrb, Hlb, Hbang. cbn [andb].
  rewrite andb_false_r.
  unfold pop. rewrite Hnw1. cbn [bind]. rewrite Hq1, Hdot1. cbn [negb andb]. rewrite orb_true_r. cbn [orb].
  rewrite Hid, Hres. cbn [negb].
  rewrite Hsat. cbn [bind].
  rewrite Hin. cbn [bind]. rewrite Hpre.
  reflexivity.
Qed.

Definition P6 (w:Z) (o:obj) : Prop := forall m p, sdtree_ok w m p o = true ->
  forall orc rest f line nid stop start prev active acc,
  blank p -> follow_ok_d rest -> length (dtxt3 w m p o ++ rest) < f ->
  exists o' line' nid' prev' active' acc',
    flushed active' acc' = o' :: flushed active acc
    /\ erase_obj o' = wrapc true m (eraseL 3 o)
    /\ forall g, length rest < g ->
       eqres stop (cobj orc f (dtxt3 w m p o ++ rest) line nid stop start prev active acc)
                  (cobj orc g rest line' nid' stop start prev' active' acc').

Definition PL6 (w:Z) (l:list obj) : Prop := forall p, forallb (sdtree_ok w [] p) l = true ->
  forall orc rest f line nid stop start prev active acc,
  blank p -> follow_ok_d rest -> length (dtxts3 w p l ++ rest) < f ->
  exists l' line' nid' prev' active' acc',
    flushed active' acc' = rev l' ++ flushed active acc
    /\ map erase_obj l' = map (eraseL 3) l
    /\ forall g, length rest < g ->
       eqres stop (cobj orc f (dtxts3 w p l ++ rest) line nid stop start prev active acc)
                  (cobj orc g rest line' nid' stop start prev' active' acc').

Lemma PL6_of_P6 : forall w l, Forall (P6 w) l -> PL6 w l.
Proof.
  intros w l H. induction H as [|o r Ho Hr IH]; intros p Hok orc rest f line nid stop start prev active acc Hp Hfol Hf.
  - exists [], line, nid, prev, active, acc. split; [reflexivity|]. split; [reflexivity|].
    intros g Hg. cbn [dtxts3 flat_map app] in *. apply cobj_fuel_eq; assumption.
  - cbn [forallb] in Hok. apply andb_prop in Hok as [Hoo Hor].
    assert (HT : dtxts3 w p (o :: r) ++ rest = dtxt3 w [] p o ++ (dtxts3 w p r ++ rest)).
    { unfold dtxts3. cbn [flat_map]. rewrite <- app_assoc. reflexivity. }
    rewrite HT in *.
    set (rest1 := dtxts3 w p r ++ rest) in *.
    assert (Hfol1 : follow_ok_d rest1).
    { unfold rest1. destruct r as [|o2 r2]; [exact Hfol|].
      cbn [forallb] in Hor. apply andb_prop in Hor as [Ho2 _].
      unfold dtxts3. cbn [flat_map]. rewrite <- app_assoc. apply follow_dtxt3; assumption. }
    destruct (Ho [] p Hoo orc rest1 f line nid stop start prev active acc Hp Hfol1 Hf)
      as (o' & line1 & nid1 & prev1 & active1 & acc1 & Hfl1 & Her1 & Hc1).
    destruct (IH p Hor orc rest (S (length rest1)) line1 nid1 stop start prev1 active1 acc1 Hp Hfol
                 (Nat.lt_succ_diag_r _))
      as (l' & line2 & nid2 & prev2 & active2 & acc2 & Hfl2 & Her2 & Hc2).
    exists (o' :: l'), line2, nid2, prev2, active2, acc2.
    split; [|split].
    + rewrite Hfl2, Hfl1. cbn [rev]. rewrite <- app_assoc. reflexivity.
    + cbn [map]. rewrite Her1, Her2. reflexivity.
    + intros g Hg. eapply eqres_trans; [apply (Hc1 (S (length rest1))); lia|apply Hc2; exact Hg].
Qed.

(* a definition without its comment line, under the prefix scopes m *)
Lemma def_body6 : forall w m p h ws a, sdtree_ok w m p (Def h ws a) = true ->
  forall orc rest f line nid stop start prev active acc,
  blank p -> follow_ok_d rest ->
  let B := show_words ws (def_cur p (odis h) (full (m ++ [oname h]))) (def_indent p (odis h) (full (m ++ [oname h]))) w
           ++ alines 3 p def_attr_names a in
  length (B ++ rest) < f ->
  exists o' line' nid' prev' active' acc',
    flushed active' acc' = o' :: flushed active acc
    /\ erase_obj o' = wrapc true m (eraseL 3 (Def h ws a))
    /\ forall g, length rest < g ->
       eqres stop (cobj orc f (B ++ rest) line nid stop start prev active acc)
                  (cobj orc g rest line' nid' stop start prev' active' acc').
Proof.
  intros w m p h ws a Hok orc rest f line nid stop start prev active acc Hp Hfol B Hf. subst B.
  cbn [sdtree_ok] in Hok. apply andb_prop in Hok as [Hok Hat]. apply andb_prop in Hok as [Hok Hwok].
  apply andb_prop in Hok as [Hh Hne].
  destruct (leaf_ok_facts m h Hh) as (Hn & _ & _ & _).
  destruct (full_ok_facts _ Hn) as (Hid & Hinc & Hsd & Hres & _ & Hpre).
  assert (Hne' : ws <> []) by (destruct ws; [discriminate Hne|discriminate]).
  pose proof (good_defs_d orc w p a Hat) as Hgood.
  set (n := full (m ++ [oname h])) in *. set (dis := odis h) in *.
  assert (Hind : blank (def_indent p dis n)) by (apply blank_app; [exact Hp|apply blank_spaces]).
  set (cur := def_cur p dis n) in *. set (indent := def_indent p dis n) in *.
  rewrite <- app_assoc in Hf |- *.
  set (rest1 := alines 3 p def_attr_names a ++ rest) in *.
  assert (Hfol1 : forall l, value_ends rest1 l).
  { intros l. unfold rest1. destruct (alines3_def_head p a) as (tl & ->).
    rewrite <- app_assoc, aline_split.
    destruct (dot_unq_ok (s_ "help") eq_refl) as (Hu & Hh').
    change ("." :: s_ "help" ++ " " :: "=" :: ?X) with (("." :: s_ "help") ++ " " :: "=" :: X).
    apply value_ends_unquoted; try assumption; try reflexivity. apply (blank_p2 p Hp). }
  destruct (cobj_show_def_adopt p dis n ws indent w rest1 line Hp Hid Hinc Hres Hpre Hind Hne' Hwok (Hfol1 _))
    as (s' & Hs & Hnw & Hc).
  fold cur in Hs, Hnw, Hc.
  set (L := endw ws cur indent w line) in *.
  set (d0 := Def (mkhdr n dis 0 false nid line) (relw ws cur indent w line) []) in *.
  destruct (cobj_def_alines_d 3 orc a def_attr_names Hgood p rest (S (length rest1)) (S L) (S nid) stop start line
              (adopt d0) (flushed active acc) Hp Hfol (Nat.lt_succ_diag_r _)) as (line' & prev' & Hc2).
  set (d1 := attach_vis 3 a def_attr_names (adopt d0)) in *.
  exists d1, line', (S nid), prev', (Some d1), (flushed active acc).
  split; [reflexivity|]. split.
  + unfold d1, adopt. change (oname (ohdr d0)) with n. rewrite Hsd, wrap_dotted_wrapc.
    pose proof (erase_leafm_hdr m h nid line Hh d0 eq_refl) as Hhd.
    destruct (leafm_def m (oname h) (mkhdr n dis 0 false nid line) (relw ws cur indent w line) []) as (h' & Hl).
    fold d0 in Hl. rewrite Hl in *. cbn [ohdr] in Hhd.
    rewrite attach_vis_wrapc_def, erase_wrapc. f_equal.
    rewrite attach_vis_def. cbn [erase_obj eraseL]. rewrite Hhd. fold (renormL 3 def_attr_names a).
    f_equal. exact (relw_noline ws cur indent w line).
  + intros g Hg.
    set (X := show_words ws cur indent w ++ rest1) in *.
    assert (Hlen : length rest1 < length X).
    { unfold X. rewrite show_words_vtail, app_length.
      pose proof (vtail_longer indent w rest1 ws cur). lia. }
    rewrite (cobj_fuel_enough orc f (S (S (length X))) X) by lia.
    unfold X at 2. rewrite Hc.
    eapply eqres_trans; [|apply (Hc2 g Hg)].
    apply cobj_pos_eq; [exact Hnw| |unfold rest1; lia].
    destruct Hs as [->|[-> _]]; cbn [length]; lia.
Qed.

Theorem P6_all : forall w o, P6 w o.
Proof.
  intros w o. induction o as [h ws a|h ks a IH] using obj_ind2;
    intros m p Hok orc rest f line nid stop start prev active acc Hp Hfol Hf.
  - cbn [dtxt3] in Hf |- *.
    destruct (py_truthy (get_attr dep_name a)).
    + rewrite <- app_assoc in Hf |- *.
      match type of Hf with length (_ ++ ?Y0) < _ => set (Y := Y0) in * end.
      destruct (def_body6 w m p h ws a Hok orc rest (S (length Y)) (S line) nid stop start prev active acc Hp Hfol
                  (Nat.lt_succ_diag_r _))
        as (o' & line' & nid' & prev' & active' & acc' & Hfl & Her & Hc).
      exists o', line', nid', prev', active', acc'. split; [exact Hfl|]. split; [exact Her|].
      intros g Hg. eapply eqres_trans; [|apply (Hc g Hg)].
      apply cobj_pos_eq; [apply nw_warn; exact Hp|exact Hf|apply Nat.lt_succ_diag_r].
    + cbn [app] in Hf |- *.
      exact (def_body6 w m p h ws a Hok orc rest f line nid stop start prev active acc Hp Hfol Hf).
  - cbn [sdtree_ok] in Hok. destruct (first_merges ks) eqn:Efm.
    + (* dotted-prefix scope *)
      cbn [dtxt3] in *. rewrite Efm in *.
      apply andb_prop in Hok as [Hok Hk]. apply andb_prop in Hok as [Hok Hna]. apply andb_prop in Hok as [Hok Hmg].
      apply andb_prop in Hok as [Hok Ht].
      apply andb_prop in Hok as [_ Hdis]. apply Z.eqb_eq in Ht. apply eqb_prop in Hmg. apply negb_true_iff in Hdis.
      destruct ks as [|k [|k2 r]]; try discriminate Hk.
      inversion IH as [|? ? Hk1 _]; subst.
      cbn [flat_map] in *. rewrite app_nil_r in *.
      destruct (Hk1 _ _ Hk orc rest f line nid stop start prev active acc Hp Hfol Hf)
        as (o' & line1 & nid1 & prev1 & active1 & acc1 & Hfl1 & Her1 & Hc1).
      exists o', line1, nid1, prev1, active1, acc1.
      split; [exact Hfl1|]. split; [|exact Hc1].
      rewrite Her1, wrapc_snoc. cbn [eraseL map andb]. unfold renormL. rewrite (renorm_none a _ Hna).
      unfold erase_hdr. rewrite Ht, Hmg, Hdis. destruct k; reflexivity.
    + (* scope printed with braces *) {
    apply andb_prop in Hok as [Hok Hks]. apply andb_prop in Hok as [Hh Hat].
    destruct (leaf_ok_facts m h Hh) as (Hn & _ & _ & _).
    destruct (full_ok_facts _ Hn) as (Hid & _ & Hsd & _ & Hres & Hpre).
    pose proof (good_scopes orc w p a Hat) as Hgood.
    set (n := full (m ++ [oname h])) in *. set (dis := odis h) in *.
    set (p2 := p ++ s_ "  ") in *.
    assert (Hp2 : blank p2) by (apply blank_p2; exact Hp).
    set (rest' := p ++ "}" :: nl :: rest).
    set (K := dtxts3 w p2 ks).
    set (body := nl :: K ++ rest').
    destruct (vis_names 3 a scope_attr_names) as [|n1 r] eqn:Evis.
    + (* no visible attribute: "name {" *)
      assert (Eal : alines 3 p scope_attr_names a = []) by (rewrite alines_vis, Evis; reflexivity).
      assert (Ern : renormL 3 scope_attr_names a = []).
      { unfold renormL. rewrite renormL_vis, Evis. reflexivity. }
      assert (HT : dtxt3 w m p (Scp h ks a) ++ rest = p ++ bang dis ++ n ++ " " :: "{" :: body).
      { cbn [dtxt3]. rewrite Efm. unfold scope_open. cbn [oname odis with_name]. fold n dis. rewrite Eal.
        unfold Show.line, body, rest', K, dtxts3, p2. rewrite <- !app_assoc.
        cbn [s_ String.list_ascii_of_string app]. rewrite <- ?app_assoc. reflexivity. }
      rewrite HT in *.
      set (bw := mkword ["{"] QN line).
      destruct (PL6_of_P6 w ks IH p2 Hks orc rest' (S (length (K ++ rest'))) (S line) (S nid) true (Some bw) 0 None []
                  Hp2 (follow_ok_is_d _ (follow_brace p _ Hp)) (Nat.lt_succ_diag_r _))
        as (ks' & line' & nid' & prev' & active' & acc' & Hfl & Her & Hc).
      fold K in Hc. cbn [flushed] in Hfl. rewrite app_nil_r in Hfl.
      set (X := p ++ bang dis ++ n ++ " " :: "{" :: body) in *.
      assert (Hin : cobj orc (S (length X)) body line (S nid) true (Some bw) 0 None []
                    = Ok (ks', nl :: rest, line', nid')).
      { assert (Hb : length body < S (length X)).
        { unfold X. rewrite !app_length. cbn [length]. lia. }
        pose proof (cobj_pos_eq orc (S (length X)) (S (length (K ++ rest'))) body line (K ++ rest') (S line)
                      (S nid) true (Some bw) 0 None [] (nw_nl s0 _ line) Hb (Nat.lt_succ_diag_r _)) as H1.
        cbn [eqres] in H1. rewrite H1.
        specialize (Hc (S (length rest')) (Nat.lt_succ_diag_r _)). cbn [eqres] in Hc. rewrite Hc.
        unfold rest'. rewrite (cobj_close_brace orc _ p (nl :: rest) line' nid' (Some bw) prev' active' acc' Hp).
        rewrite Hfl, rev_involutive. reflexivity. }
      set (sc0 := Scp (mkhdr n dis 0 false nid line) ks' []).
      exists (adopt sc0), (S line'), nid', line, None, (adopt sc0 :: flushed active acc).
      split; [reflexivity|]. split.
      * unfold adopt. change (oname (ohdr sc0)) with n. rewrite Hsd, wrap_dotted_wrapc, erase_wrapc. f_equal.
        pose proof (erase_leafm_hdr m h nid line Hh sc0 eq_refl) as Hhd.
        destruct (leafm_scp m (oname h) (mkhdr n dis 0 false nid line) ks' []) as (h' & Hl).
        fold sc0 in Hl. rewrite Hl in *. cbn [ohdr] in Hhd. cbn [erase_obj eraseL]. rewrite Hhd, Her, Ern. reflexivity.
      * intros g Hg.
        rewrite (cobj_fuel_enough orc f (S (S (length X))) X) by lia.
        unfold X at 2.
        rewrite (cobj_scope_step_adopt orc (S (length X)) p dis n body line nid stop start prev active acc
                   ks' (nl :: rest) line' nid' Hp Hid Hres Hpre Hin).
        fold sc0.
        apply cobj_pos_eq; [apply nw_nl| |exact Hg].
        unfold X, body, rest'. rewrite !app_length. cbn [length]. rewrite !app_length. cbn [length]. lia.
    + (* visible attributes: name, attribute lines, "{" *)
      destruct (vis_head_visible 3 a scope_attr_names n1 r Evis) as (Hv1 & Hin1 & Hinr).
      rewrite Forall_forall in Hgood.
      destruct (Hgood n1 Hin1) as (Hid1 & Hmem1 & Hw1 & Has1).
      assert (Hgr : Forall (good_scope orc a) r).
      { apply Forall_forall. intros x Hx. apply Hgood, Hinr, Hx. }
      set (v1 := get_attr n1 a) in *.
      assert (Eal : alines 3 p scope_attr_names a = aline p n1 v1 ++ alines 3 p r a).
      { rewrite alines_vis, Evis. unfold alines at 1. cbn [flat_map]. fold v1. rewrite Hv1. reflexivity. }
      assert (Ern : renormL 3 scope_attr_names a = renormL_from 3 a r (set_attr n1 v1 [])).
      { unfold renormL. rewrite renormL_vis, Evis. unfold renormL_from at 1. cbn [fold_left]. fold v1. rewrite Hv1.
        reflexivity. }
      set (tl1 := " " :: "=" :: " " :: str_of_word (rw v1) ++ nl :: alines 3 p r a ++ p ++ "{" :: body).
      set (hdrtail := nl :: p2 ++ "." :: n1 ++ tl1).
      assert (HT : dtxt3 w m p (Scp h ks a) ++ rest = p ++ bang dis ++ n ++ hdrtail).
      { cbn [dtxt3]. rewrite Efm. unfold scope_open. cbn [oname odis with_name]. fold n dis. rewrite Eal.
        destruct (aline p n1 v1 ++ alines 3 p r a) as [|c0 al0] eqn:E2.
        { apply (f_equal (@List.length ascii)) in E2. rewrite app_length in E2.
          pose proof (aline_len p n1 v1). cbn [length] in E2. lia. }
        rewrite <- E2.
        unfold hdrtail, tl1. rewrite <- (aline_split p n1 v1).
        unfold Show.line, body, rest', K, dtxts3, p2. rewrite <- !app_assoc.
        cbn [app]. rewrite <- ?app_assoc. reflexivity. }
      rewrite HT in *.
      assert (Hnw1 : nw s0 false hdrtail line = TWord (mkword ("." :: n1) QN (S line)) tl1 (S line)).
      { unfold hdrtail. rewrite nw_nl. apply nw_s0_dot; [exact Hp2|exact Hid1|reflexivity]. }
      destruct (sattrs_alines 3 orc a r Hgr p n1 v1 body (S (length tl1)) (S line) []
                  Hp Hid1 Hmem1 Hw1 Has1 (Nat.lt_succ_diag_r _)) as (lb & Hsat).
      fold tl1 in Hsat. rewrite <- Ern in Hsat.
      set (bw := mkword ["{"] QN lb) in *.
      destruct (PL6_of_P6 w ks IH p2 Hks orc rest' (S (length (K ++ rest'))) (S lb) (S nid) true (Some bw) 0 None []
                  Hp2 (follow_ok_is_d _ (follow_brace p _ Hp)) (Nat.lt_succ_diag_r _))
        as (ks' & line' & nid' & prev' & active' & acc' & Hfl & Her & Hc).
      fold K in Hc. cbn [flushed] in Hfl. rewrite app_nil_r in Hfl.
      set (X := p ++ bang dis ++ n ++ hdrtail) in *.
      assert (Hin : cobj orc (S (length X)) body lb (S nid) true (Some bw) 0 None []
                    = Ok (ks', nl :: rest, line', nid')).
      { assert (Hb : length body < S (length X)).
        { unfold X, hdrtail, tl1. alen. lia. }
        pose proof (cobj_pos_eq orc (S (length X)) (S (length (K ++ rest'))) body lb (K ++ rest') (S lb)
                      (S nid) true (Some bw) 0 None [] (nw_nl s0 _ lb) Hb (Nat.lt_succ_diag_r _)) as H1.
        cbn [eqres] in H1. rewrite H1.
        specialize (Hc (S (length rest')) (Nat.lt_succ_diag_r _)). cbn [eqres] in Hc. rewrite Hc.
        unfold rest'. rewrite (cobj_close_brace orc _ p (nl :: rest) line' nid' (Some bw) prev' active' acc' Hp).
        rewrite Hfl, rev_involutive. reflexivity. }
      set (sc0 := Scp (mkhdr n dis 0 false nid line) ks' (renormL 3 scope_attr_names a)).
      exists (adopt sc0), (S line'), nid', line, None, (adopt sc0 :: flushed active acc).
      split; [reflexivity|]. split.
      * unfold adopt. change (oname (ohdr sc0)) with n. rewrite Hsd, wrap_dotted_wrapc, erase_wrapc. f_equal.
        pose proof (erase_leafm_hdr m h nid line Hh sc0 eq_refl) as Hhd.
        destruct (leafm_scp m (oname h) (mkhdr n dis 0 false nid line) ks' (renormL 3 scope_attr_names a)) as (h' & Hl).
        fold sc0 in Hl. rewrite Hl in *. cbn [ohdr] in Hhd. cbn [erase_obj eraseL]. rewrite Hhd, Her. reflexivity.
      * intros g Hg.
        rewrite (cobj_fuel_enough orc f (S (S (length X))) X) by lia.
        unfold X at 2.
        rewrite (cobj_scope_step_attrs_adopt orc (S (length X)) p dis n hdrtail line nid stop start prev active acc
                   (mkword ("." :: n1) QN (S line)) tl1 (S line)
                   (renormL 3 scope_attr_names a) bw body lb ks' (nl :: rest) line' nid'
                   Hp Hid Hres Hpre eq_refl Hnw1 eq_refl eq_refl Hsat Hin).
        fold sc0.
        apply cobj_pos_eq; [apply nw_nl| |exact Hg].
        unfold X, hdrtail, tl1, body, rest'. alen. lia.
    }
Qed.

Theorem PL6_all : forall w l, PL6 w l.
Proof. intros w l. apply PL6_of_P6. apply Forall_forall. intros o _. apply P6_all. Qed.

Theorem parse_show_level3_dotted : forall o l w p text,
  forallb (sdtree_ok w [] p) l = true -> blank p ->
  show_objs l p None 3 w = Ok text ->
  exists l', parse o text = Ok l' /\ map erase_obj l' = map erase3 l.
Proof.
  intros o l w p text0 Hok Hp H. rewrite (show_objs_dtxts3 w l p Hok) in H.
  assert (Ht : text0 = dtxts3 w p l) by congruence. subst text0.
  set (text := dtxts3 w p l).
  destruct (PL6_all w l p Hok o [] (S (S (length text))) 1 1 false None 0 None [] Hp
              (follow_ok_is_d [] (follow_blank [] eq_refl)))
    as (l' & line' & nid' & prev' & active' & acc' & Hfl & Her & Hc).
  { fold text. rewrite app_nil_r. lia. }
  exists l'. split; [|rewrite Her; apply map_ext; exact eraseL3].
  specialize (Hc 1 (Nat.lt_succ_diag_r _)). cbn [eqres] in Hc. fold text in Hc. rewrite app_nil_r in Hc.
  rewrite parse_noline, Hc. cbn [cobj nw cobj_noline].
  change (match active' with Some d => d :: acc' | None => acc' end) with (flushed active' acc').
  rewrite Hfl. cbn [flushed]. rewrite app_nil_r, rev_involutive. reflexivity.
Qed.

(* THE LEVEL-3 TEXT PARSES TO THE WHOLE TREE: dotted names (prefix scopes), string-valued attributes,
   deprecated definitions *)
Theorem parse_as_str_level3_dotted : forall o l w text,
  forallb (sdtree_ok (width_of w) [] []) l = true ->
  as_str l [] None 3 w = Ok text ->
  exists l', parse o text = Ok l' /\ map erase_obj l' = map erase3 l.
Proof.
  intros o l w text Hok H. unfold as_str in H. fold (width_of w) in H.
  exact (parse_show_level3_dotted o l (width_of w) [] text Hok blank_nil H).
Qed.

Theorem as_str_level3_dotted_defined : forall l w,
  forallb (sdtree_ok (width_of w) [] []) l = true -> exists text, as_str l [] None 3 w = Ok text.
Proof.
  intros l w Hok. unfold as_str. fold (width_of w). eexists. exact (show_objs_dtxts3 _ l [] Hok).
Qed.

(* the dot-free domain is inside the dotted one *)
Lemma hdr_ok_leaf_ok : forall h, hdr_ok h = true -> leaf_ok [] h = true.
Proof.
  intros h H. pose proof (tree_ok_dtree_ok (Def h [mkword (s_ "1") QN 0] [])) as T.
  cbn [tree_ok dtree_ok] in T. rewrite H in T. specialize (T eq_refl).
  apply andb_prop in T as [T _]. apply andb_prop in T as [T _]. apply andb_prop in T as [T _]. exact T.
Qed.

Theorem stree_ok_d_sdtree_ok : forall w o p, stree_ok_d w p o = true -> sdtree_ok w [] p o = true.
Proof.
  intros w o. induction o as [h ws a|h ks a IH] using obj_ind2; intros p H; cbn [stree_ok_d sdtree_ok] in *.
  - apply andb_prop in H as [H Ha]. apply andb_prop in H as [H Hw]. apply andb_prop in H as [Hh Hn].
    rewrite (hdr_ok_leaf_ok h Hh), Hn, Hw, Ha. reflexivity.
  - apply andb_prop in H as [H Hks]. apply andb_prop in H as [Hh Ha].
    assert (Hfm : first_merges ks = false).
    { destruct ks as [|k r]; [reflexivity|]. cbn [first_merges forallb] in *.
      apply andb_prop in Hks as [Hk _]. apply stree_ok_d_hdr, hdr_ok_facts in Hk. apply Hk. }
    rewrite Hfm, (hdr_ok_leaf_ok h Hh), Ha. cbn [andb].
    apply forallb_forall. intros c Hc. rewrite Forall_forall in IH. rewrite forallb_forall in Hks.
    exact (IH c Hc _ (Hks c Hc)).
Qed.

Print Assumptions parse_as_str_level3_dotted.
Print Assumptions as_str_level3_dotted_defined.
Print Assumptions stree_ok_d_sdtree_ok.

(* examples: dotted definitions and scopes with attributes, a deprecated dotted definition *)
Definition dot_src : str := s_ "a.b.x = 1
  .help = ""h 1""
  .deprecated = True
a.c {
  y = 2
  d.e.z = 3 4
    .expert_level = 2
}
q.r
  .help = scope
{
  !u.v = 5
}
".
Definition dot_tree : list obj := match parse [] dot_src with Ok l => l | _ => [] end.
Definition dot_reparsed : list obj :=
  match as_str dot_tree [] None 3 None with
  | Ok t => match parse [] t with Ok l => l | _ => [] end
  | _ => [] end.
Example dot_in_domain :
  forallb (sdtree_ok default_width [] []) dot_tree = true /\ forallb (stree_ok_d default_width []) dot_tree = false
  /\ length dot_tree = 3.
Proof. vm_compute. repeat split. Qed.
Example dot_roundtrip : map erase_obj dot_reparsed = map erase3 dot_tree /\ dot_tree <> [].
Proof. vm_compute. split; [reflexivity|discriminate]. Qed.

(* ====================================================================================== *)
(* 6. dotted names at every level >= 1 (no deprecated definitions)                          *)
(* ====================================================================================== *)

Section DottedLevels.
Variable lvl : Z.
Hypothesis Hlvl : (0 <? lvl)%Z = true.
Lemma Hle : (lvl <=? 0)%Z = false.
Proof. apply Z.leb_gt. apply Z.ltb_lt in Hlvl. lia. Qed.

Fixpoint ldtree_ok (w:Z) (m:list str) (p:str) (o:obj) : bool :=
  match o with
  | Def h ws a => leaf_ok m h && negb (is_nil ws) && words_ok ws
                  && forallb (fun n => sdef_attr_ok w p n (get_attr n a)) def_attr_names
  | Scp h ks a =>
      if first_merges ks then
        negb (is_nil (oname h)) && negb (odis h) && (otmpl h =? 0)%Z && Bool.eqb (omerge h) (negb (is_nil m))
        && forallb (fun n => is_none (get_attr n a)) scope_attr_names
        && match ks with [k] => ldtree_ok w (m ++ [oname h]) p k | _ => false end
      else leaf_ok m h && forallb (fun n => sscope_attr_ok w p n (get_attr n a)) scope_attr_names
           && forallb (ldtree_ok w [] (p ++ s_ "  ")) ks
  end.

Fixpoint dtxtL (lvl:Z) (w:Z) (m:list str) (p:str) (o:obj) : str :=
  match o with
  | Def h ws a => show_words ws (def_cur p (odis h) (full (m ++ [oname h])))
                                   (def_indent p (odis h) (full (m ++ [oname h]))) w
                  ++ alines lvl p def_attr_names a
  | Scp h ks a =>
      if first_merges ks then flat_map (dtxtL lvl w (m ++ [oname h]) p) ks
      else scope_open lvl p (with_name h (full (m ++ [oname h]))) a
           ++ flat_map (dtxtL lvl w [] (p ++ s_ "  ")) ks ++ line (p ++ ["}"])
  end.
Definition dtxtsL (lvl:Z) (w:Z) (p:str) (l:list obj) : str := flat_map (dtxtL lvl w [] p) l.

(* ---------- the printer *)
Lemma show_list_dtxtsL : forall w p l,
  Forall (fun o => forall m p, ldtree_ok w m p o = true -> show_obj o m p None lvl w = Ok (dtxtL lvl w m p o)) l ->
  forallb (ldtree_ok w [] p) l = true ->
  show_list l [] p None lvl w = Ok (dtxtsL lvl w p l).
Proof.
  intros w p l H. induction H as [|o r Ho Hr IH]; intros Hok; [reflexivity|].
  cbn [forallb] in Hok. apply andb_prop in Hok as [H1 H2].
  cbn [show_list]. rewrite (Ho [] p H1), (IH H2). reflexivity.
Qed.

Theorem show_obj_dtxtL : forall w o m p, ldtree_ok w m p o = true -> show_obj o m p None lvl w = Ok (dtxtL lvl w m p o).
Proof.
  intros w o. induction o as [h ws a|h ks a IH] using obj_ind2; intros m p Hok.
  - cbn [ldtree_ok] in Hok. apply andb_prop in Hok as [Hok Hat]. apply andb_prop in Hok as [Hok _].
    apply andb_prop in Hok as [Hh _].
    destruct (leaf_ok_facts m h Hh) as (Hn & Ht & _).
    pose proof (full_ok_last_not_include m _ Hn) as Hinc.
    cbn [show_obj dtxtL]. unfold show_def.
    rewrite Ht, (sdef_not_deprecated w p a Hat), hidden_none, Hinc. cbn [Z.ltb Z.compare andb bind].
    unfold show_attributes. rewrite Hle.
    rewrite (show_attrs_lines p a lvl w def_attr_names (fits_of_ok (sdef_attr_ok w p) w p a _ (sdef_fits w p) Hat)).
    cbn [bind app join_with]. reflexivity.
  - cbn [ldtree_ok] in Hok. rewrite show_obj_scp. unfold show_scope_body. cbn [dtxtL].
    destruct (first_merges ks) eqn:Efm.
    + apply andb_prop in Hok as [Hok Hk]. apply andb_prop in Hok as [Hok _]. apply andb_prop in Hok as [Hok _].
      apply andb_prop in Hok as [Hok Ht].
      apply andb_prop in Hok as [Hne _]. apply Z.eqb_eq in Ht.
      destruct ks as [|k [|k2 r]]; try discriminate Hk.
      rewrite Ht, hidden_none. cbn [Z.ltb Z.compare andb bind].
      assert (En : exists c n', oname h = c :: n') by (destruct (oname h); [discriminate Hne|eauto]).
      destruct En as (c & n' & En). rewrite En at 1.
      inversion IH as [|? ? Hk1 _]; subst.
      cbn [show_list flat_map]. rewrite (Hk1 _ _ Hk). cbn [bind]. reflexivity.
    + apply andb_prop in Hok as [Hok Hks]. apply andb_prop in Hok as [Hh Hat].
      destruct (leaf_ok_facts m h Hh) as (Hn & Ht & _ & Hne).
      rewrite Ht, hidden_none. cbn [Z.ltb Z.compare andb bind].
      assert (En : exists c n', oname h = c :: n') by (destruct (oname h); [congruence|eauto]).
      destruct En as (c & n' & En). rewrite En at 1.
      unfold show_attributes. rewrite Hle.
      rewrite (show_attrs_lines p a lvl w scope_attr_names (fits_of_ok (sscope_attr_ok w p) w p a _ (sscope_fits w p) Hat)).
      cbn [bind app join_with].
      rewrite (show_list_dtxtsL w (p ++ s_ "  ") ks IH Hks). cbn [bind]. unfold scope_open. cbn [oname odis with_name].
      destruct (alines lvl p scope_attr_names a) as [|c0 al] eqn:Eal.
      * unfold bang, dtxtsL, full. rewrite <- !app_assoc. reflexivity.
      * unfold bang, dtxtsL, full. rewrite <- !app_assoc. reflexivity.
Qed.

Theorem show_objs_dtxtsL : forall w l p, forallb (ldtree_ok w [] p) l = true -> show_objs l p None lvl w = Ok (dtxtsL lvl w p l).
Proof.
  intros w l p H. rewrite show_objs_list. apply show_list_dtxtsL; [|exact H].
  apply Forall_forall. intros o _. exact (show_obj_dtxtL w o).
Qed.

(* ---------- what follows an object *)
Lemma dtxtL_head : forall w o m p, ldtree_ok w m p o = true -> forall tl,
  exists dis n c X, is_ident n = true /\ (c = " " \/ c = nl)
    /\ dtxtL lvl w m p o ++ tl = p ++ (bang dis ++ n) ++ c :: X.
Proof.
  intros w o. induction o as [h ws a|h ks a IH] using obj_ind2; intros m p Hok tl.
  - cbn [ldtree_ok] in Hok. apply andb_prop in Hok as [Hok _]. apply andb_prop in Hok as [Hok _].
    apply andb_prop in Hok as [Hh _]. destruct (leaf_ok_facts m h Hh) as (Hn & _).
    destruct (full_ok_facts _ Hn) as (Hid & _).
    exists (odis h), (full (m ++ [oname h])), " ".
    cbn [dtxtL]. rewrite <- !app_assoc.
    rewrite show_words_vtail. unfold def_cur at 1. eexists.
    split; [exact Hid|]. split; [left; reflexivity|]. rewrite <- !app_assoc.
    cbn [s_ String.list_ascii_of_string app]. reflexivity.
  - cbn [ldtree_ok] in Hok. cbn [dtxtL]. destruct (first_merges ks) eqn:Efm.
    + apply andb_prop in Hok as [_ Hk]. destruct ks as [|k [|k2 r]]; try discriminate Hk.
      inversion IH as [|? ? Hk1 _]; subst.
      cbn [flat_map]. rewrite app_nil_r. exact (Hk1 _ _ Hk tl).
    + apply andb_prop in Hok as [Hok _]. apply andb_prop in Hok as [Hh _]. destruct (leaf_ok_facts m h Hh) as (Hn & _).
      destruct (full_ok_facts _ Hn) as (Hid & _).
      exists (odis h), (full (m ++ [oname h])). unfold scope_open. cbn [oname odis with_name].
      destruct (alines lvl p scope_attr_names a).
      * exists " ". unfold line. eexists. split; [exact Hid|]. split; [left; reflexivity|].
        rewrite <- !app_assoc. cbn [s_ String.list_ascii_of_string app]. reflexivity.
      * exists nl. unfold line. eexists. split; [exact Hid|]. split; [right; reflexivity|].
        rewrite <- !app_assoc. cbn [app]. reflexivity.
Qed.

Lemma follow_dtxtL : forall w m p o tl, blank p -> ldtree_ok w m p o = true -> follow_ok (dtxtL lvl w m p o ++ tl).
Proof.
  intros w m p o tl Hp Hok line.
  destruct (dtxtL_head w o m p Hok tl) as (dis & n & c & X & Hid & Hc & ->).
  destruct (lead_unq_ok dis n Hid) as (Hu & Hh).
  apply value_ends_unquoted; try assumption; [apply Hp|]. destruct Hc as [-> | ->]; reflexivity.
Qed.



Lemma renorm_noneL : forall a ns, forallb (fun n => is_none (get_attr n a)) ns = true -> renormL_from lvl a ns [] = [].
Proof.
  intros a; induction ns as [|n r IH]; intros H; [reflexivity|].
  cbn [forallb] in H. apply andb_prop in H as [H1 H2]. unfold renormL_from in *. cbn [fold_left].
  destruct (get_attr n a); try discriminate H1.
  destruct (attr_visible n ANone lvl); cbn [set_attr del_attr]; exact (IH H2).
Qed.


Definition P7 (w:Z) (o:obj) : Prop := forall m p, ldtree_ok w m p o = true ->
  forall orc rest f line nid stop start prev active acc,
  blank p -> follow_ok rest -> length (dtxtL lvl w m p o ++ rest) < f ->
  exists o' line' nid' prev' active' acc',
    flushed active' acc' = o' :: flushed active acc
    /\ erase_obj o' = wrapc true m (eraseL lvl o)
    /\ forall g, length rest < g ->
       eqres stop (cobj orc f (dtxtL lvl w m p o ++ rest) line nid stop start prev active acc)
                  (cobj orc g rest line' nid' stop start prev' active' acc').

Definition PL7 (w:Z) (l:list obj) : Prop := forall p, forallb (ldtree_ok w [] p) l = true ->
  forall orc rest f line nid stop start prev active acc,
  blank p -> follow_ok rest -> length (dtxtsL lvl w p l ++ rest) < f ->
  exists l' line' nid' prev' active' acc',
    flushed active' acc' = rev l' ++ flushed active acc
    /\ map erase_obj l' = map (eraseL lvl) l
    /\ forall g, length rest < g ->
       eqres stop (cobj orc f (dtxtsL lvl w p l ++ rest) line nid stop start prev active acc)
                  (cobj orc g rest line' nid' stop start prev' active' acc').

Lemma PL7_of_P7 : forall w l, Forall (P7 w) l -> PL7 w l.
Proof.
  intros w l H. induction H as [|o r Ho Hr IH]; intros p Hok orc rest f line nid stop start prev active acc Hp Hfol Hf.
  - exists [], line, nid, prev, active, acc. split; [reflexivity|]. split; [reflexivity|].
    intros g Hg. cbn [dtxtsL flat_map app] in *. apply cobj_fuel_eq; assumption.
  - cbn [forallb] in Hok. apply andb_prop in Hok as [Hoo Hor].
    assert (HT : dtxtsL lvl w p (o :: r) ++ rest = dtxtL lvl w [] p o ++ (dtxtsL lvl w p r ++ rest)).
    { unfold dtxtsL. cbn [flat_map]. rewrite <- app_assoc. reflexivity. }
    rewrite HT in *.
    set (rest1 := dtxtsL lvl w p r ++ rest) in *.
    assert (Hfol1 : follow_ok rest1).
    { unfold rest1. destruct r as [|o2 r2]; [exact Hfol|].
      cbn [forallb] in Hor. apply andb_prop in Hor as [Ho2 _].
      unfold dtxtsL. cbn [flat_map]. rewrite <- app_assoc. apply follow_dtxtL; assumption. }
    destruct (Ho [] p Hoo orc rest1 f line nid stop start prev active acc Hp Hfol1 Hf)
      as (o' & line1 & nid1 & prev1 & active1 & acc1 & Hfl1 & Her1 & Hc1).
    destruct (IH p Hor orc rest (S (length rest1)) line1 nid1 stop start prev1 active1 acc1 Hp Hfol
                 (Nat.lt_succ_diag_r _))
      as (l' & line2 & nid2 & prev2 & active2 & acc2 & Hfl2 & Her2 & Hc2).
    exists (o' :: l'), line2, nid2, prev2, active2, acc2.
    split; [|split].
    + rewrite Hfl2, Hfl1. cbn [rev]. rewrite <- app_assoc. reflexivity.
    + cbn [map]. rewrite Her1, Her2. reflexivity.
    + intros g Hg. eapply eqres_trans; [apply (Hc1 (S (length rest1))); lia|apply Hc2; exact Hg].
Qed.

(* a definition without its comment line, under the prefix scopes m *)
Lemma def_body7 : forall w m p h ws a, ldtree_ok w m p (Def h ws a) = true ->
  forall orc rest f line nid stop start prev active acc,
  blank p -> follow_ok rest ->
  let B := show_words ws (def_cur p (odis h) (full (m ++ [oname h]))) (def_indent p (odis h) (full (m ++ [oname h]))) w
           ++ alines lvl p def_attr_names a in
  length (B ++ rest) < f ->
  exists o' line' nid' prev' active' acc',
    flushed active' acc' = o' :: flushed active acc
    /\ erase_obj o' = wrapc true m (eraseL lvl (Def h ws a))
    /\ forall g, length rest < g ->
       eqres stop (cobj orc f (B ++ rest) line nid stop start prev active acc)
                  (cobj orc g rest line' nid' stop start prev' active' acc').
Proof.
  intros w m p h ws a Hok orc rest f line nid stop start prev active acc Hp Hfol B Hf. subst B.
  cbn [ldtree_ok] in Hok. apply andb_prop in Hok as [Hok Hat]. apply andb_prop in Hok as [Hok Hwok].
  apply andb_prop in Hok as [Hh Hne].
  destruct (leaf_ok_facts m h Hh) as (Hn & _ & _ & _).
  destruct (full_ok_facts _ Hn) as (Hid & Hinc & Hsd & Hres & _ & Hpre).
  assert (Hne' : ws <> []) by (destruct ws; [discriminate Hne|discriminate]).
  pose proof (good_defs orc w p a Hat) as Hgood.
  set (n := full (m ++ [oname h])) in *. set (dis := odis h) in *.
  assert (Hind : blank (def_indent p dis n)) by (apply blank_app; [exact Hp|apply blank_spaces]).
  set (cur := def_cur p dis n) in *. set (indent := def_indent p dis n) in *.
  rewrite <- app_assoc in Hf |- *.
  set (rest1 := alines lvl p def_attr_names a ++ rest) in *.
  assert (Hids : Forall (fun n => is_ident n = true) def_attr_names).
  { apply Forall_forall. exact def_names_ident. }
  pose proof (follow_alines lvl p a rest def_attr_names Hp Hids Hfol) as Hfol1. fold rest1 in Hfol1.
  destruct (cobj_show_def_adopt p dis n ws indent w rest1 line Hp Hid Hinc Hres Hpre Hind Hne' Hwok (Hfol1 _))
    as (s' & Hs & Hnw & Hc).
  fold cur in Hs, Hnw, Hc.
  set (L := endw ws cur indent w line) in *.
  set (d0 := Def (mkhdr n dis 0 false nid line) (relw ws cur indent w line) []) in *.
  destruct (cobj_def_alines lvl orc a def_attr_names Hgood p rest (S (length rest1)) (S L) (S nid) stop start line
              (adopt d0) (flushed active acc) Hp Hfol (Nat.lt_succ_diag_r _)) as (line' & prev' & Hc2).
  set (d1 := attach_vis lvl a def_attr_names (adopt d0)) in *.
  exists d1, line', (S nid), prev', (Some d1), (flushed active acc).
  split; [reflexivity|]. split.
  + unfold d1, adopt. change (oname (ohdr d0)) with n. rewrite Hsd, wrap_dotted_wrapc.
    pose proof (erase_leafm_hdr m h nid line Hh d0 eq_refl) as Hhd.
    destruct (leafm_def m (oname h) (mkhdr n dis 0 false nid line) (relw ws cur indent w line) []) as (h' & Hl).
    fold d0 in Hl. rewrite Hl in *. cbn [ohdr] in Hhd.
    rewrite attach_vis_wrapc_def, erase_wrapc. f_equal.
    rewrite attach_vis_def. cbn [erase_obj eraseL]. rewrite Hhd. fold (renormL lvl def_attr_names a).
    f_equal. exact (relw_noline ws cur indent w line).
  + intros g Hg.
    set (X := show_words ws cur indent w ++ rest1) in *.
    assert (Hlen : length rest1 < length X).
    { unfold X. rewrite show_words_vtail, app_length.
      pose proof (vtail_longer indent w rest1 ws cur). lia. }
    rewrite (cobj_fuel_enough orc f (S (S (length X))) X) by lia.
    unfold X at 2. rewrite Hc.
    eapply eqres_trans; [|apply (Hc2 g Hg)].
    apply cobj_pos_eq; [exact Hnw| |unfold rest1; lia].
    destruct Hs as [->|[-> _]]; cbn [length]; lia.
Qed.

Theorem P7_all : forall w o, P7 w o.
Proof.
  intros w o. induction o as [h ws a|h ks a IH] using obj_ind2;
    intros m p Hok orc rest f line nid stop start prev active acc Hp Hfol Hf.
  - cbn [dtxtL] in Hf |- *.
    exact (def_body7 w m p h ws a Hok orc rest f line nid stop start prev active acc Hp Hfol Hf).
  - cbn [ldtree_ok] in Hok. destruct (first_merges ks) eqn:Efm.
    + (* dotted-prefix scope *)
      cbn [dtxtL] in *. rewrite Efm in *.
      apply andb_prop in Hok as [Hok Hk]. apply andb_prop in Hok as [Hok Hna]. apply andb_prop in Hok as [Hok Hmg].
      apply andb_prop in Hok as [Hok Ht].
      apply andb_prop in Hok as [_ Hdis]. apply Z.eqb_eq in Ht. apply eqb_prop in Hmg. apply negb_true_iff in Hdis.
      destruct ks as [|k [|k2 r]]; try discriminate Hk.
      inversion IH as [|? ? Hk1 _]; subst.
      cbn [flat_map] in *. rewrite app_nil_r in *.
      destruct (Hk1 _ _ Hk orc rest f line nid stop start prev active acc Hp Hfol Hf)
        as (o' & line1 & nid1 & prev1 & active1 & acc1 & Hfl1 & Her1 & Hc1).
      exists o', line1, nid1, prev1, active1, acc1.
      split; [exact Hfl1|]. split; [|exact Hc1].
      rewrite Her1, wrapc_snoc. cbn [eraseL map andb]. unfold renormL. rewrite (renorm_noneL a _ Hna).
      unfold erase_hdr. rewrite Ht, Hmg, Hdis. destruct k; reflexivity.
    + (* scope printed with braces *) {
    apply andb_prop in Hok as [Hok Hks]. apply andb_prop in Hok as [Hh Hat].
    destruct (leaf_ok_facts m h Hh) as (Hn & _ & _ & _).
    destruct (full_ok_facts _ Hn) as (Hid & _ & Hsd & _ & Hres & Hpre).
    pose proof (good_scopes orc w p a Hat) as Hgood.
    set (n := full (m ++ [oname h])) in *. set (dis := odis h) in *.
    set (p2 := p ++ s_ "  ") in *.
    assert (Hp2 : blank p2) by (apply blank_p2; exact Hp).
    set (rest' := p ++ "}" :: nl :: rest).
    set (K := dtxtsL lvl w p2 ks).
    set (body := nl :: K ++ rest').
    destruct (vis_names lvl a scope_attr_names) as [|n1 r] eqn:Evis.
    + (* no visible attribute: "name {" *)
      assert (Eal : alines lvl p scope_attr_names a = []) by (rewrite alines_vis, Evis; reflexivity).
      assert (Ern : renormL lvl scope_attr_names a = []).
      { unfold renormL. rewrite renormL_vis, Evis. reflexivity. }
      assert (HT : dtxtL lvl w m p (Scp h ks a) ++ rest = p ++ bang dis ++ n ++ " " :: "{" :: body).
      { cbn [dtxtL]. rewrite Efm. unfold scope_open. cbn [oname odis with_name]. fold n dis. rewrite Eal.
        unfold Show.line, body, rest', K, dtxtsL, p2. rewrite <- !app_assoc.
        cbn [s_ String.list_ascii_of_string app]. rewrite <- ?app_assoc. reflexivity. }
      rewrite HT in *.
      set (bw := mkword ["{"] QN line).
      destruct (PL7_of_P7 w ks IH p2 Hks orc rest' (S (length (K ++ rest'))) (S line) (S nid) true (Some bw) 0 None []
                  Hp2 (follow_brace p _ Hp) (Nat.lt_succ_diag_r _))
        as (ks' & line' & nid' & prev' & active' & acc' & Hfl & Her & Hc).
      fold K in Hc. cbn [flushed] in Hfl. rewrite app_nil_r in Hfl.
      set (X := p ++ bang dis ++ n ++ " " :: "{" :: body) in *.
      assert (Hin : cobj orc (S (length X)) body line (S nid) true (Some bw) 0 None []
                    = Ok (ks', nl :: rest, line', nid')).
      { assert (Hb : length body < S (length X)).
        { unfold X. rewrite !app_length. cbn [length]. lia. }
        pose proof (cobj_pos_eq orc (S (length X)) (S (length (K ++ rest'))) body line (K ++ rest') (S line)
                      (S nid) true (Some bw) 0 None [] (nw_nl s0 _ line) Hb (Nat.lt_succ_diag_r _)) as H1.
        cbn [eqres] in H1. rewrite H1.
        specialize (Hc (S (length rest')) (Nat.lt_succ_diag_r _)). cbn [eqres] in Hc. rewrite Hc.
        unfold rest'. rewrite (cobj_close_brace orc _ p (nl :: rest) line' nid' (Some bw) prev' active' acc' Hp).
        rewrite Hfl, rev_involutive. reflexivity. }
      set (sc0 := Scp (mkhdr n dis 0 false nid line) ks' []).
      exists (adopt sc0), (S line'), nid', line, None, (adopt sc0 :: flushed active acc).
      split; [reflexivity|]. split.
      * unfold adopt. change (oname (ohdr sc0)) with n. rewrite Hsd, wrap_dotted_wrapc, erase_wrapc. f_equal.
        pose proof (erase_leafm_hdr m h nid line Hh sc0 eq_refl) as Hhd.
        destruct (leafm_scp m (oname h) (mkhdr n dis 0 false nid line) ks' []) as (h' & Hl).
        fold sc0 in Hl. rewrite Hl in *. cbn [ohdr] in Hhd. cbn [erase_obj eraseL]. rewrite Hhd, Her, Ern. reflexivity.
      * intros g Hg.
        rewrite (cobj_fuel_enough orc f (S (S (length X))) X) by lia.
        unfold X at 2.
        rewrite (cobj_scope_step_adopt orc (S (length X)) p dis n body line nid stop start prev active acc
                   ks' (nl :: rest) line' nid' Hp Hid Hres Hpre Hin).
        fold sc0.
        apply cobj_pos_eq; [apply nw_nl| |exact Hg].
        unfold X, body, rest'. rewrite !app_length. cbn [length]. rewrite !app_length. cbn [length]. lia.
    + (* visible attributes: name, attribute lines, "{" *)
      destruct (vis_head_visible lvl a scope_attr_names n1 r Evis) as (Hv1 & Hin1 & Hinr).
      rewrite Forall_forall in Hgood.
      destruct (Hgood n1 Hin1) as (Hid1 & Hmem1 & Hw1 & Has1).
      assert (Hgr : Forall (good_scope orc a) r).
      { apply Forall_forall. intros x Hx. apply Hgood, Hinr, Hx. }
      set (v1 := get_attr n1 a) in *.
      assert (Eal : alines lvl p scope_attr_names a = aline p n1 v1 ++ alines lvl p r a).
      { rewrite alines_vis, Evis. unfold alines at 1. cbn [flat_map]. fold v1. rewrite Hv1. reflexivity. }
      assert (Ern : renormL lvl scope_attr_names a = renormL_from lvl a r (set_attr n1 v1 [])).
      { unfold renormL. rewrite renormL_vis, Evis. unfold renormL_from at 1. cbn [fold_left]. fold v1. rewrite Hv1.
        reflexivity. }
      set (tl1 := " " :: "=" :: " " :: str_of_word (rw v1) ++ nl :: alines lvl p r a ++ p ++ "{" :: body).
      set (hdrtail := nl :: p2 ++ "." :: n1 ++ tl1).
      assert (HT : dtxtL lvl w m p (Scp h ks a) ++ rest = p ++ bang dis ++ n ++ hdrtail).
      { cbn [dtxtL]. rewrite Efm. unfold scope_open. cbn [oname odis with_name]. fold n dis. rewrite Eal.
        destruct (aline p n1 v1 ++ alines lvl p r a) as [|c0 al0] eqn:E2.
        { apply (f_equal (@List.length ascii)) in E2. rewrite app_length in E2.
          pose proof (aline_len p n1 v1). cbn [length] in E2. lia. }
        rewrite <- E2.
        unfold hdrtail, tl1. rewrite <- (aline_split p n1 v1).
        unfold Show.line, body, rest', K, dtxtsL, p2. rewrite <- !app_assoc.
        cbn [app]. rewrite <- ?app_assoc. reflexivity. }
      rewrite HT in *.
      assert (Hnw1 : nw s0 false hdrtail line = TWord (mkword ("." :: n1) QN (S line)) tl1 (S line)).
      { unfold hdrtail. rewrite nw_nl. apply nw_s0_dot; [exact Hp2|exact Hid1|reflexivity]. }
      destruct (sattrs_alines lvl orc a r Hgr p n1 v1 body (S (length tl1)) (S line) []
                  Hp Hid1 Hmem1 Hw1 Has1 (Nat.lt_succ_diag_r _)) as (lb & Hsat).
      fold tl1 in Hsat. rewrite <- Ern in Hsat.
      set (bw := mkword ["{"] QN lb) in *.
      destruct (PL7_of_P7 w ks IH p2 Hks orc rest' (S (length (K ++ rest'))) (S lb) (S nid) true (Some bw) 0 None []
                  Hp2 (follow_brace p _ Hp) (Nat.lt_succ_diag_r _))
        as (ks' & line' & nid' & prev' & active' & acc' & Hfl & Her & Hc).
      fold K in Hc. cbn [flushed] in Hfl. rewrite app_nil_r in Hfl.
      set (X := p ++ bang dis ++ n ++ hdrtail) in *.
      assert (Hin : cobj orc (S (length X)) body lb (S nid) true (Some bw) 0 None []
                    = Ok (ks', nl :: rest, line', nid')).
      { assert (Hb : length body < S (length X)).
        { unfold X, hdrtail, tl1. alen. lia. }
        pose proof (cobj_pos_eq orc (S (length X)) (S (length (K ++ rest'))) body lb (K ++ rest') (S lb)
                      (S nid) true (Some bw) 0 None [] (nw_nl s0 _ lb) Hb (Nat.lt_succ_diag_r _)) as H1.
        cbn [eqres] in H1. rewrite H1.
        specialize (Hc (S (length rest')) (Nat.lt_succ_diag_r _)). cbn [eqres] in Hc. rewrite Hc.
        unfold rest'. rewrite (cobj_close_brace orc _ p (nl :: rest) line' nid' (Some bw) prev' active' acc' Hp).
        rewrite Hfl, rev_involutive. reflexivity. }
      set (sc0 := Scp (mkhdr n dis 0 false nid line) ks' (renormL lvl scope_attr_names a)).
      exists (adopt sc0), (S line'), nid', line, None, (adopt sc0 :: flushed active acc).
      split; [reflexivity|]. split.
      * unfold adopt. change (oname (ohdr sc0)) with n. rewrite Hsd, wrap_dotted_wrapc, erase_wrapc. f_equal.
        pose proof (erase_leafm_hdr m h nid line Hh sc0 eq_refl) as Hhd.
        destruct (leafm_scp m (oname h) (mkhdr n dis 0 false nid line) ks' (renormL lvl scope_attr_names a)) as (h' & Hl).
        fold sc0 in Hl. rewrite Hl in *. cbn [ohdr] in Hhd. cbn [erase_obj eraseL]. rewrite Hhd, Her. reflexivity.
      * intros g Hg.
        rewrite (cobj_fuel_enough orc f (S (S (length X))) X) by lia.
        unfold X at 2.
        rewrite (cobj_scope_step_attrs_adopt orc (S (length X)) p dis n hdrtail line nid stop start prev active acc
                   (mkword ("." :: n1) QN (S line)) tl1 (S line)
                   (renormL lvl scope_attr_names a) bw body lb ks' (nl :: rest) line' nid'
                   Hp Hid Hres Hpre eq_refl Hnw1 eq_refl eq_refl Hsat Hin).
        fold sc0.
        apply cobj_pos_eq; [apply nw_nl| |exact Hg].
        unfold X, hdrtail, tl1, body, rest'. alen. lia.
    }
Qed.


Theorem PL7_all : forall w l, PL7 w l.
Proof. intros w l. apply PL7_of_P7. apply Forall_forall. intros o _. apply P7_all. Qed.

Theorem parse_show_levels_dotted_sec : forall o l w p text,
  forallb (ldtree_ok w [] p) l = true -> blank p ->
  show_objs l p None lvl w = Ok text ->
  exists l', parse o text = Ok l' /\ map erase_obj l' = map (eraseL lvl) l.
Proof.
  intros o l w p text0 Hok Hp H. rewrite (show_objs_dtxtsL w l p Hok) in H.
  assert (Ht : text0 = dtxtsL lvl w p l) by congruence. subst text0.
  set (text := dtxtsL lvl w p l).
  destruct (PL7_all w l p Hok o [] (S (S (length text))) 1 1 false None 0 None [] Hp (follow_blank [] eq_refl))
    as (l' & line' & nid' & prev' & active' & acc' & Hfl & Her & Hc).
  { fold text. rewrite app_nil_r. lia. }
  exists l'. split; [|exact Her].
  specialize (Hc 1 (Nat.lt_succ_diag_r _)). cbn [eqres] in Hc. fold text in Hc. rewrite app_nil_r in Hc.
  rewrite parse_noline, Hc. cbn [cobj nw cobj_noline].
  change (match active' with Some d => d :: acc' | None => acc' end) with (flushed active' acc').
  rewrite Hfl. cbn [flushed]. rewrite app_nil_r, rev_involutive. reflexivity.
Qed.
End DottedLevels.

(* EVERY LEVEL >= 1, DOTTED NAMES (no deprecated definitions): the text parses to the tree with the attributes
   visible at the level *)
Theorem parse_as_str_levels_dotted : forall lvl o l w text, (0 <? lvl)%Z = true ->
  forallb (ldtree_ok (width_of w) [] []) l = true ->
  as_str l [] None lvl w = Ok text ->
  exists l', parse o text = Ok l' /\ map erase_obj l' = map (eraseL lvl) l.
Proof.
  intros lvl o l w text Hlvl Hok H. unfold as_str in H. fold (width_of w) in H.
  exact (parse_show_levels_dotted_sec lvl Hlvl o l (width_of w) [] text Hok blank_nil H).
Qed.

Theorem parse_as_str_level2_dotted : forall o l w text,
  forallb (ldtree_ok (width_of w) [] []) l = true ->
  as_str l [] None 2 w = Ok text ->
  exists l', parse o text = Ok l' /\ map erase_obj l' = map erase3 l.
Proof.
  intros o l w text Hok H.
  destruct (parse_as_str_levels_dotted 2 o l w text eq_refl Hok H) as (l' & P & E).
  exists l'. split; [exact P|]. rewrite E. apply map_ext. intros x. rewrite eraseL_2_3. apply eraseL3.
Qed.

Theorem stree_ok_ldtree_ok : forall w o p, stree_ok w p o = true -> ldtree_ok w [] p o = true.
Proof.
  intros w o. induction o as [h ws a|h ks a IH] using obj_ind2; intros p H; cbn [stree_ok ldtree_ok] in *.
  - apply andb_prop in H as [H Ha]. apply andb_prop in H as [H Hw]. apply andb_prop in H as [Hh Hn].
    rewrite (hdr_ok_leaf_ok h Hh), Hn, Hw, Ha. reflexivity.
  - apply andb_prop in H as [H Hks]. apply andb_prop in H as [Hh Ha].
    assert (Hfm : first_merges ks = false).
    { destruct ks as [|k r]; [reflexivity|]. cbn [first_merges forallb] in *.
      apply andb_prop in Hks as [Hk _]. apply stree_ok_hdr, hdr_ok_facts in Hk. apply Hk. }
    rewrite Hfm, (hdr_ok_leaf_ok h Hh), Ha. cbn [andb].
    apply forallb_forall. intros c Hc. rewrite Forall_forall in IH. rewrite forallb_forall in Hks.
    exact (IH c Hc _ (Hks c Hc)).
Qed.

Print Assumptions parse_as_str_levels_dotted.
Print Assumptions parse_as_str_level2_dotted.
Print Assumptions stree_ok_ldtree_ok.

Definition dot_src2 : str := s_ "a.b.x = 1
  .help = ""h 1""
  .caption = cap
a.c {
  y = 2
  d.e.z = 3 4
    .expert_level = 2
}
q.r
  .help = scope
  .style = box
{
  !u.v = 5
}
".
Definition dot_tree2 : list obj := match parse [] dot_src2 with Ok l => l | _ => [] end.
Definition dot_reparsed2 (lvl:Z) : list obj :=
  match as_str dot_tree2 [] None lvl None with
  | Ok t => match parse [] t with Ok l => l | _ => [] end
  | _ => [] end.
Example dot_levels_roundtrip :
  forallb (ldtree_ok default_width [] []) dot_tree2 = true /\ forallb (stree_ok default_width []) dot_tree2 = false
  /\ map erase_obj (dot_reparsed2 1) = map (eraseL 1) dot_tree2
  /\ map erase_obj (dot_reparsed2 2) = map erase3 dot_tree2
  /\ map erase_obj (dot_reparsed2 3) = map erase3 dot_tree2
  /\ map (eraseL 1) dot_tree2 <> map erase3 dot_tree2 /\ length dot_tree2 = 3.
Proof. vm_compute. repeat split. intros H. discriminate H. Qed.
