(* Concrete runs for the C05 theorems (non-vacuity; everything closed and decided by vm_compute). *)
From Coq Require Import List Ascii String Bool Arith ZArith Lia.
From Phil Require Import Base Tree Vars Choice Parser Fetch FetchBasics FetchShape FetchDisabled FetchExamples
                         FetchMergeObs FetchMergeMeta FetchMergeRules.
Import ListNotations.
Local Open Scope char_scope.

(* master:  a = 1                        sources:  a = 2        s { b = y }    t.c = 5
            s .multiple = True { b = x }           s { b = z }  a = 3
            t { c = 4 }                            s { b = y }                              *)
Definition m5 : list obj :=
  [ Def (dh "a" false 1 1) [w_ "1" 1] [];
    Scp (dh "s" false 2 2) [Def (dh "b" false 3 3) [w_ "x" 3] []] [(s_ "multiple", ABool true)];
    Scp (dh "t" false 4 4) [Def (dh "c" false 5 4) [w_ "4" 4] []] [] ].
Definition s5a : list obj :=
  [ Def (dh "a" false 1 1) [w_ "2" 1] [];
    Scp (dh "s" false 2 2) [Def (dh "b" false 3 2) [w_ "y" 2] []] [] ].
Definition s5b : list obj :=
  [ Scp (dh "s" false 4 3) [Def (dh "b" false 5 3) [w_ "z" 3] []] [];
    Def (dh "a" false 6 4) [w_ "3" 4] [];
    Scp (dh "s" false 7 5) [Def (dh "b" false 8 5) [w_ "y" 5] []] [] ].
(* t.c = 5 as the parser builds it *)
Definition s5c_dotted : obj := adopt (Def (dh "t.c" false 1 1) [w_ "5" 1] []).
Definition s5c_braces : obj := braces [dh "t" false 1 1] (renamed (Def (dh "t.c" false 2 1) [w_ "5" 1] []) (s_ "c")).

Definition r5 : list obj :=
  [ Def (dh "a" false 1 1) [w_ "3" 4] [];
    Scp (mkhdr (s_ "s") false (-1) false 2 2) [Def (dh "b" false 3 3) [w_ "x" 3] []] [(s_ "multiple", ABool true)];
    Scp (dh "s" false 2 2) [Def (dh "b" false 3 3) [w_ "z" 3] []] [(s_ "multiple", ABool true)];
    Scp (dh "s" false 2 2) [Def (dh "b" false 3 3) [w_ "y" 5] []] [(s_ "multiple", ABool true)];
    Scp (dh "t" false 4 4) [Def (dh "c" false 5 4) [w_ "5" 1] []] [] ].

(* last value wins (a = 3), duplicates collapse onto the later copy (s { b = y } once, after z) *)
Lemma ex5_fetch : fetch ex_env ex_canon false m5 [s5a ++ s5b; [s5c_dotted]] = Ok r5.
Proof. vm_compute. reflexivity. Qed.
Lemma ex5_split : fetch ex_env ex_canon false m5 ([] ++ [s5a; s5b] ++ [[s5c_dotted]]) = Ok r5.
Proof. vm_compute. reflexivity. Qed.
Lemma ex5_braces : fetch ex_env ex_canon false m5 [s5a ++ s5b; [s5c_braces]] = Ok r5.
Proof. vm_compute. reflexivity. Qed.
Lemma ex5_no_dollar : srcs_have_dollar ([] ++ [s5a ++ s5b] ++ [[s5c_dotted]]) = false.
Proof. reflexivity. Qed.

Lemma ex5_dotted_shape : s5c_dotted = wrap_dotted true (map oname [dh "t" false 1 1] ++ [s_ "c"]) (Def (dh "t.c" false 1 1) [w_ "5" 1] []).
Proof. reflexivity. Qed.
Lemma ex5_prefix_ok : Forall prefix_hdr_ok [dh "t" false 1 1].
Proof. constructor; [split; reflexivity|constructor]. Qed.

(* unrelated neighbours: a = 2 and s { b = y } *)
Lemma ex5_unrelated : unrelated (Def (dh "a" false 1 1) [w_ "2" 1] []) (Scp (dh "s" false 2 2) [Def (dh "b" false 3 2) [w_ "y" 2] []] []).
Proof. unfold unrelated. cbn. repeat split; try discriminate; reflexivity. Qed.
Lemma ex5_swapped :
  fetch ex_env ex_canon false m5 [[Scp (dh "s" false 2 2) [Def (dh "b" false 3 2) [w_ "y" 2] []] []; Def (dh "a" false 1 1) [w_ "2" 1] []] ++ s5b; [s5c_dotted]] = Ok r5.
Proof. vm_compute. reflexivity. Qed.
(* related neighbours (same name) may not be swapped: the other value wins *)
Lemma ex5_related_swap_differs :
  fetch ex_env ex_canon false m5 [[Def (dh "a" false 1 1) [w_ "2" 1] []; Def (dh "a" false 6 4) [w_ "3" 4] []]]
  <> fetch ex_env ex_canon false m5 [[Def (dh "a" false 6 4) [w_ "3" 4] []; Def (dh "a" false 1 1) [w_ "2" 1] []]].
Proof. vm_compute. discriminate. Qed.

(* an earlier invalid value raises although a later valid one would win *)
Definition mch : list obj :=
  [ Def (dh "c" false 1 1) [w_ "x" 1; w_ "y" 1] [(s_ "type", AType (TyChoice false))] ].
Lemma ex5_earlier_invalid :
  fetch ex_env ex_canon false mch [[Def (dh "c" false 1 1) [w_ "w" 1] []; Def (dh "c" false 2 2) [w_ "y" 2] []]]
  = UErr (s_ "NotAChoice") (s_ "w") 1.
Proof. vm_compute. reflexivity. Qed.

(* dedupe_keep_last on a small list *)
Lemma ex5_dedupe : dedupe_keep_last [(s_ "x", 1); (s_ "y", 2); (s_ "x", 3)] = [(s_ "y", 2); (s_ "x", 3)].
Proof. reflexivity. Qed.

(* .optional = False: the template copy is the first list element (is_template 0) *)
Definition mopt : list obj :=
  [ Scp (dh "s" false 1 1) [Def (dh "b" false 2 2) [w_ "x" 2] []] [(s_ "multiple", ABool true); (s_ "optional", ABool false)] ].
Lemma ex5_mandatory_template :
  fetch ex_env ex_canon false mopt [[Scp (dh "s" false 1 1) [Def (dh "b" false 2 1) [w_ "y" 1] []] []]]
  = Ok [ Scp (dh "s" false 1 1) [Def (dh "b" false 2 2) [w_ "x" 2] []] [(s_ "multiple", ABool true); (s_ "optional", ABool false)];
         Scp (dh "s" false 1 1) [Def (dh "b" false 2 2) [w_ "y" 1] []] [(s_ "multiple", ABool true); (s_ "optional", ABool false)] ].
Proof. vm_compute. reflexivity. Qed.
