(* C05, metamorphic part - the general invariance theorem.
   Two lists of source objects are OBSERVATIONALLY EQUAL (leq) when, for every path n, what
   get_without_substitution finds for n on either side are, pairwise and in order, definitions with
   the same words resp. scopes whose child lists are observationally equal again.
   fetch_obs: for sources without "$" the result of fetch depends on the sources only up to leq
   of the concatenated source lists.  Splitting, positions, lexical contexts, headers (merge flag,
   ids, lines, is_template) and attributes of source objects are all invisible; what is visible is
   the sequence of matches per name.  The metamorphic clauses of C05 are instances
   (Proofs/FetchMergeMeta.v). *)
From Coq Require Import List Ascii String Bool Arith ZArith Lia.
From Phil Require Import Base Tree Vars Choice Fetch FetchBasics FetchDisabled.
Import ListNotations.
Local Open Scope char_scope.

(* ------------------------------------------------------------------ get_without_substitution without positions *)
Fixpoint gw (path:str) (o:obj) : list obj :=
  match o with
  | Def h _ _ => if odis h || negb (eqs (oname h) path) then [] else [o]
  | Scp h ks _ =>
      if odis h then []
      else
        let inner (pth:str) := flat_map (fun k => if odis (ohdr k) then [] else gw pth k) ks in
        match oname h with
        | [] => match path with [] => ks | _ => inner path end
        | _ => if eqs (oname h) path then [o]
               else if prefixb (oname h ++ ["."]) path then inner (drop (length (oname h) + 1) path)
               else []
        end
  end.

Definition gwk (n:str) (l:list obj) : list obj :=
  flat_map (fun k => if odis (ohdr k) then [] else gw n k) l.
Definition oactive (o:obj) : bool := negb (odis (ohdr o)).
(* the active matches of the path n in the object list l *)
Definition omatch (n:str) (l:list obj) : list obj := filter oactive (gwk n l).

Lemma gwk_app : forall n a b, gwk n (a ++ b) = gwk n a ++ gwk n b.
Proof. intros. unfold gwk. apply flat_map_app. Qed.
Lemma filter_app' : forall A (f:A -> bool) a b, filter f (a ++ b) = filter f a ++ filter f b.
Proof. intros A f a b. induction a as [|x a IH]; [reflexivity|]. cbn. destruct (f x); cbn; rewrite IH; reflexivity. Qed.
Lemma omatch_app : forall n a b, omatch n (a ++ b) = omatch n a ++ omatch n b.
Proof. intros. unfold omatch. rewrite gwk_app. apply filter_app'. Qed.

Lemma map_lobj_kids_aux : forall p ks0 chain ks i,
  map lobj (map (fun jk : nat * obj => mklsrc (p ++ [fst jk]) (snd jk) (ks0 :: chain)) (index_from i ks)) = ks.
Proof.
  intros p ks0 chain ks. induction ks as [|k r IH]; intros i; [reflexivity|].
  cbn. f_equal. apply IH.
Qed.
Lemma map_lobj_kids : forall p ks chain, map lobj (kids_at p ks chain) = ks.
Proof. intros. unfold kids_at. apply map_lobj_kids_aux. Qed.

Lemma gwsp_gw : forall o p chain n, map lobj (gwsp p chain n o) = gw n o.
Proof.
  induction o as [h ws a|h ks a IH] using obj_ind2; intros p chain n.
  - cbn. destruct (odis h || negb (eqs (oname h) n)); reflexivity.
  - cbn [gwsp gw]. destruct (odis h); [reflexivity|].
    assert (Hin : forall pth j,
      map lobj ((fix go (j:nat) (l:list obj) : list lsrc :=
                   match l with
                   | [] => []
                   | k :: r => (if odis (ohdr k) then [] else gwsp (p ++ [j]) (ks :: chain) pth k) ++ go (S j) r
                   end) j ks)
      = flat_map (fun k => if odis (ohdr k) then [] else gw pth k) ks).
    { intros pth. generalize (ks :: chain) as c1.
      induction IH as [|k r Hk _ IHr]; intros c1 j; [reflexivity|].
      rewrite map_app. cbn [flat_map]. rewrite IHr. f_equal.
      destruct (odis (ohdr k)); [reflexivity|apply Hk]. }
    destruct (oname h) as [|c nm].
    + destruct n as [|c n]; [apply map_lobj_kids|apply Hin].
    + destruct (eqs (c :: nm) n); [reflexivity|].
      destruct (prefixb ((c :: nm) ++ ["."]) n); [apply Hin|reflexivity].
Qed.

Lemma map_lobj_filter : forall l, map lobj (filter lactive l) = filter oactive (map lobj l).
Proof.
  induction l as [|s l IH]; [reflexivity|]. cbn. unfold lactive at 1, oactive at 1.
  destruct (negb (odis (ohdr (lobj s)))); cbn; rewrite IH; reflexivity.
Qed.

Lemma match_sources_omatch : forall n l, map lobj (match_sources n l) = omatch n (map lobj l).
Proof.
  intros n l. unfold match_sources, omatch. rewrite map_lobj_filter. f_equal.
  induction l as [|s r IH]; [reflexivity|].
  cbn [flat_map map]. unfold gwk in *. cbn [flat_map]. rewrite map_app, IH. f_equal.
  destruct (odis (ohdr (lobj s))); [reflexivity|apply gwsp_gw].
Qed.

(* ------------------------------------------------------------------ observational equality *)
Inductive oeq : obj -> obj -> Prop :=
  | oeq_def : forall h ws a h' a', oeq (Def h ws a) (Def h' ws a')
  | oeq_scp : forall h ks a h' ks' a',
      (forall n, Forall2 oeq (omatch n ks) (omatch n ks')) -> oeq (Scp h ks a) (Scp h' ks' a').

Definition leq (l l':list obj) : Prop := forall n, Forall2 oeq (omatch n l) (omatch n l').

Lemma oeq_is_def : forall o o', oeq o o' -> is_def o = is_def o'.
Proof. intros o o' H. destruct H; reflexivity. Qed.

Lemma oeq_kids : forall o o', oeq o o' -> leq (okids o) (okids o').
Proof.
  intros o o' H. destruct H as [h ws a h' a'|h ks a h' ks' a' Hk]; cbn [okids].
  - intros n. constructor.
  - exact Hk.
Qed.

Lemma leq_app : forall a a' b b', leq a a' -> leq b b' -> leq (a ++ b) (a' ++ b').
Proof. intros a a' b b' H1 H2 n. rewrite !omatch_app. apply Forall2_app; [apply H1|apply H2]. Qed.

Lemma leq_nil : leq [] [].
Proof. intros n. constructor. Qed.

Lemma leq_flat_kids : forall os os', Forall2 oeq os os' -> leq (flat_map okids os) (flat_map okids os').
Proof.
  intros os os' H. induction H as [|o o' r r' Ho _ IH]; [apply leq_nil|].
  cbn [flat_map]. apply leq_app; [apply oeq_kids; exact Ho|exact IH].
Qed.

(* ------------------------------------------------------------------ the fetch sees observational classes only *)
Lemma map_lobj_src_kids : forall ms, map lobj (flat_map src_kids ms) = flat_map okids (map lobj ms).
Proof.
  induction ms as [|s r IH]; [reflexivity|]. cbn [flat_map map]. rewrite map_app, IH. f_equal.
  unfold src_kids. destruct (lobj s) as [h ws a|h ks a]; [reflexivity|]. cbn [okids]. apply map_lobj_kids.
Qed.

(* two candidate sources: the same located object, or "$"-free observationally equal objects *)
Definition orel (s s':lsrc) : Prop :=
  s = s' \/ (oeq (lobj s) (lobj s') /\ obj_has_dollar (lobj s) = false /\ obj_has_dollar (lobj s') = false).

Lemma orel_oeq_or : forall s s', orel s s' -> s = s' \/ oeq (lobj s) (lobj s').
Proof. intros s s' [E|[H _]]; [left; exact E|right; exact H]. Qed.

Lemma orel_is_def : forall s s', orel s s' -> is_def (lobj s) = is_def (lobj s').
Proof. intros s s' [E|[H _]]; [subst; reflexivity|apply oeq_is_def; exact H]. Qed.

Section Obs.
  Variable env : str -> option str.
  Variable canon : obj -> option obj -> res str.
  Variable diff : bool.

  Lemma def_fetch_value_orel : forall dm h mws a s s', orel s s' ->
    def_fetch_value env dm h mws a s = def_fetch_value env dm h mws a s'.
  Proof.
    intros dm h mws a s s' [E|[Ho [Hp Hp']]]; [subst; reflexivity|].
    unfold def_fetch_value. destruct Ho as [h0 ws0 a0 h0' a0'|h0 ks0 a0 h0' ks0' a0' _]; [|reflexivity].
    rewrite !resolve_plain; [reflexivity| |]; cbn [owords]; apply words_plain_b; [exact Hp'|exact Hp].
  Qed.

  Lemma def_fetch_orel : forall h mws a s s', orel s s' ->
    def_fetch env canon diff h mws a s = def_fetch env canon diff h mws a s'.
  Proof. intros. unfold def_fetch. rewrite !(def_fetch_value_orel _ _ _ _ s s') by assumption. reflexivity. Qed.

  Lemma def_loop_orel : forall h mws a ms ms' last, Forall2 orel ms ms' ->
    def_loop env canon diff h mws a ms last = def_loop env canon diff h mws a ms' last.
  Proof.
    intros h mws a ms ms' last H. revert last. induction H as [|s s' r r' Hs _ IH]; intros last; [reflexivity|].
    cbn [def_loop]. rewrite (def_fetch_orel _ _ _ s s') by exact Hs.
    destruct (def_fetch env canon diff h mws a s'); cbn; [apply IH|reflexivity|reflexivity].
  Qed.

  (* scope.fetch of some master scope on two observationally equal offers *)
  Definition rec_obs (rec:list lsrc -> res fout) : Prop :=
    forall comb comb', leq (map lobj comb) (map lobj comb') -> lplain comb -> lplain comb' ->
                       rrel same_tree (rec comb) (rec comb').

  Lemma combine_orel : forall ms ms', Forall2 orel ms ms' ->
    rrel (fun c c' => c = flat_map src_kids ms /\ c' = flat_map src_kids ms') (combine ms) (combine ms').
  Proof.
    intros ms ms' H. induction H as [|s s' r r' Hs _ IH]; [cbn; auto|].
    cbn [combine]. rewrite (orel_is_def _ _ Hs).
    destruct (is_def (lobj s')); [cbn; auto|].
    eapply rrel_bind; [exact IH|]. intros c c' [E E']. subst. cbn. auto.
  Qed.

  Lemma kids_leq_of_oeq : forall ms ms',
    Forall2 (fun s s' => oeq (lobj s) (lobj s')) ms ms' ->
    leq (map lobj (flat_map src_kids ms)) (map lobj (flat_map src_kids ms')).
  Proof.
    intros ms ms' H. rewrite !map_lobj_src_kids. apply leq_flat_kids.
    induction H as [|s s' r r' Hs _ IH]; constructor; assumption.
  Qed.

  Lemma cand_fetch_orel : forall k rec s s', rec_obs rec -> orel s s' ->
    rrel (fun cu cu' : option obj * list pos => fst cu = fst cu')
         (cand_fetch env canon diff k rec s) (cand_fetch env canon diff k rec s').
  Proof.
    intros k rec s s' Hrec Hs. destruct Hs as [E|Hs]; [subst; apply rrel_refl; reflexivity|].
    destruct k as [h mws a|h ks a]; cbn [cand_fetch].
    - rewrite (def_fetch_orel _ _ _ s s') by (right; exact Hs).
      destruct (def_fetch env canon diff h mws a s'); cbn; auto.
    - destruct Hs as [Ho [Hp Hp']].
      eapply rrel_bind; [apply (combine_orel [s] [s']); constructor; [right; auto|constructor]|].
      intros c c' [E E']. subst.
      eapply rrel_bind.
      + apply Hrec.
        * apply kids_leq_of_oeq. constructor; [exact Ho|constructor].
        * apply src_kids_plain. intros x [Ex|[]]. subst. exact Hp.
        * apply src_kids_plain. intros x [Ex|[]]. subst. exact Hp'.
      + intros oc oc' E. cbn. unfold same_tree in E. rewrite E. reflexivity.
  Qed.

  Definition cor (c c':bool * lsrc) : Prop := fst c = fst c' /\ orel (snd c) (snd c').

  Lemma mult_loop_orel : forall k rec mas cands cands', rec_obs rec -> Forall2 cor cands cands' ->
    forall pd robjs used used',
    rrel (fun st st' : pdict * list (option obj) * list pos => fst st = fst st')
         (mult_loop env canon diff k rec mas cands pd robjs used)
         (mult_loop env canon diff k rec mas cands' pd robjs used').
  Proof.
    intros k rec mas cands cands' Hrec H. induction H as [|[fm s] [fm' s'] r r' [Hf Hs] _ IH]; intros pd robjs used used'.
    - cbn. reflexivity.
    - cbn in Hf. subst fm'. cbn [snd] in Hs. cbn [mult_loop].
      eapply rrel_bind; [apply cand_fetch_orel; eassumption|].
      intros [cand u] [cand' u'] E. cbn in E. subst cand'. cbn [fst snd].
      destruct (diff_skip diff k cand); [apply IH|].
      destruct (canon k cand) as [cs| |]; cbn [bind]; [|cbn; auto|cbn; auto].
      destruct (eqs cs mas); [apply IH|].
      destruct (pget cs pd) as [[i|]|]; [|apply IH|]; (destruct (diff && fm); apply IH).
  Qed.

  (* one master object, given related matches for its name *)
  Lemma fetch_one_obs : forall allks chain i k rec srcs srcs',
    rec_obs rec ->
    Forall2 (fun s s' => oeq (lobj s) (lobj s') /\ obj_has_dollar (lobj s) = false /\ obj_has_dollar (lobj s') = false)
            (match_sources (oname (ohdr k)) srcs) (match_sources (oname (ohdr k)) srcs') ->
    rrel same_tree (fetch_one env canon diff allks chain i k rec srcs)
                   (fetch_one env canon diff allks chain i k rec srcs').
  Proof.
    intros allks chain i k rec srcs srcs' Hrec Hm0. unfold fetch_one.
    destruct (get_attr (s_ "alias") (oattrs k)); try (cbn; auto).
    destruct (oname (ohdr k)) as [|c0 nm]; [cbn; auto|].
    assert (Hm : Forall2 orel (match_sources (c0 :: nm) srcs) (match_sources (c0 :: nm) srcs')).
    { induction Hm0 as [|s s' r r' Hs _ IHm]; constructor; [right; exact Hs|exact IHm]. }
    destruct (omultiple k); cbn [negb].
    - destruct (canon k None) as [mas| |]; cbn [bind]; [|cbn; auto|cbn; auto].
      eapply rrel_bind.
      + apply mult_loop_orel with (used' := []); [exact Hrec|].
        apply Forall2_app.
        * induction (self_matching allks chain i (c0 :: nm)) as [|x l IHl]; constructor; [|exact IHl].
          split; [reflexivity|left; reflexivity].
        * clear Hm0. induction Hm as [|s s' r r' Hs _ IHm]; constructor; [|exact IHm]. split; [reflexivity|exact Hs].
      + intros [[pd robjs] used] [[pd' robjs'] used'] E. cbn in E. injection E as E1 E2. subst. cbn. reflexivity.
    - destruct k as [h mws a|h ks a].
      + rewrite (def_loop_orel _ _ _ _ _ None Hm).
        destruct (def_loop env canon diff h mws a (match_sources (c0 :: nm) srcs') None) as [ro| |]; cbn [bind]; [|cbn; auto|cbn; auto].
        destruct ro; [cbn; reflexivity|]. destruct (negb diff && negb (odeprecated (Def h mws a))); cbn; reflexivity.
      + eapply rrel_bind; [apply combine_orel; exact Hm|].
        intros c c' [E E']. subst.
        eapply rrel_bind.
        * apply Hrec.
          -- apply kids_leq_of_oeq. clear Hm. induction Hm0 as [|s s' r r' Hs _ IHm]; constructor; [apply Hs|exact IHm].
          -- apply src_kids_plain. intros x Hx. clear Hm.
             induction Hm0 as [|s s' r r' Hs _ IHm]; [destruct Hx|].
             destruct Hx as [Hx|Hx]; [subst; apply Hs|apply IHm; exact Hx].
          -- apply src_kids_plain. intros x Hx. clear Hm.
             induction Hm0 as [|s s' r r' Hs _ IHm]; [destruct Hx|].
             destruct Hx as [Hx|Hx]; [subst; apply Hs|apply IHm; exact Hx].
        * intros oc oc' E. unfold same_tree in E. rewrite E.
          destruct (diff && null_objs (fst oc')); cbn; reflexivity.
  Qed.

  Lemma matching_strict : forall n l l', leq (map lobj l) (map lobj l') -> lplain l -> lplain l' ->
    Forall2 (fun s s' => oeq (lobj s) (lobj s') /\ obj_has_dollar (lobj s) = false /\ obj_has_dollar (lobj s') = false)
            (match_sources n l) (match_sources n l').
  Proof.
    intros n l l' Hv Hp Hp'.
    pose proof (Hv n) as F. rewrite <- !match_sources_omatch in F.
    pose proof (match_sources_plain n l Hp) as P. pose proof (match_sources_plain n l' Hp') as P'.
    remember (match_sources n l) as ms eqn:E1. remember (match_sources n l') as ms' eqn:E2. clear E1 E2.
    revert ms' F P'. induction ms as [|s r IH]; intros [|s' r'] F P'; cbn in F; inversion F; subst; constructor.
    - split; [assumption|]. split; [apply P; left; reflexivity|apply P'; left; reflexivity].
    - apply IH; [intros x Hx; apply P; right; exact Hx|assumption|intros x Hx; apply P'; right; exact Hx].
  Qed.

  Lemma fetch_scope_obs : forall M mchain, rec_obs (fetch_scope env canon diff M mchain).
  Proof.
    induction M as [h ws a|h ks a IH] using obj_ind2; intros mchain srcs srcs' Hv Hp Hp'.
    - cbn. reflexivity.
    - cbn [fetch_scope]. apply mloop_view. intros i k Hk.
      apply fetch_one_obs; [|apply matching_strict; assumption].
      rewrite Forall_forall in IH. apply IH. exact Hk.
  Qed.

  Lemma map_lobj_root : forall srcs, map lobj (root_lsrcs srcs) = List.concat srcs.
  Proof.
    intros srcs. unfold root_lsrcs. generalize 0 as i.
    induction srcs as [|t r IH]; intros i; [reflexivity|].
    cbn [index_from flat_map fst snd List.concat]. rewrite map_app, map_lobj_kids, IH. reflexivity.
  Qed.

  (* the tree is a function of the observational class of the concatenated sources *)
  Theorem fetch_obs : forall m srcs srcs',
    srcs_have_dollar srcs = false -> srcs_have_dollar srcs' = false ->
    leq (List.concat srcs) (List.concat srcs') ->
    fetch env canon diff m srcs = fetch env canon diff m srcs'.
  Proof.
    intros m srcs srcs' Hd Hd' Hv. unfold fetch.
    change (rmap fst (fetch_root env canon diff m srcs) = rmap fst (fetch_root env canon diff m srcs')).
    apply rrel_eq. unfold fetch_root. apply fetch_scope_obs.
    - rewrite !map_lobj_root. exact Hv.
    - apply lplain_root. exact Hd.
    - apply lplain_root. exact Hd'.
  Qed.
End Obs.
