(* Proofs about the selection logic of process_arg (Model/CmdLine.v: zmax, zcount, zindex,
   best_matches, decide, decide_for, process_sources). *)
From Coq Require Import List Ascii String Bool Arith ZArith Lia.
From Phil Require Import Base Tree CmdLine CmdLineProofs.
Import ListNotations.
Local Open Scope Z_scope.

(* ---------- declarative vocabulary on score lists *)
Definition is_max (l : list Z) (m : Z) : Prop := In m l /\ forall x, In x l -> x <= m.
(* position i holds m and every other position holds something strictly smaller *)
Definition umax (l : list Z) (i : nat) (m : Z) : Prop :=
  nth_error l i = Some m /\ forall j x, nth_error l j = Some x -> j <> i -> x < m.
(* m occurs at two different positions *)
Definition shared (l : list Z) (m : Z) : Prop :=
  exists i j, i <> j /\ nth_error l i = Some m /\ nth_error l j = Some m.

Lemma zmax_none : forall l, zmax l = None <-> l = [].
Proof.
  destruct l as [|x r]; cbn; [tauto|]. destruct (zmax r); split; discriminate.
Qed.

Lemma zmax_spec : forall l m, zmax l = Some m <-> is_max l m.
Proof.
  unfold is_max. induction l as [|x r IH]; intros m; cbn [zmax].
  - split; [discriminate | intros [[] _]].
  - destruct (zmax r) as [m'|] eqn:E.
    + pose proof (proj1 (IH m') eq_refl) as [Hin Hle]. split.
      * intro H. inversion H; subst m; clear H. destruct (Z.ltb_spec m' x).
        -- split; [left; reflexivity|]. intros y [->|Hy]; [lia | specialize (Hle y Hy); lia].
        -- split; [right; exact Hin|]. intros y [->|Hy]; [lia | auto].
      * intros [Hm Hall]. f_equal. destruct (Z.ltb_spec m' x).
        -- destruct Hm as [->|Hm]; [reflexivity|]. specialize (Hle m Hm). specialize (Hall x (or_introl eq_refl)). lia.
        -- destruct Hm as [<-|Hm].
           ++ specialize (Hall m' (or_intror Hin)). lia.
           ++ specialize (Hle m Hm). specialize (Hall m' (or_intror Hin)). lia.
    + apply zmax_none in E. subst r. split.
      * intro H. inversion H; subst. split; [left; reflexivity|]. intros y [->|[]]. lia.
      * intros [[->|[]] _]. reflexivity.
Qed.

Lemma is_max_unique : forall l m m', is_max l m -> is_max l m' -> m = m'.
Proof. intros l m m' [H1 H2] [H3 H4]. specialize (H2 _ H3). specialize (H4 _ H1). lia. Qed.

Lemma zcount_pos : forall m l, (0 < zcount m l)%nat <-> In m l.
Proof.
  induction l as [|y r IH]; cbn; [split; [lia | tauto]|].
  destruct (Z.eqb_spec y m).
  - split; [intros _; left; exact e | intros _; lia].
  - rewrite IH. split; [tauto | intros [H|H]; [contradiction | exact H]].
Qed.

Lemma In_nth_error_Z : forall (m : Z) l, In m l <-> exists i, nth_error l i = Some m.
Proof.
  intros. split; [apply In_nth_error | intros [i H]; eapply nth_error_In; exact H].
Qed.

Lemma zcount_shared : forall m l, (1 < zcount m l)%nat <-> shared l m.
Proof.
  unfold shared. induction l as [|y r IH]; cbn [zcount].
  - split; [lia | intros [i [j [_ [H _]]]]; destruct i; discriminate].
  - destruct (Z.eqb_spec y m) as [->|Hne].
    + split.
      * intro H. assert (In m r) as Hin by (apply zcount_pos; lia).
        apply In_nth_error_Z in Hin. destruct Hin as [j Hj]. exists 0%nat, (S j). cbn. auto.
      * intros [i [j [Hij [Hi Hj]]]].
        assert (In m r) as Hin.
        { destruct i as [|i]; [destruct j as [|j]; [contradiction|] |]; cbn in *; eapply nth_error_In; eauto. }
        apply zcount_pos in Hin. lia.
    + rewrite IH. split.
      * intros [i [j [Hij [Hi Hj]]]]. exists (S i), (S j). cbn. auto.
      * intros [i [j [Hij [Hi Hj]]]]. destruct i as [|i]; [cbn in Hi; congruence|].
        destruct j as [|j]; [cbn in Hj; congruence|]. exists i, j. cbn in *. auto.
Qed.

Lemma zindex_in : forall m l, In m l -> exists k, zindex m l = Some k.
Proof.
  induction l as [|y r IH]; intros H; [destruct H|]. cbn.
  destruct (Z.eqb_spec y m); [eexists; reflexivity|].
  destruct H as [H|H]; [contradiction|]. destruct (IH H) as [k ->]. eexists; reflexivity.
Qed.

(* list.index: the first position *)
Lemma zindex_spec : forall m l i, zindex m l = Some i <->
  nth_error l i = Some m /\ forall j, (j < i)%nat -> nth_error l j <> Some m.
Proof.
  induction l as [|y r IH]; intros i; cbn [zindex].
  - split; [discriminate | intros [H _]; destruct i; discriminate].
  - destruct (Z.eqb_spec y m) as [->|Hne].
    + split.
      * intro H. inversion H; subst. cbn. split; [reflexivity | intros; lia].
      * intros [H1 H2]. destruct i as [|i]; [reflexivity|]. exfalso. apply (H2 0%nat); [lia | reflexivity].
    + destruct (zindex m r) as [k|] eqn:E; cbn [option_map].
      * split.
        -- intro H. inversion H; subst i. pose proof (proj1 (IH k) eq_refl) as [E1 E2]. cbn. split; [exact E1|].
           intros j Hj. destruct j as [|j]; cbn; [congruence | apply E2; lia].
        -- intros [H1 H2]. destruct i as [|i]; [cbn in H1; congruence|]. f_equal. f_equal.
           cbn in H1. pose proof (proj1 (IH k) eq_refl) as [E1 E2].
           destruct (Nat.lt_trichotomy i k) as [L|[L|L]]; [|exact (eq_sym L)|].
           ++ exfalso. apply (E2 i L). exact H1.
           ++ exfalso. apply (H2 (S k)); [lia | exact E1].
      * split; [discriminate|]. intros [H1 H2]. destruct i as [|i]; [cbn in H1; congruence|].
        cbn in H1. exfalso. apply nth_error_In in H1. apply zindex_in in H1. destruct H1 as [k Hk]. congruence.
Qed.

(* ---------- unique maximiser <-> max() / count() / index() *)
Lemma umax_of_unique : forall l m, is_max l m -> ~ shared l m ->
  exists i, zindex m l = Some i /\ umax l i m.
Proof.
  intros l m [Hin Hle] Hns. destruct (zindex_in m l Hin) as [i Hi]. exists i. split; [exact Hi|].
  apply zindex_spec in Hi. destruct Hi as [Hi _]. split; [exact Hi|].
  intros j x Hj Hne. assert (x <= m) by (apply Hle; eapply nth_error_In; exact Hj).
  destruct (Z.eq_dec x m) as [->|]; [|lia]. exfalso. apply Hns. exists j, i. auto.
Qed.

Lemma umax_props : forall l i m, umax l i m -> is_max l m /\ ~ shared l m /\ zindex m l = Some i.
Proof.
  intros l i m [Hi Hlt]. split; [|split].
  - split; [eapply nth_error_In; exact Hi|]. intros x Hx. apply In_nth_error in Hx. destruct Hx as [j Hj].
    destruct (Nat.eq_dec j i) as [->|Hne]; [rewrite Hi in Hj; inversion Hj; lia|].
    specialize (Hlt j x Hj Hne). lia.
  - intros [a [b [Hab [Ha Hb]]]]. destruct (Nat.eq_dec a i) as [->|Hne].
    + specialize (Hlt b m Hb (fun E => Hab (eq_sym E))). lia.
    + specialize (Hlt a m Ha Hne). lia.
  - apply zindex_spec. split; [exact Hi|]. intros j Hj E. specialize (Hlt j m E). lia.
Qed.

Lemma umax_index_unique : forall l i j m k, umax l i m -> umax l j k -> i = j /\ m = k.
Proof.
  intros l i j m k H1 H2. pose proof (umax_props _ _ _ H1) as [A [_ B]]. pose proof (umax_props _ _ _ H2) as [C [_ D]].
  assert (m = k) by (eapply is_max_unique; eauto). subst k. rewrite B in D. inversion D. auto.
Qed.

Lemma pick_spec : forall targets l m w i t w',
  pick targets l m w = Ok (Chosen i t w') <-> zindex m l = Some i /\ nth_error targets i = Some t /\ w = w'.
Proof.
  intros. unfold pick, pick_at. destruct (zindex m l) as [k|].
  - destruct (nth_error targets k) as [u|] eqn:E.
    + split.
      * intro H. inversion H; subst. auto.
      * intros [H1 [H2 H3]]. inversion H1; subst. rewrite E in H2. inversion H2; subst. reflexivity.
    + split; [discriminate|]. intros [H1 [H2 _]]. inversion H1; subst. congruence.
  - split; [discriminate | intros [H _]; discriminate].
Qed.

Lemma pick_not_unknown : forall targets l m w, pick targets l m w <> Ok Unknown.
Proof. intros. unfold pick, pick_at. destruct (zindex m l); [destruct (nth_error targets n)|]; discriminate. Qed.
Lemma pick_not_ambiguous : forall targets l m w c, pick targets l m w <> Ok (Ambiguous c).
Proof. intros. unfold pick, pick_at. destruct (zindex m l); [destruct (nth_error targets n)|]; discriminate. Qed.

Lemma ltb_count : forall m l, (1 <? zcount m l)%nat = true <-> shared l m.
Proof. intros. rewrite Nat.ltb_lt. apply zcount_shared. Qed.

Lemma zindex_lt : forall m l i, zindex m l = Some i -> (i < length l)%nat.
Proof.
  intros m l i H. apply zindex_spec in H. destruct H as [H _]. apply nth_error_Some. congruence.
Qed.

Lemma pick_total : forall targets l m w, In m l -> length l = length targets ->
  exists i t, pick targets l m w = Ok (Chosen i t w).
Proof.
  intros targets l m w Hin Hl. unfold pick, pick_at. destruct (zindex_in m l Hin) as [i Hi]. rewrite Hi.
  apply zindex_lt in Hi. destruct (nth_error targets i) as [t|] eqn:E; [eauto|].
  apply nth_error_None in E. lia.
Qed.

(* ---------- the tie-break list holds -inf (None) for the non-competitors.  max / count / index
   on it agree with the Z versions after replacing None by any number below all the keys. *)
Definition emb (f : Z) (o : option Z) : Z := match o with Some k => k | None => f end.
Definition above (f : Z) (l : list (option Z)) : Prop := forall k, In (Some k) l -> f < k.

Lemma oltb_emb : forall f a b, above f [a; b] -> oltb a b = (emb f a <? emb f b).
Proof.
  intros f a b H. destruct a as [x|], b as [y|]; cbn.
  - reflexivity.
  - assert (f < x) by (apply H; left; reflexivity). symmetry. apply Z.ltb_ge. lia.
  - assert (f < y) by (apply H; right; left; reflexivity). symmetry. apply Z.ltb_lt. lia.
  - symmetry. apply Z.ltb_irrefl.
Qed.

Lemma oeqb_emb : forall f a b, above f [a; b] -> oeqb a b = (emb f a =? emb f b).
Proof.
  intros f a b H. destruct a as [x|], b as [y|]; cbn.
  - reflexivity.
  - assert (f < x) by (apply H; left; reflexivity). symmetry. apply Z.eqb_neq. lia.
  - assert (f < y) by (apply H; right; left; reflexivity). symmetry. apply Z.eqb_neq. lia.
  - symmetry. apply Z.eqb_refl.
Qed.

Lemma above_sub : forall f l l', above f l -> (forall x, In x l' -> In x l) -> above f l'.
Proof. intros f l l' H S k Hk. apply H. apply S. exact Hk. Qed.

Lemma omax_in : forall l m, omax l = Some m -> In m l.
Proof.
  induction l as [|x r IH]; intros m H; cbn in H; [discriminate|].
  destruct (omax r) as [m'|] eqn:E.
  - inversion H; subst. destruct (oltb m' x); [left; reflexivity | right; apply IH; reflexivity].
  - inversion H; subst. left. reflexivity.
Qed.

Lemma omax_emb : forall f l, above f l -> zmax (map (emb f) l) = option_map (emb f) (omax l).
Proof.
  intros f. induction l as [|x r IH]; intros H; cbn; [reflexivity|].
  rewrite IH by (eapply above_sub; [exact H | intros; right; assumption]).
  destruct (omax r) as [m|] eqn:E; cbn; [|reflexivity].
  rewrite (oltb_emb f m x).
  - destruct (emb f m <? emb f x); reflexivity.
  - eapply above_sub; [exact H|]. intros y [<-|[<-|[]]]; [right; apply omax_in; exact E | left; reflexivity].
Qed.

Lemma ocount_emb : forall f m l, above f (m :: l) -> ocount m l = zcount (emb f m) (map (emb f) l).
Proof.
  intros f m. induction l as [|y r IH]; intros H; cbn; [reflexivity|].
  rewrite (oeqb_emb f y m) by (eapply above_sub; [exact H|]; intros z [<-|[<-|[]]]; [right; left; reflexivity | left; reflexivity]).
  rewrite IH by (eapply above_sub; [exact H|]; intros z [<-|Hz]; [left; reflexivity | right; right; exact Hz]).
  reflexivity.
Qed.

Lemma oindex_emb : forall f m l, above f (m :: l) -> oindex m l = zindex (emb f m) (map (emb f) l).
Proof.
  intros f m. induction l as [|y r IH]; intros H; cbn; [reflexivity|].
  rewrite (oeqb_emb f y m) by (eapply above_sub; [exact H|]; intros z [<-|[<-|[]]]; [right; left; reflexivity | left; reflexivity]).
  rewrite IH by (eapply above_sub; [exact H|]; intros z [<-|Hz]; [left; reflexivity | right; right; exact Hz]).
  reflexivity.
Qed.

Lemma exists_floor : forall l, exists f, above f l.
Proof.
  induction l as [|x r [f Hf]].
  - exists 0. intros k [].
  - destruct x as [k|].
    + exists (Z.min f (k - 1)). intros k' [E|Hk]; [inversion E; lia | specialize (Hf k' Hk); lia].
    + exists f. intros k' [E|Hk]; [discriminate | auto].
Qed.

(* the tie-break on a Z list, and its three outcomes *)
Definition tiebreakZ (targets cands : list str) (keys : list Z) : res decision :=
  match zmax keys with
  | None => Crash (s_ "ValueError")
  | Some m2 => if (1 <? zcount m2 keys)%nat then Ok (Ambiguous cands) else pick targets keys m2 true
  end.

Lemma tiebreak_emb : forall f targets cands keys, above f keys ->
  tiebreak targets cands keys = tiebreakZ targets cands (map (emb f) keys).
Proof.
  intros f targets cands keys H. unfold tiebreak, tiebreakZ. rewrite (omax_emb f keys H).
  destruct (omax keys) as [m2|] eqn:E; cbn [option_map]; [|reflexivity].
  assert (above f (m2 :: keys)) as H2.
  { eapply above_sub; [exact H|]. intros x [<-|Hx]; [apply omax_in; exact E | exact Hx]. }
  rewrite (ocount_emb f m2 keys H2), (oindex_emb f m2 keys H2). reflexivity.
Qed.

Lemma tiebreakZ_chosen : forall targets cands keys i t w,
  tiebreakZ targets cands keys = Ok (Chosen i t w) <->
  w = true /\ nth_error targets i = Some t /\ exists k, umax keys i k.
Proof.
  intros. unfold tiebreakZ. destruct (zmax keys) as [m2|] eqn:E.
  - apply zmax_spec in E. destruct (1 <? zcount m2 keys)%nat eqn:Ec.
    + apply ltb_count in Ec. split; [discriminate|].
      intros [_ [_ [k Hu]]]. apply umax_props in Hu. destruct Hu as [Hu [Hns _]].
      assert (k = m2) by (eapply is_max_unique; eauto). subst. contradiction.
    + assert (~ shared keys m2) as Hns by (intro X; apply ltb_count in X; congruence).
      rewrite pick_spec. split.
      * intros [H1 [H2 H3]]. split; [auto|]. split; [exact H2|]. exists m2.
        destruct (umax_of_unique keys m2 E Hns) as [i' [Hi' Hu]]. rewrite H1 in Hi'. inversion Hi'; subst. exact Hu.
      * intros [-> [Ht [k Hu]]]. apply umax_props in Hu. destruct Hu as [Hu [_ Hz]].
        assert (k = m2) by (eapply is_max_unique; eauto). subst. auto.
  - split; [discriminate|]. intros [_ [_ [k [Hu _]]]]. apply zmax_none in E. subst. destruct i; discriminate.
Qed.

Lemma tiebreakZ_ambiguous : forall targets cands keys c,
  tiebreakZ targets cands keys = Ok (Ambiguous c) <->
  c = cands /\ exists k, is_max keys k /\ shared keys k.
Proof.
  intros. unfold tiebreakZ. destruct (zmax keys) as [m2|] eqn:E.
  - apply zmax_spec in E. destruct (1 <? zcount m2 keys)%nat eqn:Ec.
    + apply ltb_count in Ec. split.
      * intro H. inversion H; subst. eauto.
      * intros [-> _]. reflexivity.
    + assert (~ shared keys m2) as Hns by (intro X; apply ltb_count in X; congruence).
      split.
      * intro H. exfalso. eapply pick_not_ambiguous; exact H.
      * intros [_ [k [Hk Hs]]]. assert (k = m2) by (eapply is_max_unique; eauto). subst. contradiction.
  - split; [discriminate|]. intros [_ [k [[Hk _] _]]]. apply zmax_none in E. subst. destruct Hk.
Qed.

Lemma tiebreakZ_not_unknown : forall targets cands keys, tiebreakZ targets cands keys <> Ok Unknown.
Proof.
  intros. unfold tiebreakZ. destruct (zmax keys); [|discriminate].
  destruct (1 <? zcount z keys)%nat; [discriminate | apply pick_not_unknown].
Qed.

Lemma tiebreakZ_total : forall targets cands keys, keys <> [] -> length keys = length targets ->
  exists d, tiebreakZ targets cands keys = Ok d.
Proof.
  intros targets cands keys Hne Hl. unfold tiebreakZ. destruct (zmax keys) as [m2|] eqn:E.
  - destruct (1 <? zcount m2 keys)%nat; [eauto|]. apply zmax_spec in E.
    destruct (pick_total targets keys m2 true) as [i [t H]]; [apply E | exact Hl | rewrite H; eauto].
  - apply zmax_none in E. contradiction.
Qed.

(* ---------- the tie-break list, position by position *)
Definition keys_of (sc levels : list Z) (m : Z) : list (option Z) := map (tb_key m) (combine sc levels).

Lemma nth_keys : forall m sc levels j o,
  nth_error (keys_of sc levels m) j = Some o <->
  exists a e, nth_error sc j = Some a /\ nth_error levels j = Some e /\
              o = if a =? m then Some (100 * a - e) else None.
Proof.
  unfold keys_of. intros m. induction sc as [|a sc IH]; intros levels j o.
  - cbn. split; [destruct j; discriminate | intros [a [e [H _]]]; destruct j; discriminate].
  - destruct levels as [|e levels].
    + cbn. split; [destruct j; discriminate | intros [a' [e' [_ [H _]]]]; destruct j; discriminate].
    + destruct j as [|j]; cbn [combine map nth_error].
      * unfold tb_key at 1. cbn [fst snd]. split.
        -- intro H. inversion H. eauto.
        -- intros [a' [e' [H1 [H2 H3]]]]. inversion H1; inversion H2; subst. reflexivity.
      * apply IH.
Qed.

Lemma keys_length : forall sc levels m, length levels = length sc -> length (keys_of sc levels m) = length sc.
Proof. intros. unfold keys_of. rewrite map_length, combine_length. lia. Qed.

(* the competitors are the positions holding the best score m; position i "has the lowest level" when
   it is a competitor and every other competitor has a strictly higher expert level *)
Definition competitor (sc levels : list Z) (m : Z) (j : nat) (e : Z) : Prop :=
  nth_error sc j = Some m /\ nth_error levels j = Some e.
Definition lowest (sc levels : list Z) (m : Z) (i : nat) (e : Z) : Prop :=
  competitor sc levels m i e /\ forall j e', j <> i -> competitor sc levels m j e' -> e < e'.
(* the lowest level among the competitors is held by two of them *)
Definition lowest_shared (sc levels : list Z) (m : Z) : Prop :=
  exists i j e, i <> j /\ competitor sc levels m i e /\ competitor sc levels m j e /\
                forall p e', competitor sc levels m p e' -> e <= e'.

Section TieBreak.
  Variables (sc levels : list Z) (m f : Z).
  Hypothesis Hlen : length levels = length sc.
  Hypothesis Hin : In m sc.
  Hypothesis Hf : above f (keys_of sc levels m).
  Let keysZ := map (emb f) (keys_of sc levels m).

  Lemma level_at : forall j a, nth_error sc j = Some a -> exists e, nth_error levels j = Some e.
  Proof.
    intros j a H. destruct (nth_error levels j) as [e|] eqn:E; [eauto|].
    apply nth_error_None in E. assert (j < length sc)%nat by (apply nth_error_Some; congruence). lia.
  Qed.

  Lemma nth_keysZ : forall j z, nth_error keysZ j = Some z <->
    exists a e, nth_error sc j = Some a /\ nth_error levels j = Some e /\
                z = if a =? m then 100 * a - e else f.
  Proof.
    intros j z. unfold keysZ. rewrite nth_error_map.
    destruct (nth_error (keys_of sc levels m) j) as [o|] eqn:E; cbn.
    - apply nth_keys in E. destruct E as [a [e [Ha [He ->]]]]. split.
      + intro H. inversion H; subst. exists a, e. repeat split; try assumption. destruct (a =? m); reflexivity.
      + intros [a' [e' [Ha' [He' ->]]]]. rewrite Ha in Ha'. rewrite He in He'. inversion Ha'; inversion He'; subst.
        destruct (a' =? m); reflexivity.
    - split; [discriminate|]. intros [a [e [Ha [He _]]]].
      assert (nth_error (keys_of sc levels m) j = Some (if a =? m then Some (100 * a - e) else None)) as X
        by (apply nth_keys; eauto). congruence.
  Qed.

  Lemma competitor_above : forall j e, competitor sc levels m j e -> f < 100 * m - e.
  Proof.
    intros j e [Hs He]. apply Hf. eapply nth_error_In. apply nth_keys. exists m, e.
    rewrite Z.eqb_refl. eauto.
  Qed.

  Lemma a_competitor : exists p e, competitor sc levels m p e.
  Proof.
    apply In_nth_error in Hin. destruct Hin as [p Hp]. destruct (level_at p m Hp) as [e He]. exists p, e. split; assumption.
  Qed.

  Theorem umax_lowest : forall i, (exists k, umax keysZ i k) <-> exists e, lowest sc levels m i e.
  Proof.
    intros i. split.
    - intros [k [Hi Hlt]]. apply nth_keysZ in Hi. destruct Hi as [a [e [Ha [He ->]]]].
      destruct (Z.eqb_spec a m) as [->|Hne].
      + exists e. split; [split; assumption|]. intros j e' Hj [Hsj Hej].
        assert (nth_error keysZ j = Some (100 * m - e')) as Hk
          by (apply nth_keysZ; exists m, e'; rewrite Z.eqb_refl; auto).
        specialize (Hlt j _ Hk Hj). lia.
      + exfalso. destruct a_competitor as [p [ep Hp]]. pose proof (competitor_above p ep Hp).
        destruct Hp as [Hsp Hep]. assert (p <> i) by (intros ->; congruence).
        assert (nth_error keysZ p = Some (100 * m - ep)) as Hk
          by (apply nth_keysZ; exists m, ep; rewrite Z.eqb_refl; auto).
        specialize (Hlt p _ Hk H0). lia.
    - intros [e [[Hs He] Hlow]]. exists (100 * m - e). split.
      + apply nth_keysZ. exists m, e. rewrite Z.eqb_refl. auto.
      + intros j x Hj Hne. apply nth_keysZ in Hj. destruct Hj as [a [e' [Ha [He' ->]]]].
        destruct (Z.eqb_spec a m) as [->|Hn].
        * assert (e < e') by (apply (Hlow j e' Hne); split; assumption). lia.
        * apply (competitor_above i e). split; assumption.
  Qed.

  Theorem shared_lowest : (exists k, is_max keysZ k /\ shared keysZ k) <-> lowest_shared sc levels m.
  Proof.
    split.
    - intros [k [[Hk Hle] [i [j [Hij [Hi Hj]]]]]].
      destruct a_competitor as [p [ep Hp]]. pose proof (competitor_above p ep Hp) as Hab.
      assert (100 * m - ep <= k) as Hpk.
      { apply Hle. eapply nth_error_In. apply nth_keysZ. destruct Hp as [A B]. exists m, ep. rewrite Z.eqb_refl. eauto. }
      assert (forall q, nth_error keysZ q = Some k -> exists e, competitor sc levels m q e /\ k = 100 * m - e) as Hc.
      { intros q Hq. apply nth_keysZ in Hq. destruct Hq as [a [e [Ha [He Hz]]]].
        destruct (Z.eqb_spec a m) as [->|Hn]; [exists e; split; [split; assumption | exact Hz] | lia]. }
      destruct (Hc i Hi) as [e [Hci Hke]]. destruct (Hc j Hj) as [e2 [Hcj Hke2]].
      assert (e2 = e) by lia. subst e2. exists i, j, e. repeat (split; [assumption|]).
      intros q e' [Hsq Heq].
      assert (100 * m - e' <= k); [|lia].
      apply Hle. eapply nth_error_In. apply nth_keysZ. exists m, e'. rewrite Z.eqb_refl. eauto.
    - intros [i [j [e [Hij [[Hsi Hei] [[Hsj Hej] Hlow]]]]]]. exists (100 * m - e).
      assert (forall q, competitor sc levels m q e -> nth_error keysZ q = Some (100 * m - e)) as Hq.
      { intros q [A B]. apply nth_keysZ. exists m, e. rewrite Z.eqb_refl. auto. }
      split.
      + split; [eapply nth_error_In; apply (Hq i); split; assumption|].
        intros x Hx. apply In_nth_error in Hx. destruct Hx as [q Hx]. apply nth_keysZ in Hx.
        destruct Hx as [a [e' [Ha [He' ->]]]]. destruct (Z.eqb_spec a m) as [->|Hn].
        * assert (e <= e') by (apply (Hlow q); split; assumption). lia.
        * pose proof (competitor_above i e (conj Hsi Hei)). lia.
      + exists i, j. split; [exact Hij|]. split; apply Hq; split; assumption.
  Qed.
End TieBreak.

(* ---------- the four outcomes of decide, for any score list *)
Section Decide.
  Variables (targets : list str) (levels sc : list Z).

  Lemma decide_unfold : decide targets levels sc =
    match zmax sc with
    | None => Ok Unknown
    | Some m => if m =? 0 then Ok Unknown
                else if (1 <? zcount m sc)%nat
                     then tiebreak targets (best_matches targets sc m) (keys_of sc levels m)
                     else pick targets sc m false
    end.
  Proof. unfold decide, zmax_default0, decide_at, keys_of. destruct (zmax sc); reflexivity. Qed.

  Theorem decide_unknown : decide targets levels sc = Ok Unknown <-> sc = [] \/ is_max sc 0.
  Proof.
    rewrite decide_unfold. destruct (zmax sc) as [m|] eqn:E.
    - apply zmax_spec in E. assert (sc <> []) as Hsc by (intros ->; destruct E as [[] _]).
      destruct (Z.eqb_spec m 0) as [->|Hne]; [tauto|].
      split.
      + intro H. exfalso. destruct (1 <? zcount m sc)%nat.
        * destruct (exists_floor (keys_of sc levels m)) as [f Hf]. rewrite (tiebreak_emb f) in H by exact Hf.
          eapply tiebreakZ_not_unknown; exact H.
        * eapply pick_not_unknown; exact H.
      + intros [H|H]; [contradiction|]. exfalso. apply Hne. eapply is_max_unique; eauto.
    - apply zmax_none in E. tauto.
  Qed.

  Theorem decide_plain : forall i t,
    decide targets levels sc = Ok (Chosen i t false) <->
    exists m, m <> 0 /\ umax sc i m /\ nth_error targets i = Some t.
  Proof.
    intros i t. rewrite decide_unfold. destruct (zmax sc) as [m|] eqn:E.
    - apply zmax_spec in E. destruct (Z.eqb_spec m 0) as [->|Hne].
      + split; [discriminate|]. intros [m [Hm [Hu _]]]. apply umax_props in Hu. destruct Hu as [Hu _].
        exfalso. apply Hm. eapply is_max_unique; eauto.
      + destruct (1 <? zcount m sc)%nat eqn:Ec.
        * apply ltb_count in Ec. split.
          -- intro H. exfalso. destruct (exists_floor (keys_of sc levels m)) as [f Hf].
             rewrite (tiebreak_emb f) in H by exact Hf. apply tiebreakZ_chosen in H. destruct H as [H _]. discriminate.
          -- intros [m' [_ [Hu _]]]. apply umax_props in Hu. destruct Hu as [Hu [Hns _]].
             assert (m' = m) by (eapply is_max_unique; eauto). subst. contradiction.
        * assert (~ shared sc m) as Hns by (intro X; apply ltb_count in X; congruence).
          rewrite pick_spec. split.
          -- intros [H1 [H2 _]]. exists m. split; [exact Hne|]. split; [|exact H2].
             destruct (umax_of_unique sc m E Hns) as [i' [Hi' Hu]]. rewrite H1 in Hi'. inversion Hi'; subst. exact Hu.
          -- intros [m' [_ [Hu Ht]]]. apply umax_props in Hu. destruct Hu as [Hu [_ Hz]].
             assert (m' = m) by (eapply is_max_unique; eauto). subst. auto.
    - split; [discriminate|]. intros [m [_ [[Hu _] _]]]. apply zmax_none in E. subst. destruct i; discriminate.
  Qed.

  Hypothesis Hlen : length levels = length sc.

  (* chosen with a warning iff the best score is shared and this position alone has the lowest
     level among the positions holding the best score *)
  Theorem decide_warn : forall i t,
    decide targets levels sc = Ok (Chosen i t true) <->
    exists m, is_max sc m /\ m <> 0 /\ shared sc m /\ nth_error targets i = Some t /\
              exists e, lowest sc levels m i e.
  Proof.
    intros i t. rewrite decide_unfold. destruct (zmax sc) as [m|] eqn:E.
    - apply zmax_spec in E. destruct (Z.eqb_spec m 0) as [->|Hne].
      + split; [discriminate|]. intros [m [Hm [Hz _]]]. exfalso. apply Hz. eapply is_max_unique; eauto.
      + destruct (1 <? zcount m sc)%nat eqn:Ec.
        * apply ltb_count in Ec. destruct (exists_floor (keys_of sc levels m)) as [f Hf].
          rewrite (tiebreak_emb f) by exact Hf. rewrite tiebreakZ_chosen.
          rewrite (umax_lowest sc levels m f Hlen (proj1 E) Hf i). split.
          -- intros [_ [Ht Hl]]. exists m. auto.
          -- intros [m' [Hm [_ [_ [Ht Hl]]]]]. assert (m' = m) by (eapply is_max_unique; eauto). subst. auto.
        * assert (~ shared sc m) as Hns by (intro X; apply ltb_count in X; congruence).
          split.
          -- intro H. apply pick_spec in H. destruct H as [_ [_ H]]. discriminate.
          -- intros [m' [Hm [_ [Hs _]]]]. assert (m' = m) by (eapply is_max_unique; eauto). subst. contradiction.
    - split; [discriminate|]. intros [m [[H _] _]]. apply zmax_none in E. subst. destruct H.
  Qed.

  Theorem decide_ambiguous : forall c,
    decide targets levels sc = Ok (Ambiguous c) <->
    exists m, is_max sc m /\ m <> 0 /\ shared sc m /\ lowest_shared sc levels m /\
              c = best_matches targets sc m.
  Proof.
    intros c. rewrite decide_unfold. destruct (zmax sc) as [m|] eqn:E.
    - apply zmax_spec in E. destruct (Z.eqb_spec m 0) as [->|Hne].
      + split; [discriminate|]. intros [m [Hm [Hz _]]]. exfalso. apply Hz. eapply is_max_unique; eauto.
      + destruct (1 <? zcount m sc)%nat eqn:Ec.
        * apply ltb_count in Ec. destruct (exists_floor (keys_of sc levels m)) as [f Hf].
          rewrite (tiebreak_emb f) by exact Hf. rewrite tiebreakZ_ambiguous.
          rewrite (shared_lowest sc levels m f Hlen (proj1 E) Hf). split.
          -- intros [-> Hl]. exists m. auto.
          -- intros [m' [Hm [_ [_ [Hl ->]]]]]. assert (m' = m) by (eapply is_max_unique; eauto). subst. auto.
        * assert (~ shared sc m) as Hns by (intro X; apply ltb_count in X; congruence).
          split.
          -- intro H. exfalso. eapply pick_not_ambiguous; exact H.
          -- intros [m' [Hm [_ [Hs _]]]]. assert (m' = m) by (eapply is_max_unique; eauto). subst. contradiction.
    - split; [discriminate|]. intros [m [[H _] _]]. apply zmax_none in E. subst. destruct H.
  Qed.

  (* no crash when the lists are as process_arg builds them *)
  Theorem decide_total : length targets = length sc -> exists d, decide targets levels sc = Ok d.
  Proof.
    intros Ht. rewrite decide_unfold. destruct (zmax sc) as [m|] eqn:E; [|eauto].
    assert (sc <> []) as Hne by (intros ->; discriminate).
    apply zmax_spec in E. destruct (m =? 0); [eauto|].
    destruct (1 <? zcount m sc)%nat.
    - destruct (exists_floor (keys_of sc levels m)) as [f Hf]. rewrite (tiebreak_emb f) by exact Hf.
      apply tiebreakZ_total.
      + intro X. apply (f_equal (@length Z)) in X. rewrite map_length, keys_length in X by exact Hlen.
        destruct sc; [contradiction | discriminate].
      + rewrite map_length, keys_length by exact Hlen. lia.
    - destruct (pick_total targets sc m false) as [i [t H]]; [apply E | lia | rewrite H; eauto].
  Qed.
End Decide.

(* ---------- the Best matches list *)
Lemma best_matches_filter : forall (f : str -> Z) targets m,
  best_matches targets (map f targets) m = filter (fun t => f t =? m) targets.
Proof.
  induction targets as [|t r IH]; intros m; cbn; [reflexivity|].
  destruct (f t =? m); rewrite IH; reflexivity.
Qed.

Lemma shared_map_filter : forall (f : str -> Z) targets m,
  shared (map f targets) m -> (1 < length (filter (fun t => (f t =? m)%Z) targets))%nat.
Proof.
  intros f targets m H. apply zcount_shared in H.
  assert (forall l, zcount m (map f l) = length (filter (fun t => (f t =? m)%Z) l)) as X.
  { induction l as [|t r IH]; cbn; [reflexivity|]. destruct (f t =? m); cbn; rewrite IH; reflexivity. }
  rewrite <- X. exact H.
Qed.

(* ---------- decide_for: the score list is map (get_path_score home source) targets *)
Section DecideFor.
  Variables (home : option str) (targets : list str) (levels : list Z) (s : str).
  Let f := get_path_score home s.
  Let sc := map f targets.

  Lemma sc_nth : forall i x, nth_error sc i = Some x <-> exists t, nth_error targets i = Some t /\ x = f t.
  Proof.
    intros i x. unfold sc. rewrite nth_error_map. destruct (nth_error targets i) as [t|]; cbn.
    - split; [intro H; inversion H; eauto | intros [t' [H ->]]; inversion H; reflexivity].
    - split; [discriminate | intros [t' [H _]]; discriminate].
  Qed.

  Lemma is_max_zero : sc = [] \/ is_max sc 0 <-> forall t, In t targets -> f t = 0.
  Proof.
    unfold is_max, sc. split.
    - intros [H|[Hin Hle]] t Ht.
      + destruct targets; [destruct Ht | discriminate].
      + pose proof (score_range home s t). specialize (Hle (f t) (in_map f _ _ Ht)). unfold f in *. lia.
    - intros Hz. destruct targets as [|t r] eqn:Et; [left; reflexivity|]. right. split.
      + left. apply Hz. left. reflexivity.
      + intros x Hx. apply in_map_iff in Hx. destruct Hx as [t' [<- Ht]]. rewrite (Hz t' Ht). lia.
  Qed.

  (* refused as unknown iff no target matches - in particular when there is no target at all *)
  Theorem decide_for_unknown :
    decide_for home targets levels s = Ok Unknown <-> forall t, In t targets -> f t = 0.
  Proof. unfold decide_for. rewrite decide_unknown. apply is_max_zero. Qed.

  Theorem decide_for_total : length levels = length targets ->
    exists d, decide_for home targets levels s = Ok d.
  Proof.
    intros Hl. unfold decide_for. apply decide_total.
    - rewrite map_length. exact Hl.
    - rewrite map_length. reflexivity.
  Qed.

  (* a name equal to a full path of a duplicate-free master always addresses that parameter *)
  Theorem full_path_wins : In s targets -> NoDup targets ->
    exists i, nth_error targets i = Some s /\ decide_for home targets levels s = Ok (Chosen i s false).
  Proof.
    intros Hin Hnd. apply In_nth_error in Hin. destruct Hin as [i Hi]. exists i. split; [exact Hi|].
    unfold decide_for. apply decide_plain. exists 8. split; [lia|]. split; [|exact Hi].
    split.
    - apply sc_nth. exists s. split; [exact Hi|]. symmetry. apply score_8. reflexivity.
    - intros j x Hj Hne. apply sc_nth in Hj. destruct Hj as [t [Ht ->]]. apply score_lt_8.
      intros ->. apply Hne. eapply NoDup_nth_error; [exact Hnd | | congruence].
      apply nth_error_Some. congruence.
  Qed.
End DecideFor.

(* ---------- the loop over the source definitions of one argument *)
Lemma process_sources_ok : forall home targets levels srcs warned acc w l,
  process_sources home targets levels srcs warned acc = (w, EOk l) ->
  exists ds, l = acc ++ ds /\
    Forall2 (fun src d => exists warn, decide_for home targets levels src = Ok (Chosen (fst d) (snd d) warn)) srcs ds.
Proof.
  intros home targets levels srcs. induction srcs as [|src r IH]; intros warned acc w l H; cbn in H.
  - destruct acc; inversion H; subst. exists []. rewrite app_nil_r. split; [reflexivity | constructor].
  - destruct (decide_for home targets levels src) as [d| |] eqn:E; try (inversion H; fail).
    destruct d as [|c|i t wn]; try (inversion H; fail).
    apply IH in H. destruct H as [ds [-> HF]]. exists ((i, t) :: ds). rewrite <- app_assoc. split; [reflexivity|].
    constructor; [exists wn; exact E | exact HF].
Qed.

(* a refusal is the refusal of the first source definition that is not chosen *)
Lemma process_sources_refused : forall home targets levels srcs warned acc w src,
  process_sources home targets levels srcs warned acc = (w, EUnknown src) ->
  exists pre post, srcs = pre ++ src :: post /\ decide_for home targets levels src = Ok Unknown /\
    Forall (fun x => exists i t wn, decide_for home targets levels x = Ok (Chosen i t wn)) pre.
Proof.
  intros home targets levels srcs. induction srcs as [|x r IH]; intros warned acc w src H; cbn in H.
  - destruct acc; inversion H.
  - destruct (decide_for home targets levels x) as [d| |] eqn:E; try (inversion H; fail).
    destruct d as [|c|i t wn]; try (inversion H; fail).
    + inversion H; subst. exists [], r. split; [reflexivity|]. split; [exact E | constructor].
    + apply IH in H. destruct H as [pre [post [-> [Hu HF]]]]. exists (x :: pre), post.
      split; [reflexivity|]. split; [exact Hu|]. constructor; [eauto | exact HF].
Qed.

Lemma process_sources_ambiguous : forall home targets levels srcs warned acc w src c,
  process_sources home targets levels srcs warned acc = (w, EAmbiguous src c) ->
  exists pre post, srcs = pre ++ src :: post /\ decide_for home targets levels src = Ok (Ambiguous c) /\
    Forall (fun x => exists i t wn, decide_for home targets levels x = Ok (Chosen i t wn)) pre.
Proof.
  intros home targets levels srcs. induction srcs as [|x r IH]; intros warned acc w src c H; cbn in H.
  - destruct acc; inversion H.
  - destruct (decide_for home targets levels x) as [d| |] eqn:E; try (inversion H; fail).
    destruct d as [|c'|i t wn]; try (inversion H; fail).
    + inversion H; subst. exists [], r. split; [reflexivity|]. split; [exact E | constructor].
    + apply IH in H. destruct H as [pre [post [-> [Hu HF]]]]. exists (x :: pre), post.
      split; [reflexivity|]. split; [exact Hu|]. constructor; [eauto | exact HF].
Qed.

(* ---------- the outcomes of decide_for stated on the target list itself *)
Definition scores (home : option str) (s : str) (targets : list str) : list Z :=
  map (get_path_score home s) targets.

Lemma scores_nth : forall home s targets i x,
  nth_error (scores home s targets) i = Some x <->
  exists t, nth_error targets i = Some t /\ x = get_path_score home s t.
Proof. intros. apply sc_nth. Qed.

Lemma max_score_nonneg : forall home s targets m, is_max (scores home s targets) m -> 0 <= m.
Proof.
  intros home s targets m [Hin _]. apply in_map_iff in Hin. destruct Hin as [t [<- _]].
  apply score_range.
Qed.

Theorem decide_for_plain : forall home targets levels s i t,
  decide_for home targets levels s = Ok (Chosen i t false) <->
  nth_error targets i = Some t /\ 0 < get_path_score home s t /\
  forall j t', nth_error targets j = Some t' -> j <> i ->
               get_path_score home s t' < get_path_score home s t.
Proof.
  intros. unfold decide_for. rewrite decide_plain. fold (scores home s targets). split.
  - intros [m [Hm [[Hi Hlt] Ht]]]. split; [exact Ht|].
    apply scores_nth in Hi. destruct Hi as [t0 [Ht0 ->]]. rewrite Ht in Ht0. inversion Ht0; subst t0.
    split; [pose proof (score_range home s t); lia|].
    intros j t' Hj Hne. apply (Hlt j); [apply scores_nth; eauto | exact Hne].
  - intros [Ht [Hpos Hlt]]. exists (get_path_score home s t). split; [lia|]. split; [|exact Ht].
    split; [apply scores_nth; eauto|]. intros j x Hj Hne. apply scores_nth in Hj. destruct Hj as [t' [Ht' ->]]. eauto.
Qed.

Lemma competitor_scores : forall home s targets levels m j e,
  competitor (scores home s targets) levels m j e <->
  exists t, nth_error targets j = Some t /\ get_path_score home s t = m /\ nth_error levels j = Some e.
Proof.
  intros. unfold competitor. rewrite scores_nth. split.
  - intros [[t [Ht Hm]] He]. exists t. auto.
  - intros [t [Ht [Hm He]]]. split; [exists t; auto | exact He].
Qed.

(* chosen with a warning <-> the best score is shared and this target alone has the lowest expert
   level among the targets with the best score *)
Theorem decide_for_warn : forall home targets levels s i t,
  length levels = length targets ->
  (decide_for home targets levels s = Ok (Chosen i t true) <->
   nth_error targets i = Some t /\
   exists m e, is_max (scores home s targets) m /\ 0 < m /\ shared (scores home s targets) m /\
     get_path_score home s t = m /\ nth_error levels i = Some e /\
     forall j t' e', j <> i -> nth_error targets j = Some t' -> get_path_score home s t' = m ->
                     nth_error levels j = Some e' -> e < e').
Proof.
  intros home targets levels s i t Hlen.
  assert (Hl : length levels = length (scores home s targets)) by (unfold scores; rewrite map_length; exact Hlen).
  unfold decide_for. fold (scores home s targets). rewrite (decide_warn _ _ _ Hl). split.
  - intros [m [H1 [H2 [H3 [Ht [e [Hc Hlow]]]]]]]. split; [exact Ht|]. exists m, e.
    pose proof (max_score_nonneg _ _ _ _ H1). apply competitor_scores in Hc. destruct Hc as [t0 [Ht0 [Hm He]]].
    rewrite Ht in Ht0. inversion Ht0; subst t0.
    split; [exact H1|]. split; [lia|]. split; [exact H3|]. split; [exact Hm|]. split; [exact He|].
    intros j t' e' Hne Hj Hs He'. apply (Hlow j e' Hne). apply competitor_scores. eauto.
  - intros [Ht [m [e [H1 [H2 [H3 [Hm [He Hlow]]]]]]]]. exists m. split; [exact H1|]. split; [lia|]. split; [exact H3|].
    split; [exact Ht|]. exists e. split.
    + apply competitor_scores. eauto.
    + intros j e' Hne Hc. apply competitor_scores in Hc. destruct Hc as [t' [Hj [Hs He']]]. eapply Hlow; eauto.
Qed.

(* refused as ambiguous <-> the best score is shared and so is the lowest level among the targets
   holding it; the list is exactly the targets with the best score, in target order *)
Theorem decide_for_ambiguous : forall home targets levels s c,
  length levels = length targets ->
  (decide_for home targets levels s = Ok (Ambiguous c) <->
   exists m, is_max (scores home s targets) m /\ 0 < m /\ shared (scores home s targets) m /\
             lowest_shared (scores home s targets) levels m /\
             c = filter (fun t => get_path_score home s t =? m) targets /\ (1 < length c)%nat).
Proof.
  intros home targets levels s c Hlen.
  assert (Hl : length levels = length (scores home s targets)) by (unfold scores; rewrite map_length; exact Hlen).
  unfold decide_for. fold (scores home s targets). rewrite (decide_ambiguous _ _ _ Hl). split.
  - intros [m [H1 [H2 [H3 [H4 ->]]]]]. exists m. pose proof (max_score_nonneg _ _ _ _ H1).
    split; [exact H1|]. split; [lia|]. split; [exact H3|]. split; [exact H4|].
    unfold scores. rewrite best_matches_filter. split; [reflexivity|]. apply shared_map_filter. exact H3.
  - intros [m [H1 [H2 [H3 [H4 [-> _]]]]]]. exists m. split; [exact H1|]. split; [lia|].
    split; [exact H3|]. split; [exact H4|]. unfold scores. rewrite best_matches_filter. reflexivity.
Qed.

(* the tie-break never lets a target outside the best matches win *)
Corollary chosen_is_best : forall home targets levels s i t w,
  length levels = length targets ->
  decide_for home targets levels s = Ok (Chosen i t w) ->
  nth_error targets i = Some t /\ 0 < get_path_score home s t /\
  forall t', In t' targets -> get_path_score home s t' <= get_path_score home s t.
Proof.
  intros home targets levels s i t w Hlen H. destruct w.
  - apply (decide_for_warn _ _ _ _ _ _ Hlen) in H. destruct H as [Ht [m [e [[_ Hle] [Hpos [_ [Hm _]]]]]]].
    split; [exact Ht|]. split; [lia|]. intros t' Ht'. rewrite Hm. apply Hle. unfold scores. apply in_map. exact Ht'.
  - apply decide_for_plain in H. destruct H as [Ht [Hpos Hlt]]. split; [exact Ht|]. split; [exact Hpos|].
    intros t' Ht'. apply In_nth_error in Ht'. destruct Ht' as [j Hj].
    destruct (Nat.eq_dec j i) as [->|Hne]; [rewrite Ht in Hj; inversion Hj; lia|].
    specialize (Hlt j t' Hj Hne). lia.
Qed.
