(* Proofs about the selection logic of process_arg (Model/CmdLine.v: zmax, zcount, zindex,
   best_matches, decide, decide_for, process_sources). *)
From Coq Require Import List Ascii String Bool Arith ZArith Lia.
From Phil Require Import Base Tree CmdLine CmdLineProofs.
Import ListNotations.
Local Open Scope Z_scope.

(* ---------- declarative vocabulary on score lists *)
Definition is_max (l : list Z) (m : Z) : Prop := In m l /\ forall x, In x l -> x <= m.
(* position i holds m and every other position holds something strictly smaller *)
Definition umax (l : list Z) (i : nat) (m : Z) : Prop :=
  nth_error l i = Some m /\ forall j x, nth_error l j = Some x -> j <> i -> x < m.
(* m occurs at two different positions *)
Definition shared (l : list Z) (m : Z) : Prop :=
  exists i j, i <> j /\ nth_error l i = Some m /\ nth_error l j = Some m.

Lemma zmax_none : forall l, zmax l = None <-> l = [].
Proof.
  destruct l as [|x r]; cbn; [tauto|]. destruct (zmax r); split; discriminate.
Qed.

Lemma zmax_spec : forall l m, zmax l = Some m <-> is_max l m.
Proof.
  unfold is_max. induction l as [|x r IH]; intros m; cbn [zmax].
  - split; [discriminate | intros [[] _]].
  - destruct (zmax r) as [m'|] eqn:E.
    + pose proof (proj1 (IH m') eq_refl) as [Hin Hle]. split.
      * intro H. inversion H; subst m; clear H. destruct (Z.ltb_spec m' x).
        -- split; [left; reflexivity|]. intros y [->|Hy]; [lia | specialize (Hle y Hy); lia].
        -- split; [right; exact Hin|]. intros y [->|Hy]; [lia | auto].
      * intros [Hm Hall]. f_equal. destruct (Z.ltb_spec m' x).
        -- destruct Hm as [->|Hm]; [reflexivity|]. specialize (Hle m Hm). specialize (Hall x (or_introl eq_refl)). lia.
        -- destruct Hm as [<-|Hm].
           ++ specialize (Hall m' (or_intror Hin)). lia.
           ++ specialize (Hle m Hm). specialize (Hall m' (or_intror Hin)). lia.
    + apply zmax_none in E. subst r. split.
      * intro H. inversion H; subst. split; [left; reflexivity|]. intros y [->|[]]. lia.
      * intros [[->|[]] _]. reflexivity.
Qed.

Lemma is_max_unique : forall l m m', is_max l m -> is_max l m' -> m = m'.
Proof. intros l m m' [H1 H2] [H3 H4]. specialize (H2 _ H3). specialize (H4 _ H1). lia. Qed.

Lemma zcount_pos : forall m l, (0 < zcount m l)%nat <-> In m l.
Proof.
  induction l as [|y r IH]; cbn; [split; [lia | tauto]|].
  destruct (Z.eqb_spec y m).
  - split; [intros _; left; exact e | intros _; lia].
  - rewrite IH. split; [tauto | intros [H|H]; [contradiction | exact H]].
Qed.

Lemma In_nth_error_Z : forall (m : Z) l, In m l <-> exists i, nth_error l i = Some m.
Proof.
  intros. split; [apply In_nth_error | intros [i H]; eapply nth_error_In; exact H].
Qed.

Lemma zcount_shared : forall m l, (1 < zcount m l)%nat <-> shared l m.
Proof.
  unfold shared. induction l as [|y r IH]; cbn [zcount].
  - split; [lia | intros [i [j [_ [H _]]]]; destruct i; discriminate].
  - destruct (Z.eqb_spec y m) as [->|Hne].
    + split.
      * intro H. assert (In m r) as Hin by (apply zcount_pos; lia).
        apply In_nth_error_Z in Hin. destruct Hin as [j Hj]. exists 0%nat, (S j). cbn. auto.
      * intros [i [j [Hij [Hi Hj]]]].
        assert (In m r) as Hin.
        { destruct i as [|i]; [destruct j as [|j]; [contradiction|] |]; cbn in *; eapply nth_error_In; eauto. }
        apply zcount_pos in Hin. lia.
    + rewrite IH. split.
      * intros [i [j [Hij [Hi Hj]]]]. exists (S i), (S j). cbn. auto.
      * intros [i [j [Hij [Hi Hj]]]]. destruct i as [|i]; [cbn in Hi; congruence|].
        destruct j as [|j]; [cbn in Hj; congruence|]. exists i, j. cbn in *. auto.
Qed.

Lemma zindex_in : forall m l, In m l -> exists k, zindex m l = Some k.
Proof.
  induction l as [|y r IH]; intros H; [destruct H|]. cbn.
  destruct (Z.eqb_spec y m); [eexists; reflexivity|].
  destruct H as [H|H]; [contradiction|]. destruct (IH H) as [k ->]. eexists; reflexivity.
Qed.

(* list.index: the first position *)
Lemma zindex_spec : forall m l i, zindex m l = Some i <->
  nth_error l i = Some m /\ forall j, (j < i)%nat -> nth_error l j <> Some m.
Proof.
  induction l as [|y r IH]; intros i; cbn [zindex].
  - split; [discriminate | intros [H _]; destruct i; discriminate].
  - destruct (Z.eqb_spec y m) as [->|Hne].
    + split.
      * intro H. inversion H; subst. cbn. split; [reflexivity | intros; lia].
      * intros [H1 H2]. destruct i as [|i]; [reflexivity|]. exfalso. apply (H2 0%nat); [lia | reflexivity].
    + destruct (zindex m r) as [k|] eqn:E; cbn [option_map].
      * split.
        -- intro H. inversion H; subst i. pose proof (proj1 (IH k) eq_refl) as [E1 E2]. cbn. split; [exact E1|].
           intros j Hj. destruct j as [|j]; cbn; [congruence | apply E2; lia].
        -- intros [H1 H2]. destruct i as [|i]; [cbn in H1; congruence|]. f_equal. f_equal.
           cbn in H1. pose proof (proj1 (IH k) eq_refl) as [E1 E2].
           destruct (Nat.lt_trichotomy i k) as [L|[L|L]]; [|exact (eq_sym L)|].
           ++ exfalso. apply (E2 i L). exact H1.
           ++ exfalso. apply (H2 (S k)); [lia | exact E1].
      * split; [discriminate|]. intros [H1 H2]. destruct i as [|i]; [cbn in H1; congruence|].
        cbn in H1. exfalso. apply nth_error_In in H1. apply zindex_in in H1. destruct H1 as [k Hk]. congruence.
Qed.

(* ---------- unique maximiser <-> max() / count() / index() *)
Lemma umax_of_unique : forall l m, is_max l m -> ~ shared l m ->
  exists i, zindex m l = Some i /\ umax l i m.
Proof.
  intros l m [Hin Hle] Hns. destruct (zindex_in m l Hin) as [i Hi]. exists i. split; [exact Hi|].
  apply zindex_spec in Hi. destruct Hi as [Hi _]. split; [exact Hi|].
  intros j x Hj Hne. assert (x <= m) by (apply Hle; eapply nth_error_In; exact Hj).
  destruct (Z.eq_dec x m) as [->|]; [|lia]. exfalso. apply Hns. exists j, i. auto.
Qed.

Lemma umax_props : forall l i m, umax l i m -> is_max l m /\ ~ shared l m /\ zindex m l = Some i.
Proof.
  intros l i m [Hi Hlt]. split; [|split].
  - split; [eapply nth_error_In; exact Hi|]. intros x Hx. apply In_nth_error in Hx. destruct Hx as [j Hj].
    destruct (Nat.eq_dec j i) as [->|Hne]; [rewrite Hi in Hj; inversion Hj; lia|].
    specialize (Hlt j x Hj Hne). lia.
  - intros [a [b [Hab [Ha Hb]]]]. destruct (Nat.eq_dec a i) as [->|Hne].
    + specialize (Hlt b m Hb (fun E => Hab (eq_sym E))). lia.
    + specialize (Hlt a m Ha Hne). lia.
  - apply zindex_spec. split; [exact Hi|]. intros j Hj E. specialize (Hlt j m E). lia.
Qed.

Lemma umax_index_unique : forall l i j m k, umax l i m -> umax l j k -> i = j /\ m = k.
Proof.
  intros l i j m k H1 H2. pose proof (umax_props _ _ _ H1) as [A [_ B]]. pose proof (umax_props _ _ _ H2) as [C [_ D]].
  assert (m = k) by (eapply is_max_unique; eauto). subst k. rewrite B in D. inversion D. auto.
Qed.

Lemma pick_spec : forall targets l m w i t w',
  pick targets l m w = Ok (Chosen i t w') <-> zindex m l = Some i /\ nth_error targets i = Some t /\ w = w'.
Proof.
  intros. unfold pick. destruct (zindex m l) as [k|].
  - destruct (nth_error targets k) as [u|] eqn:E.
    + split.
      * intro H. inversion H; subst. auto.
      * intros [H1 [H2 H3]]. inversion H1; subst. rewrite E in H2. inversion H2; subst. reflexivity.
    + split; [discriminate|]. intros [H1 [H2 _]]. inversion H1; subst. congruence.
  - split; [discriminate | intros [H _]; discriminate].
Qed.

Lemma pick_not_unknown : forall targets l m w, pick targets l m w <> Ok Unknown.
Proof. intros. unfold pick. destruct (zindex m l); [destruct (nth_error targets n)|]; discriminate. Qed.
Lemma pick_not_ambiguous : forall targets l m w c, pick targets l m w <> Ok (Ambiguous c).
Proof. intros. unfold pick. destruct (zindex m l); [destruct (nth_error targets n)|]; discriminate. Qed.

Definition keys_of (sc levels : list Z) : list Z := map tb_key (combine sc levels).

Lemma ltb_count : forall m l, (1 <? zcount m l)%nat = true <-> shared l m.
Proof. intros. rewrite Nat.ltb_lt. apply zcount_shared. Qed.

(* ---------- the four outcomes of decide, for any score list *)
Section Decide.
  Variables (targets : list str) (levels sc : list Z).

  Theorem decide_unknown : decide targets levels sc = Ok Unknown <-> sc = [] \/ is_max sc 0.
  Proof.
    unfold decide, zmax_default0, decide_at. destruct (zmax sc) as [m|] eqn:E.
    - apply zmax_spec in E. destruct (Z.eqb_spec m 0) as [->|Hne].
      + tauto.
      + assert (sc <> []) as Hsc by (intros ->; destruct E as [[] _]).
        split.
        * intro H. exfalso. destruct (1 <? zcount m sc)%nat.
          -- destruct (zmax (map tb_key (combine sc levels))); [|discriminate].
             destruct (1 <? zcount z (map tb_key (combine sc levels)))%nat; [discriminate|].
             eapply pick_not_unknown; exact H.
          -- eapply pick_not_unknown; exact H.
        * intros [H|H]; [contradiction|]. exfalso. apply Hne. eapply is_max_unique; eauto.
    - apply zmax_none in E. subst. simpl (0 =? 0). tauto.
  Qed.

  Theorem decide_plain : forall i t,
    decide targets levels sc = Ok (Chosen i t false) <->
    exists m, m <> 0 /\ umax sc i m /\ nth_error targets i = Some t.
  Proof.
    intros i t. unfold decide, zmax_default0, decide_at. destruct (zmax sc) as [m|] eqn:E.
    - apply zmax_spec in E. destruct (Z.eqb_spec m 0) as [->|Hne].
      + split; [discriminate|]. intros [m [Hm [Hu _]]]. apply umax_props in Hu. destruct Hu as [Hu _].
        exfalso. apply Hm. eapply is_max_unique; eauto.
      + destruct (1 <? zcount m sc)%nat eqn:Ec.
        * apply ltb_count in Ec. split.
          -- intro H. exfalso. destruct (zmax (map tb_key (combine sc levels))); [|discriminate].
             destruct (1 <? zcount z (map tb_key (combine sc levels)))%nat; [discriminate|].
             apply pick_spec in H. destruct H as [_ [_ H]]. discriminate.
          -- intros [m' [_ [Hu _]]]. apply umax_props in Hu. destruct Hu as [Hu [Hns _]].
             assert (m' = m) by (eapply is_max_unique; eauto). subst. contradiction.
        * assert (~ shared sc m) as Hns by (intro X; apply ltb_count in X; congruence).
          rewrite pick_spec. split.
          -- intros [H1 [H2 _]]. exists m. split; [exact Hne|]. split; [|exact H2].
             destruct (umax_of_unique sc m E Hns) as [i' [Hi' Hu]]. rewrite H1 in Hi'. inversion Hi'; subst. exact Hu.
          -- intros [m' [_ [Hu Ht]]]. apply umax_props in Hu. destruct Hu as [Hu [_ Hz]].
             assert (m' = m) by (eapply is_max_unique; eauto). subst. auto.
    - simpl (0 =? 0). split; [discriminate|]. intros [m [_ [[Hu _] _]]]. apply zmax_none in E. subst. destruct i; discriminate.
  Qed.

  Theorem decide_warn : forall i t,
    decide targets levels sc = Ok (Chosen i t true) <->
    exists m k, is_max sc m /\ m <> 0 /\ shared sc m /\ umax (keys_of sc levels) i k /\ nth_error targets i = Some t.
  Proof.
    intros i t. unfold decide, zmax_default0, decide_at, keys_of. destruct (zmax sc) as [m|] eqn:E.
    - apply zmax_spec in E. destruct (Z.eqb_spec m 0) as [->|Hne].
      + split; [discriminate|]. intros [m [k [Hm [Hz _]]]]. exfalso. apply Hz. eapply is_max_unique; eauto.
      + destruct (1 <? zcount m sc)%nat eqn:Ec.
        * apply ltb_count in Ec. set (keys := map tb_key (combine sc levels)).
          destruct (zmax keys) as [m2|] eqn:E2.
          -- apply zmax_spec in E2. destruct (1 <? zcount m2 keys)%nat eqn:Ec2.
             ++ apply ltb_count in Ec2. split; [discriminate|].
                intros [m' [k [_ [_ [_ [Hu _]]]]]]. apply umax_props in Hu. destruct Hu as [Hu [Hns _]].
                assert (k = m2) by (eapply is_max_unique; eauto). subst. contradiction.
             ++ assert (~ shared keys m2) as Hns by (intro X; apply ltb_count in X; congruence).
                rewrite pick_spec. split.
                ** intros [H1 [H2 _]]. exists m, m2. repeat (split; [assumption|]). split; [|exact H2].
                   destruct (umax_of_unique keys m2 E2 Hns) as [i' [Hi' Hu]]. rewrite H1 in Hi'. inversion Hi'; subst. exact Hu.
                ** intros [m' [k [_ [_ [_ [Hu Ht]]]]]]. apply umax_props in Hu. destruct Hu as [Hu [_ Hz]].
                   assert (k = m2) by (eapply is_max_unique; eauto). subst. auto.
          -- split; [discriminate|]. intros [m' [k [_ [_ [_ [[Hu _] _]]]]]]. apply zmax_none in E2.
             rewrite E2 in Hu. destruct i; discriminate.
        * assert (~ shared sc m) as Hns by (intro X; apply ltb_count in X; congruence).
          split.
          -- intro H. apply pick_spec in H. destruct H as [_ [_ H]]. discriminate.
          -- intros [m' [k [Hm [_ [Hs _]]]]]. assert (m' = m) by (eapply is_max_unique; eauto). subst. contradiction.
    - simpl (0 =? 0). split; [discriminate|]. intros [m [k [[H _] _]]]. apply zmax_none in E. subst. destruct H.
  Qed.

  Theorem decide_ambiguous : forall c,
    decide targets levels sc = Ok (Ambiguous c) <->
    exists m k, is_max sc m /\ m <> 0 /\ shared sc m /\
                is_max (keys_of sc levels) k /\ shared (keys_of sc levels) k /\
                c = best_matches targets sc m.
  Proof.
    intros c. unfold decide, zmax_default0, decide_at, keys_of. destruct (zmax sc) as [m|] eqn:E.
    - apply zmax_spec in E. destruct (Z.eqb_spec m 0) as [->|Hne].
      + split; [discriminate|]. intros [m [k [Hm [Hz _]]]]. exfalso. apply Hz. eapply is_max_unique; eauto.
      + destruct (1 <? zcount m sc)%nat eqn:Ec.
        * apply ltb_count in Ec. set (keys := map tb_key (combine sc levels)).
          destruct (zmax keys) as [m2|] eqn:E2.
          -- apply zmax_spec in E2. destruct (1 <? zcount m2 keys)%nat eqn:Ec2.
             ++ apply ltb_count in Ec2. split.
                ** intro H. inversion H; subst. exists m, m2. auto 10.
                ** intros [m' [k [Hm [_ [_ [Hk [_ ->]]]]]]].
                   assert (m' = m) by (eapply is_max_unique; eauto). subst. reflexivity.
             ++ assert (~ shared keys m2) as Hns by (intro X; apply ltb_count in X; congruence).
                split.
                ** intro H. exfalso. eapply pick_not_ambiguous; exact H.
                ** intros [m' [k [_ [_ [_ [Hk [Hs _]]]]]]]. assert (k = m2) by (eapply is_max_unique; eauto). subst. contradiction.
          -- split; [discriminate|]. intros [m' [k [_ [_ [_ [[Hk _] _]]]]]]. apply zmax_none in E2. rewrite E2 in Hk. destruct Hk.
        * assert (~ shared sc m) as Hns by (intro X; apply ltb_count in X; congruence).
          split.
          -- intro H. exfalso. eapply pick_not_ambiguous; exact H.
          -- intros [m' [k [Hm [_ [Hs _]]]]]. assert (m' = m) by (eapply is_max_unique; eauto). subst. contradiction.
    - simpl (0 =? 0). split; [discriminate|]. intros [m [k [[H _] _]]]. apply zmax_none in E. subst. destruct H.
  Qed.
End Decide.

(* ---------- no crash when the lists are as process_arg builds them *)
Lemma zindex_lt : forall m l i, zindex m l = Some i -> (i < length l)%nat.
Proof.
  intros m l i H. apply zindex_spec in H. destruct H as [H _]. apply nth_error_Some. congruence.
Qed.

Lemma keys_length : forall sc levels, length levels = length sc -> length (keys_of sc levels) = length sc.
Proof. intros. unfold keys_of. rewrite map_length, combine_length. lia. Qed.

Lemma pick_total : forall targets l m w, In m l -> length l = length targets ->
  exists i t, pick targets l m w = Ok (Chosen i t w).
Proof.
  intros targets l m w Hin Hl. unfold pick. destruct (zindex_in m l Hin) as [i Hi]. rewrite Hi.
  apply zindex_lt in Hi. destruct (nth_error targets i) as [t|] eqn:E; [eauto|].
  apply nth_error_None in E. lia.
Qed.

Theorem decide_total : forall targets levels sc,
  length targets = length sc -> length levels = length sc ->
  exists d, decide targets levels sc = Ok d.
Proof.
  intros targets levels sc Ht Hl. unfold decide, zmax_default0, decide_at.
  destruct (zmax sc) as [m|] eqn:E; [|simpl (0 =? 0); eauto].
  assert (sc <> []) as Hne by (intros ->; discriminate).
  apply zmax_spec in E. destruct (m =? 0); [eauto|].
  destruct (1 <? zcount m sc)%nat.
  - fold (keys_of sc levels). pose proof (keys_length sc levels Hl) as Hk.
    destruct (zmax (keys_of sc levels)) as [m2|] eqn:E2.
    + destruct (1 <? zcount m2 (keys_of sc levels))%nat; [eauto|].
      apply zmax_spec in E2. destruct (pick_total targets (keys_of sc levels) m2 true) as [i [t H]];
        [apply E2 | lia | rewrite H; eauto].
    + apply zmax_none in E2. rewrite E2 in Hk. cbn in Hk. destruct sc; [contradiction | discriminate].
  - destruct (pick_total targets sc m false) as [i [t H]]; [apply E | lia | rewrite H; eauto].
Qed.

(* ---------- the Best matches list *)
Lemma best_matches_filter : forall (f : str -> Z) targets m,
  best_matches targets (map f targets) m = filter (fun t => f t =? m) targets.
Proof.
  induction targets as [|t r IH]; intros m; cbn; [reflexivity|].
  destruct (f t =? m); rewrite IH; reflexivity.
Qed.

Lemma shared_map_filter : forall (f : str -> Z) targets m,
  shared (map f targets) m -> (1 < length (filter (fun t => (f t =? m)%Z) targets))%nat.
Proof.
  intros f targets m H. apply zcount_shared in H.
  assert (forall l, zcount m (map f l) = length (filter (fun t => (f t =? m)%Z) l)) as X.
  { induction l as [|t r IH]; cbn; [reflexivity|]. destruct (f t =? m); cbn; rewrite IH; reflexivity. }
  rewrite <- X. exact H.
Qed.

(* ---------- keys = 100*score - level, position by position *)
Lemma nth_keys : forall sc levels j k,
  nth_error (keys_of sc levels) j = Some k <->
  exists a e, nth_error sc j = Some a /\ nth_error levels j = Some e /\ k = 100 * a - e.
Proof.
  unfold keys_of. induction sc as [|a sc IH]; intros levels j k.
  - cbn. split; [destruct j; discriminate | intros [a [e [H _]]]; destruct j; discriminate].
  - destruct levels as [|e levels].
    + cbn. split; [destruct j; discriminate | intros [a' [e' [_ [H _]]]]; destruct j; discriminate].
    + destruct j as [|j]; cbn.
      * unfold tb_key at 1. cbn. split.
        -- intro H. inversion H. eauto.
        -- intros [a' [e' [H1 [H2 H3]]]]. inversion H1; inversion H2; subst. reflexivity.
      * apply IH.
Qed.

(* When the expert levels differ by less than 100 (in particular all within 0..99), the tie-break
   picks among the best matches only, and picks the one with the strictly lowest level. *)
Section TieBreak.
  Variables (sc levels : list Z) (m : Z).
  Hypothesis Hlen : length levels = length sc.
  Hypothesis Hmax : is_max sc m.
  Hypothesis Hspread : forall e e', In e levels -> In e' levels -> e - e' < 100.

  Lemma level_at : forall j a, nth_error sc j = Some a -> exists e, nth_error levels j = Some e.
  Proof.
    intros j a H. destruct (nth_error levels j) as [e|] eqn:E; [eauto|].
    apply nth_error_None in E. assert (j < length sc)%nat by (apply nth_error_Some; congruence). lia.
  Qed.

  Theorem tiebreak_lowest : forall i k, umax (keys_of sc levels) i k ->
    nth_error sc i = Some m /\
    exists e, nth_error levels i = Some e /\ k = 100 * m - e /\
      forall j e', j <> i -> nth_error sc j = Some m -> nth_error levels j = Some e' -> e < e'.
  Proof.
    intros i k [Hi Hlt]. apply nth_keys in Hi. destruct Hi as [a [e [Ha [He ->]]]].
    destruct Hmax as [Hin Hle]. assert (a <= m) by (apply Hle; eapply nth_error_In; eauto).
    assert (a = m) as ->.
    { destruct (Z.eq_dec a m) as [|Hne]; [assumption|]. exfalso.
      apply In_nth_error in Hin. destruct Hin as [p Hp]. destruct (level_at p m Hp) as [ep Hep].
      assert (p <> i) by (intros ->; congruence).
      assert (nth_error (keys_of sc levels) p = Some (100 * m - ep)) as Hk by (apply nth_keys; eauto).
      specialize (Hlt p _ Hk H0).
      assert (ep - e < 100) by (apply Hspread; eapply nth_error_In; eauto). lia. }
    split; [exact Ha|]. exists e. split; [exact He|]. split; [reflexivity|].
    intros j e' Hj Hsj Hej.
    assert (nth_error (keys_of sc levels) j = Some (100 * m - e')) as Hk by (apply nth_keys; eauto).
    specialize (Hlt j _ Hk Hj). lia.
  Qed.

  Theorem lowest_tiebreak : forall i e, nth_error sc i = Some m -> nth_error levels i = Some e ->
    (forall j e', j <> i -> nth_error sc j = Some m -> nth_error levels j = Some e' -> e < e') ->
    umax (keys_of sc levels) i (100 * m - e).
  Proof.
    intros i e Hi He Hlow. split; [apply nth_keys; eauto|].
    intros j x Hj Hne. apply nth_keys in Hj. destruct Hj as [a [e' [Ha [He' ->]]]].
    destruct Hmax as [_ Hle]. assert (a <= m) by (apply Hle; eapply nth_error_In; eauto).
    destruct (Z.eq_dec a m) as [->|Hn].
    - specialize (Hlow j e' Hne Ha He'). lia.
    - assert (e - e' < 100) by (apply Hspread; eapply nth_error_In; eauto). lia.
  Qed.
End TieBreak.

(* ---------- decide_for: the score list is map (get_path_score home source) targets *)
Section DecideFor.
  Variables (home : option str) (targets : list str) (levels : list Z) (s : str).
  Let f := get_path_score home s.
  Let sc := map f targets.

  Lemma sc_nth : forall i x, nth_error sc i = Some x <-> exists t, nth_error targets i = Some t /\ x = f t.
  Proof.
    intros i x. unfold sc. rewrite nth_error_map. destruct (nth_error targets i) as [t|]; cbn.
    - split; [intro H; inversion H; eauto | intros [t' [H ->]]; inversion H; reflexivity].
    - split; [discriminate | intros [t' [H _]]; discriminate].
  Qed.

  Lemma is_max_zero : sc = [] \/ is_max sc 0 <-> forall t, In t targets -> f t = 0.
  Proof.
    unfold is_max, sc. split.
    - intros [H|[Hin Hle]] t Ht.
      + destruct targets; [destruct Ht | discriminate].
      + pose proof (score_range home s t). specialize (Hle (f t) (in_map f _ _ Ht)). unfold f in *. lia.
    - intros Hz. destruct targets as [|t r] eqn:Et; [left; reflexivity|]. right. split.
      + left. apply Hz. left. reflexivity.
      + intros x Hx. apply in_map_iff in Hx. destruct Hx as [t' [<- Ht]]. rewrite (Hz t' Ht). lia.
  Qed.

  (* refused as unknown iff no target matches - in particular when there is no target at all *)
  Theorem decide_for_unknown :
    decide_for home targets levels s = Ok Unknown <-> forall t, In t targets -> f t = 0.
  Proof. unfold decide_for. rewrite decide_unknown. apply is_max_zero. Qed.

  Theorem decide_for_total : length levels = length targets ->
    exists d, decide_for home targets levels s = Ok d.
  Proof.
    intros Hl. unfold decide_for. apply decide_total.
    - rewrite map_length. reflexivity.
    - rewrite map_length. exact Hl.
  Qed.

  (* a name equal to a full path of a duplicate-free master always addresses that parameter *)
  Theorem full_path_wins : In s targets -> NoDup targets ->
    exists i, nth_error targets i = Some s /\ decide_for home targets levels s = Ok (Chosen i s false).
  Proof.
    intros Hin Hnd. apply In_nth_error in Hin. destruct Hin as [i Hi]. exists i. split; [exact Hi|].
    unfold decide_for. apply decide_plain. exists 8. split; [lia|]. split; [|exact Hi].
    split.
    - apply sc_nth. exists s. split; [exact Hi|]. symmetry. apply score_8. reflexivity.
    - intros j x Hj Hne. apply sc_nth in Hj. destruct Hj as [t [Ht ->]]. apply score_lt_8.
      intros ->. apply Hne. eapply NoDup_nth_error; [exact Hnd | | congruence].
      apply nth_error_Some. congruence.
  Qed.
End DecideFor.

(* ---------- the loop over the source definitions of one argument *)
Lemma process_sources_ok : forall home targets levels srcs warned acc w l,
  process_sources home targets levels srcs warned acc = (w, EOk l) ->
  exists ds, l = acc ++ ds /\
    Forall2 (fun src d => exists warn, decide_for home targets levels src = Ok (Chosen (fst d) (snd d) warn)) srcs ds.
Proof.
  intros home targets levels srcs. induction srcs as [|src r IH]; intros warned acc w l H; cbn in H.
  - destruct acc; inversion H; subst. exists []. rewrite app_nil_r. split; [reflexivity | constructor].
  - destruct (decide_for home targets levels src) as [d| |] eqn:E; try (inversion H; fail).
    destruct d as [|c|i t wn]; try (inversion H; fail).
    apply IH in H. destruct H as [ds [-> HF]]. exists ((i, t) :: ds). rewrite <- app_assoc. split; [reflexivity|].
    constructor; [exists wn; exact E | exact HF].
Qed.

(* a refusal is the refusal of the first source definition that is not chosen *)
Lemma process_sources_refused : forall home targets levels srcs warned acc w src,
  process_sources home targets levels srcs warned acc = (w, EUnknown src) ->
  exists pre post, srcs = pre ++ src :: post /\ decide_for home targets levels src = Ok Unknown /\
    Forall (fun x => exists i t wn, decide_for home targets levels x = Ok (Chosen i t wn)) pre.
Proof.
  intros home targets levels srcs. induction srcs as [|x r IH]; intros warned acc w src H; cbn in H.
  - destruct acc; inversion H.
  - destruct (decide_for home targets levels x) as [d| |] eqn:E; try (inversion H; fail).
    destruct d as [|c|i t wn]; try (inversion H; fail).
    + inversion H; subst. exists [], r. split; [reflexivity|]. split; [exact E | constructor].
    + apply IH in H. destruct H as [pre [post [-> [Hu HF]]]]. exists (x :: pre), post.
      split; [reflexivity|]. split; [exact Hu|]. constructor; [eauto | exact HF].
Qed.

Lemma process_sources_ambiguous : forall home targets levels srcs warned acc w src c,
  process_sources home targets levels srcs warned acc = (w, EAmbiguous src c) ->
  exists pre post, srcs = pre ++ src :: post /\ decide_for home targets levels src = Ok (Ambiguous c) /\
    Forall (fun x => exists i t wn, decide_for home targets levels x = Ok (Chosen i t wn)) pre.
Proof.
  intros home targets levels srcs. induction srcs as [|x r IH]; intros warned acc w src c H; cbn in H.
  - destruct acc; inversion H.
  - destruct (decide_for home targets levels x) as [d| |] eqn:E; try (inversion H; fail).
    destruct d as [|c'|i t wn]; try (inversion H; fail).
    + inversion H; subst. exists [], r. split; [reflexivity|]. split; [exact E | constructor].
    + apply IH in H. destruct H as [pre [post [-> [Hu HF]]]]. exists (x :: pre), post.
      split; [reflexivity|]. split; [exact Hu|]. constructor; [eauto | exact HF].
Qed.

(* ---------- the outcomes of decide_for stated on the target list itself *)
Definition scores (home : option str) (s : str) (targets : list str) : list Z :=
  map (get_path_score home s) targets.

Lemma scores_nth : forall home s targets i x,
  nth_error (scores home s targets) i = Some x <->
  exists t, nth_error targets i = Some t /\ x = get_path_score home s t.
Proof. intros. apply sc_nth. Qed.

Lemma max_score_nonneg : forall home s targets m, is_max (scores home s targets) m -> 0 <= m.
Proof.
  intros home s targets m [Hin _]. apply in_map_iff in Hin. destruct Hin as [t [<- _]].
  apply score_range.
Qed.

Theorem decide_for_plain : forall home targets levels s i t,
  decide_for home targets levels s = Ok (Chosen i t false) <->
  nth_error targets i = Some t /\ 0 < get_path_score home s t /\
  forall j t', nth_error targets j = Some t' -> j <> i ->
               get_path_score home s t' < get_path_score home s t.
Proof.
  intros. unfold decide_for. rewrite decide_plain. fold (scores home s targets). split.
  - intros [m [Hm [[Hi Hlt] Ht]]]. split; [exact Ht|].
    apply scores_nth in Hi. destruct Hi as [t0 [Ht0 ->]]. rewrite Ht in Ht0. inversion Ht0; subst t0.
    split; [pose proof (score_range home s t); lia|].
    intros j t' Hj Hne. apply (Hlt j); [apply scores_nth; eauto | exact Hne].
  - intros [Ht [Hpos Hlt]]. exists (get_path_score home s t). split; [lia|]. split; [|exact Ht].
    split; [apply scores_nth; eauto|]. intros j x Hj Hne. apply scores_nth in Hj. destruct Hj as [t' [Ht' ->]]. eauto.
Qed.

Theorem decide_for_warn : forall home targets levels s i t,
  decide_for home targets levels s = Ok (Chosen i t true) <->
  nth_error targets i = Some t /\
  (exists m, is_max (scores home s targets) m /\ 0 < m /\ shared (scores home s targets) m) /\
  exists k, umax (keys_of (scores home s targets) levels) i k.
Proof.
  intros. unfold decide_for. rewrite decide_warn. fold (scores home s targets). split.
  - intros [m [k [H1 [H2 [H3 [H4 H5]]]]]]. split; [exact H5|]. split; [|eauto].
    exists m. pose proof (max_score_nonneg _ _ _ _ H1). repeat split; try assumption; try apply H1. lia.
  - intros [H5 [[m [H1 [H2 H3]]] [k H4]]]. exists m, k. repeat split; try assumption; try apply H1; try apply H4. lia.
Qed.

Theorem decide_for_ambiguous : forall home targets levels s c,
  decide_for home targets levels s = Ok (Ambiguous c) <->
  exists m, is_max (scores home s targets) m /\ 0 < m /\ shared (scores home s targets) m /\
            (exists k, is_max (keys_of (scores home s targets) levels) k /\
                       shared (keys_of (scores home s targets) levels) k) /\
            c = filter (fun t => get_path_score home s t =? m) targets /\ (1 < length c)%nat.
Proof.
  intros. unfold decide_for. rewrite decide_ambiguous. fold (scores home s targets). split.
  - intros [m [k [H1 [H2 [H3 [H4 [H5 ->]]]]]]]. exists m. pose proof (max_score_nonneg _ _ _ _ H1).
    split; [exact H1|]. split; [lia|]. split; [exact H3|]. split; [eauto|].
    unfold scores. rewrite best_matches_filter. split; [reflexivity|]. apply shared_map_filter. exact H3.
  - intros [m [H1 [H2 [H3 [[k [H4 H5]] [-> _]]]]]]. exists m, k. split; [exact H1|]. split; [lia|].
    split; [exact H3|]. split; [exact H4|]. split; [exact H5|]. unfold scores. rewrite best_matches_filter. reflexivity.
Qed.

(* with expert levels less than 100 apart: chosen with a warning <-> the best score is shared and
   this target is the best match with the strictly lowest expert level *)
Theorem decide_for_warn_lowest : forall home targets levels s i t,
  length levels = length targets ->
  (forall e e', In e levels -> In e' levels -> e - e' < 100) ->
  (decide_for home targets levels s = Ok (Chosen i t true) <->
   nth_error targets i = Some t /\
   exists m e, is_max (scores home s targets) m /\ 0 < m /\ shared (scores home s targets) m /\
     get_path_score home s t = m /\ nth_error levels i = Some e /\
     forall j t' e', j <> i -> nth_error targets j = Some t' -> get_path_score home s t' = m ->
                     nth_error levels j = Some e' -> e < e').
Proof.
  intros home targets levels s i t Hlen Hsp. rewrite decide_for_warn.
  assert (Hl : length levels = length (scores home s targets)) by (unfold scores; rewrite map_length; exact Hlen).
  split.
  - intros [Ht [[m [H1 [H2 H3]]] [k Hu]]]. split; [exact Ht|].
    destruct (tiebreak_lowest _ _ m Hl H1 Hsp i k Hu) as [Hi [e [He [_ Hlow]]]].
    exists m, e. repeat (split; [assumption|]).
    apply scores_nth in Hi. destruct Hi as [t0 [Ht0 ->]]. rewrite Ht in Ht0. inversion Ht0; subst t0.
    split; [reflexivity|]. split; [exact He|].
    intros j t' e' Hne Hj Hs He'. apply (Hlow j e' Hne); [apply scores_nth; eauto | exact He'].
  - intros [Ht [m [e [H1 [H2 [H3 [H4 [He Hlow]]]]]]]]. split; [exact Ht|]. split; [eauto|].
    exists (100 * m - e). apply (lowest_tiebreak _ _ m Hl H1 Hsp).
    + apply scores_nth. eauto.
    + exact He.
    + intros j e' Hne Hj He'. apply scores_nth in Hj. destruct Hj as [t' [Ht' Hs]]. eapply Hlow; eauto.
Qed.
