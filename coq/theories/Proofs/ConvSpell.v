(* Accepted spellings of the numeric/bool converters (C10, second half) and the NaN witness. *)
From Coq Require Import List Ascii String Bool Arith ZArith Lia.
From Phil Require Import Base Conv ConvProofs.
Import ListNotations.
Local Open Scope char_scope.

Lemma eqs_eq a b : eqs a b = true -> a = b.
Proof.
  revert b; induction a as [|x a IH]; destruct b as [|y b]; cbn; intro H; try discriminate; auto.
  apply andb_true_iff in H as [H1 H2]. apply Ascii.eqb_eq in H1. f_equal; auto.
Qed.
Lemma eqs_refl a : eqs a a = true.
Proof. induction a; cbn; auto. rewrite Ascii.eqb_refl; auto. Qed.
Lemma mems_in x l : mems x l = true -> In x l.
Proof.
  unfold mems. intro H. apply existsb_exists in H as (y & Hy & E). apply eqs_eq in E. subst; auto.
Qed.

(* ---------------------------------------------------------------- bool table *)
Lemma single_join w : join_sp (map wv [w]) = wv w.
Proof. reflexivity. Qed.

Lemma bool_true_spellings w :
  mems (lowers (wv w)) trues = true -> bool_from_words [w] = Ok (PNum (NBool true)).
Proof.
  intro H. pose proof (mems_in _ _ H) as Hin.
  unfold bool_from_words, str_from_words, is_plain. rewrite single_join.
  cbn in Hin. destruct Hin as [E|[E|[E|[E|[]]]]]; rewrite <- E; cbn; rewrite !andb_false_r; cbn; rewrite <- E; reflexivity.
Qed.

Lemma bool_false_spellings w :
  mems (lowers (wv w)) falses = true -> bool_from_words [w] = Ok (PNum (NBool false)).
Proof.
  intro H. pose proof (mems_in _ _ H) as Hin.
  unfold bool_from_words, str_from_words, is_plain. rewrite single_join.
  cbn in Hin. destruct Hin as [E|[E|[E|[E|[]]]]]; rewrite <- E; cbn; rewrite !andb_false_r; cbn; rewrite <- E; reflexivity.
Qed.

(* ---------------------------------------------------------------- None / Auto in any case *)
Lemma plain_none_any_case w : isq w = false -> lowers (wv w) = none_s -> str_from_words [w] = SNone.
Proof. intros Hq E. unfold str_from_words, is_plain. rewrite Hq, E. reflexivity. Qed.
Lemma plain_auto_any_case w : isq w = false -> lowers (wv w) = auto_s -> str_from_words [w] = SAuto.
Proof. intros Hq E. unfold str_from_words, is_plain. rewrite Hq, E. reflexivity. Qed.

Section Spell.
  Variable pyeval : str -> option evr.

  Lemma none_spelling_scalar isint c w :
    isq w = false -> lowers (wv w) = none_s ->
    number_conv_from_words pyeval isint c [w] =
      if allow_none c then Ok PNone else UErr (s_ "CannotBeNone") [] 0.
  Proof.
    intros Hq E. unfold number_conv_from_words, x_from_words, number_from_words.
    rewrite (plain_none_any_case w Hq E). reflexivity.
  Qed.
  Lemma auto_spelling_scalar isint c w :
    isq w = false -> lowers (wv w) = auto_s ->
    number_conv_from_words pyeval isint c [w] = Ok PAuto.
  Proof.
    intros Hq E. unfold number_conv_from_words, x_from_words, number_from_words.
    rewrite (plain_auto_any_case w Hq E). reflexivity.
  Qed.
  Lemma none_spelling_list isint c w :
    isq w = false -> lowers (wv w) = none_s -> numbers_conv_from_words pyeval isint c [w] = Ok PNone.
  Proof.
    intros Hq E. unfold numbers_conv_from_words, numbers_from_words.
    rewrite (plain_none_any_case w Hq E). reflexivity.
  Qed.
  Lemma auto_spelling_list isint c w :
    isq w = false -> lowers (wv w) = auto_s -> numbers_conv_from_words pyeval isint c [w] = Ok PAuto.
  Proof.
    intros Hq E. unfold numbers_conv_from_words, numbers_from_words.
    rewrite (plain_auto_any_case w Hq E). reflexivity.
  Qed.

  (* ---------------------------------------------------------------- integer-valued expressions *)
  (* any text that is not None/Auto/true/false/a decimal literal and evaluates to the float m*2^e *)
  Lemma int_of_float_expr an s m e z line :
    str_from_words [mkword s QN line] = SStr s ->
    mems (strip (lowers s)) [s_ "true"; s_ "false"] = false ->
    eqs (strip (lowers s)) none_s = false -> eqs (strip (lowers s)) auto_s = false ->
    py_int_of_str s = None ->
    pyeval s = Some (ENum (NFlt m e)) -> flt_integral m e = Some z ->
    from_words pyeval (CInt (mknconv None None an)) [mkword s QN line] = Ok (PNum (NInt z)).
  Proof.
    intros Hs H1 H2 H3 H4 H5 H6.
    cbn [from_words]. unfold number_conv_from_words, x_from_words, number_from_words. rewrite Hs.
    unfold number_from_value_string. rewrite H1, H2, H3, H4, H5. cbn [bind x_from_number int_from_number].
    rewrite H6. reflexivity.
  Qed.

  Lemma spelling_4_over_2 an :
    pyeval (s_ "4/2") = Some (ENum (NFlt 1 1)) ->
    from_words pyeval (CInt (mknconv None None an)) [uw (s_ "4/2")] = Ok (PNum (NInt 2)).
  Proof. intro H. apply (int_of_float_expr an (s_ "4/2") 1 1 2 0); try reflexivity. exact H. Qed.

  Lemma spelling_1e3 an :
    pyeval (s_ "1e3") = Some (ENum (NFlt 125 3)) ->
    from_words pyeval (CInt (mknconv None None an)) [uw (s_ "1e3")] = Ok (PNum (NInt 1000)).
  Proof. intro H. apply (int_of_float_expr an (s_ "1e3") 125 3 1000 0); try reflexivity. exact H. Qed.

  (* a non-integral float is refused for int *)
  Lemma spelling_1_over_3_refused an m e :
    pyeval (s_ "1/3") = Some (ENum (NFlt m e)) -> flt_integral m e = None ->
    from_words pyeval (CInt (mknconv None None an)) [uw (s_ "1/3")] = UErr (s_ "NotInteger") [] 0.
  Proof.
    intros H5 H6. cbn [from_words]. unfold number_conv_from_words, x_from_words, number_from_words.
    change (str_from_words [uw (s_ "1/3")]) with (SStr (s_ "1/3")).
    unfold number_from_value_string.
    change (mems (strip (lowers (s_ "1/3"))) [s_ "true"; s_ "false"]) with false.
    change (eqs (strip (lowers (s_ "1/3"))) none_s) with false.
    change (eqs (strip (lowers (s_ "1/3"))) auto_s) with false.
    change (py_int_of_str (s_ "1/3")) with (@None Z).
    cbv iota. rewrite H5. cbn [bind x_from_number int_from_number]. rewrite H6. reflexivity.
  Qed.
End Spell.

(* the integer returned for an integral float is that float's exact value *)
Lemma flt_integral_exact m e z : flt_integral m e = Some z -> fin_cmp z 0 m e = Eq.
Proof.
  unfold flt_integral, fin_cmp. destruct (Z.leb_spec 0 e).
  - intro G; injection G as <-. rewrite Z.min_l by lia. rewrite !Z.sub_0_r. cbn [Z.pow]. rewrite Z.mul_1_r.
    apply Z.compare_refl.
  - destruct (Z.eqb_spec (m mod 2 ^ (- e)) 0) as [E|]; [|discriminate].
    intro G; injection G as <-. rewrite Z.min_r by lia. rewrite Z.sub_diag. cbn [Z.pow]. rewrite Z.mul_1_r.
    replace (0 - e)%Z with (- e)%Z by lia.
    assert (P : (0 < 2 ^ (- e))%Z) by (apply Z.pow_pos_nonneg; lia).
    pose proof (Z.div_mod m (2 ^ (- e)) ltac:(lia)) as D. rewrite E in D.
    rewrite Z.compare_eq_iff. lia.
Qed.

Lemma int_from_number_exact m e ws n :
  int_from_number (VNum (NFlt m e)) ws = Ok n -> exists z, n = NInt z /\ fin_cmp z 0 m e = Eq.
Proof.
  cbn. destruct (flt_integral m e) eqn:E; intro H.
  - injection H as <-. eauto using flt_integral_exact.
  - exfalso; revert H; apply err_at_not_ok.
Qed.
