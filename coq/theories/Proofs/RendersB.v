(* C02, global form, stage B: the layout grammar of Renders.v extended by
   (1) backslash continuation lines inside a value,
   (2) attribute lines after a definition's value and after a scope's name,
   (3) #phil directives: "#phil __ON__" lines and "#phil __OFF__ ... #phil __ON__" regions as layout
       between objects (at any depth), "#phil __END__" ending the document.
   [RendersB : list obj -> str -> Prop] relates an abstract tree to a text; [rendersB_sound]: every
   text the grammar relates to a tree parses to that tree, where now only primary ids and line numbers
   are erased ([ShowErase.erase_obj]): names, nesting, order, disabled flags, is_template, merge_names,
   word texts, quote styles AND ALL ATTRIBUTES are kept.  Hence any two renderings of one tree parse
   alike ([renderingsB_agree]; up to the order of the attribute lines: [renderingsB_agree_canon]).
   Stage A is included ([renders_rendersB]); the printer's level-0 output at EVERY width (wrapped
   values) is a rendering ([show_rendersB_wrapped]); section 12 turns the grammar into a generator
   ([cstB], decidable [cstB_ok], [cstB_renders]).
   New layout freedoms (each restriction is shown necessary in section 14, replayed on the Python):
   - between two value words, and between "=" and the first word: blanks, then one or more lone
     backslashes each followed by a non-empty run of ANY whitespace (blank lines allowed), then the
     word ([contsep]).  Exact condition of collect_assigned_words: the backslash is an unquoted word
     that must stand on the line on which the PREVIOUS word STARTS, so the previous word must not
     contain a newline ([prevnl = 0]); the word after the continuation may be quoted or unquoted and
     may stand on any later line.  No comment line inside a continuation, and no continuation before
     the terminator (a backslash at the end of a value swallows the next line).
   - after a definition (value and terminator): attribute lines "[!].name = value terminator", name in
     [def_attr_names], each preceded by the same layout as an object (blank lines, comment lines;
     after a NEWLINE-terminated value the first comment must be "safe", as in stage A), blanks around
     "=", the value with the same freedoms as a definition's value (continuations included), the same
     terminators.  The tree carries the value [assign_def_attr] computes WITHOUT the oracle: the
     condition is [assign_def_attr [] name words = Ok v] (the empty oracle refuses every question, so
     success means no question was asked: .help .caption .short_caption .style .alias .deprecated,
     .optional .multiple with boolean words, .input_size .expert_level with plain decimals, .type only
     as None/Auto).  "!.name = words" (a disabled attribute) is pure layout: the words are read and dropped.
   - after a scope's name: layout, then attribute lines as above (names in [scope_attr_names], values by
     [assign_scope_attr []]), then "{".  Right after the name a blank must precede ".name" (otherwise it
     is a dotted name) and a comment must not be glued to the name.
   - where an object may start (not inside a scope's header): "#phil", blanks, "__ON__", then a blank
     or nothing ([rlb_on]); "#phil", blanks, "__OFF__", a region without a line starting with "#phil"
     ([nophil]), the closing line: "#phil" in column 0, blanks, "__ON__", blanks, newline ([rlb_off],
     by the scanner lemma [sfs_region]); in the document's own object list "#phil", blanks, "__END__",
     a delimiter and ANY text ([rlb_end]; index [top]).  The parser recognises a directive only on a
     line other than the previous object's first line: the grammar asks for a newline in the layout in
     front of it, or a newline-terminated value right before it (the soundness proof carries the
     invariant prev_line <= line, < after such a value).  At the very start of the document no
     newline is needed: [rendersB_sound_leading_off], [rendersB_sound_leading_on].
   Not covered (future work, section 15): a region left open to the end of the input, a directive
   as the first thing after "{" on the same line, include, .type/.call through the oracle. *)
From Coq Require Import List Ascii String Bool Arith ZArith Lia.
From Phil Require Import Base Tokenizer Tree Parser Show QuoteProofs LexProofs ParserTotal ParserLayout
                         ShowProofs ShowErase WordsRoundtrip TreeRoundtrip Renders.
Import ListNotations.
Local Open Scope char_scope.

(* ====================================================================================== *)
(* 1. value words with continuation lines                                                   *)
(* ====================================================================================== *)

(* after the blanks: one or more lone backslashes, each followed by a non-empty run of whitespace *)
Inductive contsep : str -> Prop :=
  | cs_one : forall c, forallb isspace c = true -> c <> [] -> contsep (bs :: c)
  | cs_more : forall c r, forallb isspace c = true -> c <> [] -> contsep r -> contsep (bs :: c ++ r).

(* [first]: the word stands right after the "=" (no blank needed in front);
   [prevnl]: newlines inside the previous word *)
Inductive RendersWordsB : bool -> nat -> list word -> str -> Prop :=
  | rwb_nil : forall first prevnl, RendersWordsB first prevnl [] []
  | rwb_word : forall first prevnl w ws sep tl, blank sep -> first = true \/ sep <> [] ->
      isq w || (prevnl =? 0)%nat = true ->
      RendersWordsB false (count_nl (wv w)) ws tl ->
      RendersWordsB first prevnl (w :: ws) (sep ++ str_of_word w ++ tl)
  | rwb_cont : forall first prevnl w ws b cs tl, blank b -> first = true \/ b <> [] ->
      prevnl = 0 -> contsep cs ->
      RendersWordsB false (count_nl (wv w)) ws tl ->
      RendersWordsB first prevnl (w :: ws) (b ++ cs ++ str_of_word w ++ tl).

Lemma wsp_tail_ok : forall c tl, forallb isspace c = true -> c <> [] -> tail_ok (c ++ tl) = true.
Proof.
  intros [|d c] tl Hc Hne; [congruence|]. cbn [forallb] in Hc. apply andb_prop in Hc as [Hd _].
  cbn [app tail_ok]. rewrite Hd. reflexivity.
Qed.

Lemma rwb_tail_ok : forall prevnl ws txt rest, RendersWordsB false prevnl ws txt -> tail_ok rest = true ->
  tail_ok (txt ++ rest) = true.
Proof.
  intros prevnl ws txt rest H Hr. inversion H as [|f p w ws' sep tl Hs Hne _ _|f p w ws' b cs tl Hb Hne _ _ _]; subst.
  - exact Hr.
  - destruct Hne as [Hne|Hne]; [discriminate Hne|]. rewrite <- app_assoc. apply blank_tail_ok; assumption.
  - destruct Hne as [Hne|Hne]; [discriminate Hne|]. rewrite <- app_assoc. apply blank_tail_ok; assumption.
Qed.

Lemma rwb_first : forall first prevnl ws txt, RendersWordsB first prevnl ws txt -> RendersWordsB true prevnl ws txt.
Proof.
  intros first prevnl ws txt H. destruct H.
  - constructor.
  - apply rwb_word; auto.
  - apply rwb_cont; auto.
Qed.

(* stage A's word lists *)
Lemma rw_rwb : forall ws txt, RendersWords ws txt -> forall prevnl, lines_ok prevnl ws = true ->
  RendersWordsB false prevnl ws txt.
Proof.
  intros ws txt H; induction H as [|w ws sep tl Hs Hne Hr IH]; intros prevnl Hl; [constructor|].
  cbn [lines_ok] in Hl. apply andb_prop in Hl as [H1 H2].
  apply rwb_word; auto.
Qed.

(* a lone backslash in value context: on the line of the last word, or after another backslash *)
Lemma caw_step_bs : forall f s line last acc lead lb r l,
  nw s1 false s line = TWord (mkword [bs] QN lb) r l ->
  weq last [bs] = true \/ lb = wline last ->
  caw (S f) s line false last acc lead = caw f r l false (mkword [bs] QN lb) acc lead.
Proof.
  intros f s line last acc lead lb r l H Hl. cbn [caw]. rewrite H.
  change (isq (mkword [bs] QN lb)) with false.
  change (is1 (mkword [bs] QN lb) "{") with false. change (is1 (mkword [bs] QN lb) "}") with false.
  change (is1 (mkword [bs] QN lb) ";") with false. change (is1 (mkword [bs] QN lb) "#") with false.
  change (is1 (mkword [bs] QN lb) bs) with true.
  cbn [negb andb orb wline].
  destruct (weq last [bs]) eqn:E; [reflexivity|].
  destruct Hl as [Hl|Hl]; [discriminate Hl|]. subst lb. rewrite Nat.eqb_refl. reflexivity.
Qed.

Lemma nw_s1_bs : forall pre c X line, forallb isspace pre = true -> forallb isspace c = true -> c <> [] ->
  nw s1 false (pre ++ bs :: c ++ X) line
  = TWord (mkword [bs] QN (line + count_nl pre)) (c ++ X) (line + count_nl pre).
Proof.
  intros pre c X line Hp Hc Hne. rewrite (nw_skip_blanks s1 pre _ line Hp).
  apply (nw_unquoted [bs] (c ++ X)); [reflexivity|apply wsp_tail_ok; assumption].
Qed.

(* the chain of backslashes: afterwards the reader stands before the last whitespace run, the last
   token being a backslash *)
Lemma caw_contsep : forall cs, contsep cs -> forall pre X F line last acc lead,
  forallb isspace pre = true ->
  weq last [bs] = true \/ line + count_nl pre = wline last ->
  length (pre ++ cs ++ X) < F ->
  exists c L lb, forallb isspace c = true /\ length (c ++ X) <= length (pre ++ cs ++ X) /\ line <= L /\
    forall G, length (c ++ X) < G ->
    caw F (pre ++ cs ++ X) line false last acc lead = caw G (c ++ X) L false (mkword [bs] QN lb) acc lead.
Proof.
  intros cs H; induction H as [c Hc Hne|c r Hc Hne Hr IH]; intros pre X F line last acc lead Hp Hl HF.
  - exists c, (line + count_nl pre), (line + count_nl pre). split; [exact Hc|]. split.
    { alen. lia. }
    split; [lia|].
    intros G HG. destruct F as [|f]; [lia|].
    cbn [app] in *. rewrite (caw_step_bs f _ line last acc lead _ _ _ (nw_s1_bs pre c X line Hp Hc Hne)).
    + apply caw_fuel_enough; [|exact HG]. revert HF. alen. lia.
    + destruct Hl as [Hl|Hl]; [left; exact Hl|right; exact Hl].
  - destruct F as [|f]; [lia|].
    assert (HT : pre ++ (bs :: c ++ r) ++ X = pre ++ bs :: c ++ (r ++ X)).
    { cbn [app]. rewrite <- app_assoc. reflexivity. }
    rewrite HT in *.
    destruct (IH c X f (line + count_nl pre) (mkword [bs] QN (line + count_nl pre)) acc lead Hc (or_introl eq_refl))
      as (c' & L & lb & Hc' & Hlen & HL & Hcaw).
    { revert HF. alen. lia. }
    exists c', L, lb. split; [exact Hc'|]. split.
    { revert Hlen. alen. lia. }
    split; [lia|].
    intros G HG.
    rewrite (caw_step_bs f _ line last acc lead _ _ _ (nw_s1_bs pre c (r ++ X) line Hp Hc Hne)).
    + apply Hcaw; exact HG.
    + destruct Hl as [Hl|Hl]; [left; exact Hl|right; exact Hl].
Qed.

(* the word after a backslash: any whitespace in front, any line *)
Lemma caw_word_after_bs : forall f c w tl line last acc lead,
  forallb isspace c = true -> word_ok w = true -> tail_ok tl = true -> weq last [bs] = true ->
  caw (S f) (c ++ str_of_word w ++ tl) line false last acc lead
  = caw f tl (line + count_nl c + count_nl (wv w)) false (setl w (line + count_nl c))
        (setl w (line + count_nl c) :: acc) lead.
Proof.
  intros f c w tl line last acc lead Hc Hw Ht Hlast.
  assert (Hnw : nw s1 false (c ++ str_of_word w ++ tl) line
                = TWord (setl w (line + count_nl c)) tl (line + count_nl c + count_nl (wv w))).
  { rewrite (nw_skip_blanks s1 c _ line Hc). apply nw_word_gen; assumption. }
  destruct (isq w) eqn:Eq.
  - apply (caw_step_quoted _ _ _ _ _ _ _ _ _ Hnw Eq).
  - destruct (word_ok_unq w Hw Eq) as (_ & Hb & _).
    apply (caw_step_after_bs f _ line last acc lead _ _ _ Hnw Eq (word_ok_not_special w _ Hw Eq) Hlast Hb).
Qed.

Lemma noline_setl : forall w l, noline (setl w l) = noline w.
Proof. reflexivity. Qed.

Lemma caw_wordsB : forall first prevnl ws txt, RendersWordsB first prevnl ws txt -> forallb word_ok ws = true ->
  forall rest F G line last acc lead,
  weq last [bs] = false -> line = wline last + prevnl -> tail_ok rest = true ->
  length (txt ++ rest) < F -> length rest < G ->
  exists last' prevnl' ws',
    weq last' [bs] = false /\ map noline ws' = map noline ws /\ length ws' = length ws
    /\ line <= wline last' + prevnl'
    /\ caw F (txt ++ rest) line false last acc lead
       = caw G rest (wline last' + prevnl') false last' (rev ws' ++ acc) lead.
Proof.
  intros first prevnl ws txt H;
    induction H as [first prevnl|first prevnl w ws sep tl Hs Hne Hl1 Hr IH|first prevnl w ws b cs tl Hb Hne Hp0 Hcs Hr IH];
    intros Hok rest F G line last acc lead Hlast Hline Hrest HF HG.
  - exists last, prevnl, []. split; [exact Hlast|]. split; [reflexivity|]. split; [reflexivity|].
    split; [lia|]. cbn [app rev]. rewrite <- Hline. apply caw_fuel_enough; assumption.
  - cbn [forallb] in Hok. apply andb_prop in Hok as [Hw Hok].
    set (s := (sep ++ str_of_word w ++ tl) ++ rest) in *.
    assert (Hs' : s = sep ++ str_of_word w ++ (tl ++ rest)) by (unfold s; rewrite <- !app_assoc; reflexivity).
    destruct (IH Hok rest (S (length s)) G (line + count_nl (wv w)) (setl w line) (setl w line :: acc) lead
                (word_ok_weq_bs w line Hw) eq_refl Hrest) as (last' & prevnl' & ws' & H1 & H2 & H2' & HL & H3);
      [rewrite Hs', !app_length; lia|exact HG|].
    exists last', prevnl', (setl w line :: ws'). split; [exact H1|]. split; [cbn [map]; rewrite H2; reflexivity|].
    split; [cbn [length]; rewrite H2'; reflexivity|]. split; [lia|].
    rewrite (caw_fuel_enough F (S (S (length s)))) by lia.
    rewrite Hs' at 2.
    rewrite (caw_word_step _ sep w (tl ++ rest) line last acc lead prevnl Hs Hw
               (rwb_tail_ok _ ws tl rest Hr Hrest) Hl1 Hlast Hline).
    rewrite H3. cbn [rev]. rewrite <- app_assoc. reflexivity.
  - cbn [forallb] in Hok. apply andb_prop in Hok as [Hw Hok]. subst prevnl. rewrite Nat.add_0_r in Hline.
    set (X := str_of_word w ++ tl ++ rest).
    assert (HT : (b ++ cs ++ str_of_word w ++ tl) ++ rest = b ++ cs ++ X).
    { unfold X. rewrite <- !app_assoc. reflexivity. }
    rewrite HT in *. destruct Hb as [Hb Hbn].
    destruct (caw_contsep cs Hcs b X F line last acc lead Hb) as (c & L & lb & Hc & Hlen & HLL & Hcaw);
      [right; rewrite Hbn; lia|exact HF|].
    set (L1 := L + count_nl c).
    destruct (IH Hok rest (S (length (c ++ X))) G (L1 + count_nl (wv w)) (setl w L1) (setl w L1 :: acc) lead
                (word_ok_weq_bs w L1 Hw) eq_refl Hrest) as (last' & prevnl' & ws' & H1 & H2 & H2' & HL & H3);
      [unfold X; rewrite !app_length; lia|exact HG|].
    exists last', prevnl', (setl w L1 :: ws'). split; [exact H1|]. split; [cbn [map]; rewrite H2; reflexivity|].
    split; [cbn [length]; rewrite H2'; reflexivity|]. split; [unfold L1 in HL; lia|].
    rewrite (Hcaw (S (S (length (c ++ X))))) by lia. unfold X at 2.
    rewrite (caw_word_after_bs _ c w (tl ++ rest) L (mkword [bs] QN lb) acc lead Hc Hw
               (rwb_tail_ok _ ws tl rest Hr Hrest) eq_refl).
    fold L1. rewrite H3. cbn [rev]. rewrite <- app_assoc. reflexivity.
Qed.

(* ====================================================================================== *)
(* 2. what may follow a value: an object, an attribute line, a brace, the end               *)
(* ====================================================================================== *)

Definition startcB (c:ascii) : bool := startc c || Ascii.eqb c "." || Ascii.eqb c "{".
(* a token that stops a value on an earlier line: the first character of an object / attribute line /
   brace, or the directive word "#phil" followed by a blank *)
Definition TokB (next:str) : Prop :=
  (exists c tl, next = c :: tl /\ startcB c = true) \/ (exists d tl, next = intro ++ d :: tl /\ isspace d = true).
Definition StartsB (next:str) : Prop := next = [] \/ TokB next.
Lemma startsB_char : forall c tl, startcB c = true -> StartsB (c :: tl).
Proof. intros c tl H. right. left. exists c, tl. split; [reflexivity|exact H]. Qed.
Definition CloseB (rest:str) : Prop := rest = [] \/ exists c tl, rest = c :: tl /\ (c = "}" \/ c = "{").

Lemma starts_startsB : forall next, StartsObj next -> StartsB next.
Proof.
  intros next [->|(c & tl & -> & Hc)]; [left; reflexivity|]. apply startsB_char.
  unfold startcB. rewrite Hc. reflexivity.
Qed.
Lemma close_closeB : forall rest, Close rest -> CloseB rest.
Proof. intros rest [->|(tl & ->)]; [left; reflexivity|right; exists "}", tl; auto]. Qed.
Lemma closeB_startsB : forall rest, CloseB rest -> StartsB rest.
Proof.
  intros rest [->|(c & tl & -> & [-> | ->])]; [left; reflexivity| |]; apply startsB_char; reflexivity.
Qed.

Lemma startcB_props : forall c, startcB c = true ->
  c = "}" \/ c = "{" \/ (wstart s1 c = true /\ Ascii.eqb c ";" = false /\ Ascii.eqb c "#" = false).
Proof.
  intros c. destruct c as [[] [] [] [] [] [] [] []]; vm_compute; intros H; try discriminate H;
    try (left; reflexivity); try (right; left; reflexivity); right; right; repeat split.
Qed.

Lemma startcB_tok : forall c tl line, startcB c = true ->
  exists w r, nw s1 false (c :: tl) line = TWord w r line
              /\ isq w = false /\ is1 w ";" = false /\ is1 w "#" = false /\ wline w = line.
Proof.
  intros c tl line H. destruct (startcB_props c H) as [->|[->|(Hw & H1 & H2)]].
  - exists (mkword ["}"] QN line), tl. repeat split.
  - exists (mkword ["{"] QN line), tl. repeat split.
  - rewrite (nw_start s1 c tl line eq_refl Hw). destruct (take s1 tl) as [w r].
    exists (mkword (c :: w) QN line), r. unfold is1. cbn [wv eqs]. rewrite H1, H2. repeat split.
Qed.

Lemma tokB_tok : forall next line, TokB next ->
  exists w r, nw s1 false next line = TWord w r line
              /\ isq w = false /\ is1 w ";" = false /\ is1 w "#" = false /\ wline w = line.
Proof.
  intros next line [(c & tl & -> & Hc)|(d & tl & -> & Hd)]; [apply startcB_tok; exact Hc|].
  exists (mkword intro QN line), (d :: tl). split; [|repeat split].
  change (intro ++ d :: tl) with ("#" :: s_ "phil" ++ d :: tl).
  apply (ParserLayout.nw_word s1 "#" (s_ "phil") (d :: tl) line eq_refl eq_refl eq_refl).
  cbn [delim]. rewrite Hd. reflexivity.
Qed.

Lemma layout_unqB : forall lay, layout lay -> forall next, StartsB next ->
  forall line, next_unquoted (lay ++ next) line = true.
Proof.
  intros lay Hl; induction Hl as [|c p Hc Hp IH|body p Hb Hph Hp IH]; intros next Hn line.
  - cbn [app]. unfold next_unquoted. destruct Hn as [->|Hn]; [reflexivity|].
    destruct (tokB_tok next line Hn) as (w & r & -> & Hq & _). rewrite Hq. reflexivity.
  - unfold next_unquoted. cbn [app nw]. rewrite Hc. apply IH; exact Hn.
  - unfold next_unquoted. cbn [app].
    destruct (nw_s1_hash ((body ++ nl :: p) ++ next) line) as (w & r & ->). reflexivity.
Qed.

Lemma caw_stop_slayoutB : forall lay, slayout lay -> forall next, StartsB next ->
  forall F pre line last a acc lead prevnl,
  forallb isspace pre = true -> 1 <= count_nl pre ->
  weq last [bs] = false -> line = wline last + prevnl ->
  length (pre ++ lay ++ next) < F ->
  exists s' l', caw F (pre ++ lay ++ next) line false last (a :: acc) lead = Ok (rev (a :: acc), s', l')
    /\ nw s0 false s' l' = nw s0 false (lay ++ next) (line + count_nl pre).
Proof.
  intros lay Hl; induction Hl as [|c p Hc Hp IH|body p Hb Hph Hsafe Hp]; intros next Hn F pre line last a acc lead prevnl
    Hpre Hcnt Hlast Hline HF.
  - destruct F as [|F]; [lia|]. cbn [app] in *.
    destruct Hn as [->|Hn].
    + exists [], line. split.
      * apply caw_stop_end. rewrite app_nil_r. apply nw_all_blank; exact Hpre.
      * reflexivity.
    + destruct (tokB_tok next (line + count_nl pre) Hn) as (w & r & Hnw & Hq & H3 & H4 & Hwl).
      exists (pre ++ next), line. split.
      * eapply caw_stop_other_line; [rewrite (nw_skip_blanks s1 pre _ line Hpre); exact Hnw|
                                     exact Hq|exact H3|exact H4|exact Hlast|]. lia.
      * apply nw_skip_blanks; exact Hpre.
  - assert (HT : pre ++ (c :: p) ++ next = (pre ++ [c]) ++ p ++ next) by (rewrite <- app_assoc; reflexivity).
    rewrite HT in *.
    destruct (IH next Hn F (pre ++ [c]) line last a acc lead prevnl) as (s' & l' & H1 & H2);
      try assumption.
    { rewrite forallb_app, Hpre. cbn [forallb]. rewrite Hc. reflexivity. }
    { rewrite count_nl_app. lia. }
    exists s', l'. split; [exact H1|]. rewrite H2.
    change ((c :: p) ++ next) with ([c] ++ p ++ next).
    rewrite (nw_skip_blanks s0 [c] (p ++ next) (line + count_nl pre)) by (cbn [forallb]; rewrite Hc; reflexivity).
    rewrite count_nl_app, Nat.add_assoc. reflexivity.
  - set (L1 := line + count_nl pre).
    set (rest := p ++ next).
    assert (HT : pre ++ ("#" :: body ++ nl :: p) ++ next = pre ++ "#" :: body ++ nl :: rest).
    { unfold rest. cbn [app]. rewrite <- app_assoc. reflexivity. }
    assert (HT2 : ("#" :: body ++ nl :: p) ++ next = "#" :: body ++ nl :: rest).
    { unfold rest. cbn [app]. rewrite <- app_assoc. reflexivity. }
    rewrite HT in *. rewrite HT2. clear HT HT2.
    destruct F as [|F]; [lia|].
    assert (Hs0 : nw s0 false (pre ++ "#" :: body ++ nl :: rest) line = nw s0 false ("#" :: body ++ nl :: rest) L1)
      by (apply nw_skip_blanks; exact Hpre).
    destruct (delim s1 (body ++ nl :: rest)) eqn:Ed.
    + assert (Hplain : plainb body = true).
      { destruct Hsafe as [H|H]; [exact H|]. destruct body as [|d body']; [discriminate H|].
        cbn [app delim] in Ed. cbn [delim] in H. congruence. }
      assert (Htok : nw s1 false (pre ++ "#" :: body ++ nl :: rest) line
                     = TWord (mkword ["#"] QN L1) (body ++ nl :: rest) L1).
      { rewrite (nw_skip_blanks s1 pre _ line Hpre).
        apply (ParserLayout.nw_word s1 "#" [] (body ++ nl :: rest) L1 eq_refl eq_refl eq_refl Ed). }
      destruct (caw_comment_line (length body) body (le_n _) Hplain F rest L1 (mkword ["#"] QN L1) a acc lead
                  eq_refl eq_refl (layout_unqB p Hp next Hn (S L1))) as (p' & Hc & Hp').
      { revert HF. alen. lia. }
      exists p', L1. split.
      * cbn [caw]. rewrite Htok. cbn [negb andb isq wq is1 wv eqs Ascii.eqb Bool.eqb orb]. exact Hc.
      * rewrite Hp'. symmetry. apply nw_s0_comment; [exact Hb|].
        apply prefixb_app_nl; [reflexivity|exact Hph].
    + destruct body as [|d body']; [discriminate Ed|].
      destruct (nw_hash_glued d (body' ++ nl :: rest) L1 Ed) as (w & r & Hnw).
      exists (pre ++ "#" :: (d :: body') ++ nl :: rest), line. split; [|exact Hs0].
      eapply caw_stop_other_line; [rewrite (nw_skip_blanks s1 pre _ line Hpre); exact Hnw|
                                   reflexivity|reflexivity|reflexivity|exact Hlast|].
      cbn [wline]. unfold L1. lia.
Qed.

Definition FollowOKB (k:term) (X:str) : Prop :=
  match k with
  | KSemi => True
  | KNl => exists lay next, X = lay ++ next /\ slayout lay /\ StartsB next
  | KComment => exists lay next, X = lay ++ next /\ layout lay /\ StartsB next
  | KEnd => CloseB X
  end.

Lemma follow_followB : forall k X, FollowOK k X -> FollowOKB k X.
Proof.
  intros [] X H; cbn [FollowOK FollowOKB] in *; try exact I.
  - destruct H as (lay & next & H1 & H2 & H3). exists lay, next. auto using starts_startsB.
  - destruct H as (lay & next & H1 & H2 & H3). exists lay, next. auto using starts_startsB.
  - apply close_closeB; exact H.
Qed.

Lemma caw_termB : forall k t X, RendersTerm k t -> FollowOKB k X ->
  forall F line last a acc lead prevnl,
  weq last [bs] = false -> line = wline last + prevnl ->
  S (length (t ++ X)) < F ->
  exists s' l' l2, caw F (t ++ X) line false last (a :: acc) lead = Ok (rev (a :: acc), s', l')
    /\ nw s0 false s' l' = nw s0 false X l2 /\ line <= l2 /\ (k = KNl -> line < l2).
Proof.
  intros k t X Ht HX F line last a acc lead prevnl Hlast Hline HF.
  destruct Ht as [b Hb|b Hb|b body Hb Hne Hpl Hd|b Hb].
  - destruct F as [|F]; [lia|]. exists X, line, line. split; [|split; [reflexivity|split; [lia|discriminate]]].
    rewrite <- app_assoc. cbn [app caw]. destruct Hb as [Hb Hn].
    rewrite (nw_skip_blanks s1 b _ line Hb), Hn, Nat.add_0_r, nw_s1_semicolon. reflexivity.
  - destruct HX as (lay & next & -> & Hl & Hnx). destruct Hb as [Hb Hn].
    destruct (caw_stop_slayoutB lay Hl next Hnx F (b ++ [nl]) line last a acc lead prevnl) as (s' & l' & H1 & H2);
      try assumption.
    { rewrite forallb_app, Hb. reflexivity. }
    { rewrite count_nl_app. cbn [count_nl]. rewrite Ascii.eqb_refl. lia. }
    { lia. }
    exists s', l', (line + count_nl (b ++ [nl])). split; [assumption|]. split; [assumption|].
    rewrite count_nl_app. cbn [count_nl]. rewrite Ascii.eqb_refl. split; [lia|intros _; lia].
  - destruct HX as (lay & next & -> & Hl & Hnx). destruct Hb as [Hb Hn].
    assert (HT : (b ++ "#" :: body ++ [nl]) ++ lay ++ next = b ++ "#" :: body ++ nl :: lay ++ next).
    { rewrite <- app_assoc. cbn [app]. rewrite <- app_assoc. reflexivity. }
    rewrite HT in *.
    destruct (caw_trailing_comment F b body (lay ++ next) line last a acc lead Hb Hn Hpl Hd
                (layout_unqB lay Hl next Hnx (S line)) HF) as (p & H1 & H2).
    exists p, line, (S line). split; [assumption|]. split; [assumption|]. split; [lia|discriminate].
  - destruct F as [|F]; [lia|]. destruct Hb as [Hb Hn].
    destruct HX as [->|(c & tl & -> & Hc)].
    + exists [], line, line. split; [|split; [reflexivity|split; [lia|discriminate]]].
      apply caw_stop_end. rewrite app_nil_r. apply nw_all_blank; exact Hb.
    + exists (b ++ c :: tl), line, line. split; [|split; [|split; [lia|discriminate]]].
      * cbn [caw]. rewrite (nw_skip_blanks s1 b _ line Hb), Hn, Nat.add_0_r.
        destruct Hc as [-> | ->]; reflexivity.
      * rewrite (nw_skip_blanks s0 b _ line Hb), Hn, Nat.add_0_r. reflexivity.
Qed.

Lemma term_tail_okB : forall k t X, RendersTerm k t -> FollowOKB k X -> tail_ok (t ++ X) = true.
Proof.
  intros k t X Ht HX.
  assert (Hgen : forall b c tl, blank b -> isspace c || mem c vsingle = true -> tail_ok (b ++ c :: tl) = true).
  { intros [|d b] c tl [Hb _] Hc; cbn [app tail_ok]; [exact Hc|].
    cbn [forallb] in Hb. apply andb_prop in Hb as [Hd _]. rewrite Hd. reflexivity. }
  destruct Ht as [b Hb|b Hb|b body Hb Hne Hpl Hd|b Hb].
  - rewrite <- app_assoc. apply Hgen; [exact Hb|reflexivity].
  - rewrite <- app_assoc. apply Hgen; [exact Hb|reflexivity].
  - rewrite <- app_assoc. apply blank_tail_ok; assumption.
  - destruct HX as [->|(c & tl & -> & Hc)].
    + rewrite app_nil_r. destruct b as [|d b]; [reflexivity|]. destruct Hb as [Hb _].
      cbn [forallb] in Hb. apply andb_prop in Hb as [Hd _]. cbn [tail_ok]. rewrite Hd. reflexivity.
    + apply Hgen; [exact Hb|]. destruct Hc as [-> | ->]; reflexivity.
Qed.

(* ====================================================================================== *)
(* 3. a value: words (with continuations), then a terminator                                *)
(* ====================================================================================== *)

Lemma caw_valueB : forall ws vtxt k ttxt X, ws <> [] -> forallb word_ok ws = true ->
  RendersWordsB true 0 ws vtxt -> RendersTerm k ttxt -> FollowOKB k X ->
  forall line lead, wline lead = line -> weq lead [bs] = false ->
  exists ws' s' l' l2, map noline ws' = map noline ws
    /\ caw (S (length (vtxt ++ ttxt ++ X))) (vtxt ++ ttxt ++ X) line false lead [] lead = Ok (ws', s', l')
    /\ nw s0 false s' l' = nw s0 false X l2 /\ line <= l2 /\ (k = KNl -> line < l2).
Proof.
  intros ws vtxt k ttxt X Hne Hok Hws Ht HX line lead Hl Hlead.
  destruct (caw_wordsB true 0 ws vtxt Hws Hok (ttxt ++ X) (S (length (vtxt ++ ttxt ++ X)))
              (S (S (length (ttxt ++ X)))) line lead [] lead Hlead)
    as (last' & prevnl' & ws' & H1 & H2 & H2' & HL & H3); try lia.
  { apply (term_tail_okB k); assumption. }
  rewrite app_nil_r in H3.
  assert (Hacc : exists a0 acc0, rev ws' = a0 :: acc0).
  { destruct (rev ws') as [|a0 acc0] eqn:E; [|eauto].
    apply (f_equal (@length word)) in E. rewrite rev_length, H2' in E. destruct ws; [congruence|discriminate E]. }
  destruct Hacc as (a0 & acc0 & Hacc).
  destruct (caw_termB k ttxt X Ht HX (S (S (length (ttxt ++ X)))) (wline last' + prevnl') last' a0 acc0 lead prevnl' H1 eq_refl)
    as (s' & l' & l2 & Hc & Hpos & HL2 & HL3); [lia|].
  exists ws', s', l', l2. split; [exact H2|]. split; [|split; [exact Hpos|split; [lia|intros E; specialize (HL3 E); lia]]].
  rewrite H3, Hacc, Hc, <- Hacc, rev_involutive. reflexivity.
Qed.

(* ====================================================================================== *)
(* 4. one definition                                                                         *)
(* ====================================================================================== *)

(* "[!]name", blanks, "=", the value (first separator may be empty or a continuation), terminator *)
Inductive RendersDefB : hdr -> list word -> term -> str -> Prop :=
  | rdb : forall h ws k b1 vtxt ttxt,
      dhdr_ok true h = true -> ws <> [] -> forallb word_ok ws = true -> blank b1 ->
      RendersWordsB true 0 ws vtxt -> RendersTerm k ttxt ->
      RendersDefB h ws k (bang (odis h) ++ oname h ++ b1 ++ "=" :: vtxt ++ ttxt).

Lemma cobj_defB_render : forall h ws k dtext X, RendersDefB h ws k dtext -> FollowOKB k X ->
  forall line, exists ws' s' l' l2,
    map noline ws' = map noline ws
    /\ nw s0 false s' l' = nw s0 false X l2 /\ line <= l2 /\ (k = KNl -> line < l2)
    /\ length s' <= length (dtext ++ X)
    /\ forall o f nid stop start prev active acc,
       cobj o (S f) (dtext ++ X) line nid stop start prev active acc
       = cobj o f s' l' (S nid) stop start line
           (Some (adopt (Def (mkhdr (oname h) (odis h) 0 false nid line) ws' []))) (flushed active acc).
Proof.
  intros h ws k dtext X Hd HX line.
  destruct Hd as [h ws k b1 vtxt ttxt Hh Hne Hok Hb1 Hws Ht].
  destruct (dhdr_ok_facts true h Hh) as (Hid & Hpre & Htm & Hmg & Hinc & Hres).
  set (n := oname h) in *. set (dis := odis h) in *.
  set (r5 := vtxt ++ ttxt ++ X).
  assert (HT : (bang dis ++ n ++ b1 ++ "=" :: vtxt ++ ttxt) ++ X = bang dis ++ n ++ b1 ++ "=" :: r5).
  { unfold r5. rewrite <- !app_assoc. cbn [app]. rewrite <- !app_assoc. reflexivity. }
  destruct (caw_valueB ws vtxt k ttxt X Hne Hok Hws Ht HX line (mkword n QN line) eq_refl (ident_weq_bs n line Hid))
    as (ws' & s' & l' & l2 & Hnl & Hcaw & Hpos & HL2 & HL3).
  fold r5 in Hcaw.
  exists ws', s', l', l2. split; [exact Hnl|]. split; [exact Hpos|]. split; [exact HL2|]. split; [exact HL3|]. split.
  - apply caw_len in Hcaw. rewrite HT. revert Hcaw. alen. lia.
  - intros o f nid stop start prev active acc. rewrite HT.
    rewrite (cobj_def_head o f dis n b1 r5 line nid stop start prev active acc Hid Hinc Hb1).
    rewrite Hcaw. cbn [bind]. rewrite Hres, Hpre. reflexivity.
Qed.

(* ====================================================================================== *)
(* 5. attribute values, attribute lines                                                      *)
(* ====================================================================================== *)

(* success with the empty oracle = success with every oracle *)
Lemma assign_def_attr_free : forall o n ws v, assign_def_attr [] n ws = Ok v -> assign_def_attr o n ws = Ok v.
Proof.
  intros o n ws v. unfold assign_def_attr.
  destruct (eqs n (s_ "optional") || eqs n (s_ "multiple")); [auto|].
  destruct (eqs n (s_ "type")).
  - destruct (is_plain_none ws); [auto|]. destruct (is_plain_auto ws); [auto|].
    unfold ask. cbn [olookup]. discriminate.
  - destruct (eqs n (s_ "input_size") || eqs n (s_ "expert_level")); [apply int_from_words_orc|auto].
Qed.
Lemma assign_scope_attr_free : forall o n ws v, assign_scope_attr [] n ws = Ok v -> assign_scope_attr o n ws = Ok v.
Proof.
  intros o n ws v. unfold assign_scope_attr.
  destruct (mems n [s_ "optional"; s_ "multiple"; s_ "disable_add"; s_ "disable_delete"]); [auto|].
  destruct (eqs n (s_ "expert_level")); [apply int_from_words_orc|].
  destruct (eqs n (s_ "call")).
  - destruct (is_plain_none ws); [auto|]. destruct (is_plain_auto ws); [auto|].
    unfold ask. cbn [olookup]. discriminate.
  - auto.
Qed.

Lemma rrel_eq_ok : forall {A} (r:res A) v, rrel eq r (Ok v) -> r = Ok v.
Proof. intros A [a|kd t l|c] v H; cbn [rrel] in H; [subst; reflexivity|destruct H|destruct H]. Qed.

Lemma assign_def_attr_nl : forall o n ws ws' v, map noline ws' = map noline ws ->
  assign_def_attr [] n ws = Ok v -> assign_def_attr o n ws' = Ok v.
Proof.
  intros o n ws ws' v Hnl H. apply rrel_eq_ok. rewrite <- (assign_def_attr_free o n ws v H).
  apply assign_def_attr_words. exact Hnl.
Qed.
Lemma assign_scope_attr_nl : forall o n ws ws' v, map noline ws' = map noline ws ->
  assign_scope_attr [] n ws = Ok v -> assign_scope_attr o n ws' = Ok v.
Proof.
  intros o n ws ws' v Hnl H. apply rrel_eq_ok. rewrite <- (assign_scope_attr_free o n ws v H).
  apply assign_scope_attr_words. exact Hnl.
Qed.

(* the effect of one attribute line on the attribute list *)
Definition upd (assign:oracle -> str -> list word -> res aval) (dis:bool) (an:str) (ws:list word) (a a':attrs) : Prop :=
  if dis then a' = a else exists av, assign [] an ws = Ok av /\ a' = set_attr an av a.

Lemma mems_ident : forall an names, forallb is_ident names = true -> mems an names = true -> is_ident an = true.
Proof.
  intros an names; induction names as [|x r IH]; intros Hall H; [discriminate H|].
  cbn [forallb] in Hall. apply andb_prop in Hall as [Hx Hr].
  unfold mems in H. cbn [existsb] in H. apply orb_prop in H as [H|H].
  - apply eqs_true in H. subst x. exact Hx.
  - apply IH; assumption.
Qed.
Lemma def_mems_ident : forall an, mems an def_attr_names = true -> is_ident an = true.
Proof. intros an. apply mems_ident. reflexivity. Qed.
Lemma scope_mems_ident : forall an, mems an scope_attr_names = true -> is_ident an = true.
Proof. intros an. apply mems_ident. reflexivity. Qed.

Lemma nw_s0_attr : forall dis an tl line, is_ident an = true -> tailok s0 tl = true ->
  nw s0 false (bang dis ++ "." :: an ++ tl) line = TWord (mkword (bang dis ++ "." :: an) QN line) tl line.
Proof.
  intros dis an tl line Hid Ht. destruct dis; cbn [bang app].
  - pose proof (dot_unq_ok0 an Hid) as Hu. unfold unq_ok0 in Hu. apply andb_prop in Hu as [_ Hall].
    change ("!" :: "." :: an ++ tl) with (("!" :: "." :: an) ++ tl).
    apply nw_unquoted_s0; [|exact Ht]. unfold unq_ok0. apply andb_true_intro. split; [reflexivity|].
    cbn [forallb] in *. rewrite Hall. reflexivity.
  - apply (nw_s0_dot [] an tl line blank_nil Hid Ht).
Qed.

Lemma pop_blank_eq : forall b1 r line, blank b1 ->
  pop s0 (b1 ++ "=" :: r) line = Ok (mkword ["="] QN line, r, line)
  /\ pop_unq s0 (b1 ++ "=" :: r) line = Ok (mkword ["="] QN line, r, line).
Proof.
  intros b1 r line [Hb Hn].
  assert (Hpop : pop s0 (b1 ++ "=" :: r) line = Ok (mkword ["="] QN line, r, line)).
  { unfold pop. rewrite (nw_skip_blanks s0 b1 _ line Hb), Hn, Nat.add_0_r. reflexivity. }
  split; [exact Hpop|]. unfold pop_unq. rewrite Hpop. reflexivity.
Qed.

(* a definition attribute line "[!].name", blanks, "=" *)
Lemma cobj_attr_headB : forall o f dis an b1 r5 line nid stop start prev ad acc,
  is_ident an = true -> mems an def_attr_names = true -> blank b1 ->
  cobj o (S f) (bang dis ++ "." :: an ++ b1 ++ "=" :: r5) line nid stop start prev (Some ad) acc
  = do (ws, r6, l6) <- caw (S (length r5)) r5 line false (mkword ("." :: an) QN line) [] (mkword ("." :: an) QN line) ;
    do ad' <- (if dis then Ok ad else do av <- assign_def_attr o an ws ; Ok (attach an av ad)) ;
    cobj o f r6 l6 nid stop start line (Some ad') acc.
Proof.
  intros o f dis an b1 r5 line nid stop start prev ad acc Hid Hmem Hb1.
  pose proof (nw_s0_attr dis an (b1 ++ "=" :: r5) line Hid (blank_tailok0 b1 "=" r5 Hb1 eq_refl)) as Hnw.
  destruct (pop_blank_eq b1 r5 line Hb1) as (Hpop & Hpopu).
  cbn [cobj]. rewrite Hnw. cbn [isq wq wv wline].
  destruct dis; cbn [bang app].
  - change (eqs ("!" :: "." :: an) intro) with false. change (eqs ("!" :: "." :: an) ["}"]) with false.
    change (eqs ("!" :: "." :: an) ["{"]) with false. change (strip_bang ("!" :: "." :: an)) with ("." :: an, true).
    cbn [andb]. rewrite andb_false_r. rewrite Hpop. cbn [bind isq wq wv negb].
    change (eqs ["="] ["{"] || prefixb ["."] ["="] || prefixb ["!"; "."] ["="]) with false.
    cbn [andb]. change (prefixb ["."] ("." :: an)) with true. cbn [negb drop]. rewrite Hmem. cbn [negb].
    rewrite Hpopu. cbn [bind]. unfold expect_eq. cbn [wv]. change (eqs ["="] ["="]) with true. cbn [bind].
    reflexivity.
  - change (eqs ("." :: an) intro) with false. change (eqs ("." :: an) ["}"]) with false.
    change (eqs ("." :: an) ["{"]) with false. change (strip_bang ("." :: an)) with ("." :: an, false).
    cbn [andb]. rewrite andb_false_r. rewrite Hpop. cbn [bind isq wq wv negb].
    change (eqs ["="] ["{"] || prefixb ["."] ["="] || prefixb ["!"; "."] ["="]) with false.
    cbn [andb]. change (prefixb ["."] ("." :: an)) with true. cbn [negb drop]. rewrite Hmem. cbn [negb].
    rewrite Hpopu. cbn [bind]. unfold expect_eq. cbn [wv]. change (eqs ["="] ["="]) with true. cbn [bind].
    reflexivity.
Qed.

(* a scope attribute "[!].name", blanks, "=" *)
Lemma sattrs_headB : forall o f dis an b1 r line acc,
  mems an scope_attr_names = true -> blank b1 ->
  sattrs o (S f) (mkword (bang dis ++ "." :: an) QN line) (b1 ++ "=" :: r) line acc
  = do (ws, r2, l2) <- caw (S (length r)) r line false (mkword ("." :: an) QN line) [] (mkword ("." :: an) QN line) ;
    do acc' <- (if dis then Ok acc else do av <- assign_scope_attr o an ws ; Ok (set_attr an av acc)) ;
    do (w2, r3, l3) <- pop_unq s0 r2 l2 ;
    sattrs o f w2 r3 l3 acc'.
Proof.
  intros o f dis an b1 r line acc Hmem Hb1.
  destruct (pop_blank_eq b1 r line Hb1) as (_ & Hpopu).
  cbn [sattrs wv wline]. destruct dis; cbn [bang app].
  - change (eqs ("!" :: "." :: an) ["{"]) with false. change (strip_bang ("!" :: "." :: an)) with ("." :: an, true).
    cbv iota. change (Ascii.eqb "." ".") with true. rewrite Hmem. cbn [andb].
    rewrite Hpopu. cbn [bind]. unfold expect_eq. cbn [wv]. change (eqs ["="] ["="]) with true. cbn [bind].
    reflexivity.
  - change (eqs ("." :: an) ["{"]) with false. change (strip_bang ("." :: an)) with ("." :: an, false).
    cbv iota. change (Ascii.eqb "." ".") with true. rewrite Hmem. cbn [andb].
    rewrite Hpopu. cbn [bind]. unfold expect_eq. cbn [wv]. change (eqs ["="] ["="]) with true. cbn [bind].
    reflexivity.
Qed.

(* attach reaches the definition through the scopes of a dotted name *)
Lemma attach_wrap : forall n v comps first h ws a,
  attach n v (wrap_dotted first comps (Def h ws a)) = wrap_dotted first comps (Def h ws (set_attr n v a)).
Proof.
  intros n v; induction comps as [|c rest IH]; intros first h ws a; [reflexivity|].
  destruct rest as [|c2 rest].
  - cbn [wrap_dotted]. destruct first; reflexivity.
  - change (wrap_dotted first (c :: c2 :: rest) (Def h ws a))
      with (Scp (mkhdr c false 0 (negb first) (opid (ohdr (Def h ws a))) 0) [wrap_dotted false (c2 :: rest) (Def h ws a)] []).
    change (wrap_dotted first (c :: c2 :: rest) (Def h ws (set_attr n v a)))
      with (Scp (mkhdr c false 0 (negb first) (opid (ohdr (Def h ws (set_attr n v a)))) 0) [wrap_dotted false (c2 :: rest) (Def h ws (set_attr n v a))] []).
    cbn [attach]. rewrite IH. reflexivity.
Qed.
Lemma attach_adopt : forall n v h ws a, attach n v (adopt (Def h ws a)) = adopt (Def h ws (set_attr n v a)).
Proof. intros. unfold adopt. cbn [ohdr]. apply attach_wrap. Qed.

(* erasure of ids and lines commutes with scope.adopt *)
Lemma erase_obj_wrapB : forall comps first x,
  erase_obj (wrap_dotted first comps x) = wrap_dotted first comps (erase_obj x).
Proof.
  induction comps as [|c rest IH]; intros first x; [reflexivity|].
  destruct rest as [|c2 rest].
  - cbn [wrap_dotted]. destruct first; [reflexivity|]. destruct x; reflexivity.
  - change (wrap_dotted first (c :: c2 :: rest) x)
      with (Scp (mkhdr c false 0 (negb first) (opid (ohdr x)) 0) [wrap_dotted false (c2 :: rest) x] []).
    change (wrap_dotted first (c :: c2 :: rest) (erase_obj x))
      with (Scp (mkhdr c false 0 (negb first) (opid (ohdr (erase_obj x))) 0) [wrap_dotted false (c2 :: rest) (erase_obj x)] []).
    cbn [erase_obj map]. rewrite IH. destruct x; reflexivity.
Qed.
Lemma erase_obj_adoptB : forall x, erase_obj (adopt x) = adopt (erase_obj x).
Proof.
  intros x. unfold adopt. rewrite erase_obj_wrapB.
  replace (oname (ohdr (erase_obj x))) with (oname (ohdr x)) by (destruct x; reflexivity). reflexivity.
Qed.
Lemma erase_def_written : forall h ws ws' a nid line, otmpl h = 0%Z -> omerge h = false ->
  map noline ws' = map noline ws ->
  erase_obj (adopt (Def (mkhdr (oname h) (odis h) 0 false nid line) ws' a)) = erase_obj (adopt (Def h ws a)).
Proof.
  intros h ws ws' a nid line Ht Hm Hnl. rewrite !erase_obj_adoptB. f_equal. cbn [erase_obj].
  rewrite (erase_hdr_written h nid line Ht Hm). change erase_word with noline. rewrite Hnl. reflexivity.
Qed.

(* one attribute line: "[!].name", blanks, "=", the value, a terminator *)
Inductive RendersAttr : bool -> str -> list word -> term -> str -> Prop :=
  | ra : forall dis an ws k b1 vtxt ttxt, ws <> [] -> forallb word_ok ws = true -> blank b1 ->
      RendersWordsB true 0 ws vtxt -> RendersTerm k ttxt ->
      RendersAttr dis an ws k (bang dis ++ "." :: an ++ b1 ++ "=" :: vtxt ++ ttxt).

Lemma attr_starts : forall dis an tl, StartsB (bang dis ++ "." :: an ++ tl).
Proof. intros [] an tl; apply startsB_char; reflexivity. Qed.

Lemma follow_lay : forall k lay next, k <> KEnd -> lay_ok (after k) lay -> StartsB next -> FollowOKB k (lay ++ next).
Proof.
  intros k lay next Hk Hl Hn. destruct k; cbn [FollowOKB after lay_ok] in *; try exact I; try congruence;
    exists lay, next; auto.
Qed.

Ltac reassoc := repeat (progress (rewrite <- ?app_assoc; cbn [app])).

(* ====================================================================================== *)
(* 6. the attribute lines of a definition                                                    *)
(* ====================================================================================== *)

(* [RendersDA k0 a a' k txt]: after an item that ended with terminator k0 and attribute list a, the
   attribute lines txt lead to the list a', the last item ending with terminator k *)
Inductive RendersDA : term -> attrs -> attrs -> term -> str -> Prop :=
  | rda_nil : forall k a, RendersDA k a a k []
  | rda_cons : forall k0 a lay dis an ws k1 ltxt a1 a' k2 more,
      k0 <> KEnd -> lay_ok (after k0) lay -> mems an def_attr_names = true ->
      RendersAttr dis an ws k1 ltxt -> upd assign_def_attr dis an ws a a1 ->
      RendersDA k1 a1 a' k2 more ->
      RendersDA k0 a a' k2 (lay ++ ltxt ++ more).

Lemma da_follow : forall k0 a a' k atext, RendersDA k0 a a' k atext ->
  forall Y, FollowOKB k Y -> FollowOKB k0 (atext ++ Y).
Proof.
  intros k0 a a' k atext H. destruct H as [k a|k0 a lay dis an ws k1 ltxt a1 a' k2 more Hk Hl Hm Ha Hu Hr]; intros Y HY.
  - exact HY.
  - destruct Ha as [dis an ws k1 b1 vtxt ttxt _ _ _ _ _].
    replace ((lay ++ (bang dis ++ "." :: an ++ b1 ++ "=" :: vtxt ++ ttxt) ++ more) ++ Y)
      with (lay ++ bang dis ++ "." :: an ++ (b1 ++ "=" :: vtxt ++ ttxt ++ more ++ Y)) by (reassoc; reflexivity).
    apply follow_lay; [exact Hk|exact Hl|apply attr_starts].
Qed.

Lemma dot_weq_bs : forall an line, weq (mkword ("." :: an) QN line) [bs] = false.
Proof. reflexivity. Qed.

Lemma da_sound : forall k0 a a' k atext, RendersDA k0 a a' k atext ->
  forall Y, FollowOKB k Y ->
  forall o F line nid stop start prev hd ws acc, length (atext ++ Y) < F -> prev <= line ->
  (k0 = KNl -> prev < line) ->
  exists line' prev', prev' <= line' /\ line <= line' /\ (k = KNl -> prev' < line') /\ forall G, length Y < G ->
    eqres stop (cobj o F (atext ++ Y) line nid stop start prev (Some (adopt (Def hd ws a))) acc)
               (cobj o G Y line' nid stop start prev' (Some (adopt (Def hd ws a'))) acc).
Proof.
  intros k0 a a' k atext H;
    induction H as [k a|k0 a lay dis an ws0 k1 ltxt a1 a' k2 more Hk Hl Hm Ha Hu Hr IH];
    intros Y HY o F line nid stop start prev hd ws acc HF Hpl Hps.
  - exists line, prev. split; [exact Hpl|]. split; [lia|]. split; [exact Hps|]. intros G HG. cbn [app] in *. apply cobj_fuel_eq; assumption.
  - pose proof (da_follow _ _ _ _ _ Hr Y HY) as HX1.
    set (X1 := more ++ Y) in *.
    destruct Ha as [dis an ws0 k1 b1 vtxt ttxt Hne Hok Hb1 Hws Ht].
    set (line1 := line + count_nl lay).
    set (r5 := vtxt ++ ttxt ++ X1).
    set (Z := bang dis ++ "." :: an ++ b1 ++ "=" :: r5).
    assert (HT : (lay ++ (bang dis ++ "." :: an ++ b1 ++ "=" :: vtxt ++ ttxt) ++ more) ++ Y = lay ++ Z).
    { unfold Z, r5, X1. reassoc. reflexivity. }
    rewrite HT in *.
    pose proof (def_mems_ident an Hm) as Hid.
    destruct (caw_valueB ws0 vtxt k1 ttxt X1 Hne Hok Hws Ht HX1 line1 (mkword ("." :: an) QN line1) eq_refl
                (dot_weq_bs an line1)) as (ws' & s' & l' & l2 & Hnl & Hcaw & Hpos & HL2 & HL3).
    fold r5 in Hcaw.
    destruct (IH Y HY o (S (length X1)) l2 nid stop start line1 hd ws acc (Nat.lt_succ_diag_r _) HL2 HL3)
      as (line' & prev' & Hpl' & Hll' & Hps' & Hc2).
    exists line', prev'. split; [exact Hpl'|]. split; [unfold line1 in HL2; lia|]. split; [exact Hps'|]. intros G HG.
    assert (Hlay : layout lay) by (apply (lay_ok_layout (after k0)); exact Hl).
    eapply eqres_trans.
    { apply (cobj_pos_eq o F (S (S (length Z))) (lay ++ Z) line Z line1);
        [apply layout_nw; exact Hlay|exact HF|lia]. }
    unfold Z at 2.
    rewrite (cobj_attr_headB o (S (length Z)) dis an b1 r5 line1 nid stop start prev (adopt (Def hd ws a)) acc Hid Hm Hb1).
    rewrite Hcaw. cbn [bind].
    assert (Had : (if dis then Ok (adopt (Def hd ws a))
                   else do av <- assign_def_attr o an ws'; Ok (attach an av (adopt (Def hd ws a))))
                  = Ok (adopt (Def hd ws a1))).
    { unfold upd in Hu. destruct dis; [subst a1; reflexivity|].
      destruct Hu as (av & Hav & ->). rewrite (assign_def_attr_nl o an ws0 ws' av Hnl Hav). cbn [bind].
      rewrite attach_adopt. reflexivity. }
    rewrite Had. cbn [bind].
    eapply eqres_trans; [|apply (Hc2 G HG)].
    apply cobj_pos_eq; [exact Hpos| |unfold X1; lia].
    apply caw_len in Hcaw. unfold Z. revert Hcaw. alen. lia.
Qed.

(* ====================================================================================== *)
(* 7. the header of a scope: name, attribute lines, "{"                                      *)
(* ====================================================================================== *)

(* the layout in front of an attribute line ([isattr]) or of the "{"; [None] = right after the name *)
Definition sep_ok (k:option term) (isattr:bool) (lay:str) : Prop :=
  match k with
  | None => layout lay /\ match lay with [] => isattr = false | c :: _ => isspace c = true end
  | Some KEnd => lay = [] /\ isattr = false
  | Some k => lay_ok (after k) lay
  end.

Inductive RendersSA : option term -> attrs -> attrs -> str -> Prop :=
  | rsa_brace : forall k a lay, sep_ok k false lay -> RendersSA k a a lay
  | rsa_attr : forall k a lay dis an ws k1 ltxt a1 a' more,
      sep_ok k true lay -> mems an scope_attr_names = true ->
      RendersAttr dis an ws k1 ltxt -> upd assign_scope_attr dis an ws a a1 ->
      RendersSA (Some k1) a1 a' more ->
      RendersSA k a a' (lay ++ ltxt ++ more).

Lemma sep_ok_layout : forall k b lay, sep_ok k b lay -> layout lay.
Proof.
  intros [[]|] b lay H; cbn [sep_ok] in H; try (apply (lay_ok_layout _ _ H)).
  - destruct H as [-> _]. constructor.
  - apply H.
Qed.

Lemma sep_ok_follow : forall k b lay next, sep_ok (Some k) b lay -> StartsB next ->
  (k = KEnd -> CloseB next) -> FollowOKB k (lay ++ next).
Proof.
  intros k b lay next H Hn Hc. destruct k; cbn [sep_ok FollowOKB after lay_ok] in *; try exact I.
  - exists lay, next. auto.
  - exists lay, next. auto.
  - destruct H as [-> _]. apply Hc. reflexivity.
Qed.

Lemma sa_follow : forall k a a' more, RendersSA (Some k) a a' more ->
  forall body, FollowOKB k (more ++ "{" :: body).
Proof.
  intros k a a' more H body.
  inversion H as [k' a0 lay Hs|k' a0 lay dis an ws k1 ltxt a1 a'' more' Hs Hm Ha Hu Hr]; subst.
  - apply (sep_ok_follow k false); [exact Hs| |].
    + apply startsB_char. reflexivity.
    + intros _. right. exists "{", body. auto.
  - destruct Ha as [dis an ws k1 b1 vtxt ttxt _ _ _ _ _].
    replace ((lay ++ (bang dis ++ "." :: an ++ b1 ++ "=" :: vtxt ++ ttxt) ++ more') ++ "{" :: body)
      with (lay ++ bang dis ++ "." :: an ++ (b1 ++ "=" :: vtxt ++ ttxt ++ more' ++ "{" :: body)) by (reassoc; reflexivity).
    apply (sep_ok_follow k true); [exact Hs|apply attr_starts|].
    intros ->. cbn [sep_ok] in Hs. destruct Hs as [_ Hs]. discriminate Hs.
Qed.

Lemma attr_tests : forall dis an,
  eqs (bang dis ++ "." :: an) ["{"] || prefixb ["."] (bang dis ++ "." :: an) || prefixb ["!";"."] (bang dis ++ "." :: an) = true.
Proof. intros [] an; reflexivity. Qed.

Lemma sa_sound : forall k a a' stxt, RendersSA k a a' stxt ->
  forall o body line, exists w r l l0,
    nw s0 false (stxt ++ "{" :: body) line = TWord w r l /\ isq w = false
    /\ (eqs (wv w) ["{"] || prefixb ["."] (wv w) || prefixb ["!";"."] (wv w)) = true
    /\ line <= l0
    /\ forall F, length r < F -> sattrs o F w r l a = Ok (a', mkword ["{"] QN l0, body, l0).
Proof.
  intros k a a' stxt H;
    induction H as [k a lay Hs|k a lay dis an ws0 k1 ltxt a1 a' more Hs Hm Ha Hu Hr IH]; intros o body line.
  - set (l1 := line + count_nl lay).
    exists (mkword ["{"] QN l1), body, l1, l1. split; [|split; [reflexivity|split; [reflexivity|split; [unfold l1; lia|]]]].
    + rewrite (layout_nw lay (sep_ok_layout _ _ _ Hs)). reflexivity.
    + intros F HF. destruct F as [|f]; [lia|]. apply sattrs_brace. reflexivity.
  - pose proof (sa_follow _ _ _ _ Hr body) as HX1.
    set (X1 := more ++ "{" :: body) in *.
    destruct Ha as [dis an ws0 k1 b1 vtxt ttxt Hne Hok Hb1 Hws Ht].
    set (line1 := line + count_nl lay).
    set (r5 := vtxt ++ ttxt ++ X1).
    assert (HT : (lay ++ (bang dis ++ "." :: an ++ b1 ++ "=" :: vtxt ++ ttxt) ++ more) ++ "{" :: body
                 = lay ++ bang dis ++ "." :: an ++ (b1 ++ "=" :: r5)).
    { unfold r5, X1. reassoc. reflexivity. }
    rewrite HT.
    pose proof (scope_mems_ident an Hm) as Hid.
    destruct (caw_valueB ws0 vtxt k1 ttxt X1 Hne Hok Hws Ht HX1 line1 (mkword ("." :: an) QN line1) eq_refl
                (dot_weq_bs an line1)) as (ws' & s' & l' & l2 & Hnl & Hcaw & Hpos & HL2 & _).
    fold r5 in Hcaw.
    destruct (IH o body l2) as (w2 & r3 & l3 & l0 & Hnw2 & Hq2 & _ & HL0 & Hsat2).
    fold X1 in Hnw2.
    exists (mkword (bang dis ++ "." :: an) QN line1), (b1 ++ "=" :: r5), line1, l0.
    split; [|split; [reflexivity|split; [apply attr_tests|split; [unfold line1 in HL2; lia|]]]].
    + rewrite (layout_nw lay (sep_ok_layout _ _ _ Hs)).
      apply nw_s0_attr; [exact Hid|apply blank_tailok0; [exact Hb1|reflexivity]].
    + intros F HF. destruct F as [|f]; [lia|].
      rewrite (sattrs_headB o f dis an b1 r5 line1 a Hm Hb1). rewrite Hcaw. cbn [bind].
      assert (Hacc : (if dis then Ok a else do av <- assign_scope_attr o an ws'; Ok (set_attr an av a)) = Ok a1).
      { unfold upd in Hu. destruct dis; [subst a1; reflexivity|].
        destruct Hu as (av & Hav & ->). rewrite (assign_scope_attr_nl o an ws0 ws' av Hnl Hav). reflexivity. }
      rewrite Hacc. cbn [bind].
      assert (Hnw3 : nw s0 false s' l' = TWord w2 r3 l3) by (rewrite Hpos; exact Hnw2).
      rewrite (pop_unq_word s' l' w2 r3 l3 Hnw3 Hq2). cbn [bind].
      apply Hsat2. apply nw_rest_shorter in Hnw3. apply caw_len in Hcaw.
      revert HF. alen. lia.
Qed.

Lemma sa_tailok : forall a a' stxt body, RendersSA None a a' stxt -> tailok s0 (stxt ++ "{" :: body) = true.
Proof.
  intros a a' stxt body H.
  assert (Hgen : forall lay tl, sep_ok None true lay -> tailok s0 (lay ++ tl) = true).
  { intros lay tl [_ Hl]. destruct lay as [|c lay]; [discriminate Hl|]. cbn [app tailok]. rewrite Hl. reflexivity. }
  inversion H as [k' a0 lay Hs|k' a0 lay dis an ws k1 ltxt a1 a'' more' Hs Hm Ha Hu Hr]; subst.
  - destruct Hs as [_ Hl]. destruct stxt as [|c lay]; [reflexivity|]. cbn [app tailok]. rewrite Hl. reflexivity.
  - rewrite <- !app_assoc. apply Hgen; exact Hs.
Qed.

(* the scope header as a whole *)
Lemma cobj_scope_headB : forall o f dis n hdrtail line nid stop start prev active acc
                                w r2 l2 sa bw r3 l3 kids r4 l4 nid4,
  is_ident n = true -> name_reserved_scp n = false -> prefix_reserved n = false -> tailok s0 hdrtail = true ->
  nw s0 false hdrtail line = TWord w r2 l2 -> isq w = false ->
  (eqs (wv w) ["{"] || prefixb ["."] (wv w) || prefixb ["!";"."] (wv w)) = true ->
  sattrs o (S (length r2)) w r2 l2 [] = Ok (sa, bw, r3, l3) ->
  cobj o f r3 l3 (S nid) true (Some bw) 0 None [] = Ok (kids, r4, l4, nid4) ->
  cobj o (S f) (bang dis ++ n ++ hdrtail) line nid stop start prev active acc
  = cobj o f r4 l4 nid4 stop start line None
         (adopt (Scp (mkhdr n dis 0 false nid line) kids sa) :: flushed active acc).
Proof.
  intros o f dis n hdrtail line nid stop start prev active acc w r2 l2 sa bw r3 l3 kids r4 l4 nid4
         Hid Hres Hpre Htl Hnw1 Hq1 Htest Hsat Hin.
  pose proof (nw_s0_lead [] dis n hdrtail line blank_nil Hid Htl) as Hnw. cbn [app] in Hnw.
  destruct (lead_tests dis n Hid) as (Hintro & Hrb & Hlb & Hbang & Hdot).
  cbn [cobj]. rewrite Hnw.
  cbn [isq wq wv wline]. rewrite Hintro, Hrb, Hlb, Hbang. cbn [andb].
  rewrite andb_false_r.
  unfold pop. rewrite Hnw1. cbn [bind]. rewrite Hq1, Htest. cbn [negb andb].
  rewrite Hid, Hres. cbn [negb].
  rewrite Hsat. cbn [bind].
  rewrite Hin. cbn [bind]. rewrite Hpre.
  reflexivity.
Qed.

(* ====================================================================================== *)
(* 7b. #phil directives: the scanner over an __OFF__ region, the directive lines             *)
(* ====================================================================================== *)

(* no line of the text (after its first, partial line) starts with "#phil" *)
Fixpoint nophil (s:str) : bool :=
  match s with [] => true | c :: r => negb (Ascii.eqb c nl && prefixb intro r) && nophil r end.

Lemma skip_space_blank : forall b x, blank b -> skip_space (b ++ x) = skip_space x.
Proof.
  induction b as [|c b IH]; intros x [Hb Hn]; [reflexivity|].
  cbn [forallb] in Hb. apply andb_prop in Hb as [Hc Hb].
  cbn [count_nl] in Hn. destruct (Ascii.eqb c nl) eqn:E; [discriminate Hn|].
  cbn [app skip_space]. rewrite Hc, E. cbn [negb andb]. apply IH. split; assumption.
Qed.
Lemma after_followup_blank : forall b c line, blank b -> after_followup (b ++ nl :: c) line = (c, S line, true).
Proof.
  induction b as [|d b IH]; intros c line [Hb Hn].
  - cbn [app after_followup]. rewrite Ascii.eqb_refl. reflexivity.
  - cbn [forallb] in Hb. apply andb_prop in Hb as [Hd Hb].
    cbn [count_nl] in Hn. destruct (Ascii.eqb d nl) eqn:E; [discriminate Hn|].
    cbn [app after_followup]. rewrite E, Hd. apply IH. split; assumption.
Qed.
Lemma prefixb_self : forall x q, prefixb x (x ++ q) = true.
Proof. induction x as [|c x IH]; intros q; [reflexivity|]. cbn [app prefixb]. rewrite Ascii.eqb_refl, IH. reflexivity. Qed.
Lemma drop_self : forall {A} (x q:list A), drop (length x) (x ++ q) = q.
Proof. induction x as [|c x IH]; intros q; [reflexivity|]. cbn [length app drop]. apply IH. Qed.
Lemma skip_nonspace_sp : forall c r, isspace c = true -> skip_nonspace (c :: r) = c :: r.
Proof. intros c r H. cbn [skip_nonspace]. rewrite H. reflexivity. Qed.

(* the scanner at the closing line: newline, "#phil", blanks, "__ON__", blanks, newline *)
Lemma nlrun_on : forall (k:str -> nat -> str * nat * option nat) g x sp b c line,
  blank sp -> sp <> [] -> blank b ->
  nlrun k (S g) (x :: intro ++ sp ++ f_on ++ b ++ nl :: c) line = (c, S (S line), Some 1).
Proof.
  intros k g x sp b c line Hsp Hne Hb.
  set (rest1 := sp ++ f_on ++ b ++ nl :: c).
  assert (H1 : prefixb intro (intro ++ rest1) = true) by apply prefixb_self.
  assert (H2 : drop (length intro) (intro ++ rest1) = rest1) by apply drop_self.
  destruct sp as [|c0 sp']; [congruence|].
  assert (Hs0 : isspace c0 = true) by (destruct Hsp as [Hs _]; cbn [forallb] in Hs; apply andb_prop in Hs; apply Hs).
  assert (H3 : skip_nonspace rest1 = rest1) by (apply skip_nonspace_sp; exact Hs0).
  assert (H4 : skip_space rest1 = f_on ++ b ++ nl :: c).
  { unfold rest1. rewrite (skip_space_blank (c0 :: sp') _ Hsp). reflexivity. }
  remember (intro ++ rest1) as t1 eqn:Et1.
  assert (Eh : exists t1', t1 = "#" :: t1') by (subst t1; eexists; reflexivity).
  destruct Eh as (t1' & Eh).
  cbn [nlrun]. rewrite Eh. change (Ascii.eqb "#" nl) with false. cbv iota. rewrite <- Eh.
  rewrite H1. cbn [negb]. rewrite H2, H3.
  unfold rest1 at 1. cbn [app]. rewrite H4.
  change (prefixb f_end (f_on ++ b ++ nl :: c)) with false. cbv iota.
  rewrite (prefixb_self f_on), (drop_self f_on), (after_followup_blank b c (S line) Hb). reflexivity.
Qed.

(* the closing line of a region, followed by c *)
Definition clc (sp b c:str) : str := nl :: intro ++ sp ++ f_on ++ b ++ nl :: c.

Lemma nophil_tail : forall c r, nophil (c :: r) = true -> nophil r = true.
Proof. intros c r H. cbn [nophil] in H. apply andb_prop in H. apply H. Qed.

Lemma sfs_region_gen : forall sp b c, blank sp -> sp <> [] -> blank b ->
  forall n T, length T <= n -> nophil T = true ->
  (forall f line, length (T ++ clc sp b c) < f -> sfs f (T ++ clc sp b c) line = (c, line + count_nl T + 2, Some 1))
  /\ ((T = [] \/ exists T', T = nl :: T') -> forall g f line,
      length (T ++ clc sp b c) <= g -> length (T ++ clc sp b c) <= S f ->
      nlrun (sfs f) g (T ++ clc sp b c) line = (c, line + count_nl T + 2, Some 1)).
Proof.
  intros sp b c Hsp Hne Hb. induction n as [|n IH]; intros T Hlen Hnp.
  - destruct T as [|c0 T']; [|cbn [length] in Hlen; lia]. cbn [app count_nl]. split.
    + intros f line Hf. destruct f as [|f]; [lia|]. unfold clc at 1. cbn [sfs].
      rewrite Ascii.eqb_refl. cbn [negb]. fold (clc sp b c).
      unfold clc at 2. rewrite (nlrun_on (sfs f) _ nl sp b c line Hsp Hne Hb). f_equal. f_equal. lia.
    + intros _ g f line Hg Hf. destruct g as [|g]; [unfold clc in Hg; cbn [length] in Hg; lia|].
      unfold clc. rewrite (nlrun_on (sfs f) g nl sp b c line Hsp Hne Hb). f_equal. f_equal. lia.
  - destruct T as [|c0 T'].
    { apply (IH []); [cbn [length]; lia|reflexivity]. }
    cbn [length] in Hlen. pose proof (nophil_tail _ _ Hnp) as Hnp'.
    destruct (IH T' ltac:(lia) Hnp') as (IHA & IHB).
    assert (HB : (exists T0, c0 :: T' = nl :: T0) -> forall g f line,
               length ((c0 :: T') ++ clc sp b c) <= g -> length ((c0 :: T') ++ clc sp b c) <= S f ->
               nlrun (sfs f) g ((c0 :: T') ++ clc sp b c) line = (c, line + count_nl (c0 :: T') + 2, Some 1)).
    { intros (T0 & E) g f line Hg Hf. inversion E; subst c0 T0. clear E.
      destruct g as [|g]; [cbn [app length] in Hg; lia|].
      cbn [app length] in Hg, Hf.
      destruct T' as [|d T''].
      - (* the closing line follows directly *)
        cbn [app nlrun]. unfold clc at 1 2. rewrite Ascii.eqb_refl. fold (clc sp b c).
        destruct g as [|g]; [unfold clc in Hg; cbn [app length] in Hg; lia|].
        unfold clc. rewrite (nlrun_on (sfs f) g nl sp b c (S line) Hsp Hne Hb).
        f_equal. f_equal. cbn [count_nl]. rewrite Ascii.eqb_refl. lia.
      - cbn [app nlrun]. destruct (Ascii.eqb d nl) eqn:Ed.
        + apply Ascii.eqb_eq in Ed. subst d.
          change (nl :: T'' ++ clc sp b c) with ((nl :: T'') ++ clc sp b c).
          rewrite (IHB (or_intror (ex_intro _ T'' eq_refl)) g f (S line));
            [|cbn [app length] in *; lia|cbn [app length] in *; lia].
          f_equal. f_equal. cbn [count_nl]. rewrite Ascii.eqb_refl. lia.
        + assert (Hpre : prefixb intro (d :: T'' ++ clc sp b c) = false).
          { cbn [nophil] in Hnp. apply andb_prop in Hnp as [Hnp _]. rewrite Ascii.eqb_refl in Hnp. cbn [andb] in Hnp.
            apply negb_true_iff in Hnp.
            change (d :: T'' ++ clc sp b c) with ((d :: T'') ++ nl :: intro ++ sp ++ f_on ++ b ++ nl :: c).
            apply prefixb_app_nl; [reflexivity|exact Hnp]. }
          rewrite Hpre. cbn [negb drop].
          destruct (IH T'' ltac:(cbn [length] in Hlen; lia) (nophil_tail _ _ Hnp')) as (IHA2 & _).
          rewrite (IHA2 f (S line)); [|cbn [app length] in *; lia].
          f_equal. f_equal. cbn [count_nl]. rewrite Ascii.eqb_refl, Ed. lia. }
    split.
    + intros f line Hf. destruct f as [|f]; [lia|]. cbn [app sfs].
      destruct (Ascii.eqb c0 nl) eqn:E0; cbn [negb].
      * apply Ascii.eqb_eq in E0. subst c0.
        change (nl :: T' ++ clc sp b c) with ((nl :: T') ++ clc sp b c).
        apply (HB (ex_intro _ T' eq_refl)); [lia|cbn [app length] in *; lia].
      * rewrite (IHA f line); [|cbn [app length] in Hf; lia]. cbn [count_nl]. rewrite E0. reflexivity.
    + intros [E|E]; [discriminate E|]. apply HB; exact E.
Qed.

(* scan_for_start over a region without a "#phil" line, up to and including its closing line *)
Theorem sfs_region : forall sp b c T line, blank sp -> sp <> [] -> blank b -> nophil T = true ->
  sfs (S (length (T ++ clc sp b c))) (T ++ clc sp b c) line = (c, line + count_nl T + 2, Some 1).
Proof.
  intros sp b c T line Hsp Hne Hb Hnp.
  apply (proj1 (sfs_region_gen sp b c Hsp Hne Hb (length T) T (le_n _) Hnp)). lia.
Qed.

Lemma nw_s0_intro : forall d tl line, isspace d = true ->
  nw s0 false (intro ++ d :: tl) line = TWord (mkword intro QN line) (d :: tl) line.
Proof.
  intros d tl line Hd.
  change (intro ++ d :: tl) with ("#" :: s_ "phil" ++ d :: tl).
  cbn [nw]. change (isspace "#") with false. cbv iota.
  change (mem "#" (comment s0)) with true. cbn [andb meta s0].
  change ["p";"h";"i";"l"] with (s_ "phil"). rewrite (prefixb_self (s_ "phil")). cbn [negb].
  change (Ascii.eqb "#" dq || Ascii.eqb "#" sq) with false. cbv iota.
  change (negb (mem "#" (single s0)) && (contig_any s0 || mem "#" (contig s0))) with true. cbv iota.
  rewrite (take_word s0 (s_ "phil") (d :: tl) eq_refl eq_refl); [reflexivity|].
  cbn [delim]. rewrite Hd. reflexivity.
Qed.

Lemma pop_unq_dirword : forall b u tl line, blank b -> unq_ok0 u = true -> tailok s0 tl = true ->
  pop_unq s0 (b ++ u ++ tl) line = Ok (mkword u QN line, tl, line).
Proof.
  intros b u tl line [Hb Hn] Hu Ht. unfold pop_unq, pop.
  rewrite (nw_skip_blanks s0 b _ line Hb), Hn, Nat.add_0_r, (nw_unquoted_s0 u tl line Hu Ht). reflexivity.
Qed.

Lemma blank_head : forall b, blank b -> b <> [] -> exists d b', b = d :: b' /\ isspace d = true.
Proof.
  intros [|d b'] [Hb _] Hne; [congruence|]. cbn [forallb] in Hb. apply andb_prop in Hb as [Hd _].
  exists d, b'. auto.
Qed.

(* "#phil __ON__" on a line other than the previous object's: skipped, the state is unchanged *)
Lemma cobj_dir_on : forall o f b tl line nid stop start prev active acc,
  blank b -> b <> [] -> tailok s0 tl = true -> line <> prev ->
  cobj o (S f) (intro ++ b ++ f_on ++ tl) line nid stop start prev active acc
  = cobj o f tl line nid stop start prev active acc.
Proof.
  intros o f b tl line nid stop start prev active acc Hb Hne Ht Hlp.
  destruct (blank_head b Hb Hne) as (d & b' & -> & Hd).
  pose proof (nw_s0_intro d (b' ++ f_on ++ tl) line Hd) as Hnw.
  pose proof (pop_unq_dirword (d :: b') f_on tl line Hb eq_refl Ht) as Hpop.
  apply Nat.eqb_neq in Hlp.
  cbn [cobj]. change (intro ++ (d :: b') ++ f_on ++ tl) with (intro ++ d :: b' ++ f_on ++ tl). rewrite Hnw.
  cbn [isq wq wv wline]. change (eqs intro intro) with true. rewrite Hlp. cbn [negb andb].
  change (d :: b' ++ f_on ++ tl) with ((d :: b') ++ f_on ++ tl). rewrite Hpop. cbn [bind wv].
  change (eqs f_on f_end) with false. change (eqs f_on f_on) with true. cbv iota. reflexivity.
Qed.

(* "#phil __OFF__ ... #phil __ON__": everything up to and including the closing line is skipped *)
Lemma cobj_dir_off : forall o f b T sp b' c line nid stop start prev active acc,
  blank b -> b <> [] -> tailok s0 (T ++ [nl]) = true -> nophil T = true ->
  blank sp -> sp <> [] -> blank b' -> line <> prev ->
  cobj o (S f) (intro ++ b ++ f_off ++ T ++ clc sp b' c) line nid stop start prev active acc
  = cobj o f c (line + count_nl T + 2) nid stop start prev active acc.
Proof.
  intros o f b T sp b' c line nid stop start prev active acc Hb Hne Ht Hnp Hsp Hspn Hb' Hlp.
  destruct (blank_head b Hb Hne) as (d & b0 & -> & Hd).
  set (r2 := T ++ clc sp b' c).
  assert (Ht2 : tailok s0 r2 = true) by (unfold r2; destruct T; [reflexivity|exact Ht]).
  pose proof (nw_s0_intro d (b0 ++ f_off ++ r2) line Hd) as Hnw.
  pose proof (pop_unq_dirword (d :: b0) f_off r2 line Hb eq_refl Ht2) as Hpop.
  apply Nat.eqb_neq in Hlp.
  cbn [cobj]. change (intro ++ (d :: b0) ++ f_off ++ r2) with (intro ++ d :: b0 ++ f_off ++ r2). rewrite Hnw.
  cbn [isq wq wv wline]. change (eqs intro intro) with true. rewrite Hlp. cbn [negb andb].
  change (d :: b0 ++ f_off ++ r2) with ((d :: b0) ++ f_off ++ r2). rewrite Hpop. cbn [bind wv].
  change (eqs f_off f_end) with false. change (eqs f_off f_on) with false. change (eqs f_off f_off) with true.
  cbn [negb]. cbv iota. unfold r2. rewrite (sfs_region sp b' c T line Hsp Hspn Hb' Hnp). reflexivity.
Qed.

(* "#phil __END__" at the top level: the document ends here, whatever follows *)
Lemma cobj_dir_end : forall o f b junk line nid start prev active acc,
  blank b -> b <> [] -> tailok s0 junk = true -> line <> prev ->
  cobj o (S f) (intro ++ b ++ f_end ++ junk) line nid false start prev active acc
  = Ok (rev (flushed active acc), [], line, nid).
Proof.
  intros o f b junk line nid start prev active acc Hb Hne Ht Hlp.
  destruct (blank_head b Hb Hne) as (d & b' & -> & Hd).
  pose proof (nw_s0_intro d (b' ++ f_end ++ junk) line Hd) as Hnw.
  pose proof (pop_unq_dirword (d :: b') f_end junk line Hb eq_refl Ht) as Hpop.
  apply Nat.eqb_neq in Hlp.
  cbn [cobj]. change (intro ++ (d :: b') ++ f_end ++ junk) with (intro ++ d :: b' ++ f_end ++ junk). rewrite Hnw.
  cbn [isq wq wv wline]. change (eqs intro intro) with true. rewrite Hlp. cbn [negb andb].
  change (d :: b' ++ f_end ++ junk) with ((d :: b') ++ f_end ++ junk). rewrite Hpop. cbn [bind wv].
  change (eqs f_end f_end) with true. cbv iota. destruct active; reflexivity.
Qed.

Lemma dir_starts : forall b tl, blank b -> b <> [] -> StartsB (intro ++ b ++ tl).
Proof.
  intros b tl Hb Hne. destruct (blank_head b Hb Hne) as (d & b' & -> & Hd).
  right. right. exists d, (b' ++ tl). split; [reflexivity|exact Hd].
Qed.

(* ====================================================================================== *)
(* 8. the layout grammar, stage B                                                            *)
(* ====================================================================================== *)

Definition headsp (s:str) : Prop := match s with [] => True | c :: _ => isspace c = true end.

(* [top]: the object list of the document itself (not of a scope); [safe]: right after a
   newline-terminated value *)
Inductive RendersLB : bool -> bool -> list obj -> str -> Prop :=
  | rlb_nil : forall top safe lay, lay_ok safe lay -> RendersLB top safe [] lay
  | rlb_def : forall top safe lay h ws k0 dtext a k atext t ttext,
      lay_ok safe lay -> RendersDefB h ws k0 dtext -> RendersDA k0 [] a k atext -> k <> KEnd ->
      RendersLB top (after k) t ttext ->
      RendersLB top safe (adopt (Def h ws a) :: t) (lay ++ dtext ++ atext ++ ttext)
  | rlb_def_end : forall top safe lay h ws k0 dtext a atext,
      lay_ok safe lay -> RendersDefB h ws k0 dtext -> RendersDA k0 [] a KEnd atext ->
      RendersLB top safe [adopt (Def h ws a)] (lay ++ dtext ++ atext)
  | rlb_scope : forall top safe lay h kids a stxt ktext t ttext,
      lay_ok safe lay -> dhdr_ok false h = true -> RendersSA None [] a stxt ->
      RendersLB false false kids ktext -> RendersLB top false t ttext ->
      RendersLB top safe (adopt (Scp h kids a) :: t)
        (lay ++ bang (odis h) ++ oname h ++ stxt ++ "{" :: ktext ++ "}" :: ttext)
  (* "#phil __ON__" on a new line: layout *)
  | rlb_on : forall top safe lay b t ttext,
      lay_ok safe lay -> 1 <= count_nl lay \/ safe = true -> blank b -> b <> [] -> headsp ttext ->
      RendersLB top false t ttext ->
      RendersLB top safe t (lay ++ intro ++ b ++ f_on ++ ttext)
  (* "#phil __OFF__" on a new line, a region T without a "#phil" line, the closing "#phil __ON__" line *)
  | rlb_off : forall top safe lay b T sp b' t ttext,
      lay_ok safe lay -> 1 <= count_nl lay \/ safe = true -> blank b -> b <> [] ->
      tailok s0 (T ++ [nl]) = true -> nophil T = true -> blank sp -> sp <> [] -> blank b' ->
      RendersLB top false t ttext ->
      RendersLB top safe t (lay ++ intro ++ b ++ f_off ++ T ++ clc sp b' ttext)
  (* "#phil __END__" on a new line of the document's own object list: the rest is ignored *)
  | rlb_end : forall safe lay b junk,
      lay_ok safe lay -> 1 <= count_nl lay \/ safe = true -> blank b -> b <> [] -> tailok s0 junk = true ->
      RendersLB true safe [] (lay ++ intro ++ b ++ f_end ++ junk).

Definition RendersB (t:list obj) (s:str) : Prop := RendersLB true false t s.

Lemma defB_starts : forall h ws k dtext tl, RendersDefB h ws k dtext -> StartsB (dtext ++ tl).
Proof.
  intros h ws k dtext tl H. destruct H as [h ws k b1 vtxt ttxt Hh _ _ _ _ _].
  rewrite <- !app_assoc. apply starts_startsB, name_starts, (hdr_ok_ident true); exact Hh.
Qed.

Lemma renders_headB : forall top safe t text rest, RendersLB top safe t text -> Close rest ->
  exists lay next, text ++ rest = lay ++ next /\ lay_ok safe lay /\ StartsB next.
Proof.
  intros top safe t text rest H Hc.
  destruct H as [top safe lay Hl|top safe lay h ws k0 dtext a k atext t ttext Hl Hd _ _ _
                |top safe lay h ws k0 dtext a atext Hl Hd _
                |top safe lay h kids a stxt ktext t ttext Hl Hh _ _ _
                |top safe lay b t ttext Hl _ Hb Hne _ _
                |top safe lay b T sp b' t ttext Hl _ Hb Hne _ _ _ _ _ _
                |safe lay b junk Hl _ Hb Hne _].
  - exists lay, rest. split; [reflexivity|]. split; [exact Hl|apply starts_startsB, close_starts; exact Hc].
  - exists lay, (dtext ++ (atext ++ ttext) ++ rest). split; [rewrite <- !app_assoc; reflexivity|]. split; [exact Hl|].
    apply (defB_starts h ws k0); exact Hd.
  - exists lay, (dtext ++ atext ++ rest). split; [rewrite <- !app_assoc; reflexivity|]. split; [exact Hl|].
    apply (defB_starts h ws k0); exact Hd.
  - exists lay, (bang (odis h) ++ oname h ++ stxt ++ "{" :: ktext ++ "}" :: ttext ++ rest).
    split; [|split; [exact Hl|apply starts_startsB, name_starts, (hdr_ok_ident false); exact Hh]].
    reassoc. reflexivity.
  - exists lay, (intro ++ b ++ (f_on ++ ttext) ++ rest). split; [rewrite <- !app_assoc; reflexivity|].
    split; [exact Hl|apply dir_starts; assumption].
  - exists lay, (intro ++ b ++ (f_off ++ T ++ clc sp b' ttext) ++ rest). split; [rewrite <- !app_assoc; reflexivity|].
    split; [exact Hl|apply dir_starts; assumption].
  - exists lay, (intro ++ b ++ (f_end ++ junk) ++ rest). split; [rewrite <- !app_assoc; reflexivity|].
    split; [exact Hl|apply dir_starts; assumption].
Qed.

Lemma follow_afterB : forall top k t ttext rest, k <> KEnd -> RendersLB top (after k) t ttext -> Close rest ->
  FollowOKB k (ttext ++ rest).
Proof.
  intros top k t ttext rest Hk H Hc.
  destruct (renders_headB top (after k) t ttext rest H Hc) as (lay & next & -> & H2 & H3).
  apply follow_lay; assumption.
Qed.

(* ====================================================================================== *)
(* 9. soundness, in any state of collect_objects                                             *)
(* ====================================================================================== *)

(* [prev <= line]: the line of the previous object's first token is not ahead of the reader, and it is
   behind right after a newline-terminated value: a directive after a layout with a newline, or right
   after such a value, stands on a line of its own *)
Definition SoundLB (top safe:bool) (t:list obj) (text:str) : Prop :=
  forall orc rest f line nid stop start prev active acc,
  (top = true -> stop = false /\ rest = []) ->
  Close rest -> length (text ++ rest) < f -> prev <= line -> (safe = true -> prev < line) ->
  exists l' line' nid' prev' active' acc',
    flushed active' acc' = rev l' ++ flushed active acc
    /\ map erase_obj l' = map erase_obj t
    /\ line <= line'
    /\ forall g, length rest < g ->
       eqres stop (cobj orc f (text ++ rest) line nid stop start prev active acc)
                  (cobj orc g rest line' nid' stop start prev' active' acc').

Lemma headsp_tailok : forall ttext rest, headsp ttext -> Close rest -> tailok s0 (ttext ++ rest) = true.
Proof.
  intros [|c r] rest H Hc; cbn [app].
  - destruct Hc as [->|(tl & ->)]; reflexivity.
  - cbn [headsp] in H. cbn [tailok]. rewrite H. reflexivity.
Qed.

Theorem rendersB_sound_gen : forall top safe t text, RendersLB top safe t text -> SoundLB top safe t text.
Proof.
  intros top safe t text H.
  induction H as [top safe lay Hl|top safe lay h ws k0 dtext a k atext t ttext Hl Hd Ha Hk Ht IH
                 |top safe lay h ws k0 dtext a atext Hl Hd Ha
                 |top safe lay h kids a stxt ktext t ttext Hl Hh Hsa Hks IHk Ht IHt
                 |top safe lay b t ttext Hl Hnl Hb Hne Hsp Ht IH
                 |top safe lay b T sp b' t ttext Hl Hnl Hb Hne HT0 Hnp Hsp Hspn Hb' Ht IH
                 |safe lay b junk Hl Hnl Hb Hne Hj];
    intros orc rest f line nid stop start prev active acc Htop Hc Hf Hpl Hps.
  - (* nothing but layout *)
    exists [], (line + count_nl lay), nid, prev, active, acc. split; [reflexivity|]. split; [reflexivity|].
    split; [lia|].
    intros g Hg. apply cobj_pos_eq; [apply layout_nw, (lay_ok_layout safe); exact Hl|exact Hf|exact Hg].
  - (* a definition with its attribute lines, then more *)
    set (Y := ttext ++ rest).
    set (X := atext ++ Y).
    assert (HT : (lay ++ dtext ++ atext ++ ttext) ++ rest = lay ++ dtext ++ X)
      by (unfold X, Y; rewrite <- !app_assoc; reflexivity).
    rewrite HT in *.
    set (line1 := line + count_nl lay).
    pose proof (follow_afterB top k t ttext rest Hk Ht Hc) as HY. fold Y in HY.
    pose proof (da_follow _ _ _ _ _ Ha Y HY) as HX. fold X in HX.
    destruct (cobj_defB_render h ws k0 dtext X Hd HX line1)
      as (ws' & s' & l1 & l2 & Hnl & Hpos & HL2 & HL3 & Hlen & Hcd).
    set (hd0 := mkhdr (oname h) (odis h) 0 false nid line1) in *.
    destruct (da_sound _ _ _ _ _ Ha Y HY orc (S (length X)) l2 (S nid) stop start line1 hd0 ws' (flushed active acc)
                (Nat.lt_succ_diag_r _) HL2 HL3) as (line2 & prev2 & Hpl2 & Hll2 & Hps2 & Hda).
    set (d' := adopt (Def hd0 ws' a)) in *.
    destruct (IH orc rest (S (length Y)) line2 (S nid) stop start prev2 (Some d') (flushed active acc) Htop Hc
                (Nat.lt_succ_diag_r _) Hpl2)
      as (l' & line' & nid' & prev' & active' & acc' & Hfl & Hera & Hll' & Hcc).
    { intros E. apply Hps2. destruct k; try discriminate E; reflexivity. }
    exists (d' :: l'), line', nid', prev', active', acc'. split; [|split; [|split]].
    + rewrite Hfl. cbn [flushed rev]. rewrite <- app_assoc. reflexivity.
    + cbn [map]. unfold d', hd0. destruct Hd as [h ws k0 b1 vtxt ttxt Hh _ _ _ _ _].
      destruct (dhdr_ok_facts true h Hh) as (_ & _ & Htm & Hmg & _).
      rewrite (erase_def_written h ws ws' a nid line1 Htm Hmg Hnl), Hera. reflexivity.
    + unfold line1 in HL2. lia.
    + intros g Hg.
      eapply eqres_trans.
      { apply (cobj_pos_eq orc f (S (S (length (dtext ++ X)))) (lay ++ dtext ++ X) line (dtext ++ X) line1);
          [apply layout_nw, (lay_ok_layout safe); exact Hl|exact Hf|lia]. }
      rewrite Hcd.
      eapply eqres_trans.
      { apply (cobj_pos_eq orc (S (length (dtext ++ X))) (S (length X)) s' l1 X l2); [exact Hpos|lia|lia]. }
      eapply eqres_trans; [apply (Hda (S (length Y)) (Nat.lt_succ_diag_r _))|].
      apply Hcc; exact Hg.
  - (* the last definition (with its attribute lines), ended by a closing brace or the end *)
    set (X := atext ++ rest).
    assert (HT : (lay ++ dtext ++ atext) ++ rest = lay ++ dtext ++ X)
      by (unfold X; rewrite <- !app_assoc; reflexivity).
    rewrite HT in *.
    set (line1 := line + count_nl lay).
    assert (HY : FollowOKB KEnd rest) by (apply close_closeB; exact Hc).
    pose proof (da_follow _ _ _ _ _ Ha rest HY) as HX. fold X in HX.
    destruct (cobj_defB_render h ws k0 dtext X Hd HX line1)
      as (ws' & s' & l1 & l2 & Hnl & Hpos & HL2 & HL3 & Hlen & Hcd).
    set (hd0 := mkhdr (oname h) (odis h) 0 false nid line1) in *.
    destruct (da_sound _ _ _ _ _ Ha rest HY orc (S (length X)) l2 (S nid) stop start line1 hd0 ws' (flushed active acc)
                (Nat.lt_succ_diag_r _) HL2 HL3) as (line2 & prev2 & Hpl2 & Hll2 & _ & Hda).
    set (d' := adopt (Def hd0 ws' a)) in *.
    exists [d'], line2, (S nid), prev2, (Some d'), (flushed active acc). split; [reflexivity|]. split; [|split].
    + cbn [map]. unfold d', hd0. destruct Hd as [h ws k0 b1 vtxt ttxt Hh _ _ _ _ _].
      destruct (dhdr_ok_facts true h Hh) as (_ & _ & Htm & Hmg & _).
      rewrite (erase_def_written h ws ws' a nid line1 Htm Hmg Hnl). reflexivity.
    + unfold line1 in HL2. lia.
    + intros g Hg.
      eapply eqres_trans.
      { apply (cobj_pos_eq orc f (S (S (length (dtext ++ X)))) (lay ++ dtext ++ X) line (dtext ++ X) line1);
          [apply layout_nw, (lay_ok_layout safe); exact Hl|exact Hf|lia]. }
      rewrite Hcd.
      eapply eqres_trans.
      { apply (cobj_pos_eq orc (S (length (dtext ++ X))) (S (length X)) s' l1 X l2); [exact Hpos|lia|lia]. }
      apply (Hda g Hg).
  - (* a scope with its attribute lines, then more *)
    destruct (dhdr_ok_facts false h Hh) as (Hid & Hpre & Htm & Hmg & Hres).
    set (n := oname h) in *. set (dis := odis h) in *.
    set (line1 := line + count_nl lay).
    set (Y := ttext ++ rest).
    set (restk := "}" :: Y).
    set (body := ktext ++ restk).
    set (hdrtail := stxt ++ "{" :: body).
    set (X0 := bang dis ++ n ++ hdrtail).
    assert (HT : (lay ++ bang dis ++ n ++ stxt ++ "{" :: ktext ++ "}" :: ttext) ++ rest = lay ++ X0).
    { unfold X0, hdrtail, body, restk, Y. reassoc. reflexivity. }
    rewrite HT in *.
    set (F := S (length X0)).
    destruct (sa_sound _ _ _ _ Hsa orc body line1) as (w & r2 & l2 & l0 & Hnw & Hq & Htest & HL0 & Hsat).
    fold hdrtail in Hnw.
    set (bw := mkword ["{"] QN l0) in *.
    assert (Hck : Close restk) by (right; exists Y; reflexivity).
    assert (HbF : length body < F).
    { unfold F, X0, hdrtail. alen. lia. }
    assert (HYF : length Y < F).
    { unfold F, X0, hdrtail, body, restk. alen. lia. }
    destruct (IHk orc restk F l0 (S nid) true (Some bw) 0 None [] ltac:(discriminate) Hck HbF (Nat.le_0_l _) ltac:(discriminate))
      as (ks' & lk & nk & pk & ak & acck & Hflk & Herk & Hllk & Hck2).
    cbn [flushed] in Hflk. rewrite app_nil_r in Hflk.
    assert (Hin : cobj orc F body l0 (S nid) true (Some bw) 0 None [] = Ok (ks', Y, lk, nk)).
    { specialize (Hck2 (S (length restk)) (Nat.lt_succ_diag_r _)). cbn [eqres] in Hck2. fold body in Hck2.
      rewrite Hck2. unfold restk.
      pose proof (cobj_close_brace orc (length ("}" :: Y)) [] Y lk nk (Some bw) pk ak acck blank_nil) as Hcb.
      cbn [app] in Hcb. rewrite Hcb, Hflk, rev_involutive. reflexivity. }
    set (sc := adopt (Scp (mkhdr n dis 0 false nid line1) ks' a)).
    destruct (IHt orc rest F lk nk stop start line1 None (sc :: flushed active acc) Htop Hc HYF)
      as (l' & line' & nid' & prev' & active' & acc' & Hfl & Hera & Hll' & Hcc); [lia|discriminate|].
    exists (sc :: l'), line', nid', prev', active', acc'. split; [|split; [|split]].
    + rewrite Hfl. cbn [flushed rev]. rewrite <- app_assoc. reflexivity.
    + cbn [map]. unfold sc. rewrite !erase_obj_adoptB. cbn [erase_obj]. unfold n, dis.
      rewrite (erase_hdr_written h nid line1 Htm Hmg), Herk, Hera. reflexivity.
    + unfold line1 in HL0. lia.
    + intros g Hg.
      eapply eqres_trans.
      { apply (cobj_pos_eq orc f (S F) (lay ++ X0) line X0 line1);
          [apply layout_nw, (lay_ok_layout safe); exact Hl|exact Hf|unfold F; lia]. }
      unfold X0 at 1.
      rewrite (cobj_scope_headB orc F dis n hdrtail line1 nid stop start prev active acc
                 w r2 l2 a bw body l0 ks' Y lk nk Hid Hres Hpre
                 (sa_tailok [] a stxt body Hsa) Hnw Hq Htest (Hsat (S (length r2)) (Nat.lt_succ_diag_r _)) Hin).
      fold sc. apply Hcc; exact Hg.
  - (* "#phil __ON__" *)
    set (Y := ttext ++ rest).
    set (D := intro ++ b ++ f_on ++ Y).
    assert (HT : (lay ++ intro ++ b ++ f_on ++ ttext) ++ rest = lay ++ D)
      by (unfold D, Y; rewrite <- !app_assoc; reflexivity).
    rewrite HT in *.
    set (line1 := line + count_nl lay).
    destruct (IH orc rest (S (length D)) line1 nid stop start prev active acc Htop Hc)
      as (l' & line' & nid' & prev' & active' & acc' & Hfl & Hera & Hll' & Hcc).
    { fold Y. unfold D. alen. lia. }
    { unfold line1. lia. }
    { discriminate. }
    assert (Hlp : line1 <> prev) by (unfold line1; destruct Hnl as [Hnl|Hnl]; [lia|specialize (Hps Hnl); lia]).
    exists l', line', nid', prev', active', acc'. split; [exact Hfl|]. split; [exact Hera|].
    split; [unfold line1 in Hll'; lia|].
    intros g Hg.
    eapply eqres_trans.
    { apply (cobj_pos_eq orc f (S (S (length D))) (lay ++ D) line D line1);
        [apply layout_nw, (lay_ok_layout safe); exact Hl|exact Hf|lia]. }
    unfold D at 2.
    rewrite (cobj_dir_on orc (S (length D)) b Y line1 nid stop start prev active acc Hb Hne
               (headsp_tailok ttext rest Hsp Hc) Hlp).
    apply Hcc; exact Hg.
  - (* "#phil __OFF__" ... "#phil __ON__" *)
    set (Y := ttext ++ rest).
    set (D := intro ++ b ++ f_off ++ T ++ clc sp b' Y).
    assert (HT : (lay ++ intro ++ b ++ f_off ++ T ++ clc sp b' ttext) ++ rest = lay ++ D).
    { unfold D, Y, clc. reassoc. reflexivity. }
    rewrite HT in *.
    set (line1 := line + count_nl lay).
    destruct (IH orc rest (S (length D)) (line1 + count_nl T + 2) nid stop start prev active acc Htop Hc)
      as (l' & line' & nid' & prev' & active' & acc' & Hfl & Hera & Hll' & Hcc).
    { fold Y. unfold D, clc. alen. lia. }
    { unfold line1. lia. }
    { discriminate. }
    assert (Hlp : line1 <> prev) by (unfold line1; destruct Hnl as [Hnl|Hnl]; [lia|specialize (Hps Hnl); lia]).
    exists l', line', nid', prev', active', acc'. split; [exact Hfl|]. split; [exact Hera|].
    split; [unfold line1 in Hll'; lia|].
    intros g Hg.
    eapply eqres_trans.
    { apply (cobj_pos_eq orc f (S (S (length D))) (lay ++ D) line D line1);
        [apply layout_nw, (lay_ok_layout safe); exact Hl|exact Hf|lia]. }
    unfold D at 2.
    rewrite (cobj_dir_off orc (S (length D)) b T sp b' Y line1 nid stop start prev active acc Hb Hne HT0 Hnp Hsp Hspn Hb' Hlp).
    apply Hcc; exact Hg.
  - (* "#phil __END__" *)
    destruct (Htop eq_refl) as (-> & ->).
    set (D := intro ++ b ++ f_end ++ junk) in *.
    rewrite app_nil_r in *.
    set (line1 := line + count_nl lay).
    assert (Hlp : line1 <> prev) by (unfold line1; destruct Hnl as [Hnl|Hnl]; [lia|specialize (Hps Hnl); lia]).
    exists [], line1, nid, prev, active, acc. split; [reflexivity|]. split; [reflexivity|].
    split; [unfold line1; lia|].
    intros g Hg.
    pose proof (cobj_pos_eq orc f (S (S (length D))) (lay ++ D) line D line1 nid false start prev active acc
                  (layout_nw lay (lay_ok_layout safe lay Hl) D line) Hf ltac:(lia)) as H1.
    cbn [eqres] in H1 |- *. rewrite H1. unfold D at 2.
    rewrite (cobj_dir_end orc (S (length D)) b junk line1 nid start prev active acc Hb Hne Hj Hlp).
    destruct g as [|g]; [cbn [length] in Hg; lia|]. cbn [cobj nw cobj_noline]. destruct active; reflexivity.
Qed.

(* ====================================================================================== *)
(* 10. the theorems                                                                          *)
(* ====================================================================================== *)

(* every rendering of t parses to t: names, nesting, order, disabled flags, is_template, merge_names,
   word texts, quote styles and attributes; only primary ids and line numbers are erased *)
Lemma rendersB_sound_at : forall o t s f line, RendersB t s -> length s < f -> 1 <= line ->
  exists l nid', cobj_noline (cobj o f s line 1 false None 0 None []) = Ok (l, [], nid')
                 /\ map erase_obj l = map erase_obj t.
Proof.
  intros o t s f line H Hf Hline.
  destruct (rendersB_sound_gen true false t s H o [] f line 1 false None 0 None [])
    as (l' & line' & nid' & prev' & active' & acc' & Hfl & Her & _ & Hc).
  { intros _. split; reflexivity. }
  { left; reflexivity. }
  { rewrite app_nil_r. exact Hf. }
  { lia. }
  { discriminate. }
  exists l', nid'. split; [|exact Her].
  specialize (Hc 1 (Nat.lt_succ_diag_r _)). cbn [eqres] in Hc. rewrite app_nil_r in Hc.
  rewrite Hc. cbn [cobj nw cobj_noline].
  change (match active' with Some d => d :: acc' | None => acc' end) with (flushed active' acc').
  rewrite Hfl. cbn [flushed]. rewrite app_nil_r, rev_involutive. reflexivity.
Qed.

(* every rendering of t parses to t: names, nesting, order, disabled flags, is_template, merge_names,
   word texts, quote styles and attributes; only primary ids and line numbers are erased *)
Theorem rendersB_sound : forall o t s, RendersB t s ->
  exists l, parse o s = Ok l /\ map erase_obj l = map erase_obj t.
Proof.
  intros o t s H.
  destruct (rendersB_sound_at o t s (S (S (length s))) 1 H) as (l & nid' & Hc & He); [lia|lia|].
  exists l. split; [|exact He]. rewrite parse_noline, Hc. reflexivity.
Qed.

(* a directive at the very start of the document needs no newline in front (the grammar's own
   directive constructors demand one, or a newline-terminated value, in front) *)
Theorem rendersB_sound_leading_off : forall o t s b T sp b',
  RendersB t s -> blank b -> b <> [] -> tailok s0 (T ++ [nl]) = true -> nophil T = true ->
  blank sp -> sp <> [] -> blank b' ->
  exists l, parse o (intro ++ b ++ f_off ++ T ++ clc sp b' s) = Ok l /\ map erase_obj l = map erase_obj t.
Proof.
  intros o t s b T sp b' H Hb Hne HT Hnp Hsp Hspn Hb'.
  set (doc := intro ++ b ++ f_off ++ T ++ clc sp b' s).
  destruct (rendersB_sound_at o t s (S (length doc)) (1 + count_nl T + 2) H) as (l & nid' & Hc & He); [|lia|].
  { unfold doc, clc. alen. lia. }
  exists l. split; [|exact He]. rewrite parse_noline. fold doc. unfold doc at 2.
  rewrite (cobj_dir_off o (S (length doc)) b T sp b' s 1 1 false None 0 None [] Hb Hne HT Hnp Hsp Hspn Hb') by lia.
  rewrite Hc. reflexivity.
Qed.
Theorem rendersB_sound_leading_on : forall o t s b,
  RendersB t s -> blank b -> b <> [] -> headsp s ->
  exists l, parse o (intro ++ b ++ f_on ++ s) = Ok l /\ map erase_obj l = map erase_obj t.
Proof.
  intros o t s b H Hb Hne Hs.
  set (doc := intro ++ b ++ f_on ++ s).
  destruct (rendersB_sound_at o t s (S (length doc)) 1 H) as (l & nid' & Hc & He); [|lia|].
  { unfold doc. alen. lia. }
  exists l. split; [|exact He]. rewrite parse_noline. fold doc. unfold doc at 2.
  assert (Ht : tailok s0 s = true).
  { rewrite <- (app_nil_r s). apply headsp_tailok; [exact Hs|left; reflexivity]. }
  rewrite (cobj_dir_on o (S (length doc)) b s 1 1 false None 0 None [] Hb Hne Ht) by lia.
  rewrite Hc. reflexivity.
Qed.

(* however one abstract tree (attributes included) is laid out, the parser builds the same tree *)
Theorem renderingsB_agree : forall o t s1 s2, RendersB t s1 -> RendersB t s2 ->
  exists l1 l2, parse o s1 = Ok l1 /\ parse o s2 = Ok l2 /\ map erase_obj l1 = map erase_obj l2.
Proof.
  intros o t s1 s2 H1 H2.
  destruct (rendersB_sound o t s1 H1) as (l1 & Hp1 & He1).
  destruct (rendersB_sound o t s2 H2) as (l2 & Hp2 & He2).
  exists l1, l2. split; [exact Hp1|]. split; [exact Hp2|]. rewrite He1, He2. reflexivity.
Qed.

Print Assumptions rendersB_sound.
Print Assumptions renderingsB_agree.
Print Assumptions rendersB_sound_leading_off.
Print Assumptions rendersB_sound_leading_on.

(* ====================================================================================== *)
(* 11. stage A is included; the printer's output at every width is a rendering              *)
(* ====================================================================================== *)

Fixpoint noattr (o:obj) : obj :=
  match o with Def h ws _ => Def h ws [] | Scp h ks _ => Scp h (map noattr ks) [] end.

Lemma noattr_wrap : forall comps first x, noattr (wrap_dotted first comps x) = wrap_dotted first comps (noattr x).
Proof.
  induction comps as [|c rest IH]; intros first x; [reflexivity|].
  destruct rest as [|c2 rest].
  - cbn [wrap_dotted]. destruct first; [reflexivity|]. destruct x; reflexivity.
  - change (wrap_dotted first (c :: c2 :: rest) x)
      with (Scp (mkhdr c false 0 (negb first) (opid (ohdr x)) 0) [wrap_dotted false (c2 :: rest) x] []).
    change (wrap_dotted first (c :: c2 :: rest) (noattr x))
      with (Scp (mkhdr c false 0 (negb first) (opid (ohdr (noattr x))) 0) [wrap_dotted false (c2 :: rest) (noattr x)] []).
    cbn [noattr map]. rewrite IH. destruct x; reflexivity.
Qed.
Lemma noattr_adopt : forall x, noattr (adopt x) = adopt (noattr x).
Proof.
  intros x. unfold adopt. rewrite noattr_wrap.
  replace (oname (ohdr (noattr x))) with (oname (ohdr x)) by (destruct x; reflexivity). reflexivity.
Qed.
Lemma erase_noattr : forall o, erase_obj (noattr o) = erase_all o.
Proof.
  intros o; induction o as [h ws a|h ks a IH] using obj_ind2; [reflexivity|].
  cbn [noattr erase_obj erase_all]. f_equal. rewrite map_map.
  induction IH as [|k r Hk Hr IHr]; [reflexivity|]. cbn [map]. rewrite Hk, IHr. reflexivity.
Qed.
Lemma map_erase_noattr : forall l, map erase_obj (map noattr l) = map erase_all l.
Proof. intros l. rewrite map_map. apply map_ext. exact erase_noattr. Qed.

Lemma defA_defB : forall d k dtext, RendersDef d k dtext ->
  exists h ws a, d = Def h ws a /\ RendersDefB h ws k dtext.
Proof.
  intros d k dtext H. destruct H as [h w ws a k b1 b2 wtxt ttxt Hh Hwok Hb1 Hb2 Hws Ht].
  exists h, (w :: ws), a. split; [reflexivity|].
  unfold words_ok in Hwok. apply andb_prop in Hwok as [Hok Hlines].
  cbn [lines_ok] in Hlines. apply andb_prop in Hlines as [_ Hlines].
  replace (bang (odis h) ++ oname h ++ b1 ++ "=" :: b2 ++ str_of_word w ++ wtxt ++ ttxt)
    with (bang (odis h) ++ oname h ++ b1 ++ "=" :: (b2 ++ str_of_word w ++ wtxt) ++ ttxt) by (reassoc; reflexivity).
  constructor; try assumption; [discriminate|].
  apply rwb_word; [exact Hb2|left; reflexivity|apply orb_true_r|apply rw_rwb; assumption].
Qed.

Lemma sep_ok_blanks : forall sep, forallb isspace sep = true -> sep_ok None false sep.
Proof.
  intros sep H. split; [apply layout_blanks; exact H|]. destruct sep as [|c r]; [reflexivity|].
  cbn [forallb] in H. apply andb_prop in H as [H _]. exact H.
Qed.

(* every stage A rendering is a stage B rendering (of the tree without attributes) *)
Theorem renders_rendersB_gen : forall safe t s, RendersL safe t s -> forall top, RendersLB top safe (map noattr t) s.
Proof.
  intros safe t s H.
  induction H as [safe lay Hl|safe lay d k dtext t ttext Hl Hd Hk Ht IH|safe lay d dtext Hl Hd
                 |safe lay h kids a sep ktext t ttext Hl Hh Hsep Hks IHk Ht IHt]; intros top.
  - constructor. exact Hl.
  - destruct (defA_defB d k dtext Hd) as (h & ws & a & -> & HdB).
    cbn [map]. rewrite noattr_adopt. cbn [noattr].
    change (lay ++ dtext ++ ttext) with (lay ++ dtext ++ [] ++ ttext).
    apply (rlb_def top safe lay h ws k dtext [] k []); try assumption; [constructor|apply IH].
  - destruct (defA_defB d KEnd dtext Hd) as (h & ws & a & -> & HdB).
    cbn [map]. rewrite noattr_adopt. cbn [noattr].
    replace (lay ++ dtext) with (lay ++ dtext ++ []) by (rewrite app_nil_r; reflexivity).
    apply (rlb_def_end top safe lay h ws KEnd dtext [] []); try assumption. constructor.
  - cbn [map]. rewrite noattr_adopt. cbn [noattr].
    apply rlb_scope; try assumption; [apply rsa_brace; apply sep_ok_blanks; exact Hsep|apply IHk|apply IHt].
Qed.
Corollary renders_rendersB : forall t s, Renders t s -> RendersB (map noattr t) s.
Proof. intros t s H. apply renders_rendersB_gen. exact H. Qed.

(* the first layout of a rendering may be weakened / extended in front *)
Lemma rendersB_lead : forall top s1 s2 t x (f:str -> str),
  (forall lay tl, f (lay ++ tl) = f lay ++ tl) ->
  (forall lay, lay_ok s1 lay -> lay_ok s2 (f lay) /\
                (1 <= count_nl lay \/ s1 = true -> 1 <= count_nl (f lay) \/ s2 = true)) ->
  RendersLB top s1 t x -> RendersLB top s2 t (f x).
Proof.
  intros top s1 s2 t x f Hf Hl H.
  destruct H as [top s1 lay Hlay|top s1 lay h ws k0 dtext a k atext t' ttext Hlay Hd Ha Hk Ht
                |top s1 lay h ws k0 dtext a atext Hlay Hd Ha
                |top s1 lay h kids a stxt ktext t' ttext Hlay Hh Hsa Hks Ht
                |top s1 lay b t ttext Hlay Hnl Hb Hne Hsp Ht
                |top s1 lay b T sp b' t ttext Hlay Hnl Hb Hne HT0 Hnp Hsp Hspn Hb' Ht
                |s1 lay b junk Hlay Hnl Hb Hne Hj];
    destruct (Hl lay Hlay) as (Hl1 & Hl2).
  - constructor. exact Hl1.
  - rewrite Hf. apply rlb_def with (k0 := k0) (k := k); assumption.
  - rewrite Hf. apply rlb_def_end with (k0 := k0); assumption.
  - rewrite Hf. apply rlb_scope; assumption.
  - rewrite Hf. apply rlb_on; try assumption. auto.
  - rewrite Hf. apply rlb_off; try assumption. auto.
  - rewrite Hf. apply rlb_end; try assumption. auto.
Qed.
Lemma rendersB_after_nl : forall top t x, RendersLB top true t x -> RendersLB top false t (nl :: x).
Proof.
  intros top t x H. apply (rendersB_lead top true false t x (fun s => nl :: s)); [reflexivity| |exact H].
  intros lay Hlay. split; [apply (lay_ok_cons false); [reflexivity|apply slayout_layout; exact Hlay]|].
  intros _. left. rewrite count_nl_cons. change (nlc nl) with 1. lia.
Qed.
(* a blank in front of any rendering *)
Lemma rendersB_blank_front : forall top safe d t x, isspace d = true -> RendersLB top safe t x -> RendersLB top safe t (d :: x).
Proof.
  intros top safe d t x Hd H. apply (rendersB_lead top safe safe t x (fun s => d :: s)); [reflexivity| |exact H].
  intros lay Hlay. split; [apply lay_ok_cons; assumption|]. rewrite count_nl_cons. intros [H1|H1]; [left; lia|right; exact H1].
Qed.

(* the printer's value text: every line break is a continuation *)
Lemma vtail_rendersB : forall indent width rest, blank indent ->
  forall ws cur prevnl, lines_ok prevnl ws = true -> (mem nl cur = false -> prevnl = 0) ->
  exists vt, vtail ws cur indent width rest = vt ++ nl :: rest /\ RendersWordsB false prevnl ws vt.
Proof.
  intros indent width rest [Hib Hinl]; induction ws as [|w r IH]; intros cur prevnl Hlines Hcur.
  - exists []. split; [reflexivity|constructor].
  - cbn [lines_ok] in Hlines. apply andb_prop in Hlines as [Hl1 Hlines]. cbn [vtail].
    destruct (brk w cur indent width) eqn:Eb.
    + unfold brk in Eb. apply andb_prop in Eb as [_ Eb]. apply negb_true_iff in Eb.
      destruct (IH (indent ++ " " :: str_of_word w) (count_nl (wv w)) Hlines (mem_nl_cur indent w)) as (vt & Hv & Hr).
      exists ([" "] ++ (bs :: nl :: indent ++ [" "]) ++ str_of_word w ++ vt). split.
      * rewrite Hv. reassoc. reflexivity.
      * apply rwb_cont; [split; reflexivity|right; discriminate|exact (Hcur Eb)| |exact Hr].
        apply cs_one; [|discriminate]. cbn [forallb]. rewrite forallb_app, Hib. reflexivity.
    + destruct (IH (cur ++ " " :: str_of_word w) (count_nl (wv w)) Hlines (mem_nl_cur cur w)) as (vt & Hv & Hr).
      exists ([" "] ++ str_of_word w ++ vt). split.
      * rewrite Hv. reassoc. reflexivity.
      * apply rwb_word; [split; reflexivity|right; discriminate|exact Hl1|exact Hr].
Qed.

Definition PRB (w:Z) (o:obj) : Prop := forall top p safe pre t ttext,
  tree_ok o = true -> blank p -> lay_ok safe pre ->
  RendersLB top true t ttext -> RendersLB top safe (noattr o :: t) (pre ++ txt w p o ++ ttext).

Lemma PRLB_of_PRB : forall w l, Forall (PRB w) l -> forall top p safe pre final,
  forallb tree_ok l = true -> blank p -> lay_ok safe pre ->
  forallb isspace final = true ->
  RendersLB top safe (map noattr l) (pre ++ txts w p l ++ final).
Proof.
  intros w l H; induction H as [|o r Ho Hr IH]; intros top p safe pre final Hok Hp Hpre Hfin.
  - cbn [txts flat_map app map]. constructor. apply lay_ok_app_blanks; assumption.
  - cbn [forallb] in Hok. apply andb_prop in Hok as [Ho1 Ho2].
    unfold txts. cbn [flat_map map]. rewrite <- app_assoc.
    apply Ho; try assumption.
    apply (IH top p true [] final Ho2 Hp); [constructor|exact Hfin].
Qed.

Theorem PRB_all : forall w o, PRB w o.
Proof.
  intros w o; induction o as [h ws a|h ks a IH] using obj_ind2; intros top p safe pre t ttext Hok Hp Hpre Ht.
  - cbn [tree_ok] in Hok. apply andb_prop in Hok as [Hok Hwok]. apply andb_prop in Hok as [Hok Hne].
    apply andb_prop in Hok as [Hh _].
    unfold words_ok in Hwok. apply andb_prop in Hwok as [Hwo Hlines].
    cbn [txt noattr].
    set (dis := odis h) in *. set (n := oname h) in *.
    destruct (vtail_rendersB (def_indent p dis n) w ttext) with (ws := ws) (cur := def_cur p dis n) (prevnl := 0)
      as (vt & Hv & Hr); [|exact Hlines|reflexivity|].
    { unfold def_indent. apply blank_app; [exact Hp|apply blank_spaces]. }
    assert (HT : pre ++ show_words ws (def_cur p dis n) (def_indent p dis n) w ++ ttext
                 = (pre ++ p) ++ (bang dis ++ n ++ [" "] ++ "=" :: vt ++ ([] ++ [nl])) ++ [] ++ ttext).
    { rewrite show_words_vtail, Hv. unfold def_cur. reassoc. reflexivity. }
    rewrite HT. rewrite <- (hdr_ok_adopt (Def h ws []) Hh).
    apply rlb_def with (k0 := KNl) (k := KNl).
    + apply lay_ok_app_blanks; [exact Hpre|apply Hp].
    + unfold dis, n. constructor; [apply hdr_ok_dhdr; exact Hh| |exact Hwo|split; reflexivity|
                                   apply (rwb_first false); exact Hr|constructor; split; reflexivity].
      destruct ws; [discriminate Hne|discriminate].
    + constructor.
    + discriminate.
    + exact Ht.
  - cbn [tree_ok] in Hok. apply andb_prop in Hok as [Hh Hks].
    cbn [txt noattr].
    set (dis := odis h) in *. set (n := oname h) in *.
    set (p2 := p ++ s_ "  ") in *.
    assert (Hp2 : blank p2) by (apply blank_app; [exact Hp|split; reflexivity]).
    assert (HT : pre ++ (line (p ++ bang dis ++ n ++ s_ " {") ++ flat_map (txt w p2) ks ++ line (p ++ ["}"])) ++ ttext
                 = (pre ++ p) ++ bang dis ++ n ++ [" "] ++ "{" :: ([nl] ++ txts w p2 ks ++ p) ++ "}" :: (nl :: ttext)).
    { unfold line, txts. reassoc. reflexivity. }
    rewrite HT. unfold dis, n. rewrite <- (hdr_ok_adopt (Scp h (map noattr ks) []) Hh). apply rlb_scope.
    + apply lay_ok_app_blanks; [exact Hpre|apply Hp].
    + apply hdr_ok_dhdr; exact Hh.
    + apply rsa_brace. apply sep_ok_blanks. reflexivity.
    + apply (PRLB_of_PRB w ks IH false p2 false [nl] p Hks Hp2); [|apply Hp].
      apply (layout_blanks [nl]). reflexivity.
    + apply rendersB_after_nl; exact Ht.
Qed.

(* the printer's level-0 text of a tree of the round-trip domain, at EVERY width (wrapped values
   included), is a stage B rendering of that tree without its attributes (level 0 prints none) *)
Theorem show_rendersB_wrapped : forall l w text,
  forallb tree_ok l = true -> as_str l [] None 0 w = Ok text -> RendersB (map noattr l) text.
Proof.
  intros l w text Hok H. rewrite (as_str_level0_total l w Hok) in H. inversion H; subst text. clear H.
  fold (width_of w).
  pose proof (PRLB_of_PRB (width_of w) l) as HP.
  specialize (HP ltac:(apply Forall_forall; intros o _; apply PRB_all) true [] false [] [] Hok blank_nil).
  cbn [app] in HP. rewrite app_nil_r in HP. apply HP; [constructor|reflexivity].
Qed.
(* hence C01's level-0 round trip, now as a corollary of the layout grammar *)
Corollary parse_show_via_grammar : forall o l w text,
  forallb tree_ok l = true -> as_str l [] None 0 w = Ok text ->
  exists l', parse o text = Ok l' /\ map erase_obj l' = map erase_all l.
Proof.
  intros o l w text Hok H.
  destruct (rendersB_sound o _ _ (show_rendersB_wrapped l w text Hok H)) as (l' & Hp & He).
  exists l'. split; [exact Hp|]. rewrite He. apply map_erase_noattr.
Qed.
Print Assumptions renders_rendersB.
Print Assumptions show_rendersB_wrapped.
Print Assumptions parse_show_via_grammar.

(* ====================================================================================== *)
(* 12. the grammar as a generator: concrete syntax trees with explicit layout choices        *)
(* ====================================================================================== *)

(* a separator in front of a value word: blanks, or blanks + a chain of backslashes each followed by
   the given whitespace run *)
Inductive sepc := SBlank (b:str) | SCont (b:str) (cs:list str).
Definition cs_txt (cs:list str) : str := flat_map (fun c => bs :: c) cs.
Definition render_sep (s:sepc) : str := match s with SBlank b => b | SCont b cs => b ++ cs_txt cs end.
Definition wspb (c:str) : bool := forallb isspace c && negb (is_nil c).
Definition sep_okb (first:bool) (prevnl:nat) (q:bool) (s:sepc) : bool :=
  match s with
  | SBlank b => blankb b && (first || negb (is_nil b)) && (q || (prevnl =? 0)%nat)
  | SCont b cs => blankb b && (first || negb (is_nil b)) && (prevnl =? 0)%nat && negb (is_nil cs) && forallb wspb cs
  end.
Definition value := list (sepc * word).
Definition value_txt (v:value) : str := flat_map (fun p => render_sep (fst p) ++ str_of_word (snd p)) v.
Fixpoint value_okb (first:bool) (prevnl:nat) (v:value) : bool :=
  match v with
  | [] => true
  | (s, w) :: r => sep_okb first prevnl (isq w) s && word_ok w && value_okb false (count_nl (wv w)) r
  end.

Lemma cs_txt_contsep : forall cs, is_nil cs = false -> forallb wspb cs = true -> contsep (cs_txt cs).
Proof.
  induction cs as [|c r IH]; intros Hne Hall; [discriminate Hne|].
  cbn [forallb] in Hall. apply andb_prop in Hall as [Hc Hr]. unfold wspb in Hc. apply andb_prop in Hc as [Hc1 Hc2].
  assert (Hcn : c <> []) by (destruct c; [discriminate Hc2|discriminate]).
  unfold cs_txt. cbn [flat_map]. destruct r as [|c2 r].
  - cbn [flat_map]. rewrite app_nil_r. apply cs_one; assumption.
  - change ((bs :: c) ++ flat_map (fun c0 => bs :: c0) (c2 :: r)) with (bs :: c ++ cs_txt (c2 :: r)).
    apply cs_more; [exact Hc1|exact Hcn|apply IH; [reflexivity|exact Hr]].
Qed.

Lemma first_or : forall first (b:str), first || negb (is_nil b) = true -> first = true \/ b <> [].
Proof.
  intros first b H. apply orb_prop in H as [H|H]; [left; exact H|right]. destruct b; [discriminate H|discriminate].
Qed.

Lemma value_sound : forall v first prevnl, value_okb first prevnl v = true ->
  RendersWordsB first prevnl (map snd v) (value_txt v) /\ forallb word_ok (map snd v) = true.
Proof.
  induction v as [|[s w] r IH]; intros first prevnl H; [split; [constructor|reflexivity]|].
  cbn [value_okb] in H. apply andb_prop in H as [H Hr]. apply andb_prop in H as [Hs Hw].
  destruct (IH false (count_nl (wv w)) Hr) as (IH1 & IH2).
  split; [|cbn [map forallb snd]; rewrite Hw, IH2; reflexivity].
  unfold value_txt. cbn [flat_map map fst snd]. fold (value_txt r).
  destruct s as [b|b cs]; cbn [sep_okb render_sep] in *.
  - apply andb_prop in Hs as [Hs H3]. apply andb_prop in Hs as [H1 H2]. rewrite <- app_assoc.
    apply rwb_word; [apply blankb_sound; exact H1|apply first_or; exact H2|exact H3|exact IH1].
  - apply andb_prop in Hs as [Hs H5]. apply andb_prop in Hs as [Hs H4]. apply andb_prop in Hs as [Hs H3].
    apply andb_prop in Hs as [H1 H2]. apply negb_true_iff in H4. apply Nat.eqb_eq in H3.
    rewrite <- !app_assoc.
    apply rwb_cont; [apply blankb_sound; exact H1|apply first_or; exact H2|exact H3|
                     apply cs_txt_contsep; assumption|exact IH1].
Qed.

(* an attribute line with the layout in front of it *)
Record aline := mkaline { al_lay : str; al_dis : bool; al_name : str; al_b1 : str; al_val : value; al_tk : tk }.
Definition render_aline (l:aline) : str :=
  al_lay l ++ bang (al_dis l) ++ "." :: al_name l ++ al_b1 l ++ "=" :: value_txt (al_val l) ++ render_tk (al_tk l).
Definition assigner := oracle -> str -> list word -> res aval.
Definition apply_attr (assign:assigner) (a:attrs) (l:aline) : attrs :=
  if al_dis l then a
  else match assign [] (al_name l) (map snd (al_val l)) with Ok v => set_attr (al_name l) v a | _ => a end.
Definition attrs_of (assign:assigner) (ls:list aline) : attrs := fold_left (apply_attr assign) ls [].
Definition is_ok {A} (r:res A) : bool := match r with Ok _ => true | _ => false end.
Definition aline_okb (names:list str) (assign:assigner) (l:aline) : bool :=
  mems (al_name l) names && blankb (al_b1 l) && negb (is_nil (al_val l)) && value_okb true 0 (al_val l)
  && tk_ok (al_tk l) && (al_dis l || is_ok (assign [] (al_name l) (map snd (al_val l)))).
Definition is_endk (k:term) : bool := match k with KEnd => true | _ => false end.
Definition last_kind (k0:term) (ls:list aline) : term := fold_left (fun _ l => tk_kind (al_tk l)) ls k0.

Lemma aline_sound : forall names assign l a, aline_okb names assign l = true ->
  mems (al_name l) names = true
  /\ RendersAttr (al_dis l) (al_name l) (map snd (al_val l)) (tk_kind (al_tk l))
       (bang (al_dis l) ++ "." :: al_name l ++ al_b1 l ++ "=" :: value_txt (al_val l) ++ render_tk (al_tk l))
  /\ upd assign (al_dis l) (al_name l) (map snd (al_val l)) a (apply_attr assign a l).
Proof.
  intros names assign l a H. unfold aline_okb in H.
  repeat match type of H with _ && _ = true => let H' := fresh "H" in apply andb_prop in H as [H H'] end.
  destruct (value_sound _ _ _ H2) as (Hv1 & Hv2).
  split; [exact H|]. split.
  - constructor; [|exact Hv2|apply blankb_sound; exact H4|exact Hv1|apply tk_sound; exact H1].
    destruct (al_val l); [discriminate H3|discriminate].
  - unfold upd, apply_attr. destruct (al_dis l); [reflexivity|]. cbn [orb] in H0.
    destruct (assign [] (al_name l) (map snd (al_val l))) as [v| |]; try discriminate H0.
    exists v. split; reflexivity.
Qed.

Fixpoint dalines_okb (k0:term) (ls:list aline) : bool :=
  match ls with
  | [] => true
  | l :: r => negb (is_endk k0) && layoutb (after k0) (al_lay l) && aline_okb def_attr_names assign_def_attr l
              && dalines_okb (tk_kind (al_tk l)) r
  end.
Lemma dalines_sound : forall ls k0 a, dalines_okb k0 ls = true ->
  RendersDA k0 a (fold_left (apply_attr assign_def_attr) ls a) (last_kind k0 ls) (flat_map render_aline ls).
Proof.
  induction ls as [|l r IH]; intros k0 a H; [constructor|].
  cbn [dalines_okb] in H. apply andb_prop in H as [H H4]. apply andb_prop in H as [H H3]. apply andb_prop in H as [H1 H2].
  destruct (aline_sound _ _ l a H3) as (Hm & Ha & Hu).
  cbn [flat_map fold_left]. unfold last_kind. cbn [fold_left]. fold (last_kind (tk_kind (al_tk l)) r).
  unfold render_aline at 1. rewrite <- app_assoc.
  eapply rda_cons; [|apply layoutb_sound; exact H2|exact Hm|exact Ha|exact Hu|apply IH; exact H4].
  destruct k0; try discriminate; discriminate H1.
Qed.

Definition sepb (k:option term) (isattr:bool) (lay:str) : bool :=
  match k with
  | None => layoutb false lay && match lay with [] => negb isattr | c :: _ => isspace c end
  | Some KEnd => is_nil lay && negb isattr
  | Some k => layoutb (after k) lay
  end.
Lemma sepb_sound : forall k isattr lay, sepb k isattr lay = true -> sep_ok k isattr lay.
Proof.
  intros [[]|] isattr lay H; cbn [sepb sep_ok] in *; try (apply layoutb_sound; exact H).
  - apply andb_prop in H as [H1 H2]. apply negb_true_iff in H2. destruct lay; [auto|discriminate H1].
  - apply andb_prop in H as [H1 H2]. split; [apply (layoutb_sound false); exact H1|].
    destruct lay; [apply negb_true_iff in H2; exact H2|exact H2].
Qed.
Fixpoint salines_okb (k:option term) (ls:list aline) (final:str) : bool :=
  match ls with
  | [] => sepb k false final
  | l :: r => sepb k true (al_lay l) && aline_okb scope_attr_names assign_scope_attr l
              && salines_okb (Some (tk_kind (al_tk l))) r final
  end.
Lemma salines_sound : forall ls k a final, salines_okb k ls final = true ->
  RendersSA k a (fold_left (apply_attr assign_scope_attr) ls a) (flat_map render_aline ls ++ final).
Proof.
  induction ls as [|l r IH]; intros k a final H.
  - cbn [flat_map app fold_left]. apply rsa_brace. apply sepb_sound; exact H.
  - cbn [salines_okb] in H. apply andb_prop in H as [H H3]. apply andb_prop in H as [H1 H2].
    destruct (aline_sound _ _ l a H2) as (Hm & Ha & Hu).
    cbn [flat_map fold_left].
    match goal with |- RendersSA _ _ _ ?T =>
      replace T with (al_lay l ++ (bang (al_dis l) ++ "." :: al_name l ++ al_b1 l ++ "=" :: value_txt (al_val l) ++ render_tk (al_tk l))
                        ++ (flat_map render_aline r ++ final)) by (unfold render_aline at 2; reassoc; reflexivity) end.
    eapply rsa_attr; [apply sepb_sound; exact H1|exact Hm|exact Ha|exact Hu|apply IH; exact H3].
Qed.

(* nodes: a definition with its attribute lines, a scope with its attribute lines and children, and
   the two directive forms that are layout; the document may end with "#phil __END__" *)
Inductive cstB :=
  | BDef (lay:str) (h:hdr) (b1:str) (v:value) (t:tk) (als:list aline)
  | BScp (lay:str) (h:hdr) (als:list aline) (sep:str) (kids:list cstB) (klay:str)
  | BOn (lay b:str) (d:ascii)
  | BOff (lay b T sp b':str).
Inductive fin := FLay (lay:str) | FEnd (lay b junk:str).

Section cstB_ind2.
  Variable P : cstB -> Prop.
  Hypothesis Hdef : forall lay h b1 v t als, P (BDef lay h b1 v t als).
  Hypothesis Hscp : forall lay h als sep kids klay, Forall P kids -> P (BScp lay h als sep kids klay).
  Hypothesis Hon : forall lay b d, P (BOn lay b d).
  Hypothesis Hoff : forall lay b T sp b', P (BOff lay b T sp b').
  Fixpoint cstB_ind2 (c:cstB) : P c :=
    match c with
    | BDef lay h b1 v t als => Hdef lay h b1 v t als
    | BScp lay h als sep kids klay =>
        Hscp lay h als sep kids klay
          ((fix go (l:list cstB) : Forall P l :=
              match l with [] => Forall_nil P | k :: r => Forall_cons k (cstB_ind2 k) (go r) end) kids)
    | BOn lay b d => Hon lay b d
    | BOff lay b T sp b' => Hoff lay b T sp b'
    end.
End cstB_ind2.

Fixpoint trees_ofB (c:cstB) : list obj :=
  match c with
  | BDef _ h _ v _ als => [adopt (Def h (map snd v) (attrs_of assign_def_attr als))]
  | BScp _ h als _ kids _ => [adopt (Scp h (flat_map trees_ofB kids) (attrs_of assign_scope_attr als))]
  | BOn _ _ _ | BOff _ _ _ _ _ => []
  end.
Fixpoint renderB (c:cstB) : str :=
  match c with
  | BDef lay h b1 v t als =>
      lay ++ bang (odis h) ++ oname h ++ b1 ++ "=" :: value_txt v ++ render_tk t ++ flat_map render_aline als
  | BScp lay h als sep kids klay =>
      lay ++ bang (odis h) ++ oname h ++ flat_map render_aline als ++ sep ++ "{" :: flat_map renderB kids ++ klay ++ ["}"]
  | BOn lay b d => lay ++ intro ++ b ++ f_on ++ [d]
  | BOff lay b T sp b' => lay ++ intro ++ b ++ f_off ++ T ++ clc sp b' []
  end.
Definition render_fin (f:fin) : str :=
  match f with FLay lay => lay | FEnd lay b junk => lay ++ intro ++ b ++ f_end ++ junk end.
Definition nextsB (c:cstB) : bool :=
  match c with BDef _ _ _ _ t als => after (last_kind (tk_kind t) als) | _ => false end.
Definition fin_ok (top safe:bool) (f:fin) : bool :=
  match f with
  | FLay lay => layoutb safe lay
  | FEnd lay b junk => top && layoutb safe lay && ((1 <=? count_nl lay)%nat || safe) && blankb b && negb (is_nil b) && tailok s0 junk
  end.
Definition fin_empty (f:fin) : bool := match f with FLay [] => true | _ => false end.

Section OKLB.
  Variable ok1 : cstB -> bool -> bool -> bool.
  Fixpoint oklgB (top:bool) (l:list cstB) (final:fin) (safe:bool) : bool :=
    match l with
    | [] => fin_ok top safe final
    | k :: r => ok1 k safe (is_nil r && fin_empty final) && oklgB top r final (nextsB k)
    end.
End OKLB.
Definition dir_okb (safe:bool) (lay b:str) : bool :=
  layoutb safe lay && ((1 <=? count_nl lay)%nat || safe) && blankb b && negb (is_nil b).
Lemma nl_or_safe : forall lay safe, (1 <=? count_nl lay)%nat || safe = true -> 1 <= count_nl lay \/ safe = true.
Proof. intros lay safe H. apply orb_prop in H as [H|H]; [left; apply Nat.leb_le; exact H|right; exact H]. Qed.
Fixpoint ok1B (c:cstB) (safe endok:bool) : bool :=
  match c with
  | BDef lay h b1 v t als =>
      layoutb safe lay && dhdr_ok true h && blankb b1 && negb (is_nil v) && value_okb true 0 v && tk_ok t
      && dalines_okb (tk_kind t) als && (negb (is_endk (last_kind (tk_kind t) als)) || endok)
  | BScp lay h als sep kids klay =>
      layoutb safe lay && dhdr_ok false h && salines_okb None als sep && oklgB ok1B false kids (FLay klay) false
  | BOn lay b d => dir_okb safe lay b && isspace d
  | BOff lay b T sp b' =>
      dir_okb safe lay b && tailok s0 (T ++ [nl]) && nophil T && blankb sp && negb (is_nil sp) && blankb b'
  end.
Definition cstB_ok (l:list cstB) (final:fin) : bool := oklgB ok1B true l final false.
Definition renderB_doc (l:list cstB) (final:fin) : str := flat_map renderB l ++ render_fin final.

Definition PcB (c:cstB) : Prop := forall top safe endok t ttext,
  ok1B c safe endok = true -> (endok = true -> t = [] /\ ttext = []) ->
  RendersLB top (nextsB c) t ttext -> RendersLB top safe (trees_ofB c ++ t) (renderB c ++ ttext).

Lemma fin_sound : forall top safe f, fin_ok top safe f = true -> RendersLB top safe [] (render_fin f).
Proof.
  intros top safe [lay|lay b junk] H; cbn [fin_ok render_fin] in *.
  - constructor. apply layoutb_sound; exact H.
  - repeat match type of H with _ && _ = true => let H' := fresh "H" in apply andb_prop in H as [H H'] end.
    destruct top; [|discriminate H]. apply nl_or_safe in H3.
    apply rlb_end; [apply layoutb_sound; exact H4|exact H3|apply blankb_sound; exact H2| |exact H0].
    destruct b; [discriminate H1|discriminate].
Qed.

Lemma oklgB_sound : forall l, Forall PcB l -> forall top final safe, oklgB ok1B top l final safe = true ->
  RendersLB top safe (flat_map trees_ofB l) (flat_map renderB l ++ render_fin final).
Proof.
  intros l H; induction H as [|k r Hk Hr IH]; intros top final safe Hok; cbn [oklgB] in Hok.
  - cbn [flat_map app]. apply fin_sound; exact Hok.
  - apply andb_prop in Hok as [H1 H2]. cbn [flat_map]. rewrite <- app_assoc.
    apply (Hk top safe (is_nil r && fin_empty final)); [exact H1| |apply IH; exact H2].
    intros He. apply andb_prop in He as [E1 E2]. destruct r; [|discriminate E1].
    destruct final as [[|c lay]|]; try discriminate E2. split; reflexivity.
Qed.

Lemma dir_okb_sound : forall safe lay b, dir_okb safe lay b = true ->
  lay_ok safe lay /\ (1 <= count_nl lay \/ safe = true) /\ blank b /\ b <> [].
Proof.
  intros safe lay b H. unfold dir_okb in H.
  repeat match type of H with _ && _ = true => let H' := fresh "H" in apply andb_prop in H as [H H'] end.
  split; [apply layoutb_sound; exact H|]. split; [apply nl_or_safe; exact H2|]. split; [apply blankb_sound; exact H1|].
  destruct b; [discriminate H0|discriminate].
Qed.

Lemma PcB_all : forall c, PcB c.
Proof.
  intros c; induction c as [lay h b1 v t als|lay h als sep kids klay IH|lay b d|lay b T sp b'] using cstB_ind2;
    intros top safe endok t0 ttext Hok Hend Ht; cbn [ok1B] in Hok.
  - repeat match type of Hok with _ && _ = true => let H := fresh "H" in apply andb_prop in Hok as [Hok H] end.
    destruct (value_sound _ _ _ H2) as (Hv1 & Hv2).
    assert (Hd : RendersDefB h (map snd v) (tk_kind t)
                   (bang (odis h) ++ oname h ++ b1 ++ "=" :: value_txt v ++ render_tk t)).
    { constructor; try assumption; [|apply blankb_sound; assumption|apply tk_sound; assumption].
      destruct v; [discriminate H3|discriminate]. }
    pose proof (dalines_sound als (tk_kind t) [] H0) as Hda.
    apply layoutb_sound in Hok.
    cbn [trees_ofB renderB nextsB app] in *. fold (attrs_of assign_def_attr als) in Hda.
    set (dtext := bang (odis h) ++ oname h ++ b1 ++ "=" :: value_txt v ++ render_tk t) in *.
    replace ((lay ++ bang (odis h) ++ oname h ++ b1 ++ "=" :: value_txt v ++ render_tk t ++ flat_map render_aline als) ++ ttext)
      with (lay ++ dtext ++ flat_map render_aline als ++ ttext) by (unfold dtext; reassoc; reflexivity).
    destruct (is_endk (last_kind (tk_kind t) als)) eqn:Ee.
    + cbn [negb orb] in H. destruct (Hend H) as [-> ->]. rewrite app_nil_r.
      destruct (last_kind (tk_kind t) als) eqn:Ek; try discriminate Ee.
      apply (rlb_def_end top safe lay h (map snd v) (tk_kind t)); assumption.
    + apply (rlb_def top safe lay h (map snd v) (tk_kind t) dtext _ (last_kind (tk_kind t) als)); try assumption.
      intros E. rewrite E in Ee. discriminate Ee.
  - repeat match type of Hok with _ && _ = true => let H := fresh "H" in apply andb_prop in Hok as [Hok H] end.
    apply layoutb_sound in Hok.
    pose proof (oklgB_sound kids IH false (FLay klay) false H) as Hk. cbn [render_fin] in Hk.
    pose proof (salines_sound als None [] sep H0) as Hsa. fold (attrs_of assign_scope_attr als) in Hsa.
    cbn [trees_ofB renderB nextsB app] in *.
    replace ((lay ++ bang (odis h) ++ oname h ++ flat_map render_aline als ++ sep ++ "{" :: flat_map renderB kids ++ klay ++ ["}"]) ++ ttext)
      with (lay ++ bang (odis h) ++ oname h ++ (flat_map render_aline als ++ sep) ++ "{" :: (flat_map renderB kids ++ klay) ++ "}" :: ttext)
      by (reassoc; reflexivity).
    apply rlb_scope; assumption.
  - apply andb_prop in Hok as [Hok Hd]. destruct (dir_okb_sound _ _ _ Hok) as (Hl & Hn & Hb & Hne).
    cbn [trees_ofB renderB nextsB app] in *.
    replace ((lay ++ intro ++ b ++ f_on ++ [d]) ++ ttext) with (lay ++ intro ++ b ++ f_on ++ d :: ttext)
      by (reassoc; reflexivity).
    apply rlb_on; try assumption. apply rendersB_blank_front; assumption.
  - repeat match type of Hok with _ && _ = true => let H := fresh "H" in apply andb_prop in Hok as [Hok H] end.
    destruct (dir_okb_sound _ _ _ Hok) as (Hl & Hn & Hb & Hne).
    cbn [trees_ofB renderB nextsB app] in *.
    replace ((lay ++ intro ++ b ++ f_off ++ T ++ clc sp b' []) ++ ttext)
      with (lay ++ intro ++ b ++ f_off ++ T ++ clc sp b' ttext) by (unfold clc; reassoc; reflexivity).
    apply rlb_off; try assumption; try (apply blankb_sound; assumption).
    destruct sp; [discriminate H0|discriminate].
Qed.

Theorem cstB_renders : forall l final, cstB_ok l final = true -> RendersB (flat_map trees_ofB l) (renderB_doc l final).
Proof.
  intros l final H. apply oklgB_sound; [|exact H]. apply Forall_forall. intros c _. apply PcB_all.
Qed.

(* two decorations of one tree: the texts parse to the same tree, attributes included *)
Corollary cstB_agree : forall o l1 f1 l2 f2,
  cstB_ok l1 f1 = true -> cstB_ok l2 f2 = true -> flat_map trees_ofB l1 = flat_map trees_ofB l2 ->
  exists t1 t2, parse o (renderB_doc l1 f1) = Ok t1 /\ parse o (renderB_doc l2 f2) = Ok t2
                /\ map erase_obj t1 = map erase_obj t2 /\ map erase_obj t1 = map erase_obj (flat_map trees_ofB l1).
Proof.
  intros o l1 f1 l2 f2 H1 H2 Ht.
  destruct (rendersB_sound o _ _ (cstB_renders l1 f1 H1)) as (t1 & Hp1 & He1).
  destruct (rendersB_sound o _ _ (cstB_renders l2 f2 H2)) as (t2 & Hp2 & He2).
  exists t1, t2. repeat split; try assumption. rewrite He1, He2, Ht. reflexivity.
Qed.
Print Assumptions cstB_renders.
Print Assumptions cstB_agree.

(* ====================================================================================== *)
(* 13. attribute lists up to the order of assignment                                         *)
(* ====================================================================================== *)
(* [erase_obj] keeps the attribute LIST the parser builds (latest assignment first).  The Python
   object holds attributes as fields, so the order of assignment is not observable there; the wire
   form ([Tree.sx_attrs]) lists them in the class's attribute_names order.  [canon] does the same:
   two renderings whose trees agree up to the order of the attribute lines parse alike up to it. *)
Definition nattrs (names:list str) (a:attrs) : attrs :=
  flat_map (fun n => match get_attr n a with ANone => [] | v => [(n, v)] end) names.
Fixpoint canon (o:obj) : obj :=
  match o with
  | Def h ws a => Def (erase_hdr h) (map erase_word ws) (nattrs def_attr_names a)
  | Scp h ks a => Scp (erase_hdr h) (map canon ks) (nattrs scope_attr_names a)
  end.
Lemma canon_erase : forall o, canon (erase_obj o) = canon o.
Proof.
  intros o; induction o as [h ws a|h ks a IH] using obj_ind2.
  - cbn [erase_obj canon]. rewrite map_map. reflexivity.
  - cbn [erase_obj canon]. f_equal. rewrite map_map.
    induction IH as [|k r Hk Hr IHr]; [reflexivity|]. cbn [map]. rewrite Hk, IHr. reflexivity.
Qed.
Lemma map_canon_erase : forall l, map canon (map erase_obj l) = map canon l.
Proof. intros l. rewrite map_map. apply map_ext. exact canon_erase. Qed.

Theorem renderingsB_agree_canon : forall o t1 t2 s1 s2,
  RendersB t1 s1 -> RendersB t2 s2 -> map canon t1 = map canon t2 ->
  exists l1 l2, parse o s1 = Ok l1 /\ parse o s2 = Ok l2 /\ map canon l1 = map canon l2.
Proof.
  intros o t1 t2 s1 s2 H1 H2 Ht.
  destruct (rendersB_sound o t1 s1 H1) as (l1 & Hp1 & He1).
  destruct (rendersB_sound o t2 s2 H2) as (l2 & Hp2 & He2).
  exists l1, l2. split; [exact Hp1|]. split; [exact Hp2|].
  rewrite <- (map_canon_erase l1), <- (map_canon_erase l2), He1, He2, !map_canon_erase. exact Ht.
Qed.
Print Assumptions renderingsB_agree_canon.

(* ====================================================================================== *)
(* 14. examples                                                                              *)
(* ====================================================================================== *)

Definition sp : str := s_ " ".
Definition AL := mkaline.

(* one abstract tree, attributes included *)
Definition exB_t : list obj :=
  [ Def (hT "title" false) [W "Hello world" Q2; W "v2" QN; W "long3" QN]
        [(s_ "expert_level", AInt 2); (s_ "help", AStr (s_ "The title of it"))];
    Scp (hT "refine" false)
      [ Def (hT "cycles" true) [W "12" QN] [(s_ "optional", ABool false)];
        Scp (hT "target" false) [ Def (hT "weight" false) [W "0.5" QN; W "a b" Q1] [] ] [];
        Def (hT "last" false) [W "x" QN] [] ]
      [(s_ "multiple", ABool true); (s_ "help", AStr (s_ "Refinement settings"))];
    Def (hT "tail" false) [W "1" QN] [] ].

(* layout 1: one item per line, no continuation *)
Definition exB_c1 : list cstB :=
  [ BDef [] (hT "title" false) sp
      [(SBlank sp, W "Hello world" Q2); (SBlank sp, W "v2" QN); (SBlank sp, W "long3" QN)] (TkNl [])
      [ AL (s_ "  ") false (s_ "help") sp
           [(SBlank sp, W "The title" Q2); (SBlank sp, W "of" QN); (SBlank sp, W "it" QN)] (TkNl []);
        AL (s_ "  ") false (s_ "expert_level") sp [(SBlank sp, W "2" QN)] (TkNl []) ];
    BScp [] (hT "refine" false)
      [ AL (nl :: s_ "  ") false (s_ "help") sp [(SBlank sp, W "Refinement settings" Q2)] (TkNl []);
        AL (s_ "  ") false (s_ "multiple") sp [(SBlank sp, W "True" QN)] (TkNl []) ]
      []
      [ BDef (nl :: s_ "  ") (hT "cycles" true) sp [(SBlank sp, W "12" QN)] (TkNl [])
          [ AL (s_ "    ") false (s_ "optional") sp [(SBlank sp, W "False" QN)] (TkNl []) ];
        BScp (s_ "  ") (hT "target" false) [] sp
          [ BDef (nl :: s_ "    ") (hT "weight" false) sp [(SBlank sp, W "0.5" QN); (SBlank sp, W "a b" Q1)] (TkNl []) [] ]
          (s_ "  ");
        BDef (nl :: s_ "  ") (hT "last" false) sp [(SBlank sp, W "x" QN)] (TkNl []) [] ]
      [];
    BDef [nl] (hT "tail" false) sp [(SBlank sp, W "1" QN)] (TkNl []) [] ].

(* layout 2: continuations in values and in attribute values (one with a blank line and a chain of
   two backslashes, one directly after "="), ";" terminators, a trailing comment, comment lines with
   quote characters where they are harmless, a disabled attribute line, scope attributes on the line
   of the name, a definition closed by "}" *)
Definition exB_c2 : list cstB :=
  [ BDef (nl :: s_ "# leading" ++ [nl]) (hT "title" false) []
      [(SBlank [], W "Hello world" Q2); (SCont sp [nl :: s_ "      "], W "v2" QN);
       (SCont (s_ "   ") [[nl; nl] ++ s_ "  "; s_ "  "], W "long3" QN)] (TkSemi sp)
      [ AL (s_ " # after a semicolon: 'free" ++ nl :: s_ "  ") false (s_ "help") (s_ "   ")
           [(SCont [] [nl :: s_ "     "], W "The title" Q2); (SCont sp [nl :: s_ "  "], W "of" QN); (SBlank (s_ "   "), W "it" QN)]
           (TkComment (s_ "   ") (s_ " trailing note"));
        AL (s_ "  # plain comment" ++ nl :: s_ "  ") true (s_ "caption") sp
           [(SBlank sp, W "dropped" QN); (SBlank sp, W "words" Q2); (SCont sp [nl :: s_ "      "], W "here" QN)] (TkNl []);
        AL [] false (s_ "expert_level") sp [(SBlank sp, W "2" QN)] (TkSemi []) ];
    BScp [] (hT "refine" false)
      [ AL sp false (s_ "help") sp [(SBlank sp, W "Refinement settings" Q2)] (TkNl []);
        AL (s_ "   # a comment between scope attributes" ++ nl :: s_ "   ") false (s_ "multiple") sp
           [(SCont sp [nl :: s_ "      "], W "True" QN)] (TkSemi []) ]
      [nl]
      [ BDef sp (hT "cycles" true) sp [(SBlank sp, W "12" QN)] (TkSemi sp)
          [ AL sp false (s_ "optional") sp [(SBlank sp, W "False" QN)] (TkSemi []) ];
        BScp sp (hT "target" false) [] sp
          [ BDef sp (hT "weight" false) sp [(SBlank sp, W "0.5" QN); (SCont sp [nl :: s_ " "], W "a b" Q1)] (TkEnd sp) [] ]
          [];
        BDef sp (hT "last" false) sp [(SCont sp [nl :: s_ " "], W "x" QN)] (TkNl []) [] ]
      [];
    BDef [] (hT "tail" false) sp [(SBlank sp, W "1" QN)] (TkEnd []) [] ].

Definition exB_text1 : str := s_
"title = ""Hello world"" v2 long3
  .help = ""The title"" of it
  .expert_level = 2
refine
  .help = ""Refinement settings""
  .multiple = True
{
  !cycles = 12
    .optional = False
  target {
    weight = 0.5 'a b'
  }
  last = x
}
tail = 1
".
Definition exB_text2 : str := s_
"
# leading
title=""Hello world"" \
      v2   \

  \  long3 ; # after a semicolon: 'free
  .help   =\
     ""The title"" \
  of   it   # trailing note
  # plain comment
  !.caption = dropped ""words"" \
      here
.expert_level = 2;refine .help = ""Refinement settings""
   # a comment between scope attributes
   .multiple = \
      True;
{ !cycles = 12 ; .optional = False; target { weight = 0.5 \
 'a b' } last = \
 x
}tail = 1".

Example exB_same_tree : flat_map trees_ofB exB_c1 = exB_t /\ flat_map trees_ofB exB_c2 = exB_t.
Proof. split; vm_compute; reflexivity. Qed.
Example exB_texts : renderB_doc exB_c1 (FLay []) = exB_text1 /\ renderB_doc exB_c2 (FLay []) = exB_text2.
Proof. split; vm_compute; reflexivity. Qed.
Example exB_renders : RendersB exB_t exB_text1 /\ RendersB exB_t exB_text2.
Proof.
  destruct exB_same_tree as [T1 T2]. destruct exB_texts as [X1 X2].
  split; [rewrite <- T1, <- X1|rewrite <- T2, <- X2]; apply cstB_renders; vm_compute; reflexivity.
Qed.
(* both parses computed: the same tree after erasing ids and line numbers, attributes included;
   the raw trees differ (line numbers) *)
Example exB_parses : exists l1 l2,
  parse [] exB_text1 = Ok l1 /\ parse [] exB_text2 = Ok l2
  /\ map erase_obj l1 = map erase_obj exB_t /\ map erase_obj l2 = map erase_obj exB_t /\ l1 <> l2.
Proof.
  eexists _, _. split; [vm_compute; reflexivity|]. split; [vm_compute; reflexivity|].
  split; [vm_compute; reflexivity|]. split; [vm_compute; reflexivity|]. vm_compute. discriminate.
Qed.
(* the same from the theorem, for every oracle *)
Example exB_agree : forall o, exists l1 l2,
  parse o exB_text1 = Ok l1 /\ parse o exB_text2 = Ok l2 /\ map erase_obj l1 = map erase_obj l2.
Proof. intros o. destruct exB_renders as [R1 R2]. exact (renderingsB_agree o exB_t _ _ R1 R2). Qed.
(* layout 2 is outside stage A: stage A's grammar has no continuation and no attribute line *)
Example exB_stageA_example_included : RendersB (map noattr ex_t) ex_text2.
Proof. apply renders_rendersB. apply ex_renders. Qed.

(* the printer's wrapped output (TreeRoundtrip.ex_tree at width 30: two continuation lines, one of
   them after a word with a backslash, one before a multi-line triple-quoted word) is a rendering *)
Example exB_show_wrapped :
  forallb (unwrapped 30 []) ex_tree = false
  /\ exists text, as_str ex_tree [] None 0 (Some 30%Z) = Ok text /\ RendersB (map noattr ex_tree) text
                  /\ count_nl text = 17.
Proof.
  split; [vm_compute; reflexivity|]. eexists. split; [vm_compute; reflexivity|]. split; [|vm_compute; reflexivity].
  apply (show_rendersB_wrapped ex_tree (Some 30%Z)); vm_compute; reflexivity.
Qed.

(* layout 3: the same tree with directives: an __OFF__ region at the top (after a blank line), a
   "#phil __ON__" line right after a newline-terminated attribute value, directives inside scopes
   (the closing line of a region starts in column 0), and "#phil __END__" with arbitrary text after it *)
Definition exB_c3 : list cstB :=
  [ BOff [nl] sp (s_ " anything here ""unbalanced" ++ nl :: s_ "x = { } ;;; garbage") (s_ "  ") (s_ "  ");
    BDef [] (hT "title" false) sp
      [(SBlank sp, W "Hello world" Q2); (SBlank sp, W "v2" QN); (SBlank sp, W "long3" QN)] (TkSemi sp)
      [ AL sp false (s_ "help") sp
           [(SBlank sp, W "The title" Q2); (SBlank sp, W "of" QN); (SBlank sp, W "it" QN)] (TkSemi sp);
        AL sp false (s_ "expert_level") sp [(SBlank sp, W "2" QN)] (TkNl []) ];
    BOn [] sp nl;
    BScp [] (hT "refine" false)
      [ AL sp false (s_ "help") sp [(SBlank sp, W "Refinement settings" Q2)] (TkSemi []);
        AL sp false (s_ "multiple") sp [(SBlank sp, W "True" QN)] (TkNl []) ]
      []
      [ BDef (nl :: s_ "  ") (hT "cycles" true) sp [(SBlank sp, W "12" QN)] (TkSemi sp)
          [ AL sp false (s_ "optional") sp [(SBlank sp, W "False" QN)] (TkNl []) ];
        BOn (s_ "  ") sp nl;
        BScp (s_ "  ") (hT "target" false) [] sp
          [ BDef sp (hT "weight" false) sp [(SBlank sp, W "0.5" QN); (SBlank sp, W "a b" Q1)] (TkNl []) [];
            BOff (s_ "    ") sp (s_ " until the closing line" ++ nl :: s_ "    weight = 7") sp [] ]
          (s_ "  ");
        BDef (nl :: s_ "  ") (hT "last" false) sp [(SBlank sp, W "x" QN)] (TkNl []) [] ]
      [];
    BDef [nl] (hT "tail" false) sp [(SBlank sp, W "1" QN)] (TkNl []) [] ].
Definition exB_fin3 : fin := FEnd [] sp (s_ " the rest is ""ignored" ++ nl :: s_ "{{{").
Definition exB_text3 : str := s_
"
#phil __OFF__ anything here ""unbalanced
x = { } ;;; garbage
#phil  __ON__  
title = ""Hello world"" v2 long3 ; .help = ""The title"" of it ; .expert_level = 2
#phil __ON__
refine .help = ""Refinement settings""; .multiple = True
{
  !cycles = 12 ; .optional = False
  #phil __ON__
  target { weight = 0.5 'a b'
    #phil __OFF__ until the closing line
    weight = 7
#phil __ON__
  }
  last = x
}
tail = 1
#phil __END__ the rest is ""ignored
{{{".
Example exB_directives :
  flat_map trees_ofB exB_c3 = exB_t /\ renderB_doc exB_c3 exB_fin3 = exB_text3 /\ RendersB exB_t exB_text3
  /\ exists l3, parse [] exB_text3 = Ok l3 /\ map erase_obj l3 = map erase_obj exB_t.
Proof.
  assert (T3 : flat_map trees_ofB exB_c3 = exB_t) by (vm_compute; reflexivity).
  assert (X3 : renderB_doc exB_c3 exB_fin3 = exB_text3) by (vm_compute; reflexivity).
  split; [exact T3|]. split; [exact X3|]. split.
  - rewrite <- T3, <- X3. apply cstB_renders. vm_compute. reflexivity.
  - eexists. split; vm_compute; reflexivity.
Qed.
(* a region at the very start of the document, by [rendersB_sound_leading_off] *)
Example exB_leading_region : exists l,
  parse [] (s_ "#phil __OFF__
old = 1
#phil __ON__
" ++ exB_text1) = Ok l /\ map erase_obj l = map erase_obj exB_t.
Proof.
  apply (rendersB_sound_leading_off [] exB_t exB_text1 sp (nl :: s_ "old = 1") sp []);
    try (split; reflexivity); try discriminate; try reflexivity. apply exB_renders.
Qed.

(* ---------- the restrictions are needed (each replayed on the real Python, same outcome) *)
Definition obs (r:res (list obj)) : option (list (str * list str * attrs)) :=
  match r with Ok l => Some (map (fun x => (oname (ohdr x), map wv (owords x), oattrs x)) l) | _ => None end.

(* [rwb_cont] demands prevnl = 0: the backslash must stand on the line on which the previous word
   STARTS; after a quoted word that contains a newline it ends the value and is then read as a name.
   (A quoted word may follow such a word without a continuation.) *)
Example cont_after_multiline_word :
  parse [] (s_ "x = 'a
b' \
 2
") = E "ImproperDefinitionName" [bs] 2
  /\ obs (parse [] (s_ "x = 'a
b' 'c'
")) = Some [(s_ "x", [["a"; nl; "b"]; ["c"]], [])].
Proof. split; vm_compute; reflexivity. Qed.
(* the whitespace after the backslash is whitespace only: a comment line there is not layout *)
Example cont_no_comment_line :
  parse [] (s_ "x = 1 \
# c
 2
") = E "UnexpectedEnd" [] 0
  /\ parse [] (s_ "x = 1 \ # c
 2
") = E "UnexpectedEnd" [] 0.
Proof. split; vm_compute; reflexivity. Qed.
(* no continuation before the terminator: the next line is swallowed into the value *)
Example cont_before_terminator :
  obs (parse [] (s_ "x = 1 \
y = 2
")) = Some [(s_ "x", [s_ "1"; s_ "y"; s_ "="; s_ "2"], [])].
Proof. vm_compute; reflexivity. Qed.
(* the backslash is a word of its own: blanks before it (after a word), whitespace after it *)
Example cont_glued :
  parse [] (s_ "x = 1\
 2
") = E "UnexpectedEnd" [] 0
  /\ parse [] (s_ "x = 1 \x
 2
") = E "UnexpectedEnd" [] 0
  /\ obs (parse [] (s_ "x =\
 1 2
")) = Some [(s_ "x", [s_ "1"; s_ "2"], [])].
Proof. repeat split; vm_compute; reflexivity. Qed.
(* after a scope's name a blank must precede ".name" (else it is a dotted definition name), and a
   comment must not be glued to the name *)
Example scope_attr_needs_blank :
  parse [] (s_ "s.help = x { }") = E "UnexpectedBrace" ["{"] 1
  /\ obs (parse [] (s_ "s .help = x { }")) = Some [(s_ "s", [], [(s_ "help", AStr (s_ "x"))])]
  /\ parse [] (s_ "s# c
{ }") = E "ImproperDefinitionName" (s_ "s#") 1
  /\ obs (parse [] (s_ "s # c
{ }")) = Some [(s_ "s", [], [])].
Proof. repeat split; vm_compute; reflexivity. Qed.
(* the value of an attribute is interpreted (so not every word list is a value), unless the line is
   disabled; the name is checked even then; numeric expressions go to the oracle (eval) *)
Example attr_value_checked :
  parse [] (s_ "x = 1
.optional = maybe
") = E "NotBool" (s_ "maybe") 2
  /\ obs (parse [] (s_ "x = 1
!.optional = maybe
")) = Some [(s_ "x", [s_ "1"], [])]
  /\ parse [] (s_ "x = 1
!.bogus = a
") = E "UnexpectedDefinitionAttribute" (s_ ".bogus") 2
  /\ parse [] (s_ "x = 1
.expert_level = 1+1
") = UErr (s_ "Unmodelled") (s_ "I") 0
  /\ assign_def_attr [] (s_ "expert_level") [W "1+1" QN] = UErr (s_ "Unmodelled") (s_ "I") 0.
Proof. repeat split; vm_compute; reflexivity. Qed.
(* an attribute line whose value is ended by nothing (KEnd) cannot be followed by another attribute
   line: ".caption = y" becomes part of the value; likewise after a definition's value *)
Example attr_after_end_swallowed :
  obs (parse [] (s_ "s .help = x .caption = y
{ }")) = Some [(s_ "s", [], [(s_ "help", AStr (s_ "x .caption = y"))])]
  /\ obs (parse [] (s_ "x = 1 .help = y
")) = Some [(s_ "x", [s_ "1"; s_ ".help"; s_ "="; s_ "y"], [])].
Proof. split; vm_compute; reflexivity. Qed.
(* after a NEWLINE-terminated attribute value the first comment line must be safe, exactly as after
   a definition's value (after ";" it is free) *)
Example unsafe_comment_after_attr_value :
  parse [] (s_ "s .help = x
# 'q
{ }
y = 1
") = E "MissingClosingQuote" [] 5
  /\ obs (parse [] (s_ "s .help = x;
# 'q
{ }
y = 1
")) = Some [(s_ "s", [], [(s_ "help", AStr (s_ "x"))]); (s_ "y", [s_ "1"], [])].
Proof. split; vm_compute; reflexivity. Qed.
(* the order of the attribute lines is visible in the parser's list (hence in [erase_obj]), not in
   [canon]; the later of two assignments to one name wins *)
Example attr_order :
  let p1 := parse [] (s_ "x = 1
.help = a
.caption = b
") in
  let p2 := parse [] (s_ "x = 1
.caption = b
.help = c
.help = a
") in
  (exists l1 l2, p1 = Ok l1 /\ p2 = Ok l2 /\ map erase_obj l1 <> map erase_obj l2 /\ map canon l1 = map canon l2)
  /\ obs p2 = Some [(s_ "x", [s_ "1"], [(s_ "help", AStr (s_ "a")); (s_ "caption", AStr (s_ "b"))])].
Proof.
  split; [|vm_compute; reflexivity].
  eexists _, _. split; [vm_compute; reflexivity|]. split; [vm_compute; reflexivity|].
  split; [vm_compute; discriminate|vm_compute; reflexivity].
Qed.

(* a directive is recognised only on a line other than the previous object's first line: after ";"
   on the same line "#phil" is read as a name (hence: a newline in the layout in front, or a
   newline-terminated value) *)
Example directive_same_line :
  parse [] (s_ "x = 1; #phil __END__
y = 2
") = E "ImproperDefinitionName" (s_ "#phil") 1
  /\ obs (parse [] (s_ "x = 1;
#phil __END__
y = 2
")) = Some [(s_ "x", [s_ "1"], [])]
  /\ obs (parse [] (s_ "x = 1 \
  2 ; #phil __END__
y = 2
")) = Some [(s_ "x", [s_ "1"; s_ "2"], [])].
Proof. repeat split; vm_compute; reflexivity. Qed.
(* the closing line of a region: "#phil" in column 0, only blanks after "__ON__"; otherwise the
   region runs on (here to the end of the input) *)
Example region_closing_line :
  obs (parse [] (s_ "
#phil __OFF__
a = 1
  #phil __ON__
b = 2
")) = Some []
  /\ obs (parse [] (s_ "
#phil __OFF__
a = 1
#phil __ON__ x
b = 2
")) = Some []
  /\ obs (parse [] (s_ "
#phil __OFF__
a = 1
#phil __ON__
b = 2
")) = Some [(s_ "b", [s_ "2"], [])].
Proof. repeat split; vm_compute; reflexivity. Qed.
(* [nophil]: a "#phil __END__" line inside the region ends the document; [rlb_end] only in the
   document's own list: inside a scope it is an error *)
Example region_and_end :
  obs (parse [] (s_ "
#phil __OFF__
#phil __END__
#phil __ON__
b = 2
")) = Some []
  /\ parse [] (s_ "s {
#phil __END__
}
") = E "NoMatchingBrace" (s_ "{") 1.
Proof. split; vm_compute; reflexivity. Qed.
(* [headsp]: a blank (or nothing) after "__ON__" *)
Example on_glued :
  parse [] (s_ "
#phil __ON__x = 1
") = E "UnknownPhilDirective" (s_ "__ON__x") 2
  /\ obs (parse [] (s_ "
#phil __ON__ x = 1
")) = Some [(s_ "x", [s_ "1"], [])].
Proof. split; vm_compute; reflexivity. Qed.

(* ====================================================================================== *)
(* 15. future work (statements only; nothing here is assumed anywhere)                       *)
(* ====================================================================================== *)
(* - a region that is never closed ("#phil __OFF__" up to the end of the input) ends the document like
     "#phil __END__": needs  sfs (S (length r)) r l = ([], l', Some 0)  for r without a "#phil" line and a
     constructor beside [rlb_end].
   - a directive as the first token of an object list on the line of the "{" (or at the start of the
     document, beyond the two theorems of section 10): prev_line is 0 there, so it is recognised; the
     grammar would need a third context value "start of a list" beside [safe].
   - the region's closing line may carry more text between "#phil" and the blanks ("#philX __ON__": the
     scanner skips the rest of the word) and may be ended by the end of the input instead of a newline.
   - .type / .call values through the oracle: replace [assign [] n ws = Ok v] by a hypothesis on the
     oracle's answer and state soundness relative to it.
   - include statements ("include file name"): no tree-level counterpart without the file system. *)

(* ====================================================================================== *)
(* 16. assumptions of the top-level theorems                                                 *)
(* ====================================================================================== *)
Print Assumptions sfs_region.
Print Assumptions rendersB_sound_gen.
Print Assumptions rendersB_sound.
Print Assumptions renderingsB_agree.
Print Assumptions renderingsB_agree_canon.
Print Assumptions rendersB_sound_leading_off.
Print Assumptions rendersB_sound_leading_on.
Print Assumptions renders_rendersB.
Print Assumptions show_rendersB_wrapped.
Print Assumptions parse_show_via_grammar.
Print Assumptions cstB_renders.
Print Assumptions cstB_agree.
