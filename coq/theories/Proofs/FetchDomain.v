(* C07, text form: the hypothesis "the shown part of the fetch result lies in C01's printable domain
   dtree_ok" of FetchReparse.refetch_text, discharged from conditions on the master M and the sources S.

   fetch_result_in_domain :
     M in dtree_ok (every parsed master without deprecated definitions / include lines),
     M "$"-free, S "$"-free,
     every definition of S carries a non-empty value of the domain words_ok (defs_words_ok: every parsed
       source, ParserShape.parse_words_ok),
     merged_plain M    : an object of M carrying merge_names (the last component of a dotted name
                         "a.b.c") is neither .multiple nor disabled,
     choice_alts_ok M  : every alternative of a choice-typed definition of M, with its star removed, is a
                         printable word (word_ok: quoted, or a non-empty unquoted token other than
                         "\" and "#" that does not begin with a quote character),
     fetch env canon false M S = Ok W
     -> forallb (dtree_ok []) (shown W) = true.
   The proof follows the fetch recursion (as FetchShape.fetch_shape does), carrying the value words along:
   a result definition is the master's header with the words of a source definition, of the master, or
   of the choice converter (the master's alternatives with recomputed stars); a result scope is the
   master's header around the blocks of its entries.

   refetch_text_parsed : the text form of C07 for a PARSED master and PARSED sources (each with its own
   oracle), obtained from FetchReparse.refetch_text: the only conditions left beyond those of
   C07_refetch are canon's blindness to word lines, merged_plain and choice_alts_ok.

   The two extra conditions are needed by fetch_result_in_domain (Examples below, replayed on the
   library):
     - a .multiple definition below a dotted prefix with two instances:  W's prefix scope has two
       shown children, printed "a.b = 2 / a.b = 3", read back as two scopes a (Examples cex_multiple);
     - a disabled definition below a dotted prefix "__a.b__": the result scope is empty and is printed
       under the joined name "__a.b__ {}", which the parser refuses as reserved (Examples cex_disabled);
     - a choice alternative "*" or "*#": the converter builds the unquoted words "" / "#", the printed
       line is "c =  *b" (one word is lost) / "c = # *b" (the rest is a comment: the parser reports a
       missing value) (Examples cex_choice).
   In the second and in the "*#" case the printed result does not parse at all: there the text form of
   C07 fails on the library as well.  In the first and in the "*" case the text is read back as a
   different tree, whose fetch nevertheless reproduces W (observed on the library and in the model):
   the conclusion of refetch_text_parsed survives there, outside the reach of C01's round trip.

   Future work (not proved): (1) refetch_text_parsed without merged_plain for .multiple entries (needs
   a print/parse theorem for prefix scopes with several children: the text is read back as one prefix
   scope per child, which fetch merges again); (2) the disabled clause of merged_plain weakened to
   "the joined name of the enclosing prefix scopes is itself an admissible scope name" (full_ok of the
   prefix; it is not implied by full_ok of the whole dotted name, see the Examples cex_disabled);
   (3) refetch_text_parsed for the choice alternative "*" (empty name), where the lost word is
   restored by the converter from the master. *)
From Coq Require Import List Ascii String Bool Arith ZArith Lia.
From Phil Require Import Base Tokenizer Tree Parser Show ShowProofs Vars Choice ChoiceProofs ChoiceTop Fetch FetchBasics FetchShape FetchTrack
  FetchDisabled FetchIdemLists FetchIdemBase FetchIdem FetchIdemNoMult FetchMergeObs ShowErase WordsRoundtrip TreeRoundtrip
  ParserShape FetchExamples FetchIdemChoice FetchReparse.
Import ListNotations.
Local Open Scope char_scope.

(* ====================================================================================== *)
(* 1. value words                                                                          *)
(* ====================================================================================== *)

(* an alternative of a choice master, with its star removed, is a printable word *)
Definition alt_ok (w:word) : bool := word_ok (mkword (unstar (wv w)) (wq w) (wline w)).

Lemma word_ok_same : forall a b, wq a = wq b -> wv a = wv b -> word_ok a = word_ok b.
Proof. intros a b Hq Hv. unfold word_ok, isq. rewrite Hq, Hv. reflexivity. Qed.

Lemma count_nl_unstar : forall v, count_nl (unstar v) = count_nl v.
Proof.
  intros v. unfold unstar, starts_star. destruct v as [|c r]; [reflexivity|].
  destruct (Ascii.eqb c star) eqn:E; [|reflexivity].
  apply Ascii.eqb_eq in E. subst c. reflexivity.
Qed.

Lemma word_ok_starred : forall v q l, word_ok (mkword v q l) = true -> word_ok (mkword (star :: v) q l) = true.
Proof.
  intros v q l H. unfold word_ok, isq in *. cbn [wq wv] in *. destruct q; try reflexivity.
  cbn [orb] in *. apply andb_prop in H as [H _]. apply andb_prop in H as [H _].
  unfold unq_ok in *. apply andb_prop in H as [_ H].
  cbn [forallb]. rewrite H. reflexivity.
Qed.

(* the relation between a word of the converter's result and the master word it is built from *)
Definition restarred (a b:word) : Prop :=
  wq a = wq b /\ (wv a = unstar (wv b) \/ wv a = star :: unstar (wv b)).

Lemma restarred_word_ok : forall a b, restarred a b -> alt_ok b = true -> word_ok a = true.
Proof.
  intros a b [Hq [Hv|Hv]] Hb; unfold alt_ok in Hb.
  - rewrite (word_ok_same a (mkword (unstar (wv b)) (wq b) (wline b))); [exact Hb|exact Hq|exact Hv].
  - rewrite (word_ok_same a (mkword (star :: unstar (wv b)) (wq b) (wline b))); [|exact Hq|exact Hv].
    apply word_ok_starred. exact Hb.
Qed.

Lemma restarred_lines : forall r m, Forall2 restarred r m -> forall p, lines_ok p r = lines_ok p m.
Proof.
  intros r m H. induction H as [|a b r m [Hq Hv] _ IH]; intros p; [reflexivity|].
  cbn [lines_ok]. unfold isq. rewrite Hq.
  assert (E : count_nl (wv a) = count_nl (wv b)).
  { destruct Hv as [Hv|Hv]; rewrite Hv; [apply count_nl_unstar|]. cbn [count_nl]. apply count_nl_unstar. }
  rewrite E, IH. reflexivity.
Qed.

Lemma Forall2_restarred : forall r m,
  Forall2 (fun a b => wv a = unstar (wv b) \/ wv a = star :: unstar (wv b)) r m ->
  map wq r = map wq m -> Forall2 restarred r m.
Proof.
  intros r m H. induction H as [|a b r m Hab _ IH]; intros Hq; [constructor|].
  cbn [map] in Hq. injection Hq as Hq1 Hq2. constructor; [split; assumption|apply IH; exact Hq2].
Qed.

(* the words the choice converter hands back are printable *)
Lemma choice_fetch_words_ok : forall opt m src ign r,
  m <> [] -> lines_ok 0 m = true -> forallb alt_ok m = true ->
  choice_fetch opt m src ign = Ok r -> r <> [] /\ words_ok r = true.
Proof.
  intros opt m src ign r Hne Hl Ha H. destruct (alternatives_kept opt m src ign r H) as [A B].
  destruct (is_plain_auto src) eqn:Ea.
  - rewrite (A eq_refl). split; [discriminate|reflexivity].
  - destruct (B eq_refl) as [Hlen [Hq [_ [F _]]]].
    split; [intros ->; destruct m; [congruence|discriminate Hlen]|].
    pose proof (Forall2_restarred r m F Hq) as R.
    unfold words_ok. rewrite (restarred_lines r m R), Hl, andb_true_r.
    clear -R Ha. induction R as [|a b r m Hab _ IH]; [reflexivity|].
    cbn [forallb] in *. apply andb_prop in Ha as [Ha1 Ha2].
    rewrite (restarred_word_ok a b Hab Ha1), (IH Ha2). reflexivity.
Qed.

(* ====================================================================================== *)
(* 2. predicates inherited by the objects inside a source                                  *)
(* ====================================================================================== *)
Section Hereditary.
  Variable P : obj -> Prop.
  Hypothesis P_kid : forall h ks a k, P (Scp h ks a) -> In k ks -> P k.

  Definition lall (l:list lsrc) : Prop := forall s, In s l -> P (lobj s).

  Lemma kids_at_all : forall p ks chain, (forall k, In k ks -> P k) -> lall (kids_at p ks chain).
  Proof.
    intros p ks chain H s Hs. unfold kids_at in Hs. apply in_map_iff in Hs. destruct Hs as [[j k] [E Hk]]. subst s.
    cbn. apply H. eapply In_index_from. exact Hk.
  Qed.

  Lemma gwsp_all : forall o n p ch s, P o -> In s (gwsp p ch n o) -> P (lobj s).
  Proof.
    induction o as [h ws a|h ks a IH] using obj_ind2; intros n p ch s Ho Hs.
    - cbn in Hs. destruct (odis h || negb (eqs (oname h) n)); [destruct Hs|]. destruct Hs as [E|[]]. subst s. exact Ho.
    - cbn [gwsp] in Hs. destruct (odis h); [destruct Hs|].
      assert (Hk : forall k, In k ks -> P k) by (intros; eapply P_kid; eassumption).
      assert (Hin : forall pth j,
        In s ((fix go (j:nat) (l:list obj) : list lsrc :=
                 match l with
                 | [] => []
                 | k :: r => (if odis (ohdr k) then [] else gwsp (p ++ [j]) (ks :: ch) pth k) ++ go (S j) r
                 end) j ks) -> P (lobj s)).
      { intros pth. generalize (ks :: ch) as c1. clear Hs Ho. revert Hk.
        induction IH as [|k r Hk0 _ IHr]; intros Hk c1 j Hs; [destruct Hs|].
        apply in_app_or in Hs. destruct Hs as [Hs|Hs].
        - destruct (odis (ohdr k)); [destruct Hs|]. eapply Hk0; [apply Hk; left; reflexivity|exact Hs].
        - eapply IHr; [intros; apply Hk; right; assumption|exact Hs]. }
      destruct (oname h) as [|c nm].
      + destruct n as [|c n]; [|eapply Hin; exact Hs]. eapply kids_at_all; eassumption.
      + destruct (eqs (c :: nm) n); [destruct Hs as [E|[]]; subst s; exact Ho|].
        destruct (prefixb ((c :: nm) ++ ["."]) n); [eapply Hin; exact Hs|destruct Hs].
  Qed.

  Lemma match_sources_all : forall n l, lall l -> lall (match_sources n l).
  Proof.
    intros n l H s Hs. unfold match_sources in Hs. apply filter_In in Hs. destruct Hs as [Hs _].
    apply in_flat_map in Hs. destruct Hs as [x [Hx Hs]]. destruct (odis (ohdr (lobj x))); [destruct Hs|].
    eapply gwsp_all; [apply H; exact Hx|exact Hs].
  Qed.

  Lemma src_kids_all : forall ms, lall ms -> lall (flat_map src_kids ms).
  Proof.
    intros ms H s Hs. apply in_flat_map in Hs. destruct Hs as [x [Hx Hs]]. unfold src_kids in Hs.
    pose proof (H _ Hx) as Hp. destruct (lobj x) as [h ws a|h ks a]; [destruct Hs|].
    eapply kids_at_all; [|exact Hs]. intros k Hk. eapply P_kid; eassumption.
  Qed.

  Lemma combine_all : forall ms comb, lall ms -> combine ms = Ok comb -> lall comb.
  Proof.
    intros ms comb H Hc. destruct (combine_ok ms comb Hc) as [E _]. subst comb. apply src_kids_all. exact H.
  Qed.

  Lemma self_matching_all : forall allks chain i n, (forall k, In k allks -> P k) -> lall (self_matching allks chain i n).
  Proof.
    intros allks chain i n H s Hs. unfold self_matching in Hs. apply filter_In in Hs. destruct Hs as [Hs _].
    apply in_flat_map in Hs. destruct Hs as [[j k] [Hjk Hs]]. cbn [fst snd] in Hs.
    destruct ((j =? i)%nat || odis (ohdr k)); [destruct Hs|].
    eapply gwsp_all; [|exact Hs]. apply H. eapply In_index_from. exact Hjk.
  Qed.

  Lemma root_lsrcs_all : forall srcs, (forall t k, In t srcs -> In k t -> P k) -> lall (root_lsrcs srcs).
  Proof.
    intros srcs H s Hs. unfold root_lsrcs in Hs. apply in_flat_map in Hs. destruct Hs as [[i t] [Hit Hs]].
    cbn [fst snd] in Hs. eapply kids_at_all; [|exact Hs]. intros k Hk. eapply H; [eapply In_index_from; exact Hit|exact Hk].
  Qed.
End Hereditary.

(* a usable source object: every definition in it has a non-empty printable value, no "$" *)
Definition src_ok (o:obj) : Prop := defs_words_ok o = true /\ oplain o.

Lemma src_ok_kid : forall h ks a k, src_ok (Scp h ks a) -> In k ks -> src_ok k.
Proof.
  intros h ks a k [Hw Hp] Hk. split.
  - cbn [defs_words_ok] in Hw. rewrite forallb_forall in Hw. apply Hw. exact Hk.
  - apply (proj1 (oplain_scp h ks a) Hp). exact Hk.
Qed.

Definition lsrc_ok (l:list lsrc) : Prop := lall src_ok l.

Lemma src_ok_def : forall h ws a, src_ok (Def h ws a) -> ws <> [] /\ words_ok ws = true /\ words_plain ws.
Proof.
  intros h ws a [Hw Hp]. cbn [defs_words_ok] in Hw. apply andb_prop in Hw as [H1 H2].
  split; [intros ->; discriminate H1|]. split; [exact H2|]. apply (proj1 (oplain_def h ws a)). exact Hp.
Qed.

(* ====================================================================================== *)
(* 3. facts about shown / dtree_ok                                                         *)
(* ====================================================================================== *)
Lemma dtree_ok_words : forall o m, dtree_ok m o = true -> defs_words_ok o = true.
Proof.
  induction o as [h ws a|h ks a IH] using obj_ind2; intros m H; cbn [dtree_ok defs_words_ok] in *.
  - apply andb_prop in H as [H H2]. apply andb_prop in H as [_ H1]. rewrite H1, H2. reflexivity.
  - destruct (first_merges ks).
    + apply andb_prop in H as [_ H]. destruct ks as [|k [|k2 r]]; try discriminate H.
      inversion IH as [|? ? Hk _]; subst. cbn [forallb]. rewrite (Hk _ H). reflexivity.
    + apply andb_prop in H as [_ H]. apply forallb_forall. intros k Hk.
      rewrite Forall_forall in IH. rewrite forallb_forall in H. eapply IH; [exact Hk|apply H; exact Hk].
Qed.

Lemma dtree_ok_tmpl : forall o m, dtree_ok m o = true -> otmpl (ohdr o) = 0%Z.
Proof.
  intros [h ws a|h ks a] m H; cbn [dtree_ok ohdr] in *.
  - do 3 (apply andb_prop in H as [H _]). apply leaf_ok_facts in H. apply H.
  - destruct (first_merges ks).
    + apply andb_prop in H as [H _]. apply andb_prop in H as [H _]. apply andb_prop in H as [_ H]. apply Z.eqb_eq. exact H.
    + apply andb_prop in H as [H _]. apply leaf_ok_facts in H. apply H.
Qed.

Lemma dtree_ok_merge : forall o m, dtree_ok m o = true -> omerge (ohdr o) = negb (is_nil m).
Proof.
  intros [h ws a|h ks a] m H; cbn [dtree_ok ohdr] in *.
  - do 3 (apply andb_prop in H as [H _]). apply leaf_ok_facts in H. apply H.
  - destruct (first_merges ks).
    + apply andb_prop in H as [H _]. apply andb_prop in H as [_ H]. apply eqb_prop. exact H.
    + apply andb_prop in H as [H _]. apply leaf_ok_facts in H. apply H.
Qed.

(* in C01's domain every is_template is 0: nothing is hidden, shown changes nothing *)
Lemma dtree_ok_shown_obj : forall o m, dtree_ok m o = true -> shown_obj o = o.
Proof.
  induction o as [h ws a|h ks a IH] using obj_ind2; intros m H.
  - pose proof (dtree_ok_tmpl _ _ H) as Ht. cbn [ohdr] in Ht. cbn [shown_obj]. rewrite (with_tmpl_id h 0%Z Ht). reflexivity.
  - pose proof (dtree_ok_tmpl _ _ H) as Ht. cbn [ohdr] in Ht. rewrite shown_obj_scp, (with_tmpl_id h 0%Z Ht). f_equal.
    cbn [dtree_ok] in H. destruct (first_merges ks).
    + apply andb_prop in H as [_ H]. destruct ks as [|k [|k2 r]]; try discriminate H.
      inversion IH as [|? ? Hk _]; subst. cbn [shown]. unfold hidden. rewrite (dtree_ok_tmpl _ _ H). cbn.
      rewrite (Hk _ H). reflexivity.
    + apply andb_prop in H as [_ H]. clear Ht. induction IH as [|k r Hk _ IHr]; [reflexivity|].
      cbn [forallb] in H. apply andb_prop in H as [H1 H2]. cbn [shown]. unfold hidden. rewrite (dtree_ok_tmpl _ _ H1). cbn.
      rewrite (Hk _ H1), (IHr H2). reflexivity.
Qed.

Lemma shown_obj_set_tmpl : forall o z, shown_obj (set_hdr o (with_tmpl (ohdr o) z)) = shown_obj o.
Proof. intros [h ws a|h ks a] z; reflexivity. Qed.

Lemma shown_visible : forall l, (forall c, In c l -> hidden c = false) -> shown l = map shown_obj l.
Proof.
  induction l as [|k r IH]; intros H; [reflexivity|]. cbn [shown map].
  rewrite (H k (or_introl eq_refl)). f_equal. apply IH. intros c Hc. apply H. right. exact Hc.
Qed.

Lemma attr_true_truthy : forall n o, attr_true n o = py_truthy (get_attr n (oattrs o)).
Proof. intros n o. unfold attr_true, py_truthy. destruct (get_attr n (oattrs o)) as [| | | |s|]; try reflexivity. destruct s; reflexivity. Qed.

(* ====================================================================================== *)
(* 4. the conditions on the master                                                         *)
(* ====================================================================================== *)
(* an object carrying merge_names - the last component of a dotted name - is neither .multiple nor
   disabled *)
Fixpoint merged_plain (o:obj) : bool :=
  (negb (omerge (ohdr o)) || (negb (omultiple o) && negb (odis (ohdr o))))
  && match o with Def _ _ _ => true | Scp _ ks _ => forallb merged_plain ks end.

(* the alternatives of every choice-typed definition are printable without their star *)
Fixpoint choice_alts_ok (o:obj) : bool :=
  match o with
  | Def _ ws a => if choice_typed a then forallb alt_ok ws else true
  | Scp _ ks _ => forallb choice_alts_ok ks
  end.

(* a master object below the prefix scopes mm *)
Definition mok (mm:list str) (k:obj) : Prop :=
  dtree_ok mm k = true /\ merged_plain k = true /\ choice_alts_ok k = true /\ oplain k.

Lemma mok_src_ok : forall mm k, mok mm k -> src_ok k.
Proof. intros mm k [Hd [_ [_ Hp]]]. split; [eapply dtree_ok_words; exact Hd|exact Hp]. Qed.

Lemma mok_kids_braces : forall mm h ks a, mok mm (Scp h ks a) -> first_merges ks = false ->
  forall k, In k ks -> mok [] k.
Proof.
  intros mm h ks a [Hd [Hm [Hc Hp]]] Hf k Hk. cbn [dtree_ok] in Hd. rewrite Hf in Hd.
  apply andb_prop in Hd as [_ Hd]. rewrite forallb_forall in Hd.
  cbn [merged_plain] in Hm. apply andb_prop in Hm as [_ Hm]. rewrite forallb_forall in Hm.
  cbn [choice_alts_ok] in Hc. rewrite forallb_forall in Hc.
  split; [apply Hd; exact Hk|]. split; [apply Hm; exact Hk|]. split; [apply Hc; exact Hk|].
  apply (proj1 (oplain_scp h ks a) Hp). exact Hk.
Qed.

Lemma mok_kid_merged : forall mm h ks a, mok mm (Scp h ks a) -> first_merges ks = true ->
  exists k, ks = [k] /\ mok (mm ++ [oname h]) k /\ omerge (ohdr k) = true /\ omultiple k = false /\ odis (ohdr k) = false.
Proof.
  intros mm h ks a [Hd [Hm [Hc Hp]]] Hf. cbn [dtree_ok] in Hd. rewrite Hf in Hd.
  apply andb_prop in Hd as [_ Hd]. destruct ks as [|k [|k2 r]]; try discriminate Hd.
  exists k. split; [reflexivity|]. cbn [first_merges] in Hf.
  cbn [merged_plain forallb] in Hm. apply andb_prop in Hm as [_ Hm]. rewrite andb_true_r in Hm.
  cbn [choice_alts_ok forallb] in Hc. rewrite andb_true_r in Hc.
  split; [|split; [exact Hf|]].
  - split; [exact Hd|]. split; [exact Hm|]. split; [exact Hc|].
    apply (proj1 (oplain_scp h [k] a) Hp). left. reflexivity.
  - destruct k as [hk wk ak|hk kk ak]; cbn [merged_plain ohdr] in Hm; cbn [ohdr] in Hf; rewrite Hf in Hm; cbn [negb orb] in Hm;
      apply andb_prop in Hm as [Hm _]; apply andb_prop in Hm as [H1 H2]; apply negb_true_iff in H1, H2; split; assumption.
Qed.

(* ====================================================================================== *)
(* 5. the fetch recursion                                                                  *)
(* ====================================================================================== *)
(* what one master entry contributes: every shown object is in the domain below the prefix mm and
   carries the entry's merge flag; a non-multiple entry contributes exactly one shown object *)
Definition blk_ok (mm:list str) (k:obj) (b:list obj) : Prop :=
  (forall c, In c (shown b) -> dtree_ok mm c = true /\ omerge (ohdr c) = omerge (ohdr k)) /\
  (omultiple k = false -> exists c, shown b = [c]).

(* an instance (a copy of the entry k with a value): not hidden, in the domain *)
Definition inst_ok (mm:list str) (k c:obj) : Prop :=
  hidden c = false /\ dtree_ok mm (shown_obj c) = true /\ omerge (ohdr c) = omerge (ohdr k).

(* scope.fetch of the master scope k on usable combined sources *)
Definition rec_dom (mm:list str) (k:obj) (rec:list lsrc -> res fout) : Prop :=
  forall comb oc, lsrc_ok comb -> rec comb = Ok oc ->
    dtree_ok mm (Scp (with_tmpl (ohdr k) 0) (shown (fst oc)) (oattrs k)) = true.

(* the objects of a result scope printed with braces (or of the root) *)
Definition kids_ok (os:list obj) : Prop :=
  forall c, In c (shown os) -> dtree_ok [] c = true /\ omerge (ohdr c) = false.

Lemma kids_ok_nil : kids_ok [].
Proof. intros c []. Qed.
Lemma kids_ok_app : forall a b, kids_ok a -> kids_ok b -> kids_ok (a ++ b).
Proof. intros a b Ha Hb c Hc. rewrite shown_app in Hc. apply in_app_or in Hc. destruct Hc; [apply Ha|apply Hb]; assumption. Qed.

Lemma dcopy_inst : forall mm h mws a w, dtree_ok mm (Def h mws a) = true -> w <> [] -> words_ok w = true ->
  inst_ok mm (Def h mws a) (dcopy h a w).
Proof.
  intros mm h mws a w H Hne Hw. pose proof (dtree_ok_tmpl _ _ H) as Ht. cbn [ohdr] in Ht.
  unfold dcopy. rewrite (with_tmpl_id h 0%Z Ht).
  split; [unfold hidden; cbn [ohdr]; rewrite Ht; reflexivity|]. split; [|reflexivity].
  cbn [shown_obj]. rewrite (with_tmpl_id h 0%Z Ht). cbn [dtree_ok] in *.
  apply andb_prop in H as [H _]. apply andb_prop in H as [H _]. rewrite H, Hw.
  destruct w; [congruence|reflexivity].
Qed.

Section Dom.
  Variable env : str -> option str.
  Variable canon : obj -> option obj -> res str.

  (* -------------------------------------------------------------- definitions *)
  Lemma def_fetch_value_dom : forall dm h mws a s o,
    mws <> [] -> words_ok mws = true -> (choice_typed a = true -> forallb alt_ok mws = true) ->
    src_ok (lobj s) ->
    def_fetch_value env dm h mws a s = Ok (Some o) -> exists w, o = dcopy h a w /\ w <> [] /\ words_ok w = true.
  Proof.
    intros dm h mws a s o Hne Hok Hch Hs H. unfold def_fetch_value in H.
    destruct (lobj s) as [h0 ws0 a0|] eqn:Es; [|discriminate].
    destruct (src_ok_def _ _ _ Hs) as [Hne0 [Hok0 Hpl0]].
    rewrite resolve_plain in H by exact Hpl0. cbn [bind owords] in H.
    destruct (odeprecated (Def h mws a) && sval_eqb (strings_from_words ws0) (strings_from_words mws)); [discriminate|].
    assert (Hsrc : forall x, Ok (Some (dcopy h a ws0)) = Ok (Some x) -> exists w, x = dcopy h a w /\ w <> [] /\ words_ok w = true).
    { intros x E. injection E as E. subst x. exists ws0. auto. }
    destruct (get_attr (s_ "type") a) as [| | | | |t] eqn:Et; try (apply Hsrc; exact H).
    destruct t; try (apply Hsrc; exact H).
    - bind_inv H as cw Hcw. injection H as E. subst o. exists cw. split; [reflexivity|].
      unfold words_ok in Hok. apply andb_prop in Hok as [_ Hl].
      eapply choice_fetch_words_ok; [exact Hne|exact Hl| |exact Hcw].
      apply Hch. unfold choice_typed. rewrite Et. reflexivity.
    - destruct (prefixb (s_ "float") printed || prefixb (s_ "int") printed); [|discriminate]. apply Hsrc. exact H.
  Qed.

  Lemma def_facts : forall mm h mws a, mok mm (Def h mws a) ->
    mws <> [] /\ words_ok mws = true /\ (choice_typed a = true -> forallb alt_ok mws = true) /\ odeprecated (Def h mws a) = false.
  Proof.
    intros mm h mws a [Hd [_ [Hc _]]]. cbn [dtree_ok] in Hd.
    apply andb_prop in Hd as [Hd Hw]. apply andb_prop in Hd as [Hd Hn]. apply andb_prop in Hd as [_ Hdep].
    split; [intros ->; discriminate Hn|]. split; [exact Hw|]. split.
    - intros Hct. cbn [choice_alts_ok] in Hc. rewrite Hct in Hc. exact Hc.
    - unfold odeprecated. rewrite attr_true_truthy. cbn [oattrs]. apply negb_true_iff. exact Hdep.
  Qed.

  Lemma def_value_inst : forall mm dm h mws a s o, mok mm (Def h mws a) -> src_ok (lobj s) ->
    def_fetch_value env dm h mws a s = Ok (Some o) -> inst_ok mm (Def h mws a) o.
  Proof.
    intros mm dm h mws a s o Hk Hs H. destruct (def_facts _ _ _ _ Hk) as [Hne [Hok [Hch _]]].
    destruct (def_fetch_value_dom dm h mws a s o Hne Hok Hch Hs H) as [w [E [Hw1 Hw2]]]. subst o.
    apply dcopy_inst; [apply Hk|exact Hw1|exact Hw2].
  Qed.

  (* -------------------------------------------------------------- one candidate of a multiple *)
  Lemma cand_fetch_dom : forall mm k rec s c u, mok mm k -> rec_dom mm k rec -> src_ok (lobj s) ->
    cand_fetch env canon false k rec s = Ok (Some c, u) -> inst_ok mm k c.
  Proof.
    intros mm k rec s c u Hk Hrec Hs H. destruct k as [h mws a|h ks a]; cbn [cand_fetch] in H.
    - bind_inv H as r Hr. injection H as E _. subst r. unfold def_fetch in Hr.
      eapply def_value_inst; eassumption.
    - bind_inv H as comb Hcomb. bind_inv H as oc Hoc. injection H as E _. subst c.
      assert (Hc : lsrc_ok comb).
      { eapply (combine_all src_ok src_ok_kid); [|exact Hcomb]. intros x [Ex|[]]. subst x. exact Hs. }
      pose proof (Hrec comb oc Hc Hoc) as D. cbn [ohdr oattrs] in D.
      split; [reflexivity|]. split; [exact D|reflexivity].
  Qed.

  (* -------------------------------------------------------------- the double loop *)
  Lemma mult_loop_all : forall (Q:obj -> Prop) k rec mas cands pd robjs used st,
    (forall fm s c u, In (fm, s) cands -> cand_fetch env canon false k rec s = Ok (Some c, u) -> Q c) ->
    (forall c, In (Some c) robjs -> Q c) ->
    mult_loop env canon false k rec mas cands pd robjs used = Ok st ->
    forall c, In (Some c) (snd (fst st)) -> Q c.
  Proof.
    intros Q k rec mas cands. induction cands as [|[fm s] r IH]; intros pd robjs used st Hc Hr H.
    - cbn in H. injection H as E. subst st. exact Hr.
    - cbn [mult_loop] in H. bind_inv H as cc Hcc. destruct cc as [cand u]. cbn [fst snd] in H.
      unfold diff_skip in H. cbn [andb] in H. bind_inv H as cs Hcs.
      assert (Hc' : forall fm s c u, In (fm, s) r -> cand_fetch env canon false k rec s = Ok (Some c, u) -> Q c)
        by (intros; eapply Hc; [right; eassumption|eassumption]).
      assert (Hnew : forall l, (forall c, In (Some c) l -> Q c) -> forall c, In (Some c) (l ++ [cand]) -> Q c).
      { intros l Hl c Hin. apply in_app_or in Hin. destruct Hin as [Hin|[E|[]]]; [apply Hl; exact Hin|].
        subst cand. eapply Hc; [left; reflexivity|exact Hcc]. }
      destruct (eqs cs mas); [eapply IH; eassumption|].
      destruct (pget cs pd) as [[i|]|].
      + eapply IH; [exact Hc'| |exact H]. apply Hnew. intros c Hin. apply Hr. eapply set_none_In. exact Hin.
      + eapply IH; eassumption.
      + eapply IH; [exact Hc'| |exact H]. apply Hnew. exact Hr.
  Qed.

  (* -------------------------------------------------------------- one master entry *)
  Lemma insts_shown : forall mm k l, (forall c, In c l -> inst_ok mm k c) ->
    shown l = map shown_obj l /\
    forall c, In c (map shown_obj l) -> dtree_ok mm c = true /\ omerge (ohdr c) = omerge (ohdr k).
  Proof.
    intros mm k l H. split; [apply shown_visible; intros c Hc; apply (H c Hc)|].
    intros c Hc. apply in_map_iff in Hc. destruct Hc as [x [E Hx]]. subst c.
    destruct (H x Hx) as [_ [A B]]. rewrite omerge_shown_obj. auto.
  Qed.

  Lemma fetch_one_dom : forall mm allks chain i k rec srcs b u,
    mok mm k -> rec_dom mm k rec -> (forall x, In x allks -> src_ok x) -> lsrc_ok srcs ->
    fetch_one env canon false allks chain i k rec srcs = Ok (b, u) -> blk_ok mm k b.
  Proof.
    intros mm allks chain i k rec srcs b u Hk Hrec Hall Hs H. unfold fetch_one in H.
    destruct (get_attr (s_ "alias") (oattrs k)); try discriminate.
    destruct (oname (ohdr k)) as [|c0 nm] eqn:En; [discriminate|].
    pose proof (match_sources_all src_ok src_ok_kid (c0 :: nm) srcs Hs) as Hm.
    pose proof (proj1 Hk) as Hd.
    assert (Hself : shown_obj k = k) by (eapply dtree_ok_shown_obj; exact Hd).
    assert (Hvis : hidden k = false) by (unfold hidden; rewrite (dtree_ok_tmpl _ _ Hd); reflexivity).
    destruct (omultiple k) eqn:Em; cbn [negb] in H.
    - (* multiple *)
      bind_inv H as mas Hmas. bind_inv H as st Hst. destruct st as [[pd robjs] used]. injection H as Eb _. subst b.
      assert (Hin : forall c, In c (somes robjs) -> inst_ok mm k c).
      { intros c Hc. apply In_somes in Hc.
        apply (mult_loop_all (inst_ok mm k) k rec mas _ [] [] [] _) with (c := c) in Hst; [exact Hst| |intros x []|exact Hc].
        intros fm s c1 u1 Hfs Hcf. eapply cand_fetch_dom; [exact Hk|exact Hrec| |exact Hcf].
        apply in_app_or in Hfs. destruct Hfs as [Hfs|Hfs]; apply in_map_iff in Hfs; destruct Hfs as [x [E Hx]]; injection E as _ E; subst x.
        - eapply (self_matching_all src_ok src_ok_kid); [exact Hall|exact Hx].
        - apply Hm. exact Hx. }
      destruct (insts_shown mm k _ Hin) as [Esh Hall2].
      split; [|intros E; rewrite Em in E; discriminate E].
      intros c Hc. cbn [app shown] in Hc. rewrite Esh in Hc.
      assert (HT : shown_obj (template_of k pd) = k) by (unfold template_of; rewrite shown_obj_set_tmpl; exact Hself).
      destruct (hidden (template_of k pd)); [apply Hall2; exact Hc|].
      destruct Hc as [E|Hc]; [|apply Hall2; exact Hc]. rewrite HT in E. subst c. auto.
    - destruct k as [h mws a|h ks a].
      + (* definition *)
        bind_inv H as ro Hro. split; [|intros _].
        * destruct ro as [o|].
          -- injection H as Eb _. subst b.
             destruct (def_loop_last env canon _ _ _ _ _ _ Hro) as [[_ E]|[s [Hs0 Hfv]]]; [discriminate|].
             destruct (def_value_inst mm false h mws a s o Hk (Hm s Hs0) Hfv) as [A [B C]].
             intros c Hc. cbn [shown] in Hc. rewrite A in Hc. destruct Hc as [E|[]]. subst c. rewrite omerge_shown_obj. auto.
          -- destruct (def_facts _ _ _ _ Hk) as [_ [_ [_ Hdep]]]. rewrite Hdep in H. cbn [negb andb] in H.
             injection H as Eb _. subst b. intros c Hc. cbn [shown] in Hc. rewrite Hvis, Hself in Hc.
             destruct Hc as [E|[]]. subst c. auto.
        * destruct ro as [o|].
          -- injection H as Eb _. subst b.
             destruct (def_loop_last env canon _ _ _ _ _ _ Hro) as [[_ E]|[s [Hs0 Hfv]]]; [discriminate|].
             destruct (def_value_inst mm false h mws a s o Hk (Hm s Hs0) Hfv) as [A _].
             cbn [shown]. rewrite A. eauto.
          -- destruct (def_facts _ _ _ _ Hk) as [_ [_ [_ Hdep]]]. rewrite Hdep in H. cbn [negb andb] in H.
             injection H as Eb _. subst b. cbn [shown]. rewrite Hvis. eauto.
      + (* scope *)
        bind_inv H as comb Hcomb. bind_inv H as oc Hoc. cbn [andb] in H. injection H as Eb _. subst b.
        assert (Hc : lsrc_ok comb) by (eapply (combine_all src_ok src_ok_kid); [exact Hm|exact Hcomb]).
        pose proof (Hrec comb oc Hc Hoc) as D. cbn [ohdr oattrs] in D.
        split; [|intros _; cbn [shown]; unfold hidden, scopy; cbn; eauto].
        intros c Hc0. cbn [shown] in Hc0. unfold hidden, scopy in Hc0. cbn in Hc0. destruct Hc0 as [E|[]]. subst c.
        split; [exact D|reflexivity].
  Qed.

  (* -------------------------------------------------------------- the loop over the entries *)
  Lemma mloop_all : forall (body:nat -> obj -> res fout) (R:list obj -> Prop) l,
    R [] -> (forall a b, R a -> R b -> R (a ++ b)) ->
    (forall i k o, In k l -> odis (ohdr k) = false -> body i k = Ok o -> R (fst o)) ->
    forall seen i o, mloop body seen i l = Ok o -> R (fst o).
  Proof.
    intros body R l Hnil Happ. induction l as [|k r IH]; intros Hb seen i o H.
    - cbn in H. injection H as E. subst o. exact Hnil.
    - cbn [mloop] in H.
      assert (Hr : forall i k o, In k r -> odis (ohdr k) = false -> body i k = Ok o -> R (fst o))
        by (intros; eapply Hb; [right; eassumption|eassumption|eassumption]).
      destruct (mao_step seen k) as [| |seen'] eqn:Es.
      + eapply IH; eassumption.
      + discriminate.
      + bind_inv H as x Hx. bind_inv H as y Hy. injection H as E. subst o. cbn [fst].
        apply Happ; [|eapply IH; eassumption].
        eapply Hb; [left; reflexivity| |exact Hx].
        unfold mao_step in Es. destruct (odis (ohdr k)); [discriminate Es|reflexivity].
  Qed.

  Notation fsc := (fetch_scope env canon false).

  Lemma mloop_kids_dom : forall ks chain srcs oc,
    Forall (fun k => forall mm, mok mm k -> forall ch, rec_dom mm k (fsc k ch)) ks ->
    (forall k, In k ks -> mok [] k) -> lsrc_ok srcs ->
    mloop (fun i k => fetch_one env canon false ks (ks :: chain) i k (fsc k (ks :: chain)) srcs) [] 0 ks = Ok oc ->
    kids_ok (fst oc).
  Proof.
    intros ks chain srcs oc IH Hks Hs H. rewrite Forall_forall in IH.
    eapply (mloop_all _ kids_ok ks kids_ok_nil kids_ok_app); [|exact H].
    intros i k [b u] Hk _ Hb. cbn [fst].
    pose proof (fetch_one_dom [] ks (ks :: chain) i k _ srcs b u (Hks k Hk) (IH k Hk [] (Hks k Hk) (ks :: chain))
                  (fun x Hx => mok_src_ok [] x (Hks x Hx)) Hs Hb) as [B _].
    intros c Hc. destruct (B c Hc) as [A M]. split; [exact A|].
    rewrite M, (dtree_ok_merge _ _ (proj1 (Hks k Hk))). reflexivity.
  Qed.

  Lemma kids_ok_forallb : forall os, kids_ok os -> forallb (dtree_ok []) (shown os) = true /\ first_merges (shown os) = false.
  Proof.
    intros os H. split; [apply forallb_forall; intros c Hc; apply (H c Hc)|].
    unfold kids_ok in H. destruct (shown os) as [|c r]; [reflexivity|]. cbn [first_merges]. apply (H c). left. reflexivity.
  Qed.

  Lemma fetch_scope_dom : forall M mm, mok mm M -> forall chain, rec_dom mm M (fsc M chain).
  Proof.
    induction M as [h ws a|h ks a IH] using obj_ind2; intros mm HM chain comb oc Hc H.
    - cbn in H. discriminate.
    - cbn [fetch_scope] in H. cbn [ohdr oattrs].
      pose proof (proj1 HM) as Hd. pose proof (dtree_ok_tmpl _ _ Hd) as Ht. cbn [ohdr] in Ht.
      rewrite (with_tmpl_id h 0%Z Ht). cbn [dtree_ok] in Hd |- *.
      destruct (first_merges ks) eqn:Efm.
      + (* a prefix scope: its only child carries merge_names, is active and not multiple *)
        destruct (mok_kid_merged mm h ks a HM Efm) as [k [E [Hk [Hmg [Hnm Hact]]]]]. subst ks.
        apply andb_prop in Hd as [Hhd _].
        cbn [mloop] in H. unfold mao_step in H. rewrite Hact in H. cbn [seen_get] in H.
        bind_inv H as x Hx. cbn [bind] in H. injection H as E. subst oc. cbn [fst]. rewrite app_nil_r.
        destruct x as [b u]. cbn [fst].
        inversion IH as [|? ? IHk _]; subst.
        pose proof (fetch_one_dom (mm ++ [oname h]) [k] ([k] :: chain) 0 k _ comb b u Hk (IHk _ Hk ([k] :: chain))
                      (fun x Hx => match Hx with or_introl E => eq_ind _ _ (mok_src_ok _ _ Hk) _ E | or_intror F => match F with end end)
                      Hc Hx) as [B1 B2].
        destruct (B2 Hnm) as [c Ec]. rewrite Ec in B1 |- *.
        destruct (B1 c (or_introl eq_refl)) as [A M]. cbn [first_merges]. rewrite M, Hmg, Hhd. exact A.
      + apply andb_prop in Hd as [Hl _].
        pose proof (mloop_kids_dom ks chain comb oc IH (mok_kids_braces mm h ks a HM Efm) Hc H) as K.
        destruct (kids_ok_forallb _ K) as [A B]. rewrite B, Hl, A. reflexivity.
  Qed.
End Dom.

(* ====================================================================================== *)
(* 6. the preservation theorem                                                             *)
(* ====================================================================================== *)
Theorem fetch_result_in_domain : forall env canon m srcs w,
  forallb (dtree_ok []) m = true -> master_plain m ->
  forallb merged_plain m = true -> forallb choice_alts_ok m = true ->
  srcs_have_dollar srcs = false -> forallb (forallb defs_words_ok) srcs = true ->
  fetch env canon false m srcs = Ok w ->
  forallb (dtree_ok []) (shown w) = true.
Proof.
  intros env canon m srcs w Hd Hp Hm Hc Hsd Hsw H. unfold fetch in H. bind_inv H as oc Hoc. injection H as E. subst w.
  unfold fetch_root, root_scope in Hoc. cbn [fetch_scope] in Hoc.
  assert (Hks : forall k, In k m -> mok [] k).
  { intros k Hk. rewrite forallb_forall in Hd, Hm, Hc.
    split; [apply Hd; exact Hk|]. split; [apply Hm; exact Hk|]. split; [apply Hc; exact Hk|].
    unfold oplain. destruct (obj_has_dollar k) eqn:Ek; [|reflexivity].
    unfold master_plain in Hp. assert (existsb obj_has_dollar m = true) by (apply existsb_exists; exists k; auto). congruence. }
  assert (Hs : lsrc_ok (root_lsrcs srcs)).
  { apply (root_lsrcs_all src_ok). intros t k Ht Hk. split.
    - rewrite forallb_forall in Hsw. pose proof (Hsw t Ht) as Hw. rewrite forallb_forall in Hw. apply Hw. exact Hk.
    - unfold oplain. destruct (obj_has_dollar k) eqn:Ek; [|reflexivity].
      assert (srcs_have_dollar srcs = true); [|congruence].
      unfold srcs_have_dollar. apply existsb_exists. exists t. split; [exact Ht|]. apply existsb_exists. exists k. auto. }
  apply kids_ok_forallb.
  eapply (mloop_kids_dom env canon m [] (root_lsrcs srcs) oc); [|exact Hks|exact Hs|exact Hoc].
  apply Forall_forall. intros k _ mm Hk ch. apply fetch_scope_dom. exact Hk.
Qed.

(* ====================================================================================== *)
(* 7. the text form of C07 for a parsed master and parsed sources                          *)
(* ====================================================================================== *)
Lemma parsed_sources_words : forall srcs, Forall (fun src => exists o s, parse o s = Ok src) srcs ->
  forallb (forallb defs_words_ok) srcs = true.
Proof.
  intros srcs H. apply forallb_forall. intros t Ht. rewrite Forall_forall in H.
  destruct (H t Ht) as [o [s Hp]]. eapply parse_words_ok. exact Hp.
Qed.

(* the hypothesis of refetch_text about W, for a parsed master and parsed sources *)
Theorem parsed_fetch_result_in_domain : forall env canon om sm m srcs w,
  parse om sm = Ok m -> no_deprecated_or_include m = true ->
  Forall (fun src => exists o s, parse o s = Ok src) srcs ->
  master_plain m -> srcs_have_dollar srcs = false ->
  forallb merged_plain m = true -> forallb choice_alts_ok m = true ->
  fetch env canon false m srcs = Ok w ->
  forallb (dtree_ok []) (shown w) = true.
Proof.
  intros env canon om sm m srcs w Hpm Hnd Hps Hmp Hsd Hmg Hch Hf.
  apply (fetch_result_in_domain env canon m srcs w (parse_lands_in_dtree_ok om sm m Hpm Hnd) Hmp Hmg Hch Hsd
           (parsed_sources_words srcs Hps) Hf).
Qed.

(* M parsed (no deprecated definition, no include line), every source parsed (each with its own
   oracle), M in D07, canon blind to word lines, no "$" in the sources, merged_plain and
   choice_alts_ok of M: if W = M.fetch(S) is printed at attributes level 0 (any width) and the text is
   parsed, fetching the parsed tree gives W up to the line numbers of value words, and every printed
   form of the two is identical. *)
Theorem refetch_text_parsed : forall env canon om sm m srcs o' w width text l,
  (forall k c c', optwe c c' -> canon k c = canon k c') ->
  parse om sm = Ok m -> no_deprecated_or_include m = true ->
  Forall (fun src => exists o s, parse o s = Ok src) srcs ->
  D07 env canon m -> srcs_have_dollar srcs = false ->
  forallb merged_plain m = true -> forallb choice_alts_ok m = true ->
  fetch env canon false m srcs = Ok w ->
  as_str w [] None 0 width = Ok text -> parse o' text = Ok l ->
  exists w', fetch env canon false m [l] = Ok w' /\ map we w' = map we w /\
             forall p e lv wd, as_str w' p e lv wd = as_str w p e lv wd.
Proof.
  intros env canon om sm m srcs o' w width text l Hcl Hpm Hnd Hps HD Hsd Hmg Hch Hf Htext Hparse.
  apply (refetch_text env canon o' m srcs w width text l Hcl HD (parsed_master_nohids om sm m Hpm Hnd) Hsd Hf
           (parsed_fetch_result_in_domain env canon om sm m srcs w Hpm Hnd Hps (proj2 HD) Hsd Hmg Hch Hf) Htext Hparse).
Qed.

(* ... and under the same conditions the print and the parse do succeed: W always has a text at level 0
   and the parser (with any oracle) accepts it *)
Theorem refetch_text_parsed_total : forall env canon om sm m srcs o' w width,
  (forall k c c', optwe c c' -> canon k c = canon k c') ->
  parse om sm = Ok m -> no_deprecated_or_include m = true ->
  Forall (fun src => exists o s, parse o s = Ok src) srcs ->
  D07 env canon m -> srcs_have_dollar srcs = false ->
  forallb merged_plain m = true -> forallb choice_alts_ok m = true ->
  fetch env canon false m srcs = Ok w ->
  exists text l w', as_str w [] None 0 width = Ok text /\ parse o' text = Ok l /\
             fetch env canon false m [l] = Ok w' /\ map we w' = map we w /\
             forall p e lv wd, as_str w' p e lv wd = as_str w p e lv wd.
Proof.
  intros env canon om sm m srcs o' w width Hcl Hpm Hnd Hps HD Hsd Hmg Hch Hf.
  pose proof (parsed_fetch_result_in_domain env canon om sm m srcs w Hpm Hnd Hps (proj2 HD) Hsd Hmg Hch Hf) as Hdt.
  pose proof (parsed_master_nohids om sm m Hpm Hnd) as Hnh.
  pose proof (fetch_mstables env canon m srcs w Hnh Hf) as Hms.
  pose proof (as_str_level0_total_dotted (shown w) width Hdt) as Hts.
  destruct (parse_as_str_level0_dotted o' (shown w) width _ Hdt Hts) as [l [Hl _]].
  pose proof Hts as Ht. rewrite (as_str_shown w [] None 0%Z width Hms eq_refl) in Ht.
  destruct (refetch_text_parsed env canon om sm m srcs o' w width _ l Hcl Hpm Hnd Hps HD Hsd Hmg Hch Hf Ht Hl) as [w' Hw'].
  eexists _, l, w'. split; [exact Ht|]. split; [exact Hl|exact Hw'].
Qed.

(* ====================================================================================== *)
(* 8. non-vacuity: a parsed master with a scope, a .multiple scope, a .multiple definition, *)
(*    a dotted name and a choice; two parsed sources                                        *)
(* ====================================================================================== *)
(* the converter of ".type = choice" is an oracle of the parser (Parser.ask) *)
Definition exd_oracle : oracle := [("T" :: s_ "nchoice" ++ ["000"], Ok (AType (TyChoice false)))].
Definition exd_master_text : str := s_ "a = 1
s .multiple = True {
  b = x
}
t {
  c = 5
  p.q = 0
}
d = 0
.multiple = True
e = *u v
.type = choice
".
Definition exd_src1_text : str := s_ "a = 2
s { b = y }
d = 7
e = v
".
Definition exd_src2_text : str := s_ "t { c = 6; p.q = 3 }
d = 8
s { b = z }
d = 7
".
Definition exd_master : list obj := Eval vm_compute in match parse exd_oracle exd_master_text with Ok l => l | _ => [] end.
Definition exd_src1 : list obj := Eval vm_compute in match parse [] exd_src1_text with Ok l => l | _ => [] end.
Definition exd_src2 : list obj := Eval vm_compute in match parse [] exd_src2_text with Ok l => l | _ => [] end.
Definition exd_result : list obj :=
  Eval vm_compute in match fetch ex_env ex_canon false exd_master [exd_src1; exd_src2] with Ok r => r | _ => [] end.
Definition exd_text : str := Eval vm_compute in match as_str exd_result [] None 0 None with Ok t => t | _ => [] end.
Definition exd_parsed : list obj := Eval vm_compute in match parse [] exd_text with Ok l => l | _ => [] end.
Definition exd_again : list obj :=
  Eval vm_compute in match fetch ex_env ex_canon false exd_master [exd_parsed] with Ok r => r | _ => [] end.

Ltac entry_def := split; [discriminate|]; split; [reflexivity|]; split; [intros H; discriminate H|];
  apply wfd_def; split; [reflexivity|]; split; [reflexivity|exact I].

Lemma exd_D07 : D07 ex_env ex_canon exd_master.
Proof.
  split; [|reflexivity]. unfold root_scope. apply wfd_scp.
  - vm_compute. repeat (constructor; [cbn; intuition discriminate|]). constructor.
  - intros k Hk. vm_compute in Hk. destruct Hk as [E|[E|[E|[E|[E|[]]]]]]; subst k.
    + entry_def.
    + split; [discriminate|]. split; [reflexivity|]. split.
      * intros _ chain. eexists. eexists. split; vm_compute; reflexivity.
      * apply wfd_scp.
        -- vm_compute. constructor; [intros []|constructor].
        -- intros k Hk. vm_compute in Hk. destruct Hk as [E|[]]. subst k. entry_def.
    + split; [discriminate|]. split; [reflexivity|]. split; [intros H; discriminate H|].
      apply wfd_scp.
      * vm_compute. repeat (constructor; [cbn; intuition discriminate|]). constructor.
      * intros k Hk. vm_compute in Hk. destruct Hk as [E|[E|[]]]; subst k.
        -- entry_def.
        -- split; [discriminate|]. split; [reflexivity|]. split; [intros H; discriminate H|].
           apply wfd_scp.
           ++ vm_compute. constructor; [intros []|constructor].
           ++ intros k Hk. vm_compute in Hk. destruct Hk as [E|[]]. subst k. entry_def.
    + split; [discriminate|]. split; [reflexivity|]. split.
      * intros _ chain. eexists. eexists. split; vm_compute; reflexivity.
      * apply wfd_def. split; [reflexivity|]. split; [reflexivity|exact I].
    + split; [discriminate|]. split; [reflexivity|]. split; [intros H; discriminate H|].
      apply wfd_def. split; [reflexivity|]. split; [reflexivity|].
      apply choice_stable_wf; [reflexivity|cbn; lia|].
      intros w Hw. repeat (destruct Hw as [E|Hw]; [subst w; reflexivity|]). destruct Hw.
Qed.

(* every hypothesis of fetch_result_in_domain / refetch_text_parsed holds; the result has two hidden
   templates (9 objects, 7 shown); its text, parsed and fetched, gives the result up to word lines -
   and not exactly: the source words carry the lines of the printed text *)
Example fetch_domain_example :
  parse exd_oracle exd_master_text = Ok exd_master /\
  parse [] exd_src1_text = Ok exd_src1 /\ parse [] exd_src2_text = Ok exd_src2 /\
  no_deprecated_or_include exd_master = true /\
  forallb (dtree_ok []) exd_master = true /\ master_plain exd_master /\
  forallb merged_plain exd_master = true /\ forallb choice_alts_ok exd_master = true /\
  srcs_have_dollar [exd_src1; exd_src2] = false /\
  forallb (forallb defs_words_ok) [exd_src1; exd_src2] = true /\
  fetch ex_env ex_canon false exd_master [exd_src1; exd_src2] = Ok exd_result /\
  forallb (dtree_ok []) (shown exd_result) = true /\
  length exd_result = 9 /\ length (shown exd_result) = 7 /\
  as_str exd_result [] None 0 None = Ok exd_text /\ parse [] exd_text = Ok exd_parsed /\
  fetch ex_env ex_canon false exd_master [exd_parsed] = Ok exd_again /\
  map we exd_again = map we exd_result /\ exd_again <> exd_result.
Proof.
  repeat (split; [vm_compute; reflexivity|]). vm_compute. discriminate.
Qed.

Example exd_text_is : exd_text = s_ "a = 2
s {
  b = y
}
s {
  b = z
}
t {
  c = 6
  p.q = 3
}
d = 8
d = 7
e = u *v
".
Proof. vm_compute. reflexivity. Qed.

(* the theorems applied to the example *)
Example fetch_result_in_domain_applied : forallb (dtree_ok []) (shown exd_result) = true.
Proof.
  destruct fetch_domain_example as (_ & _ & _ & _ & H1 & H2 & H3 & H4 & H5 & H6 & H7 & _).
  exact (fetch_result_in_domain ex_env ex_canon exd_master [exd_src1; exd_src2] exd_result H1 H2 H3 H4 H5 H6 H7).
Qed.

Example refetch_text_parsed_applied : exists w',
  fetch ex_env ex_canon false exd_master [exd_parsed] = Ok w' /\ map we w' = map we exd_result /\
  forall p e lv wd, as_str w' p e lv wd = as_str exd_result p e lv wd.
Proof.
  destruct fetch_domain_example as (P0 & P1 & P2 & Hnd & _ & _ & Hmg & Hch & Hsd & _ & Hf & _ & _ & _ & Ht & Hp & _).
  apply (refetch_text_parsed ex_env ex_canon exd_oracle exd_master_text exd_master [exd_src1; exd_src2] [] exd_result None exd_text exd_parsed
           ex_canon_lines P0 Hnd); try assumption; [|exact exd_D07].
  constructor; [exists [], exd_src1_text; exact P1|]. constructor; [exists [], exd_src2_text; exact P2|]. constructor.
Qed.

(* ====================================================================================== *)
(* 9. the two extra conditions are needed (each Example: every other hypothesis of          *)
(*    fetch_result_in_domain holds, the conclusion fails); replayed on the library          *)
(* ====================================================================================== *)
(* (a) merged_plain, .multiple clause.  master  a.b = 1 .multiple = True ;  source  a.b = 2 / a.b = 3.
   W = a { b(template, hidden)  b = 2  b = 3 }: the prefix scope a has two shown children.
   Library: W.as_str() = "a.b = 2\na.b = 3\n", parsed back as TWO scopes a with one child each;
   fetching that tree gives W again (as in the model, last clause). *)
Definition cxm_master : list obj := Eval vm_compute in match parse [] (s_ "a.b = 1
.multiple = True
") with Ok l => l | _ => [] end.
Definition cxm_src : list obj := Eval vm_compute in match parse [] (s_ "a.b = 2
a.b = 3
") with Ok l => l | _ => [] end.
Definition cxm_result : list obj :=
  Eval vm_compute in match fetch ex_env ex_canon false cxm_master [cxm_src] with Ok r => r | _ => [] end.
Definition cxm_parsed : list obj := Eval vm_compute in match parse [] (s_ "a.b = 2
a.b = 3
") with Ok l => l | _ => [] end.

Example cex_multiple_below_dotted_prefix :
  parse [] (s_ "a.b = 1
.multiple = True
") = Ok cxm_master /\ no_deprecated_or_include cxm_master = true /\
  forallb (dtree_ok []) cxm_master = true /\ master_plain cxm_master /\
  forallb choice_alts_ok cxm_master = true /\
  srcs_have_dollar [cxm_src] = false /\ forallb (forallb defs_words_ok) [cxm_src] = true /\
  forallb merged_plain cxm_master = false /\
  fetch ex_env ex_canon false cxm_master [cxm_src] = Ok cxm_result /\
  forallb (dtree_ok []) (shown cxm_result) = false /\
  as_str cxm_result [] None 0 None = Ok (s_ "a.b = 2
a.b = 3
") /\
  parse [] (s_ "a.b = 2
a.b = 3
") = Ok cxm_parsed /\ length (shown cxm_result) = 1 /\ length cxm_parsed = 2 /\
  map erase_obj cxm_parsed <> map erase_all (shown cxm_result) /\
  exists w', fetch ex_env ex_canon false cxm_master [cxm_parsed] = Ok w' /\ map we w' = map we cxm_result.
Proof.
  repeat (split; [vm_compute; reflexivity|]). split; [vm_compute; discriminate|].
  eexists. split; vm_compute; reflexivity.
Qed.

(* (b) merged_plain, disabled clause.  master  !__a.b__.c = 1  (accepted: "__a.b__.c" is not reserved).
   The disabled c is no entry: W = __a { b__ { } }, printed under the joined name.
   Library: W.as_str() = "__a.b__ {\n}\n"; parsing it raises RuntimeError Reserved identifier: "__a.b__"
   - the text form of C07 fails here on the library. *)
Definition cxd_master : list obj := Eval vm_compute in match parse [] (s_ "!__a.b__.c = 1
") with Ok l => l | _ => [] end.
Definition cxd_result : list obj :=
  Eval vm_compute in match fetch ex_env ex_canon false cxd_master [] with Ok r => r | _ => [] end.

Example cex_disabled_below_dotted_prefix :
  parse [] (s_ "!__a.b__.c = 1
") = Ok cxd_master /\ no_deprecated_or_include cxd_master = true /\
  forallb (dtree_ok []) cxd_master = true /\ master_plain cxd_master /\
  forallb choice_alts_ok cxd_master = true /\
  srcs_have_dollar [] = false /\ forallb (forallb defs_words_ok) [] = true /\
  forallb merged_plain cxd_master = false /\
  fetch ex_env ex_canon false cxd_master [] = Ok cxd_result /\
  forallb (dtree_ok []) (shown cxd_result) = false /\
  as_str cxd_result [] None 0 None = Ok (s_ "__a.b__ {
}
") /\
  parse [] (s_ "__a.b__ {
}
") = UErr (s_ "Reserved") (s_ "__a.b__") 1.
Proof. repeat (split; [vm_compute; reflexivity|]). vm_compute. reflexivity. Qed.

(* (c) choice_alts_ok.  master  c = * b .type = choice ;  source  c = b.  The alternative "*" has the
   empty name: the converter builds the unquoted word "" for it.
   Library: W.as_str() = "c =  *b\n", parsed back with ONE word, the starred b; fetching it gives W again. *)
Definition cxc_master : list obj := Eval vm_compute in match parse exd_oracle (s_ "c = * b
.type = choice
") with Ok l => l | _ => [] end.
Definition cxc_src : list obj := Eval vm_compute in match parse [] (s_ "c = b
") with Ok l => l | _ => [] end.
Definition cxc_result : list obj :=
  Eval vm_compute in match fetch ex_env ex_canon false cxc_master [cxc_src] with Ok r => r | _ => [] end.
Definition cxc_parsed : list obj := Eval vm_compute in match parse [] (s_ "c =  *b
") with Ok l => l | _ => [] end.

Example cex_choice_star_alone :
  parse exd_oracle (s_ "c = * b
.type = choice
") = Ok cxc_master /\ no_deprecated_or_include cxc_master = true /\
  forallb (dtree_ok []) cxc_master = true /\ master_plain cxc_master /\
  forallb merged_plain cxc_master = true /\
  srcs_have_dollar [cxc_src] = false /\ forallb (forallb defs_words_ok) [cxc_src] = true /\
  forallb choice_alts_ok cxc_master = false /\
  fetch ex_env ex_canon false cxc_master [cxc_src] = Ok cxc_result /\
  flat_map all_def_words cxc_result = [[mkword [] QN 1; mkword (s_ "*b") QN 1]] /\
  forallb (dtree_ok []) (shown cxc_result) = false /\
  as_str cxc_result [] None 0 None = Ok (s_ "c =  *b
") /\
  parse [] (s_ "c =  *b
") = Ok cxc_parsed /\ flat_map all_def_words cxc_parsed = [[mkword (s_ "*b") QN 1]] /\
  exists w', fetch ex_env ex_canon false cxc_master [cxc_parsed] = Ok w' /\ map we w' = map we cxc_result.
Proof.
  repeat (split; [vm_compute; reflexivity|]). eexists. split; vm_compute; reflexivity.
Qed.

(* (c') the alternative "*#": the converter builds the unquoted word "#".
   Library: W.as_str() = "c = # *b\n"; parsing it raises RuntimeError Missing value for c (the rest of
   the line is a comment) - the text form of C07 fails here on the library. *)
Definition cxh_master : list obj := Eval vm_compute in match parse exd_oracle (s_ "c = *# b
.type = choice
") with Ok l => l | _ => [] end.
Definition cxh_result : list obj :=
  Eval vm_compute in match fetch ex_env ex_canon false cxh_master [cxc_src] with Ok r => r | _ => [] end.

Example cex_choice_star_hash :
  parse exd_oracle (s_ "c = *# b
.type = choice
") = Ok cxh_master /\ no_deprecated_or_include cxh_master = true /\
  forallb (dtree_ok []) cxh_master = true /\ master_plain cxh_master /\
  forallb merged_plain cxh_master = true /\
  forallb choice_alts_ok cxh_master = false /\
  fetch ex_env ex_canon false cxh_master [cxc_src] = Ok cxh_result /\
  forallb (dtree_ok []) (shown cxh_result) = false /\
  as_str cxh_result [] None 0 None = Ok (s_ "c = # *b
") /\
  match parse [] (s_ "c = # *b
") with Ok _ => False | _ => True end.
Proof. repeat (split; [vm_compute; reflexivity|]). vm_compute. exact I. Qed.

(* ====================================================================================== *)
Print Assumptions choice_fetch_words_ok.
Print Assumptions fetch_scope_dom.
Print Assumptions fetch_result_in_domain.
Print Assumptions parsed_fetch_result_in_domain.
Print Assumptions refetch_text_parsed.
Print Assumptions refetch_text_parsed_total.
Print Assumptions fetch_domain_example.
Print Assumptions fetch_result_in_domain_applied.
Print Assumptions refetch_text_parsed_applied.
Print Assumptions cex_multiple_below_dotted_prefix.
Print Assumptions cex_disabled_below_dotted_prefix.
Print Assumptions cex_choice_star_alone.
Print Assumptions cex_choice_star_hash.
