(* C06: track_unused_definitions.
   - the tree does not depend on tracking;
   - the marks found on the source definitions before the call are irrelevant: the reset of
     assign_tmp(False, active_only=True) covers every definition all_definitions later reads;
   - on a run that ends in Ok the consumed definitions are exactly the ones [named] lists: the
     source definitions reached by following, from the root, the master's entries
     (master_active_objects) through get_without_substitution matching down to a master
     DEFINITION.  Hence the unused list is the list of all other active source definitions. *)
From Coq Require Import List Ascii String Bool Arith ZArith Lia.
From Phil Require Import Base Tree Vars Choice Fetch FetchBasics.
Import ListNotations.
Local Open Scope char_scope.

(* ------------------------------------------------------------------ the specification *)
(* concatenation of [body k] over the entries of master_active_objects *)
Definition eloop {A} (body:obj -> list A) : list obj -> list obj -> list A :=
  fix loop (seen:list obj) (l:list obj) {struct l} : list A :=
    match l with
    | [] => []
    | k :: r =>
        match mao_step seen k with
        | MSkip => loop seen r
        | MDup => []
        | MYield seen' => body k ++ loop seen' r
        end
    end.

(* positions of the source definitions among [srcs] (objects offered to master scope M) whose
   path names a parameter of M:  for every entry k of M, the active source objects that
   get_without_substitution finds for k's name are
     - k a definition: the parameter itself - these are the consumed definitions;
     - k a scope: scopes whose children are offered to k in turn.
   (A definition found for a scope entry, or a scope found for a definition entry, makes fetch
   raise "Incompatible parameter objects": fetch_ok_no_clash.) *)
Fixpoint named_scope (M:obj) (srcs:list lsrc) : list pos :=
  match M with
  | Def _ _ _ => []
  | Scp _ ks _ =>
      eloop (fun k => match k with
                      | Def _ _ _ => map lpos (match_sources (oname (ohdr k)) srcs)
                      | Scp _ _ _ => named_scope k (flat_map src_kids (match_sources (oname (ohdr k)) srcs))
                      end) [] ks
  end.
Definition named (m:list obj) (srcs:list (list obj)) : list pos :=
  named_scope (root_scope m) (root_lsrcs srcs).

(* the unused list the property describes: active source definitions (no disabled enclosing
   scope), not named "include", whose position is not in [named]; document order; path and line *)
Definition unused_spec (m:list obj) (srcs:list (list obj)) : list (str * nat) :=
  map (fun d => (dpath d, dline d))
      (filter (fun d => negb (pos_in (dpos d) (named m srcs)) && negb (eqs (dnm d) (s_ "include")))
              (all_defs_root (root_lsrcs srcs))).

(* ------------------------------------------------------------------ eloop / entries *)
Lemma eloop_In : forall A (body:obj -> list A) l seen x,
  In x (eloop body seen l) <-> exists k, In k (entries_from seen l) /\ In x (body k).
Proof.
  intros A body l. induction l as [|k r IH]; intros seen x; cbn [eloop entries_from].
  - split; [intros []|intros [k [[] _]]].
  - destruct (mao_step seen k) as [| |seen'].
    + apply IH.
    + split; [intros []|intros [k0 [[] _]]].
    + rewrite in_app_iff, IH. split.
      * intros [H|[k0 [H1 H2]]]; [exists k; split; [left; reflexivity|exact H]|exists k0; split; [right; exact H1|exact H2]].
      * intros [k0 [[E|H1] H2]]; [subst; left; exact H2|right; exists k0; split; assumption].
Qed.

Lemma named_scope_In : forall h ks a srcs p,
  In p (named_scope (Scp h ks a) srcs) <->
  exists k, In k (entries ks) /\
    In p (match k with
          | Def _ _ _ => map lpos (match_sources (oname (ohdr k)) srcs)
          | Scp _ _ _ => named_scope k (flat_map src_kids (match_sources (oname (ohdr k)) srcs))
          end).
Proof. intros. cbn [named_scope]. apply eloop_In. Qed.

Lemma match_sources_app : forall n a b, match_sources n (a ++ b) = match_sources n a ++ match_sources n b.
Proof. intros. unfold match_sources. rewrite flat_map_app, filter_app. reflexivity. Qed.

(* offering two lists of objects names what each of them names *)
Lemma named_scope_app : forall M a b p,
  In p (named_scope M (a ++ b)) <-> In p (named_scope M a) \/ In p (named_scope M b).
Proof.
  induction M as [h ws at_|h ks at_ IH] using obj_ind2; intros a b p.
  - cbn. tauto.
  - rewrite !named_scope_In. rewrite Forall_forall in IH. split.
    + intros [k [Hk Hp]]. rewrite match_sources_app in Hp. destruct k as [h' ws' a'|h' ks' a'].
      * rewrite map_app, in_app_iff in Hp. destruct Hp as [Hp|Hp]; [left|right]; exists (Def h' ws' a'); split; assumption.
      * rewrite flat_map_app in Hp. apply IH in Hp; [|apply (entries_active _ _ _ Hk)].
        destruct Hp as [Hp|Hp]; [left|right]; exists (Scp h' ks' a'); split; assumption.
    + intros [[k [Hk Hp]]|[k [Hk Hp]]]; exists k; (split; [exact Hk|]); rewrite match_sources_app;
        destruct k as [h' ws' a'|h' ks' a'].
      * rewrite map_app, in_app_iff. left; exact Hp.
      * rewrite flat_map_app. apply IH; [apply (entries_active _ _ _ Hk)|]. left; exact Hp.
      * rewrite map_app, in_app_iff. right; exact Hp.
      * rewrite flat_map_app. apply IH; [apply (entries_active _ _ _ Hk)|]. right; exact Hp.
Qed.

Lemma named_scope_nil : forall M p, ~ In p (named_scope M []).
Proof.
  induction M as [h ws at_|h ks at_ IH] using obj_ind2; intros p H.
  - destruct H.
  - apply named_scope_In in H. destruct H as [k [Hk Hp]]. rewrite Forall_forall in IH.
    destruct k; cbn in Hp; [exact Hp|]. eapply IH; [apply (entries_active _ _ _ Hk)|exact Hp].
Qed.

Lemma named_scope_flat_map : forall M (f:lsrc -> list lsrc) l p,
  In p (named_scope M (flat_map f l)) <-> exists s, In s l /\ In p (named_scope M (f s)).
Proof.
  intros M f l p. induction l as [|s r IH]; cbn [flat_map].
  - split; [intros H; destruct (named_scope_nil _ _ H)|intros [s [[] _]]].
  - rewrite named_scope_app, IH. split.
    + intros [H|[s0 [H1 H2]]]; [exists s; split; [left; reflexivity|exact H]|exists s0; split; [right; exact H1|exact H2]].
    + intros [s0 [[E|H1] H2]]; [subst; left; exact H2|right; exists s0; split; assumption].
Qed.

(* ------------------------------------------------------------------ combine *)
Lemma combine_ok : forall ms c, combine ms = Ok c ->
  c = flat_map src_kids ms /\ forall s, In s ms -> is_def (lobj s) = false.
Proof.
  induction ms as [|s r IH]; intros c H; cbn in H.
  - injection H as E. subst. split; [reflexivity|intros s []].
  - destruct (is_def (lobj s)) eqn:Ed; [discriminate|]. bind_inv H as rest Hrest. injection H as E. subst c.
    destruct (IH _ Hrest) as [E Hall]. subst rest. split; [reflexivity|].
    intros x [Hx|Hx]; [subst; exact Ed|apply Hall; exact Hx].
Qed.

Section Track.
  Variable env : str -> option str.
  Variable canon : obj -> option obj -> res str.
  Variable diff : bool.

  (* -------------------------------------------------------------- C06_result_unchanged *)
  Theorem track_result_unchanged : forall marks0 m srcs,
    rmap fst (fetch_track_marks env canon diff marks0 m srcs) = fetch env canon diff m srcs.
  Proof.
    intros. unfold fetch_track_marks, fetch. destruct (fetch_root env canon diff m srcs); reflexivity.
  Qed.

  (* -------------------------------------------------------------- what a definition master consumes *)
  Lemma def_fetch_value_is_def : forall dm h mws a s x,
    def_fetch_value env dm h mws a s = Ok x -> is_def (lobj s) = true.
  Proof. intros dm h mws a s x H. unfold def_fetch_value in H. destruct (lobj s); [reflexivity|discriminate]. Qed.

  Lemma def_fetch_is_def : forall h mws a s x,
    def_fetch env canon diff h mws a s = Ok x -> is_def (lobj s) = true.
  Proof.
    intros h mws a s x H. unfold def_fetch in H. destruct diff.
    - bind_inv H as r Hr. eapply def_fetch_value_is_def. exact Hr.
    - eapply def_fetch_value_is_def. exact H.
  Qed.

  Lemma def_loop_all_defs : forall h mws a ms last x,
    def_loop env canon diff h mws a ms last = Ok x -> forall s, In s ms -> is_def (lobj s) = true.
  Proof.
    intros h mws a ms. induction ms as [|s r IH]; intros last x H s0 Hs; [destruct Hs|].
    cbn in H. bind_inv H as y Hy. destruct Hs as [E|Hs].
    - subst. eapply def_fetch_is_def. exact Hy.
    - eapply IH; eassumption.
  Qed.

  (* -------------------------------------------------------------- the double loop *)
  (* what the candidate [s] contributes to the consumed list when it is not the master's own *)
  Definition contrib (k:obj) (s:lsrc) : list pos :=
    match k with
    | Def _ _ _ => [lpos s]
    | Scp _ _ _ => named_scope k (src_kids s)
    end.

  Lemma cand_fetch_used : forall k rec s c u,
    (forall comb oc, rec comb = Ok oc -> forall p, In p (snd oc) <-> In p (named_scope k comb)) ->
    cand_fetch env canon diff k rec s = Ok (c, u) -> forall p, In p u <-> In p (contrib k s).
  Proof.
    intros k rec s c u Hrec H p. destruct k as [h mws a|h ks a]; cbn [cand_fetch contrib] in *.
    - bind_inv H as y Hy. injection H as _ E. subst u. tauto.
    - bind_inv H as comb Hcomb. bind_inv H as oc Hoc. injection H as _ E. subst u.
      apply combine_ok in Hcomb. destruct Hcomb as [E _]. cbn in E. rewrite app_nil_r in E. subst comb.
      apply (Hrec _ _ Hoc).
  Qed.

  Lemma mult_loop_used : forall k rec mas cands pd robjs used st,
    (forall comb oc, rec comb = Ok oc -> forall p, In p (snd oc) <-> In p (named_scope k comb)) ->
    mult_loop env canon diff k rec mas cands pd robjs used = Ok st ->
    forall p, In p (snd st) <-> In p used \/ exists s, In (false, s) cands /\ In p (contrib k s).
  Proof.
    intros k rec mas cands. induction cands as [|[fm s] r IH]; intros pd robjs used st Hrec H p.
    - cbn in H. injection H as E. subst st. cbn [snd]. split; [auto|intros [H|[s [[] _]]]; exact H].
    - cbn [mult_loop] in H. bind_inv H as cc Hcc. destruct cc as [cand u]. cbn [fst snd] in H.
      pose proof (cand_fetch_used _ _ _ _ _ Hrec Hcc) as Hu.
      assert (Hgoal : forall st' : pdict * list (option obj) * list pos, In p (snd st') <-> In p (if fm then used else used ++ u) \/
                                   (exists s0, In (false, s0) r /\ In p (contrib k s0)) ->
                      In p (snd st') <-> In p used \/ exists s0, In (false, s0) ((fm, s) :: r) /\ In p (contrib k s0)).
      { intros st' Hst. rewrite Hst. destruct fm.
        - split.
          + intros [A|[s0 [B C]]]; [left; exact A|right; exists s0; split; [right; exact B|exact C]].
          + intros [A|[s0 [[B|B] C]]]; [left; exact A|discriminate|right; exists s0; split; assumption].
        - rewrite in_app_iff, Hu. split.
          + intros [[A|A]|[s0 [B C]]]; [left; exact A|right; exists s; split; [left; reflexivity|exact A]|
                                        right; exists s0; split; [right; exact B|exact C]].
          + intros [A|[s0 [[B|B] C]]]; [left; left; exact A|injection B as B; subst s0; left; right; exact C|
                                        right; exists s0; split; assumption]. }
      destruct (diff_skip diff k cand); [apply Hgoal; eapply IH; eassumption|].
      bind_inv H as cs Hcs.
      destruct (eqs cs mas); [apply Hgoal; eapply IH; eassumption|].
      destruct (pget cs pd) as [[i|]|]; [|apply Hgoal; eapply IH; eassumption|];
        (destruct (diff && fm); apply Hgoal; eapply IH; eassumption).
  Qed.

  (* -------------------------------------------------------------- one master object *)
  Definition nbody (srcs:list lsrc) (k:obj) : list pos :=
    match k with
    | Def _ _ _ => map lpos (match_sources (oname (ohdr k)) srcs)
    | Scp _ _ _ => named_scope k (flat_map src_kids (match_sources (oname (ohdr k)) srcs))
    end.

  Lemma fetch_one_used : forall allks chain i k rec srcs o,
    (forall comb oc, rec comb = Ok oc -> forall p, In p (snd oc) <-> In p (named_scope k comb)) ->
    fetch_one env canon diff allks chain i k rec srcs = Ok o ->
    forall p, In p (snd o) <-> In p (nbody srcs k).
  Proof.
    intros allks chain i k rec srcs o Hrec H p. unfold fetch_one in H.
    destruct (get_attr (s_ "alias") (oattrs k)); try discriminate.
    destruct (oname (ohdr k)) as [|c0 nm] eqn:En; [discriminate|].
    destruct (omultiple k) eqn:Em; cbn [negb] in H.
    - bind_inv H as mas Hmas. bind_inv H as st Hst. destruct st as [[pd robjs] used].
      injection H as E. subst o. cbn [snd].
      pose proof (mult_loop_used _ _ _ _ _ _ _ _ Hrec Hst p) as Hu. cbn [snd] in Hu. rewrite Hu.
      unfold nbody. rewrite En. split.
      + intros [[]|[s [Hs Hp]]]. apply in_app_or in Hs. destruct Hs as [Hs|Hs].
        * apply in_map_iff in Hs. destruct Hs as [x [Ex _]]. discriminate.
        * apply in_map_iff in Hs. destruct Hs as [x [Ex Hx]]. injection Ex as Ex. subst x.
          destruct k as [h mws a|h ks a]; cbn [contrib] in Hp.
          -- destruct Hp as [Hp|[]]. subst p. apply in_map. exact Hx.
          -- apply named_scope_flat_map. exists s. split; assumption.
      + intros Hp. right. destruct k as [h mws a|h ks a].
        * apply in_map_iff in Hp. destruct Hp as [s [Es Hs]]. exists s. split.
          -- apply in_or_app. right. apply in_map_iff. exists s. split; [reflexivity|exact Hs].
          -- cbn. left. exact Es.
        * apply named_scope_flat_map in Hp. destruct Hp as [s [Hs Hp]]. exists s. split.
          -- apply in_or_app. right. apply in_map_iff. exists s. split; [reflexivity|exact Hs].
          -- exact Hp.
    - destruct k as [h mws a|h ks a].
      + bind_inv H as ro Hro. unfold nbody. cbn [ohdr] in *. rewrite En.
        destruct ro as [x|]; [|destruct (negb diff && negb (odeprecated (Def h mws a)))];
          injection H as E; subst o; cbn [snd]; tauto.
      + bind_inv H as comb Hcomb. bind_inv H as oc Hoc. apply combine_ok in Hcomb. destruct Hcomb as [E _]. subst comb.
        unfold nbody. cbn [ohdr] in *. rewrite En.
        destruct (diff && null_objs (fst oc)); injection H as E; subst o; cbn [snd]; apply (Hrec _ _ Hoc).
  Qed.

  (* -------------------------------------------------------------- the loop and the recursion *)
  Lemma mloop_used : forall (body:nat -> obj -> res fout) (nb:obj -> list pos) l,
    (forall i k o, In k l -> body i k = Ok o -> forall p, In p (snd o) <-> In p (nb k)) ->
    forall seen i o, mloop body seen i l = Ok o ->
    forall p, In p (snd o) <-> In p (eloop nb seen l).
  Proof.
    intros body nb l. induction l as [|k r IH]; intros Hb seen i o H p.
    - cbn in H. injection H as E. subst. cbn. tauto.
    - cbn [mloop] in H. cbn [eloop].
      assert (Hr : forall i k o, In k r -> body i k = Ok o -> forall p, In p (snd o) <-> In p (nb k))
        by (intros; eapply Hb; [right; eassumption|eassumption]).
      destruct (mao_step seen k) as [| |seen'].
      + eapply IH; eassumption.
      + discriminate.
      + bind_inv H as x Hx. bind_inv H as y Hy. injection H as E. subst o. cbn [snd].
        rewrite !in_app_iff. rewrite (Hb _ _ _ (or_introl eq_refl) Hx p). rewrite (IH Hr _ _ _ Hy p). tauto.
  Qed.

  Lemma fetch_scope_used : forall M mchain srcs o,
    fetch_scope env canon diff M mchain srcs = Ok o ->
    forall p, In p (snd o) <-> In p (named_scope M srcs).
  Proof.
    induction M as [h ws a|h ks a IH] using obj_ind2; intros mchain srcs o H p.
    - cbn in H. discriminate.
    - cbn [fetch_scope] in H. cbn [named_scope].
      eapply (mloop_used _ (nbody srcs)); [|exact H].
      intros i k o' Hin Hf. eapply fetch_one_used; [|exact Hf].
      intros comb oc Hoc. rewrite Forall_forall in IH. eapply IH; eassumption.
  Qed.

  (* -------------------------------------------------------------- reset covers what is read *)
  Lemma all_defs_reset : forall o p pp d,
    odis (ohdr o) = false -> In d (all_defs_p p pp o) -> In (dpos d) (reset_p p o).
  Proof.
    induction o as [h ws a|h ks a IH] using obj_ind2; intros p pp d Hd H.
    - cbn in *. rewrite Hd. destruct H as [E|[]]. subst d. left. reflexivity.
    - cbn [all_defs_p reset_p] in *. cbn in Hd. rewrite Hd.
      revert H. generalize 0 as j. induction IH as [|k r Hk _ IHr]; intros j H; [destruct H|].
      apply in_app_or in H. apply in_or_app. destruct H as [H|H].
      + left. destruct (odis (ohdr k)) eqn:Ek; [destruct H|]. eapply Hk; [reflexivity|exact H].
      + right. apply (IHr (S j)). exact H.
  Qed.

  Lemma all_defs_root_reset : forall srcs d,
    In d (all_defs_root srcs) -> In (dpos d) (reset_root srcs).
  Proof.
    intros srcs d H. unfold all_defs_root in H. unfold reset_root.
    apply in_flat_map in H. destruct H as [s [Hs H]]. apply in_flat_map. exists s. split; [exact Hs|].
    destruct (odis (ohdr (lobj s))) eqn:E; [destruct H|]. eapply all_defs_reset; eassumption.
  Qed.

  Lemma unused_of_marks : forall marks0 srcs consumed,
    unused_of marks0 srcs consumed =
    map (fun d => (dpath d, dline d))
        (filter (fun d => negb (pos_in (dpos d) consumed) && negb (eqs (dnm d) (s_ "include")))
                (all_defs_root srcs)).
  Proof.
    intros marks0 srcs consumed. unfold unused_of. f_equal. apply filter_ext_in. intros d Hd.
    unfold final_mark. destruct (pos_in (dpos d) consumed); [reflexivity|].
    apply all_defs_root_reset in Hd. apply pos_in_In in Hd. rewrite Hd. reflexivity.
  Qed.

  (* C06_stale_marks_irrelevant: whatever the tmp slots of the source definitions hold before the
     call (None after parsing, True / False left by earlier fetches), the outcome is the same *)
  Theorem stale_marks_irrelevant : forall marks0 marks0' m srcs,
    fetch_track_marks env canon diff marks0 m srcs = fetch_track_marks env canon diff marks0' m srcs.
  Proof.
    intros. unfold fetch_track_marks. destruct (fetch_root env canon diff m srcs) as [oc| |]; cbn; try reflexivity.
    rewrite (unused_of_marks marks0), (unused_of_marks marks0'). reflexivity.
  Qed.

  (* -------------------------------------------------------------- no "$": no marks by substitution *)
  Lemma marks_def_plain : forall fuel chain d, words_plain (owords d) -> marks_def fuel chain d = [].
  Proof.
    intros fuel chain d H. destruct fuel as [|f]; [reflexivity|]. cbn [marks_def].
    induction (owords d) as [|w r IH]; [reflexivity|]. cbn [flat_map].
    rewrite IH by (intros x Hx; apply H; right; exact Hx). rewrite app_nil_r.
    destruct (quote_eqb (wq w) Q1); [reflexivity|].
    unfold fragments_of_word. rewrite f_frags_no_dollar by (apply H; left; reflexivity). cbn [app bind].
    destruct (wv w); reflexivity.
  Qed.

  Lemma obj_at_plain : forall path l up o ch,
    existsb obj_has_dollar l = false -> obj_at path l up = Some (o, ch) -> obj_has_dollar o = false.
  Proof.
    induction path as [|j rest IH]; intros l up o ch Hl H; [discriminate|].
    cbn [obj_at] in H. destruct (nth_error l j) as [x|] eqn:En; [|discriminate].
    assert (Hx : obj_has_dollar x = false).
    { destruct (obj_has_dollar x) eqn:E; [|reflexivity]. apply nth_error_In in En.
      assert (existsb obj_has_dollar l = true) by (apply existsb_exists; exists x; split; assumption). congruence. }
    destruct rest as [|j' rest'].
    - injection H as E _. subst. exact Hx.
    - destruct x as [h ws a|h ks a]; [discriminate|]. eapply IH; [|exact H].
      clear -Hx. cbn [obj_has_dollar] in Hx. induction ks as [|k r IHr]; [reflexivity|].
      cbn [existsb]. apply orb_false_iff in Hx. destruct Hx as [H1 H2]. rewrite H1, (IHr H2). reflexivity.
  Qed.

  Lemma var_marks_plain : forall srcs consumed, srcs_have_dollar srcs = false -> var_marks srcs consumed = [].
  Proof.
    intros srcs consumed Hd. unfold var_marks. induction consumed as [|p r IH]; [reflexivity|].
    cbn [flat_map]. rewrite IH, app_nil_r. unfold var_marks_at. destruct p as [|i path]; [reflexivity|].
    destruct (nth_error srcs i) as [t|] eqn:En; [|reflexivity].
    destruct (obj_at path t []) as [[d chain]|] eqn:Eo; [|reflexivity].
    assert (Ht : existsb obj_has_dollar t = false).
    { destruct (existsb obj_has_dollar t) eqn:E; [|reflexivity]. apply nth_error_In in En.
      assert (srcs_have_dollar srcs = true) by (apply existsb_exists; exists t; split; assumption). congruence. }
    pose proof (obj_at_plain _ _ _ _ _ Ht Eo) as Hp.
    rewrite marks_def_plain; [reflexivity|].
    destruct d as [h ws a|h ks a]; [apply words_plain_b; exact Hp|intros w []].
  Qed.

  (* C06_exact *)
  Theorem track_exact : forall marks0 m srcs r u,
    srcs_have_dollar srcs = false ->
    fetch_track_marks env canon diff marks0 m srcs = Ok (r, u) -> u = unused_spec m srcs.
  Proof.
    intros marks0 m srcs r u Hd H. unfold fetch_track_marks in H. bind_inv H as oc Hoc.
    injection H as _ E. subst u. rewrite (var_marks_plain _ _ Hd), app_nil_r.
    rewrite unused_of_marks. unfold unused_spec. f_equal. apply filter_ext. intros d.
    f_equal. f_equal. apply pos_in_ext. intros q. unfold fetch_root in Hoc. unfold named.
    eapply fetch_scope_used. exact Hoc.
  Qed.

  (* with "$" the reported list is the specified one minus the definitions marked by substitution *)
  Theorem track_with_variables : forall marks0 m srcs r u,
    fetch_track_marks env canon diff marks0 m srcs = Ok (r, u) ->
    exists consumed, (forall q, In q consumed <-> In q (named m srcs)) /\
      u = map (fun d => (dpath d, dline d))
              (filter (fun d => negb (pos_in (dpos d) (consumed ++ var_marks srcs consumed))
                                && negb (eqs (dnm d) (s_ "include")))
                      (all_defs_root (root_lsrcs srcs))).
  Proof.
    intros marks0 m srcs r u H. unfold fetch_track_marks in H. bind_inv H as oc Hoc.
    injection H as _ E. subst u. exists (snd oc). split.
    - intros q. unfold fetch_root in Hoc. unfold named. eapply fetch_scope_used. exact Hoc.
    - apply unused_of_marks.
  Qed.

  (* -------------------------------------------------------------- scope / definition clashes end the run *)
  Lemma mloop_all_ok : forall (body:nat -> obj -> res fout) l seen i o,
    mloop body seen i l = Ok o -> forall k, In k (entries_from seen l) -> exists j o', body j k = Ok o'.
  Proof.
    intros body l. induction l as [|x r IH]; intros seen i o H k Hk; [destruct Hk|].
    cbn [mloop] in H. cbn [entries_from] in Hk. destruct (mao_step seen x) as [| |seen'].
    - eapply IH; eassumption.
    - discriminate.
    - bind_inv H as a Ha. bind_inv H as b Hb. destruct Hk as [E|Hk]; [subst; eauto|eapply IH; eassumption].
  Qed.

  Lemma mult_loop_all_ok : forall k rec mas cands pd robjs used st,
    mult_loop env canon diff k rec mas cands pd robjs used = Ok st ->
    forall fm s, In (fm, s) cands -> exists cu, cand_fetch env canon diff k rec s = Ok cu.
  Proof.
    intros k rec mas cands. induction cands as [|[fm0 s0] r IH]; intros pd robjs used st H fm s Hs; [destruct Hs|].
    cbn [mult_loop] in H. bind_inv H as cc Hcc. destruct Hs as [E|Hs]; [injection E as _ E; subst; eauto|].
    destruct (diff_skip diff k (fst cc)); [eapply IH; eassumption|].
    bind_inv H as cs Hcs. destruct (eqs cs mas); [eapply IH; eassumption|].
    destruct (pget cs pd) as [[j|]|]; [|eapply IH; eassumption|]; (destruct (diff && fm0); eapply IH; eassumption).
  Qed.

  (* on an Ok run every source object found for an entry has the entry's kind *)
  Lemma fetch_one_no_clash : forall allks chain i k rec srcs o,
    fetch_one env canon diff allks chain i k rec srcs = Ok o ->
    forall s, In s (match_sources (oname (ohdr k)) srcs) -> is_def (lobj s) = is_def k.
  Proof.
    intros allks chain i k rec srcs o H s Hs. unfold fetch_one in H.
    destruct (get_attr (s_ "alias") (oattrs k)); try discriminate.
    destruct (oname (ohdr k)) as [|c0 nm] eqn:En; [discriminate|].
    destruct (omultiple k) eqn:Em; cbn [negb] in H.
    - bind_inv H as mas Hmas. bind_inv H as st Hst.
      destruct (mult_loop_all_ok _ _ _ _ _ _ _ _ Hst false s) as [cu Hcu].
      { apply in_or_app. right. apply in_map. exact Hs. }
      destruct k as [h mws a|h ks a]; cbn [cand_fetch is_def] in *.
      + bind_inv Hcu as y Hy. eapply def_fetch_is_def. exact Hy.
      + bind_inv Hcu as comb Hcomb. apply combine_ok in Hcomb. destruct Hcomb as [_ Hall]. apply Hall. left. reflexivity.
    - destruct k as [h mws a|h ks a]; cbn [is_def].
      + bind_inv H as ro Hro. eapply def_loop_all_defs; eassumption.
      + bind_inv H as comb Hcomb. apply combine_ok in Hcomb. destruct Hcomb as [_ Hall]. apply Hall. exact Hs.
  Qed.

  Theorem fetch_ok_no_clash : forall m srcs oc,
    fetch_root env canon diff m srcs = Ok oc ->
    forall k s, In k (entries m) -> In s (match_sources (oname (ohdr k)) (root_lsrcs srcs)) ->
    is_def (lobj s) = is_def k.
  Proof.
    intros m srcs oc H k s Hk Hs. unfold fetch_root, root_scope in H. cbn [fetch_scope] in H.
    destruct (mloop_all_ok _ _ _ _ _ H k Hk) as [j [o' Ho]]. eapply fetch_one_no_clash; eassumption.
  Qed.
End Track.
