(* C07 for masters without any .multiple entry: the structural part of the domain suffices, the
   theorems hold for EVERY canon oracle (it is never consulted). *)
From Coq Require Import List Ascii String Bool Arith ZArith Lia.
From Phil Require Import Base Tree Vars Choice Fetch FetchBasics FetchShape FetchDisabled
  FetchIdemLists FetchIdemBase FetchIdem FetchIdemCopy EntryFetch EntryIdem.
Import ListNotations.
Local Open Scope char_scope.

(* the structural part of wfd *)
Inductive wfs : obj -> Prop :=
  | wfs_def : forall h mws a, def_ok (Def h mws a) -> wfs (Def h mws a)
  | wfs_scp : forall h ks a,
      NoDup (map onm (entries ks)) ->
      (forall k, In k (entries ks) -> onm k <> [] /\ nodot (onm k) /\ wfs k) ->
      wfs (Scp h ks a).

(* no .multiple entry anywhere *)
Inductive nomult : obj -> Prop :=
  | nm_def : forall h mws a, nomult (Def h mws a)
  | nm_scp : forall h ks a, (forall k, In k (entries ks) -> omultiple k = false /\ nomult k) -> nomult (Scp h ks a).

Lemma wfs_nomult_wfd : forall env canon M, wfs M -> nomult M -> wfd env canon M.
Proof.
  intros env canon. induction M as [h ws a|h ks a IH] using obj_ind2; intros Hs Hn.
  - inversion Hs; subst. apply wfd_def. assumption.
  - inversion Hs as [|h0 ks0 a0 Hnd Hent]; subst. inversion Hn as [|h1 ks1 a1 Hnm]; subst.
    apply wfd_scp; [exact Hnd|]. intros k Hk. destruct (Hent k Hk) as [A [B C]]. destruct (Hnm k Hk) as [D E].
    split; [exact A|]. split; [exact B|]. split; [intros Em; congruence|].
    rewrite Forall_forall in IH. apply IH; [eapply entries_active; exact Hk|exact C|exact E].
Qed.

Definition D07s (m:list obj) : Prop := wfs (root_scope m) /\ nomult (root_scope m) /\ master_plain m.

Lemma D07s_D07 : forall env canon m, D07s m -> D07 env canon m.
Proof. intros env canon m [A [B C]]. split; [apply wfs_nomult_wfd; assumption|exact C]. Qed.

Section NoMult.
  Variable env : str -> option str.
  Variable canon : obj -> option obj -> res str.

  Theorem refetch_nomultiple : forall m srcs w, D07s m -> srcs_have_dollar srcs = false ->
    fetch env canon false m srcs = Ok w -> fetch env canon false m [w] = Ok w.
  Proof. intros m srcs w H. apply refetch. apply D07s_D07. exact H. Qed.

  Theorem master_copy_nomultiple : forall m srcs, D07s m -> wf_master m -> srcs_have_dollar srcs = false ->
    fetch env canon false m (m :: srcs) = fetch env canon false m srcs.
  Proof. intros m srcs H. apply master_copy. apply D07s_D07. exact H. Qed.

  Theorem master_self_nomultiple : forall m srcs, D07s m -> wf_master m -> srcs_have_dollar srcs = false ->
    fetch env canon false m (unself m :: srcs) = fetch env canon false m srcs.
  Proof. intros m srcs H. apply master_self. apply D07s_D07. exact H. Qed.

  Theorem empty_nomultiple : forall m, D07s m -> wf_master m ->
    fetch env canon false m [] = fetch env canon false m [m].
  Proof. intros m H. apply empty_is_master. apply D07s_D07. exact H. Qed.
End NoMult.
