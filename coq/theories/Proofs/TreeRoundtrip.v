(* C01 / C03 at tree level: whole trees survive printer -> parser.
   D1  [in_document]: a quoted literal as the value of a definition followed by a further definition
       (C03 inside a document): nothing lost, duplicated or swallowed, the next definition on the right line.
   D2  one scope level: [cobj_scope_step_adopt] / [cobj_scope_step] (collect_objects on "[!]name {" body,
       any state, any body), [cobj_show_scope] (the same in the printer's terms),
       [cobj_show_def_adopt] / [cobj_show_def_gen] (one printed definition "[prefix][!]name = words").
   D3  trees at attributes level 0, expert filter off, every width, any blank prefix:
       first domain [tree_ok] (dot-free names, no merge_names): [parse_show_level0], [parse_as_str_level0],
       [print_parse_print_level0] (second print byte-identical);
       second domain [dtree_ok] (dotted names / merge_names as scope.adopt builds them; contains the first:
       [tree_ok_dtree_ok]): [parse_show_level0_dotted], [parse_as_str_level0_dotted],
       [print_parse_print_level0_dotted].
       The comparison [map erase_obj l' = map erase_all l]: same names, nesting, order, disabled marks,
       is_template, merge_names, word texts and quote styles; the re-parsed tree has EMPTY attribute lists
       (none is printed at level 0); ids and line numbers are reassigned by the parser and erased.
       Definitions with a truthy .deprecated are hidden at level 0: the domains exclude them
       (the theorem is about trees without them, not about the level-0 view of arbitrary trees).
   D4  attributes level 3 on the simplest attribute class [atree_ok] (unset, bool and int attributes; dot-free
       names): [parse_show_level3], [parse_as_str_level3]; the re-parsed attribute lists are [renorm] of the
       originals ([get_attr_renorm]: the same value under every name of the class).
   Not done here (future work): that every tree produced by [parse] lies in [dtree_ok] (up to include
   definitions and deprecated definitions); include definitions; string-valued attributes (wrapped help
   text), .type / .call, levels 1 and 2; dotted names at level 3; the expert filter switched on;
   [int_rt z] for every z (the decimal codec fact; it is a decidable side condition of [atree_ok] here). *)
From Coq Require Import List Ascii String Bool Arith ZArith Lia.
From Phil Require Import Base Tokenizer Tree Parser Show QuoteProofs LexProofs ParserTotal ParserLayout
                         ShowProofs ShowErase WordsRoundtrip.
Import ListNotations.
Local Open Scope char_scope.

(* ====================================================================================== *)
(* 0. glue: positions that read the same, fuels that are enough                             *)
(* ====================================================================================== *)

Definition blank (p:str) : Prop := forallb isspace p = true /\ count_nl p = 0.

(* equality of collect_objects results; for an unbraced run (stop = false) up to the final line
   handed back at the end of the input (parse ignores it) *)
Definition eqres (stop:bool) (r r':res (list obj * str * nat * nat)) : Prop :=
  if stop then r = r' else cobj_noline r = cobj_noline r'.
Lemma eqres_refl : forall stop r, eqres stop r r.
Proof. intros [] r; reflexivity. Qed.
Lemma eqres_trans : forall stop r1 r2 r3, eqres stop r1 r2 -> eqres stop r2 r3 -> eqres stop r1 r3.
Proof. intros [] r1 r2 r3; unfold eqres; intros -> ->; reflexivity. Qed.
Lemma eqres_eq : forall stop r r', r = r' -> eqres stop r r'.
Proof. intros stop r r' ->. apply eqres_refl. Qed.

Lemma cobj_pos_eq : forall o f g s line s' line' nid stop start prev active acc,
  nw s0 false s line = nw s0 false s' line' ->
  length s < f -> length s' < g ->
  eqres stop (cobj o f s line nid stop start prev active acc)
             (cobj o g s' line' nid stop start prev active acc).
Proof.
  intros o f g s line s' line' nid stop start prev active acc H Hf Hg.
  set (F := S (length s + length s')).
  rewrite (cobj_fuel_enough o f F s) by (unfold F; lia).
  rewrite (cobj_fuel_enough o g F s') by (unfold F; lia).
  unfold F, eqres. destruct stop.
  - apply cobj_pos_ext; [exact H|left; reflexivity].
  - apply cobj_pos_ext_noline; exact H.
Qed.

Lemma cobj_fuel_eq : forall o f g s line nid stop start prev active acc,
  length s < f -> length s < g ->
  eqres stop (cobj o f s line nid stop start prev active acc)
             (cobj o g s line nid stop start prev active acc).
Proof. intros. apply eqres_eq, cobj_fuel_enough; assumption. Qed.

(* ====================================================================================== *)
(* 1. step lemmas of collect_objects: definition header, scope                              *)
(* ====================================================================================== *)

Definition bang (d:bool) : str := if d then ["!"] else [].

Lemma is_cont_plainv : forall c, is_cont c = true -> negb (isspace c) && negb (mem c vsingle) = true.
Proof. intros [[] [] [] [] [] [] [] []]; vm_compute; intros H; try reflexivity; discriminate H. Qed.

(* the leading word "[!]name" of an object, after blanks without a newline *)
Lemma nw_s0_lead : forall p dis n tl line,
  blank p -> is_ident n = true -> tailok s0 tl = true ->
  nw s0 false (p ++ bang dis ++ n ++ tl) line = TWord (mkword (bang dis ++ n) QN line) tl line.
Proof.
  intros p dis n tl line [Hp Hn] Hid Ht.
  rewrite (nw_skip_blanks s0 p _ line Hp), Hn, Nat.add_0_r.
  pose proof (ident_unq_ok0 n Hid) as Hu.
  destruct dis; cbn [bang app].
  - unfold unq_ok0 in Hu. apply andb_prop in Hu as [_ Hall].
    apply (nw_plain s0 "!" n tl line); try reflexivity; try exact Ht.
    cbn [forallb]. rewrite Hall. reflexivity.
  - apply nw_unquoted_s0; assumption.
Qed.

Lemma lead_tests : forall dis n, is_ident n = true ->
  eqs (bang dis ++ n) intro = false /\ eqs (bang dis ++ n) ["}"] = false /\ eqs (bang dis ++ n) ["{"] = false
  /\ strip_bang (bang dis ++ n) = (n, dis) /\ prefixb ["."] n = false.
Proof.
  intros dis n Hid. destruct (ident_shape n Hid) as (c & n' & -> & Hc & _).
  assert (Hdot : prefixb ["."] (c :: n') = false).
  { cbn [prefixb]. rewrite Ascii.eqb_sym, (is_start_neq c "." Hc eq_refl). reflexivity. }
  destruct dis; cbn [bang app].
  - repeat split. exact Hdot.
  - repeat split; try exact Hdot; try (apply head_neq, is_start_neq; [exact Hc|reflexivity]).
    unfold strip_bang. rewrite (is_start_neq c "!" Hc eq_refl). reflexivity.
Qed.

(* a definition header "[!]name =" : collect_objects hands the rest to collect_assigned_words *)
Lemma cobj_def_step_gen : forall o f p dis n r5 line nid stop start prev active acc,
  blank p -> is_ident n = true -> eqs n include_w = false ->
  cobj o (S f) (p ++ bang dis ++ n ++ " " :: "=" :: r5) line nid stop start prev active acc
  = do (ws, r6, l6) <- caw (S (length r5)) r5 line false (mkword n QN line) [] (mkword n QN line) ;
    if name_reserved_def n then E "Reserved" n line else
    if prefix_reserved n then E "Reserved" n 0 else
    cobj o f r6 l6 (S nid) stop start line
         (Some (adopt (Def (mkhdr n dis 0 false nid line) ws [])))
         (flushed active acc).
Proof.
  intros o f p dis n r5 line nid stop start prev active acc Hp Hid Hinc.
  pose proof (nw_s0_lead p dis n (" " :: "=" :: r5) line Hp Hid eq_refl) as Hnw.
  destruct (lead_tests dis n Hid) as (Hintro & Hrb & Hlb & Hbang & Hdot).
  cbn [cobj]. rewrite Hnw.
  cbn [isq wq wv wline]. rewrite Hintro, Hrb, Hlb, Hbang. cbn [andb].
  rewrite andb_false_r.
  unfold pop_unq, pop. rewrite nw_sp, nw_s0_eq. cbn [bind isq wq wv negb].
  change (eqs ["="] ["{"] || prefixb ["."] ["="] || prefixb ["!"; "."] ["="]) with false.
  cbn [andb]. rewrite Hdot, Hid, Hinc. cbn [negb].
  unfold expect_eq. cbn [wv]. change (eqs ["="] ["="]) with true. cbn [bind].
  reflexivity.
Qed.

(* names without dots *)
Definition name_ok (n:str) : bool :=
  is_ident n && negb (mem "." n) && negb (reserved n) && negb (eqs n include_w).

Lemma name_ok_facts : forall n, name_ok n = true ->
  is_ident n = true /\ eqs n include_w = false /\ splitdot n = [n]
  /\ name_reserved_def n = false /\ name_reserved_scp n = false /\ prefix_reserved n = false.
Proof.
  intros n H. unfold name_ok in H.
  apply andb_prop in H as [H H4]. apply andb_prop in H as [H H3]. apply andb_prop in H as [H1 H2].
  apply negb_true_iff in H2, H3, H4.
  pose proof (splitdot_nodot n H2) as Hsd.
  repeat split; try assumption.
  - unfold name_reserved_def. rewrite H3, H4, Hsd. cbn [mems existsb]. rewrite eqs_sym, H4. reflexivity.
  - unfold name_reserved_scp. rewrite H3, Hsd. cbn [mems existsb]. rewrite eqs_sym, H4. reflexivity.
  - unfold prefix_reserved. rewrite Hsd. reflexivity.
Qed.

Lemma adopt_nodot : forall x, splitdot (oname (ohdr x)) = [oname (ohdr x)] -> adopt x = x.
Proof. intros x H. unfold adopt. rewrite H. reflexivity. Qed.

(* D2, general form: a scope header "[!]name {" (name dotted or not) followed by any [body]: if the
   body is read (inside the braces) as [kids], leaving [r4], then collect_objects continues at [r4]
   with the scope pushed *)
Theorem cobj_scope_step_adopt : forall o f p dis n body line nid stop start prev active acc kids r4 l4 nid4,
  blank p -> is_ident n = true -> name_reserved_scp n = false -> prefix_reserved n = false ->
  cobj o f body line (S nid) true (Some (mkword ["{"] QN line)) 0 None [] = Ok (kids, r4, l4, nid4) ->
  cobj o (S f) (p ++ bang dis ++ n ++ " " :: "{" :: body) line nid stop start prev active acc
  = cobj o f r4 l4 nid4 stop start line None
         (adopt (Scp (mkhdr n dis 0 false nid line) kids []) :: flushed active acc).
Proof.
  intros o f p dis n body line nid stop start prev active acc kids r4 l4 nid4 Hp Hid Hres Hpre Hin.
  pose proof (nw_s0_lead p dis n (" " :: "{" :: body) line Hp Hid eq_refl) as Hnw.
  destruct (lead_tests dis n Hid) as (Hintro & Hrb & Hlb & Hbang & Hdot).
  cbn [cobj]. rewrite Hnw.
  cbn [isq wq wv wline]. rewrite Hintro, Hrb, Hlb, Hbang. cbn [andb].
  rewrite andb_false_r.
  unfold pop. rewrite nw_sp.
  change (nw s0 false ("{" :: body) line) with (TWord (mkword ["{"] QN line) body line).
  cbn [bind isq wq wv negb].
  change (eqs ["{"] ["{"]) with true. cbn [orb andb].
  rewrite Hid, Hres. cbn [negb].
  rewrite sattrs_brace by reflexivity. cbn [bind].
  rewrite Hin. cbn [bind]. rewrite Hpre.
  reflexivity.
Qed.

Theorem cobj_scope_step : forall o f p dis n body line nid stop start prev active acc kids r4 l4 nid4,
  blank p -> name_ok n = true ->
  cobj o f body line (S nid) true (Some (mkword ["{"] QN line)) 0 None [] = Ok (kids, r4, l4, nid4) ->
  cobj o (S f) (p ++ bang dis ++ n ++ " " :: "{" :: body) line nid stop start prev active acc
  = cobj o f r4 l4 nid4 stop start line None
         (Scp (mkhdr n dis 0 false nid line) kids [] :: flushed active acc).
Proof.
  intros o f p dis n body line nid stop start prev active acc kids r4 l4 nid4 Hp Hok Hin.
  destruct (name_ok_facts n Hok) as (Hid & _ & Hsd & _ & Hres & Hpre).
  rewrite (cobj_scope_step_adopt o f p dis n body line nid stop start prev active acc kids r4 l4 nid4
             Hp Hid Hres Hpre Hin).
  rewrite adopt_nodot by (cbn [ohdr oname]; exact Hsd).
  reflexivity.
Qed.

(* ====================================================================================== *)
(* 2. one printed definition "[prefix][!]name = words", any state, any following text       *)
(* ====================================================================================== *)

Definition def_cur (p:str) (dis:bool) (n:str) : str := p ++ bang dis ++ n ++ s_ " =".

Lemma ident_weq_bs' : forall n line, is_ident n = true -> weq (mkword n QN line) [bs] = false.
Proof. exact ident_weq_bs. Qed.

Theorem cobj_show_def_adopt : forall p dis n ws indent width rest line,
  blank p -> is_ident n = true -> eqs n include_w = false ->
  name_reserved_def n = false -> prefix_reserved n = false -> blank indent ->
  ws <> [] -> words_ok ws = true ->
  value_ends rest (S (endw ws (def_cur p dis n) indent width line)) ->
  exists s', (s' = nl :: rest \/ s' = [] /\ forallb isspace rest = true)
    /\ nw s0 false s' (endw ws (def_cur p dis n) indent width line)
       = nw s0 false rest (S (endw ws (def_cur p dis n) indent width line))
    /\ forall o f nid stop start prev active acc,
       cobj o (S f) (show_words ws (def_cur p dis n) indent width ++ rest) line nid stop start prev active acc
       = cobj o f s' (endw ws (def_cur p dis n) indent width line) (S nid) stop start line
           (Some (adopt (Def (mkhdr n dis 0 false nid line) (relw ws (def_cur p dis n) indent width line) [])))
           (flushed active acc).
Proof.
  intros p dis n ws indent width rest line Hp Hid Hinc Hres Hpre [Hib Hinl] Hne Hwok Hend.
  set (cur := def_cur p dis n) in *.
  set (V := vtail ws cur indent width rest).
  assert (HT : show_words ws cur indent width ++ rest = p ++ bang dis ++ n ++ " " :: "=" :: V).
  { rewrite show_words_vtail. unfold cur, def_cur. rewrite <- !app_assoc. reflexivity. }
  destruct (caw_show_words ws cur indent width rest V line (mkword n QN line) (S (length V))
              Hib Hinl Hne Hwok eq_refl (ident_weq_bs n line Hid)
              (show_words_vtail ws cur indent width rest) Hend (Nat.lt_succ_diag_r _))
    as (s' & Hc & Hs & Hn).
  exists s'. split; [exact Hs|]. split; [exact Hn|].
  intros o f nid stop start prev active acc.
  rewrite HT, (cobj_def_step_gen o f p dis n V line nid stop start prev active acc Hp Hid Hinc).
  rewrite Hc. cbn [bind]. rewrite Hres, Hpre.
  reflexivity.
Qed.

Theorem cobj_show_def_gen : forall p dis n ws indent width rest line,
  blank p -> name_ok n = true -> blank indent ->
  ws <> [] -> words_ok ws = true ->
  value_ends rest (S (endw ws (def_cur p dis n) indent width line)) ->
  exists s', (s' = nl :: rest \/ s' = [] /\ forallb isspace rest = true)
    /\ nw s0 false s' (endw ws (def_cur p dis n) indent width line)
       = nw s0 false rest (S (endw ws (def_cur p dis n) indent width line))
    /\ forall o f nid stop start prev active acc,
       cobj o (S f) (show_words ws (def_cur p dis n) indent width ++ rest) line nid stop start prev active acc
       = cobj o f s' (endw ws (def_cur p dis n) indent width line) (S nid) stop start line
           (Some (Def (mkhdr n dis 0 false nid line) (relw ws (def_cur p dis n) indent width line) []))
           (flushed active acc).
Proof.
  intros p dis n ws indent width rest line Hp Hok Hind Hne Hwok Hend.
  destruct (name_ok_facts n Hok) as (Hid & Hinc & Hsd & Hres & _ & Hpre).
  destruct (cobj_show_def_adopt p dis n ws indent width rest line Hp Hid Hinc Hres Hpre Hind Hne Hwok Hend)
    as (s' & Hs & Hn & Hc).
  exists s'. split; [exact Hs|]. split; [exact Hn|].
  intros o f nid stop start prev active acc. rewrite Hc.
  rewrite adopt_nodot by (cbn [ohdr oname]; exact Hsd).
  reflexivity.
Qed.

(* ====================================================================================== *)
(* D1 (C03 inside a document): a quoted literal as the value of a definition that is followed *)
(* by a further definition                                                                    *)
(* ====================================================================================== *)

Lemma cobj_last_b : forall o f line nid prev active acc,
  cobj o (S (S f)) (s_ "b = 1") line nid false None prev active acc
  = Ok (rev (Def (mkhdr (s_ "b") false 0 false nid line) [mkword (s_ "1") QN line] [] :: flushed active acc),
        [], line, S nid).
Proof.
  intros o f line nid prev active acc.
  change (s_ "b = 1") with ([] ++ bang false ++ s_ "b" ++ " " :: "=" :: s_ " 1").
  rewrite cobj_def_step_gen; [|split; reflexivity|reflexivity|reflexivity].
  change (caw (S (length (s_ " 1"))) (s_ " 1") line false (mkword (s_ "b") QN line) [] (mkword (s_ "b") QN line))
    with (caw 3 (s_ " 1") line false (mkword (s_ "b") QN line) [] (mkword (s_ "b") QN line)).
  assert (Hc : caw 3 (s_ " 1") line false (mkword (s_ "b") QN line) [] (mkword (s_ "b") QN line)
               = Ok ([mkword (s_ "1") QN line], [], line)).
  { cbn [caw s_ String.list_ascii_of_string]. rewrite nw_sp.
    change (nw s1 false ["1"] line) with (TWord (mkword ["1"] QN line) [] line).
    cbn [isq wq wv wline negb andb orb is1 eqs Ascii.eqb Bool.eqb weq].
    rewrite Nat.eqb_refl. cbn [negb nw rev app]. reflexivity. }
  rewrite Hc. cbn [bind]. change (name_reserved_def (s_ "b")) with false. change (prefix_reserved (s_ "b")) with false.
  cbv iota. cbn [cobj nw]. reflexivity.
Qed.

Theorem in_document : forall o q s, q <> QN ->
  parse o (s_ "a = " ++ quote_str q s ++ nl :: s_ "b = 1")
  = Ok [Def (mkhdr (s_ "a") false 0 false 1 1) [mkword s q 1] [];
        Def (mkhdr (s_ "b") false 0 false 2 (2 + count_nl s)) [mkword (s_ "1") QN (2 + count_nl s)] []].
Proof.
  intros o q s Hq.
  set (w := mkword s q 0).
  assert (Hisq : isq w = true) by (unfold isq, w; cbn [wq]; destruct q; congruence).
  assert (Hwok : words_ok [w] = true).
  { unfold words_ok, word_ok. cbn [forallb lines_ok]. rewrite Hisq. reflexivity. }
  assert (Hbrk : forall width, brk w (def_cur [] false (s_ "a")) (spaces 3) width = false).
  { intros width. unfold brk. cbn [def_cur bang app s_ String.list_ascii_of_string spaces repeat length Nat.ltb Nat.leb].
    rewrite andb_false_r. reflexivity. }
  assert (Htxt : s_ "a = " ++ quote_str q s ++ nl :: s_ "b = 1"
                 = show_words [w] (def_cur [] false (s_ "a")) (spaces 3) 79 ++ s_ "b = 1").
  { cbn [show_words]. fold (brk w (def_cur [] false (s_ "a")) (spaces 3) 79). rewrite Hbrk.
    unfold line, str_of_word, w. cbn [wq wv def_cur bang app s_ String.list_ascii_of_string].
    rewrite <- !app_assoc. reflexivity. }
  assert (Hendw : forall l, endw [w] (def_cur [] false (s_ "a")) (spaces 3) 79 l = l + count_nl s).
  { intros l. cbn [endw]. rewrite Hbrk. reflexivity. }
  assert (Hrelw : forall l, relw [w] (def_cur [] false (s_ "a")) (spaces 3) 79 l = [mkword s q l]).
  { intros l. cbn [relw]. rewrite Hbrk. reflexivity. }
  destruct (cobj_show_def_gen [] false (s_ "a") [w] (spaces 3) 79 (s_ "b = 1") 1)
    as (s' & Hs & Hn & Hc);
    [split; reflexivity|reflexivity|split; reflexivity|discriminate|exact Hwok| |].
  { apply (value_ends_unquoted [] (s_ "b") (s_ " = 1")); reflexivity. }
  destruct Hs as [->|[_ Hb]]; [|discriminate Hb].
  unfold parse.
  remember (S (S (length (s_ "a = " ++ quote_str q s ++ nl :: s_ "b = 1")))) as F eqn:HF.
  cbn [s_ String.list_ascii_of_string app length] in HF.
  destruct F as [|[|[|m]]]; try discriminate HF. clear HF.
  rewrite Htxt. rewrite Hc, Hendw, Hrelw.
  (* skip the newline, then read the last definition *)
  change (nl :: s_ "b = 1") with ([nl] ++ s_ "b = 1").
  rewrite cobj_skip_blanks; [|reflexivity|right; right].
  2:{ cbn [count_nl s_ String.list_ascii_of_string nw]. discriminate. }
  change (count_nl [nl]) with 1.
  replace (1 + count_nl s + 1) with (2 + count_nl s) by lia.
  rewrite cobj_last_b. cbn [bind flushed rev app]. reflexivity.
Qed.

(* ====================================================================================== *)
(* 3. the domain, and the level-0 text as a function of the tree                            *)
(* ====================================================================================== *)

(* header fields as the parser produces them for an object with a dot-free name: is_template 0,
   no merge_names; identifier name, not reserved, not "include" *)
Definition hdr_ok (h:hdr) : bool := name_ok (oname h) && (otmpl h =? 0)%Z && negb (omerge h).

(* [tree_ok]: definitions carry a non-empty list of value words of the domain [words_ok] and no truthy
   .deprecated attribute (level 0 hides deprecated definitions); every other attribute is arbitrary
   (none is printed at level 0).  Objects with merge_names (dotted names) are outside this first domain:
   every scope is printed with braces. *)
Fixpoint tree_ok (o:obj) : bool :=
  match o with
  | Def h ws a => hdr_ok h && negb (py_truthy (get_attr (s_ "deprecated") a))
                  && negb (match ws with [] => true | _ => false end) && words_ok ws
  | Scp h ks a => hdr_ok h && forallb tree_ok ks
  end.

Definition def_indent (p:str) (dis:bool) (n:str) : str := p ++ spaces (length (def_cur p dis n) - length p).

Fixpoint txt (w:Z) (p:str) (o:obj) : str :=
  match o with
  | Def h ws _ => show_words ws (def_cur p (odis h) (oname h)) (def_indent p (odis h) (oname h)) w
  | Scp h ks _ => line (p ++ bang (odis h) ++ oname h ++ s_ " {")
                  ++ flat_map (txt w (p ++ s_ "  ")) ks ++ line (p ++ ["}"])
  end.
Definition txts (w:Z) (p:str) (l:list obj) : str := flat_map (txt w p) l.

Lemma hdr_ok_facts : forall h, hdr_ok h = true -> name_ok (oname h) = true /\ otmpl h = 0%Z /\ omerge h = false.
Proof.
  intros h H. unfold hdr_ok in H. apply andb_prop in H as [H H3]. apply andb_prop in H as [H1 H2].
  apply Z.eqb_eq in H2. apply negb_true_iff in H3. auto.
Qed.
Lemma tree_ok_hdr : forall o, tree_ok o = true -> hdr_ok (ohdr o) = true.
Proof.
  intros [h ws a|h ks a] H; cbn [tree_ok ohdr] in *.
  - apply andb_prop in H as [H _]. apply andb_prop in H as [H _]. apply andb_prop in H as [H _]. exact H.
  - apply andb_prop in H as [H _]. exact H.
Qed.

Lemma show_list_txts : forall w p l,
  Forall (fun o => forall p, show_obj o [] p None 0 w = Ok (txt w p o)) l ->
  show_list l [] p None 0 w = Ok (txts w p l).
Proof.
  intros w p l H. induction H as [|o r Ho Hr IH]; [reflexivity|].
  cbn [show_list]. rewrite Ho, IH. reflexivity.
Qed.

Theorem show_obj_txt : forall w o, tree_ok o = true -> forall p, show_obj o [] p None 0 w = Ok (txt w p o).
Proof.
  intros w o. induction o as [h ws a|h ks a IH] using obj_ind2; intros Hok p.
  - cbn [tree_ok] in Hok. apply andb_prop in Hok as [Hok _]. apply andb_prop in Hok as [Hok _].
    apply andb_prop in Hok as [Hh Hd]. apply negb_true_iff in Hd.
    destruct (hdr_ok_facts h Hh) as (Hn & Ht & _).
    destruct (name_ok_facts _ Hn) as (_ & Hinc & _).
    cbn [show_obj txt]. unfold show_def. rewrite Ht, Hd, hidden_none, Hinc. cbn [Z.ltb Z.compare andb bind].
    cbn [show_attributes Z.leb Z.compare bind app join_with].
    rewrite app_nil_r. reflexivity.
  - cbn [tree_ok] in Hok. apply andb_prop in Hok as [Hh Hks].
    destruct (hdr_ok_facts h Hh) as (Hn & Ht & _).
    destruct (name_ok_facts _ Hn) as (Hid & _).
    destruct (ident_shape _ Hid) as (c & n' & En & _).
    assert (Hfm : first_merges ks = false).
    { destruct ks as [|k r]; [reflexivity|]. cbn [first_merges forallb] in *.
      apply andb_prop in Hks as [Hk _]. apply tree_ok_hdr, hdr_ok_facts in Hk. apply Hk. }
    assert (Hkids : Forall (fun o => forall p, show_obj o [] p None 0 w = Ok (txt w p o)) ks).
    { clear Hfm. induction IH as [|k r Hk Hr IHr]; constructor.
      - cbn [forallb] in Hks. apply andb_prop in Hks as [Hk' _]. exact (Hk Hk').
      - cbn [forallb] in Hks. apply andb_prop in Hks as [_ Hr']. exact (IHr Hr'). }
    rewrite show_obj_scp. unfold show_scope_body.
    rewrite Ht, hidden_none, Hfm. cbn [Z.ltb Z.compare andb bind].
    rewrite En at 1.
    cbn [show_attributes Z.leb Z.compare bind app join_with].
    rewrite (show_list_txts w (p ++ s_ "  ") ks Hkids). cbn [bind txt].
    unfold bang, txts. rewrite <- !app_assoc. reflexivity.
Qed.

Theorem show_objs_txts : forall w l p, forallb tree_ok l = true -> show_objs l p None 0 w = Ok (txts w p l).
Proof.
  intros w l p H. rewrite show_objs_list. apply show_list_txts.
  apply Forall_forall. intros o Ho. rewrite forallb_forall in H. exact (show_obj_txt w o (H o Ho)).
Qed.

(* ====================================================================================== *)
(* 4. what follows a printed value: the next printed line starts an object or closes a scope *)
(* ====================================================================================== *)

Definition follow_ok (rest:str) : Prop := forall line, value_ends rest line.

Lemma follow_blank : forall rest, forallb isspace rest = true -> follow_ok rest.
Proof. intros rest H line. apply value_ends_blank; exact H. Qed.
Lemma follow_brace : forall p tl, blank p -> follow_ok (p ++ "}" :: tl).
Proof. intros p tl [Hp _] line. apply value_ends_brace; [exact Hp|right; reflexivity]. Qed.

Lemma lead_unq_ok : forall dis n, is_ident n = true ->
  unq_ok (bang dis ++ n) = true /\ eqs (bang dis ++ n) ["#"] = false.
Proof.
  intros dis n Hid. destruct (ident_shape n Hid) as (c & n' & -> & Hc & Hn').
  assert (Hall : forallb (fun c => negb (isspace c) && negb (mem c vsingle)) (c :: n') = true).
  { cbn [forallb]. rewrite (is_cont_plainv c (is_start_cont c Hc)). cbn [andb].
    apply (WordsRoundtrip.forallb_impl is_cont); [exact is_cont_plainv|exact Hn']. }
  destruct dis; cbn [bang app]; unfold unq_ok.
  - split; [|reflexivity]. apply andb_true_intro. split; [reflexivity|].
    cbn [forallb]. cbn [forallb] in Hall. rewrite Hall. reflexivity.
  - rewrite Hall, (is_start_neq c dq Hc eq_refl), (is_start_neq c sq Hc eq_refl).
    split; [reflexivity|]. apply head_neq, is_start_neq; [exact Hc|reflexivity].
Qed.

Lemma txt_head : forall w p o tl, exists X,
  txt w p o ++ tl = p ++ (bang (odis (ohdr o)) ++ oname (ohdr o)) ++ " " :: X.
Proof.
  intros w p [h ws a|h ks a] tl; cbn [txt ohdr].
  - rewrite show_words_vtail. unfold def_cur at 1. eexists. rewrite <- !app_assoc.
    cbn [s_ String.list_ascii_of_string app]. reflexivity.
  - unfold line. eexists. rewrite <- !app_assoc. cbn [s_ String.list_ascii_of_string app]. reflexivity.
Qed.

Lemma follow_txt : forall w p o tl, blank p -> tree_ok o = true -> follow_ok (txt w p o ++ tl).
Proof.
  intros w p o tl [Hp _] Hok line.
  destruct (txt_head w p o tl) as (X & ->).
  apply tree_ok_hdr, hdr_ok_facts in Hok. destruct Hok as (Hn & _).
  apply name_ok_facts in Hn. destruct Hn as (Hid & _).
  destruct (lead_unq_ok (odis (ohdr o)) _ Hid) as (Hu & Hh).
  apply value_ends_unquoted; try assumption. reflexivity.
Qed.

Lemma vtail_longer : forall indent width rest ws cur, length rest < length (vtail ws cur indent width rest).
Proof.
  intros indent width rest; induction ws as [|x r IH]; intros cur; cbn [vtail].
  - cbn [length]. lia.
  - destruct (brk x cur indent width); cbn [length]; rewrite ?app_length; cbn [length]; rewrite ?app_length;
      match goal with |- context [vtail r ?c indent width rest] => specialize (IH c) end; lia.
Qed.

Lemma blank_app : forall a b, blank a -> blank b -> blank (a ++ b).
Proof.
  intros a b [Ha1 Ha2] [Hb1 Hb2]. split.
  - rewrite forallb_app, Ha1, Hb1. reflexivity.
  - rewrite count_nl_app. lia.
Qed.
Lemma blank_spaces : forall k, blank (spaces k).
Proof. induction k as [|k [IH1 IH2]]; split; try reflexivity; cbn [spaces repeat forallb count_nl] in *; assumption. Qed.
Lemma blank_nil : blank [].
Proof. split; reflexivity. Qed.

(* the closing brace of a scope *)
Lemma cobj_close_brace : forall o f p tl line nid start prev active acc,
  blank p ->
  cobj o (S f) (p ++ "}" :: tl) line nid true start prev active acc
  = Ok (rev (flushed active acc), tl, line, nid).
Proof.
  intros o f p tl line nid start prev active acc [Hp Hn].
  cbn [cobj]. rewrite (nw_skip_blanks s0 p _ line Hp), Hn, Nat.add_0_r.
  change (nw s0 false ("}" :: tl) line) with (TWord (mkword ["}"] QN line) tl line).
  cbn [isq wq wv wline]. change (eqs ["}"] intro) with false. change (eqs ["}"] ["}"]) with true.
  cbn [andb]. reflexivity.
Qed.

(* ====================================================================================== *)
(* 5. trees                                                                                  *)
(* ====================================================================================== *)

(* what the comparison keeps: names, nesting, order, disabled marks, is_template, merge_names, word
   texts and quote styles.  Erased: line numbers and primary ids (reassigned by the parser) and
   the attributes (not printed at level 0). *)
Fixpoint erase_all (o:obj) : obj :=
  match o with
  | Def h ws _ => Def (erase_hdr h) (map erase_word ws) []
  | Scp h ks _ => Scp (erase_hdr h) (map erase_all ks) []
  end.

Definition P1 (o:obj) : Prop := tree_ok o = true ->
  forall orc w p rest f line nid stop start prev active acc,
  blank p -> follow_ok rest -> length (txt w p o ++ rest) < f ->
  exists o' line' nid' prev' active' acc',
    flushed active' acc' = o' :: flushed active acc
    /\ erase_obj o' = erase_all o
    /\ forall g, length rest < g ->
       eqres stop (cobj orc f (txt w p o ++ rest) line nid stop start prev active acc)
                  (cobj orc g rest line' nid' stop start prev' active' acc').

Definition PL (l:list obj) : Prop := forallb tree_ok l = true ->
  forall orc w p rest f line nid stop start prev active acc,
  blank p -> follow_ok rest -> length (txts w p l ++ rest) < f ->
  exists l' line' nid' prev' active' acc',
    flushed active' acc' = rev l' ++ flushed active acc
    /\ map erase_obj l' = map erase_all l
    /\ forall g, length rest < g ->
       eqres stop (cobj orc f (txts w p l ++ rest) line nid stop start prev active acc)
                  (cobj orc g rest line' nid' stop start prev' active' acc').

Lemma PL_of_P1 : forall l, Forall P1 l -> PL l.
Proof.
  intros l H. induction H as [|o r Ho Hr IH]; intros Hok orc w p rest f line nid stop start prev active acc Hp Hfol Hf.
  - exists [], line, nid, prev, active, acc. split; [reflexivity|]. split; [reflexivity|].
    intros g Hg. cbn [txts flat_map app] in *. apply cobj_fuel_eq; assumption.
  - cbn [forallb] in Hok. apply andb_prop in Hok as [Hoo Hor].
    assert (HT : txts w p (o :: r) ++ rest = txt w p o ++ (txts w p r ++ rest)).
    { unfold txts. cbn [flat_map]. rewrite <- app_assoc. reflexivity. }
    rewrite HT in *.
    set (rest1 := txts w p r ++ rest) in *.
    assert (Hfol1 : follow_ok rest1).
    { unfold rest1. destruct r as [|o2 r2]; [exact Hfol|].
      cbn [forallb] in Hor. apply andb_prop in Hor as [Ho2 _].
      unfold txts. cbn [flat_map]. rewrite <- app_assoc. apply follow_txt; assumption. }
    destruct (Ho Hoo orc w p rest1 f line nid stop start prev active acc Hp Hfol1 Hf)
      as (o' & line1 & nid1 & prev1 & active1 & acc1 & Hfl1 & Her1 & Hc1).
    destruct (IH Hor orc w p rest (S (length rest1)) line1 nid1 stop start prev1 active1 acc1 Hp Hfol
                 (Nat.lt_succ_diag_r _))
      as (l' & line2 & nid2 & prev2 & active2 & acc2 & Hfl2 & Her2 & Hc2).
    exists (o' :: l'), line2, nid2, prev2, active2, acc2.
    split; [|split].
    + rewrite Hfl2, Hfl1. cbn [rev]. rewrite <- app_assoc. reflexivity.
    + cbn [map]. rewrite Her1, Her2. reflexivity.
    + intros g Hg. eapply eqres_trans; [apply (Hc1 (S (length rest1))); lia|apply Hc2; exact Hg].
Qed.

Lemma erase_hdr_parsed : forall h nid line, hdr_ok h = true ->
  erase_hdr (mkhdr (oname h) (odis h) 0 false nid line) = erase_hdr h.
Proof.
  intros h nid line H. destruct (hdr_ok_facts h H) as (_ & Ht & Hm).
  unfold erase_hdr. cbn [oname odis otmpl omerge]. rewrite Ht, Hm. reflexivity.
Qed.

Theorem P1_all : forall o, P1 o.
Proof.
  intros o. induction o as [h ws a|h ks a IH] using obj_ind2;
    intros Hok orc w p rest f line nid stop start prev active acc Hp Hfol Hf.
  - (* definition *)
    cbn [tree_ok] in Hok. apply andb_prop in Hok as [Hok Hwok]. apply andb_prop in Hok as [Hok Hne].
    apply andb_prop in Hok as [Hh _].
    destruct (hdr_ok_facts h Hh) as (Hn & _ & _).
    assert (Hne' : ws <> []) by (destruct ws; [discriminate Hne|discriminate]).
    set (n := oname h) in *. set (dis := odis h) in *.
    assert (Hind : blank (def_indent p dis n)) by (apply blank_app; [exact Hp|apply blank_spaces]).
    cbn [txt] in *. fold n dis in Hf |- *.
    set (cur := def_cur p dis n) in *. set (indent := def_indent p dis n) in *.
    destruct (cobj_show_def_gen p dis n ws indent w rest line Hp Hn Hind Hne' Hwok (Hfol _))
      as (s' & Hs & Hnw & Hc).
    fold cur in Hs, Hnw, Hc.
    set (L := endw ws cur indent w line) in *.
    set (d := Def (mkhdr n dis 0 false nid line) (relw ws cur indent w line) []).
    exists d, (S L), (S nid), line, (Some d), (flushed active acc).
    split; [reflexivity|]. split.
    + unfold d. cbn [erase_obj erase_all]. unfold n, dis. rewrite (erase_hdr_parsed h nid line Hh).
      f_equal. exact (relw_noline ws cur indent w line).
    + intros g Hg.
      set (X := show_words ws cur indent w ++ rest) in *.
      assert (Hlen : length rest < length X).
      { unfold X. rewrite show_words_vtail, app_length.
        pose proof (vtail_longer indent w rest ws cur). lia. }
      rewrite (cobj_fuel_enough orc f (S (S (length X))) X) by lia.
      unfold X at 2. rewrite Hc. fold d.
      apply cobj_pos_eq; [exact Hnw| |exact Hg].
      destruct Hs as [->|[-> _]]; cbn [length]; lia.
  - (* scope *)
    cbn [tree_ok] in Hok. apply andb_prop in Hok as [Hh Hks].
    destruct (hdr_ok_facts h Hh) as (Hn & _ & _).
    set (n := oname h) in *. set (dis := odis h) in *.
    set (p2 := p ++ s_ "  ").
    assert (Hp2 : blank p2) by (apply blank_app; [exact Hp|split; reflexivity]).
    set (rest' := p ++ "}" :: nl :: rest).
    set (K := txts w p2 ks).
    set (body := nl :: K ++ rest').
    assert (HT : txt w p (Scp h ks a) ++ rest = p ++ bang dis ++ n ++ " " :: "{" :: body).
    { cbn [txt]. unfold Show.line, body, rest', K, txts, p2, n, dis. rewrite <- !app_assoc.
      cbn [s_ String.list_ascii_of_string app]. rewrite <- ?app_assoc. reflexivity. }
    rewrite HT in *.
    set (bw := mkword ["{"] QN line).
    destruct (PL_of_P1 ks IH Hks orc w p2 rest' (S (length (K ++ rest'))) (S line) (S nid) true (Some bw) 0 None []
                Hp2 (follow_brace p _ Hp) (Nat.lt_succ_diag_r _))
      as (ks' & line' & nid' & prev' & active' & acc' & Hfl & Her & Hc).
    fold K in Hc. cbn [flushed] in Hfl. rewrite app_nil_r in Hfl.
    set (X := p ++ bang dis ++ n ++ " " :: "{" :: body) in *.
    assert (Hin : cobj orc (S (length X)) body line (S nid) true (Some bw) 0 None []
                  = Ok (ks', nl :: rest, line', nid')).
    { assert (Hb : length body < S (length X)).
      { unfold X. rewrite !app_length. cbn [length]. lia. }
      pose proof (cobj_pos_eq orc (S (length X)) (S (length (K ++ rest'))) body line (K ++ rest') (S line)
                    (S nid) true (Some bw) 0 None [] (nw_nl s0 _ line) Hb (Nat.lt_succ_diag_r _)) as H1.
      cbn [eqres] in H1. rewrite H1.
      specialize (Hc (S (length rest')) (Nat.lt_succ_diag_r _)). cbn [eqres] in Hc. rewrite Hc.
      unfold rest'. rewrite (cobj_close_brace orc _ p (nl :: rest) line' nid' (Some bw) prev' active' acc' Hp).
      rewrite Hfl, rev_involutive. reflexivity. }
    set (sc := Scp (mkhdr n dis 0 false nid line) ks' []).
    exists sc, (S line'), nid', line, None, (sc :: flushed active acc).
    split; [reflexivity|]. split.
    + unfold sc. cbn [erase_obj erase_all]. unfold n, dis. rewrite (erase_hdr_parsed h nid line Hh), Her. reflexivity.
    + intros g Hg.
      rewrite (cobj_fuel_enough orc f (S (S (length X))) X) by lia.
      unfold X at 2.
      rewrite (cobj_scope_step orc (S (length X)) p dis n body line nid stop start prev active acc
                 ks' (nl :: rest) line' nid' Hp Hn Hin).
      fold sc.
      apply cobj_pos_eq; [apply nw_nl| |exact Hg].
      unfold X, body, rest'. rewrite !app_length. cbn [length]. rewrite !app_length. cbn [length]. lia.
Qed.

Theorem PL_all : forall l, PL l.
Proof. intros l. apply PL_of_P1. apply Forall_forall. intros o _. apply P1_all. Qed.

(* ====================================================================================== *)
(* 6. D3: print -> parse at level 0, every width                                            *)
(* ====================================================================================== *)

Theorem parse_txts : forall o l w p, forallb tree_ok l = true -> blank p ->
  exists l', parse o (txts w p l) = Ok l' /\ map erase_obj l' = map erase_all l.
Proof.
  intros o l w p Hok Hp.
  set (text := txts w p l).
  destruct (PL_all l Hok o w p [] (S (S (length text))) 1 1 false None 0 None [] Hp (follow_blank [] eq_refl))
    as (l' & line' & nid' & prev' & active' & acc' & Hfl & Her & Hc).
  { fold text. rewrite app_nil_r. lia. }
  exists l'. split; [|exact Her].
  specialize (Hc 1 (Nat.lt_succ_diag_r _)). cbn [eqres] in Hc. fold text in Hc. rewrite app_nil_r in Hc.
  rewrite parse_noline, Hc. cbn [cobj nw cobj_noline].
  change (match active' with Some d => d :: acc' | None => acc' end) with (flushed active' acc').
  rewrite Hfl. cbn [flushed]. rewrite app_nil_r, rev_involutive. reflexivity.
Qed.

(* the main theorem: any tree of the domain, printed at attributes level 0 with the expert filter off,
   at any width, with any blank prefix, parses back to the same tree *)
Theorem parse_show_level0 : forall o l w p text,
  forallb tree_ok l = true -> blank p ->
  show_objs l p None 0 w = Ok text ->
  exists l', parse o text = Ok l' /\ map erase_obj l' = map erase_all l.
Proof.
  intros o l w p text Hok Hp H. rewrite (show_objs_txts w l p Hok) in H. inversion H; subst text.
  apply parse_txts; assumption.
Qed.

Theorem parse_as_str_level0 : forall o l w text,
  forallb tree_ok l = true ->
  as_str l [] None 0 w = Ok text ->
  exists l', parse o text = Ok l' /\ map erase_obj l' = map erase_all l.
Proof. intros o l w text Hok H. unfold as_str in H. eapply parse_show_level0; [exact Hok|apply blank_nil|exact H]. Qed.

(* a negative expert level is "filter off" too *)
Corollary parse_as_str_level0_negative : forall o l k w text, (k < 0)%Z ->
  forallb tree_ok l = true ->
  as_str l [] (Some k) 0 w = Ok text ->
  exists l', parse o text = Ok l' /\ map erase_obj l' = map erase_all l.
Proof.
  intros o l k w text Hk Hok H. unfold as_str in H. rewrite (show_objs_negative_is_all k Hk) in H.
  eapply parse_show_level0; [exact Hok|apply blank_nil|exact H].
Qed.

(* the printer never fails on the domain (so the hypothesis "= Ok text" is satisfiable for every tree) *)
Theorem as_str_level0_total : forall l w, forallb tree_ok l = true ->
  as_str l [] None 0 w = Ok (txts (match w with Some x => x | None => default_width end) [] l).
Proof. intros l w H. unfold as_str. apply show_objs_txts; exact H. Qed.

(* ---------- level 0 with the filter off does not look at the attributes, except .deprecated *)
Fixpoint no_deprecated (o:obj) : bool :=
  match o with
  | Def _ _ a => negb (py_truthy (get_attr (s_ "deprecated") a))
  | Scp _ ks _ => forallb no_deprecated ks
  end.

Theorem show_obj_erase_all : forall o, no_deprecated o = true -> forall m p w,
  show_obj (erase_all o) m p None 0 w = show_obj o m p None 0 w.
Proof.
  intros o. induction o as [h ws a|h ks a IH] using obj_ind2; intros Hnd m p w.
  - cbn [no_deprecated] in Hnd. apply negb_true_iff in Hnd.
    cbn [erase_all show_obj]. unfold show_def. cbn [erase_hdr otmpl odis oname].
    rewrite Hnd, !hidden_none. cbn [get_attr py_truthy andb bind].
    rewrite show_words_erase. reflexivity.
  - cbn [no_deprecated] in Hnd. cbn [erase_all]. rewrite !show_obj_scp. unfold show_scope_body.
    cbn [erase_hdr otmpl odis oname]. rewrite !hidden_none.
    assert (Hfm : first_merges (map erase_all ks) = first_merges ks).
    { destruct ks as [|k r]; [reflexivity|]. destruct k; reflexivity. }
    rewrite Hfm.
    assert (Hl : forall m p, show_list (map erase_all ks) m p None 0 w = show_list ks m p None 0 w).
    { induction IH as [|c r Hc Hr IHr]; intros m' p'; [reflexivity|].
      cbn [forallb] in Hnd. apply andb_prop in Hnd as [H1 H2].
      cbn [map show_list]. rewrite (Hc H1), (IHr H2); [reflexivity|].
      destruct r as [|k r']; [reflexivity|]. destruct k; reflexivity. }
    rewrite !Hl. reflexivity.
Qed.

Lemma tree_ok_no_deprecated : forall o, tree_ok o = true -> no_deprecated o = true.
Proof.
  intros o. induction o as [h ws a|h ks a IH] using obj_ind2; intros H; cbn [tree_ok no_deprecated] in *.
  - apply andb_prop in H as [H _]. apply andb_prop in H as [H _]. apply andb_prop in H as [_ H]. exact H.
  - apply andb_prop in H as [_ H]. induction IH as [|c r Hc Hr IHr]; [reflexivity|].
    cbn [forallb] in *. apply andb_prop in H as [H1 H2]. rewrite (Hc H1), (IHr H2). reflexivity.
Qed.

Theorem show_objs_erase_all : forall l, forallb no_deprecated l = true -> forall p w,
  show_objs (map erase_all l) p None 0 w = show_objs l p None 0 w.
Proof.
  induction l as [|o r IH]; intros H p w; [reflexivity|].
  cbn [forallb] in H. apply andb_prop in H as [H1 H2].
  cbn [map show_objs]. rewrite (show_obj_erase_all o H1), (IH H2). reflexivity.
Qed.

(* the text fix-point: printing the re-parsed tree gives the same text, byte for byte - and the same
   holds for every other width and prefix (the two trees print identically at level 0) *)
Theorem print_parse_print_level0 : forall o l w text,
  forallb tree_ok l = true ->
  as_str l [] None 0 w = Ok text ->
  exists l', parse o text = Ok l'
    /\ as_str l' [] None 0 w = Ok text
    /\ forall p2 w2, as_str l' p2 None 0 w2 = as_str l p2 None 0 w2.
Proof.
  intros o l w text Hok H.
  destruct (parse_as_str_level0 o l w text Hok H) as (l' & Hp & He).
  assert (Hsame : forall p2 w2, as_str l' p2 None 0 w2 = as_str l p2 None 0 w2).
  { intros p2 w2. unfold as_str.
    rewrite <- (show_objs_erase l'), He. apply show_objs_erase_all.
    apply forallb_forall. intros x Hx. rewrite forallb_forall in Hok. apply tree_ok_no_deprecated, Hok, Hx. }
  exists l'. split; [exact Hp|]. split; [|exact Hsame]. rewrite Hsame. exact H.
Qed.

(* D2 in the printer's terms: a scope of the domain, printed at level 0 after [prefix] *)
Theorem cobj_show_scope : forall o w p h ks a text rest f line nid stop start prev active acc,
  tree_ok (Scp h ks a) = true -> blank p -> follow_ok rest ->
  show_obj (Scp h ks a) [] p None 0 w = Ok text ->
  length (text ++ rest) < f ->
  exists ks' line' nid',
    map erase_obj ks' = map erase_all ks
    /\ forall g, length rest < g ->
       eqres stop (cobj o f (text ++ rest) line nid stop start prev active acc)
                  (cobj o g rest line' nid' stop start line None
                     (Scp (mkhdr (oname h) (odis h) 0 false nid line) ks' [] :: flushed active acc)).
Proof.
  intros o w p h ks a text rest f line nid stop start prev active acc Hok Hp Hfol Hs Hf.
  rewrite (show_obj_txt w _ Hok p) in Hs.
  assert (Ht : text = txt w p (Scp h ks a)) by congruence. subst text. clear Hs.
  (* replay the scope case with the explicit state *)
  cbn [tree_ok] in Hok. apply andb_prop in Hok as [Hh Hks].
  destruct (hdr_ok_facts h Hh) as (Hn & _ & _).
  set (n := oname h) in *. set (dis := odis h) in *.
  set (p2 := p ++ s_ "  ").
  assert (Hp2 : blank p2) by (apply blank_app; [exact Hp|split; reflexivity]).
  set (rest' := p ++ "}" :: nl :: rest).
  set (K := txts w p2 ks).
  set (body := nl :: K ++ rest').
  assert (HT : txt w p (Scp h ks a) ++ rest = p ++ bang dis ++ n ++ " " :: "{" :: body).
  { cbn [txt]. unfold Show.line, body, rest', K, txts, p2, n, dis. rewrite <- !app_assoc.
    cbn [s_ String.list_ascii_of_string app]. rewrite <- ?app_assoc. reflexivity. }
  rewrite HT in *.
  set (bw := mkword ["{"] QN line).
  destruct (PL_all ks Hks o w p2 rest' (S (length (K ++ rest'))) (S line) (S nid) true (Some bw) 0 None []
              Hp2 (follow_brace p _ Hp) (Nat.lt_succ_diag_r _))
    as (ks' & line' & nid' & prev' & active' & acc' & Hfl & Her & Hc).
  fold K in Hc. cbn [flushed] in Hfl. rewrite app_nil_r in Hfl.
  set (X := p ++ bang dis ++ n ++ " " :: "{" :: body) in *.
  assert (Hin : cobj o (S (length X)) body line (S nid) true (Some bw) 0 None []
                = Ok (ks', nl :: rest, line', nid')).
  { assert (Hb : length body < S (length X)).
    { unfold X. rewrite !app_length. cbn [length]. lia. }
    pose proof (cobj_pos_eq o (S (length X)) (S (length (K ++ rest'))) body line (K ++ rest') (S line)
                  (S nid) true (Some bw) 0 None [] (nw_nl s0 _ line) Hb (Nat.lt_succ_diag_r _)) as H1.
    cbn [eqres] in H1. rewrite H1.
    specialize (Hc (S (length rest')) (Nat.lt_succ_diag_r _)). cbn [eqres] in Hc. rewrite Hc.
    unfold rest'. rewrite (cobj_close_brace o _ p (nl :: rest) line' nid' (Some bw) prev' active' acc' Hp).
    rewrite Hfl, rev_involutive. reflexivity. }
  exists ks', (S line'), nid'. split; [exact Her|].
  intros g Hg.
  rewrite (cobj_fuel_enough o f (S (S (length X))) X) by lia.
  unfold X at 2.
  rewrite (cobj_scope_step o (S (length X)) p dis n body line nid stop start prev active acc
             ks' (nl :: rest) line' nid' Hp Hn Hin).
  apply cobj_pos_eq; [apply nw_nl| |exact Hg].
  unfold X, body, rest'. rewrite !app_length. cbn [length]. rewrite !app_length. cbn [length]. lia.
Qed.

(* ====================================================================================== *)
Print Assumptions in_document.
Print Assumptions cobj_scope_step.
Print Assumptions cobj_show_def_gen.
Print Assumptions cobj_show_scope.
Print Assumptions show_objs_txts.
Print Assumptions parse_show_level0.
Print Assumptions parse_as_str_level0.
Print Assumptions parse_as_str_level0_negative.
Print Assumptions show_objs_erase_all.
Print Assumptions print_parse_print_level0.

(* ====================================================================================== *)
(* examples (non-vacuity)                                                                    *)
(* ====================================================================================== *)
Definition ex_h (n:string) (dis:bool) (pid ln:nat) : hdr := mkhdr (s_ n) dis 0 false pid ln.
Definition ex_tree : list obj :=
  [ Def (ex_h "title" false 7 3) [mkword (s_ "he said ""hi""\ there") Q2 3; mkword (s_ "it's") Q1 3] [(s_ "help", AStr (s_ "not printed"))];
    Scp (ex_h "refinement" false 8 4)
      [ Def (ex_h "cycles" true 9 5) [mkword (s_ "12") QN 5] [];
        Scp (ex_h "target" true 10 6)
          [ Def (ex_h "weights" false 11 7)
              [mkword (s_ "a""b'c\") QN 7; mkword (s_ "multi" ++ nl :: s_ "line\") Q3d 7; mkword (s_ "x{};#") Q2 8;
               mkword [] Q1 8; mkword (s_ "#not_a_comment") QN 8; mkword (s_ "12.5e-3") QN 8] [(s_ "expert_level", AInt 3)];
            Scp (ex_h "empty" false 12 9) [] [] ]
          [(s_ "multiple", ABool true)];
        Def (ex_h "last" false 13 10) [mkword (s_ "1") QN 10; mkword (s_ "2") QN 10; mkword (s_ "3") QN 10] [] ]
      [];
    Scp (ex_h "second" false 14 20) [ Def (ex_h "x" false 15 21) [mkword (s_ "None") QN 21] [] ] [];
    Def (ex_h "tail" true 16 30) [mkword (s_ "*a") QN 30; mkword (s_ "b") QN 30] [] ].

Example ex_tree_in_domain : forallb tree_ok ex_tree = true.
Proof. vm_compute. reflexivity. Qed.

Definition ex_text (w:Z) : str := match as_str ex_tree [] None 0 (Some w) with Ok t => t | _ => [] end.

Example ex_text_30 : ex_text 30 = s_
"title = ""he said \""hi\""\\ there"" \
        'it\'s'
refinement {
  !cycles = 12
  !target {
    weights = a""b'c\ \
              """"""multi
line\\"""""" ""x{};#"" '' #not_a_comment 12.5e-3
    empty {
    }
  }
  last = 1 2 3
}
second {
  x = None
}
!tail = *a b
".
Proof. vm_compute. reflexivity. Qed.

Definition ex_parsed (w:Z) : list obj := match parse [] (ex_text w) with Ok l => l | _ => [] end.

Example ex_roundtrip_30 :
  parse [] (ex_text 30) = Ok (ex_parsed 30)
  /\ map erase_obj (ex_parsed 30) = map erase_all ex_tree
  /\ as_str (ex_parsed 30) [] None 0 (Some 30%Z) = Ok (ex_text 30).
Proof. vm_compute. repeat split. Qed.

Example ex_roundtrip_12_and_1000 :
  parse [] (ex_text 12) = Ok (ex_parsed 12) /\ map erase_obj (ex_parsed 12) = map erase_all ex_tree
  /\ parse [] (ex_text 1000) = Ok (ex_parsed 1000) /\ map erase_obj (ex_parsed 1000) = map erase_all ex_tree
  /\ count_nl (ex_text 12) = 20 /\ count_nl (ex_text 1000) = 15.
Proof. vm_compute. repeat split. Qed.

(* the re-parsed tree of the width-30 text, with the parser's ids and lines *)
Example ex_reparsed_ids_lines :
  match parse [] (ex_text 30) with
  | Ok (Def h1 [w1; w2] [] :: Scp h2 (_ :: Scp h4 (Def h5 ws5 [] :: _) [] :: _) [] :: _) =>
      (opid h1, oline h1, wline w1, wline w2, opid h2, oline h2, opid h4, oline h4, opid h5, oline h5, map wline ws5)
      = (1, 1, 1, 2, 2, 3, 4, 5, 5, 6, [6; 7; 8; 8; 8; 8])
  | _ => False
  end.
Proof. vm_compute. reflexivity. Qed.

(* outside the domain: a definition whose name carries a dot is re-read as a scope around a definition *)
Example ex_dotted_name_outside :
  let l := [Def (ex_h "a.b" false 1 1) [mkword (s_ "1") QN 1] []] in
  forallb tree_ok l = false
  /\ parse [] (match as_str l [] None 0 None with Ok t => t | _ => [] end)
     = Ok [Scp (mkhdr (s_ "a") false 0 false 1 0) [Def (mkhdr (s_ "b") false 0 true 1 1) [mkword (s_ "1") QN 1] []] []].
Proof. vm_compute. split; reflexivity. Qed.

(* ====================================================================================== *)
(* 7. dotted names (merge_names): the second, larger domain                                 *)
(* ====================================================================================== *)
(* The parser turns "a.b.x = v" into  a { b { x = v } }  where every object below the first carries
   merge_names, and the printer prints a scope whose first child carries merge_names without braces,
   prefixing its name to the children's names.  The domain [dtree_ok] allows exactly that shape:
   a dotted-prefix scope has exactly one child (carrying merge_names) and is not disabled. *)

Definition is_nil {A} (l:list A) : bool := match l with [] => true | _ => false end.

(* the chain of prefix scopes that scope.adopt builds around an object *)
Fixpoint wrapc (first:bool) (m:list str) (x:obj) : obj :=
  match m with [] => x | c :: r => Scp (mkhdr c false 0 (negb first) (opid (ohdr x)) 0) [wrapc false r x] [] end.

Lemma wrapc_snoc : forall m first c x,
  wrapc first (m ++ [c]) x = wrapc first m (Scp (mkhdr c false 0 (negb (first && is_nil m)) (opid (ohdr x)) 0) [x] []).
Proof.
  induction m as [|d r IH]; intros first c x.
  - cbn [app wrapc is_nil]. rewrite andb_true_r. reflexivity.
  - cbn [app wrapc is_nil]. rewrite IH, andb_false_r. reflexivity.
Qed.

Definition leafm (first:bool) (m:list str) (n:str) (o:obj) : obj :=
  if first && is_nil m then o else set_hdr o (with_merge (with_name (ohdr o) n) true).

Lemma wrap_dotted_wrapc : forall m first n o,
  wrap_dotted first (m ++ [n]) o = wrapc first m (leafm first m n o).
Proof.
  induction m as [|d r IH]; intros first n o.
  - cbn [app wrap_dotted wrapc]. unfold leafm. cbn [is_nil]. rewrite andb_true_r. reflexivity.
  - cbn [app]. destruct (r ++ [n]) as [|c2 t] eqn:E; [destruct r; discriminate E|].
    change (wrap_dotted first (d :: c2 :: t) o)
      with (Scp (mkhdr d false 0 (negb first) (opid (ohdr o)) 0) [wrap_dotted false (c2 :: t) o] []).
    rewrite <- E, IH. cbn [wrapc]. unfold leafm. cbn [is_nil andb]. rewrite andb_false_r. destruct o; reflexivity.
Qed.

Lemma erase_wrapc : forall m first x, erase_obj (wrapc first m x) = wrapc first m (erase_obj x).
Proof. induction m as [|d r IH]; intros first x; [reflexivity|]. cbn [wrapc erase_obj map]. rewrite IH. destruct x; reflexivity. Qed.

Lemma eqs_true : forall a b, eqs a b = true -> a = b.
Proof.
  induction a as [|x a IH]; intros [|y b] H; cbn [eqs] in H; try discriminate H; [reflexivity|].
  apply andb_prop in H as [H1 H2]. apply Ascii.eqb_eq in H1. rewrite H1, (IH b H2). reflexivity.
Qed.
Fixpoint eqsl (a b:list str) : bool :=
  match a, b with [], [] => true | x :: a', y :: b' => eqs x y && eqsl a' b' | _, _ => false end.
Lemma eqsl_true : forall a b, eqsl a b = true -> a = b.
Proof.
  induction a as [|x a IH]; intros [|y b] H; cbn [eqsl] in H; try discriminate H; [reflexivity|].
  apply andb_prop in H as [H1 H2]. rewrite (eqs_true _ _ H1), (IH b H2). reflexivity.
Qed.

(* the printed name: the components joined by dots *)
Definition full (comps:list str) : str := join_with ["."] comps.
(* the joined name is accepted by the parser and splits back into the components *)
Definition full_ok (comps:list str) : bool :=
  let n := full comps in
  is_ident n && negb (eqs n include_w) && eqsl (splitdot n) comps
  && negb (name_reserved_scp n) && negb (prefix_reserved n).

Lemma full_ok_facts : forall comps, full_ok comps = true ->
  is_ident (full comps) = true /\ eqs (full comps) include_w = false /\ splitdot (full comps) = comps
  /\ name_reserved_def (full comps) = false /\ name_reserved_scp (full comps) = false
  /\ prefix_reserved (full comps) = false.
Proof.
  intros comps H. unfold full_ok in H. cbv zeta in H.
  apply andb_prop in H as [H H5]. apply andb_prop in H as [H H4]. apply andb_prop in H as [H H3].
  apply andb_prop in H as [H1 H2]. apply negb_true_iff in H2, H4, H5. apply eqsl_true in H3.
  repeat split; try assumption.
  unfold name_reserved_scp in H4. apply orb_false_iff in H4 as [Ha Hb].
  unfold name_reserved_def. rewrite Ha, Hb, andb_false_r. reflexivity.
Qed.

Lemma full_ok_last_not_include : forall m n, full_ok (m ++ [n]) = true -> eqs n include_w = false.
Proof.
  intros m n H. destruct (full_ok_facts _ H) as (_ & _ & Hsd & _ & Hscp & _).
  unfold name_reserved_scp in Hscp. apply orb_false_iff in Hscp as [_ Hb].
  rewrite Hsd in Hb. unfold mems in Hb. rewrite existsb_app in Hb. apply orb_false_iff in Hb as [_ Hb].
  cbn [existsb] in Hb. rewrite orb_false_r in Hb. rewrite eqs_sym. exact Hb.
Qed.

Lemma full_single : forall n, full [n] = n.
Proof. reflexivity. Qed.

(* an object that carries its own name (a definition, or a scope printed with braces), standing
   below the prefix scopes [m] *)
Definition leaf_ok (m:list str) (h:hdr) : bool :=
  negb (is_nil (oname h))     (* implied by full_ok; kept as an explicit test *)
  && full_ok (m ++ [oname h]) && (otmpl h =? 0)%Z && Bool.eqb (omerge h) (negb (is_nil m)).

Fixpoint dtree_ok (m:list str) (o:obj) : bool :=
  match o with
  | Def h ws a => leaf_ok m h && negb (py_truthy (get_attr (s_ "deprecated") a))
                  && negb (is_nil ws) && words_ok ws
  | Scp h ks a =>
      if first_merges ks then
        negb (is_nil (oname h)) && negb (odis h) && (otmpl h =? 0)%Z && Bool.eqb (omerge h) (negb (is_nil m))
        && match ks with [k] => dtree_ok (m ++ [oname h]) k | _ => false end
      else leaf_ok m h && forallb (dtree_ok []) ks
  end.

Fixpoint dtxt (w:Z) (m:list str) (p:str) (o:obj) : str :=
  match o with
  | Def h ws _ => show_words ws (def_cur p (odis h) (full (m ++ [oname h])))
                                (def_indent p (odis h) (full (m ++ [oname h]))) w
  | Scp h ks _ =>
      if first_merges ks then flat_map (dtxt w (m ++ [oname h]) p) ks
      else line (p ++ bang (odis h) ++ full (m ++ [oname h]) ++ s_ " {")
           ++ flat_map (dtxt w [] (p ++ s_ "  ")) ks ++ line (p ++ ["}"])
  end.
Definition dtxts (w:Z) (p:str) (l:list obj) : str := flat_map (dtxt w [] p) l.

Lemma leaf_ok_facts : forall m h, leaf_ok m h = true ->
  full_ok (m ++ [oname h]) = true /\ otmpl h = 0%Z /\ omerge h = negb (is_nil m) /\ oname h <> [].
Proof.
  intros m h H. unfold leaf_ok in H. apply andb_prop in H as [H H3]. apply andb_prop in H as [H H2].
  apply andb_prop in H as [H0 H1].
  apply Z.eqb_eq in H2. apply eqb_prop in H3. repeat split; try assumption.
  intros E. rewrite E in H0. discriminate H0.
Qed.

Lemma show_list_dtxts : forall w p l,
  Forall (fun o => forall m, dtree_ok m o = true -> forall p, show_obj o m p None 0 w = Ok (dtxt w m p o)) l ->
  forallb (dtree_ok []) l = true ->
  show_list l [] p None 0 w = Ok (dtxts w p l).
Proof.
  intros w p l H. induction H as [|o r Ho Hr IH]; intros Hok; [reflexivity|].
  cbn [forallb] in Hok. apply andb_prop in Hok as [H1 H2].
  cbn [show_list]. rewrite (Ho [] H1), (IH H2). reflexivity.
Qed.

Theorem show_obj_dtxt : forall w o m, dtree_ok m o = true -> forall p, show_obj o m p None 0 w = Ok (dtxt w m p o).
Proof.
  intros w o. induction o as [h ws a|h ks a IH] using obj_ind2; intros m Hok p.
  - cbn [dtree_ok] in Hok. apply andb_prop in Hok as [Hok _]. apply andb_prop in Hok as [Hok _].
    apply andb_prop in Hok as [Hh Hd]. apply negb_true_iff in Hd.
    destruct (leaf_ok_facts m h Hh) as (Hn & Ht & _).
    pose proof (full_ok_last_not_include m _ Hn) as Hinc.
    cbn [show_obj dtxt]. unfold show_def. rewrite Ht, Hd, hidden_none, Hinc. cbn [Z.ltb Z.compare andb bind].
    cbn [show_attributes Z.leb Z.compare bind app].
    rewrite app_nil_r. reflexivity.
  - cbn [dtree_ok] in Hok. rewrite show_obj_scp. unfold show_scope_body. cbn [dtxt].
    destruct (first_merges ks) eqn:Efm.
    + apply andb_prop in Hok as [Hok Hk]. apply andb_prop in Hok as [Hok _]. apply andb_prop in Hok as [Hok Ht].
      apply andb_prop in Hok as [Hne _]. apply Z.eqb_eq in Ht.
      destruct ks as [|k [|k2 r]]; try discriminate Hk.
      rewrite Ht, hidden_none. cbn [Z.ltb Z.compare andb bind].
      assert (En : exists c n', oname h = c :: n') by (destruct (oname h); [discriminate Hne|eauto]).
      destruct En as (c & n' & En). rewrite En at 1.
      inversion IH as [|? ? Hk1 _]; subst.
      cbn [show_list flat_map]. rewrite (Hk1 _ Hk). cbn [bind]. reflexivity.
    + apply andb_prop in Hok as [Hh Hks].
      destruct (leaf_ok_facts m h Hh) as (Hn & Ht & _ & Hne).
      rewrite Ht, hidden_none. cbn [Z.ltb Z.compare andb bind].
      assert (En : exists c n', oname h = c :: n') by (destruct (oname h); [congruence|eauto]).
      destruct En as (c & n' & En). rewrite En at 1.
      cbn [show_attributes Z.leb Z.compare bind].
      rewrite (show_list_dtxts w (p ++ s_ "  ") ks IH Hks). cbn [bind].
      unfold bang, dtxts, full. rewrite <- !app_assoc. reflexivity.
Qed.

Theorem show_objs_dtxts : forall w l p, forallb (dtree_ok []) l = true -> show_objs l p None 0 w = Ok (dtxts w p l).
Proof.
  intros w l p H. rewrite show_objs_list. apply show_list_dtxts; [|exact H].
  apply Forall_forall. intros o _. exact (show_obj_dtxt w o).
Qed.

(* every printed object starts with blanks, then "[!]name" (an identifier, dotted or not), then a space *)
Lemma dtxt_head : forall w o m, dtree_ok m o = true -> forall p tl,
  exists dis n X, is_ident n = true /\ dtxt w m p o ++ tl = p ++ (bang dis ++ n) ++ " " :: X.
Proof.
  intros w o. induction o as [h ws a|h ks a IH] using obj_ind2; intros m Hok p tl.
  - cbn [dtree_ok] in Hok. apply andb_prop in Hok as [Hok _]. apply andb_prop in Hok as [Hok _].
    apply andb_prop in Hok as [Hh _]. destruct (leaf_ok_facts m h Hh) as (Hn & _).
    destruct (full_ok_facts _ Hn) as (Hid & _).
    exists (odis h), (full (m ++ [oname h])). cbn [dtxt].
    rewrite show_words_vtail. unfold def_cur at 1. eexists. split; [exact Hid|]. rewrite <- !app_assoc.
    cbn [s_ String.list_ascii_of_string app]. reflexivity.
  - cbn [dtree_ok] in Hok. cbn [dtxt]. destruct (first_merges ks) eqn:Efm.
    + apply andb_prop in Hok as [_ Hk]. destruct ks as [|k [|k2 r]]; try discriminate Hk.
      inversion IH as [|? ? Hk1 _]; subst.
      cbn [flat_map]. rewrite app_nil_r. exact (Hk1 _ Hk p tl).
    + apply andb_prop in Hok as [Hh _]. destruct (leaf_ok_facts m h Hh) as (Hn & _).
      destruct (full_ok_facts _ Hn) as (Hid & _).
      exists (odis h), (full (m ++ [oname h])). unfold line. eexists. split; [exact Hid|].
      rewrite <- !app_assoc. cbn [s_ String.list_ascii_of_string app]. reflexivity.
Qed.

Lemma follow_dtxt : forall w m p o tl, blank p -> dtree_ok m o = true -> follow_ok (dtxt w m p o ++ tl).
Proof.
  intros w m p o tl [Hp _] Hok line.
  destruct (dtxt_head w o m Hok p tl) as (dis & n & X & Hid & ->).
  destruct (lead_unq_ok dis n Hid) as (Hu & Hh).
  apply value_ends_unquoted; try assumption. reflexivity.
Qed.

Definition P2 (o:obj) : Prop := forall m, dtree_ok m o = true ->
  forall orc w p rest f line nid stop start prev active acc,
  blank p -> follow_ok rest -> length (dtxt w m p o ++ rest) < f ->
  exists o' line' nid' prev' active' acc',
    flushed active' acc' = o' :: flushed active acc
    /\ erase_obj o' = wrapc true m (erase_all o)
    /\ forall g, length rest < g ->
       eqres stop (cobj orc f (dtxt w m p o ++ rest) line nid stop start prev active acc)
                  (cobj orc g rest line' nid' stop start prev' active' acc').

Definition PL2 (l:list obj) : Prop := forallb (dtree_ok []) l = true ->
  forall orc w p rest f line nid stop start prev active acc,
  blank p -> follow_ok rest -> length (dtxts w p l ++ rest) < f ->
  exists l' line' nid' prev' active' acc',
    flushed active' acc' = rev l' ++ flushed active acc
    /\ map erase_obj l' = map erase_all l
    /\ forall g, length rest < g ->
       eqres stop (cobj orc f (dtxts w p l ++ rest) line nid stop start prev active acc)
                  (cobj orc g rest line' nid' stop start prev' active' acc').

Lemma PL2_of_P2 : forall l, Forall P2 l -> PL2 l.
Proof.
  intros l H. induction H as [|o r Ho Hr IH]; intros Hok orc w p rest f line nid stop start prev active acc Hp Hfol Hf.
  - exists [], line, nid, prev, active, acc. split; [reflexivity|]. split; [reflexivity|].
    intros g Hg. cbn [dtxts flat_map app] in *. apply cobj_fuel_eq; assumption.
  - cbn [forallb] in Hok. apply andb_prop in Hok as [Hoo Hor].
    assert (HT : dtxts w p (o :: r) ++ rest = dtxt w [] p o ++ (dtxts w p r ++ rest)).
    { unfold dtxts. cbn [flat_map]. rewrite <- app_assoc. reflexivity. }
    rewrite HT in *.
    set (rest1 := dtxts w p r ++ rest) in *.
    assert (Hfol1 : follow_ok rest1).
    { unfold rest1. destruct r as [|o2 r2]; [exact Hfol|].
      cbn [forallb] in Hor. apply andb_prop in Hor as [Ho2 _].
      unfold dtxts. cbn [flat_map]. rewrite <- app_assoc. apply follow_dtxt; assumption. }
    destruct (Ho [] Hoo orc w p rest1 f line nid stop start prev active acc Hp Hfol1 Hf)
      as (o' & line1 & nid1 & prev1 & active1 & acc1 & Hfl1 & Her1 & Hc1).
    cbn [wrapc] in Her1.
    destruct (IH Hor orc w p rest (S (length rest1)) line1 nid1 stop start prev1 active1 acc1 Hp Hfol
                 (Nat.lt_succ_diag_r _))
      as (l' & line2 & nid2 & prev2 & active2 & acc2 & Hfl2 & Her2 & Hc2).
    exists (o' :: l'), line2, nid2, prev2, active2, acc2.
    split; [|split].
    + rewrite Hfl2, Hfl1. cbn [rev]. rewrite <- app_assoc. reflexivity.
    + cbn [map]. rewrite Her1, Her2. reflexivity.
    + intros g Hg. eapply eqres_trans; [apply (Hc1 (S (length rest1))); lia|apply Hc2; exact Hg].
Qed.

(* the header of the object proper after scope.adopt, with ids and lines erased *)
Lemma erase_leafm_hdr : forall m h nid line, leaf_ok m h = true ->
  forall x, ohdr x = mkhdr (full (m ++ [oname h])) (odis h) 0 false nid line ->
  erase_hdr (ohdr (leafm true m (oname h) x)) = erase_hdr h.
Proof.
  intros m h nid line Hh x Hx. destruct (leaf_ok_facts m h Hh) as (_ & Ht & Hm & _).
  unfold leafm. destruct m as [|d r]; cbn [is_nil andb negb] in *.
  - rewrite Hx. cbn [app full join_with]. unfold erase_hdr. cbn [oname odis otmpl omerge]. rewrite Ht, Hm. reflexivity.
  - destruct x; cbn [set_hdr ohdr] in *; rewrite Hx; unfold erase_hdr, with_merge, with_name;
      cbn [oname odis otmpl omerge]; rewrite Ht, Hm; reflexivity.
Qed.
Lemma leafm_def : forall m n h ws a, exists h', leafm true m n (Def h ws a) = Def h' ws a.
Proof. intros. unfold leafm. destruct (true && is_nil m); eexists; reflexivity. Qed.
Lemma leafm_scp : forall m n h ks a, exists h', leafm true m n (Scp h ks a) = Scp h' ks a.
Proof. intros. unfold leafm. destruct (true && is_nil m); eexists; reflexivity. Qed.

Theorem P2_all : forall o, P2 o.
Proof.
  intros o. induction o as [h ws a|h ks a IH] using obj_ind2;
    intros m Hok orc w p rest f line nid stop start prev active acc Hp Hfol Hf.
  - (* definition *)
    cbn [dtree_ok] in Hok. apply andb_prop in Hok as [Hok Hwok]. apply andb_prop in Hok as [Hok Hne].
    apply andb_prop in Hok as [Hh _].
    destruct (leaf_ok_facts m h Hh) as (Hn & _ & _ & _).
    destruct (full_ok_facts _ Hn) as (Hid & Hinc & Hsd & Hres & _ & Hpre).
    assert (Hne' : ws <> []) by (destruct ws; [discriminate Hne|discriminate]).
    set (n := full (m ++ [oname h])) in *. set (dis := odis h) in *.
    assert (Hind : blank (def_indent p dis n)) by (apply blank_app; [exact Hp|apply blank_spaces]).
    cbn [dtxt] in *. fold n dis in Hf |- *.
    set (cur := def_cur p dis n) in *. set (indent := def_indent p dis n) in *.
    destruct (cobj_show_def_adopt p dis n ws indent w rest line Hp Hid Hinc Hres Hpre Hind Hne' Hwok (Hfol _))
      as (s' & Hs & Hnw & Hc).
    fold cur in Hs, Hnw, Hc.
    set (L := endw ws cur indent w line) in *.
    set (d0 := Def (mkhdr n dis 0 false nid line) (relw ws cur indent w line) []) in *.
    exists (adopt d0), (S L), (S nid), line, (Some (adopt d0)), (flushed active acc).
    split; [reflexivity|]. split.
    + unfold adopt. change (oname (ohdr d0)) with n. rewrite Hsd, wrap_dotted_wrapc, erase_wrapc. f_equal.
      pose proof (erase_leafm_hdr m h nid line Hh d0 eq_refl) as Hhd.
      destruct (leafm_def m (oname h) (mkhdr n dis 0 false nid line) (relw ws cur indent w line) []) as (h' & Hl).
      fold d0 in Hl. rewrite Hl in *. cbn [ohdr] in Hhd. cbn [erase_obj erase_all]. rewrite Hhd.
      f_equal. exact (relw_noline ws cur indent w line).
    + intros g Hg.
      set (X := show_words ws cur indent w ++ rest) in *.
      assert (Hlen : length rest < length X).
      { unfold X. rewrite show_words_vtail, app_length.
        pose proof (vtail_longer indent w rest ws cur). lia. }
      rewrite (cobj_fuel_enough orc f (S (S (length X))) X) by lia.
      unfold X at 2. rewrite Hc.
      apply cobj_pos_eq; [exact Hnw| |exact Hg].
      destruct Hs as [->|[-> _]]; cbn [length]; lia.
  - cbn [dtree_ok] in Hok. cbn [dtxt] in *. destruct (first_merges ks) eqn:Efm.
    + (* dotted-prefix scope: its only child is printed with the longer name *)
      apply andb_prop in Hok as [Hok Hk]. apply andb_prop in Hok as [Hok Hmg]. apply andb_prop in Hok as [Hok Ht].
      apply andb_prop in Hok as [_ Hdis]. apply Z.eqb_eq in Ht. apply eqb_prop in Hmg. apply negb_true_iff in Hdis.
      destruct ks as [|k [|k2 r]]; try discriminate Hk.
      inversion IH as [|? ? Hk1 _]; subst.
      cbn [flat_map] in *. rewrite app_nil_r in *.
      destruct (Hk1 _ Hk orc w p rest f line nid stop start prev active acc Hp Hfol Hf)
        as (o' & line1 & nid1 & prev1 & active1 & acc1 & Hfl1 & Her1 & Hc1).
      exists o', line1, nid1, prev1, active1, acc1.
      split; [exact Hfl1|]. split; [|exact Hc1].
      rewrite Her1, wrapc_snoc. cbn [erase_all map andb]. unfold erase_hdr. rewrite Ht, Hmg, Hdis. destruct k; reflexivity.
    + (* scope printed with braces *)
      apply andb_prop in Hok as [Hh Hks].
      destruct (leaf_ok_facts m h Hh) as (Hn & _ & _ & _).
      destruct (full_ok_facts _ Hn) as (Hid & _ & Hsd & _ & Hres & Hpre).
      set (n := full (m ++ [oname h])) in *. set (dis := odis h) in *.
      set (p2 := p ++ s_ "  ").
      assert (Hp2 : blank p2) by (apply blank_app; [exact Hp|split; reflexivity]).
      set (rest' := p ++ "}" :: nl :: rest).
      set (K := dtxts w p2 ks).
      set (body := nl :: K ++ rest').
      assert (HT : (Show.line (p ++ bang dis ++ n ++ s_ " {") ++ flat_map (dtxt w [] p2) ks
                    ++ Show.line (p ++ ["}"])) ++ rest = p ++ bang dis ++ n ++ " " :: "{" :: body).
      { unfold Show.line, body, rest', K, dtxts. rewrite <- !app_assoc.
        cbn [s_ String.list_ascii_of_string app]. rewrite <- ?app_assoc. reflexivity. }
      fold p2 in Hf. rewrite HT in *.
      set (bw := mkword ["{"] QN line).
      destruct (PL2_of_P2 ks IH Hks orc w p2 rest' (S (length (K ++ rest'))) (S line) (S nid) true (Some bw) 0 None []
                  Hp2 (follow_brace p _ Hp) (Nat.lt_succ_diag_r _))
        as (ks' & line' & nid' & prev' & active' & acc' & Hfl & Her & Hc).
      fold K in Hc. cbn [flushed] in Hfl. rewrite app_nil_r in Hfl.
      set (X := p ++ bang dis ++ n ++ " " :: "{" :: body) in *.
      assert (Hin : cobj orc (S (length X)) body line (S nid) true (Some bw) 0 None []
                    = Ok (ks', nl :: rest, line', nid')).
      { assert (Hb : length body < S (length X)).
        { unfold X. rewrite !app_length. cbn [length]. lia. }
        pose proof (cobj_pos_eq orc (S (length X)) (S (length (K ++ rest'))) body line (K ++ rest') (S line)
                      (S nid) true (Some bw) 0 None [] (nw_nl s0 _ line) Hb (Nat.lt_succ_diag_r _)) as H1.
        cbn [eqres] in H1. rewrite H1.
        specialize (Hc (S (length rest')) (Nat.lt_succ_diag_r _)). cbn [eqres] in Hc. rewrite Hc.
        unfold rest'. rewrite (cobj_close_brace orc _ p (nl :: rest) line' nid' (Some bw) prev' active' acc' Hp).
        rewrite Hfl, rev_involutive. reflexivity. }
      set (sc0 := Scp (mkhdr n dis 0 false nid line) ks' []).
      exists (adopt sc0), (S line'), nid', line, None, (adopt sc0 :: flushed active acc).
      split; [reflexivity|]. split.
      * unfold adopt. change (oname (ohdr sc0)) with n. rewrite Hsd, wrap_dotted_wrapc, erase_wrapc. f_equal.
        pose proof (erase_leafm_hdr m h nid line Hh sc0 eq_refl) as Hhd.
        destruct (leafm_scp m (oname h) (mkhdr n dis 0 false nid line) ks' []) as (h' & Hl).
        fold sc0 in Hl. rewrite Hl in *. cbn [ohdr] in Hhd. cbn [erase_obj erase_all]. rewrite Hhd, Her. reflexivity.
      * intros g Hg.
        rewrite (cobj_fuel_enough orc f (S (S (length X))) X) by lia.
        unfold X at 2.
        rewrite (cobj_scope_step_adopt orc (S (length X)) p dis n body line nid stop start prev active acc
                   ks' (nl :: rest) line' nid' Hp Hid Hres Hpre Hin).
        fold sc0.
        apply cobj_pos_eq; [apply nw_nl| |exact Hg].
        unfold X, body, rest'. rewrite !app_length. cbn [length]. rewrite !app_length. cbn [length]. lia.
Qed.

Theorem PL2_all : forall l, PL2 l.
Proof. intros l. apply PL2_of_P2. apply Forall_forall. intros o _. apply P2_all. Qed.

Theorem parse_dtxts : forall o l w p, forallb (dtree_ok []) l = true -> blank p ->
  exists l', parse o (dtxts w p l) = Ok l' /\ map erase_obj l' = map erase_all l.
Proof.
  intros o l w p Hok Hp.
  set (text := dtxts w p l).
  destruct (PL2_all l Hok o w p [] (S (S (length text))) 1 1 false None 0 None [] Hp (follow_blank [] eq_refl))
    as (l' & line' & nid' & prev' & active' & acc' & Hfl & Her & Hc).
  { fold text. rewrite app_nil_r. lia. }
  exists l'. split; [|exact Her].
  specialize (Hc 1 (Nat.lt_succ_diag_r _)). cbn [eqres] in Hc. fold text in Hc. rewrite app_nil_r in Hc.
  rewrite parse_noline, Hc. cbn [cobj nw cobj_noline].
  change (match active' with Some d => d :: acc' | None => acc' end) with (flushed active' acc').
  rewrite Hfl. cbn [flushed]. rewrite app_nil_r, rev_involutive. reflexivity.
Qed.

(* the main theorem on the larger domain (dotted names included) *)
Theorem parse_show_level0_dotted : forall o l w p text,
  forallb (dtree_ok []) l = true -> blank p ->
  show_objs l p None 0 w = Ok text ->
  exists l', parse o text = Ok l' /\ map erase_obj l' = map erase_all l.
Proof.
  intros o l w p text Hok Hp H. rewrite (show_objs_dtxts w l p Hok) in H.
  assert (Ht : text = dtxts w p l) by congruence. subst text.
  apply parse_dtxts; assumption.
Qed.

Theorem parse_as_str_level0_dotted : forall o l w text,
  forallb (dtree_ok []) l = true ->
  as_str l [] None 0 w = Ok text ->
  exists l', parse o text = Ok l' /\ map erase_obj l' = map erase_all l.
Proof. intros o l w text Hok H. unfold as_str in H. eapply parse_show_level0_dotted; [exact Hok|apply blank_nil|exact H]. Qed.

Theorem as_str_level0_total_dotted : forall l w, forallb (dtree_ok []) l = true ->
  as_str l [] None 0 w = Ok (dtxts (match w with Some x => x | None => default_width end) [] l).
Proof. intros l w H. unfold as_str. apply show_objs_dtxts; exact H. Qed.

Lemma dtree_ok_no_deprecated : forall o m, dtree_ok m o = true -> no_deprecated o = true.
Proof.
  intros o. induction o as [h ws a|h ks a IH] using obj_ind2; intros m H; cbn [dtree_ok no_deprecated] in *.
  - apply andb_prop in H as [H _]. apply andb_prop in H as [H _]. apply andb_prop in H as [_ H]. exact H.
  - destruct (first_merges ks).
    + apply andb_prop in H as [_ H]. destruct ks as [|k [|k2 r]]; try discriminate H.
      inversion IH as [|? ? Hk _]; subst. cbn [forallb]. rewrite (Hk _ H). reflexivity.
    + apply andb_prop in H as [_ H]. induction IH as [|c r Hc Hr IHr]; [reflexivity|].
      cbn [forallb] in *. apply andb_prop in H as [H1 H2]. rewrite (Hc _ H1), (IHr H2). reflexivity.
Qed.

Theorem print_parse_print_level0_dotted : forall o l w text,
  forallb (dtree_ok []) l = true ->
  as_str l [] None 0 w = Ok text ->
  exists l', parse o text = Ok l'
    /\ map erase_obj l' = map erase_all l
    /\ as_str l' [] None 0 w = Ok text
    /\ forall p2 w2, as_str l' p2 None 0 w2 = as_str l p2 None 0 w2.
Proof.
  intros o l w text Hok H.
  destruct (parse_as_str_level0_dotted o l w text Hok H) as (l' & Hp & He).
  assert (Hsame : forall p2 w2, as_str l' p2 None 0 w2 = as_str l p2 None 0 w2).
  { intros p2 w2. unfold as_str.
    rewrite <- (show_objs_erase l'), He. apply show_objs_erase_all.
    apply forallb_forall. intros x Hx. rewrite forallb_forall in Hok. exact (dtree_ok_no_deprecated x [] (Hok x Hx)). }
  exists l'. split; [exact Hp|]. split; [exact He|]. split; [|exact Hsame]. rewrite Hsame. exact H.
Qed.

(* the first domain is part of the second *)
Lemma eqs_refl : forall a, eqs a a = true.
Proof. induction a as [|x a IH]; [reflexivity|]. cbn [eqs]. rewrite Ascii.eqb_refl, IH. reflexivity. Qed.
Lemma name_ok_full_ok : forall n, name_ok n = true -> full_ok [n] = true.
Proof.
  intros n H. destruct (name_ok_facts n H) as (Hid & Hinc & Hsd & _ & Hscp & Hpre).
  unfold full_ok. cbv zeta. rewrite full_single, Hid, Hinc, Hsd, Hscp, Hpre. cbn [eqsl]. rewrite eqs_refl. reflexivity.
Qed.
Lemma hdr_ok_leaf_ok : forall h, hdr_ok h = true -> leaf_ok [] h = true.
Proof.
  intros h H. destruct (hdr_ok_facts h H) as (Hn & Ht & Hm).
  destruct (name_ok_facts _ Hn) as (Hid & _). destruct (ident_shape _ Hid) as (c & n' & En & _).
  unfold leaf_ok. cbn [app is_nil negb]. rewrite (name_ok_full_ok _ Hn), Ht, Hm, En. reflexivity.
Qed.
Theorem tree_ok_dtree_ok : forall o, tree_ok o = true -> dtree_ok [] o = true.
Proof.
  intros o.
  induction o as [h ws a|h ks a IH] using obj_ind2; intros H; cbn [tree_ok dtree_ok] in *.
  - apply andb_prop in H as [H H4]. apply andb_prop in H as [H H3]. apply andb_prop in H as [H1 H2].
    rewrite (hdr_ok_leaf_ok h H1), H2, H4. destruct ws; [discriminate H3|reflexivity].
  - apply andb_prop in H as [Hh Hks].
    assert (Hfm : first_merges ks = false).
    { destruct ks as [|k r]; [reflexivity|]. cbn [first_merges forallb] in *.
      apply andb_prop in Hks as [Hk _]. apply tree_ok_hdr, hdr_ok_facts in Hk. apply Hk. }
    rewrite Hfm, (hdr_ok_leaf_ok h Hh). cbn [andb].
    induction IH as [|c r Hc Hr IHr]; [reflexivity|].
    cbn [forallb] in *. apply andb_prop in Hks as [H1 H2]. rewrite (Hc H1). cbn [andb]. apply IHr; [exact H2|].
    destruct r as [|k r']; [reflexivity|]. cbn [first_merges forallb] in *.
    apply andb_prop in H2 as [Hk _]. apply tree_ok_hdr, hdr_ok_facts in Hk. apply Hk.
Qed.

Print Assumptions parse_show_level0_dotted.
Print Assumptions parse_as_str_level0_dotted.
Print Assumptions print_parse_print_level0_dotted.
Print Assumptions tree_ok_dtree_ok.

(* ---------- examples with dotted names *)
Definition ex_hm (n:string) (dis mg:bool) : hdr := mkhdr (s_ n) dis 0 mg 0 0.
Definition ex_dtree : list obj :=
  [ Scp (ex_hm "a" false false)
      [ Scp (ex_hm "b" false true) [ Def (ex_hm "x" true true) [mkword (s_ "1") QN 0; mkword (s_ "two words") Q2 0] [] ] [] ] [];
    Scp (ex_hm "outer" false false)
      [ Scp (ex_hm "p" false false) [ Scp (ex_hm "q" true true) [ Def (ex_hm "y" false false) [mkword (s_ "v") QN 0] [];
                                                                   Scp (ex_hm "r" false false) [ Def (ex_hm "s" false true) [mkword (s_ "w") QN 0] [] ] [] ] [] ] [];
        Def (ex_hm "z" false false) [mkword (s_ "0") QN 0] [] ] [] ].

Example ex_dtree_in_domain : forallb (dtree_ok []) ex_dtree = true /\ forallb tree_ok ex_dtree = false.
Proof. vm_compute. split; reflexivity. Qed.

Definition ex_dtext (w:Z) : str := match as_str ex_dtree [] None 0 (Some w) with Ok t => t | _ => [] end.
Example ex_dtext_20 : ex_dtext 20 = s_
"!a.b.x = 1 \
         ""two words""
outer {
  !p.q {
    y = v
    r.s = w
  }
  z = 0
}
".
Proof. vm_compute. reflexivity. Qed.

Definition ex_dparsed (w:Z) : list obj := match parse [] (ex_dtext w) with Ok l => l | _ => [] end.
Example ex_droundtrip_20 :
  parse [] (ex_dtext 20) = Ok (ex_dparsed 20)
  /\ map erase_obj (ex_dparsed 20) = map erase_all ex_dtree
  /\ as_str (ex_dparsed 20) [] None 0 (Some 20%Z) = Ok (ex_dtext 20).
Proof. vm_compute. repeat split. Qed.

(* needed: a dotted-prefix scope with two children is printed as two dotted lines and re-read as two scopes *)
Example ex_prefix_two_children_outside :
  let l := [Scp (ex_hm "a" false false)
              [Def (ex_hm "x" false true) [mkword (s_ "1") QN 0] []; Def (ex_hm "y" false true) [mkword (s_ "2") QN 0] []] []] in
  forallb (dtree_ok []) l = false
  /\ match as_str l [] None 0 None with
     | Ok t => match parse [] t with Ok l' => length l' = 2 | _ => False end
     | _ => False end.
Proof. vm_compute. split; reflexivity. Qed.

(* ====================================================================================== *)
(* 8. D4: attributes level 3, the simplest attribute class                                  *)
(* ====================================================================================== *)
(* At level 3 every attribute of the class's list is printed on a line of its own, also the unset
   ones (".help = None"); only a non-truthy .deprecated and an unset .alias are left out.
   Domain: names without dots (the first domain), every attribute unset, or a bool attribute
   (.optional .multiple [.disable_add .disable_delete]) holding a bool, or an int attribute
   (.input_size .expert_level) holding an integer.  Strings (.help .caption .style ...), types
   and call proxies are outside. *)

Definition vt (v:aval) : str := str_of_aval_nonstr v.
Definition vw (v:aval) : word := mkword (vt v) QN 0.
(* the decimal rendering of the integer is one safe unquoted word and int() reads it back;
   a decidable condition on z (it holds for every z: the codec fact is not re-proved here) *)
Definition int_rt (z:Z) : bool :=
  word_ok (vw (AInt z))
  && match int_from_words [] [vw (AInt z)] with Ok (AInt z') => (z =? z')%Z | _ => false end.

Definition def_attr_ok (n:str) (v:aval) : bool :=
  match v with
  | ANone => true
  | ABool _ => mems n [s_ "optional"; s_ "multiple"]
  | AInt z => mems n [s_ "input_size"; s_ "expert_level"] && int_rt z
  | _ => false
  end.
Definition scope_attr_ok (n:str) (v:aval) : bool :=
  match v with
  | ANone => true
  | ABool _ => mems n [s_ "optional"; s_ "multiple"; s_ "disable_add"; s_ "disable_delete"]
  | AInt z => eqs n (s_ "expert_level") && int_rt z
  | _ => false
  end.

Fixpoint atree_ok (o:obj) : bool :=
  match o with
  | Def h ws a => hdr_ok h && negb (is_nil ws) && words_ok ws
                  && forallb (fun n => def_attr_ok n (get_attr n a)) def_attr_names
  | Scp h ks a => hdr_ok h && forallb (fun n => scope_attr_ok n (get_attr n a)) scope_attr_names
                  && forallb atree_ok ks
  end.

(* the attribute lines *)
Definition is_none (v:aval) : bool := match v with ANone => true | _ => false end.
Definition skipb (n:str) (v:aval) : bool :=
  (eqs n (s_ "deprecated") && negb (py_truthy v)) || (eqs n (s_ "alias") && is_none v).
Definition attr_line (p n:str) (v:aval) : str := line (p ++ s_ "  ." ++ n ++ s_ " = " ++ vt v).
Definition attr_lines (p:str) (ns:list str) (a:attrs) : str :=
  flat_map (fun n => if skipb n (get_attr n a) then [] else attr_line p n (get_attr n a)) ns.
Definition simple_val (v:aval) : bool := match v with ANone | ABool _ | AInt _ => true | _ => false end.

Lemma show_attr3 : forall p n v w, simple_val v = true ->
  show_attr p n v 3 w = Ok (if skipb n v then [] else attr_line p n v).
Proof.
  intros p n v w Hs. unfold show_attr, skipb.
  destruct (eqs n (s_ "deprecated") && negb (py_truthy v)); [reflexivity|]. cbn [orb].
  change (2 <? 3)%Z with true. rewrite orb_true_r.
  replace (match v with ANone => true | _ => false end) with (is_none v) by reflexivity.
  destruct (eqs n (s_ "alias") && is_none v); [reflexivity|].
  unfold attr_line, vt.
  destruct v; try discriminate Hs; rewrite <- !app_assoc; reflexivity.
Qed.

Lemma show_attrs3 : forall p a w ns, forallb (fun n => simple_val (get_attr n a)) ns = true ->
  show_attrs p ns a 3 w = Ok (attr_lines p ns a).
Proof.
  intros p a w; induction ns as [|n r IH]; intros H; [reflexivity|].
  cbn [forallb] in H. apply andb_prop in H as [H1 H2].
  cbn [show_attrs]. rewrite (show_attr3 p n _ w H1), (IH H2). reflexivity.
Qed.

Lemma def_attr_ok_simple : forall n v, def_attr_ok n v = true -> simple_val v = true.
Proof. intros n [] H; try reflexivity; discriminate H. Qed.
Lemma scope_attr_ok_simple : forall n v, scope_attr_ok n v = true -> simple_val v = true.
Proof. intros n [] H; try reflexivity; discriminate H. Qed.

(* ---------- the printed value is converted back to the value *)
Lemma nl_res_ok : forall {A} (r:res A) x, nl_res r = Ok x -> r = Ok x.
Proof. intros A [a| |] x H; cbn [nl_res] in H; try discriminate H; exact H. Qed.

Lemma int_from_words_orc : forall o ws v, int_from_words [] ws = Ok v -> int_from_words o ws = Ok v.
Proof.
  intros o ws v. unfold int_from_words.
  destruct (str_from_words ws); try (intros H; exact H).
  destruct (_ || _); [intros H; exact H|]. destruct (eqs _ _); [intros H; exact H|].
  destruct (eqs _ _); [intros H; exact H|].
  destruct (plain_int s); [intros H; exact H|]. intros H. discriminate H.
Qed.

Lemma int_rt_facts : forall z, int_rt z = true ->
  word_ok (vw (AInt z)) = true /\ forall o l, int_from_words o [mkword (vt (AInt z)) QN l] = Ok (AInt z).
Proof.
  intros z H. unfold int_rt in H. apply andb_prop in H as [H1 H2]. split; [exact H1|].
  intros o l.
  destruct (int_from_words [] [vw (AInt z)]) as [[| | |z'| |]| |] eqn:E; try discriminate H2.
  apply Z.eqb_eq in H2. subst z'.
  apply nl_res_ok. rewrite <- (int_from_words_ew o [mkword (vt (AInt z)) QN l]).
  change (map ew [mkword (vt (AInt z)) QN l]) with [vw (AInt z)].
  rewrite (int_from_words_orc o _ _ E). reflexivity.
Qed.

Lemma mems2 : forall n a b, mems n [a; b] = true -> n = a \/ n = b.
Proof.
  intros n a b H. unfold mems in H. cbn [existsb] in H. rewrite orb_false_r in H.
  apply orb_prop in H as [H|H]; apply eqs_true in H; auto.
Qed.

Lemma assign_def_attr_back : forall o n v l, def_attr_ok n v = true -> skipb n v = false ->
  word_ok (vw v) = true /\ assign_def_attr o n [mkword (vt v) QN l] = Ok v.
Proof.
  intros o n v l Hok Hskip. destruct v as [| |b|z| |]; try discriminate Hok; cbn [def_attr_ok] in Hok.
  - split; [reflexivity|]. unfold assign_def_attr.
    destruct (eqs n (s_ "optional") || eqs n (s_ "multiple")); [reflexivity|].
    destruct (eqs n (s_ "type")); [reflexivity|].
    destruct (eqs n (s_ "input_size") || eqs n (s_ "expert_level")); reflexivity.
  - split; [destruct b; reflexivity|]. unfold assign_def_attr.
    unfold mems in Hok. cbn [existsb] in Hok. rewrite orb_false_r in Hok. rewrite Hok.
    destruct b; reflexivity.
  - apply andb_prop in Hok as [Hn Hz]. destruct (int_rt_facts z Hz) as (Hw & Hi).
    split; [exact Hw|].
    destruct (mems2 _ _ _ Hn) as [-> | ->].
    + change (assign_def_attr o (s_ "input_size") [mkword (vt (AInt z)) QN l])
        with (int_from_words o [mkword (vt (AInt z)) QN l]). apply Hi.
    + change (assign_def_attr o (s_ "expert_level") [mkword (vt (AInt z)) QN l])
        with (int_from_words o [mkword (vt (AInt z)) QN l]). apply Hi.
Qed.

Lemma assign_scope_attr_back : forall o n v l, scope_attr_ok n v = true -> skipb n v = false ->
  word_ok (vw v) = true /\ assign_scope_attr o n [mkword (vt v) QN l] = Ok v.
Proof.
  intros o n v l Hok Hskip. destruct v as [| |b|z| |]; try discriminate Hok; cbn [scope_attr_ok] in Hok.
  - split; [reflexivity|]. unfold assign_scope_attr.
    destruct (mems n _); [reflexivity|].
    destruct (eqs n (s_ "expert_level")); [reflexivity|].
    destruct (eqs n (s_ "call")); [reflexivity|].
    destruct (eqs n (s_ "sequential_format")); reflexivity.
  - split; [destruct b; reflexivity|]. unfold assign_scope_attr. rewrite Hok. destruct b; reflexivity.
  - apply andb_prop in Hok as [Hn Hz]. destruct (int_rt_facts z Hz) as (Hw & Hi).
    split; [exact Hw|]. apply eqs_true in Hn. subst n.
    change (assign_scope_attr o (s_ "expert_level") [mkword (vt (AInt z)) QN l])
      with (int_from_words o [mkword (vt (AInt z)) QN l]). apply Hi.
Qed.

(* ---------- the parser on one attribute line *)
Lemma ident_all_plainv : forall n, is_ident n = true ->
  forallb (fun c => negb (isspace c) && negb (mem c vsingle)) n = true.
Proof.
  intros n Hid. destruct (ident_shape n Hid) as (c & n' & -> & Hc & Hn').
  cbn [forallb]. rewrite (is_cont_plainv c (is_start_cont c Hc)). cbn [andb].
  apply (WordsRoundtrip.forallb_impl is_cont); [exact is_cont_plainv|exact Hn'].
Qed.
Lemma dot_unq_ok : forall an, is_ident an = true -> unq_ok ("." :: an) = true /\ eqs ("." :: an) ["#"] = false.
Proof.
  intros an Hid. split; [|reflexivity]. unfold unq_ok. apply andb_true_intro. split; [reflexivity|].
  cbn [forallb]. rewrite (ident_all_plainv an Hid). reflexivity.
Qed.
Lemma dot_unq_ok0 : forall an, is_ident an = true -> unq_ok0 ("." :: an) = true.
Proof.
  intros an Hid. pose proof (ident_unq_ok0 an Hid) as Hu. unfold unq_ok0 in *.
  apply andb_prop in Hu as [_ Hall]. apply andb_true_intro. split; [reflexivity|].
  cbn [forallb]. rewrite Hall. reflexivity.
Qed.
Lemma nw_s0_dot : forall p an tl line, blank p -> is_ident an = true -> tailok s0 tl = true ->
  nw s0 false (p ++ "." :: an ++ tl) line = TWord (mkword ("." :: an) QN line) tl line.
Proof.
  intros p an tl line [Hp Hn] Hid Ht.
  rewrite (nw_skip_blanks s0 p _ line Hp), Hn, Nat.add_0_r.
  change ("." :: an ++ tl) with (("." :: an) ++ tl).
  apply nw_unquoted_s0; [apply dot_unq_ok0; exact Hid|exact Ht].
Qed.

(* one unquoted word up to the end of the line *)
Lemma caw_one_word : forall vtx rest line lead,
  word_ok (mkword vtx QN 0) = true -> wline lead = line -> weq lead [bs] = false ->
  value_ends rest (S line) ->
  exists s', caw (S (length (" " :: vtx ++ nl :: rest))) (" " :: vtx ++ nl :: rest) line false lead [] lead
             = Ok ([mkword vtx QN line], s', line)
    /\ (s' = nl :: rest \/ s' = [] /\ forallb isspace rest = true)
    /\ nw s0 false s' line = nw s0 false rest (S line).
Proof.
  intros vtx rest line lead Hw Hl Hlead Hend.
  set (w := mkword vtx QN 0).
  assert (Hcnt : count_nl vtx = 0).
  { unfold word_ok in Hw. cbn [isq wq orb wv] in Hw. apply andb_prop in Hw as [Hw _].
    apply andb_prop in Hw as [Hw _]. apply unq_ok_count_nl; exact Hw. }
  assert (Hwok : words_ok [w] = true).
  { unfold words_ok. cbn [forallb lines_ok]. fold w in Hw. rewrite Hw. reflexivity. }
  assert (Hel : endline line [w] = line) by (cbn [endline w wv]; rewrite Hcnt; lia).
  assert (Hvt : WordsRoundtrip.vtext [w] ++ nl :: rest = " " :: vtx ++ nl :: rest).
  { unfold WordsRoundtrip.vtext. cbn [flat_map]. rewrite app_nil_r. reflexivity. }
  destruct (caw_one_line [w] rest line lead (S (length (" " :: vtx ++ nl :: rest))))
    as (s' & Hc & Hs & Hn); try assumption.
  - discriminate.
  - rewrite Hel. exact Hend.
  - rewrite Hvt. lia.
  - rewrite Hvt, Hel in *. exists s'. split; [exact Hc|]. split; assumption.
Qed.

Lemma cobj_attr_step : forall o f p an r5 line nid stop start prev ad acc,
  blank p -> is_ident an = true -> mems an def_attr_names = true ->
  cobj o (S f) (p ++ "." :: an ++ " " :: "=" :: r5) line nid stop start prev (Some ad) acc
  = do (ws, r6, l6) <- caw (S (length r5)) r5 line false (mkword ("." :: an) QN line) [] (mkword ("." :: an) QN line) ;
    do ad' <- (do av <- assign_def_attr o an ws ; Ok (attach an av ad)) ;
    cobj o f r6 l6 nid stop start line (Some ad') acc.
Proof.
  intros o f p an r5 line nid stop start prev ad acc Hp Hid Hmem.
  pose proof (nw_s0_dot p an (" " :: "=" :: r5) line Hp Hid eq_refl) as Hnw.
  cbn [cobj]. rewrite Hnw. cbn [isq wq wv wline].
  change (eqs ("." :: an) intro) with false. change (eqs ("." :: an) ["}"]) with false.
  change (eqs ("." :: an) ["{"]) with false. change (strip_bang ("." :: an)) with ("." :: an, false).
  cbn [andb]. rewrite andb_false_r.
  unfold pop_unq, pop. rewrite nw_sp, nw_s0_eq. cbn [bind isq wq wv negb].
  change (eqs ["="] ["{"] || prefixb ["."] ["="] || prefixb ["!"; "."] ["="]) with false.
  cbn [andb]. change (prefixb ["."] ("." :: an)) with true. cbn [negb drop]. rewrite Hmem. cbn [negb].
  unfold expect_eq. cbn [wv]. change (eqs ["="] ["="]) with true. cbn [bind].
  reflexivity.
Qed.

Lemma attr_line_split : forall p n v rest,
  attr_line p n v ++ rest = (p ++ s_ "  ") ++ "." :: n ++ " " :: "=" :: (" " :: vt v ++ nl :: rest).
Proof.
  intros. unfold attr_line, line. rewrite <- !app_assoc. cbn [s_ String.list_ascii_of_string app].
  rewrite <- ?app_assoc. reflexivity.
Qed.

Lemma blank_p2 : forall p, blank p -> blank (p ++ s_ "  ").
Proof. intros p Hp. apply blank_app; [exact Hp|split; reflexivity]. Qed.

Lemma cobj_def_attr_line : forall o p n v rest line,
  blank p -> is_ident n = true -> mems n def_attr_names = true ->
  word_ok (vw v) = true -> (forall l, assign_def_attr o n [mkword (vt v) QN l] = Ok v) ->
  value_ends rest (S line) ->
  exists s', (s' = nl :: rest \/ s' = [] /\ forallb isspace rest = true)
    /\ nw s0 false s' line = nw s0 false rest (S line)
    /\ forall f nid stop start prev ad acc,
       cobj o (S f) (attr_line p n v ++ rest) line nid stop start prev (Some ad) acc
       = cobj o f s' line nid stop start line (Some (attach n v ad)) acc.
Proof.
  intros o p n v rest line Hp Hid Hmem Hw Has Hend.
  destruct (caw_one_word (vt v) rest line (mkword ("." :: n) QN line) Hw eq_refl eq_refl Hend)
    as (s' & Hc & Hs & Hn).
  exists s'. split; [exact Hs|]. split; [exact Hn|].
  intros f nid stop start prev ad acc.
  rewrite attr_line_split, (cobj_attr_step o f (p ++ s_ "  ") n _ line nid stop start prev ad acc (blank_p2 p Hp) Hid Hmem).
  rewrite Hc. cbn [bind]. rewrite Has. cbn [bind]. reflexivity.
Qed.

(* ---------- all attribute lines of a definition *)
Definition attach_all (a:attrs) (ns:list str) (d:obj) : obj :=
  fold_left (fun d n => if skipb n (get_attr n a) then d else attach n (get_attr n a) d) ns d.
Definition renorm_from (a:attrs) (ns:list str) (acc:attrs) : attrs :=
  fold_left (fun acc n => if skipb n (get_attr n a) then acc else set_attr n (get_attr n a) acc) ns acc.
(* the attribute list the parser rebuilds: the class's names in order, unset values dropped *)
Definition renorm (ns:list str) (a:attrs) : attrs := renorm_from a ns [].

Lemma attach_all_def : forall a ns h ws x, attach_all a ns (Def h ws x) = Def h ws (renorm_from a ns x).
Proof.
  intros a; induction ns as [|n r IH]; intros h ws x; [reflexivity|].
  unfold attach_all, renorm_from in *. cbn [fold_left].
  destruct (skipb n (get_attr n a)); [apply IH|]. cbn [attach]. apply IH.
Qed.

Definition def_good (o:oracle) (a:attrs) (n:str) : Prop :=
  is_ident n = true /\ mems n def_attr_names = true /\
  (skipb n (get_attr n a) = false ->
   word_ok (vw (get_attr n a)) = true /\ forall l, assign_def_attr o n [mkword (vt (get_attr n a)) QN l] = Ok (get_attr n a)).
Definition scope_good (o:oracle) (a:attrs) (n:str) : Prop :=
  is_ident n = true /\ mems n scope_attr_names = true /\
  (skipb n (get_attr n a) = false ->
   word_ok (vw (get_attr n a)) = true /\ forall l, assign_scope_attr o n [mkword (vt (get_attr n a)) QN l] = Ok (get_attr n a)).

Lemma follow_attr_lines : forall p a rest ns, blank p -> Forall (fun n => is_ident n = true) ns ->
  follow_ok rest -> follow_ok (attr_lines p ns a ++ rest).
Proof.
  intros p a rest ns Hp H Hfol. induction H as [|n r Hn Hr IH]; [exact Hfol|].
  unfold attr_lines in *. cbn [flat_map].
  destruct (skipb n (get_attr n a)); [exact IH|].
  rewrite <- app_assoc, attr_line_split. intros line.
  destruct (dot_unq_ok n Hn) as (Hu & Hh).
  change ("." :: n ++ " " :: "=" :: ?X) with (("." :: n) ++ " " :: "=" :: X).
  apply value_ends_unquoted; try assumption; [apply (blank_p2 p Hp)|reflexivity].
Qed.

Lemma attr_line_len : forall p n v, 1 <= length (attr_line p n v).
Proof. intros. unfold attr_line, line. rewrite app_length. cbn [length]. lia. Qed.

Lemma cobj_def_attr_lines : forall o a ns, Forall (def_good o a) ns ->
  forall p rest f line nid stop start prev ad acc,
  blank p -> follow_ok rest -> length (attr_lines p ns a ++ rest) < f ->
  exists line' prev', forall g, length rest < g ->
    eqres stop (cobj o f (attr_lines p ns a ++ rest) line nid stop start prev (Some ad) acc)
               (cobj o g rest line' nid stop start prev' (Some (attach_all a ns ad)) acc).
Proof.
  intros o a ns H. induction H as [|n r Hn Hr IH]; intros p rest f line nid stop start prev ad acc Hp Hfol Hf.
  - exists line, prev. intros g Hg. cbn [attr_lines flat_map app attach_all fold_left] in *.
    apply cobj_fuel_eq; assumption.
  - destruct Hn as (Hid & Hmem & Hval).
    unfold attr_lines in Hf |- *. cbn [flat_map] in Hf |- *. unfold attach_all. cbn [fold_left].
    destruct (skipb n (get_attr n a)) eqn:Esk.
    + exact (IH p rest f line nid stop start prev ad acc Hp Hfol Hf).
    + destruct (Hval eq_refl) as (Hw & Has).
      rewrite <- app_assoc in Hf |- *.
      fold (attr_lines p r a) in Hf |- *.
      set (rest1 := attr_lines p r a ++ rest) in *.
      assert (Hids : Forall (fun n => is_ident n = true) r).
      { apply Forall_forall. intros x Hx. rewrite Forall_forall in Hr. apply (Hr x Hx). }
      pose proof (follow_attr_lines p a rest r Hp Hids Hfol) as Hfol1. fold rest1 in Hfol1.
      destruct (cobj_def_attr_line o p n (get_attr n a) rest1 line Hp Hid Hmem Hw Has (Hfol1 _))
        as (s' & Hs & Hnw & Hc).
      destruct (IH p rest (S (length rest1)) (S line) nid stop start line (attach n (get_attr n a) ad) acc
                  Hp Hfol (Nat.lt_succ_diag_r _)) as (line' & prev' & Hc2).
      exists line', prev'. intros g Hg.
      set (X := attr_line p n (get_attr n a) ++ rest1) in *.
      assert (Hlen : length rest1 < length X).
      { unfold X. rewrite app_length. pose proof (attr_line_len p n (get_attr n a)). lia. }
      rewrite (cobj_fuel_enough o f (S (S (length X))) X) by lia.
      unfold X at 2. rewrite Hc.
      eapply eqres_trans; [|apply (Hc2 g Hg)].
      apply cobj_pos_eq; [exact Hnw| |unfold rest1; lia].
      destruct Hs as [->|[-> _]]; cbn [length]; lia.
Qed.

(* ---------- the scope attribute loop *)
Lemma sattrs_step : forall o f an r line acc,
  mems an scope_attr_names = true ->
  sattrs o (S f) (mkword ("." :: an) QN line) (" " :: "=" :: r) line acc
  = do (ws, r2, l2) <- caw (S (length r)) r line false (mkword ("." :: an) QN line) [] (mkword ("." :: an) QN line) ;
    do acc' <- (do av <- assign_scope_attr o an ws ; Ok (set_attr an av acc)) ;
    do (w2, r3, l3) <- pop_unq s0 r2 l2 ;
    sattrs o f w2 r3 l3 acc'.
Proof.
  intros o f an r line acc Hmem. cbn [sattrs wv wline].
  change (eqs ("." :: an) ["{"]) with false. change (strip_bang ("." :: an)) with ("." :: an, false).
  cbv iota. change (Ascii.eqb "." ".") with true. rewrite Hmem. cbn [andb].
  unfold pop_unq at 1, pop at 1. rewrite nw_sp, nw_s0_eq. cbn [bind isq wq negb].
  unfold expect_eq. cbn [wv]. change (eqs ["="] ["="]) with true. cbn [bind].
  reflexivity.
Qed.

Lemma pop_unq_word : forall s line w r l, nw s0 false s line = TWord w r l -> isq w = false ->
  pop_unq s0 s line = Ok (w, r, l).
Proof. intros s line w r l H Hq. unfold pop_unq, pop. rewrite H, Hq. reflexivity. Qed.

Lemma sattrs_lines : forall o a ns, Forall (scope_good o a) ns ->
  forall p n1 v1 tl F line acc,
  blank p -> is_ident n1 = true -> mems n1 scope_attr_names = true ->
  word_ok (vw v1) = true -> (forall l, assign_scope_attr o n1 [mkword (vt v1) QN l] = Ok v1) ->
  length (" " :: "=" :: " " :: vt v1 ++ nl :: attr_lines p ns a ++ p ++ "{" :: tl) < F ->
  exists line',
    sattrs o F (mkword ("." :: n1) QN line)
           (" " :: "=" :: " " :: vt v1 ++ nl :: attr_lines p ns a ++ p ++ "{" :: tl) line acc
    = Ok (renorm_from a ns (set_attr n1 v1 acc), mkword ["{"] QN line', tl, line').
Proof.
  intros o a ns H. induction H as [|n r Hn Hr IH]; intros p n1 v1 tl F line acc Hp Hid1 Hmem1 Hw1 Has1 HF.
  - cbn [attr_lines flat_map app renorm_from fold_left] in *.
    set (next := p ++ "{" :: tl) in *.
    assert (Hend : value_ends next (S line)) by (apply value_ends_brace; [apply Hp|left; reflexivity]).
    destruct (caw_one_word (vt v1) next line (mkword ("." :: n1) QN line) Hw1 eq_refl eq_refl Hend)
      as (s' & Hc & Hs & Hnw).
    destruct F as [|[|f]]; [lia|cbn [length] in HF; lia|].
    rewrite (sattrs_step o (S f) n1 _ line acc Hmem1). rewrite Hc. cbn [bind]. rewrite Has1. cbn [bind].
    assert (Hpop : pop_unq s0 s' line = Ok (mkword ["{"] QN (S line), tl, S line)).
    { apply pop_unq_word; [|reflexivity]. rewrite Hnw. unfold next.
      destruct Hp as [Hp1 Hp2]. rewrite (nw_skip_blanks s0 p _ _ Hp1), Hp2, Nat.add_0_r. reflexivity. }
    rewrite Hpop. cbn [bind]. exists (S line). apply sattrs_brace. reflexivity.
  - destruct Hn as (Hid & Hmem & Hval).
    unfold attr_lines in HF |- *. cbn [flat_map] in HF |- *. unfold renorm_from. cbn [fold_left].
    destruct (skipb n (get_attr n a)) eqn:Esk.
    + exact (IH p n1 v1 tl F line acc Hp Hid1 Hmem1 Hw1 Has1 HF).
    + destruct (Hval eq_refl) as (Hw & Has).
      fold (attr_lines p r a) in HF |- *.
      rewrite <- app_assoc in HF |- *.
      set (next := attr_line p n (get_attr n a) ++ attr_lines p r a ++ p ++ "{" :: tl) in *.
      assert (Hnext : next = (p ++ s_ "  ") ++ "." :: n ++ " " :: "=" :: " " :: vt (get_attr n a) ++ nl :: attr_lines p r a ++ p ++ "{" :: tl).
      { unfold next. apply attr_line_split. }
      assert (Hend : value_ends next (S line)).
      { rewrite Hnext. destruct (dot_unq_ok n Hid) as (Hu & Hh).
        change ("." :: n ++ " " :: "=" :: ?X) with (("." :: n) ++ " " :: "=" :: X).
        apply value_ends_unquoted; try assumption; [apply (blank_p2 p Hp)|reflexivity]. }
      destruct (caw_one_word (vt v1) next line (mkword ("." :: n1) QN line) Hw1 eq_refl eq_refl Hend)
        as (s' & Hc & Hs & Hnw).
      destruct F as [|f]; [lia|].
      rewrite (sattrs_step o f n1 _ line acc Hmem1). rewrite Hc. cbn [bind]. rewrite Has1. cbn [bind].
      set (tl2 := " " :: "=" :: " " :: vt (get_attr n a) ++ nl :: attr_lines p r a ++ p ++ "{" :: tl) in *.
      assert (Hpop : pop_unq s0 s' line = Ok (mkword ("." :: n) QN (S line), tl2, S line)).
      { apply pop_unq_word; [|reflexivity]. rewrite Hnw, Hnext.
        apply (nw_s0_dot (p ++ s_ "  ") n tl2 (S line) (blank_p2 p Hp) Hid). reflexivity. }
      rewrite Hpop. cbn [bind].
      apply (IH p n (get_attr n a) tl f (S line) (set_attr n1 v1 acc) Hp Hid Hmem Hw Has).
      fold tl2.
      assert (H1 : length tl2 < length next).
      { rewrite Hnext. rewrite app_length. cbn [length]. rewrite !app_length. lia. }
      assert (H2 : length next < length (" " :: "=" :: " " :: vt v1 ++ nl :: next)).
      { cbn [length]. rewrite app_length. cbn [length]. lia. }
      lia.
Qed.

(* a scope header followed by attribute lines: general step *)
Theorem cobj_scope_step_attrs : forall o f p dis n hdrtail line nid stop start prev active acc
                                       w1 r2 l2 sa bw r3 l3 kids r4 l4 nid4,
  blank p -> name_ok n = true -> tailok s0 hdrtail = true ->
  nw s0 false hdrtail line = TWord w1 r2 l2 -> isq w1 = false -> prefixb ["."] (wv w1) = true ->
  sattrs o (S (length r2)) w1 r2 l2 [] = Ok (sa, bw, r3, l3) ->
  cobj o f r3 l3 (S nid) true (Some bw) 0 None [] = Ok (kids, r4, l4, nid4) ->
  cobj o (S f) (p ++ bang dis ++ n ++ hdrtail) line nid stop start prev active acc
  = cobj o f r4 l4 nid4 stop start line None
         (Scp (mkhdr n dis 0 false nid line) kids sa :: flushed active acc).
Proof.
  intros o f p dis n hdrtail line nid stop start prev active acc w1 r2 l2 sa bw r3 l3 kids r4 l4 nid4
         Hp Hok Htl Hnw1 Hq1 Hdot1 Hsat Hin.
  destruct (name_ok_facts n Hok) as (Hid & _ & Hsd & _ & Hres & Hpre).
  pose proof (nw_s0_lead p dis n hdrtail line Hp Hid Htl) as Hnw.
  destruct (lead_tests dis n Hid) as (Hintro & Hrb & Hlb & Hbang & Hdot).
  cbn [cobj]. rewrite Hnw.
  cbn [isq wq wv wline]. rewrite Hintro, Hrb, Hlb, Hbang. cbn [andb].
  rewrite andb_false_r.
  unfold pop. rewrite Hnw1. cbn [bind]. rewrite Hq1, Hdot1. cbn [negb andb]. rewrite orb_true_r. cbn [orb].
  rewrite Hid, Hres. cbn [negb].
  rewrite Hsat. cbn [bind].
  rewrite Hin. cbn [bind]. rewrite Hpre.
  rewrite adopt_nodot by (cbn [ohdr oname]; exact Hsd).
  reflexivity.
Qed.

(* ---------- the level-3 text and the comparison *)
Fixpoint atxt (w:Z) (p:str) (o:obj) : str :=
  match o with
  | Def h ws a => show_words ws (def_cur p (odis h) (oname h)) (def_indent p (odis h) (oname h)) w
                  ++ attr_lines p def_attr_names a
  | Scp h ks a => line (p ++ bang (odis h) ++ oname h) ++ attr_lines p scope_attr_names a ++ line (p ++ ["{"])
                  ++ flat_map (atxt w (p ++ s_ "  ")) ks ++ line (p ++ ["}"])
  end.
Definition atxts (w:Z) (p:str) (l:list obj) : str := flat_map (atxt w p) l.

(* kept: names, nesting, order, disabled marks, words (texts, quote styles) and the attributes,
   normalised to the class's order with unset entries dropped; erased: ids and lines *)
Fixpoint erase3 (o:obj) : obj :=
  match o with
  | Def h ws a => Def (erase_hdr h) (map erase_word ws) (renorm def_attr_names a)
  | Scp h ks a => Scp (erase_hdr h) (map erase3 ks) (renorm scope_attr_names a)
  end.

Lemma in_mems : forall n l, In n l -> mems n l = true.
Proof.
  intros n l H. unfold mems. apply existsb_exists. exists n. split; [exact H|apply eqs_refl].
Qed.

Lemma def_names_ident : forall n, In n def_attr_names -> is_ident n = true.
Proof. assert (H : forallb is_ident def_attr_names = true) by (vm_compute; reflexivity). apply forallb_forall; exact H. Qed.
Lemma scope_names_ident : forall n, In n scope_attr_names -> is_ident n = true.
Proof. assert (H : forallb is_ident scope_attr_names = true) by (vm_compute; reflexivity). apply forallb_forall; exact H. Qed.

Lemma def_goods : forall o a, forallb (fun n => def_attr_ok n (get_attr n a)) def_attr_names = true ->
  Forall (def_good o a) def_attr_names.
Proof.
  intros o a H. apply Forall_forall. intros n Hn. rewrite forallb_forall in H. specialize (H n Hn).
  split; [exact (def_names_ident n Hn)|]. split; [exact (in_mems n _ Hn)|].
  intros Hsk. destruct (assign_def_attr_back o n _ 0 H Hsk) as (Hw & _). split; [exact Hw|].
  intros l. exact (proj2 (assign_def_attr_back o n _ l H Hsk)).
Qed.
Lemma scope_goods : forall o a, forallb (fun n => scope_attr_ok n (get_attr n a)) scope_attr_names = true ->
  Forall (scope_good o a) scope_attr_names.
Proof.
  intros o a H. apply Forall_forall. intros n Hn. rewrite forallb_forall in H. specialize (H n Hn).
  split; [exact (scope_names_ident n Hn)|]. split; [exact (in_mems n _ Hn)|].
  intros Hsk. destruct (assign_scope_attr_back o n _ 0 H Hsk) as (Hw & _). split; [exact Hw|].
  intros l. exact (proj2 (assign_scope_attr_back o n _ l H Hsk)).
Qed.

Lemma atree_def_not_deprecated : forall a,
  forallb (fun n => def_attr_ok n (get_attr n a)) def_attr_names = true ->
  py_truthy (get_attr (s_ "deprecated") a) = false.
Proof.
  intros a H. rewrite forallb_forall in H.
  assert (Hin : In (s_ "deprecated") def_attr_names) by (unfold def_attr_names; cbn [In]; tauto).
  specialize (H _ Hin). destruct (get_attr (s_ "deprecated") a); try reflexivity; discriminate H.
Qed.

Definition scope_rest_names : list str := tl scope_attr_names.
Lemma scope_names_split : scope_attr_names = s_ "style" :: scope_rest_names.
Proof. reflexivity. Qed.
Lemma attr_lines_scope_split : forall p a,
  attr_lines p scope_attr_names a
  = attr_line p (s_ "style") (get_attr (s_ "style") a) ++ attr_lines p scope_rest_names a.
Proof. intros. rewrite scope_names_split. unfold attr_lines. cbn [flat_map]. reflexivity. Qed.
Lemma renorm_scope_split : forall a,
  renorm scope_attr_names a = renorm_from a scope_rest_names (set_attr (s_ "style") (get_attr (s_ "style") a) []).
Proof. intros. rewrite scope_names_split. unfold renorm, renorm_from. cbn [fold_left]. reflexivity. Qed.

Lemma atree_ok_hdr : forall o, atree_ok o = true -> hdr_ok (ohdr o) = true.
Proof.
  intros [h ws a|h ks a] H; cbn [atree_ok ohdr] in *.
  - apply andb_prop in H as [H _]. apply andb_prop in H as [H _]. apply andb_prop in H as [H _]. exact H.
  - apply andb_prop in H as [H _]. apply andb_prop in H as [H _]. exact H.
Qed.

Lemma simple_of_ok : forall (ok:str -> aval -> bool) a ns,
  (forall n v, ok n v = true -> simple_val v = true) ->
  forallb (fun n => ok n (get_attr n a)) ns = true -> forallb (fun n => simple_val (get_attr n a)) ns = true.
Proof.
  intros ok a ns Hs H. apply forallb_forall. intros n Hn. rewrite forallb_forall in H. exact (Hs _ _ (H n Hn)).
Qed.

Lemma show_list_atxts : forall w p l,
  Forall (fun o => forall p, show_obj o [] p None 3 w = Ok (atxt w p o)) l ->
  show_list l [] p None 3 w = Ok (atxts w p l).
Proof.
  intros w p l H. induction H as [|o r Ho Hr IH]; [reflexivity|].
  cbn [show_list]. rewrite Ho, IH. reflexivity.
Qed.

Theorem show_obj_atxt : forall w o, atree_ok o = true -> forall p, show_obj o [] p None 3 w = Ok (atxt w p o).
Proof.
  intros w o. induction o as [h ws a|h ks a IH] using obj_ind2; intros Hok p.
  - cbn [atree_ok] in Hok. apply andb_prop in Hok as [Hok Hat]. apply andb_prop in Hok as [Hok _].
    apply andb_prop in Hok as [Hh _].
    destruct (hdr_ok_facts h Hh) as (Hn & Ht & _).
    destruct (name_ok_facts _ Hn) as (_ & Hinc & _).
    cbn [show_obj atxt]. unfold show_def.
    rewrite Ht, (atree_def_not_deprecated a Hat), hidden_none, Hinc. cbn [Z.ltb Z.compare andb bind].
    unfold show_attributes. cbn [Z.leb Z.compare].
    rewrite (show_attrs3 p a w def_attr_names (simple_of_ok def_attr_ok a _ def_attr_ok_simple Hat)).
    cbn [bind app join_with]. reflexivity.
  - cbn [atree_ok] in Hok. apply andb_prop in Hok as [Hok Hks]. apply andb_prop in Hok as [Hh Hat].
    destruct (hdr_ok_facts h Hh) as (Hn & Ht & _).
    destruct (name_ok_facts _ Hn) as (Hid & _).
    destruct (ident_shape _ Hid) as (c & n' & En & _).
    assert (Hfm : first_merges ks = false).
    { destruct ks as [|k r]; [reflexivity|]. cbn [first_merges forallb] in *.
      apply andb_prop in Hks as [Hk _]. apply atree_ok_hdr, hdr_ok_facts in Hk. apply Hk. }
    assert (Hkids : Forall (fun o => forall p, show_obj o [] p None 3 w = Ok (atxt w p o)) ks).
    { clear Hfm. induction IH as [|k r Hk Hr IHr]; constructor.
      - cbn [forallb] in Hks. apply andb_prop in Hks as [Hk' _]. exact (Hk Hk').
      - cbn [forallb] in Hks. apply andb_prop in Hks as [_ Hr']. exact (IHr Hr'). }
    rewrite show_obj_scp. unfold show_scope_body.
    rewrite Ht, hidden_none, Hfm. cbn [Z.ltb Z.compare andb bind].
    rewrite En at 1.
    unfold show_attributes. cbn [Z.leb Z.compare].
    rewrite (show_attrs3 p a w scope_attr_names (simple_of_ok scope_attr_ok a _ scope_attr_ok_simple Hat)).
    cbn [bind app join_with].
    rewrite (show_list_atxts w (p ++ s_ "  ") ks Hkids). cbn [bind atxt].
    destruct (attr_lines p scope_attr_names a) as [|c0 al] eqn:Eal.
    + rewrite attr_lines_scope_split in Eal. unfold attr_line, line in Eal.
      apply (f_equal (@List.length ascii)) in Eal. rewrite !app_length in Eal. cbn [length] in Eal. lia.
    + unfold bang, atxts. rewrite <- !app_assoc. reflexivity.
Qed.

Theorem show_objs_atxts : forall w l p, forallb atree_ok l = true -> show_objs l p None 3 w = Ok (atxts w p l).
Proof.
  intros w l p H. rewrite show_objs_list. apply show_list_atxts.
  apply Forall_forall. intros o Ho. rewrite forallb_forall in H. exact (show_obj_atxt w o (H o Ho)).
Qed.

Lemma follow_atxt : forall w p o tl, blank p -> atree_ok o = true -> follow_ok (atxt w p o ++ tl).
Proof.
  intros w p o tl [Hp _] Hok line.
  pose proof (atree_ok_hdr o Hok) as Hh. apply hdr_ok_facts in Hh. destruct Hh as (Hn & _).
  apply name_ok_facts in Hn. destruct Hn as (Hid & _).
  destruct (lead_unq_ok (odis (ohdr o)) _ Hid) as (Hu & Hh).
  assert (HT : exists c X, (c = " " \/ c = nl) /\
                 atxt w p o ++ tl = p ++ (bang (odis (ohdr o)) ++ oname (ohdr o)) ++ c :: X).
  { destruct o as [h ws a|h ks a]; cbn [atxt ohdr].
    - exists " ". rewrite <- app_assoc, show_words_vtail. unfold def_cur at 1. eexists. split; [left; reflexivity|].
      rewrite <- !app_assoc. cbn [s_ String.list_ascii_of_string app]. reflexivity.
    - exists nl. unfold Show.line. eexists. split; [right; reflexivity|].
      rewrite <- !app_assoc. cbn [app]. reflexivity. }
  destruct HT as (c & X & Hc & ->).
  apply value_ends_unquoted; try assumption. destruct Hc as [-> | ->]; reflexivity.
Qed.

Ltac alen := repeat (first [rewrite app_length | progress cbn [length]]).

Definition P3 (o:obj) : Prop := atree_ok o = true ->
  forall orc w p rest f line nid stop start prev active acc,
  blank p -> follow_ok rest -> length (atxt w p o ++ rest) < f ->
  exists o' line' nid' prev' active' acc',
    flushed active' acc' = o' :: flushed active acc
    /\ erase_obj o' = erase3 o
    /\ forall g, length rest < g ->
       eqres stop (cobj orc f (atxt w p o ++ rest) line nid stop start prev active acc)
                  (cobj orc g rest line' nid' stop start prev' active' acc').

Definition PL3 (l:list obj) : Prop := forallb atree_ok l = true ->
  forall orc w p rest f line nid stop start prev active acc,
  blank p -> follow_ok rest -> length (atxts w p l ++ rest) < f ->
  exists l' line' nid' prev' active' acc',
    flushed active' acc' = rev l' ++ flushed active acc
    /\ map erase_obj l' = map erase3 l
    /\ forall g, length rest < g ->
       eqres stop (cobj orc f (atxts w p l ++ rest) line nid stop start prev active acc)
                  (cobj orc g rest line' nid' stop start prev' active' acc').

Lemma PL3_of_P3 : forall l, Forall P3 l -> PL3 l.
Proof.
  intros l H. induction H as [|o r Ho Hr IH]; intros Hok orc w p rest f line nid stop start prev active acc Hp Hfol Hf.
  - exists [], line, nid, prev, active, acc. split; [reflexivity|]. split; [reflexivity|].
    intros g Hg. cbn [atxts flat_map app] in *. apply cobj_fuel_eq; assumption.
  - cbn [forallb] in Hok. apply andb_prop in Hok as [Hoo Hor].
    assert (HT : atxts w p (o :: r) ++ rest = atxt w p o ++ (atxts w p r ++ rest)).
    { unfold atxts. cbn [flat_map]. rewrite <- app_assoc. reflexivity. }
    rewrite HT in *.
    set (rest1 := atxts w p r ++ rest) in *.
    assert (Hfol1 : follow_ok rest1).
    { unfold rest1. destruct r as [|o2 r2]; [exact Hfol|].
      cbn [forallb] in Hor. apply andb_prop in Hor as [Ho2 _].
      unfold atxts. cbn [flat_map]. rewrite <- app_assoc. apply follow_atxt; assumption. }
    destruct (Ho Hoo orc w p rest1 f line nid stop start prev active acc Hp Hfol1 Hf)
      as (o' & line1 & nid1 & prev1 & active1 & acc1 & Hfl1 & Her1 & Hc1).
    destruct (IH Hor orc w p rest (S (length rest1)) line1 nid1 stop start prev1 active1 acc1 Hp Hfol
                 (Nat.lt_succ_diag_r _))
      as (l' & line2 & nid2 & prev2 & active2 & acc2 & Hfl2 & Her2 & Hc2).
    exists (o' :: l'), line2, nid2, prev2, active2, acc2.
    split; [|split].
    + rewrite Hfl2, Hfl1. cbn [rev]. rewrite <- app_assoc. reflexivity.
    + cbn [map]. rewrite Her1, Her2. reflexivity.
    + intros g Hg. eapply eqres_trans; [apply (Hc1 (S (length rest1))); lia|apply Hc2; exact Hg].
Qed.

Theorem P3_all : forall o, P3 o.
Proof.
  intros o. induction o as [h ws a|h ks a IH] using obj_ind2;
    intros Hok orc w p rest f line nid stop start prev active acc Hp Hfol Hf.
  - (* definition: the value, then the attribute lines *)
    cbn [atree_ok] in Hok. apply andb_prop in Hok as [Hok Hat]. apply andb_prop in Hok as [Hok Hwok].
    apply andb_prop in Hok as [Hh Hne].
    destruct (hdr_ok_facts h Hh) as (Hn & _ & _).
    assert (Hne' : ws <> []) by (destruct ws; [discriminate Hne|discriminate]).
    pose proof (def_goods orc a Hat) as Hgood.
    set (n := oname h) in *. set (dis := odis h) in *.
    assert (Hind : blank (def_indent p dis n)) by (apply blank_app; [exact Hp|apply blank_spaces]).
    cbn [atxt] in *. fold n dis in Hf |- *.
    set (cur := def_cur p dis n) in *. set (indent := def_indent p dis n) in *.
    rewrite <- app_assoc in Hf |- *.
    set (rest1 := attr_lines p def_attr_names a ++ rest) in *.
    assert (Hids : Forall (fun n => is_ident n = true) def_attr_names).
    { apply Forall_forall. exact def_names_ident. }
    pose proof (follow_attr_lines p a rest def_attr_names Hp Hids Hfol) as Hfol1. fold rest1 in Hfol1.
    destruct (cobj_show_def_gen p dis n ws indent w rest1 line Hp Hn Hind Hne' Hwok (Hfol1 _))
      as (s' & Hs & Hnw & Hc).
    fold cur in Hs, Hnw, Hc.
    set (L := endw ws cur indent w line) in *.
    set (d0 := Def (mkhdr n dis 0 false nid line) (relw ws cur indent w line) []) in *.
    destruct (cobj_def_attr_lines orc a def_attr_names Hgood p rest (S (length rest1)) (S L) (S nid) stop start line
                d0 (flushed active acc) Hp Hfol (Nat.lt_succ_diag_r _)) as (line' & prev' & Hc2).
    set (d1 := attach_all a def_attr_names d0) in *.
    exists d1, line', (S nid), prev', (Some d1), (flushed active acc).
    split; [reflexivity|]. split.
    + unfold d1, d0. rewrite attach_all_def. cbn [erase_obj erase3]. unfold n, dis.
      rewrite (erase_hdr_parsed h nid line Hh). fold (renorm def_attr_names a).
      f_equal. exact (relw_noline ws cur indent w line).
    + intros g Hg.
      set (X := show_words ws cur indent w ++ rest1) in *.
      assert (Hlen : length rest1 < length X).
      { unfold X. rewrite show_words_vtail, app_length.
        pose proof (vtail_longer indent w rest1 ws cur). lia. }
      rewrite (cobj_fuel_enough orc f (S (S (length X))) X) by lia.
      unfold X at 2. rewrite Hc.
      eapply eqres_trans; [|apply (Hc2 g Hg)].
      apply cobj_pos_eq; [exact Hnw| |unfold rest1; lia].
      destruct Hs as [->|[-> _]]; cbn [length]; lia.
  - (* scope: name, attribute lines, "{", children, "}" *)
    cbn [atree_ok] in Hok. apply andb_prop in Hok as [Hok Hks]. apply andb_prop in Hok as [Hh Hat].
    destruct (hdr_ok_facts h Hh) as (Hn & _ & _).
    pose proof (scope_goods orc a Hat) as Hgood. rewrite scope_names_split in Hgood.
    inversion Hgood as [|? ? Hg1 Hgr]; subst. destruct Hg1 as (Hid1 & Hmem1 & Hval1).
    destruct (Hval1 eq_refl) as (Hw1 & Has1).
    set (v1 := get_attr (s_ "style") a) in *.
    set (n := oname h) in *. set (dis := odis h) in *.
    set (p2 := p ++ s_ "  ").
    assert (Hp2 : blank p2) by (apply blank_p2; exact Hp).
    set (rest' := p ++ "}" :: nl :: rest).
    set (K := atxts w p2 ks).
    set (body := nl :: K ++ rest').
    set (tl1 := " " :: "=" :: " " :: vt v1 ++ nl :: attr_lines p scope_rest_names a ++ p ++ "{" :: body).
    set (hdrtail := nl :: p2 ++ "." :: s_ "style" ++ tl1).
    assert (HT : atxt w p (Scp h ks a) ++ rest = p ++ bang dis ++ n ++ hdrtail).
    { cbn [atxt]. rewrite attr_lines_scope_split. fold v1.
      unfold hdrtail, tl1. rewrite <- (attr_line_split p (s_ "style") v1).
      unfold Show.line, body, rest', K, atxts, p2, n, dis. rewrite <- !app_assoc.
      cbn [app]. rewrite <- ?app_assoc. reflexivity. }
    rewrite HT in *.
    assert (Hnw1 : nw s0 false hdrtail line = TWord (mkword ("." :: s_ "style") QN (S line)) tl1 (S line)).
    { unfold hdrtail. rewrite nw_nl. apply nw_s0_dot; [exact Hp2|exact Hid1|reflexivity]. }
    destruct (sattrs_lines orc a scope_rest_names Hgr p (s_ "style") v1 body (S (length tl1)) (S line) []
                Hp Hid1 Hmem1 Hw1 Has1 (Nat.lt_succ_diag_r _)) as (lb & Hsat).
    fold tl1 in Hsat. rewrite <- renorm_scope_split in Hsat.
    set (bw := mkword ["{"] QN lb) in *.
    destruct (PL3_of_P3 ks IH Hks orc w p2 rest' (S (length (K ++ rest'))) (S lb) (S nid) true (Some bw) 0 None []
                Hp2 (follow_brace p _ Hp) (Nat.lt_succ_diag_r _))
      as (ks' & line' & nid' & prev' & active' & acc' & Hfl & Her & Hc).
    fold K in Hc. cbn [flushed] in Hfl. rewrite app_nil_r in Hfl.
    set (X := p ++ bang dis ++ n ++ hdrtail) in *.
    assert (Hin : cobj orc (S (length X)) body lb (S nid) true (Some bw) 0 None []
                  = Ok (ks', nl :: rest, line', nid')).
    { assert (Hb : length body < S (length X)).
      { unfold X, hdrtail, tl1. alen. lia. }
      pose proof (cobj_pos_eq orc (S (length X)) (S (length (K ++ rest'))) body lb (K ++ rest') (S lb)
                    (S nid) true (Some bw) 0 None [] (nw_nl s0 _ lb) Hb (Nat.lt_succ_diag_r _)) as H1.
      cbn [eqres] in H1. rewrite H1.
      specialize (Hc (S (length rest')) (Nat.lt_succ_diag_r _)). cbn [eqres] in Hc. rewrite Hc.
      unfold rest'. rewrite (cobj_close_brace orc _ p (nl :: rest) line' nid' (Some bw) prev' active' acc' Hp).
      rewrite Hfl, rev_involutive. reflexivity. }
    set (sc := Scp (mkhdr n dis 0 false nid line) ks' (renorm scope_attr_names a)).
    exists sc, (S line'), nid', line, None, (sc :: flushed active acc).
    split; [reflexivity|]. split.
    + unfold sc. cbn [erase_obj erase3]. unfold n, dis. rewrite (erase_hdr_parsed h nid line Hh), Her. reflexivity.
    + intros g Hg.
      rewrite (cobj_fuel_enough orc f (S (S (length X))) X) by lia.
      unfold X at 2.
      rewrite (cobj_scope_step_attrs orc (S (length X)) p dis n hdrtail line nid stop start prev active acc
                 (mkword ("." :: s_ "style") QN (S line)) tl1 (S line)
                 (renorm scope_attr_names a) bw body lb ks' (nl :: rest) line' nid'
                 Hp Hn eq_refl Hnw1 eq_refl eq_refl Hsat Hin).
      fold sc.
      apply cobj_pos_eq; [apply nw_nl| |exact Hg].
      unfold X, hdrtail, tl1, body, rest'. alen. lia.
Qed.

Theorem PL3_all : forall l, PL3 l.
Proof. intros l. apply PL3_of_P3. apply Forall_forall. intros o _. apply P3_all. Qed.

(* D4: print at attributes level 3 -> parse, on the simplest attribute class *)
Theorem parse_show_level3 : forall o l w p text,
  forallb atree_ok l = true -> blank p ->
  show_objs l p None 3 w = Ok text ->
  exists l', parse o text = Ok l' /\ map erase_obj l' = map erase3 l.
Proof.
  intros o l w p text0 Hok Hp H. rewrite (show_objs_atxts w l p Hok) in H.
  assert (Ht : text0 = atxts w p l) by congruence. subst text0.
  set (text := atxts w p l).
  destruct (PL3_all l Hok o w p [] (S (S (length text))) 1 1 false None 0 None [] Hp (follow_blank [] eq_refl))
    as (l' & line' & nid' & prev' & active' & acc' & Hfl & Her & Hc).
  { fold text. rewrite app_nil_r. lia. }
  exists l'. split; [|exact Her].
  specialize (Hc 1 (Nat.lt_succ_diag_r _)). cbn [eqres] in Hc. fold text in Hc. rewrite app_nil_r in Hc.
  rewrite parse_noline, Hc. cbn [cobj nw cobj_noline].
  change (match active' with Some d => d :: acc' | None => acc' end) with (flushed active' acc').
  rewrite Hfl. cbn [flushed]. rewrite app_nil_r, rev_involutive. reflexivity.
Qed.

Theorem parse_as_str_level3 : forall o l w text,
  forallb atree_ok l = true ->
  as_str l [] None 3 w = Ok text ->
  exists l', parse o text = Ok l' /\ map erase_obj l' = map erase3 l.
Proof. intros o l w text Hok H. unfold as_str in H. eapply parse_show_level3; [exact Hok|apply blank_nil|exact H]. Qed.

(* ---------- what the normalised attribute list holds: the same value for every name of the class *)
Lemma get_del_attr : forall n m a, get_attr n (del_attr m a) = if eqs m n then ANone else get_attr n a.
Proof.
  intros n m; induction a as [|[k x] r IH]; cbn [del_attr get_attr].
  - destruct (eqs m n); reflexivity.
  - destruct (eqs k m) eqn:Ekm.
    + apply eqs_true in Ekm. subst k. rewrite IH. destruct (eqs m n); reflexivity.
    + cbn [get_attr]. rewrite IH. destruct (eqs m n) eqn:Emn; [|reflexivity].
      apply eqs_true in Emn. subst n. rewrite Ekm. reflexivity.
Qed.
Lemma get_set_attr : forall n m v a, get_attr n (set_attr m v a) = if eqs m n then v else get_attr n a.
Proof.
  intros n m v a. unfold set_attr.
  destruct v; cbn [get_attr]; rewrite get_del_attr; destruct (eqs m n); reflexivity.
Qed.

Theorem get_attr_renorm : forall a n ns,
  (forall m, In m ns -> skipb m (get_attr m a) = true -> get_attr m a = ANone) ->
  get_attr n (renorm ns a) = if mems n ns then get_attr n a else ANone.
Proof.
  intros a n ns. induction ns as [|m ns IH] using rev_ind; intros Hsk; [reflexivity|].
  unfold renorm, renorm_from in *. rewrite fold_left_app. cbn [fold_left].
  unfold mems in *. rewrite existsb_app. cbn [existsb]. rewrite orb_false_r.
  assert (IH' := IH (fun m' Hm' => Hsk m' (in_or_app _ _ _ (or_introl Hm')))).
  destruct (skipb m (get_attr m a)) eqn:Es.
  - rewrite IH'. destruct (existsb (eqs n) ns); [reflexivity|]. cbn [orb].
    destruct (eqs n m) eqn:E; [|reflexivity]. apply eqs_true in E. subst m.
    symmetry. apply Hsk; [apply in_or_app; right; left; reflexivity|exact Es].
  - rewrite get_set_attr. destruct (eqs m n) eqn:E.
    + apply eqs_true in E. subst m. rewrite eqs_refl, orb_true_r. reflexivity.
    + rewrite IH', (eqs_sym n m), E, orb_false_r. reflexivity.
Qed.

Corollary renorm_def_attrs : forall a n,
  forallb (fun n => def_attr_ok n (get_attr n a)) def_attr_names = true ->
  get_attr n (renorm def_attr_names a) = if mems n def_attr_names then get_attr n a else ANone.
Proof.
  intros a n H. apply get_attr_renorm. intros m Hm Hs. rewrite forallb_forall in H. specialize (H m Hm).
  unfold skipb in Hs. apply orb_prop in Hs as [Hs|Hs]; apply andb_prop in Hs as [Hn Hv].
  - apply eqs_true in Hn. subst m. destruct (get_attr (s_ "deprecated") a); try reflexivity; discriminate H.
  - destruct (get_attr m a); try reflexivity; discriminate Hv.
Qed.
Corollary renorm_scope_attrs : forall a n,
  forallb (fun n => scope_attr_ok n (get_attr n a)) scope_attr_names = true ->
  get_attr n (renorm scope_attr_names a) = if mems n scope_attr_names then get_attr n a else ANone.
Proof.
  intros a n H. apply get_attr_renorm. intros m Hm Hs. rewrite forallb_forall in H. specialize (H m Hm).
  unfold skipb in Hs. apply orb_prop in Hs as [Hs|Hs]; apply andb_prop in Hs as [Hn Hv].
  - apply eqs_true in Hn. subst m. destruct (get_attr (s_ "deprecated") a); try reflexivity; discriminate H.
  - destruct (get_attr m a); try reflexivity; discriminate Hv.
Qed.

Print Assumptions cobj_scope_step_attrs.
Print Assumptions show_objs_atxts.
Print Assumptions parse_show_level3.
Print Assumptions parse_as_str_level3.
Print Assumptions get_attr_renorm.

(* ---------- example at level 3 *)
Definition ex_atree : list obj :=
  [ Def (ex_h "title" false 7 3) [mkword (s_ "a b") Q2 3; mkword (s_ "c") QN 3]
        [(s_ "optional", ABool true); (s_ "expert_level", AInt 2); (s_ "input_size", AInt (-17))];
    Scp (ex_h "refinement" true 8 4)
      [ Def (ex_h "cycles" true 9 5) [mkword (s_ "12") QN 5] [(s_ "multiple", ABool false)];
        Scp (ex_h "empty" false 12 9) [] [] ]
      [(s_ "multiple", ABool true); (s_ "disable_add", ABool false); (s_ "expert_level", AInt 1)] ].

Example ex_atree_in_domain : forallb atree_ok ex_atree = true.
Proof. vm_compute. reflexivity. Qed.

Definition ex_atext (w:Z) : str := match as_str ex_atree [] None 3 (Some w) with Ok t => t | _ => [] end.
Definition ex_aparsed (w:Z) : list obj := match parse [] (ex_atext w) with Ok l => l | _ => [] end.
Example ex_aroundtrip_30 :
  parse [] (ex_atext 30) = Ok (ex_aparsed 30)
  /\ map erase_obj (ex_aparsed 30) = map erase3 ex_atree
  /\ as_str (ex_aparsed 30) [] None 3 (Some 30%Z) = Ok (ex_atext 30)
  /\ count_nl (ex_atext 30) = 48.
Proof. vm_compute. repeat split. Qed.
