(* C04, disabled source objects are ignored entirely - the case of sources WITH "$".
   With "$" the lexical context of a source definition takes part (Vars.lexical_get), so the
   clause rests on variable lookup never returning a disabled object and never descending into a
   disabled scope (Vars.scan, live_cand).  One more ingredient is needed: a disabled object can
   still END the first loop of lexical_get ("primary_id >= stop_id" is tested before
   "is_disabled"), so removing it must not make later objects visible.  That is so when every
   object carries a primary id and the ids of sibling objects never decrease (list_ok) - true of
   every parsed document (parse_list_ok, from ParserShape) - and false for hand-built trees
   (strip_needs_order).
     lexical_get_strip   lookup in the stripped chain = the stripped result of the lookup
     resolve_def_strip   resolution against the stripped chain gives the same words
     fetch_strip         fetch m srcs = fetch m (map strip_objs srcs)  for list_ok sources
     fetch_strip_parsed  the same for parsed sources, no other hypothesis
     fetch_view_vars     the result depends on the sources only through map strip_objs srcs *)
From Coq Require Import List Ascii String Bool Arith ZArith Lia.
From Phil Require Import Base Tree Vars Choice Parser Fetch FetchBasics FetchDisabled FetchExamples ParserShape.
Import ListNotations.
Local Open Scope char_scope.

(* ------------------------------------------------------------------ strip_obj keeps everything a lookup reads *)
Lemma strip_oid : forall o, oid (strip_obj o) = oid o.
Proof. intros o. unfold oid. rewrite strip_obj_hdr. reflexivity. Qed.
Lemma strip_onm : forall o, onm (strip_obj o) = onm o.
Proof. intros o. unfold onm. rewrite strip_obj_hdr. reflexivity. Qed.
Lemma strip_okids : forall o, okids (strip_obj o) = strip_objs (okids o).
Proof. destruct o; [reflexivity|]. rewrite strip_obj_scp. reflexivity. Qed.
Lemma strip_owords : forall o, owords (strip_obj o) = owords o.
Proof. destruct o; reflexivity. Qed.
Lemma strip_cand : forall path o, cand path (strip_obj o) = cand path o.
Proof. destruct o; reflexivity. Qed.
Lemma strip_stops : forall stop o, stops stop (strip_obj o) = stops stop o.
Proof. intros. unfold stops. rewrite strip_oid. reflexivity. Qed.
Lemma strip_live_cand : forall path o, live_cand path (strip_obj o) = live_cand path o.
Proof. intros. unfold live_cand. rewrite strip_obj_hdr, strip_cand. reflexivity. Qed.
Lemma strip_def : forall o, is_def o = true -> strip_obj o = o.
Proof. destruct o; [reflexivity|discriminate]. Qed.

(* ------------------------------------------------------------------ ids present, sibling ids never decrease *)
Definition sib_le (k:obj) (r:list obj) : bool := forallb (fun k' => (oid k <=? oid k')%nat) r.
Fixpoint obj_ok (o:obj) : bool :=
  negb (oid o =? 0)%nat &&
  match o with
  | Def _ _ _ => true
  | Scp _ ks _ => (fix go (l:list obj) : bool :=
                     match l with [] => true | k :: r => obj_ok k && sib_le k r && go r end) ks
  end.
Fixpoint list_ok (l:list obj) : bool :=
  match l with [] => true | k :: r => obj_ok k && sib_le k r && list_ok r end.
Definition srcs_ordered (srcs:list (list obj)) : bool := forallb list_ok srcs.
Definition chain_ok (c:ctx) : Prop := Forall (fun l => list_ok l = true) c.

Lemma obj_ok_scp : forall h ks a, obj_ok (Scp h ks a) = negb (opid h =? 0)%nat && list_ok ks.
Proof.
  intros h ks a. cbn [obj_ok]. unfold oid at 1. cbn [ohdr]. f_equal.
Qed.
Lemma obj_ok_oid : forall o, obj_ok o = true -> oid o <> 0.
Proof.
  intros o H. destruct o as [h ws a|h ks a]; [cbn [obj_ok] in H|rewrite obj_ok_scp in H; unfold oid; cbn [ohdr]];
    apply andb_true_iff in H; destruct H as [H _]; apply negb_true_iff in H; apply Nat.eqb_neq in H; exact H.
Qed.
Lemma obj_ok_kids : forall o, obj_ok o = true -> list_ok (okids o) = true.
Proof.
  intros o H. destruct o as [h ws a|h ks a]; [reflexivity|]. rewrite obj_ok_scp in H.
  apply andb_true_iff in H. apply H.
Qed.
Lemma list_ok_in : forall l k, list_ok l = true -> In k l -> obj_ok k = true.
Proof.
  induction l as [|x r IH]; intros k H Hk; [destruct Hk|]. cbn [list_ok] in H.
  apply andb_true_iff in H. destruct H as [H H3]. apply andb_true_iff in H. destruct H as [H1 H2].
  destruct Hk as [E|Hk]; [subst; exact H1|apply IH; assumption].
Qed.
Lemma chain_ok_kids : forall o c, obj_ok o = true -> chain_ok c -> chain_ok (okids o :: c).
Proof. intros o c H Hc. constructor; [apply obj_ok_kids; exact H|exact Hc]. Qed.

(* ------------------------------------------------------------------ the first loop *)
Lemma scan_all_stop : forall stop path r, stop <> 0 ->
  Forall (fun k => stops stop k = true) r -> scan stop path (strip_objs r) = Ok [].
Proof.
  intros stop path r Hs. induction r as [|k r IH]; intros H; [reflexivity|].
  inversion H as [|k0 r0 Hk Hr]; subst. cbn [strip_objs].
  destruct (odis (ohdr k)); [apply IH; exact Hr|].
  cbn [scan]. rewrite strip_stops, Hk. apply Nat.eqb_neq in Hs. rewrite Hs, andb_false_r. reflexivity.
Qed.

Lemma scan_strip : forall stop path l, stop <> 0 -> list_ok l = true ->
  exists cs, scan stop path l = Ok cs /\ scan stop path (strip_objs l) = Ok (map strip_obj cs) /\ incl cs l.
Proof.
  intros stop path l Hs. pose proof Hs as Hs0. apply Nat.eqb_neq in Hs0.
  induction l as [|o r IH]; intros Hl.
  - exists []. repeat split; try reflexivity. intros x [].
  - cbn [list_ok] in Hl. apply andb_true_iff in Hl. destruct Hl as [Hl Hr].
    apply andb_true_iff in Hl. destruct Hl as [Ho Hsib].
    cbn [scan strip_objs]. rewrite Hs0, andb_false_r.
    destruct (stops stop o) eqn:Est.
    + exists []. split; [reflexivity|]. split; [|intros x []].
      destruct (odis (ohdr o)).
      * apply scan_all_stop; [exact Hs|]. apply Forall_forall. intros k Hk.
        unfold sib_le in Hsib. rewrite forallb_forall in Hsib. pose proof (Hsib k Hk) as Hle.
        apply Nat.leb_le in Hle. pose proof (obj_ok_oid k (list_ok_in r k Hr Hk)) as Hne.
        unfold stops in *. apply andb_true_iff in Est. destruct Est as [_ E2]. apply Nat.leb_le in E2.
        apply andb_true_iff. split; [apply negb_true_iff; apply Nat.eqb_neq; exact Hne|apply Nat.leb_le; lia].
      * cbn [scan]. rewrite strip_stops, Est, Hs0, andb_false_r. reflexivity.
    + destruct (IH Hr) as (cs & E1 & E2 & Hin). rewrite E1. cbn [bind].
      unfold live_cand at 1. destruct (odis (ohdr o)) eqn:Ed; cbn [negb andb].
      * exists cs. split; [reflexivity|]. split; [exact E2|]. intros x Hx. right. apply Hin. exact Hx.
      * cbn [scan]. rewrite strip_stops, Est, Hs0, andb_false_r, E2. cbn [bind].
        rewrite strip_live_cand. unfold live_cand. rewrite Ed. cbn [negb andb].
        destruct (cand path o).
        -- exists (o :: cs). split; [reflexivity|]. split; [reflexivity|].
           intros x [E|Hx]; [left; exact E|right; apply Hin; exact Hx].
        -- exists cs. split; [reflexivity|]. split; [reflexivity|]. intros x Hx. right. apply Hin. exact Hx.
Qed.

(* ------------------------------------------------------------------ lexical_get *)
Definition sfound (x:found) : found := (strip_obj (fst x), map strip_objs (snd x)).
Definition smap (r:res (option found)) : res (option found) := rmap (option_map sfound) r.

Definition Rrel (rec rec':ctx -> str -> res (option found)) : Prop :=
  forall c p, chain_ok c -> rec' (map strip_objs c) p = smap (rec c p).
Definition found_ok (x:found) : Prop := chain_ok (snd x) /\ obj_ok (fst x) = true.
Definition Rok (rec:ctx -> str -> res (option found)) : Prop :=
  forall c p y, chain_ok c -> rec c p = Ok (Some y) -> found_ok y.

Lemma try_cands_strip : forall rec rec' chain path l,
  Rrel rec rec' -> chain_ok chain -> (forall o, In o l -> obj_ok o = true) ->
  try_cands rec' (map strip_objs chain) path (map strip_obj l) = smap (try_cands rec chain path l).
Proof.
  intros rec rec' chain path l Hrec Hc. induction l as [|o rest IH]; intros Hl; [reflexivity|].
  cbn [map try_cands]. rewrite strip_onm.
  destruct (eqs (onm o) path); [reflexivity|].
  rewrite strip_okids.
  change (strip_objs (okids o) :: map strip_objs chain) with (map strip_objs (okids o :: chain)).
  rewrite Hrec by (apply chain_ok_kids; [apply Hl; left; reflexivity|exact Hc]).
  destruct (rec (okids o :: chain) (drop (length (onm o) + 1) path)) as [[y|]| |]; cbn; try reflexivity.
  apply IH. intros x Hx. apply Hl. right. exact Hx.
Qed.

Lemma try_cands_ok : forall rec chain path l y,
  Rok rec -> chain_ok chain -> (forall o, In o l -> obj_ok o = true) ->
  try_cands rec chain path l = Ok (Some y) -> found_ok y.
Proof.
  intros rec chain path l y Hrec Hc. induction l as [|o rest IH]; intros Hl H; [discriminate|].
  cbn [try_cands] in H. destruct (eqs (onm o) path).
  - injection H as E. subst y. split; [exact Hc|apply Hl; left; reflexivity].
  - destruct (rec (okids o :: chain) (drop (length (onm o) + 1) path)) as [[z|]| |] eqn:E; cbn [bind] in H; try discriminate.
    + injection H as E'. subst z. eapply Hrec; [|exact E]. apply chain_ok_kids; [apply Hl; left; reflexivity|exact Hc].
    + apply IH; [|exact H]. intros x Hx. apply Hl. right. exact Hx.
Qed.

Lemma lex_here_strip : forall rec rec' stop chain path, stop <> 0 -> Rrel rec rec' -> chain_ok chain ->
  lex_here rec' stop (map strip_objs chain) path = smap (lex_here rec stop chain path).
Proof.
  intros rec rec' stop chain path Hs Hrec Hc. destruct chain as [|cur ups]; [reflexivity|].
  inversion Hc as [|x l Hcur Hups]; subst. cbn [map lex_here].
  destruct (scan_strip stop path cur Hs Hcur) as (cs & E1 & E2 & Hin). rewrite E1, E2. cbn [bind].
  rewrite <- map_rev.
  change (strip_objs cur :: map strip_objs ups) with (map strip_objs (cur :: ups)).
  apply try_cands_strip; [exact Hrec|exact Hc|].
  intros o Ho. apply (list_ok_in cur); [exact Hcur|]. apply Hin. apply in_rev. exact Ho.
Qed.

Lemma lex_here_ok : forall rec stop chain path y, stop <> 0 -> Rok rec -> chain_ok chain ->
  lex_here rec stop chain path = Ok (Some y) -> found_ok y.
Proof.
  intros rec stop chain path y Hs Hrec Hc H. destruct chain as [|cur ups]; [discriminate|].
  inversion Hc as [|x l Hcur Hups]; subst. cbn [lex_here] in H.
  destruct (scan_strip stop path cur Hs Hcur) as (cs & E1 & _ & Hin). rewrite E1 in H. cbn [bind] in H.
  eapply try_cands_ok; [exact Hrec|exact Hc| |exact H].
  intros o Ho. apply (list_ok_in cur); [exact Hcur|]. apply Hin. apply in_rev. exact Ho.
Qed.

Lemma lex_up_strip : forall (here here':ctx -> res (option found)) chain,
  (forall c, chain_ok c -> here' (map strip_objs c) = smap (here c)) -> chain_ok chain ->
  lex_up here' (map strip_objs chain) = smap (lex_up here chain).
Proof.
  intros here here' chain Hh. induction chain as [|cur ups IH]; intros Hc; [reflexivity|].
  cbn [map lex_up].
  change (strip_objs cur :: map strip_objs ups) with (map strip_objs (cur :: ups)).
  rewrite Hh by exact Hc.
  destruct (here (cur :: ups)) as [[y|]| |]; cbn; try reflexivity.
  apply IH. inversion Hc; assumption.
Qed.

Lemma lex_up_ok : forall (here:ctx -> res (option found)) chain y,
  (forall c z, chain_ok c -> here c = Ok (Some z) -> found_ok z) -> chain_ok chain ->
  lex_up here chain = Ok (Some y) -> found_ok y.
Proof.
  intros here chain y Hh. induction chain as [|cur ups IH]; intros Hc H; [discriminate|].
  cbn [lex_up] in H. destruct (here (cur :: ups)) as [[z|]| |] eqn:E; cbn [bind] in H; try discriminate.
  - injection H as E'. subst z. eapply Hh; eassumption.
  - apply IH; [inversion Hc; assumption|exact H].
Qed.

Lemma root_of_strip : forall chain, root_of (map strip_objs chain) = map strip_objs (root_of chain).
Proof.
  induction chain as [|a r IH]; [reflexivity|]. destruct r as [|b r']; [reflexivity|].
  cbn [map root_of] in *. exact IH.
Qed.
Lemma root_of_ok : forall chain, chain_ok chain -> chain_ok (root_of chain).
Proof.
  induction chain as [|a r IH]; intros H; [exact H|]. destruct r as [|b r']; [exact H|].
  cbn [root_of]. apply IH. inversion H; assumption.
Qed.

(* (1) a lookup in the stripped chain finds the stripped object in the stripped chain: variable
   lookup never returns a disabled object and never descends into a disabled scope *)
Theorem lexical_get_strip : forall fuel stop chain path up, stop <> 0 -> chain_ok chain ->
  lexical_get fuel stop (map strip_objs chain) path up = smap (lexical_get fuel stop chain path up).
Proof.
  induction fuel as [|f IH]; intros stop chain path up Hs Hc; [reflexivity|].
  cbn [lexical_get].
  assert (Hrec : Rrel (fun c p => lexical_get f stop c p false) (fun c p => lexical_get f stop c p false)).
  { intros c p Hcc. apply IH; assumption. }
  destruct (strip_dot path) as [p|].
  - rewrite root_of_strip. apply lex_here_strip; [exact Hs|exact Hrec|apply root_of_ok; exact Hc].
  - destruct up.
    + apply lex_up_strip; [|exact Hc]. intros c Hcc. apply lex_here_strip; assumption.
    + apply lex_here_strip; assumption.
Qed.

Theorem lexical_get_ok : forall fuel stop chain path up y, stop <> 0 -> chain_ok chain ->
  lexical_get fuel stop chain path up = Ok (Some y) -> found_ok y.
Proof.
  induction fuel as [|f IH]; intros stop chain path up y Hs Hc H; [discriminate|].
  cbn [lexical_get] in H.
  assert (Hrec : Rok (fun c p => lexical_get f stop c p false)).
  { intros c p z Hcc Hz. eapply IH; eassumption. }
  destruct (strip_dot path) as [p|].
  - eapply lex_here_ok; [exact Hs|exact Hrec|apply root_of_ok; exact Hc|exact H].
  - destruct up.
    + eapply lex_up_ok; [|exact Hc|exact H]. intros c z Hcc Hz. cbv beta in Hz. exact (lex_here_ok _ stop c path z Hs Hrec Hcc Hz).
    + eapply lex_here_ok; eassumption.
Qed.

(* what is found is active, and so are the scopes passed on the way down: stated on the result *)
Lemma scan_live : forall stop path l cs o, scan stop path l = Ok cs -> In o cs -> odis (ohdr o) = false.
Proof.
  intros stop path l. induction l as [|k r IH]; intros cs o H Ho.
  - injection H as E. subst cs. destruct Ho.
  - cbn [scan] in H. destruct (negb (oid k =? 0)%nat && (stop =? 0)%nat); [discriminate|].
    destruct (stops stop k); [injection H as E; subst cs; destruct Ho|].
    destruct (scan stop path r) as [cs'| |]; cbn [bind] in H; try discriminate.
    injection H as E. subst cs. unfold live_cand in Ho. destruct (odis (ohdr k)) eqn:Ed; cbn [negb andb] in Ho.
    + eapply IH; [reflexivity|exact Ho].
    + destruct (cand path k); [destruct Ho as [E|Ho]; [subst; exact Ed|]|]; eapply IH; try reflexivity; exact Ho.
Qed.

(* ------------------------------------------------------------------ resolution *)
Section Res.
  Variable env : str -> option str.

  Definition Drel (rec rec':ctx -> obj -> res (list word)) : Prop :=
    forall ch o, chain_ok ch -> obj_ok o = true -> is_def o = true ->
                 rec' (map strip_objs ch) (strip_obj o) = rec ch o.

  Lemma lookup_var_strip : forall rec rec' diff chain stop w v dt,
    Drel rec rec' -> stop <> 0 -> chain_ok chain ->
    lookup_var env rec' diff (map strip_objs chain) stop w v dt = lookup_var env rec diff chain stop w v dt.
  Proof.
    intros rec rec' diff chain stop w v dt Hrec Hs Hc. unfold lookup_var.
    destruct chain as [|cur ups]; [reflexivity|].
    change (map strip_objs (cur :: ups)) with (strip_objs cur :: map strip_objs ups) at 1.
    cbv iota.
    change (strip_objs cur :: map strip_objs ups) with (map strip_objs (cur :: ups)).
    rewrite lexical_get_strip by assumption.
    destruct (lexical_get (S (length v)) stop (cur :: ups) v true) as [[[o ch]|]| |] eqn:E; cbn; try reflexivity.
    rewrite strip_obj_is_def.
    destruct (is_def o) eqn:Ed; cbn [negb]; [|reflexivity].
    destruct (lexical_get_ok _ _ _ _ _ _ Hs Hc E) as [Hch Ho]. cbn [fst snd] in Hch, Ho.
    rewrite (Hrec ch o Hch Ho Ed). reflexivity.
  Qed.

  Lemma following_char_strip : forall rec rec' diff chain stop w nx,
    Drel rec rec' -> stop <> 0 -> chain_ok chain ->
    following_char env rec' diff (map strip_objs chain) stop w nx = following_char env rec diff chain stop w nx.
  Proof.
    intros rec rec' diff chain stop w nx Hrec Hs Hc. induction nx as [|fr r IH]; [reflexivity|].
    cbn [following_char]. destruct fr as [[|c t]|u]; [exact IH|reflexivity|].
    rewrite (lookup_var_strip rec rec') by assumption.
    destruct (lookup_var env rec diff chain stop w u ["$"]) as [ws| |]; try reflexivity.
    destruct (vjoin_sp (map wv ws)); [exact IH|reflexivity].
  Qed.

  Lemma frag_result_strip : forall rec rec' diff chain stop w force fr nx,
    Drel rec rec' -> stop <> 0 -> chain_ok chain ->
    frag_result env rec' diff (map strip_objs chain) stop w force fr nx
    = frag_result env rec diff chain stop w force fr nx.
  Proof.
    intros rec rec' diff chain stop w force fr nx Hrec Hs Hc. destruct fr as [v|v]; [reflexivity|].
    cbn [frag_result]. unfold dtext. rewrite (following_char_strip rec rec') by assumption.
    rewrite (lookup_var_strip rec rec') by assumption. reflexivity.
  Qed.

  Lemma mapM_tl_ext : forall A B (f g:A -> list A -> res B) l,
    (forall a r, f a r = g a r) -> mapM_tl f l = mapM_tl g l.
  Proof.
    intros A B f g l H. induction l as [|a r IH]; [reflexivity|]. cbn [mapM_tl]. rewrite H, IH. reflexivity.
  Qed.

  Lemma resolve_word_strip : forall rec rec' diff chain stop w,
    Drel rec rec' -> stop <> 0 -> chain_ok chain ->
    resolve_word env rec' diff (map strip_objs chain) stop w = resolve_word env rec diff chain stop w.
  Proof.
    intros rec rec' diff chain stop w Hrec Hs Hc. unfold resolve_word.
    destruct (quote_eqb (wq w) Q1); [reflexivity|].
    destruct (fragments_of_word w) as [[[force have] frs]| |]; cbn [bind]; try reflexivity.
    rewrite (mapM_tl_ext _ _ (frag_result env rec' diff (map strip_objs chain) stop w force)
                             (frag_result env rec diff chain stop w force)); [reflexivity|].
    intros a r. apply frag_result_strip; assumption.
  Qed.

  Lemma resolve_words_strip : forall rec rec' diff chain stop ws,
    Drel rec rec' -> stop <> 0 -> chain_ok chain ->
    resolve_words env rec' diff (map strip_objs chain) stop ws = resolve_words env rec diff chain stop ws.
  Proof.
    intros rec rec' diff chain stop ws Hrec Hs Hc. induction ws as [|w r IH]; [reflexivity|].
    cbn [resolve_words]. rewrite (resolve_word_strip rec rec'), IH by assumption. reflexivity.
  Qed.

  (* (2) resolution of a definition against the stripped chain gives the same words *)
  Theorem resolve_def_strip : forall fuel diff chain d, oid d <> 0 -> chain_ok chain ->
    resolve_def env fuel diff (map strip_objs chain) (strip_obj d) = resolve_def env fuel diff chain d.
  Proof.
    induction fuel as [|f IH]; intros diff chain d Hd Hc; [reflexivity|].
    cbn [resolve_def]. rewrite strip_oid, strip_owords.
    apply resolve_words_strip; [|exact Hd|exact Hc].
    intros ch o Hch Ho _. apply IH; [apply obj_ok_oid; exact Ho|exact Hch].
  Qed.

  Corollary resolve_top_strip : forall diff chain d, oid d <> 0 -> chain_ok chain ->
    resolve_top env diff (map strip_objs chain) (strip_obj d) = resolve_top env diff chain d.
  Proof. intros. unfold resolve_top. rewrite strip_oid. apply resolve_def_strip; assumption. Qed.
End Res.

(* ------------------------------------------------------------------ located sources and their stripped counterparts *)
(* s' is s in the stripped document: the stripped object with the stripped chain (any position) *)
Definition lrel (s s':lsrc) : Prop :=
  lobj s' = strip_obj (lobj s) /\ lctx s' = map strip_objs (lctx s) /\
  chain_ok (lctx s) /\ obj_ok (lobj s) = true.
Definition vrel (l l':list lsrc) : Prop := Forall2 lrel (filter lactive l) (filter lactive l').
Definition srel2 (s s':lsrc) : Prop := s = s' \/ lrel s s'.

Lemma vrel_app : forall a a' b b', vrel a a' -> vrel b b' -> vrel (a ++ b) (a' ++ b').
Proof. intros a a' b b' H1 H2. unfold vrel in *. rewrite !filter_app. apply Forall2_app; assumption. Qed.
Lemma vrel_nil : vrel [] [].
Proof. constructor. Qed.

Lemma lrel_active : forall s s', lrel s s' -> lactive s' = lactive s.
Proof. intros s s' [E _]. unfold lactive. rewrite E, strip_obj_hdr. reflexivity. Qed.

Lemma vrel_single : forall s s', lrel s s' -> vrel [s] [s'].
Proof.
  intros s s' H. unfold vrel. cbn [filter]. rewrite (lrel_active _ _ H).
  destruct (lactive s); constructor; [exact H|constructor].
Qed.

Lemma kids_vrel_aux : forall p p' ks0 chain ks i j,
  chain_ok (ks0 :: chain) -> (forall k, In k ks -> obj_ok k = true) ->
  vrel (map (fun jk : nat * obj => mklsrc (p ++ [fst jk]) (snd jk) (ks0 :: chain)) (index_from i ks))
       (map (fun jk : nat * obj => mklsrc (p' ++ [fst jk]) (snd jk) (strip_objs ks0 :: map strip_objs chain))
            (index_from j (strip_objs ks))).
Proof.
  intros p p' ks0 chain ks. induction ks as [|k r IH]; intros i j Hc Hk; [constructor|].
  assert (Hr : forall x, In x r -> obj_ok x = true) by (intros; apply Hk; right; assumption).
  cbn [strip_objs index_from map]. destruct (odis (ohdr k)) eqn:Ed.
  - unfold vrel. cbn [filter]. unfold lactive at 1. cbn [lobj snd]. rewrite Ed. cbn [negb]. apply IH; assumption.
  - cbn [index_from map fst snd].
    apply (vrel_app [_] [_]); [|apply IH; assumption].
    apply vrel_single. split; [reflexivity|]. split; [reflexivity|]. split; [exact Hc|].
    cbn [lobj]. apply Hk. left. reflexivity.
Qed.

Lemma kids_vrel : forall p p' ks chain, list_ok ks = true -> chain_ok chain ->
  vrel (kids_at p ks chain) (kids_at p' (strip_objs ks) (map strip_objs chain)).
Proof.
  intros p p' ks chain Hk Hc. unfold kids_at. apply kids_vrel_aux.
  - constructor; assumption.
  - intros k Hin. eapply list_ok_in; eassumption.
Qed.

Lemma src_kids_vrel : forall s s', lrel s s' -> vrel (src_kids s) (src_kids s').
Proof.
  intros s s' (E1 & E2 & Hc & Ho). unfold src_kids. rewrite E1, E2.
  destruct (lobj s) as [h ws a|h ks a]; [constructor|]. rewrite strip_obj_scp.
  apply kids_vrel; [|exact Hc]. rewrite obj_ok_scp in Ho. apply andb_true_iff in Ho. apply Ho.
Qed.

(* get_without_substitution in the stripped document *)
Lemma gwsp_vrel : forall o n p ch p', obj_ok o = true -> chain_ok ch ->
  vrel (gwsp p ch n o) (gwsp p' (map strip_objs ch) n (strip_obj o)).
Proof.
  induction o as [h ws a|h ks a IH] using obj_ind2; intros n p ch p' Ho Hc.
  - cbn. destruct (odis h || negb (eqs (oname h) n)); [constructor|].
    apply vrel_single. split; [reflexivity|]. split; [reflexivity|]. split; assumption.
  - rewrite strip_obj_scp. cbn [gwsp]. destruct (odis h) eqn:Eh; [constructor|].
    pose proof Ho as Ho'. rewrite obj_ok_scp in Ho'. apply andb_true_iff in Ho'. destruct Ho' as [_ Hks].
    assert (Hin : forall pth c1 j j', chain_ok c1 ->
      vrel ((fix go (j:nat) (l:list obj) : list lsrc :=
               match l with
               | [] => []
               | k :: r => (if odis (ohdr k) then [] else gwsp (p ++ [j]) c1 pth k) ++ go (S j) r
               end) j ks)
           ((fix go (j:nat) (l:list obj) : list lsrc :=
               match l with
               | [] => []
               | k :: r => (if odis (ohdr k) then [] else gwsp (p' ++ [j]) (map strip_objs c1) pth k) ++ go (S j) r
               end) j' (strip_objs ks))).
    { intros pth c1 j j' Hc1.
      assert (Hk : forall k, In k ks -> obj_ok k = true) by (intros; eapply list_ok_in; eassumption).
      clear Ho Hks. revert j j'.
      induction IH as [|k r Hk0 _ IHr]; intros j j'; [constructor|].
      cbn [strip_objs]. destruct (odis (ohdr k)) eqn:Ek.
      - cbn [app]. apply IHr. intros; apply Hk; right; assumption.
      - rewrite strip_obj_hdr, Ek. apply vrel_app.
        + apply Hk0; [apply Hk; left; reflexivity|exact Hc1].
        + apply IHr. intros; apply Hk; right; assumption. }
    destruct (oname h) as [|c nm].
    + destruct n as [|c n].
      * apply kids_vrel; assumption.
      * apply (Hin (c :: n) (ks :: ch) 0 0). constructor; assumption.
    + destruct (eqs (c :: nm) n).
      * apply vrel_single. split; [reflexivity|]. split; [reflexivity|]. split; assumption.
      * destruct (prefixb ((c :: nm) ++ ["."]) n); [|constructor].
        apply (Hin (drop (length (c :: nm) + 1) n) (ks :: ch) 0 0). constructor; assumption.
Qed.

Lemma flat_map_active : forall n l,
  flat_map (fun s => if odis (ohdr (lobj s)) then [] else gwsp (lpos s) (lctx s) n (lobj s)) l
  = flat_map (fun s => gwsp (lpos s) (lctx s) n (lobj s)) (filter lactive l).
Proof.
  intros n l. induction l as [|s r IH]; [reflexivity|]. cbn [flat_map filter]. unfold lactive at 1.
  destruct (odis (ohdr (lobj s))); cbn [negb]; [exact IH|]. cbn [flat_map]. rewrite IH. reflexivity.
Qed.

Lemma matching_lrel : forall n l l', vrel l l' -> Forall2 lrel (match_sources n l) (match_sources n l').
Proof.
  intros n l l' H. unfold match_sources. rewrite !flat_map_active. unfold vrel in H.
  induction H as [|s s' r r' Hs _ IH]; [constructor|].
  cbn [flat_map]. rewrite !filter_app. apply Forall2_app; [|exact IH].
  destruct Hs as (E1 & E2 & Hc & Ho). rewrite E1, E2. apply gwsp_vrel; assumption.
Qed.

Lemma match_sources_all_active : forall n l, filter lactive (match_sources n l) = match_sources n l.
Proof.
  intros n l. unfold match_sources.
  induction (flat_map (fun s => if odis (ohdr (lobj s)) then [] else gwsp (lpos s) (lctx s) n (lobj s)) l) as [|x r IH];
    [reflexivity|].
  cbn [filter]. destruct (lactive x) eqn:E; [|exact IH]. cbn [filter]. rewrite E, IH. reflexivity.
Qed.

(* ------------------------------------------------------------------ the fetch recursion *)
Section View.
  Variable env : str -> option str.
  Variable canon : obj -> option obj -> res str.
  Variable diff : bool.

  Lemma def_fetch_value_lrel : forall dm h mws a s s', srel2 s s' ->
    def_fetch_value env dm h mws a s = def_fetch_value env dm h mws a s'.
  Proof.
    intros dm h mws a s s' [E|(E1 & E2 & Hc & Ho)]; [subst; reflexivity|].
    unfold def_fetch_value. rewrite E1, E2.
    destruct (lobj s) as [h0 ws0 a0|h0 ks0 a0] eqn:Es.
    - rewrite (resolve_top_strip env dm (lctx s) (Def h0 ws0 a0)); [reflexivity|apply obj_ok_oid; exact Ho|exact Hc].
    - rewrite strip_obj_scp. reflexivity.
  Qed.

  Lemma def_fetch_lrel : forall h mws a s s', srel2 s s' ->
    def_fetch env canon diff h mws a s = def_fetch env canon diff h mws a s'.
  Proof. intros. unfold def_fetch. rewrite !(def_fetch_value_lrel _ _ _ _ s s') by assumption. reflexivity. Qed.

  Lemma def_loop_lrel : forall h mws a ms ms' last, Forall2 srel2 ms ms' ->
    def_loop env canon diff h mws a ms last = def_loop env canon diff h mws a ms' last.
  Proof.
    intros h mws a ms ms' last H. revert last. induction H as [|s s' r r' Hs _ IH]; intros last; [reflexivity|].
    cbn [def_loop]. rewrite (def_fetch_lrel _ _ _ s s') by exact Hs.
    destruct (def_fetch env canon diff h mws a s'); cbn; [apply IH|reflexivity|reflexivity].
  Qed.

  Definition rec_ok2 (rec:list lsrc -> res fout) : Prop :=
    forall comb comb', vrel comb comb' -> rrel same_tree (rec comb) (rec comb').

  Lemma combine_vrel : forall ms ms', Forall2 lrel ms ms' -> rrel vrel (combine ms) (combine ms').
  Proof.
    intros ms ms' H. induction H as [|s s' r r' Hs _ IH]; [cbn; constructor|].
    cbn [combine]. destruct Hs as (E1 & E2 & Hc & Ho). rewrite E1, strip_obj_is_def.
    destruct (is_def (lobj s)); [cbn; auto|].
    eapply rrel_bind; [exact IH|]. intros c c' Hcc. cbn. apply vrel_app; [|exact Hcc].
    apply src_kids_vrel. split; [exact E1|]. split; [exact E2|]. split; assumption.
  Qed.

  Lemma cand_fetch_lrel : forall k rec s s', rec_ok2 rec -> srel2 s s' ->
    rrel (fun cu cu' : option obj * list pos => fst cu = fst cu')
         (cand_fetch env canon diff k rec s) (cand_fetch env canon diff k rec s').
  Proof.
    intros k rec s s' Hrec Hs. destruct Hs as [E|Hs]; [subst; apply rrel_refl; reflexivity|].
    destruct k as [h mws a|h ks a]; cbn [cand_fetch].
    - rewrite (def_fetch_lrel _ _ _ s s') by (right; exact Hs).
      destruct (def_fetch env canon diff h mws a s'); cbn; auto.
    - eapply rrel_bind; [apply (combine_vrel [s] [s']); constructor; [exact Hs|constructor]|].
      intros c c' Hcc.
      eapply rrel_bind; [apply Hrec; exact Hcc|].
      intros oc oc' E. cbn. unfold same_tree in E. rewrite E. reflexivity.
  Qed.

  Definition crel2 (c c':bool * lsrc) : Prop := fst c = fst c' /\ srel2 (snd c) (snd c').

  Lemma mult_loop_lrel : forall k rec mas cands cands', rec_ok2 rec -> Forall2 crel2 cands cands' ->
    forall pd robjs used used',
    rrel (fun st st' : pdict * list (option obj) * list pos => fst st = fst st')
         (mult_loop env canon diff k rec mas cands pd robjs used)
         (mult_loop env canon diff k rec mas cands' pd robjs used').
  Proof.
    intros k rec mas cands cands' Hrec H. induction H as [|[fm s] [fm' s'] r r' [Hf Hs] _ IH]; intros pd robjs used used'.
    - cbn. reflexivity.
    - cbn in Hf. subst fm'. cbn [snd] in Hs. cbn [mult_loop].
      eapply rrel_bind; [apply cand_fetch_lrel; eassumption|].
      intros [cand u] [cand' u'] E. cbn in E. subst cand'. cbn [fst snd].
      destruct (diff_skip diff k cand); [apply IH|].
      destruct (canon k cand) as [cs| |]; cbn [bind]; [|cbn; auto|cbn; auto].
      destruct (eqs cs mas); [apply IH|].
      destruct (pget cs pd) as [[i|]|]; [|apply IH|]; (destruct (diff && fm); apply IH).
  Qed.

  Lemma Forall2_lrel_srel2 : forall ms ms', Forall2 lrel ms ms' -> Forall2 srel2 ms ms'.
  Proof. intros ms ms' H. induction H; constructor; [right; assumption|assumption]. Qed.

  Lemma fetch_one_strip : forall allks chain i k rec srcs srcs',
    rec_ok2 rec -> vrel srcs srcs' ->
    rrel same_tree (fetch_one env canon diff allks chain i k rec srcs)
                   (fetch_one env canon diff allks chain i k rec srcs').
  Proof.
    intros allks chain i k rec srcs srcs' Hrec Hv. unfold fetch_one.
    destruct (get_attr (s_ "alias") (oattrs k)); try (cbn; auto).
    destruct (oname (ohdr k)) as [|c0 nm]; [cbn; auto|].
    pose proof (matching_lrel (c0 :: nm) _ _ Hv) as Hm.
    destruct (omultiple k); cbn [negb].
    - destruct (canon k None) as [mas| |]; cbn [bind]; [|cbn; auto|cbn; auto].
      eapply rrel_bind.
      + apply mult_loop_lrel with (used' := []); [exact Hrec|].
        apply Forall2_app.
        * induction (self_matching allks chain i (c0 :: nm)) as [|x l IHl]; constructor; [|exact IHl].
          split; [reflexivity|left; reflexivity].
        * induction Hm as [|s s' r r' Hs _ IHm]; constructor; [|exact IHm]. split; [reflexivity|right; exact Hs].
      + intros [[pd robjs] used] [[pd' robjs'] used'] E. cbn in E. injection E as E1 E2. subst. cbn. reflexivity.
    - destruct k as [h mws a|h ks a].
      + rewrite (def_loop_lrel _ _ _ _ _ None (Forall2_lrel_srel2 _ _ Hm)).
        destruct (def_loop env canon diff h mws a (match_sources (c0 :: nm) srcs') None) as [ro| |]; cbn [bind]; [|cbn; auto|cbn; auto].
        destruct ro; [cbn; reflexivity|]. destruct (negb diff && negb (odeprecated (Def h mws a))); cbn; reflexivity.
      + eapply rrel_bind; [apply combine_vrel; exact Hm|].
        intros c c' Hcc.
        eapply rrel_bind; [apply Hrec; exact Hcc|].
        intros oc oc' E. unfold same_tree in E. rewrite E.
        destruct (diff && null_objs (fst oc')); cbn; reflexivity.
  Qed.

  Lemma fetch_scope_strip : forall M mchain, rec_ok2 (fetch_scope env canon diff M mchain).
  Proof.
    induction M as [h ws a|h ks a IH] using obj_ind2; intros mchain srcs srcs' Hv.
    - cbn. reflexivity.
    - cbn [fetch_scope]. apply mloop_view. intros i k Hk.
      apply fetch_one_strip; try assumption. rewrite Forall_forall in IH. apply IH. exact Hk.
  Qed.

  (* ---------------------------------------------------------------- root level *)
  Lemma root_vrel : forall srcs, srcs_ordered srcs = true ->
    vrel (root_lsrcs srcs) (root_lsrcs (map strip_objs srcs)).
  Proof.
    intros srcs. unfold root_lsrcs. generalize 0 as i.
    induction srcs as [|t r IH]; intros i H; [constructor|].
    unfold srcs_ordered in H. cbn [forallb] in H. apply andb_true_iff in H. destruct H as [Ht Hr].
    cbn [map index_from flat_map fst snd]. apply vrel_app; [|apply IH; exact Hr].
    apply (kids_vrel [i] [i] t []); [exact Ht|constructor].
  Qed.

  (* (3) disabled source objects are ignored entirely, "$" or not *)
  Theorem fetch_strip : forall m srcs, srcs_ordered srcs = true ->
    fetch env canon diff m srcs = fetch env canon diff m (map strip_objs srcs).
  Proof.
    intros m srcs H. unfold fetch.
    change (rmap fst (fetch_root env canon diff m srcs) = rmap fst (fetch_root env canon diff m (map strip_objs srcs))).
    apply rrel_eq. unfold fetch_root. apply fetch_scope_strip. apply root_vrel. exact H.
  Qed.

  (* the result depends on the sources only through their stripped documents (document by document:
     with "$" the split into documents matters, a lexical chain never leaves its document) *)
  Theorem fetch_view_vars : forall m srcs srcs',
    srcs_ordered srcs = true -> srcs_ordered srcs' = true ->
    map strip_objs srcs = map strip_objs srcs' ->
    fetch env canon diff m srcs = fetch env canon diff m srcs'.
  Proof. intros m srcs srcs' H H' E. rewrite (fetch_strip m srcs H), (fetch_strip m srcs' H'), E. reflexivity. Qed.
End View.

(* ------------------------------------------------------------------ parsed documents are list_ok *)
Lemma ordb_app_l : forall a b, ordb (a ++ b) = true -> ordb a = true.
Proof.
  induction a as [|x r IH]; intros b H; [reflexivity|]. cbn [app ordb] in *.
  apply andb_true_iff in H. destruct H as [H1 H2]. rewrite forallb_app in H1. apply andb_true_iff in H1.
  destruct H1 as [H1 _]. rewrite H1, (IH b H2). reflexivity.
Qed.
Lemma ordb_app_r : forall a b, ordb (a ++ b) = true -> ordb b = true.
Proof.
  induction a as [|x r IH]; intros b H; [exact H|]. cbn [app ordb] in H.
  apply andb_true_iff in H. apply IH. apply H.
Qed.

Lemma oid_in_pre_ids : forall o, In (oid o) (pre_ids o).
Proof. intros o. destruct (pre_ids_head_l o) as [t E]. rewrite E. left. reflexivity. Qed.
Lemma oid_in_pre_ids_l : forall l k, In k l -> In (oid k) (pre_ids_l l).
Proof.
  induction l as [|x r IH]; intros k H; [destruct H|]. cbn [pre_ids_l]. apply in_or_app.
  destruct H as [E|H]; [left; subst; apply oid_in_pre_ids|right; apply IH; exact H].
Qed.

Lemma sib_le_of_ordb : forall k r, ordb (pre_ids k ++ pre_ids_l r) = true ->
  (forall x, In x (pre_ids k ++ pre_ids_l r) -> x <> 0) -> sib_le k r = true.
Proof.
  intros k r Ho Hn. destruct (pre_ids_head_l k) as [t E]. rewrite E in Ho, Hn.
  cbn [app ordb] in Ho. apply andb_true_iff in Ho. destruct Ho as [Ho _].
  rewrite forallb_forall in Ho. unfold sib_le. apply forallb_forall. intros k' Hk'.
  assert (Hin : In (oid k') (t ++ pre_ids_l r)) by (apply in_or_app; right; apply oid_in_pre_ids_l; exact Hk').
  pose proof (Ho _ Hin) as Hle. unfold id_le in Hle.
  assert (N1 : oid k <> 0) by (apply Hn; left; reflexivity).
  assert (N2 : oid k' <> 0) by (apply Hn; right; exact Hin).
  apply Nat.eqb_neq in N1, N2. rewrite N1, N2 in Hle. exact Hle.
Qed.

Lemma ordered_obj_ok : forall o, ordb (pre_ids o) = true -> (forall x, In x (pre_ids o) -> x <> 0) -> obj_ok o = true.
Proof.
  induction o as [h ws a|h ks a IH] using obj_ind2; intros Ho Hn.
  - cbn. rewrite andb_true_r. apply negb_true_iff. apply Nat.eqb_neq. apply Hn. left. reflexivity.
  - rewrite obj_ok_scp. rewrite pre_ids_scp_l in Ho, Hn. apply andb_true_iff. split.
    + apply negb_true_iff. apply Nat.eqb_neq. apply Hn. left. reflexivity.
    + cbn [ordb] in Ho. apply andb_true_iff in Ho. destruct Ho as [_ Ho].
      assert (Hn' : forall x, In x (pre_ids_l ks) -> x <> 0) by (intros; apply Hn; right; assumption).
      clear Hn. induction IH as [|k r Hk _ IHr]; [reflexivity|].
      cbn [pre_ids_l] in Ho, Hn'. cbn [list_ok].
      rewrite Hk; [|eapply ordb_app_l; exact Ho|intros; apply Hn'; apply in_or_app; left; assumption].
      rewrite (sib_le_of_ordb k r Ho Hn').
      rewrite IHr; [reflexivity|eapply ordb_app_r; exact Ho|intros; apply Hn'; apply in_or_app; right; assumption].
Qed.

Lemma ordered_list_ok : forall l, ordb (pre_ids_l l) = true -> (forall x, In x (pre_ids_l l) -> x <> 0) -> list_ok l = true.
Proof.
  induction l as [|k r IH]; intros Ho Hn; [reflexivity|].
  cbn [pre_ids_l] in Ho, Hn. cbn [list_ok].
  rewrite ordered_obj_ok; [|eapply ordb_app_l; exact Ho|intros; apply Hn; apply in_or_app; left; assumption].
  rewrite (sib_le_of_ordb k r Ho Hn).
  rewrite IH; [reflexivity|eapply ordb_app_r; exact Ho|intros; apply Hn; apply in_or_app; right; assumption].
Qed.

Theorem parse_list_ok : forall o s l, parse o s = Ok l -> list_ok l = true.
Proof.
  intros o s l H. apply ordered_list_ok.
  - pose proof (parse_doc_ordered o s l H) as Hd. unfold doc_ordered in Hd. apply andb_true_iff in Hd. apply Hd.
  - intros x Hx. eapply parse_all_have_ids; eassumption.
Qed.

Definition parsed (t:list obj) : Prop := exists o s, parse o s = Ok t.

Lemma parsed_ordered : forall srcs, Forall parsed srcs -> srcs_ordered srcs = true.
Proof.
  intros srcs H. unfold srcs_ordered. apply forallb_forall. intros t Ht.
  rewrite Forall_forall in H. destruct (H t Ht) as (o & s & E). eapply parse_list_ok. exact E.
Qed.

(* for parsed sources nothing else is assumed *)
Theorem fetch_strip_parsed : forall env canon diff m srcs, Forall parsed srcs ->
  fetch env canon diff m srcs = fetch env canon diff m (map strip_objs srcs).
Proof. intros. apply fetch_strip. apply parsed_ordered. assumption. Qed.

(* ------------------------------------------------------------------ the order hypothesis is needed *)
(* a hand-built source whose ids are out of document order:  a = 1 (id 1); !x = 0 (id 5);
   a = 2 (id 2); b = $a (id 3).  The disabled x ends the scan for b (5 >= 3), so b sees the first a
   only; without x the second a is seen as well and wins. *)
Definition unord_master : list obj := [ Def (dh "b" false 1 1) [w_ "0" 1] [] ].
Definition unord_source : list obj :=
  [ Def (dh "a" false 1 1) [w_ "1" 1] [];
    Def (dh "x" true 5 2) [w_ "0" 2] [];
    Def (dh "a" false 2 3) [w_ "2" 3] [];
    Def (dh "b" false 3 4) [w_ "$a" 4] [] ].

Lemma strip_needs_order :
  srcs_ordered [unord_source] = false /\
  fetch ex_env ex_canon false unord_master [unord_source]
  <> fetch ex_env ex_canon false unord_master (map strip_objs [unord_source]).
Proof. split; [reflexivity|vm_compute; discriminate]. Qed.

(* non-vacuity: a parsed source with "$", a disabled definition of the variable and a disabled scope *)
Definition pv_text : str := s_ "a = 1
!a = 2
!s { a = 3 }
t { !a = 4
  b = $a
}".
Definition pv_master : list obj := [ Scp (dh "t" false 1 1) [Def (dh "b" false 2 1) [w_ "0" 1] []] [] ].
Definition pv_source : list obj := match parse [] pv_text with Ok l => l | _ => [] end.
Lemma pv_parsed : parsed pv_source.
Proof. exists [], pv_text. vm_compute. reflexivity. Qed.
Lemma pv_run :
  srcs_have_dollar [pv_source] = true /\
  fetch ex_env ex_canon false pv_master [pv_source]
  = Ok [ Scp (dh "t" false 1 1) [Def (dh "b" false 2 1) [mkword (s_ "1") QN 1] []] [] ] /\
  fetch ex_env ex_canon false pv_master (map strip_objs [pv_source])
  = Ok [ Scp (dh "t" false 1 1) [Def (dh "b" false 2 1) [mkword (s_ "1") QN 1] []] [] ].
Proof. vm_compute. repeat split; reflexivity. Qed.
