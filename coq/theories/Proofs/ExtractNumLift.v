(* The int / ints round trips of ExtractNum.v at the level of PyVal (ty_as_words / ty_from_words),
   acceptance implies domain (refusals), and the scalar-bounds refutation. *)
From Coq Require Import List Ascii String Bool Arith ZArith Lia.
From Phil Require Import Base Tokenizer Tree PyVal ConvText ConvProofs ExtractInt ExtractNum.
From Phil Require Conv.
Import ListNotations.
Local Open Scope char_scope.

Lemma all_some_map_inv {A B} (f:A -> option B) : forall l ys,
  all_some (map f l) = Some ys -> Forall2 (fun a b => f a = Some b) l ys.
Proof.
  induction l as [|a l IH]; intros ys H; cbn in H.
  - inversion H. constructor.
  - destruct (f a) as [b|] eqn:E; [|discriminate]. destruct (all_some (map f l)) as [bs|] eqn:E2; [|discriminate].
    cbn in H. inversion H; subst. constructor; auto.
Qed.

Lemma of_to_conv : forall v x, to_conv v = Some x -> of_conv x = v.
Proof.
  induction v as [| |s|n|l IHl|l|n fs IHf|o l IHl] using pyval_ind2; intros x Hx; cbn in Hx;
    try discriminate; try (inversion Hx; reflexivity).
  destruct (all_some (map to_conv l)) as [xs|] eqn:E; [|discriminate]. cbn in Hx. inversion Hx; subst x.
  apply all_some_map_inv in E. cbn [of_conv]. f_equal. clear Hx.
  revert IHl. induction E as [|a b l xs Hab _ IH]; intro F; [reflexivity|].
  inversion F as [|? ? Fa Fl]; subst. cbn [map]. f_equal; [apply Fa; exact Hab|apply IH; exact Fl].
Qed.

Lemma num_le_int a b : Conv.num_le (Conv.NInt a) (Conv.NInt b) = (a <=? b)%Z.
Proof.
  unfold Conv.num_le, Conv.xr_le, Conv.xr_of, Conv.fin_cmp. cbn [Z.min Z.sub Z.pow]. rewrite !Z.mul_1_r.
  destruct (Z.compare_spec a b); destruct (Z.leb_spec a b); try reflexivity; lia.
Qed.

Definition zbounds (lo hi:option Z) (z:Z) : Prop :=
  (forall b, lo = Some b -> (b <= z)%Z) /\ (forall b, hi = Some b -> (z <= b)%Z).
Lemma zbounds_in_bounds lo hi z : zbounds lo hi z -> in_bounds (optint lo) (optint hi) (Conv.NInt z).
Proof.
  intros [L H]. split; intros b E.
  - destruct lo as [x|]; [|discriminate]. inversion E; subst. rewrite num_le_int. apply Z.leb_le. auto.
  - destruct hi as [x|]; [|discriminate]. inversion E; subst. rewrite num_le_int. apply Z.leb_le. auto.
Qed.
Lemma in_bounds_zbounds lo hi z : in_bounds (optint lo) (optint hi) (Conv.NInt z) -> zbounds lo hi z.
Proof.
  intros [L H]. split; intros b ->.
  - specialize (L _ eq_refl). rewrite num_le_int in L. apply Z.leb_le. exact L.
  - specialize (H _ eq_refl). rewrite num_le_int in H. apply Z.leb_le. exact H.
Qed.

Section Lift.
  Variable pe : str -> option Conv.evr.
  Variable ex : str -> option str.
  Variable opt : aval.
  Variable mw : list word.

  Theorem rt_int lo hi an z ws : (Z.abs z < B4300)%Z ->
    ty_as_words (TyInt lo hi an) opt mw (VNum (Conv.NInt z)) = Ok ws ->
    ty_from_words pe ex (TyInt lo hi an) opt ws = Ok (VNum (Conv.NInt z)).
  Proof.
    intros Hz H. cbn [ty_as_words cty_of to_conv] in H. cbn [ty_from_words cty_of].
    rewrite (int_roundtrip pe no_fmt _ z ws Hz H). reflexivity.
  Qed.
  (* the scalar converter writes a number only if it lies within value_min / value_max *)
  Theorem int_accepts_only_bounds lo hi an z ws :
    ty_as_words (TyInt lo hi an) opt mw (VNum (Conv.NInt z)) = Ok ws -> zbounds lo hi z.
  Proof.
    intro H. cbn [ty_as_words cty_of to_conv] in H.
    destruct (int_as_words_inv no_fmt _ z ws H) as [Hb _]. apply in_bounds_zbounds. exact Hb.
  Qed.
  (* and an in-bounds integer below the digit limit is accepted *)
  Theorem int_accepts_in_bounds lo hi an z : zbounds lo hi z ->
    ty_as_words (TyInt lo hi an) opt mw (VNum (Conv.NInt z)) = Ok [uw (if Conv.too_many_digits z then Conv.py_hex z else str_of_Z z)].
  Proof.
    intro Bd. cbn [ty_as_words cty_of to_conv Conv.as_words Conv.number_conv_as_words Conv.vmin Conv.vmax].
    rewrite (check_value_ok true _ _ _ None (zbounds_in_bounds _ _ _ Bd)). reflexivity.
  Qed.

  (* values an ints parameter may hold: a list of integers, None and Auto *)
  Definition int_value (x:pyval) : Prop := match x with VNum (Conv.NInt _) | VNone | VAuto => True | _ => False end.
  (* integers below CPython's 4300-digit limit (beyond it the converter writes hex(z), read back through eval) *)
  Definition small_value (x:pyval) : Prop := match x with VNum (Conv.NInt z) => (Z.abs z < B4300)%Z | _ => True end.

  Lemma small_items : forall l, Forall small_value (map of_conv l) -> Forall small_item l.
  Proof.
    induction l as [|x l IH]; intro F; [constructor|]. cbn [map] in F. inversion F as [|? ? Fx Fl]; subst.
    constructor; [|apply IH; exact Fl]. destruct x as [| |n|]; try exact I. destruct n; try exact I. exact Fx.
  Qed.
  Lemma to_conv_items : forall items, Forall int_value items ->
    exists l, all_some (map to_conv items) = Some l /\ Forall int_item l /\ map of_conv l = items.
  Proof.
    induction 1 as [|x items Hx _ [l [E [F M]]]]; [exists []; repeat split; constructor|].
    destruct x as [| | |n| | | |]; try contradiction;
      [exists (Conv.PNone :: l)|exists (Conv.PAuto :: l)|destruct n; try contradiction; exists (Conv.PNum (Conv.NInt z) :: l)];
      cbn [map to_conv all_some]; rewrite E; (repeat split; [constructor; [exact I|exact F]|cbn [map of_conv]; rewrite M; reflexivity]).
  Qed.

  Theorem rt_ints smin smax lo hi ne ae items ws :
    Forall int_value items -> Forall small_value items -> items <> [VNone] -> items <> [VAuto] ->
    ty_as_words (TyInts smin smax lo hi ne ae) opt mw (VList items) = Ok ws ->
    ty_from_words pe ex (TyInts smin smax lo hi ne ae) opt ws = Ok (VList items).
  Proof.
    intros F Sm NN NA H. destruct (to_conv_items items F) as [l [E [Fl M]]].
    assert (Sl : Forall small_item l) by (apply small_items; rewrite M; exact Sm).
    cbn [ty_as_words cty_of to_conv] in H. rewrite E in H. cbn [option_map] in H.
    cbn [ty_from_words cty_of].
    rewrite (ints_roundtrip pe no_fmt _ l ws Fl Sl); [cbn [bind of_conv]; rewrite M; reflexivity| | |exact H].
    - intro X. subst l. cbn in M. apply NN. symmetry. exact M.
    - intro X. subst l. cbn in M. apply NA. symmetry. exact M.
  Qed.

  (* ---------- formatting accepts only in-domain values (refusal = anything but Ok) *)
  Theorem ints_accepts_only_domain smin smax lo hi ne ae items ws :
    Forall int_value items ->
    ty_as_words (TyInts smin smax lo hi ne ae) opt mw (VList items) = Ok ws ->
    size_ok smin smax (length items)
    /\ Forall (fun x => match x with
                        | VNum (Conv.NInt z) => zbounds lo hi z
                        | VNone => ne = true
                        | VAuto => ae = true
                        | _ => False end) items.
  Proof.
    intros F H. destruct (to_conv_items items F) as [l [E [Fl M]]].
    cbn [ty_as_words cty_of to_conv] in H. rewrite E in H. cbn [option_map Conv.as_words Conv.numbers_conv_as_words] in H.
    apply bind_ok in H as (u & Hsz & Hmap). apply check_size_ok in Hsz. apply map_res_ok in Hmap.
    assert (L : length l = length items) by (rewrite <- M; symmetry; apply map_length). rewrite L in Hsz. split; [exact Hsz|].
    rewrite <- M. clear M L E Hsz F. revert Fl. induction Hmap as [|v w l ws' Hvw _ IH]; intro Fl; [constructor|].
    inversion Fl as [|? ? Iv Il]; subst. cbn [map]. constructor; [|apply IH; exact Il].
    unfold Conv.elem_as_word in Hvw.
    destruct v as [| |n|]; try contradiction; cbn [of_conv].
    - cbn [Conv.none_el] in Hvw. destruct ne; [reflexivity|discriminate].
    - cbn [Conv.auto_el] in Hvw. destruct ae; [reflexivity|discriminate].
    - destruct n; try contradiction. apply bind_ok in Hvw as (u' & Hc & Hw).
      cbn [Conv.check_value_py Conv.lvmin Conv.lvmax] in Hc.
      apply check_value_bounds in Hc. apply in_bounds_zbounds. exact Hc.
  Qed.

  Theorem int_refuses_none lo hi : ty_as_words (TyInt lo hi false) opt mw VNone = UErr (s_ "CannotBeNone") [] 0.
  Proof. reflexivity. Qed.

  (* out of bounds: refused with BelowMin / AboveMax (the witness of the former defect) *)
  Theorem scalar_bounds_refused :
    ty_as_words (TyInt (Some 0%Z) (Some 3%Z) true) opt mw (VNum (Conv.NInt 99)) = UErr (s_ "AboveMax") [] 0.
  Proof. vm_compute. reflexivity. Qed.

  Theorem single_none_element_refuted :
    exists ws, ty_as_words (TyInts None None None None true true) opt mw (VList [VNone]) = Ok ws
               /\ ty_from_words pe ex (TyInts None None None None true true) opt ws = Ok VNone.
  Proof. exists [uw (s_ "None")]. split; reflexivity. Qed.
End Lift.
