(* C07: "the master's own defaults as first source" (defaults_first).
   d = M.fetch() (no source); then M.fetch(sources=[d] + S) = M.fetch(sources=S), outcome for outcome.
   d is NOT master-like in the sense of FetchIdemCopy.mlike: under the name of a .multiple entry k it
   holds the template copy of k followed by the kept instances of the FURTHER master occurrences of k
   (one object per canonical text, last one wins).  Offered again in front of the sources' candidates:
     - the template copy is skipped by its text (default_ok),
     - every kept instance is fetched to itself with the same text (the re-fetch lemma inst_refetch), so
       the candidate list of the second run reads  S ++ [skip] ++ keep-last(S) ++ X  against  S ++ X ,
       and keep-last(S ++ keep-last(S) ++ X) = keep-last(S ++ X)  (dd_defaults).
   Non-multiple entries: a definition finds its own words, a scope (recursively) its own defaults.
   Only D07 is needed (no uniqueness of sibling names beyond what D07 contains). *)
From Coq Require Import List Ascii String Bool Arith ZArith Lia.
From Phil Require Import Base Tree Vars Choice ChoiceProofs ChoiceTop Fetch FetchBasics FetchShape FetchDisabled FetchExamples
  FetchIdemLists FetchIdemBase FetchIdem FetchIdemCopy FetchIdemNoMult EntryFetch EntryIdem.
Import ListNotations.
Local Open Scope char_scope.

(* ------------------------------------------------------------------ keep-last algebra *)
(* feeding the kept candidates of the first part back, between the two parts, changes nothing *)
Lemma dd_defaults : forall s x, dd (s ++ dd s ++ x) = dd (s ++ x).
Proof.
  intros s x. rewrite (dd_app s (dd s ++ x)).
  rewrite filter_none.
  - cbn [app]. rewrite (dd_app (dd s) x), dd_dd. symmetry. apply dd_app.
  - intros p Hp. rewrite has_key_app.
    assert (H : has_key (fst p) (dd s) = true) by (apply has_key_In; apply in_map; exact Hp).
    rewrite H. reflexivity.
Qed.

Lemma rmap_fst_err : forall A B (r:res (A * B)) (r':res (A * B)),
  rmap fst r = rmap fst r' -> (forall x, r' <> Ok x) -> forall (P:A * B -> A * B -> Prop), rrel P r r'.
Proof.
  intros A B r r' H Hn P. destruct r as [x| |], r' as [y| |]; cbn in *; try discriminate.
  - exfalso. eapply Hn. reflexivity.
  - injection H as E1 E2 E3. auto.
  - injection H as E. exact E.
Qed.

Section Defaults.
  Variable env : str -> option str.
  Variable canon : obj -> option obj -> res str.
  Notation fsc := (fetch_scope env canon false).

  (* ---------------------------------------------------------------- the multiple branch *)
  (* candidates of the second run: master occurrences S, the template T, the kept instances I of the
     first run, then the sources' candidates *)
  Lemma mult_branch_dflt : forall k rec mas S T I M2 M elS, canon k None = Ok mas -> rec_ok rec ->
    Forall2 srel M2 M ->
    evs env canon false k rec mas S = Ok elS ->
    ev env canon false k rec mas T = Ok None ->
    evs env canon false k rec mas I = Ok (map Some (dd (somesP elS))) ->
    rrel (fun st st' : pdict * list (option obj) * list pos =>
            somes (snd (fst st)) = somes (snd (fst st')) /\ (fst (fst st) = [] <-> fst (fst st') = []))
      (mult_loop env canon false k rec mas (map (pair true) S ++ map (pair false) (T :: I ++ M2)) [] [] [])
      (mult_loop env canon false k rec mas (map (pair true) S ++ map (pair false) M) [] [] []).
  Proof.
    intros k rec mas S T I M2 M elS Hmas Hrec HM HS HT HI.
    pose proof (mult_loop_fold env canon false k rec mas Hmas (map (pair true) S ++ map (pair false) (T :: I ++ M2))
                  (fun _ _ => eq_refl) [] [] []) as F2.
    pose proof (mult_loop_fold env canon false k rec mas Hmas (map (pair true) S ++ map (pair false) M)
                  (fun _ _ => eq_refl) [] [] []) as F1.
    rewrite map_app, !map_snd_pair in F2, F1.
    rewrite evs_app, HS in F2, F1. cbn [bind] in F2, F1.
    cbn [evs] in F2. rewrite HT in F2. cbn [bind] in F2. rewrite evs_app, HI in F2. cbn [bind] in F2.
    rewrite (evs_srel env canon k rec mas M2 M Hrec HM) in F2.
    destruct (evs env canon false k rec mas M) as [elX| |] eqn:EX; cbn [bind rmap] in F2, F1.
    - apply rmap_fst_ok in F2. destruct F2 as [st2 [E2 F2]].
      apply rmap_fst_ok in F1. destruct F1 as [st1 [E1 F1]].
      rewrite E2, E1. cbn [rrel].
      destruct (fold_pstep_grel (elS ++ None :: map Some (dd (somesP elS)) ++ elX) [] [] [] grel_nil) as [g2 [Hg2 Eg2]].
      destruct (fold_pstep_grel (elS ++ elX) [] [] [] grel_nil) as [g1 [Hg1 Eg1]].
      rewrite <- F2 in Hg2. rewrite <- F1 in Hg1.
      cbn [somesP] in Eg2, Eg1. rewrite kl_dd in Eg2, Eg1.
      rewrite somesP_app in Eg2, Eg1. cbn [somesP] in Eg2. rewrite somesP_app, somesP_map_some in Eg2.
      rewrite dd_defaults in Eg2.
      split.
      + rewrite (gr_objs _ _ _ Hg2), (gr_objs _ _ _ Hg1), !somes_objs_of, Eg2, Eg1. reflexivity.
      + rewrite (grel_pd_nil _ _ _ Hg2), (grel_pd_nil _ _ _ Hg1), Eg2, Eg1. reflexivity.
    - apply rmap_fst_err; [|intros x E; rewrite E in F1; discriminate F1]. rewrite F2, F1. reflexivity.
    - apply rmap_fst_err; [|intros x E; rewrite E in F1; discriminate F1]. rewrite F2, F1. reflexivity.
  Qed.

  (* ---------------------------------------------------------------- one master entry *)
  (* [d] below is what the same scope.fetch gives on no source at all *)
  Definition rec_dflt (rec:list lsrc -> res fout) : Prop :=
    forall d u0 comb comb2, rec [] = Ok (d, u0) -> lplain comb -> lplain comb2 ->
      lview comb2 = strip_objs d ++ lview comb -> rrel same_tree (rec comb2) (rec comb).

  Lemma fetch_one_dflt : forall allks chain i k rec srcs srcs2 b u0,
    odis (ohdr k) = false -> oplain k -> (forall x, In x allks -> oplain x) -> def_ok k ->
    (omultiple k = true -> exists c0 u0, cand_fetch env canon false k rec (mklsrc [] k []) = Ok (Some c0, u0) /\
                                         canon k (Some c0) = canon k None) ->
    rec_ok rec -> rec_idem rec -> rec_mlike k rec -> rec_dflt rec ->
    lplain srcs -> lplain srcs2 ->
    fetch_one env canon false allks chain i k rec [] = Ok (b, u0) ->
    map sl (match_sources (onm k) srcs2) = strip_objs b ++ map sl (match_sources (onm k) srcs) ->
    rrel same_tree (fetch_one env canon false allks chain i k rec srcs2) (fetch_one env canon false allks chain i k rec srcs).
  Proof.
    intros allks chain i k rec srcs srcs2 b u0 Hact Hk Hall Hok Hdef Hrok Hrid Hrml Hrdf Hp Hp2 H0 Hv.
    destruct (omultiple k) eqn:Em.
    - (* ---- multiple *)
      unfold fetch_one in *. unfold onm in Hv.
      destruct (get_attr (s_ "alias") (oattrs k)); try discriminate.
      destruct (oname (ohdr k)) as [|c0 nm] eqn:En; [discriminate|].
      rewrite Em in *. cbn [negb] in *.
      change (match_sources (c0 :: nm) []) with (@nil lsrc) in H0.
      pose proof (match_sources_plain (c0 :: nm) srcs Hp) as Hm.
      pose proof (match_sources_plain (c0 :: nm) srcs2 Hp2) as Hm2.
      bind_inv H0 as mas Hmas. bind_inv H0 as st Hst. destruct st as [[pd robjs] used]. injection H0 as Eb Eu. subst b.
      cbn [app] in Hv.
      set (S := self_matching allks chain i (c0 :: nm)) in *.
      set (M := match_sources (c0 :: nm) srcs) in *.
      pose proof (mult_loop_fold env canon false k rec mas Hmas (map (pair true) S ++ map (pair false) []) (fun _ _ => eq_refl) [] [] []) as F.
      rewrite Hst in F. cbn [rmap fst] in F. rewrite map_app, !map_snd_pair, app_nil_r in F.
      destruct (evs env canon false k rec mas S) as [elS| |] eqn:HelS; cbn [rmap] in F; try discriminate.
      injection F as F.
      destruct (fold_pstep_grel elS [] [] [] grel_nil) as [g [Hg Eg]]. rewrite <- F in Hg. cbn [fst snd] in Hg.
      cbn [somesP] in Eg. rewrite kl_dd in Eg.
      assert (HL : somes robjs = map snd (dd (somesP elS))).
      { rewrite (gr_objs _ _ _ Hg), somes_objs_of, Eg. reflexivity. }
      assert (Hor : forall p, In p (dd (somesP elS)) -> exists s, oplain (lobj s) /\ ev env canon false k rec mas s = Ok (Some p)).
      { intros p Hp0. apply In_dd in Hp0. destruct (evs_In env canon false k rec mas _ _ _ HelS Hp0) as [s [Hs Hev]].
        exists s. split; [|exact Hev]. eapply self_matching_plain; eassumption. }
      assert (Hactive : forall x, In x (somes robjs) -> odis (ohdr x) = false).
      { intros x Hx. rewrite HL in Hx. apply in_map_iff in Hx. destruct Hx as [[t c] [E Hx]]. cbn in E. subst x.
        destruct (Hor _ Hx) as [s [_ Hev]]. destruct (ev_some _ _ _ _ _ _ _ _ _ Hev) as [u1 [Hcf _]].
        rewrite (cand_fetch_hdr _ _ _ _ _ _ _ Hcf). cbn. exact Hact. }
      assert (HactT : odis (ohdr (template_of k pd)) = false).
      { unfold template_of. destruct k; cbn; exact Hact. }
      cbn [strip_objs] in Hv. rewrite HactT in Hv. rewrite (strip_objs_active _ Hactive) in Hv.
      destruct (match_sources (c0 :: nm) srcs2) as [|sT M'] eqn:EM'; [discriminate|].
      cbn [map app] in Hv. injection Hv as HvT HvM.
      apply map_eq_app in HvM. destruct HvM as [I [M2 [EM2 [HvI HvM]]]]. subst M'.
      assert (HpI : forall s, In s I -> oplain (lobj s)).
      { intros s Hs. apply Hm2. right. apply in_or_app. left. exact Hs. }
      assert (HpM2 : lplain M2).
      { intros s Hs. apply Hm2. right. apply in_or_app. right. exact Hs. }
      pose proof (Forall2_srel_of_views M2 M HvM HpM2 Hm) as HF.
      (* the template is skipped *)
      assert (HevT : ev env canon false k rec mas sT = Ok None).
      { destruct (Hdef eq_refl) as [cd [ud [Hcd Hcn]]].
        assert (Hsim : ssim sT (mklsrc [] k [])).
        { split; [|split; [apply Hm2; left; reflexivity|exact Hk]]. cbn [lobj].
          eapply same_body_trans; [apply same_body_sym, same_body_strip|]. unfold sl in HvT. rewrite HvT.
          eapply same_body_trans; [apply same_body_strip|]. unfold template_of. apply same_body_set_hdr. }
        pose proof (cand_fetch_ssim env canon false k rec sT _ Hrok Hsim) as R. rewrite Hcd in R.
        destruct (cand_fetch env canon false k rec sT) as [[cT uT]| |] eqn:EcT; cbn in R; try contradiction. subst cT.
        unfold ev. rewrite EcT. cbn [bind fst]. unfold diff_skip. cbn [andb]. rewrite Hcn, Hmas. cbn [bind]. rewrite f_eqs_refl. reflexivity. }
      (* the kept instances are kept again *)
      assert (HevI : evs env canon false k rec mas I = Ok (map Some (dd (somesP elS)))).
      { apply evs_insts; try assumption. rewrite HvI, HL. reflexivity. }
      pose proof (mult_branch_dflt k rec mas S sT I M2 M elS Hmas Hrok HF HelS HevT HevI) as B.
      rewrite Hmas. cbn [bind].
      destruct (mult_loop env canon false k rec mas (map (pair true) S ++ map (pair false) (sT :: I ++ M2)) [] [] []) as [[[pd2 r2] u2]| |];
        destruct (mult_loop env canon false k rec mas (map (pair true) S ++ map (pair false) M) [] [] []) as [[[pd1 r1] u1]| |];
        cbn in B; try contradiction; cbn [bind]; try exact B.
      destruct B as [B1 B2]. change (template_of k pd2 :: somes r2 = template_of k pd1 :: somes r1). f_equal.
      + apply template_of_nil_iff. exact B2.
      + exact B1.
    - destruct k as [h mws a|h ks a].
      + (* ---- definition: the first source carries the master's own words *)
        assert (Eb : b = [Def h mws a]).
        { unfold fetch_one in H0.
          destruct (get_attr (s_ "alias") (oattrs (Def h mws a))); try discriminate.
          destruct (oname (ohdr (Def h mws a))) as [|c0 nm] eqn:En; [discriminate|].
          rewrite Em in H0. cbn [negb] in H0.
          change (match_sources (c0 :: nm) []) with (@nil lsrc) in H0.
          cbn [def_loop bind map] in H0. destruct Hok as [_ [Hdep _]]. rewrite Hdep in H0. cbn [negb andb] in H0.
          injection H0 as E _. symmetry. exact E. }
        subst b.
        apply (fetch_one_mlike env canon allks chain i (Def h mws a) rec srcs srcs2 [Def h mws a]); try assumption.
        * intros E. rewrite Em in E. discriminate E.
        * apply ml_def. exact Em.
        * rewrite Hv. cbn [strip_objs strip_obj]. rewrite Hact. reflexivity.
      + (* ---- scope: the first source carries the scope's own defaults *)
        unfold fetch_one in *. unfold onm in Hv.
        destruct (get_attr (s_ "alias") (oattrs (Scp h ks a))); try discriminate.
        destruct (oname (ohdr (Scp h ks a))) as [|c0 nm] eqn:En; [discriminate|].
        rewrite Em in *. cbn [negb] in *.
        change (match_sources (c0 :: nm) []) with (@nil lsrc) in H0.
        pose proof (match_sources_plain (c0 :: nm) srcs Hp) as Hm.
        pose proof (match_sources_plain (c0 :: nm) srcs2 Hp2) as Hm2.
        set (M := match_sources (c0 :: nm) srcs) in *.
        cbn [combine bind] in H0. bind_inv H0 as oc Hoc. cbn [andb] in H0. injection H0 as Eb Eu. subst b.
        destruct oc as [dk uk]. cbn [fst snd] in *. cbn [ohdr] in Hact.
        assert (Hso : strip_objs [scopy h a dk] = [Scp (with_tmpl h 0) (strip_objs dk) a]).
        { cbn [strip_objs scopy ohdr with_tmpl odis]. rewrite Hact. reflexivity. }
        rewrite Hso in Hv.
        destruct (match_sources (c0 :: nm) srcs2) as [|sK M2] eqn:EM2; [discriminate|].
        cbn [app map] in Hv. injection Hv as HvK HvM. unfold sl in HvK.
        apply strip_obj_scp_inv in HvK. destruct HvK as [ks' [ElK Ekids]].
        cbn [combine]. rewrite ElK. cbn [is_def].
        pose proof (combine_rel M2 M HvM) as R.
        destruct (combine M2) as [c2| |]; destruct (combine M) as [c1| |]; cbn in R; try contradiction; cbn [bind]; try exact R.
        destruct R as [E2 E1]. subst c2 c1.
        eapply rrel_bind.
        * apply (Hrdf dk uk).
          -- exact Hoc.
          -- apply src_kids_plain. exact Hm.
          -- intros x Hx. apply in_app_or in Hx. destruct Hx as [Hx|Hx].
             ++ eapply src_kids_plain1; [|exact Hx]. apply Hm2. left. reflexivity.
             ++ eapply (src_kids_plain M2); [|exact Hx]. intros y Hy. apply Hm2. right. exact Hy.
          -- rewrite lview_app, lview_src_kids, !lview_flat_kids. unfold sl at 1. rewrite ElK, strip_obj_scp. cbn [okids].
             rewrite Ekids, HvM. reflexivity.
        * intros oc oc' E. unfold same_tree in E. rewrite E. simpl. unfold same_tree. reflexivity.
  Qed.

  (* ---------------------------------------------------------------- the loop over the master's entries *)
  (* [body0] = the run without sources (whose result W decides what each entry finds), [body2] / [body1] =
     the runs with / without the extra first source *)
  Lemma mloop_dflt : forall (body0 body2 body1:nat -> obj -> res fout) (W:list obj) l,
    (forall i k o, In k l -> body0 i k = Ok o -> shape_block k (fst o)) ->
    forall seen i o pre post,
    mloop body0 seen i l = Ok o ->
    NoDup (map onm (entries_from seen l)) ->
    (forall k, In k (entries_from seen l) -> onm k <> [] /\ nodot (onm k)) ->
    (forall x, In x (pre ++ post) -> onm x <> [] /\ forall k, In k (entries_from seen l) -> onm x <> onm k) ->
    W = pre ++ fst o ++ post ->
    (forall j k b, In k (entries_from seen l) -> body0 j k = Ok b -> gview (onm k) W = strip_objs (fst b) ->
                   rrel same_tree (body2 j k) (body1 j k)) ->
    rrel same_tree (mloop body2 seen i l) (mloop body1 seen i l).
  Proof.
    intros body0 body2 body1 W l. induction l as [|k r IH]; intros Hsh seen i o pre post H Hnd Hnm Hpp HW Hstep.
    - cbn. reflexivity.
    - cbn [mloop] in H. cbn [entries_from] in Hnd, Hnm, Hpp, Hstep. cbn [mloop].
      assert (Hsh' : forall i k o, In k r -> body0 i k = Ok o -> shape_block k (fst o))
        by (intros; eapply Hsh; [right; eassumption|eassumption]).
      destruct (mao_step seen k) as [| |seen'] eqn:Es.
      + eapply IH; eassumption.
      + discriminate.
      + bind_inv H as a Ha. bind_inv H as b Hb. injection H as E. subst o. cbn [fst] in *.
        cbn [map] in Hnd. inversion Hnd as [|x l0 Hnin Hnd']; subst x l0.
        assert (Hkact : odis (ohdr k) = false).
        { assert (In k (entries_from seen (k :: r))) by (cbn [entries_from]; rewrite Es; left; reflexivity).
          apply entries_active in H. apply H. }
        destruct (Hnm k (or_introl eq_refl)) as [Hkne Hkdot].
        assert (Ha_names : forall x, In x (fst a) -> onm x = onm k /\ odis (ohdr x) = false).
        { intros x Hx. destruct (shape_block_origin _ _ _ (Hsh i k a (or_introl eq_refl) Ha) Hx) as [A [_ [_ D]]].
          split; [exact A|]. rewrite D. exact Hkact. }
        assert (Hb_names : forall x, In x (fst b) -> exists k', In k' (entries_from seen' r) /\ onm x = onm k').
        { intros x Hx. pose proof (mloop_shape body0 r Hsh' seen' (Datatypes.S i) b Hb) as SB.
          destruct (shape_blocks_names _ _ SB x Hx) as [k' [A [B _]]]. eauto. }
        assert (Hgv : gview (onm k) W = strip_objs (fst a)).
        { rewrite HW, !gview_app.
          rewrite (gview_other (onm k) pre Hkdot).
          2:{ intros x Hx. destruct (Hpp x (in_or_app _ _ _ (or_introl Hx))) as [A B]. split; [|exact A].
              apply B. left. reflexivity. }
          rewrite (gview_same (onm k) (fst a) Hkne Ha_names).
          rewrite (gview_other (onm k) (fst b) Hkdot).
          2:{ intros x Hx. destruct (Hb_names x Hx) as [k' [A B]]. rewrite B. split.
              - intros E. apply Hnin. rewrite <- E. apply in_map. exact A.
              - apply Hnm. right. exact A. }
          rewrite (gview_other (onm k) post Hkdot).
          2:{ intros x Hx. destruct (Hpp x (in_or_app _ _ _ (or_intror Hx))) as [A B]. split; [|exact A].
              apply B. left. reflexivity. }
          cbn [app]. rewrite !app_nil_r. reflexivity. }
        pose proof (Hstep i k a (or_introl eq_refl) Ha Hgv) as Hs1.
        eapply rrel_bind; [exact Hs1|]. intros a2 a1 Ea.
        eapply rrel_bind.
        * apply (IH Hsh' seen' (Datatypes.S i) b (pre ++ fst a) post Hb Hnd').
          -- intros k' Hk'. apply Hnm. right. exact Hk'.
          -- intros x Hx. rewrite <- app_assoc in Hx. apply in_app_or in Hx. destruct Hx as [Hx|Hx].
             ++ destruct (Hpp x (in_or_app _ _ _ (or_introl Hx))) as [A B]. split; [exact A|]. intros k' Hk'. apply B. right. exact Hk'.
             ++ apply in_app_or in Hx. destruct Hx as [Hx|Hx].
                ** destruct (Ha_names x Hx) as [A _]. rewrite A. split; [exact Hkne|].
                   intros k' Hk' E. apply Hnin. rewrite E. apply in_map. exact Hk'.
                ** destruct (Hpp x (in_or_app _ _ _ (or_intror Hx))) as [A B]. split; [exact A|]. intros k' Hk'. apply B. right. exact Hk'.
          -- rewrite HW. rewrite <- !app_assoc. reflexivity.
          -- intros j k' b' Hk' Hb' Hg. apply (Hstep j k' b'); [right; exact Hk'|exact Hb'|exact Hg].
        * intros b2 b1 Eb. unfold same_tree in *. cbn. rewrite Ea, Eb. reflexivity.
  Qed.

  (* ---------------------------------------------------------------- scope.fetch *)
  Lemma fetch_scope_dflt : forall M, wfd env canon M -> oplain M -> forall chain, rec_dflt (fsc M chain).
  Proof.
    induction M as [h ws a|h ks a IH] using obj_ind2; intros Hwf HM chain d u0 comb comb2 H0 Hp Hp2 Hv.
    - cbn in H0. discriminate.
    - inversion Hwf as [|h0 ks0 a0 Hnd Hent]; subst.
      cbn [fetch_scope] in *.
      pose proof (proj1 (oplain_scp h ks a) HM) as Hks.
      rewrite Forall_forall in IH.
      eapply (mloop_dflt _ _ _ d ks) with (o := (d, u0)) (pre := []) (post := []).
      + intros i k o Hk Ho. eapply fetch_one_shape; [|exact Ho]. intros c oc Hoc. eapply fetch_scope_shape. exact Hoc.
      + exact H0.
      + exact Hnd.
      + intros k Hk. destruct (Hent k Hk) as [A [B _]]. auto.
      + intros x [].
      + cbn. rewrite app_nil_r. reflexivity.
      + intros j k [bb ub] Hk Hb Hg. cbn [fst] in *.
        destruct (entries_active _ _ _ Hk) as [Hact Hin].
        destruct (Hent k Hk) as [_ [_ [Hmul Hw]]].
        assert (Hkp : oplain k) by (apply Hks; exact Hin).
        assert (Hdf : omultiple k = true -> exists c0 u0,
                  cand_fetch env canon false k (fsc k (ks :: chain)) (mklsrc [] k []) = Ok (Some c0, u0) /\
                  canon k (Some c0) = canon k None).
        { intros Em. destruct (Hmul Em (ks :: chain)) as [c0 [u1 Hc0]]. eauto. }
        apply (fetch_one_dflt ks (ks :: chain) j k (fsc k (ks :: chain)) comb comb2 bb ub Hact Hkp Hks
                 (wfd_def_ok env canon _ Hw) Hdf (fetch_scope_view env canon false k (ks :: chain))
                 (fetch_scope_refetch env canon k Hw Hkp (ks :: chain))
                 (fetch_scope_mlike env canon k Hw Hkp (ks :: chain))
                 (IH k Hin Hw Hkp (ks :: chain)) Hp Hp2 Hb).
        rewrite !match_sources_view, Hv, flat_map_app.
        change (flat_map (fun o => lview (gwsp [] [] (onm k) o)) (strip_objs d)) with (gview (onm k) d).
        rewrite Hg. reflexivity.
  Qed.

  (* ---------------------------------------------------------------- root *)
  (* C07_defaults_first: the master's own defaults as an extra first source *)
  Theorem defaults_first : forall m d srcs, D07 env canon m -> srcs_have_dollar srcs = false ->
    fetch env canon false m [] = Ok d ->
    fetch env canon false m (d :: srcs) = fetch env canon false m srcs.
  Proof.
    intros m d srcs [Hwf Hmp] Hd H0.
    pose proof (fetch_result_plain env canon false m [] d Hmp eq_refl H0) as Hdp.
    unfold fetch in H0. bind_inv H0 as oc Hoc. injection H0 as E. destruct oc as [d0 u0]. cbn [fst] in E. subst d0.
    unfold fetch.
    change (rmap fst (fetch_root env canon false m (d :: srcs)) = rmap fst (fetch_root env canon false m srcs)).
    apply rrel_eq. unfold fetch_root in *.
    apply (fetch_scope_dflt (root_scope m) Hwf (root_plain m Hmp) [] d u0).
    - exact Hoc.
    - apply lplain_root. exact Hd.
    - apply lplain_root. unfold srcs_have_dollar in *. cbn [existsb] in *. rewrite orb_false_r in Hdp. rewrite Hdp, Hd. reflexivity.
    - rewrite !lview_root. reflexivity.
  Qed.

  (* the target statement as planned (wf_master is not needed) *)
  Corollary defaults_first_wf : forall m d srcs, D07 env canon m -> wf_master m -> srcs_have_dollar srcs = false ->
    fetch env canon false m [] = Ok d ->
    fetch env canon false m (d :: srcs) = fetch env canon false m srcs.
  Proof. intros m d srcs HD _. apply defaults_first. exact HD. Qed.

  (* the defaults alone: fetching them gives them back (instance of the above with no further source) *)
  Corollary defaults_alone : forall m d, D07 env canon m ->
    fetch env canon false m [] = Ok d -> fetch env canon false m [d] = Ok d.
  Proof. intros m d HD H0. rewrite (defaults_first m d [] HD eq_refl H0). exact H0. Qed.

  (* masters without any .multiple entry: every canon *)
  Theorem defaults_first_nomultiple : forall m d srcs, D07s m -> srcs_have_dollar srcs = false ->
    fetch env canon false m [] = Ok d ->
    fetch env canon false m (d :: srcs) = fetch env canon false m srcs.
  Proof. intros m d srcs H. apply defaults_first. apply D07s_D07. exact H. Qed.
End Defaults.

(* ====================================================================================== *)
(* non-vacuity: a plain scope, a .multiple definition with two master occurrences, a        *)
(* .multiple scope; one source                                                              *)
(* ====================================================================================== *)
(* master   a = 1                          source   a = 2
            t { c = 5 }                             d = 7
            d = 0 .multiple = True                  d = 3
            d = 3 .multiple = True                  s { b = y }
            s .multiple = True { b = x }            t { c = 6 }
   defaults (5 objects):  a = 1   t { c = 5 }   d = 0 (template, -1)   d = 3   s { b = x } (template, 1)
   - under the name d the defaults hold TWO objects, so they are not master-like (FetchIdemCopy.mlike1
     allows at most one). *)
Definition dfx_mul : attrs := [(s_ "multiple", ABool true)].
Definition dfx_master : list obj :=
  [ Def (dh "a" false 1 1) [w_ "1" 1] [];
    Scp (dh "t" false 2 2) [Def (dh "c" false 3 3) [w_ "5" 3] []] [];
    Def (dh "d" false 4 5) [w_ "0" 5] dfx_mul;
    Def (dh "d" false 5 7) [w_ "3" 7] dfx_mul;
    Scp (dh "s" false 6 9) [Def (dh "b" false 7 10) [w_ "x" 10] []] dfx_mul ].
Definition dfx_src : list obj :=
  [ Def (dh "a" false 1 1) [w_ "2" 1] [];
    Def (dh "d" false 2 2) [w_ "7" 2] [];
    Def (dh "d" false 3 3) [w_ "3" 3] [];
    Scp (dh "s" false 4 4) [Def (dh "b" false 5 4) [w_ "y" 4] []] [];
    Scp (dh "t" false 6 5) [Def (dh "c" false 7 5) [w_ "6" 5] []] [] ].
Definition dfx_defaults : list obj :=
  Eval vm_compute in match fetch ex_env ex_canon false dfx_master [] with Ok r => r | _ => [] end.
Definition dfx_result : list obj :=
  Eval vm_compute in match fetch ex_env ex_canon false dfx_master [dfx_src] with Ok r => r | _ => [] end.

Lemma dfx_D07 : D07 ex_env ex_canon dfx_master.
Proof.
  split; [|reflexivity]. unfold root_scope. apply wfd_scp.
  - vm_compute. repeat (constructor; [cbn; intuition discriminate|]). constructor.
  - intros k Hk. vm_compute in Hk. destruct Hk as [E|[E|[E|[E|[]]]]]; subst k.
    + split; [discriminate|]. split; [reflexivity|]. split; [intros H; discriminate H|].
      apply wfd_def. split; [reflexivity|]. split; [reflexivity|exact I].
    + split; [discriminate|]. split; [reflexivity|]. split; [intros H; discriminate H|].
      apply wfd_scp.
      * vm_compute. constructor; [intros []|constructor].
      * intros k Hk. vm_compute in Hk. destruct Hk as [E|[]]. subst k.
        split; [discriminate|]. split; [reflexivity|]. split; [intros H; discriminate H|].
        apply wfd_def. split; [reflexivity|]. split; [reflexivity|exact I].
    + split; [discriminate|]. split; [reflexivity|]. split.
      * intros _ chain. eexists. eexists. split; vm_compute; reflexivity.
      * apply wfd_def. split; [reflexivity|]. split; [reflexivity|exact I].
    + split; [discriminate|]. split; [reflexivity|]. split.
      * intros _ chain. eexists. eexists. split; vm_compute; reflexivity.
      * apply wfd_scp.
        -- vm_compute. constructor; [intros []|constructor].
        -- intros k Hk. vm_compute in Hk. destruct Hk as [E|[]]. subst k.
           split; [discriminate|]. split; [reflexivity|]. split; [intros H; discriminate H|].
           apply wfd_def. split; [reflexivity|]. split; [reflexivity|exact I].
Qed.

(* two master occurrences of d: the master is outside wf_master (unique sibling names) - the theorem
   does not need it *)
Lemma dfx_not_wf : ~ wf_master dfx_master.
Proof.
  intros [H _]. vm_compute in H.
  inversion H as [|x1 l1 _ H2]; subst. inversion H2 as [|x2 l2 _ H3]; subst. inversion H3 as [|x3 l3 Hn _]; subst.
  apply Hn. left. reflexivity.
Qed.

Example defaults_first_example :
  D07 ex_env ex_canon dfx_master /\ ~ wf_master dfx_master /\ srcs_have_dollar [dfx_src] = false /\
  fetch ex_env ex_canon false dfx_master [] = Ok dfx_defaults /\
  List.length dfx_defaults = 5 /\ List.length (gview (s_ "d") dfx_defaults) = 2 /\
  fetch ex_env ex_canon false dfx_master [dfx_src] = Ok dfx_result /\
  fetch ex_env ex_canon false dfx_master [dfx_defaults; dfx_src] = Ok dfx_result /\
  List.length dfx_result = 7 /\ dfx_result <> dfx_defaults.
Proof.
  assert (H0 : fetch ex_env ex_canon false dfx_master [] = Ok dfx_defaults) by (vm_compute; reflexivity).
  assert (H1 : fetch ex_env ex_canon false dfx_master [dfx_src] = Ok dfx_result) by (vm_compute; reflexivity).
  split; [exact dfx_D07|]. split; [exact dfx_not_wf|]. split; [reflexivity|].
  split; [exact H0|]. split; [reflexivity|]. split; [vm_compute; reflexivity|]. split; [exact H1|].
  split; [|split; [reflexivity|discriminate]].
  rewrite (defaults_first ex_env ex_canon dfx_master dfx_defaults [dfx_src] dfx_D07 eq_refl H0). exact H1.
Qed.
