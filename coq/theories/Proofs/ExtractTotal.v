(* C16 for the Extract model: which internal errors (Crash) extraction can end in, and that none occurs on
   trees satisfying the boolean well-formedness predicate extract_wf (fetch results of well-formed masters do).
   Every call returns: extract_obj / format_obj / join_ext are structural recursions (no fuel anywhere in this cone).

   extract_crash_kinds (no hypothesis): a Crash of extract_obj is one of
     OracleMissing   the eval oracle has no answer for a numeric text (the harness did not supply it)
     IndexError      words[0].where_str() inside an error message of a bool/int/ints/choice definition without words
                     (and of a path definition without words if os.path.expanduser refused the empty text)
     AssertionError  bool_from_words on an empty word list; "." in a parameter name (__phil_set__);
                     __phil_join__ meeting a scope_extract_list in one block and, in a later block, anything but a
                     scope_extract_list or None
     AttributeError  __phil_join__ meeting a scope_extract in one block and, in a later block, a str / a number / a plain
                     list / a word list (other_value.__dict__; None, Auto and a scope_extract_list are tolerated);
                     __phil_set__ of a .multiple object whose name already holds a non-list
   (since 3d13dfd the None placeholder of a disabled object in a later block is ignored by __phil_join__)
   Never TypeError, KeyError, ValueError, OverflowError.  A text that os.path.expanduser refuses (ValueError, e.g. a NUL
   byte after the tilde) is the user error PathRefused (repaired in 65aa99d), whatever the oracle answers.  A parameter named like an attribute of scope_extract
   (dir(scope_extract), __phil_name__ ...) and float / custom types are UErr "Unmodelled" in this model, not Crash.

   extract_total: extract_wf o = true and a total eval oracle give Ok or UErr.
   extract_wf runs the extraction on shapes instead of values (flat / None placeholder / scope_extract_list /
   scope_extract with the shapes of its fields) and checks that no step meets one of the combinations above. *)
From Coq Require Import List Ascii String Bool Arith ZArith Lia.
From Phil Require Import Base Tokenizer Tree PyVal ConvText Extract ExtractGuard ExtractPath ExtractScope ExtractScopeM.
From Phil Require Conv Choice Parser ConvProofs.
Import ListNotations.
Local Open Scope char_scope.

Definition ok_res {A} (r:res A) : Prop := match r with Crash _ => False | _ => True end.
(* a Crash, if any, is one of P *)
Definition cres {A} (P:str -> Prop) (r:res A) : Prop := match r with Crash c => P c | _ => True end.

Lemma cres_bind : forall A B (P:str -> Prop) (r:res A) (f:A -> res B),
  cres P r -> (forall a, r = Ok a -> cres P (f a)) -> cres P (bind r f).
Proof. intros A B P r f Hr Hf. destruct r; cbn in *; auto. Qed.
Lemma cres_weaken : forall A (P Q:str -> Prop) (r:res A), (forall c, P c -> Q c) -> cres P r -> cres Q r.
Proof. intros A P Q r H Hr. destruct r; cbn in *; auto. Qed.
Lemma cres_false_ok : forall A (r:res A), cres (fun _ => False) r <-> ok_res r.
Proof. intros A r. destruct r; cbn; tauto. Qed.

Definition c_oracle : str := s_ "OracleMissing".
Definition c_index : str := s_ "IndexError".
Definition c_assert : str := s_ "AssertionError".
Definition c_attr : str := s_ "AttributeError".

(* ------------------------------------------------------------------ converters *)
Section Conv.
  Variable pe : str -> option Conv.evr.

  (* crashes of a from_words call on the word list ws *)
  Definition conv_crash (ws:list word) (c:str) : Prop :=
    (c = c_oracle /\ exists s, pe s = None) \/ (ws = [] /\ (c = c_index \/ c = c_assert)).

  Lemma err_at_cres A ws k t : cres (conv_crash ws) (@Conv.err_at A ws k t).
  Proof. destruct ws; cbn; [right; auto|exact I]. Qed.
  Lemma err_at_opt_cres A ws k t : cres (conv_crash ws) (@Conv.err_at_opt A (Some ws) k t).
  Proof. apply err_at_cres. Qed.

  Lemma nfvs_cres vs ws : cres (conv_crash ws) (Conv.number_from_value_string pe vs ws).
  Proof.
    unfold Conv.number_from_value_string. destruct vs as [| |s]; try exact I.
    destruct (mems _ _); [apply err_at_cres|]. destruct (eqs _ Conv.none_s); [exact I|].
    destruct (eqs _ Conv.auto_s); [exact I|]. destruct (Conv.py_int_of_str s); [exact I|].
    destruct (pe s) as [[n| | | |]|] eqn:E; try exact I; [apply err_at_cres|]. left. split; [reflexivity|eauto].
  Qed.
  Lemma int_from_number_cres x ws : cres (conv_crash ws) (Conv.int_from_number x ws).
  Proof.
    unfold Conv.int_from_number. destruct x as [| |n|]; try apply err_at_cres.
    destruct n; try exact I; try apply err_at_cres. destruct (Conv.flt_integral m e); [exact I|apply err_at_cres].
  Qed.

  Definition int_bound (o:option Conv.num) : Prop := match o with None | Some (Conv.NInt _) => True | _ => False end.
  Lemma fmt_ok_intlike n : ConvProofs.intlike n -> Conv.value_fmt_ok true n = Ok tt.
  Proof. destruct n; try contradiction; reflexivity. Qed.
  Lemma check_value_cres lo hi v ws : ConvProofs.intlike v -> int_bound lo -> int_bound hi ->
    cres (conv_crash ws) (Conv.check_value true lo hi v (Some ws)).
  Proof.
    intros Iv Bl Bh. unfold Conv.check_value, Conv.bound_err. apply cres_bind.
    - destruct lo as [b|]; [|exact I]. destruct (negb (Conv.num_le b v)); [|exact I].
      rewrite (fmt_ok_intlike v Iv). destruct b; try contradiction. cbn [bind Conv.value_fmt_ok Conv.fmt_d_ok]. apply err_at_opt_cres.
    - intros _ _. destruct hi as [b|]; [|exact I]. destruct (negb (Conv.num_le v b)); [|exact I].
      rewrite (fmt_ok_intlike v Iv). destruct b; try contradiction. cbn [bind Conv.value_fmt_ok Conv.fmt_d_ok]. apply err_at_opt_cres.
  Qed.
  Lemma check_size_cres lo hi n ws : cres (conv_crash ws) (Conv.check_size lo hi n (Some ws)).
  Proof.
    unfold Conv.check_size. apply cres_bind.
    - destruct hi; [|exact I]. destruct (_ <? _)%Z; [apply err_at_opt_cres|exact I].
    - intros _ _. destruct lo; [|exact I]. destruct (_ <? _)%Z; [apply err_at_opt_cres|exact I].
  Qed.
  Lemma map_res_cres A B (P:str -> Prop) (f:A -> res B) l : (forall a, cres P (f a)) -> cres P (Conv.map_res f l).
  Proof.
    intro H. induction l as [|a l IH]; [exact I|]. cbn [Conv.map_res]. apply cres_bind; [apply H|]. intros b _.
    apply cres_bind; [exact IH|]. intros; exact I.
  Qed.

  Lemma x_from_number_int_cres x ws : cres (conv_crash ws) (Conv.x_from_number true x ws).
  Proof. apply int_from_number_cres. Qed.

  Lemma from_words_cres t c ws : cty_of t = Some c -> cres (conv_crash ws) (Conv.from_words pe c ws).
  Proof.
    intro H. destruct t; try discriminate; cbn [cty_of] in H; inversion H; subst c; cbn [Conv.from_words].
    - (* bool *) unfold Conv.bool_from_words. destruct (Conv.str_from_words ws); try exact I.
      destruct (mems _ Conv.falses); [exact I|]. destruct (mems _ Conv.trues); [exact I|].
      destruct ws; [right; auto|exact I].
    - (* int *) unfold Conv.number_conv_from_words, Conv.x_from_words, Conv.number_from_words.
      apply cres_bind.
      + apply cres_bind; [apply nfvs_cres|]. intros r _. destruct r; try exact I;
          (apply cres_bind; [apply x_from_number_int_cres|intros; exact I]).
      + intros v Hv. destruct v as [| |n]; [destruct allow_none; exact I|exact I|].
        apply cres_bind; [|intros; exact I].
        assert (In_ : ConvProofs.intlike n).
        { apply ConvProofs.bind_ok in Hv as (r & _ & Hr). destruct r; try discriminate;
            apply ConvProofs.bind_ok in Hr as (m & Hm & Hr); inversion Hr; subst;
            eapply ConvProofs.int_from_number_intlike; exact Hm. }
        apply check_value_cres; [exact In_| |]; cbn [Conv.vmin Conv.vmax]; [destruct vmin|destruct vmax]; exact I.
    - (* ints *) unfold Conv.numbers_conv_from_words, Conv.numbers_from_words. apply cres_bind.
      + destruct (Conv.str_from_words ws); try exact I. apply cres_bind; [|intros; exact I].
        unfold Conv.numbers_of_text. apply map_res_cres. intro a. apply nfvs_cres.
      + intros r _. destruct r; try exact I. apply cres_bind; [apply check_size_cres|]. intros _ _.
        apply cres_bind; [|intros; exact I]. apply map_res_cres. intro x. unfold Conv.conv_elem.
        destruct x as [| |n|].
        * destruct none_el; [exact I|apply err_at_cres].
        * destruct auto_el; [exact I|apply err_at_cres].
        * apply cres_bind; [apply x_from_number_int_cres|]. intros m Hm. apply cres_bind; [|intros; exact I].
          apply check_value_cres; [eapply ConvProofs.int_from_number_intlike; exact Hm| |]; cbn [Conv.lvmin Conv.lvmax];
            [destruct vmin|destruct vmax]; exact I.
        * apply cres_bind; [apply x_from_number_int_cres|]. intros m Hm. apply cres_bind; [|intros; exact I].
          apply check_value_cres; [eapply ConvProofs.int_from_number_intlike; exact Hm| |]; cbn [Conv.lvmin Conv.lvmax];
            [destruct vmin|destruct vmax]; exact I.
  Qed.

  Lemma first_line_cres ws : cres (conv_crash ws) (Choice.first_line ws).
  Proof. destruct ws; cbn; [right; auto|exact I]. Qed.
  Lemma single_loop_cres all : forall ws acc, cres (conv_crash all) (Choice.single_loop ws all acc).
  Proof.
    induction ws as [|w r IH]; intro acc; [exact I|]. cbn [Choice.single_loop].
    destruct (Choice.starts_star (wv w)); [|apply IH]. destruct acc; [|apply IH].
    apply cres_bind; [apply first_line_cres|intros; exact I].
  Qed.
  Lemma choice_from_words_cres multi opt ws : cres (conv_crash ws) (Choice.choice_from_words multi opt ws).
  Proof.
    unfold Choice.choice_from_words. destruct (Choice.is_plain_auto ws); [exact I|]. destruct multi.
    - destruct (_ && _); [|exact I]. apply cres_bind; [apply first_line_cres|intros; exact I].
    - apply cres_bind; [apply single_loop_cres|]. intros r _. destruct r; [exact I|].
      destruct (Choice.mandatory opt); [|exact I]. apply cres_bind; [apply first_line_cres|intros; exact I].
  Qed.
End Conv.

Section Def.
  Variable pe : str -> option Conv.evr.
  Variable ex : str -> option str.

  Lemma def_from_words_cres h a ws : cres (conv_crash pe ws) (def_from_words pe ex h a ws).
  Proof.
    unfold def_from_words. destruct (get_attr (s_ "type") a) as [| |b|z|s|t]; try exact I.
    destruct t; cbn [ty_from_words]; try exact I.
    - unfold path_from_words. destruct (str_from_words ws); try exact I. destruct (ex s); [exact I|apply err_at_cres].
    - cbn [cty_of]. apply cres_bind; [apply (from_words_cres pe TyBool); reflexivity|intros; exact I].
    - cbn [cty_of]. apply cres_bind; [apply (from_words_cres pe (TyInt vmin vmax allow_none)); reflexivity|intros; exact I].
    - cbn [cty_of]. apply cres_bind;
        [apply (from_words_cres pe (TyInts smin smax vmin vmax none_el auto_el)); reflexivity|intros; exact I].
    - apply cres_bind; [apply choice_from_words_cres|intros; exact I].
  Qed.

  Definition oracle_total : Prop := forall s, pe s <> None.

  Lemma def_total h a ws : def_wf ws a = true -> oracle_total -> ok_res (def_from_words pe ex h a ws).
  Proof.
    intros W O. pose proof (def_from_words_cres h a ws) as C.
    destruct (def_from_words pe ex h a ws) as [v|k t l|c] eqn:E; try exact I. cbn in C.
    destruct C as [[_ [s Hs]]|[Hw _]]; [exact (O s Hs)|]. subst ws.
    unfold def_wf in W. cbn [negb orb] in W. rewrite orb_false_r in W. apply negb_true_iff in W.
    unfold def_from_words in E. unfold needs_words in W.
    destruct (get_attr (s_ "type") a) as [| |b|z|s|t]; try discriminate.
    destruct t; try discriminate; cbn [ty_from_words] in E; discriminate.
  Qed.
End Def.

(* ------------------------------------------------------------------ (1) crash kinds of __phil_join__, __phil_set__, extraction *)
Definition struct_crash (c:str) : Prop := c = c_assert \/ c = c_attr.

Lemma join_ext_cres : forall oe self, cres struct_crash (join_ext oe self).
Proof.
  intro oe.
  assert (P : forall v, match v with VScope oe => forall self, cres struct_crash (join_ext oe self) | _ => True end).
  { induction v as [| |s|n|l IHl|l|n fs IHf|o l IHl] using pyval_ind2; try exact I.
    intro self. cbn [join_ext]. revert self. induction fs as [|[key ov] r IHr]; intro self; [exact I|].
    inversion IHf as [|? ? Hov Hr]; subst. specialize (IHr Hr).
    destruct (Parser.reserved key); [apply IHr|].
    destruct (fget key self) as [sv|]; [|apply IHr].
    destruct sv as [| |s|nn|l|l|[n' sf]|o l]; try apply IHr.
    - destruct ov as [| |s|nn|l|l|oe'|o l]; try (right; reflexivity); try apply IHr.
      apply cres_bind; [apply (Hov sf)|]. intros; apply IHr.
    - destruct ov; try (left; reflexivity); apply IHr. }
  exact (P (VScope oe)).
Qed.

Lemma phil_set_cres fs name opt mult value : cres struct_crash (phil_set fs name opt mult value).
Proof.
  unfold phil_set. destruct (has_dot name); [left; reflexivity|].
  destruct (getattr fs name) as [| |node]; try exact I.
  - (* missing *) destruct mult; cbn [negb].
    + destruct value as [v|]; [|exact I]. destruct (not_none v || negb (is_true opt)); exact I.
    + destruct value as [v|]; [destruct v|]; exact I.
  - destruct mult; cbn [negb].
    + destruct node; destruct value as [v|]; try exact I;
        destruct (not_none v || negb (is_true opt)); try exact I; right; reflexivity.
    + destruct value as [v|]; [|exact I].
      destruct node as [| |s|nn|l|l|[n' sf]|o l]; try exact I.
      destruct v as [| |s|nn|l|l|oe|o l]; try exact I.
      apply cres_bind; [apply join_ext_cres|intros; exact I].
Qed.

Section Kinds.
  Variable pe : str -> option Conv.evr.
  Variable ex : str -> option str.

  Definition extract_crash (c:str) : Prop :=
    (c = c_oracle /\ exists s, pe s = None) \/ c = c_index \/ c = c_assert \/ c = c_attr.

  Theorem extract_crash_kinds : forall o c, extract_obj pe ex o = Crash c -> extract_crash c.
  Proof.
    assert (G : forall o, cres extract_crash (extract_obj pe ex o)).
    { induction o as [h ws a|h ks a IH] using obj_ind2.
      - cbn [extract_obj]. eapply cres_weaken; [|apply def_from_words_cres].
        intros c [[E S]|[_ [E|E]]]; unfold extract_crash; auto.
      - rewrite extract_scp. apply cres_bind; [|intros; exact I].
        assert (L : forall acc, cres extract_crash (ext_loop pe ex ks acc)).
        { induction ks as [|k r IHr]; intro acc; [exact I|]. inversion IH as [|? ? Hk Hr]; subst.
          cbn [ext_loop]. destruct (otmpl (ohdr k) <? 0)%Z; [apply IHr; exact Hr|].
          apply cres_bind.
          - destruct (odis (ohdr k) || (0 <? otmpl (ohdr k))%Z); [exact I|]. apply cres_bind; [exact Hk|intros; exact I].
          - intros value _. apply cres_bind; [|intros; apply IHr; exact Hr].
            eapply cres_weaken; [|apply phil_set_cres]. intros c [E|E]; unfold extract_crash; auto. }
        apply L. }
    intros o c H. specialize (G o). rewrite H in G. exact G.
  Qed.
End Kinds.

(* ------------------------------------------------------------------ (2) shapes *)
(* what __phil_set__ / __phil_join__ look at: is the value a scope_extract (with which fields), a
   scope_extract_list, the placeholder None of a disabled object, or anything else *)
Fixpoint has_shape (v:pyval) (s:shp) {struct v} : Prop :=
  match s, v with
  | HFlat, (VScope _ | VScopeList _ _) => False
  | HFlat, _ => True
  | HNone, VNone => True
  | HNone, _ => False
  | HSList, VScopeList _ _ => True
  | HSList, _ => False
  | HScope sf, VScope (Ext _ vf) =>
      (fix go (vf:fields_t) (sf:sfields) : Prop :=
         match vf, sf with
         | [], [] => True
         | (k, x) :: vr, (k', s') :: sr => k = k' /\ has_shape x s' /\ go vr sr
         | _, _ => False
         end) vf sf
  | HScope _, _ => False
  end.
Definition hs (vf:fields_t) (sf:sfields) : Prop :=
  Forall2 (fun kv ks => fst kv = fst ks /\ has_shape (snd kv) (snd ks)) vf sf.
Lemma has_shape_scope n vf sf : has_shape (VScope (Ext n vf)) (HScope sf) <-> hs vf sf.
Proof.
  cbn [has_shape]. revert sf. induction vf as [|[k x] vr IH]; intros [|[k' s'] sr]; split; intro H.
  - constructor.
  - exact I.
  - destruct H.
  - inversion H.
  - destruct H.
  - inversion H.
  - destruct H as [E [Hx Hr]]. constructor; [split; [exact E|exact Hx]|apply IH; exact Hr].
  - inversion H as [|? ? ? ? [E Hx] Hr]; subst. cbn [fst snd] in *. split; [exact E|split; [exact Hx|apply IH; exact Hr]].
Qed.

(* the dicts in step *)
Lemma hs_get k vf sf : hs vf sf ->
  (fget k vf = None /\ aget k sf = None) \/ exists x s, fget k vf = Some x /\ aget k sf = Some s /\ has_shape x s.
Proof.
  induction 1 as [|[k1 x] [k2 s] vr sr [E Hx] _ IH]; [left; split; reflexivity|]. cbn [fst snd] in *. subst k2.
  cbn [fget aget]. destruct (eqs k1 k); [right; eauto|exact IH].
Qed.
Lemma hs_set k x s vf sf : hs vf sf -> has_shape x s -> hs (fset k x vf) (aset k s sf).
Proof.
  intros H Hx. induction H as [|[k1 x1] [k2 s1] vr sr [E Hx1] Ht IH]; cbn [fset aset].
  - constructor; [split; [reflexivity|exact Hx]|constructor].
  - cbn [fst snd] in *. subst k2. destruct (eqs k1 k).
    + constructor; [split; [reflexivity|exact Hx]|exact Ht].
    + constructor; [split; [reflexivity|exact Hx1]|exact IH].
Qed.
Lemma aset_same {A} k (s:A) sf : aget k sf = Some s -> aset k s sf = sf.
Proof.
  induction sf as [|[k1 s1] sr IH]; [discriminate|]. cbn [aget aset]. destruct (eqs k1 k) eqn:E.
  - intro H. inversion H; subst. reflexivity.
  - intro H. rewrite IH by exact H. reflexivity.
Qed.
Lemma hs_update k x s vf sf : hs vf sf -> aget k sf = Some s -> has_shape x s -> hs (fset k x vf) sf.
Proof. intros H G Hx. rewrite <- (aset_same k s sf G). apply hs_set; assumption. Qed.

Lemma ajoin_nil self : ajoin [] self = Some self.
Proof. reflexivity. Qed.
Lemma ajoin_cons key os r self :
  ajoin ((key, os) :: r) self =
    if Parser.reserved key then ajoin r self else
    match aget key self with
    | None | Some HFlat | Some HNone => ajoin r (aset key os self)
    | Some HSList => match os with HSList | HNone => ajoin r self | _ => None end
    | Some (HScope sf0) =>
        match os with
        | HScope of0 => match ajoin of0 sf0 with Some sf1 => ajoin r (aset key (HScope sf1) self) | None => None end
        | HSList | HNone => ajoin r self
        | _ => None
        end
    end.
Proof.
  unfold ajoin. cbn [ajoin_s]. destruct (Parser.reserved key); [reflexivity|].
  destruct (aget key self) as [[| | |sf0]|]; try reflexivity. destruct os; reflexivity.
Qed.

Lemma join_sound : forall oe,
  forall ofs self sf sf', hs (ext_fields oe) ofs -> hs self sf -> ajoin ofs sf = Some sf' ->
  exists self', join_ext oe self = Ok self' /\ hs self' sf'.
Proof.
  intro oe.
  assert (P : forall v, match v with
                        | VScope oe => forall ofs self sf sf', hs (ext_fields oe) ofs -> hs self sf -> ajoin ofs sf = Some sf' ->
                                         exists self', join_ext oe self = Ok self' /\ hs self' sf'
                        | _ => True end).
  { induction v as [| |s|n|l IHl|l|n fs IHf|o l IHl] using pyval_ind2; try exact I.
    cbn [ext_fields join_ext]. intros ofs. revert ofs.
    induction fs as [|[key ov] r IHr]; intros ofs self sf sf' Ho Hs A.
    - inversion Ho; subst. rewrite ajoin_nil in A. inversion A; subst. eauto.
    - inversion Ho as [|? [key' os] ? osr [Ek Hov] Hor]; subst. cbn [fst snd] in *. subst key'.
      inversion IHf as [|? ? Pov Pr]; subst. specialize (IHr Pr). rewrite ajoin_cons in A.
      destruct (Parser.reserved key); [apply (IHr osr self sf sf' Hor Hs A)|].
      destruct (hs_get key self sf Hs) as [[G1 G2]|[x [s [G1 [G2 Gx]]]]]; rewrite G1; rewrite G2 in A.
      + apply (IHr osr (fset key ov self) (aset key os sf) sf' Hor); [apply hs_set; assumption|exact A].
      + destruct s as [| | |sf0].
        * (* flat: replaced (or set, if it is None) *)
          assert (Set_ : hs (fset key ov self) (aset key os sf)) by (apply hs_set; assumption).
          destruct x; try contradiction; apply (IHr osr _ _ sf' Hor Set_ A).
        * destruct x; try contradiction. apply (IHr osr _ _ sf' Hor (hs_set key ov os self sf Hs Hov) A).
        * destruct x as [| | | | | | |o l]; try contradiction. destruct os; try discriminate.
          { destruct ov; try contradiction. apply (IHr osr self sf sf' Hor Hs A). }
          destruct ov as [| | | | | | |o' l']; try contradiction.
          refine (IHr osr _ sf sf' Hor _ A). apply (hs_update key _ HSList _ _ Hs G2). exact I.
        * destruct x as [| | | | | |[n' vf0]|]; try contradiction. apply has_shape_scope in Gx.
          destruct os as [| | |of0]; try discriminate.
          -- destruct ov; try contradiction. apply (IHr osr self sf sf' Hor Hs A).
          -- destruct ov as [| | | | | | |o' l']; try contradiction. apply (IHr osr self sf sf' Hor Hs A).
          -- destruct ov as [| | | | | |[n2 ovf]|]; try contradiction. apply has_shape_scope in Hov.
             destruct (ajoin of0 sf0) as [sf1|] eqn:J; [|discriminate].
             destruct (Pov of0 vf0 sf0 sf1 Hov Gx J) as [vf1 [J1 H1]]. rewrite J1. cbn [bind].
             refine (IHr osr _ _ sf' Hor _ A). apply hs_set; [exact Hs|]. apply has_shape_scope. exact H1. }
  exact (P (VScope oe)).
Qed.

Lemma phil_set_sound vf sf name opt mult value vshape sf' :
  hs vf sf ->
  match value, vshape with
  | None, None => True
  | Some v, Some s => has_shape v s
  | _, _ => False
  end ->
  aphil_set sf name mult vshape = Some sf' ->
  ok_res (phil_set vf name opt mult value) /\ forall vf', phil_set vf name opt mult value = Ok vf' -> hs vf' sf'.
Proof.
  intros Hs Hv A. unfold aphil_set in A. unfold phil_set. destruct (has_dot name); [discriminate|].
  unfold getattr.
  destruct (hs_get name vf sf Hs) as [[G1 G2]|[x [s [G1 [G2 Gx]]]]]; rewrite G1; rewrite G2 in A.
  - (* no such attribute *)
    destruct (builtin_attr name); [split; [exact I|discriminate]|].
    destruct mult; cbn [negb] in *.
    + assert (L : hs (fset name (VScopeList opt []) vf) (aset name HSList sf)) by (apply hs_set; [exact Hs|exact I]).
      destruct value as [v|]; destruct vshape as [s|]; try contradiction; cbn in A; inversion A; subst.
      * destruct (not_none v || negb (is_true opt)).
        -- split; [exact I|]. intros vf' E. inversion E; subst.
           apply (hs_update name _ HSList _ _ L); [apply aget_aset_same|exact I].
        -- split; [exact I|]. intros vf' E. inversion E; subst. exact L.
      * split; [exact I|]. intros vf' E. inversion E; subst. exact L.
    + destruct value as [v|]; destruct vshape as [s|]; try contradiction.
      * assert (A' : Some (aset name s sf) = Some sf') by (destruct s; exact A). inversion A'; subst.
        assert (R : hs (fset name v vf) (aset name s sf)) by (apply hs_set; assumption).
        destruct v; (split; [exact I|intros vf' E; inversion E; subst; exact R]).
      * inversion A; subst. split; [exact I|]. intros vf' E. inversion E; subst. apply hs_set; [exact Hs|exact I].
  - destruct mult; cbn [negb] in *.
    + (* .multiple, the attribute exists *)
      destruct value as [v|]; destruct vshape as [sv|]; try contradiction.
      2:{ (* disabled: the attribute is left alone *)
          cbn in A. inversion A; subst. split; [exact I|]. intros vf' E. inversion E; subst. exact Hs. }
      destruct s as [| | |sf0]; cbn in A; try discriminate.
      * destruct x; try contradiction. inversion A; subst.
        assert (L : hs (fset name (VScopeList opt []) vf) (aset name HSList sf)) by (apply hs_set; [exact Hs|exact I]).
        assert (Ag : aget name (aset name HSList sf) = Some HSList) by apply aget_aset_same.
        destruct (not_none v || negb (is_true opt)); split; try exact I; intros vf' E; inversion E; subst;
          [apply (hs_update name _ HSList _ _ L Ag); exact I|exact L].
      * destruct x as [| | | | | | |o l]; try contradiction. inversion A; subst.
        destruct (not_none v || negb (is_true opt)); split; try exact I; intros vf' E; inversion E; subst;
          [apply (hs_update name _ HSList _ _ Hs G2); exact I|exact Hs].
    + (* not .multiple, the attribute exists *)
      destruct value as [v|]; destruct vshape as [sv|]; try contradiction.
      * assert (Plain : forall sf'', Some (aset name sv sf) = Some sf'' ->
                  (forall n0 e0, x = VScope (Ext n0 e0) -> forall oe, v <> VScope oe) ->
                  ok_res (match x, v with
                          | VScope (Ext n sf0), VScope oe => do sf1 <- join_ext oe sf0; Ok (fset name (VScope (Ext n sf1)) vf)
                          | _, _ => Ok (fset name v vf) end)
                  /\ forall vf', (match x, v with
                          | VScope (Ext n sf0), VScope oe => do sf1 <- join_ext oe sf0; Ok (fset name (VScope (Ext n sf1)) vf)
                          | _, _ => Ok (fset name v vf) end) = Ok vf' -> hs vf' sf'').
        { intros sf'' E N. inversion E; subst.
          assert (R : hs (fset name v vf) (aset name sv sf)) by (apply hs_set; assumption).
          destruct x as [| | | | | |[n0 e0]|]; try (split; [exact I|intros vf' Q; inversion Q; subst; exact R]).
          destruct v as [| | | | | |oe|]; try (split; [exact I|intros vf' Q; inversion Q; subst; exact R]).
          exfalso. eapply N; reflexivity. }
        destruct sv as [| | |of0].
        -- apply Plain; [destruct s; exact A|]. intros n0 e0 _ oe E. subst v. contradiction.
        -- apply Plain; [destruct s; exact A|]. intros n0 e0 _ oe E. subst v. contradiction.
        -- apply Plain; [destruct s; exact A|]. intros n0 e0 _ oe E. subst v. contradiction.
        -- destruct s as [| | |sf0]; try (apply Plain; [exact A|]; intros n0 e0 E; subst x; contradiction).
           destruct x as [| | | | | |[n0 vf0]|]; try contradiction. destruct v as [| | | | | |[n1 ovf]|]; try contradiction.
           apply has_shape_scope in Gx. apply has_shape_scope in Hv.
           destruct (ajoin of0 sf0) as [sf1|] eqn:J; [|discriminate]. inversion A; subst.
           destruct (join_sound (Ext n1 ovf) of0 vf0 sf0 sf1 Hv Gx J) as [vf1 [J1 H1]]. rewrite J1. cbn [bind].
           split; [exact I|]. intros vf' E. inversion E; subst. apply hs_set; [exact Hs|]. apply has_shape_scope. exact H1.
      * inversion A; subst. split; [exact I|]. intros vf' E. inversion E; subst. exact Hs.
Qed.

(* ------------------------------------------------------------------ extraction on shapes *)
Section Total.
  Variable pe : str -> option Conv.evr.
  Variable ex : str -> option str.
  Hypothesis O : oracle_total pe.

  Lemma flat_shape v : flatv v -> has_shape v HFlat.
  Proof. intros [_ [T S]]. destruct v as [| | | | | |[n fs]|o l]; try exact I; [discriminate T|exact (S o l eq_refl)]. Qed.

  Theorem extract_sound : forall o s, ashape o = Some s ->
    ok_res (extract_obj pe ex o) /\ forall v, extract_obj pe ex o = Ok v -> has_shape v s.
  Proof.
    induction o as [h ws a|h ks a IH] using obj_ind2; intros s A.
    - cbn [ashape] in A. destruct (def_wf ws a) eqn:W; [|discriminate]. inversion A; subst. cbn [extract_obj]. split.
      + apply def_total; assumption.
      + intros v E. apply flat_shape. eapply def_value_flat. exact E.
    - cbn [ashape] in A. rewrite extract_scp.
      match type of A with option_map HScope (?go ks []) = _ => set (aloop := go) in A end.
      destruct (aloop ks []) as [sf|] eqn:L; [|discriminate]. cbn [option_map] in A. inversion A; subst s. clear A.
      assert (G : forall l acc sacc sf', Forall (fun k => forall s, ashape k = Some s ->
                      ok_res (extract_obj pe ex k) /\ forall v, extract_obj pe ex k = Ok v -> has_shape v s) l ->
                    hs acc sacc -> aloop l sacc = Some sf' ->
                    ok_res (ext_loop pe ex l acc) /\ forall out, ext_loop pe ex l acc = Ok out -> hs out sf').
      { induction l as [|k r IHr]; intros acc sacc sf' Fl Ha Al.
        - cbn in Al. inversion Al; subst. cbn [ext_loop]. split; [exact I|]. intros out E. inversion E; subst. exact Ha.
        - inversion Fl as [|? ? Pk Pr]; subst. cbn [aloop] in Al. fold aloop in Al. cbn [ext_loop].
          destruct (otmpl (ohdr k) <? 0)%Z; [apply (IHr acc sacc sf' Pr Ha Al)|].
          destruct (odis (ohdr k) || (0 <? otmpl (ohdr k))%Z).
          + cbn [bind]. destruct (aphil_set sacc (oname (ohdr k)) (omultiple k) None) as [sacc'|] eqn:S; [|discriminate].
            destruct (phil_set_sound acc sacc (oname (ohdr k)) (ooptional k) (omultiple k) None None sacc' Ha I S) as [Ok1 Sh1].
            destruct (phil_set acc (oname (ohdr k)) (ooptional k) (omultiple k) None) as [acc'| |] eqn:Ps;
              try (split; [exact I|discriminate]); [|destruct Ok1].
            cbn [bind]. apply (IHr acc' sacc' sf' Pr (Sh1 acc' eq_refl) Al).
          + destruct (ashape k) as [sk|] eqn:Ak; [|discriminate].
            destruct (Pk sk eq_refl) as [Okk Shk].
            destruct (extract_obj pe ex k) as [vk| |] eqn:Ek; try (split; [exact I|discriminate]); [|destruct Okk].
            cbn [bind].
            destruct (aphil_set sacc (oname (ohdr k)) (omultiple k) (Some sk)) as [sacc'|] eqn:S; [|discriminate].
            destruct (phil_set_sound acc sacc (oname (ohdr k)) (ooptional k) (omultiple k) (Some vk) (Some sk) sacc' Ha
                        (Shk vk eq_refl) S) as [Ok1 Sh1].
            destruct (phil_set acc (oname (ohdr k)) (ooptional k) (omultiple k) (Some vk)) as [acc'| |] eqn:Ps;
              try (split; [exact I|discriminate]); [|destruct Ok1].
            cbn [bind]. apply (IHr acc' sacc' sf' Pr (Sh1 acc' eq_refl) Al). }
      destruct (G ks [] [] sf IH (Forall2_nil _) L) as [Ok1 Sh1].
      destruct (ext_loop pe ex ks []) as [fs| |] eqn:E; cbn [bind]; try (split; [exact I|discriminate]); [|destruct Ok1].
      split; [exact I|]. intros v Ev. inversion Ev; subst. apply has_shape_scope. apply Sh1. reflexivity.
  Qed.

  (* (2) no internal error on well-formed trees *)
  Theorem extract_total : forall o, extract_wf o = true -> ok_res (extract_obj pe ex o).
  Proof.
    intros o W. unfold extract_wf in W. destruct (ashape o) as [s|] eqn:A; [|discriminate].
    apply (extract_sound o s A).
  Qed.
End Total.

(* ------------------------------------------------------------------ (3) formatting a value of the master's domain *)
Theorem format_total : forall pe ex m p, wf_m m -> pdom_m pe ex m p -> ok_res (format_obj m p).
Proof.
  intros pe ex m p W D. destruct (scope_roundtrip_multi pe ex m p W D) as [t [F _]]. rewrite F. exact I.
Qed.
(* and extracting what was formatted *)
Theorem format_extract_total : forall pe ex m p, wf_m m -> pdom_m pe ex m p ->
  exists t, format_obj m p = Ok t /\ ok_res (extract_obj pe ex t).
Proof.
  intros pe ex m p W D. destruct (scope_roundtrip_multi pe ex m p W D) as [t [F [E _]]]. exists t. rewrite E. split; [exact F|exact I].
Qed.

(* ------------------------------------------------------------------ examples *)
Definition tw (v:String.string) : word := mkword (s_ v) QN 1.
Definition tdef (n:String.string) (v:String.string) (a:attrs) : obj := Def (mkhdr (s_ n) false 0 false 1 1) [tw v] a.
Definition tscope (n:String.string) (dis:bool) (ks:list obj) (a:attrs) : obj := Scp (mkhdr (s_ n) dis 0 false 1 1) ks a.
Definition multi : attrs := [(s_ "multiple", ABool true)].

(* a scope written in two blocks, a multiple scope with a hidden template and two instances, a multiple definition *)
Definition ex_ok : obj :=
  tscope "" false [
    tscope "job" false [tdef "a" "1" []] [];
    tscope "job" false [tdef "__x" "3" [(s_ "type", AType (TyInt None None true))]; tscope "t" false [tdef "c" "x" []] []] [];
    tscope "job" false [tscope "t" false [tdef "d" "y" []] []] [];
    Scp (mkhdr (s_ "s") false (-1) false 1 1) [tdef "b" "0" []] multi;
    tscope "s" false [tdef "b" "1" []] multi;
    tscope "s" false [tdef "b" "2" []] multi;
    tdef "m" "1" multi; tdef "m" "2" multi] [].
Example extract_wf_example : extract_wf ex_ok = true.
Proof. vm_compute. reflexivity. Qed.

(* repaired in 3d13dfd (formerly the finding C16-join-disabled): a scope in two blocks, the later block holding a
   DISABLED object whose name is a scope (or a .multiple list) of the earlier block - the placeholder is ignored *)
Definition ex_disabled_in_later_block : obj :=
  tscope "" false [
    tscope "s" false [tscope "t" false [tdef "a" "1" []] []; tdef "m" "1" multi] [];
    tscope "s" false [tscope "t" true [tdef "b" "2" []] []; Def (mkhdr (s_ "m") true 0 false 1 1) [tw "2"] []] []] [].
Example disabled_in_later_block_ok :
  extract_wf ex_disabled_in_later_block = true
  /\ extract_obj (fun _ => None) (fun s => Some s) ex_disabled_in_later_block
     = Ok (VScope (Ext [] [(s_ "s", VScope (Ext (s_ "s")
            [(s_ "t", VScope (Ext (s_ "t") [(s_ "a", VList [VStr (s_ "1")])]));
             (s_ "m", VScopeList ANone [VList [VStr (s_ "1")]])]))])).
Proof. split; vm_compute; reflexivity. Qed.

(* repaired in ceef076: a disabled .multiple object after an active non-multiple namesake holding None leaves it None *)
Example disabled_multiple_after_none_ok :
  let t := tscope "" false [tdef "c" "None" [(s_ "type", AType TyPath)];
                            Def (mkhdr (s_ "c") true 0 false 1 1) [tw "x"] multi] [] in
  extract_wf t = true
  /\ extract_obj (fun _ => None) (fun s => Some s) t = Ok (VScope (Ext [] [(s_ "c", VNone)])).
Proof. split; vm_compute; reflexivity. Qed.

(* what still raises: blocks of one scope that disagree in kind (a scope here, a definition there) ... *)
Example kind_disagreement_crashes :
  let t := tscope "" false [tscope "s" false [tscope "t" false [tdef "a" "1" []] []] [];
                            tscope "s" false [tdef "t" "5" []] []] [] in
  extract_wf t = false /\ extract_obj (fun _ => None) (fun s => Some s) t = Crash c_attr.
Proof. split; vm_compute; reflexivity. Qed.
(* ... or in .multiple *)
Example multiple_disagreement_crashes :
  let t := tscope "" false [tscope "s" false [tdef "a" "1" multi] [];
                            tscope "s" false [tdef "a" "x" []] []] [] in
  extract_wf t = false /\ extract_obj (fun _ => None) (fun s => Some s) t = Crash c_assert.
Proof. split; vm_compute; reflexivity. Qed.

Print Assumptions extract_crash_kinds.
Print Assumptions extract_total.
Print Assumptions extract_sound.
Print Assumptions format_total.
Print Assumptions format_extract_total.
