(* Token-level facts about the tokenizer model: layout insensitivity (C02) and line accounting (C15). *)
From Coq Require Import List Ascii String Bool Arith Lia.
From Phil Require Import Base Tokenizer.
Import ListNotations.
Local Open Scope char_scope.

Lemma count_nl_app a b : count_nl (a ++ b) = count_nl a + count_nl b.
Proof. induction a as [|c a IH]; cbn [app count_nl]; [reflexivity|rewrite IH; lia]. Qed.

Definition nlc (c:ascii) : nat := if Ascii.eqb c nl then 1 else 0.
Lemma count_nl_cons c s : count_nl (c :: s) = nlc c + count_nl s.
Proof. reflexivity. Qed.
Lemma count_nl_nil : count_nl [] = 0.
Proof. reflexivity. Qed.
Lemma bump_count c line : bump c line = line + nlc c.
Proof. unfold bump, nlc. destruct (Ascii.eqb c nl); lia. Qed.
Lemma nlc_not_nl c : Ascii.eqb c nl = false -> nlc c = 0.
Proof. unfold nlc; intros ->; reflexivity. Qed.
Lemma nlc_nl c : Ascii.eqb c nl = true -> nlc c = 1.
Proof. unfold nlc; intros ->; reflexivity. Qed.
Ltac cnt := rewrite ?bump_count in *; repeat (progress (rewrite ?count_nl_app, ?count_nl_cons, ?count_nl_nil in * )); try lia.

(* ---------- blank runs are irrelevant (any settings) *)
Lemma nw_skip_blanks : forall σ blanks s line,
  forallb isspace blanks = true ->
  nw σ false (blanks ++ s) line = nw σ false s (line + count_nl blanks).
Proof.
  intros σ blanks; induction blanks as [|c b IH]; intros s line H.
  - cbn [app]. cnt. rewrite Nat.add_0_r. reflexivity.
  - cbn [forallb] in H. apply andb_prop in H as [Hc Hb].
    cbn [app nw]. rewrite Hc. rewrite IH by exact Hb.
    f_equal. cnt.
Qed.

(* ---------- a comment runs to the end of its line *)
Lemma nw_in_comment : forall σ body s line,
  mem nl body = false ->
  nw σ true (body ++ nl :: s) line = nw σ false s (S line).
Proof.
  intros σ body; induction body as [|c b IH]; intros s line H.
  - cbn [app nw]. rewrite Ascii.eqb_refl. cbn [negb]. unfold bump. rewrite Ascii.eqb_refl. reflexivity.
  - cbn [mem] in H. apply Bool.orb_false_iff in H as [Hc Hb].
    cbn [app nw]. rewrite Ascii.eqb_sym in Hc. rewrite Hc. cbn [negb].
    unfold bump. rewrite Hc. apply IH; exact Hb.
Qed.

(* structure context: '#' not followed by "phil" starts a comment *)
Lemma nw_s0_comment : forall body s line,
  mem nl body = false -> prefixb (s_ "phil") (body ++ nl :: s) = false ->
  nw s0 false ("#" :: body ++ nl :: s) line = nw s0 false s (S line).
Proof.
  intros body s line Hb Hp.
  cbn [nw]. change (isspace "#") with false. cbv iota.
  change (mem "#" (comment s0)) with true. cbn [andb meta s0].
  change ["p";"h";"i";"l"] with (s_ "phil"). rewrite Hp. cbn [negb].
  change (bump "#" line) with line.
  apply nw_in_comment; exact Hb.
Qed.

(* ---------- line accounting *)
Lemma scan_lines : forall triple q s line v r l', Ascii.eqb q nl = false ->
  scan triple q s line = inl (v, r, l') -> exists pre, s = pre ++ r /\ l' = line + count_nl pre.
Proof.
  intros triple q s line v r l' Hqn; revert line v r l'; remember (length s) as n eqn:Hn. revert s Hn.
  induction n as [n IHn] using lt_wf_ind; intros s Hn line v r l' H.
  destruct s as [|c s]; [discriminate|].
  cbn [scan] in H.
  assert (Hstep : forall x s' line1 v r l', length s' < n ->
            scons x (scan triple q s' line1) = inl (v, r, l') ->
            exists pre, s' = pre ++ r /\ l' = line1 + count_nl pre).
  { intros x s' line1 v0 r0 l0 Hlt Hs. unfold scons in Hs.
    destruct (scan triple q s' line1) as [[[v1 r1] l1]|] eqn:E; [|discriminate].
    inversion Hs; subst. eapply IHn; [exact Hlt|reflexivity|exact E]. }
  assert (Hlen : length s < n) by (subst n; cbn; lia).
  assert (Hmain : scons c (scan triple q s (bump c line)) = inl (v, r, l') ->
                  exists pre, c :: s = pre ++ r /\ l' = line + count_nl pre).
  { intros H'. destruct (Hstep _ _ _ _ _ _ Hlen H') as (pre & Hp & Hl). exists (c :: pre).
    split; [cbn; f_equal; exact Hp|]. cnt. }
  destruct (Ascii.eqb c q) eqn:Ecq.
  - destruct triple; cbn [negb] in H.
    + destruct s as [|q1 [|q2 s']]; try (apply Hmain; exact H).
      destruct (Ascii.eqb q1 q && Ascii.eqb q2 q) eqn:E2; [|apply Hmain; exact H].
      inversion H; subst. apply andb_prop in E2 as [E21 E22].
      apply Ascii.eqb_eq in E21, E22, Ecq. subst.
      exists [q;q;q]. split; [reflexivity|]. cnt. rewrite (nlc_not_nl _ Hqn). lia.
    + inversion H; subst. exists [c]. split; [reflexivity|]. cnt.
  - destruct (Ascii.eqb c bs) eqn:Ecb; [|apply Hmain; exact H].
    destruct s as [|d s']; [apply Hmain; exact H|].
    assert (Hlen' : length s' < n) by (cbn in Hlen; lia).
    destruct (Ascii.eqb d bs) eqn:Edb.
    + destruct (Hstep _ _ _ _ _ _ Hlen' H) as (pre & Hp & Hl). exists (c :: d :: pre).
      split; [cbn; do 2 f_equal; exact Hp|].
      apply Ascii.eqb_eq in Edb; subst d. cnt. change (nlc bs) with 0. lia.
    + destruct (Ascii.eqb d q) eqn:Edq.
      * destruct (Hstep _ _ _ _ _ _ Hlen' H) as (pre & Hp & Hl). exists (c :: d :: pre).
        split; [cbn; do 2 f_equal; exact Hp|]. cnt.
      * destruct (Ascii.eqb d nl) eqn:Edn; [|apply Hmain; exact H].
        destruct (IHn (length s') Hlen' s' eq_refl _ _ _ _ H) as (pre & Hp & Hl). exists (c :: d :: pre).
        split; [cbn; do 2 f_equal; exact Hp|]. cnt. rewrite (nlc_nl _ Edn). lia.
Qed.
Lemma take_split : forall σ s w r, take σ s = (w, r) -> s = w ++ r /\ count_nl w = 0.
Proof.
  intros σ s; induction s as [|c s IH]; intros w r H.
  - cbn in H. inversion H; subst. split; reflexivity.
  - cbn [take] in H.
    destruct (isspace c) eqn:Es; [inversion H; subst; split; reflexivity|].
    destruct (mem c (single σ)); [inversion H; subst; split; reflexivity|].
    match type of H with (if ?b then _ else _) = _ => destruct b end; [inversion H; subst; split; reflexivity|].
    destruct (take σ s) as [w' r'] eqn:E. inversion H; subst.
    destruct (IH _ _ eq_refl) as [Hs Hc]. split; [cbn; f_equal; exact Hs|].
    cnt. rewrite Hc.
    assert (En : Ascii.eqb c nl = false).
    { destruct (Ascii.eqb c nl) eqn:En; [|reflexivity]. apply Ascii.eqb_eq in En; subst c. discriminate Es. }
    rewrite (nlc_not_nl _ En). reflexivity.
Qed.

Lemma quoted_word_lines : forall triple c body line1 w r l', Ascii.eqb c nl = false ->
  quoted_word triple c body line1 = TWord w r l' ->
  wline w = line1 /\ exists pre, body = pre ++ r /\ l' = line1 + count_nl pre.
Proof.
  intros triple c body line1 w r l' Hcn H. unfold quoted_word in H.
  destruct (scan triple c body line1) as [[[v r1] l1]|] eqn:E; [|discriminate].
  inversion H; subst. split; [reflexivity|]. eapply scan_lines; [exact Hcn|exact E].
Qed.

Lemma not_space_not_nl c : isspace c = false -> Ascii.eqb c nl = false.
Proof. intros Es. destruct (Ascii.eqb c nl) eqn:En; [|reflexivity]. apply Ascii.eqb_eq in En; subst c. discriminate Es. Qed.

(* every word reports the line on which its first character stands, whatever precedes it, and the
   position after it has advanced by exactly the newlines consumed *)
Theorem nw_lines : forall σ ic s line w r l',
  nw σ ic s line = TWord w r l' ->
  exists pre body, s = pre ++ body ++ r
                   /\ wline w = line + count_nl pre
                   /\ l' = line + count_nl (pre ++ body)
                   /\ body <> [].
Proof.
  intros σ ic s; revert ic; induction s as [|c s IH]; intros ic line w r l' H.
  - discriminate.
  - cbn [nw] in H.
    assert (Hrec : forall ic', nw σ ic' s (bump c line) = TWord w r l' ->
              exists pre body, c :: s = pre ++ body ++ r /\ wline w = line + count_nl pre
                               /\ l' = line + count_nl (pre ++ body) /\ body <> []).
    { intros ic' H'. destruct (IH _ _ _ _ _ H') as (pre & body & Hs & Hw & Hl & Hb).
      exists (c :: pre), body. split; [cbn; f_equal; exact Hs|].
      cnt. repeat split; try assumption; lia. }
    destruct ic; [eapply Hrec; exact H|].
    destruct (isspace c) eqn:Esp; [eapply Hrec; exact H|].
    match type of H with (if ?b then _ else _) = _ => destruct b end; [eapply Hrec; exact H|].
    pose proof (not_space_not_nl _ Esp) as Hnl.
    assert (Hb : bump c line = line) by (unfold bump; rewrite Hnl; reflexivity).
    rewrite Hb in H.
    destruct (Ascii.eqb c dq || Ascii.eqb c sq) eqn:Eq.
    + assert (Hq : forall triple body skipped, s = skipped ++ body -> count_nl skipped = 0 ->
                quoted_word triple c body line = TWord w r l' ->
                exists pre body0, c :: s = pre ++ body0 ++ r /\ wline w = line + count_nl pre
                                  /\ l' = line + count_nl (pre ++ body0) /\ body0 <> []).
      { intros triple body skipped Hs Hsk Hqw.
        destruct (quoted_word_lines _ _ _ _ _ _ _ Hnl Hqw) as (Hw & pre & Hp & Hl).
        exists [], (c :: skipped ++ pre). split; [cbn; f_equal; rewrite Hs, Hp, <- app_assoc; reflexivity|].
        cbn [app]. cnt. rewrite (nlc_not_nl _ Hnl), Hsk. repeat split; try lia; discriminate. }
      destruct s as [|q1 [|q2 s']].
      * eapply (Hq false [] []); [reflexivity|reflexivity|exact H].
      * eapply (Hq false [q1] []); [reflexivity|reflexivity|exact H].
      * destruct (Ascii.eqb q1 c && Ascii.eqb q2 c) eqn:E2.
        -- apply andb_prop in E2 as [E21 E22]. apply Ascii.eqb_eq in E21, E22. subst q1 q2.
           eapply (Hq true s' [c;c]); [reflexivity| |exact H]. cnt; rewrite ?(nlc_not_nl _ Hnl); reflexivity.
        -- eapply (Hq false (q1 :: q2 :: s') []); [reflexivity|reflexivity|exact H].
    + match type of H with (if ?b then _ else _) = _ => destruct b end.
      * destruct (take σ s) as [w0 r0] eqn:Et. inversion H; subst.
        destruct (take_split _ _ _ _ Et) as [Hs Hc].
        exists [], (c :: w0). split; [cbn; f_equal; exact Hs|].
        cbn [app wline]. cnt. rewrite (nlc_not_nl _ Hnl), Hc. repeat split; try lia; discriminate.
      * inversion H; subst. exists [], [c]. split; [reflexivity|].
        cbn [app wline]. cnt. rewrite (nlc_not_nl _ Hnl). repeat split; try lia; discriminate.
Qed.

(* the error line of a missing closing quote is the last line of the input *)
Lemma scan_err_line : forall triple q s line l, scan triple q s line = inr l -> l = line + count_nl s.
Proof.
  intros triple q s; remember (length s) as n eqn:Hn. revert s Hn.
  induction n as [n IHn] using lt_wf_ind; intros s Hn line l H.
  destruct s as [|c s]; [cbn in H; inversion H; cbn; lia|].
  cbn [scan] in H.
  assert (Hstep : forall x s' line1, length s' < n -> scons x (scan triple q s' line1) = inr l -> l = line1 + count_nl s').
  { intros x s' line1 Hlt Hs. unfold scons in Hs.
    destruct (scan triple q s' line1) as [[[v1 r1] l1]|l1] eqn:E; [discriminate|].
    inversion Hs; subst. eapply IHn; [exact Hlt|reflexivity|exact E]. }
  assert (Hlen : length s < n) by (subst n; cbn; lia).
  assert (Hmain : scons c (scan triple q s (bump c line)) = inr l -> l = line + count_nl (c :: s)).
  { intros H'. rewrite (Hstep _ _ _ Hlen H'). cnt. }
  destruct (Ascii.eqb c q) eqn:Ecq.
  - destruct triple; cbn [negb] in H; [|discriminate].
    destruct s as [|q1 [|q2 s']]; try (apply Hmain; exact H).
    destruct (Ascii.eqb q1 q && Ascii.eqb q2 q); [discriminate|apply Hmain; exact H].
  - destruct (Ascii.eqb c bs) eqn:Ecb; [|apply Hmain; exact H].
    destruct s as [|d s']; [apply Hmain; exact H|].
    assert (Hlen' : length s' < n) by (cbn in Hlen; lia).
    destruct (Ascii.eqb d bs) eqn:Edb.
    + rewrite (Hstep _ _ _ Hlen' H). apply Ascii.eqb_eq in Edb; subst d. cnt. change (nlc bs) with 0. lia.
    + destruct (Ascii.eqb d q) eqn:Edq.
      * rewrite (Hstep _ _ _ Hlen' H). cnt.
      * destruct (Ascii.eqb d nl) eqn:Edn; [|apply Hmain; exact H].
        rewrite (IHn (length s') Hlen' s' eq_refl _ _ H). cnt. rewrite (nlc_nl _ Edn). lia.
Qed.

Theorem nw_err_line : forall σ ic s line l,
  nw σ ic s line = TErrQuote l -> l = line + count_nl s.
Proof.
  intros σ ic s; revert ic; induction s as [|c s IH]; intros ic line l H; [discriminate|].
  cbn [nw] in H.
  assert (Hrec : forall ic', nw σ ic' s (bump c line) = TErrQuote l -> l = line + count_nl (c :: s)).
  { intros ic' H'. rewrite (IH _ _ _ H'). cnt. }
  destruct ic; [eapply Hrec; exact H|].
  destruct (isspace c) eqn:Esp; [eapply Hrec; exact H|].
  match type of H with (if ?b then _ else _) = _ => destruct b end; [eapply Hrec; exact H|].
  pose proof (not_space_not_nl _ Esp) as Hnl.
  assert (Hb : bump c line = line) by (unfold bump; rewrite Hnl; reflexivity).
  rewrite Hb in H.
  assert (Hq : forall triple body skipped, s = skipped ++ body -> count_nl skipped = 0 ->
            quoted_word triple c body line = TErrQuote l -> l = line + count_nl (c :: s)).
  { intros triple body skipped Hs Hsk Hqw. unfold quoted_word in Hqw.
    destruct (scan triple c body line) as [[[v r1] l1]|l1] eqn:E; [discriminate|].
    inversion Hqw; subst l1. rewrite (scan_err_line _ _ _ _ _ E).
    rewrite Hs. cnt; try (rewrite (nlc_not_nl _ Hnl), Hsk; lia). }
  destruct (Ascii.eqb c dq || Ascii.eqb c sq) eqn:Eq.
  - destruct s as [|q1 [|q2 s']].
    + eapply (Hq false [] []); [reflexivity|reflexivity|exact H].
    + eapply (Hq false [q1] []); [reflexivity|reflexivity|exact H].
    + destruct (Ascii.eqb q1 c && Ascii.eqb q2 c) eqn:E2.
      * apply andb_prop in E2 as [E21 E22]. apply Ascii.eqb_eq in E21, E22. subst q1 q2.
        eapply (Hq true s' [c;c]); [reflexivity| |exact H]. cnt; rewrite ?(nlc_not_nl _ Hnl); reflexivity.
      * eapply (Hq false (q1 :: q2 :: s') []); [reflexivity|reflexivity|exact H].
  - match type of H with (if ?b then _ else _) = _ => destruct b end.
    + destruct (take σ s); discriminate.
    + discriminate.
Qed.

(* ---------- the tokenizer always terminates normally: fuel = length + 1 is never exhausted *)
Lemma nw_rest_shorter : forall σ ic s line w r l', nw σ ic s line = TWord w r l' -> length r < length s.
Proof.
  intros σ ic s line w r l' H.
  destruct (nw_lines _ _ _ _ _ _ _ H) as (pre & body & Hs & _ & _ & Hb).
  rewrite Hs, !app_length. destruct body; [congruence|cbn; lia].
Qed.

Theorem all_words_no_crash : forall σ fuel s line c, length s < fuel -> all_words fuel σ s line <> Crash c.
Proof.
  intros σ fuel; induction fuel as [|f IH]; intros s line c Hlt; [lia|].
  cbn [all_words]. destruct (nw σ false s line) as [|w r l|l] eqn:E; try discriminate.
  pose proof (nw_rest_shorter _ _ _ _ _ _ _ E) as Hr.
  unfold bind. destruct (all_words f σ r l) eqn:E2; try discriminate.
  intros Hc. inversion Hc; subst. eapply IH; [|exact E2]. lia.
Qed.

Theorem tokenize_no_crash : forall σ s c, tokenize σ s <> Crash c.
Proof. intros; apply all_words_no_crash; lia. Qed.
