Require Extraction.
Require Import ExtrOcamlBasic.
From Phil Require Import Base Tree Choice EntryChoice.
Extraction "Choice.ml" run_fetch run_from_words run_fetch_extract run_as_words run_type_str.
