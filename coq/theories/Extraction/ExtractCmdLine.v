Require Extraction.
Require Import ExtrOcamlBasic.
From Phil Require Import Base Tree CmdLine EntryCmdLine.
Extraction "CmdLine.ml" run_score run_strops run_decide run_args.
