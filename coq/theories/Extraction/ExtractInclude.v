Require Extraction.
Require Import ExtrOcamlBasic.
From Phil Require Import Base Tree Include EntryInclude.
Extraction "Include.ml" run_paths run_includes.
