Require Extraction.
Require Import ExtrOcamlBasic.
From Phil Require Import Base Tree Vars Choice Fetch EntryFetch EntryIdem.
Extraction "Idem.ml" run_fetch run_fetch_self.
