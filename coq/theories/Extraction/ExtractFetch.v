Require Extraction.
Require Import ExtrOcamlBasic.
From Phil Require Import Base Tree Vars Choice Fetch EntryFetch.
Extraction "Fetch.ml" run_fetch run_fetchok.
