Require Extraction.
Require Import ExtrOcamlBasic.
From Phil Require Import Base EntryExtract.
Extraction "Extract.ml" run_extract run_format run_extract_format run_canon_str run_clone run_paths run_guard run_class_attrs run_extractwf.
