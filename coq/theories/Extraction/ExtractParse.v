Require Extraction.
Require Import ExtrOcamlBasic.
From Phil Require Import Base Tokenizer Tree Parser Show ShowProofs WordsRoundtrip TreeRoundtrip EntryParse.
Extraction "Parse.ml" run_parse run_show run_wfshow run_dtreeok.
