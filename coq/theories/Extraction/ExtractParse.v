Require Extraction.
Require Import ExtrOcamlBasic.
From Phil Require Import Base Tokenizer Tree Parser EntryParse.
Extraction "Parse.ml" run_parse.
