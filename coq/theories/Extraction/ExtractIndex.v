Require Extraction.
Require Import ExtrOcamlBasic.
From Phil Require Import Base Tree Index EntryIndex.
Extraction "Index.ml" run_history.
