Require Extraction.
Require Import ExtrOcamlBasic.
From Phil Require Import Base Tree Vars EntryVars.
Extraction "Vars.ml" run_fragments run_ident run_resolve_ids run_resolve_all run_get.
