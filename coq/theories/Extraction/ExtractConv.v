Require Extraction.
Require Import ExtrOcamlBasic.
From Phil Require Import Base Conv EntryConv.
Extraction "Conv.ml" run_from_words run_as_words run_int_of_str run_float_of_int run_num_cmp run_init.
