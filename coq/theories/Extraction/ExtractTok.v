Require Extraction.
Require Import ExtrOcamlBasic.
From Phil Require Import Base Tokenizer EntryTok.
Extraction "Tok.ml" run_tokenize run_quote run_sfs run_chartable.
