#!/usr/bin/env python3
"""Regenerates MANIFEST.json from harness/claims.py (single source of truth for what is claimed)."""
import json, sys
sys.path.insert(0, '/verif/harness')
from claims import CLAIMS, NOT_APPLICABLE, NOTES
import re
def streams_of(pid):
    src = open('/verif/harness/streams/%s.py' % pid.lower()).read()
    m = re.search(r'SPEC\s*=\s*\{.*?"streams"\s*:\s*\[(.*?)\]', src, re.S)
    return " ".join(m.group(1).split()) if m else ""
props = [json.loads(l) for l in open('/verif/properties.jsonl')]
ids = [p['id'] for p in props]
checks = []
for pid in ids:
    if pid in CLAIMS:
        c = CLAIMS[pid]
        checks.append({
            "property_id": pid,
            "quick_cmd": "./check %s --tier quick" % pid,
            "thorough_cmd": "./check %s --tier thorough" % pid,
            "evidence_file": "/verif/evidence/%s.json" % pid,
            "replay_cmd_template": "./check %s --replay {path}" % pid,
            "engine": "coq-model+correspondence",
            "level_claimed": {"category": "proof", "text": c["text"], "design_ref": c.get("design_ref", "DESIGN.md section 5, " + pid)},
            "level_note": c["note"] + " Streams run by this check on every run: " + streams_of(pid) + " (DESIGN.md section 4 says which are "
                          "correspondence streams and which observe the implementation only, through the property's oracle).",
            "technique": c.get("technique", "Coq 8.16 theorems over a hand-written Gallina model + differential correspondence (extracted OCaml model vs. freephil) on every run"),
        })
na = [{"property_id": pid, "reason": NOT_APPLICABLE.get(pid, "check not built yet in this round; planned per DESIGN.md section 9")} for pid in ids if pid not in CLAIMS]
m = {
    "version": 1,
    "setup_cmd": "cd /verif && ./build.sh all",
    "hooks": {"guard": "FREEPHIL_VERIF", "enable": "export FREEPHIL_VERIF=1 (set by ./check; no source hook is needed at present, the harness observes freephil from outside)",
              "baseline_off_cmd": "cd /repo && /venv/bin/python -m pytest -ra -q -p no:cacheprovider --timeout=900 --continue-on-collection-errors",
              "source_commits": [], "add_only": True},
    "engines": [{"name": "coq-model+correspondence", "path": "/verif/check", "serves_properties": sorted(CLAIMS),
                 "kind_free_text": "Coq 8.16.1 development (coq/theories: Model, Proofs, Properties) + extraction to OCaml drivers (build/<cluster>/drv) + Python differential harness (harness/)"}],
    "checks": checks,
    "notes": NOTES,
    "not_applicable": na,
}
json.dump(m, open('/verif/MANIFEST.json', 'w'), indent=1)
print("claimed:", sorted(CLAIMS), "unclaimed:", [x["property_id"] for x in na])
